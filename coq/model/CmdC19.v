(** CmdC19.v — command table of the model runner for property C19
    (commands 1900 .. 1999 of [run_cmd]; local number = c mod 100).

    params   = [jlo; jhi; mlo; mhi; dlo; dhi; klo; khi; allow_less; recirc; suffix; limit?]
    instance = list of jobs, job = list of [machines; duration]
    action   = [0; oj?; om?] generate | [1] iter | [2] next | [3; fuel] list | [4; avail?] create op
    event    = [0; params index; own?; k] new generator (own? = the stream of its private RNG;
                                          k = draws of the shared RNG before this event)
             | [1; i; action]
             | [2; k] unrelated use of the module-level RNG
    output   = [0] nothing | [1; name; instance] | [2; list of [name; instance]] | [3; op; avail?]
             | [4] StopIteration | [5; e] raised | [6] stream exhausted / contract broken *)
From JSL Require Import Base Instance Generator GeneratorSpec.

Definition dec_params (v : val) : params :=
  mkparams (asN (vnth v 0)) (asN (vnth v 1)) (asN (vnth v 2)) (asN (vnth v 3))
           (asZ (vnth v 4)) (asZ (vnth v 5)) (asN (vnth v 6)) (asN (vnth v 7))
           (asB (vnth v 8)) (asB (vnth v 9)) (asLof asZ (vnth v 10)) (asOpt asN (vnth v 11)).

Definition enc_oper (o : op) : val := VL [vlist vnat (machines o); VI (duration o)].
Definition enc_instance (I : instance) : val := vlist (vlist enc_oper) I.
Definition enc_ginst (x : ginst) : val := VL [vlist VI (fst x); enc_instance (snd x)].

Definition dec_action (v : val) : action :=
  match asZ (vnth v 0) with
  | 0 => AGenerate (asOpt asN (vnth v 1)) (asOpt asN (vnth v 2))
  | 1 => AIter
  | 2 => ANext
  | 3 => AList (asN (vnth v 1))
  | _ => ACreateOp (asOpt (asLof asN) (vnth v 1))
  end.

Definition enc_output (o : output) : val :=
  match o with
  | ONone => VL [VI 0]
  | OInst x => VL (VI 1 :: asL (enc_ginst x))
  | OList xs => VL [VI 2; vlist enc_ginst xs]
  | OOp o avail => VL [VI 3; enc_oper o; vopt (vlist vnat) avail]
  | OStop => VL [VI 4]
  | OExn e => VL [VI 5; VI e]
  | OBad => VL [VI 6]
  end.

Definition dec_event (ps : list params) (gl : stream) (v : val) : event :=
  match asZ (vnth v 0) with
  | 0 => ENew (nth (asN (vnth v 1)) ps (dec_params (VL [])))
              (asOpt (asLof asZ) (vnth v 2)) (skipn (asN (vnth v 3)) gl)
  | 1 => EAct (asN (vnth v 1)) (dec_action (vnth v 2))
  | _ => EOther (skipn (asN (vnth v 1)) gl)
  end.

(** 1: a whole scenario on the world of generators (repaired library).
    [params list; shared stream; events] -> [outputs; draws left in the shared
    stream; draws left per generator]. *)
Definition cmd_scenario (v : val) : val :=
  let ps := asLof dec_params (vnth v 0) in
  let gl := asLof asZ (vnth v 1) in
  let es := map (dec_event ps gl) (asL (vnth v 2)) in
  let r := run (empty_world gl) es in
  VL [vlist enc_output (fst r);
      vnat (length (w_global (snd r)));
      vlist (fun x => vnat (length (st_rng (g_st x)))) (w_gens (snd r))].

(** 2: single calls: list of [params; counter; iteration; action; draws] ->
    list of [output; draws left; counter; iteration]. *)
Definition cmd_calls (v : val) : val :=
  vlist (fun c =>
    let p := dec_params (vnth c 0) in
    let r := act p (dec_action (vnth c 3))
                 (mkgst (asLof asZ (vnth c 4)) (asN (vnth c 1)) (asN (vnth c 2))) in
    VL [enc_output (fst r); vnat (length (st_rng (snd r)));
        vnat (st_counter (snd r)); vnat (st_iter (snd r))]) (asL v).

(** 3: the oracle: list of [params; instance] -> the clauses of [shapeb]. *)
Definition cmd_shape (v : val) : val :=
  vlist (fun c => vlist vbool (shape_clauses (dec_params (vnth c 0)) (dec_instance (vnth c 1)))) (asL v).

(** 4: [list of name lists; list of params] -> [each name list pairwise
    distinct; wf_paramsb of each record]. *)
Definition cmd_names (v : val) : val :=
  VL [vlist (fun ns => vbool (nodup_nameb (asLof (asLof asZ) ns))) (asL (vnth v 0));
      vlist (fun c => vbool (wf_paramsb (dec_params c))) (asL (vnth v 1))].

(** 5: list of [params; instance] -> the stream that spells the instance out. *)
Definition cmd_encode (v : val) : val :=
  vlist (fun c => vlist VI (encode (dec_params (vnth c 0)) (dec_instance (vnth c 1)))) (asL v).

Definition run_c19 (c : Z) (v : val) : val :=
  match c with
  | 1 => cmd_scenario v
  | 2 => cmd_calls v
  | 3 => cmd_shape v
  | 4 => cmd_names v
  | 5 => cmd_encode v
  | _ => VL []
  end.
