(** CmdC19.v — command table of the model runner for property C19
    (commands 1900 .. 1999 of [run_cmd]; local number = c mod 100). *)
From JSL Require Import Base.

Definition run_c19 (c : Z) (v : val) : val :=
  match c with
  | _ => VL []
  end.
