(** CmdC12.v — command table of the model runner for property C12
    (commands 1200 .. 1299 of [run_cmd]; local number = c mod 100).

    *** 1: a feature-observer session as CmdC11's command 1, with one more
    event for creation scripts that contain a [ResidualGraphUpdater]:
      [4; rm_m; rm_j]   the updater's [_initialize_is_completed_observer_attribute]:
                        nothing when both options are off, otherwise
                        [create_or_get_observer(IsCompletedObserver, has_all_features,
                        feature_types = MACHINES if rm_m, JOBS if rm_j)] — the first
                        subscribed IsCompleted observer tracking those feature types,
                        or a new one (constructor [f_new], dependencies included).
    The updater itself is not part of this world (its model is Residual.v /
    CmdC17's command 1); the event only accounts for the feature observers it
    leaves subscribed. Either way the event is a constructor call of
    FeatureObservers.v or nothing, so every session is a creation script in the
    sense of properties/C12b.v.
    [I; filters; events] -> one output per event: [result; subscriber system; rows].

    *** 2: CmdC17's command 1 (the residual graph updater with the observers
    it depends on, events = dispatches and resets) on a graph some of whose
    nodes were removed BEFORE the updater was constructed on it
    ([JobShopGraph.remove_node] on each listed id that is still present, in
    order) — the reset theorem of C12b.v holds for ANY initial graph.
    [I; fs; builder; pre; rm_m; rm_j; events; ids] -> as CmdC17's command 1. *)
From JSL Require Import Base Instance Dstate Filters World Observers Session FeatureObservers CmdC11
     Graph Residual CmdC16 CmdC17.

Definition has_all (bm bj : bool) (o : fobs) : bool :=
  fkind_eqb (fo_kind o) FIsCompleted && implb bm (isSome (fo_mach o)) && implb bj (isSome (fo_jobs o)).

Definition updater_observer (I : instance) (bm bj : bool) (w : fwld) : fwld :=
  if bm || bj then
    match find_sub_f (sys_of w) (has_all bm bj) with
    | Some _ => w
    | None => fst (f_construct I FIsCompleted (mkftm false bm bj) None w)
    end
  else w.

Definition f_event12 (I : instance) (ev : val) (w : fwld) : fwld * val :=
  match asZ (vnth ev 0) with
  | 4 => (updater_observer I (asB (vnth ev 1)) (asB (vnth ev 2)) w, VL [VI 0; VL []])
  | _ => f_event I ev w
  end.

Fixpoint f_events12 (I : instance) (evs : list val) (w : fwld) : list val :=
  match evs with
  | [] => []
  | ev :: t => let '(w', out) := f_event12 I ev w in
               VL [out; enc_fsys (sys_of w'); enc_sched (sched (core w'))] :: f_events12 I t w'
  end.

Definition cmd_fsession12 (v : val) : val :=
  let I := dec_instance (vnth v 0) in
  let fs := asLof dec_fname (vnth v 1) in
  VL (f_events12 I (asL (vnth v 2)) (fw fs (init_d I) empty_sys)).

Definition cmd_run12 (v : val) : val :=
  let I := dec_instance (vnth v 0) in
  let fs := asLof dec_fname (vnth v 1) in
  match build_by_code (asN (vnth v 2)) I with
  | None => VL [VI 0]
  | Some g0 =>
      let g := fold_left remove_if_present (asLof asN (vnth v 7)) g0 in
      let u := rgu_fresh I (asLof dec_pre (vnth v 3)) (asB (vnth v 4)) (asB (vnth v 5)) g in
      let res := fold_left (run_event17 I u) (asL (vnth v 6)) (rg_world fs (init_d I) u, []) in
      VL [VI 1; enc_state u; VL (snd res)]
  end.

(** as [cmd_run12], on a graph assembled from the public building blocks (recipe of CmdC16.v) *)
Definition cmd_run12_recipe (v : val) : val :=
  let I := dec_instance (vnth v 0) in
  let fs := asLof dec_fname (vnth v 1) in
  match build_recipe I (asL (vnth v 2)) with
  | None => VL [VI 0]
  | Some g0 =>
      let g := fold_left remove_if_present (asLof asN (vnth v 7)) g0 in
      let u := rgu_fresh I (asLof dec_pre (vnth v 3)) (asB (vnth v 4)) (asB (vnth v 5)) g in
      let res := fold_left (run_event17 I u) (asL (vnth v 6)) (rg_world fs (init_d I) u, []) in
      VL [VI 1; enc_state u; VL (snd res)]
  end.

Definition run_c12 (c : Z) (v : val) : val :=
  match c with
  | 1 => cmd_fsession12 v
  | 2 => cmd_run12 v
  | 3 => cmd_run12_recipe v
  | _ => VL []
  end.
