(** CmdC12.v — command table of the model runner for property C12
    (commands 1200 .. 1299 of [run_cmd]; local number = c mod 100). *)
From JSL Require Import Base.

Definition run_c12 (c : Z) (v : val) : val :=
  match c with
  | _ => VL []
  end.
