(** Filters.v — the four built-in ready-operation filters and their
    composition (job_shop_lib/dispatching/_ready_operation_filters.py,
    _factories.py), written as the loops they are. Executable only. *)
From JSL Require Import Base Instance Dstate.

Section Filters.
  Variable I : instance.
  Variable d : dstate.

  (** [_get_non_idle_machines]: machine ids with an operation still running at [t]. *)
  Definition non_idle_machines (t : Z) : list nat :=
    map s_mach (ongoing_at I t (sched d)).

  (** [filter_non_idle_machines] *)
  Definition filter_non_idle (L : list (nat * nat)) : list (nat * nat) :=
    let t := min_start_time I d L in
    let busy := non_idle_machines t in
    filter (fun k => negb (forallb (fun m => mem_nat m busy) (kmachines I k))) L.

  (** [filter_non_immediate_operations]. [earliest_start_time] raises on an
      operation without machines; such an operation is dropped here (valid
      instances have none). *)
  Definition filter_non_immediate_ops (L : list (nat * nat)) : list (nat * nat) :=
    let t := min_start_time I d L in
    filter (fun k => match kop I k with
                     | Some o => match earliest_start_time d (fst k) o with
                                 | Some s => s =? t
                                 | None => false end
                     | None => false end) L.

  (** [_get_min_machine_end_times]: [None] is the code's [float("inf")]. *)
  Definition min_end_on (L : list (nat * nat)) (m : nat) : option Z :=
    minZ_opt (flat_map (fun k => if mem_nat m (kmachines I k)
                                 then [start_time d (fst k) m + kdur I k] else []) L).

  Definition not_dominated_on (L : list (nat * nat)) (k : nat * nat) (m : nat) : bool :=
    match min_end_on L m with
    | None => true
    | Some e => start_time d (fst k) m <? e
    end.

  (** [filter_dominated_operations], with its early [return [operation]] for
      a zero-duration operation (which discards what was collected so far). *)
  Fixpoint dominated_loop (L rest : list (nat * nat)) : list (nat * nat) + (nat * nat) :=
    match rest with
    | [] => inl []
    | k :: r =>
        if kdur I k =? 0 then inr k
        else match dominated_loop L r with
             | inr z => inr z
             | inl acc => if existsb (not_dominated_on L k) (kmachines I k)
                          then inl (k :: acc) else inl acc
             end
    end.
  Definition filter_dominated (L : list (nat * nat)) : list (nat * nat) :=
    match dominated_loop L L with inl acc => acc | inr z => [z] end.

  (** [_get_immediate_machines] / [filter_non_immediate_machines] *)
  Definition immediate_machine (L : list (nat * nat)) (m : nat) : bool :=
    let t := min_start_time I d L in
    existsb (fun k => mem_nat m (kmachines I k) && (start_time d (fst k) m =? t)) L.
  Definition filter_non_immediate_machines (L : list (nat * nat)) : list (nat * nat) :=
    filter (fun k => existsb (immediate_machine L) (kmachines I k)) L.

  (** Filter names, as in [ReadyOperationsFilterType]. *)
  Inductive fname := FDominated | FNonImmediateMachines | FNonIdleMachines | FNonImmediateOps.

  Definition apply_filter (f : fname) (L : list (nat * nat)) : list (nat * nat) :=
    match f with
    | FDominated => filter_dominated L
    | FNonImmediateMachines => filter_non_immediate_machines L
    | FNonIdleMachines => filter_non_idle L
    | FNonImmediateOps => filter_non_immediate_ops L
    end.

  (** [create_composite_operation_filter]: left fold in list order. The
      dispatcher's [ready_operations_filter = None] is the empty list. *)
  Definition apply_filters (fs : list fname) (L : list (nat * nat)) : list (nat * nat) :=
    fold_left (fun acc f => apply_filter f acc) fs L.

  Definition available (fs : list fname) : list (nat * nat) :=
    apply_filters fs (raw_ready I d).
End Filters.

Definition dec_fname (v : val) : fname :=
  match asZ v with
  | 0 => FDominated | 1 => FNonImmediateMachines | 2 => FNonIdleMachines | _ => FNonImmediateOps
  end.
