(** Views.v — [JobShopInstance]'s numbering and derived views as written,
    [to_dict]/[from_matrices], [from_taillard_file] at token level,
    [Schedule.to_dict]/[from_dict]/[from_job_sequences]
    (job_shop_lib/_job_shop_instance.py, _schedule.py). Executable only.

    Every view that can raise in Python returns [A + exn]: [EOther] stands for
    ValueError/TypeError ([max] of an empty sequence, [max(-1, *[])]), [EIndex]
    for IndexError, [EUninit] for UninitializedAttributeError. *)
From JSL Require Import Base Instance Dstate Filters World.
Set Implicit Arguments.

(** ** Error-propagating map (a comprehension whose body may raise) *)
Fixpoint mapE {A B : Type} (f : A -> B + exn) (l : list A) : list B + exn :=
  match l with
  | [] => inl []
  | x :: t => match f x with
              | inr e => inr e
              | inl y => match mapE f t with inr e => inr e | inl r => inl (y :: r) end
              end
  end.

(** ** set_operation_attributes: the double loop with its running counter *)
Record attrs := mkattrs { at_job : nat; at_pos : nat; at_id : nat }.

Fixpoint set_attrs_job (j p c : nat) (job : list op) : list attrs * nat :=
  match job with
  | [] => ([], c)
  | _ :: t => let rc := set_attrs_job j (S p) (S c) t in (mkattrs j p c :: fst rc, snd rc)
  end.
Fixpoint set_attrs_from (j c : nat) (I : instance) : list (list attrs) :=
  match I with
  | [] => []
  | job :: t => let rc := set_attrs_job j 0 c job in fst rc :: set_attrs_from (S j) (snd rc) t
  end.
Definition set_operation_attributes (I : instance) : list (list attrs) := set_attrs_from 0 0 I.

(** ** Views *)

(** [num_machines]: [max_machine_id = -1; for ...: max(max_machine_id, *operation.machines)];
    an operation without machines makes [max(-1)] a TypeError. *)
Fixpoint nm_loop (ops : list op) (acc : Z) : Z + exn :=
  match ops with
  | [] => inl acc
  | o :: t => match machines o with
              | [] => inr EOther
              | ms => nm_loop t (fold_left Z.max (map Z.of_nat ms) acc)
              end
  end.
Definition num_machines_code (I : instance) : nat + exn :=
  match nm_loop (concat I) (-1) with inl a => inl (Z.to_nat (a + 1)) | inr e => inr e end.

Definition num_operations_code (I : instance) : nat := sumN (map (@length op) I).

(** [Operation.machine_id] *)
Definition machine_id_code (o : op) : nat + exn :=
  if (1 <? length (machines o))%nat then inr EUninit
  else match machines o with [] => inr EIndex | m :: _ => inl m end.

(** An entry of a machines matrix: an int or a list of ints. *)
Inductive mval := MInt (m : nat) | MList (ms : list nat).

Definition machines_matrix_code (I : instance) : list (list mval) + exn :=
  if is_flexible I then inl (map (map (fun o => MList (machines o))) I)
  else mapE (mapE (fun o => match machine_id_code o with inl m => inl (MInt m) | inr e => inr e end)) I.

(** [max(len(row) for row in matrix)] *)
Definition max_len_code {A} (ll : list (list A)) : nat + exn :=
  match ll with
  | [] => inr EOther
  | r :: t => inl (fold_left Nat.max (map (@length A) t) (length r))
  end.

(** [a = np.full(n, nan); a[:len(row)] = row] *)
Definition fill_1d {A} (n : nat) (row : list A) : list (option A) :=
  map Some row ++ skipn (length row) (repeat None n).

Definition fill_2d {A} (matrix : list (list A)) : list (list (option A)) + exn :=
  match max_len_code matrix with
  | inr e => inr e
  | inl n => inl (map (fill_1d n) matrix)
  end.

Definition fill_3d {A} (matrix : list (list (list A))) : list (list (list (option A))) + exn :=
  match max_len_code matrix with
  | inr e => inr e
  | inl n =>
    match matrix with
    | [] => inr EIndex
    | [] :: _ => inr EIndex                       (* len(matrix[0][0]) *)
    | (r0 :: _) :: _ =>
      let inner := fold_left (fun acc row => fold_left (fun a r => Nat.max a (length r)) row acc)
                             matrix (length r0) in
      inl (map (fun row => map (fill_1d inner) row
                           ++ skipn (length row) (repeat (repeat None inner) n)) matrix)
    end
  end.

Definition durations_matrix_array_code (I : instance) : list (list (option Z)) + exn :=
  fill_2d (durations_matrix I).

Inductive marr := A2 (a : list (list (option nat))) | A3 (a : list (list (list (option nat)))).

Definition mval_int (v : mval) : nat := match v with MInt m => m | MList _ => 0%nat end.

Definition machines_matrix_array_code (I : instance) : marr + exn :=
  match machines_matrix_code I with
  | inr e => inr e
  | inl mm =>
    if is_flexible I then
      match fill_3d (machines_matrix I) with inl a => inl (A3 a) | inr e => inr e end
    else
      match fill_2d (map (map mval_int) mm) with inl a => inl (A2 a) | inr e => inr e end
  end.

(** The triple loop [for job: for operation: for machine_id in operation.machines]
    visits the keys in job-major order. *)
Definition fold_machines {S : Type} (I : instance) (f : S -> nat * nat -> nat -> S) (s : S) : S :=
  fold_left (fun acc k => fold_left (fun a m => f a k m) (kmachines I k) acc) (all_keys I) s.

Definition operations_by_machine_code (I : instance) : list (list (nat * nat)) + exn :=
  match num_machines_code I with
  | inr e => inr e
  | inl nm => inl (fold_machines I (fun acc k m => upd acc m (nth m acc [] ++ [k])) (repeat [] nm))
  end.

Definition max_list_code (l : list Z) : Z + exn :=
  match l with [] => inr EOther | x :: t => inl (fold_left Z.max t x) end.

Definition max_duration_per_job_code (I : instance) : list Z + exn :=
  mapE (fun job => max_list_code (map duration job)) I.

Definition max_duration_code (I : instance) : Z + exn :=
  match max_duration_per_job_code I with inr e => inr e | inl l => max_list_code l end.

Definition max_duration_per_machine_code (I : instance) : list Z + exn :=
  match num_machines_code I with
  | inr e => inr e
  | inl nm => inl (fold_machines I (fun acc k m => upd acc m (Z.max (nthZ acc m) (kdur I k))) (repeat 0 nm))
  end.

Definition machine_loads_code (I : instance) : list Z + exn :=
  match num_machines_code I with
  | inr e => inr e
  | inl nm => inl (fold_machines I (fun acc k m => upd acc m (nthZ acc m + kdur I k)) (repeat 0 nm))
  end.

Definition total_duration_code (I : instance) : Z := sumZ (job_durations I).

(** ** to_dict / from_matrices; name and metadata are opaque values *)
Section Dict.
  Variables Nm Md Sm : Type.

  Record inst_obj := mkio { io_jobs : instance; io_name : Nm; io_meta : Md }.
  Record inst_dict := mkid { d_name : Nm; d_dur : list (list Z); d_mach : list (list mval); d_meta : Md }.

  Definition to_dict (X : inst_obj) : inst_dict + exn :=
    match machines_matrix_code (io_jobs X) with
    | inr e => inr e
    | inl mm => inl (mkid (io_name X) (durations_matrix (io_jobs X)) mm (io_meta X))
    end.

  (** [Operation.__init__]: [[machines] if isinstance(machines, int) else machines] *)
  Definition op_of (d : Z) (mv : mval) : op :=
    mkop (match mv with MInt m => [m] | MList l => l end) d.

  Fixpoint fm_job (ds : list Z) (p : nat) (mrow : option (list mval)) : list op + exn :=
    match ds with
    | [] => inl []
    | d :: t =>
      match mrow with
      | None => inr EIndex
      | Some r => match nth_error r p with
                  | None => inr EIndex
                  | Some mv => match fm_job t (S p) mrow with
                               | inr e => inr e
                               | inl ops => inl (op_of d mv :: ops)
                               end
                  end
      end
    end.

  Fixpoint fm_jobs (dm : list (list Z)) (j : nat) (mm : list (list mval)) : instance + exn :=
    match dm with
    | [] => inl []
    | ds :: t => match fm_job ds 0 (nth_error mm j) with
                 | inr e => inr e
                 | inl job => match fm_jobs t (S j) mm with inr e => inr e | inl r => inl (job :: r) end
                 end
    end.

  Definition from_matrices (D : inst_dict) : inst_obj + exn :=
    match fm_jobs (d_dur D) 0 (d_mach D) with
    | inr e => inr e
    | inl jobs => inl (mkio jobs (d_name D) (d_meta D))
    end.

  (** ** Schedule.to_dict *)
  Record sched_obj := mkso { so_inst : inst_obj; so_rows : schedule; so_meta : Sm }.
  Record sched_dict := mksd { sd_inst : inst_dict; sd_seqs : list (list Z); sd_meta : Sm }.

  Definition job_sequences (S : schedule) : list (list Z) :=
    map (map (fun x => Z.of_nat (s_job x))) S.

  Definition sched_to_dict (X : sched_obj) : sched_dict + exn :=
    match to_dict (so_inst X) with
    | inr e => inr e
    | inl D => inl (mksd D (job_sequences (so_rows X)) (so_meta X))
    end.
End Dict.

(** ** from_taillard_file at token level: a file is a list of lines, a line
    is a comment or a list of integers (an empty line is [TRow []]). *)
Inductive tline := TComment | TRow (toks : list Z).

(** [l[::2]] *)
Fixpoint stride2 {A} (l : list A) : list A :=
  match l with
  | [] => []
  | [x] => [x]
  | x :: _ :: t => x :: stride2 t
  end.

Definition row_ops (r : list Z) : list op :=
  map (fun md => mkop [Z.to_nat (fst md)] (snd md)) (combine (stride2 r) (stride2 (tl r))).

Fixpoint parse_lines (header_seen : bool) (ls : list tline) : instance :=
  match ls with
  | [] => []
  | TComment :: t => parse_lines header_seen t
  | TRow r :: t => if header_seen then row_ops r :: parse_lines true t else parse_lines true t
  end.
Definition parse_taillard (ls : list tline) : instance := parse_lines false ls.

(** ** Schedule.from_job_sequences *)
Definition u_update (I : instance) (fs : list fname) (d : dstate) (x : sop) (u : unit) : unit := u.
Definition u_reset (I : instance) (fs : list fname) (d : dstate) (u : unit) : unit := u.

Inductive fjs_result := FOk (S : schedule) | FErr (e : exn) | FOutOfFuel.

(** The body of [for machine_id, job_ids in enumerate(raw_solution_deques)]. *)
Definition fjs_machine (I : instance) (m : nat) (dq : list Z) (w : world unit)
  : (world unit * list Z * bool) + exn :=
  match dq with
  | [] => inl (w, dq, false)
  | jid :: rest =>
    (* dispatcher.job_next_operation_index[job_id] *)
    match py_index (length (jnext (core w))) jid with
    | None => inr EIndex
    | Some j =>
      let p := nthN (jnext (core w)) j in
      (* instance.jobs[job_id][operation_index] *)
      match py_index (length I) jid with
      | None => inr EIndex
      | Some j' =>
        match nth_error (get_job I j') p with
        | None => inr EIndex
        | Some o =>
          if ((nthN (jnext (core w)) j' =? p)%nat && mem_nat m (machines o))%bool then
            match dispatch u_update I (mkreq j' p (Some (Z.of_nat m))) w with
            | (w', inl _) => inl (w', rest, true)
            | (_, inr e) => inr e
            end
          else inl (w, dq, false)
        end
      end
    end
  end.

Fixpoint fjs_pass (I : instance) (m : nat) (deqs : list (list Z)) (w : world unit)
  : (world unit * list (list Z) * bool) + exn :=
  match deqs with
  | [] => inl (w, [], false)
  | dq :: rest =>
    match fjs_machine I m dq w with
    | inr e => inr e
    | inl (w1, dq1, b1) =>
      match fjs_pass I (S m) rest w1 with
      | inr e => inr e
      | inl (w2, rest2, b2) => inl (w2, dq1 :: rest2, (b1 || b2)%bool)
      end
    end
  end.

(** [while not dispatcher.schedule.is_complete()] on explicit fuel (passes). *)
Fixpoint fjs_loop (I : instance) (fuel : nat) (w : world unit) (deqs : list (list Z)) : fjs_result :=
  if is_complete I (sched (core w)) then FOk (sched (core w))
  else match fuel with
       | O => FOutOfFuel
       | S f =>
         match fjs_pass I 0 deqs w with
         | inr e => FErr e
         | inl (w', deqs', progress) =>
           if progress then fjs_loop I f w' deqs' else FErr EValidation
         end
       end.

Definition from_job_sequences_fuel (I : instance) (fuel : nat) (seqs : list (list Z)) : fjs_result :=
  match reset u_reset I (init_w unit I []) with
  | (w0, inl _) => fjs_loop I fuel w0 seqs
  | (_, inr e) => FErr e
  end.
Definition from_job_sequences (I : instance) (seqs : list (list Z)) : fjs_result :=
  from_job_sequences_fuel I (S (num_ops I)) seqs.

(** ** Schedule.from_dict *)
Section FromDict.
  Variables Nm Md Sm : Type.
  Inductive fd_result := FDOk (X : sched_obj Nm Md Sm) | FDErr (e : exn) | FDOutOfFuel.
  Definition sched_from_dict (D : sched_dict Nm Md Sm) : fd_result :=
    match from_matrices (sd_inst D) with
    | inr e => FDErr e
    | inl X => match from_job_sequences (io_jobs X) (sd_seqs D) with
               | FOk rows => FDOk (mkso X rows (sd_meta D))
               | FErr e => FDErr e
               | FOutOfFuel => FDOutOfFuel
               end
    end.
End FromDict.
