(** CpSat.v — [ORToolsSolver] (job_shop_lib/constraint_programming/_ortools_solver.py):
    the CpModelProto built by [_initialize_model], the rebuild of the
    [Schedule] from the solver's values ([_create_schedule] followed by
    [Schedule.check_schedule]), the status -> metadata / exception logic of
    [solve], and a brute-force optimum over dispatch histories used by the
    harness as an independently computed optimum. Executable only.

    The CP-SAT search itself is NOT modelled: [solve] takes the status and the
    variable values returned by OR-tools as arguments. *)
From JSL Require Import Base Instance Dstate Filters World Feasible.

(** ** The part of CpModelProto the encoding uses *)

(** [CLin ts lo hi]: [lo <= sum c*x <= hi] ([None] = unbounded, INT64_MIN/MAX
    in the proto). [CInterval s d e]: interval with start variable [s],
    constant size [d], end variable [e]. [CNoOverlap ivs]: the intervals,
    given by their contents (the proto refers to them by constraint index;
    the harness resolves the indices). [CLinMax t es]: [t = max es]. *)
Inductive cstr :=
| CLin (ts : list (nat * Z)) (lo hi : option Z)
| CInterval (s : nat) (d : Z) (e : nat)
| CNoOverlap (ivs : list (nat * Z * nat))
| CLinMax (t : nat) (es : list nat).

Record cpmodel := mkcp {
  cp_vars : list (Z * Z);        (* domain [lo, hi] of variable i *)
  cp_cstrs : list cstr;
  cp_obj : option nat            (* minimise this variable *)
}.
Definition empty_model : cpmodel := mkcp [] [] None.

(** The solver object: [self.model], the insertion order of
    [self._operations_start] (a dict keyed by operation), [self._makespan]. *)
Record cpstate := mkst {
  st_model : cpmodel;
  st_keys : list (nat * nat);
  st_mk : option nat
}.
Definition fresh_state : cpstate := mkst empty_model [] None.

(** Variables are numbered in creation order: two per operation in job-major
    order (start, end), then the makespan. *)
Definition svar (I : instance) (k : nat * nat) : nat := (2 * op_id I (fst k) (snd k))%nat.
Definition evar (I : instance) (k : nat * nat) : nat := S (svar I k).

(** [Operation.machine_id] of a non-flexible operation. *)
Definition kmach (I : instance) (k : nat * nat) : nat := hd 0%nat (kmachines I k).
Definition keys_on (I : instance) (m : nat) : list (nat * nat) :=
  filter (fun k => (kmach I k =? m)%nat) (all_keys I).
Definition iv (I : instance) (k : nat * nat) : nat * Z * nat := (svar I k, kdur I k, evar I k).

(** [self.model = CpModel(); self._operations_start = {}] *)
Definition reset_model (st : cpstate) : cpstate := mkst empty_model [] (st_mk st).

(** [_create_variables]: per operation two [NewIntVar(0, total_duration)] and
    [Add(end == start + duration)] (proto: [-1*start + 1*end in [d, d]]). *)
Definition create_variables (I : instance) (st : cpstate) : cpstate :=
  let H := total_duration I in
  let ks := all_keys I in
  let m := st_model st in
  mkst (mkcp (cp_vars m ++ flat_map (fun _ => [(0, H); (0, H)]) ks)
             (cp_cstrs m ++ map (fun k => CLin [(svar I k, -1); (evar I k, 1)]
                                              (Some (kdur I k)) (Some (kdur I k))) ks)
             (cp_obj m))
       (st_keys st ++ ks) (st_mk st).

(** [_add_job_constraints]: [end(j,p-1) <= start(j,p)] for p >= 1
    (proto: [1*end - 1*start in [INT64_MIN, 0]]). *)
Definition prec_cstrs (I : instance) : list cstr :=
  flat_map (fun k => match snd k with
                     | O => []
                     | S p => [CLin [(evar I (fst k, p), 1); (svar I k, -1)] None (Some 0)]
                     end) (all_keys I).
Definition add_job_constraints (I : instance) (st : cpstate) : cpstate :=
  let m := st_model st in
  mkst (mkcp (cp_vars m) (cp_cstrs m ++ prec_cstrs I) (cp_obj m)) (st_keys st) (st_mk st).

(** [_add_machine_constraints]: per machine id (0 .. num_machines-1) one
    interval per operation of that machine, in job-major order, then
    [AddNoOverlap] of those intervals (also for a machine without operations). *)
Definition mach_cstrs (I : instance) : list cstr :=
  flat_map (fun m => map (fun k => CInterval (svar I k) (kdur I k) (evar I k)) (keys_on I m)
                     ++ [CNoOverlap (map (iv I) (keys_on I m))])
           (seq 0 (num_machines I)).
Definition add_machine_constraints (I : instance) (st : cpstate) : cpstate :=
  let m := st_model st in
  mkst (mkcp (cp_vars m) (cp_cstrs m ++ mach_cstrs I) (cp_obj m)) (st_keys st) (st_mk st).

(** [_set_objective]: a new variable (its index is the number of variables so
    far), [AddMaxEquality] over the end variables in dict order -- emitted
    only [if end_times:], i.e. not for an instance without any operation (the
    maximum of no expression cannot be satisfied; repaired in the library) --
    then [Minimize]. The makespan variable and the objective are there in
    either case. *)
Definition set_objective (I : instance) (st : cpstate) : cpstate :=
  let m := st_model st in
  let mk := length (cp_vars m) in
  mkst (mkcp (cp_vars m ++ [(0, total_duration I)])
             (cp_cstrs m ++ match st_keys st with
                            | [] => []
                            | _ :: _ => [CLinMax mk (map (evar I) (st_keys st))]
                            end)
             (Some mk))
       (st_keys st) (Some mk).

Definition build (I : instance) (prev : cpstate) : cpstate :=
  set_objective I (add_machine_constraints I (add_job_constraints I
    (create_variables I (reset_model prev)))).

Definition cp_encode (I : instance) : cpmodel := st_model (build I fresh_state).
Definition mkvar (I : instance) : nat := (2 * num_ops I)%nat.

(** ** Exceptions and statuses *)

Inductive cp_exn := CpValidation | CpUninit | CpIndex | CpNoSolution.
Definition cp_exn_code (e : cp_exn) : Z :=
  match e with CpValidation => 1 | CpUninit => 2 | CpIndex => 3 | CpNoSolution => 5 end.

(** [operation.machine_id] in [_add_machine_constraints]: the first operation
    (job-major) with several machines raises UninitializedAttributeError, one
    with none raises IndexError. The partially built model left behind in that
    case is not modelled. *)
Definition machine_id_exn (I : instance) : option cp_exn :=
  match find (fun o => negb (length (machines o) =? 1)%nat) (concat I) with
  | None => None
  | Some o => match machines o with [] => Some CpIndex | _ => Some CpUninit end
  end.

Definition initialize (I : instance) (prev : cpstate) : cpstate + cp_exn :=
  match machine_id_exn I with
  | Some e => inr e
  | None => inl (build I prev)
  end.

(** cp_model_pb2.CpSolverStatus *)
Inductive status := StUnknown | StModelInvalid | StFeasible | StInfeasible | StOptimal.
Definition status_of_code (z : Z) : status :=
  match z with 1 => StModelInvalid | 2 => StFeasible | 3 => StInfeasible | 4 => StOptimal
          | _ => StUnknown end.

(** ** Rebuilding the schedule *)

Definition sop_of (I : instance) (sigma : nat -> Z) (k : nat * nat) : sop :=
  mksop (fst k) (snd k) (sigma (svar I k)) (kmach I k).

(** [unsorted_schedule[operation.machine_id].append(...)] over the dict. *)
Definition unsorted_rows (I : instance) (sigma : nat -> Z) (ks : list (nat * nat)) : schedule :=
  map (fun m => map (sop_of I sigma) (filter (fun k => (kmach I k =? m)%nat) ks))
      (seq 0 (num_machines I)).

(** The sort key: [KeyStart] is the unrepaired [x.start_time]; [KeyStartEnd]
    the repaired [(x.start_time, x.end_time)] (tuples compare lexicographically). *)
Inductive sortkey := KeyStart | KeyStartEnd.
Definition key_le (I : instance) (kk : sortkey) (x y : sop) : bool :=
  match kk with
  | KeyStart => s_start x <=? s_start y
  | KeyStartEnd => (s_start x <? s_start y) ||
                   ((s_start x =? s_start y) && (s_end I x <=? s_end I y))
  end.

(** Python's [sorted] is stable; so is this insertion sort (an element is put
    in front of the elements that follow it and do not compare smaller). *)
Fixpoint insert_by {A : Type} (le : A -> A -> bool) (x : A) (l : list A) : list A :=
  match l with
  | [] => [x]
  | y :: t => if le x y then x :: l else y :: insert_by le x t
  end.
Definition sort_by {A : Type} (le : A -> A -> bool) (l : list A) : list A :=
  fold_right (insert_by le) [] l.

(** [Schedule.check_schedule] *)
Fixpoint check_row (I : instance) (m : nat) (prev : option sop) (row : list sop) : bool :=
  match row with
  | [] => true
  | x :: t =>
      (s_mach x =? m)%nat &&
      (match prev with Some y => s_end I y <=? s_start x | None => true end) &&
      check_row I m (Some x) t
  end.
Fixpoint check_rows_from (I : instance) (m : nat) (S : schedule) : bool :=
  match S with
  | [] => true
  | row :: t => check_row I m None row && check_rows_from I (Datatypes.S m) t
  end.
Definition check_schedule (I : instance) (S : schedule) : bool := check_rows_from I 0 S.

Definition reconstruct_gen (kk : sortkey) (I : instance) (ks : list (nat * nat))
           (sigma : nat -> Z) : schedule + cp_exn :=
  let Sc := map (sort_by (key_le I kk)) (unsorted_rows I sigma ks) in
  if check_schedule I Sc then inl Sc else inr CpValidation.

(** The repaired code. *)
Definition reconstruct (I : instance) (sigma : nat -> Z) : schedule + cp_exn :=
  reconstruct_gen KeyStartEnd I (all_keys I) sigma.

(** ** [solve] *)

(** metadata: (status: 1 = "optimal", 0 = "feasible"; makespan) *)
Definition solve_gen (kk : sortkey) (I : instance) (prev : cpstate) (stat : status) (sigma : nat -> Z)
  : cpstate * ((schedule * (Z * Z)) + cp_exn) :=
  match initialize I prev with
  | inr e => (prev, inr e)
  | inl st =>
    match stat with
    | StOptimal | StFeasible =>
      let mk := match st_mk st with Some v => sigma v | None => 0 end in
      let meta := ((match stat with StOptimal => 1 | _ => 0 end), mk) in
      match reconstruct_gen kk I (st_keys st) sigma with
      | inl Sc => (st, inl (Sc, meta))
      | inr e => (st, inr e)
      end
    | _ => (st, inr CpNoSolution)
    end
  end.
Definition solve := solve_gen KeyStartEnd.

(** ** Brute force over dispatch histories *)

Definition no_obs_update : instance -> list fname -> dstate -> sop -> unit -> unit :=
  fun _ _ _ _ u => u.

Definition bf_step (I : instance) (w : world unit) (c : (nat * nat) * nat) : world unit :=
  fst (dispatch no_obs_update I (mkreq (fst (fst c)) (snd (fst c)) (Some (Z.of_nat (snd c)))) w).

Fixpoint min_opt (l : list (option Z)) : option Z :=
  match l with
  | [] => None
  | None :: t => min_opt t
  | Some x :: t => match min_opt t with None => Some x | Some y => Some (Z.min x y) end
  end.

(** Every ready operation on every eligible machine, recursively; [None] when
    no complete schedule is reached within the fuel. *)
Fixpoint bf (fuel : nat) (I : instance) (w : world unit) : option Z :=
  match fuel with
  | O => None
  | S f =>
    match raw_ready I (core w) with
    | [] => if is_complete I (sched (core w)) then Some (makespan I (sched (core w))) else None
    | ready =>
      min_opt (map (fun c => bf f I (bf_step I w c))
                   (flat_map (fun k => map (fun m => (k, m)) (kmachines I k)) ready))
    end
  end.
Definition opt_bf (I : instance) : option Z := bf (S (num_ops I)) I (init_w unit I []).

(** ** Printing (for the structural comparison with [model.Proto()]) *)

Definition enc_oz (o : option Z) : val := vopt VI o.
Definition enc_iv (t : nat * Z * nat) : val := VL [vnat (fst (fst t)); VI (snd (fst t)); vnat (snd t)].
Definition enc_cstr (c : cstr) : val :=
  match c with
  | CLin ts lo hi => VL [VI 0; vlist (fun t => VL [vnat (fst t); VI (snd t)]) ts; enc_oz lo; enc_oz hi]
  | CInterval s d e => VL [VI 1; enc_iv (s, d, e)]
  | CNoOverlap ivs => VL [VI 2; vlist enc_iv ivs]
  | CLinMax t es => VL [VI 3; vnat t; vlist vnat es]
  end.
Definition enc_model (m : cpmodel) : val :=
  VL [vlist (fun d => VL [VI (fst d); VI (snd d)]) (cp_vars m);
      vlist enc_cstr (cp_cstrs m);
      vopt vnat (cp_obj m)].
Definition enc_result (r : (schedule * (Z * Z)) + cp_exn) : val :=
  match r with
  | inl (Sc, (st, mk)) => VL [VI 0; enc_sched Sc; VI st; VI mk]
  | inr e => VL [VI (cp_exn_code e)]
  end.
