(** Residual.v — [ResidualGraphUpdater] and what it depends on
    (job_shop_lib/graphs/graph_updaters/_utils.py, _graph_updater.py,
    _residual_graph_updater.py; the part of
    dispatching/feature_observers/_is_completed_observer.py,
    _remaining_operations_observer.py and
    dispatching/_unscheduled_operations_observer.py that the updater reads).
    Executable only; the proofs are in proofs/Residual*.v.

    * The updater is a dispatcher observer whose [update] READS ANOTHER
      observer (the [IsCompletedObserver] it created or found), so its state
      is modelled together with the observers it depends on: [u_deps] is the
      list of those subscribers in SUBSCRIPTION ORDER (all of them subscribed
      before the updater itself: [_initialize_is_completed_observer_attribute]
      runs before [super().__init__] subscribes the updater). [rgu_update] is
      "the dispatcher notifies these subscribers in order, then the updater",
      with the same shape [update I fs d x] as [Observers.o_update]: [d] is
      the dispatcher state AFTER the dispatch of [x].
    * [FeatureObserver.__init__] subscribes the object FIRST and only then
      runs [initialize_features], which creates-or-gets what it depends on:
      an [IsCompletedObserver] created on an empty dispatcher yields the
      subscription order IsCompleted, RemainingOperations, Unscheduled.
      [Dispatcher.reset] resets the subscribers in that order. Since the
      repair 196fa58 [RemainingOperationsObserver.initialize_features] and
      [IsCompletedObserver.initialize_features] (constructor AND reset) still
      create-or-get the observer they used to read — only for the side effect
      of having it subscribed — and COUNT [dispatcher.unscheduled_operations()]
      themselves, so the order in which the subscribers are reset no longer
      matters (property C12, proofs/ResetResidual.v).
    * numpy: [a[idx, 0] -= 1] / [+= 1] / [= v] with an index LIST touch every
      listed row once (a repeated index is not accumulated): "for every
      machine id that occurs in [operation.machines]".
    * Python exceptions that cannot occur for a graph holding the operation
      nodes of the dispatcher's instance (IndexError of
      [removed_nodes[node_id]], NetworkXError of [remove_node] on an absent
      node, ValidationError of [get_machine_node] for a missing node,
      KeyError on a feature the create-or-get condition guarantees) are
      modelled as "skip". *)
From JSL Require Import Base Instance Dstate Filters World Observers Graph Derived.

(** ** graph_updaters/_utils.py *)

(** [if removed_nodes[node_id]: continue] / [not is_removed(node)], then
    [remove_node(node_id)]. *)
Definition remove_if_present (g : graph) (u : nat) : graph :=
  if nth u (g_removed g) true then g
  else match remove_node g u with Some g' => g' | None => g end.

(** [remove_completed_operations]: [node_id = operation.operation_id]. The
    argument is a Python SET (iteration order unspecified); the model walks
    it in the order of the list it is given, and
    [ResidualProofs.remove_all_perm] shows the order is irrelevant. *)
Definition remove_completed_operations (I : instance) (g : graph) (completed : list (nat * nat)) : graph :=
  fold_left (fun g k => remove_if_present g (op_id I (fst k) (snd k))) completed g.

(** ** RemainingOperationsObserver (features MACHINES / JOBS, each optional) *)

Record remops := mkro { ro_m : option (list Z); ro_j : option (list Z) }.

Definition on_machine (I : instance) (m : nat) (k : nat * nat) : bool := mem_nat m (kmachines I k).
Definition in_job (j : nat) (k : nat * nat) : bool := (fst k =? j)%nat.
Definition count_keys (f : nat * nat -> bool) (l : list (nat * nat)) : Z := Z.of_nat (length (filter f l)).

(** [initialize_features] on zeroed arrays: one [+= 1] per unscheduled
    operation at its job row and at the rows of ALL its machines. *)
Definition remops_init (I : instance) (unsched : list (nat * nat)) (hm hj : bool) : remops :=
  mkro (if hm then Some (map (fun m => count_keys (on_machine I m) unsched) (seq 0 (num_machines I))) else None)
       (if hj then Some (map (fun j => count_keys (in_job j) unsched) (seq 0 (num_jobs I))) else None).

Definition dec_at (l : list Z) (i : nat) : list Z := upd l i (nthZ l i - 1).
(** [update]: the job row, and the row of the machine the operation was
    dispatched ON ([scheduled_operation.machine_id]). *)
Definition remops_update (x : sop) (r : remops) : remops :=
  mkro (option_map (fun l => dec_at l (s_mach x)) (ro_m r))
       (option_map (fun l => dec_at l (s_job x)) (ro_j r)).

Definition is_some {A : Type} (o : option A) : bool := match o with Some _ => true | None => false end.
(** the create-or-get condition [_has_same_features] / [has_all_features] *)
Definition remops_ok (need_m need_j : bool) (r : remops) : bool :=
  (negb need_m || is_some (ro_m r)) && (negb need_j || is_some (ro_j r)).

(** ** IsCompletedObserver: what the updater reads *)

Record iscomp := mkic {
  ic_o : bool; ic_m : bool; ic_j : bool;      (* FeatureType.OPERATIONS / MACHINES / JOBS in [features] *)
  ic_rem_m : list Z;                          (* remaining_ops_per_machine[:, 0] *)
  ic_rem_j : list Z;                          (* remaining_ops_per_job[:, 0] *)
  ic_flag_m : list bool;                      (* features[MACHINES][:, 0] == 1 *)
  ic_flag_j : list bool                       (* features[JOBS][:, 0] == 1 *)
}.
Definition iscomp_ok (need_m need_j : bool) (c : iscomp) : bool :=
  (negb need_m || ic_m c) && (negb need_j || ic_j c).

(** [initialize_features]: features to zero, counters taken from [r] — since
    the repair 196fa58 [r] is NOT the remaining-operations observer found or
    created at that moment but the count of the dispatcher's own unscheduled
    operations ([remops_init I (unscheduled_ops I d) hm hj], see [new_iscomp]
    and [dep_reset]). [old_*]: the counters before (kept when the feature type
    is not tracked; [__init__] sets them to zeros). *)
Definition ic_init (I : instance) (ho hm hj : bool) (old_m old_j : list Z) (r : remops) : iscomp :=
  mkic ho hm hj
       (if hm then match ro_m r with Some l => l | None => old_m end else old_m)
       (if hj then match ro_j r with Some l => l | None => old_j end else old_j)
       (if hm then repeat false (num_machines I) else [])
       (if hj then repeat false (num_jobs I) else []).

(** [update]: the counters of ALL machines of the dispatched operation
    ([scheduled_operation.operation.machines], not only the machine it runs
    on) and of its job are decremented; the flag of each touched row becomes
    [counter == 0]; untouched rows keep their flag. *)
Definition ic_update (I : instance) (x : sop) (c : iscomp) : iscomp :=
  let ms := kmachines I (key x) in
  let rm := if ic_m c
            then map (fun m => if mem_nat m ms then nthZ (ic_rem_m c) m - 1 else nthZ (ic_rem_m c) m)
                     (seq 0 (length (ic_rem_m c)))
            else ic_rem_m c in
  let fm := if ic_m c
            then map (fun m => if mem_nat m ms then nthZ rm m =? 0 else nth m (ic_flag_m c) false)
                     (seq 0 (length (ic_flag_m c)))
            else ic_flag_m c in
  let rj := if ic_j c then dec_at (ic_rem_j c) (s_job x) else ic_rem_j c in
  let fj := if ic_j c then upd (ic_flag_j c) (s_job x) (nthZ rj (s_job x) =? 0) else ic_flag_j c in
  mkic (ic_o c) (ic_m c) (ic_j c) rm rj fm fj.

(** ** The subscribers the updater depends on, in subscription order *)

Inductive dep :=
| DUnsched (dq : list (list (nat * nat)))   (* UnscheduledOperationsObserver.unscheduled_operations_per_job *)
| DRemOps (r : remops)
| DIsComp (c : iscomp).

Definition dep_update (I : instance) (x : sop) (o : dep) : dep :=
  match o with
  | DUnsched dq => DUnsched (pop_job dq (s_job x))
  | DRemOps r => DRemOps (remops_update x r)
  | DIsComp c => DIsComp (ic_update I x c)
  end.

(** [create_or_get_observer]: the FIRST subscriber of the class satisfying
    the condition. *)
Fixpoint find_dep {A : Type} (f : dep -> option A) (i : nat) (ch : list dep) : option (nat * A) :=
  match ch with
  | [] => None
  | o :: t => match f o with Some a => Some (i, a) | None => find_dep f (S i) t end
  end.
Definition as_unsched (o : dep) : option (list (list (nat * nat))) :=
  match o with DUnsched dq => Some dq | _ => None end.
Definition as_remops (need_m need_j : bool) (o : dep) : option remops :=
  match o with DRemOps r => if remops_ok need_m need_j r then Some r else None | _ => None end.
Definition as_iscomp (need_m need_j : bool) (o : dep) : option iscomp :=
  match o with DIsComp c => if iscomp_ok need_m need_j c then Some c else None | _ => None end.

(** [UnscheduledOperationsObserver.__init__] on dispatcher state [d] *)
Definition unsched_construct (I : instance) (d : dstate) : list (list (nat * nat)) :=
  fold_left (fun dq x => pop_job dq (s_job x)) (all_sops (sched d)) (all_deques I).

Definition get_or_new_unsched (I : instance) (d : dstate) (ch : list dep)
  : list dep * list (list (nat * nat)) :=
  match find_dep as_unsched 0 ch with
  | Some (_, dq) => (ch, dq)
  | None => let dq := unsched_construct I d in (ch ++ [DUnsched dq], dq)
  end.

(** [RemainingOperationsObserver(dispatcher, feature_types=..)]: subscribes,
    THEN creates-or-gets the unscheduled-operations observer (kept for that
    side effect only) and counts [dispatcher.unscheduled_operations()]. *)
Definition new_remops (I : instance) (d : dstate) (hm hj : bool) (ch : list dep) : list dep * remops :=
  let i := length ch in
  let ch1 := ch ++ [DRemOps (mkro None None)] in
  let '(ch2, _) := get_or_new_unsched I d ch1 in
  let r := remops_init I (unscheduled_ops I d) hm hj in
  (upd ch2 i (DRemOps r), r).

Definition get_or_new_remops (I : instance) (d : dstate) (need_m need_j : bool) (ch : list dep)
  : list dep * remops :=
  match find_dep (as_remops need_m need_j) 0 ch with
  | Some (_, r) => (ch, r)
  | None => new_remops I d need_m need_j ch
  end.

(** [IsCompletedObserver(dispatcher, feature_types=..)]: subscribes, THEN
    creates-or-gets a remaining-operations observer tracking its own
    non-OPERATIONS feature types (kept for that side effect only) and counts
    [dispatcher.unscheduled_operations()] per machine / job. *)
Definition new_iscomp (I : instance) (d : dstate) (ho hm hj : bool) (ch : list dep) : list dep * nat :=
  let i := length ch in
  let zm := repeat 0 (num_machines I) in
  let zj := repeat 0 (num_jobs I) in
  let ch1 := ch ++ [DIsComp (mkic ho hm hj zm zj [] [])] in
  let '(ch2, _) := get_or_new_remops I d hm hj ch1 in
  (upd ch2 i (DIsComp (ic_init I ho hm hj zm zj (remops_init I (unscheduled_ops I d) hm hj))), i).

(** Observers the user created before the updater (the harness's scenarios):
    [create_or_get_observer(UnscheduledOperationsObserver)], a
    [RemainingOperationsObserver] / an [IsCompletedObserver] constructed
    directly with the given feature types. *)
Inductive pre := PUnsched | PRemOps (hm hj : bool) | PIsComp (ho hm hj : bool).
Definition run_pre1 (I : instance) (d : dstate) (ch : list dep) (p : pre) : list dep :=
  match p with
  | PUnsched => fst (get_or_new_unsched I d ch)
  | PRemOps hm hj => fst (new_remops I d hm hj ch)
  | PIsComp ho hm hj => fst (new_iscomp I d ho hm hj ch)
  end.
Definition run_pre (I : instance) (d : dstate) (ps : list pre) : list dep :=
  fold_left (run_pre1 I d) ps [].

(** ** ResidualGraphUpdater *)

Record rgu := mkrgu {
  u_deps : list dep;          (* the subscribers it depends on (all subscribed before it), in order *)
  u_ic : option nat;          (* _is_completed_observer: position in [u_deps] *)
  u_rm_m : bool;              (* remove_completed_machine_nodes *)
  u_rm_j : bool;              (* remove_completed_job_nodes *)
  u_init : graph;             (* initial_job_shop_graph (the deep copy) *)
  u_graph : graph             (* job_shop_graph *)
}.

(** [__init__]: the options, [_initialize_is_completed_observer_attribute]
    (create-or-get with [has_all_features]; nothing when both options are
    off), then [GraphUpdater.__init__] subscribes the updater and copies the
    graph. [ch]: the subscribers that exist already; [d]: the dispatcher
    state at that moment. *)
Definition rgu_construct (I : instance) (d : dstate) (ch : list dep) (rm_m rm_j : bool) (g : graph) : rgu :=
  if rm_m || rm_j then
    match find_dep (as_iscomp rm_m rm_j) 0 ch with
    | Some (i, _) => mkrgu ch (Some i) rm_m rm_j g g
    | None => let '(ch', i) := new_iscomp I d false rm_m rm_j ch in mkrgu ch' (Some i) rm_m rm_j g g
    end
  else mkrgu ch None rm_m rm_j g g.

(** [get_machine_node] / [get_job_node] = [get_node_by_type_and_id]: the
    node at position [id] of the type row if its id attribute matches,
    otherwise the first node of the row that matches. *)
Definition is_machine_node (i : nat) (nd : node) : bool :=
  match nd with MachineNode m => (m =? i)%nat | _ => false end.
Definition is_job_node (i : nat) (nd : node) : bool :=
  match nd with JobNode j => (j =? i)%nat | _ => false end.
Definition get_group_node (row : list (nat * node)) (matches : nat -> node -> bool) (i : nat) : option nat :=
  let slow := option_map fst (find (fun x => matches i (snd x)) row) in
  match nth_error row i with
  | Some x => if matches i (snd x) then Some (fst x) else slow
  | None => slow
  end.

(** [_remove_completed_machine_nodes] / [_remove_completed_job_nodes]:
    [for id, is_completed in enumerate(flags): if is_completed == 1 and not
    is_removed(node := get_.._node(id)): remove_node(node.node_id)]. *)
Definition remove_flagged (g : graph) (t : ntype) (matches : nat -> node -> bool) (flags : list bool) : graph :=
  fold_left (fun g i => if nth i flags false
                        then match get_group_node (type_row g t) matches i with
                             | Some id => remove_if_present g id
                             | None => g
                             end
                        else g)
            (seq 0 (length flags)) g.

Definition nonempty {A : Type} (l : list A) : bool := match l with [] => false | _ => true end.

Definition rgu_iscomp (ch : list dep) (ic : option nat) : option iscomp :=
  match ic with
  | Some i => match nth_error ch i with Some (DIsComp c) => Some c | _ => None end
  | None => None
  end.

(** One notification round: the dependencies (earlier subscribers) first,
    then [ResidualGraphUpdater.update]: completed operations, machine nodes,
    job nodes. *)
Definition rgu_update (I : instance) (fs : list fname) (d : dstate) (x : sop) (u : rgu) : rgu :=
  let ch := map (dep_update I x) (u_deps u) in
  let g1 := remove_completed_operations I (u_graph u) (p_completed I fs d) in
  let g2 := if u_rm_m u && nonempty (type_row g1 NMachine)
            then match rgu_iscomp ch (u_ic u) with
                 | Some c => remove_flagged g1 NMachine is_machine_node (ic_flag_m c)
                 | None => g1
                 end
            else g1 in
  let g3 := if u_rm_j u && nonempty (type_row g2 NJob)
            then match rgu_iscomp ch (u_ic u) with
                 | Some c => remove_flagged g2 NJob is_job_node (ic_flag_j c)
                 | None => g2
                 end
            else g2 in
  mkrgu ch (u_ic u) (u_rm_m u) (u_rm_j u) (u_init u) g3.

(** One notification round while the updater itself is NOT subscribed
    ([ResidualGraphUpdater(.., subscribe=False)], before
    [dispatcher.subscribe(updater)]): the constructor still created-or-got and
    subscribed the [IsCompletedObserver] (and what that one depends on), so
    the dependencies are notified exactly as in [rgu_update]; the updater's
    own [update] does not run and its graph stays as it is. A later
    [dispatcher.subscribe(updater)] appends it at the end of the subscriber
    list — after its dependencies, the list of the [subscribe=True] case —
    and from then on a round is [rgu_update]. Same argument list as
    [rgu_update], so that it can be handed to [dispatch] in the same way. *)
Definition rgu_update_detached (I : instance) (fs : list fname) (d : dstate) (x : sop) (u : rgu) : rgu :=
  mkrgu (map (dep_update I x) (u_deps u)) (u_ic u) (u_rm_m u) (u_rm_j u) (u_init u) (u_graph u).

(** ** reset *)

(** [reset] of the subscriber at position [i] ([initialize_features] again):
    the create-or-get calls may append subscribers, the counts come from the
    dispatcher state [d]. *)
Definition dep_reset (I : instance) (d : dstate) (ch : list dep) (i : nat) : list dep :=
  match nth_error ch i with
  | Some (DUnsched _) => upd ch i (DUnsched (all_deques I))
  | Some (DRemOps r) =>
      let '(ch1, _) := get_or_new_unsched I d ch in
      upd ch1 i (DRemOps (remops_init I (unscheduled_ops I d) (is_some (ro_m r)) (is_some (ro_j r))))
  | Some (DIsComp c) =>
      let '(ch1, _) := get_or_new_remops I d (ic_m c) (ic_j c) ch in
      upd ch1 i (DIsComp (ic_init I (ic_o c) (ic_m c) (ic_j c) (ic_rem_m c) (ic_rem_j c)
                                  (remops_init I (unscheduled_ops I d) (ic_m c) (ic_j c))))
  | None => ch
  end.
(** [for subscriber in self.subscribers: subscriber.reset()] (a subscriber
    appended during the loop is visited too). *)
Fixpoint reset_loop (I : instance) (d : dstate) (fuel i : nat) (ch : list dep) : list dep :=
  match fuel with
  | O => ch
  | S f => if (i <? length ch)%nat then reset_loop I d f (S i) (dep_reset I d ch i) else ch
  end.

(** The dependencies' resets, then [GraphUpdater.reset]:
    [job_shop_graph = deepcopy(initial_job_shop_graph)]. [d]: the dispatcher
    state after [Dispatcher.reset] cleared its own fields. *)
Definition rgu_reset (I : instance) (fs : list fname) (d : dstate) (u : rgu) : rgu :=
  mkrgu (reset_loop I d (length (u_deps u) + 2) 0 (u_deps u)) (u_ic u) (u_rm_m u) (u_rm_j u)
        (u_init u) (u_init u).

(** ** The world: a dispatcher with the updater (and what it depends on) *)

Definition rg_world (fs : list fname) (d : dstate) (u : rgu) : world rgu :=
  mkw d empty_cache fs [u] [0%nat].

(** Everything created on a fresh dispatcher of [I]: the observers of [ps],
    then the updater on the graph [g]. *)
Definition rgu_fresh (I : instance) (ps : list pre) (rm_m rm_j : bool) (g : graph) : rgu :=
  rgu_construct I (init_d I) (run_pre I (init_d I) ps) rm_m rm_j g.
