(** Base.v — shared executable helpers of the model (no proofs here).

    * Python-flavoured list access ([nthZ], [upd], [py_index]);
    * the generic value type [val] in which every case and every observation
      of the correspondence check is encoded (so that the OCaml driver is a
      parser/printer only, and the same commands can be evaluated inside Coq
      with [vm_compute]). *)
From Coq Require Export List ZArith Bool Arith PeanoNat.
Export ListNotations.
Open Scope Z_scope.

(** ** Lists *)

Definition nthZ (l : list Z) (i : nat) : Z := nth i l 0.
Definition nthN (l : list nat) (i : nat) : nat := nth i l 0%nat.

Fixpoint upd {A : Type} (l : list A) (i : nat) (x : A) : list A :=
  match l, i with
  | [], _ => []
  | _ :: t, O => x :: t
  | h :: t, S i' => h :: upd t i' x
  end.

Definition last_opt {A : Type} (l : list A) : option A :=
  match rev l with [] => None | x :: _ => Some x end.

(** Python's rule for an integer subscript on a sequence of length [len]:
    [0 <= i < len] is itself, [-len <= i < 0] wraps around, anything else is
    an [IndexError] ([None]). *)
Definition py_index (len : nat) (i : Z) : option nat :=
  if (0 <=? i) && (i <? Z.of_nat len) then Some (Z.to_nat i)
  else if (- Z.of_nat len <=? i) && (i <? 0) then Some (Z.to_nat (Z.of_nat len + i))
  else None.

Definition sumZ (l : list Z) : Z := fold_right Z.add 0 l.
Definition sumN (l : list nat) : nat := fold_right Nat.add 0%nat l.
Definition maxZ0 (l : list Z) : Z := fold_right Z.max 0 l.

(** [minZ_opt l] = minimum of a non-empty list. *)
Fixpoint minZ_opt (l : list Z) : option Z :=
  match l with
  | [] => None
  | x :: t => match minZ_opt t with None => Some x | Some y => Some (Z.min x y) end
  end.

Fixpoint mem_nat (x : nat) (l : list nat) : bool :=
  match l with [] => false | y :: t => (x =? y)%nat || mem_nat x t end.

Definition eqb_key (a b : nat * nat) : bool :=
  (fst a =? fst b)%nat && (snd a =? snd b)%nat.

Fixpoint mem_key (x : nat * nat) (l : list (nat * nat)) : bool :=
  match l with [] => false | y :: t => eqb_key x y || mem_key x t end.

Fixpoint nodup_keyb (l : list (nat * nat)) : bool :=
  match l with [] => true | x :: t => negb (mem_key x t) && nodup_keyb t end.

Definition seq0 (n : nat) : list nat := seq 0 n.

(** Insertion sort on naturals / keys, used only to canonicalise set-valued
    query results before they are compared. *)
Fixpoint insert_nat (x : nat) (l : list nat) : list nat :=
  match l with
  | [] => [x]
  | y :: t => if (x <=? y)%nat then x :: l else y :: insert_nat x t
  end.
Definition sort_nat (l : list nat) : list nat := fold_right insert_nat [] l.

Fixpoint dedup_nat (l : list nat) : list nat :=
  match l with
  | [] => []
  | x :: t => if mem_nat x t then dedup_nat t else x :: dedup_nat t
  end.

(** ** The generic value type of the line protocol *)

Inductive val : Type :=
| VI (z : Z)
| VL (l : list val).

Definition vnat (n : nat) : val := VI (Z.of_nat n).
Definition vbool (b : bool) : val := VI (if b then 1 else 0).
Definition vlist {A : Type} (f : A -> val) (l : list A) : val := VL (map f l).
Definition vpair {A B : Type} (f : A -> val) (g : B -> val) (p : A * B) : val :=
  VL [f (fst p); g (snd p)].
Definition vopt {A : Type} (f : A -> val) (o : option A) : val :=
  match o with None => VL [] | Some x => VL [f x] end.

(** Decoders are total: ill-formed input decodes to a default; the harness
    only ever sends well-formed values, and the in-Coq cross-check evaluates
    the very same decoders. *)
Definition asZ (v : val) : Z := match v with VI z => z | VL _ => 0 end.
Definition asN (v : val) : nat := Z.to_nat (asZ v).
Definition asB (v : val) : bool := negb (asZ v =? 0).
Definition asL (v : val) : list val := match v with VL l => l | VI _ => [] end.
Definition asLof {A : Type} (f : val -> A) (v : val) : list A := map f (asL v).
Definition asOpt {A : Type} (f : val -> A) (v : val) : option A :=
  match asL v with [] => None | x :: _ => Some (f x) end.
Definition vnth (v : val) (i : nat) : val := nth i (asL v) (VL []).
