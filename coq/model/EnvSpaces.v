(** EnvSpaces.v — the index arithmetic of the two Gymnasium environments
    (job_shop_lib/reinforcement_learning/_single_job_shop_graph_env.py,
    _multi_job_shop_graph_env.py, _utils.py). Executable definitions only.

    What is modelled
    * gymnasium's membership tests as far as the environments use them:
      [MultiDiscrete(nvec, start)] ([start <= x] and [x - start < nvec],
      componentwise, equal shapes), [MultiBinary(n)] (shape), [Box(-inf, inf,
      shape)] (shape), [Dict] (same keys, every entry contained);
    * the action space [MultiDiscrete([J, M + 1], start=[0, -1])] — the
      REPAIRED expression (see /verif/.scratch/fix-C18-action-space.diff; the
      unchanged code declares [[J, M]], kept as [action_nvec_unrepaired]);
    * [_get_observation_space]: sizes from the initial graph (number of nodes,
      number of edges) and from the composite observer's matrices, as shapes
      rows x columns per feature type;
    * [add_padding] on vectors and matrices; [_get_edge_index];
      [get_observation];
    * the graph only changes through [JobShopGraph.remove_node] calls (any
      graph updater that only removes nodes) and is restored from the copy of
      the initial graph by [reset];
    * [MultiJobShopGraphEnv]: the constructor (spaces of ONE instance drawn
      with the maximal numbers of jobs and machines), [reset] (draw, build the
      graph, rebuild the inner environment — REPAIRED: the graph-updater
      configuration is passed on, see fix-C18-multi-reset-updater.diff; the
      unchanged code is [reset_config false]), [_add_padding_to_observation].

    A Python exception is [None]. An [np.ndarray] is a list (vector) or a list
    of rows (matrix); the edge index of a graph without edges is the empty
    1-D array [[]] (shape (0,)), otherwise the two rows [[sources; targets]]. *)
From JSL Require Import Base Instance Dstate Graph Generator.

(** ** gymnasium spaces *)

(** One component of [MultiDiscrete.contains]. *)
Definition in_range (start nvec x : Z) : bool := (start <=? x) && (x - start <? nvec).

(** [MultiDiscrete(nvec, start).contains(x)] for vectors. *)
Fixpoint md_contains (nvec start x : list Z) : bool :=
  match nvec, start, x with
  | [], [], [] => true
  | n :: nv, s :: st, a :: xs => in_range s n a && md_contains nv st xs
  | _, _, _ => false
  end.

(** The action space. *)
Definition action_nvec (I : instance) : list Z :=
  [Z.of_nat (num_jobs I); Z.of_nat (num_machines I) + 1].
Definition action_nvec_unrepaired (I : instance) : list Z :=
  [Z.of_nat (num_jobs I); Z.of_nat (num_machines I)].
Definition action_start : list Z := [0; -1].
Definition action_contains (nvec : list Z) (a : list Z) : bool := md_contains nvec action_start a.

(** The legal decisions in a dispatcher state: every job with operations left
    together with each eligible machine id of its next operation, and [-1]
    when that operation has exactly one machine. *)
Definition decisions_of (I : instance) (k : nat * nat) : list (list Z) :=
  match kop I k with
  | Some o =>
      map (fun m => [Z.of_nat (fst k); Z.of_nat m]) (machines o) ++
      match machines o with [_] => [[Z.of_nat (fst k); -1]] | _ => [] end
  | None => []
  end.
Definition legal_decisions (I : instance) (d : dstate) : list (list Z) :=
  flat_map (decisions_of I) (raw_ready I d).

(** Feature types ([FeatureType]) in the order of [list(FeatureType)]. *)
Inductive ftype := FOps | FMachines | FJobs.
Definition ftype_code (t : ftype) : nat :=
  match t with FOps => 0 | FMachines => 1 | FJobs => 2 end%nat.
Definition ftype_eqb (a b : ftype) : bool := (ftype_code a =? ftype_code b)%nat.

(** The declared observation space: [MultiBinary(nodes)],
    [MultiDiscrete(full((2, edges), nodes + 1), start = full(.., -1))] and one
    [Box(shape = (rows, columns))] per feature type of the composite. *)
Record ospace := mkspace {
  sp_nodes : nat;
  sp_edges : nat;
  sp_feats : list (ftype * (nat * nat))
}.

(** An observation dictionary: "removed_nodes", "edge_index", then the
    composite's matrices in its own key order. *)
Record obsv (A : Type) := mkobs {
  ob_removed : list bool;
  ob_edge : list (list Z);
  ob_feats : list (ftype * list (list A))
}.
Arguments mkobs {A} _ _ _.
Arguments ob_removed {A} _.
Arguments ob_edge {A} _.
Arguments ob_feats {A} _.

Definition mask_contains (n : nat) (x : list bool) : bool := (length x =? n)%nat.
Definition edge_entry_ok (nodes : nat) (x : Z) : bool := in_range (-1) (Z.of_nat nodes + 1) x.
Definition edge_space_contains (nodes edges : nat) (x : list (list Z)) : bool :=
  (length x =? 2)%nat &&
  forallb (fun row => (length row =? edges)%nat && forallb (edge_entry_ok nodes) row) x.
Definition box_contains {A : Type} (r c : nat) (x : list (list A)) : bool :=
  (length x =? r)%nat && forallb (fun row => (length row =? c)%nat) x.
Fixpoint feats_contains {A : Type} (sh : list (ftype * (nat * nat)))
         (fs : list (ftype * list (list A))) : bool :=
  match sh, fs with
  | [], [] => true
  | (t, (r, c)) :: sh', (t', m) :: fs' =>
      ftype_eqb t t' && box_contains r c m && feats_contains sh' fs'
  | _, _ => false
  end.
Definition obs_contains {A : Type} (sp : ospace) (o : obsv A) : bool :=
  mask_contains (sp_nodes sp) (ob_removed o) &&
  edge_space_contains (sp_nodes sp) (sp_edges sp) (ob_edge o) &&
  feats_contains (sp_feats sp) (ob_feats o).

(** ** add_padding

    [np.any(np.less(output_shape, array.shape))] raises; otherwise the array
    is copied into the leading block of [np.full(output_shape, fill)]. *)
Definition pad1 {A : Type} (fill : A) (n : nat) (l : list A) : option (list A) :=
  if (n <? length l)%nat then None else Some (l ++ repeat fill (n - length l)).

Definition width {A : Type} (m : list (list A)) : nat :=
  match m with [] => 0%nat | row :: _ => length row end.

(** For the empty 1-D array [[]] (shape (0,)) numpy broadcasts the comparison
    with a 2-D output shape, nothing is "less", and [array.size == 0] returns
    the filled array: the same as the general formula with 0 rows, width 0. *)
Definition pad2 {A : Type} (fill : A) (r c : nat) (m : list (list A)) : option (list (list A)) :=
  if ((r <? length m) || (c <? width m))%nat then None
  else Some (map (fun row => row ++ repeat fill (c - length row)) m ++
             repeat (repeat fill c) (r - length m)).

(** ** The observation of the single environment *)

(** [graph.edges()] of a networkx DiGraph: by source node in node order (nodes
    are added in id order), and for one source in the order in which its
    out-edges were first added — the stable bucket sort of the insertion-order
    list [g_edges] by source. *)
Definition edge_view (g : graph) : list edge :=
  flat_map (fun u => filter (fun e => (e_src e =? u)%nat) (g_edges g)) (seq 0 (g_next g)).

(** [np.array(graph.edges(), dtype=np.int32).T] *)
Definition edge_index_raw (g : graph) : list (list Z) :=
  match edge_view g with
  | [] => []
  | es => [map (fun e => Z.of_nat (e_src e)) es; map (fun e => Z.of_nat (e_dst e)) es]
  end.

(** [_get_edge_index] *)
Definition get_edge_index (use_padding : bool) (sp : ospace) (g : graph) : option (list (list Z)) :=
  if use_padding then pad2 (-1) 2 (sp_edges sp) (edge_index_raw g) else Some (edge_index_raw g).

(** [get_observation]; [feats] = [composite_observer.features]. *)
Definition get_observation {A : Type} (use_padding : bool) (sp : ospace) (g : graph)
           (feats : list (ftype * list (list A))) : option (obsv A) :=
  match get_edge_index use_padding sp g with
  | Some ei => Some (mkobs (g_removed g) ei feats)
  | None => None
  end.

(** The graph after a sequence of [remove_node] calls; a call that raises
    (absent node) leaves the graph as it was. *)
Definition try_remove (g : graph) (u : nat) : graph :=
  match remove_node g u with Some g' => g' | None => g end.
Definition run_removes (g : graph) (l : list nat) : graph := fold_left try_remove l g.

(** ** Feature observer configurations and the composite's shapes

    Observer kinds: 0 is_ready, 1 earliest_start_time, 2 duration,
    3 is_scheduled, 4 position_in_job, 5 remaining_operations, 6 is_completed.
    Every built-in observer has feature size 1. *)
Definition supported (kind : nat) : list ftype :=
  match kind with
  | 4 => [FOps]
  | 5 => [FMachines; FJobs]
  | _ => [FOps; FMachines; FJobs]
  end%nat.
Record focfg := mkfo { fo_kind : nat; fo_req : option (list ftype) }.
Definition fo_types (c : focfg) : list ftype :=
  match fo_req c with Some l => l | None => supported (fo_kind c) end.

(** [CompositeFeatureObserver.initialize_features]: keys in order of first
    appearance, one column per observer carrying the type. *)
Fixpoint add_key (t : ftype) (acc : list (ftype * nat)) : list (ftype * nat) :=
  match acc with
  | [] => [(t, 1%nat)]
  | (t', n) :: r => if ftype_eqb t t' then (t', S n) :: r else (t', n) :: add_key t r
  end.
Definition composite_cols (cfgs : list focfg) : list (ftype * nat) :=
  fold_left (fun acc t => add_key t acc) (concat (map fo_types cfgs)) [].
Definition entities (I : instance) (t : ftype) : nat :=
  match t with FOps => num_ops I | FMachines => num_machines I | FJobs => num_jobs I end.
Definition composite_shapes (I : instance) (cfgs : list focfg) : list (ftype * (nat * nat)) :=
  map (fun kc => (fst kc, (entities I (fst kc), snd kc))) (composite_cols cfgs).

(** [_get_observation_space] *)
Definition observation_space (g0 : graph) (shapes : list (ftype * (nat * nat))) : ospace :=
  mkspace (length (g_nodes g0)) (length (g_edges g0)) shapes.

(** ** Environment configuration and the single environment

    Configuration objects are tokens (the harness numbers them): reward
    configuration, graph-updater configuration [class; remove machines;
    remove jobs], ready-operations filter, render mode, render configuration. *)
Record config := mkcfg {
  c_feats : list focfg;
  c_reward : Z;
  c_updater : list Z;
  c_filter : list Z;
  c_render_mode : Z;
  c_render_cfg : Z;
  c_padding : bool
}.
(** [DispatcherObserverConfig(class_type=ResidualGraphUpdater)] *)
Definition default_updater : list Z := [0; 1; 1].

(** [SingleJobShopGraphEnv]: configuration, initial graph (the deep copy kept
    by the graph updater), current graph, the two spaces. *)
Record inner := mkinner {
  i_cfg : config;
  i_graph0 : graph;
  i_graph : graph;
  i_space : ospace;
  i_anvec : list Z
}.
Definition single_init (cfg : config) (g : graph) : inner :=
  mkinner cfg g g
          (observation_space g (composite_shapes (g_inst g) (c_feats cfg)))
          (action_nvec (g_inst g)).
Definition set_graph (e : inner) (g : graph) : inner :=
  mkinner (i_cfg e) (i_graph0 e) g (i_space e) (i_anvec e).
(** [reset]: the updater restores the copy of the initial graph. *)
Definition inner_reset (e : inner) : inner := set_graph e (i_graph0 e).
(** the graph part of [step]: the updater's [remove_node] calls. *)
Definition inner_removes (e : inner) (l : list nat) : inner := set_graph e (run_removes (i_graph e) l).
Definition inner_observe {A : Type} (e : inner) (feats : list (ftype * list (list A))) : option (obsv A) :=
  get_observation (c_padding (i_cfg e)) (i_space e) (i_graph e) feats.

(** [step]'s [done] and [truncated]. *)
Definition step_done (I : instance) (d : dstate) : bool := is_complete I (sched d).
Definition step_truncated : bool := false.

(** ** The multi-instance environment *)
Record menv := mkmenv {
  m_p : params;              (* instance_generator *)
  m_builder : nat;           (* graph_initializer *)
  m_feats : list focfg;      (* feature_observer_configs *)
  m_reward : Z;              (* reward_function_config *)
  m_updater : list Z;        (* graph_updater_config *)
  m_render_mode : Z;
  m_render_cfg : Z;
  m_inner : inner;           (* single_job_shop_graph_env *)
  m_space : ospace;          (* observation_space (deep copy) *)
  m_anvec : list Z           (* action_space (deep copy) *)
}.
Definition set_inner (m : menv) (e : inner) : menv :=
  mkmenv (m_p m) (m_builder m) (m_feats m) (m_reward m) (m_updater m) (m_render_mode m)
         (m_render_cfg m) e (m_space m) (m_anvec m).

Definition build_inner (b : nat) (cfg : config) (I : instance) : option inner :=
  match build_by_code b I with Some g => Some (single_init cfg g) | None => None end.

(** [__init__]: [generate(num_jobs=max_num_jobs, num_machines=max_num_machines)],
    graph, inner environment, spaces copied from it. [None]: the graph
    initializer raised. *)
Definition multi_init (p : params) (b : nat) (cfg : config) : G (option menv) :=
  bind (generate p (Some (jhi p)) (Some (mhi p))) (fun x =>
  ret (match build_inner b cfg (snd x) with
       | Some e => Some (mkmenv p b (c_feats cfg) (c_reward cfg) (c_updater cfg)
                                (c_render_mode cfg) (c_render_cfg cfg) e (i_space e) (i_anvec e))
       | None => None
       end)).

(** The keyword arguments [reset] passes to [SingleJobShopGraphEnv]: the
    stored configurations; the filter and [use_padding] are read from the
    current inner environment (that is where the setters write).
    [repaired = false]: the unchanged code, [graph_updater_config] omitted. *)
Definition reset_config (repaired : bool) (m : menv) : config :=
  mkcfg (m_feats m) (m_reward m) (if repaired then m_updater m else default_updater)
        (c_filter (i_cfg (m_inner m))) (m_render_mode m) (m_render_cfg m)
        (c_padding (i_cfg (m_inner m))).

(** [reset], state part: draw an instance, build the graph, replace the inner
    environment (whose own [reset] leaves its fresh graph as it is). *)
Definition multi_reset (repaired : bool) (m : menv) : G (option menv) :=
  bind (generate (m_p m) None None) (fun x =>
  ret (match build_inner (m_builder m) (reset_config repaired m) (snd x) with
       | Some e => Some (set_inner m e)
       | None => None
       end)).

(** [self._get_output_shape(key)] is a dictionary lookup. *)
Fixpoint lookup_shape (t : ftype) (sh : list (ftype * (nat * nat))) : option (nat * nat) :=
  match sh with
  | [] => None
  | (t', s) :: r => if ftype_eqb t t' then Some s else lookup_shape t r
  end.
Fixpoint pad_feats {A : Type} (fill : A) (sh : list (ftype * (nat * nat)))
         (fs : list (ftype * list (list A))) : option (list (ftype * list (list A))) :=
  match fs with
  | [] => Some []
  | (t, m) :: r =>
      match lookup_shape t sh with
      | Some (rr, cc) =>
          match pad2 fill rr cc m, pad_feats fill sh r with
          | Some m', Some r' => Some ((t, m') :: r')
          | _, _ => None
          end
      | None => None
      end
  end.

(** [_add_padding_to_observation]: [True] for "removed_nodes", [-1] for
    everything else ([neg1] is the [-1] of the feature type). *)
Definition multi_pad {A : Type} (neg1 : A) (sp : ospace) (o : obsv A) : option (obsv A) :=
  match pad1 true (sp_nodes sp) (ob_removed o),
        pad2 (-1) 2 (sp_edges sp) (ob_edge o),
        pad_feats neg1 (sp_feats sp) (ob_feats o) with
  | Some r, Some e, Some f => Some (mkobs r e f)
  | _, _, _ => None
  end.

(** What [reset] / [step] of the multi environment return as observation. *)
Definition multi_observe {A : Type} (neg1 : A) (m : menv)
           (feats : list (ftype * list (list A))) : option (obsv A) :=
  match inner_observe (m_inner m) feats with
  | None => None
  | Some o => if c_padding (i_cfg (m_inner m)) then multi_pad neg1 (m_space m) o else Some o
  end.

(** The inner environment's sizes fit into the declared ones. *)
Fixpoint feats_fit (inner_sh outer_sh : list (ftype * (nat * nat))) : bool :=
  match inner_sh, outer_sh with
  | [], [] => true
  | (t, (r, c)) :: a, (t', (r', c')) :: b =>
      ftype_eqb t t' && (r <=? r')%nat && (c =? c')%nat && feats_fit a b
  | _, _ => false
  end.
Definition space_fits (si so : ospace) : bool :=
  (sp_nodes si <=? sp_nodes so)%nat && (sp_edges si <=? sp_edges so)%nat &&
  feats_fit (sp_feats si) (sp_feats so).

(** Zero matrices of given shapes (used where only shapes matter). *)
Definition zero_feats (sh : list (ftype * (nat * nat))) : list (ftype * list (list Z)) :=
  map (fun ts => (fst ts, repeat (repeat 0 (snd (snd ts))) (fst (snd ts)))) sh.
