(** Instance.v — [Operation], [JobShopInstance] and its derived views
    (job_shop_lib/_operation.py, _job_shop_instance.py). Executable only. *)
From JSL Require Import Base.

Record op := mkop { machines : list nat; duration : Z }.
Definition instance := list (list op).

Definition get_job (I : instance) (j : nat) : list op := nth j I [].
Definition get_op (I : instance) (j p : nat) : option op :=
  match nth_error I j with Some job => nth_error job p | None => None end.

(** [num_machines]: maximum machine id present plus one. *)
Definition max_mach_op (o : op) : nat := fold_right Nat.max 0%nat (map S (machines o)).
Definition num_machines (I : instance) : nat :=
  fold_right Nat.max 0%nat (map max_mach_op (concat I)).
Definition num_jobs (I : instance) : nat := length I.
Definition num_ops (I : instance) : nat := length (concat I).
Definition is_flexible (I : instance) : bool :=
  existsb (fun job => existsb (fun o => (1 <? length (machines o))%nat) job) I.

(** Dense job-major operation id. *)
Definition op_id (I : instance) (j p : nat) : nat :=
  (sumN (map (@length op) (firstn j I)) + p)%nat.

Definition durations_matrix (I : instance) : list (list Z) := map (map duration) I.
Definition machines_matrix (I : instance) : list (list (list nat)) := map (map machines) I.
Definition job_durations (I : instance) : list Z := map (fun job => sumZ (map duration job)) I.
Definition total_duration (I : instance) : Z := sumZ (job_durations I).

(** All (job, position) keys in job-major order. *)
Definition job_keys (j : nat) (job : list op) : list (nat * nat) :=
  map (fun p => (j, p)) (seq 0 (length job)).
Fixpoint all_keys_from (j : nat) (I : instance) : list (nat * nat) :=
  match I with [] => [] | job :: t => job_keys j job ++ all_keys_from (S j) t end.
Definition all_keys (I : instance) : list (nat * nat) := all_keys_from 0 I.

(** Well-formedness used by the theorems ("valid instance"): non-negative
    durations; every operation has at least one eligible machine. *)
Definition valid_opb (o : op) : bool := (0 <=? duration o) && negb (match machines o with [] => true | _ => false end).
Definition validb (I : instance) : bool := forallb (forallb valid_opb) I.
Definition positive_opb (o : op) : bool := (0 <? duration o) && negb (match machines o with [] => true | _ => false end).
Definition positiveb (I : instance) : bool := forallb (forallb positive_opb) I.

(** Codec *)
Definition dec_op (v : val) : op := mkop (asLof asN (vnth v 0)) (asZ (vnth v 1)).
Definition dec_instance (v : val) : instance := asLof (asLof dec_op) v.
Definition enc_key (k : nat * nat) : val := VL [vnat (fst k); vnat (snd k)].
Definition dec_key (v : val) : nat * nat := (asN (vnth v 0), asN (vnth v 1)).
