(** CmdC15.v — command table of the model runner for property C15
    (commands 1500 .. 1599 of [run_cmd]; local number = c mod 100). *)
From JSL Require Import Base.

Definition run_c15 (c : Z) (v : val) : val :=
  match c with
  | _ => VL []
  end.
