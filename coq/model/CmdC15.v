(** CmdC15.v — command table of the model runner for property C15
    (commands 1500 .. 1599 of [run_cmd]; local number = c mod 100).

    A case is a list of object descriptions; every description is built into
    a separate value (as the harness builds a separate Python object):
      [0; machines; duration; job; pos; id; _]   Operation(...) with the three attributes assigned
      [5; <instance>; j; p]                      instance.jobs[j][p] of a freshly built instance
      [1; <operation 0|5>; start; machine]       ScheduledOperation(op, start, machine)
      [2; <instance>; rows; meta]                Schedule(instance, rows, **meta); rows of [j; p; start; machine]
      [3; jobs; name; meta; set_attrs; _]        JobShopInstance(jobs, name, set_operation_attributes, **meta);
                                                 jobs of [machines; duration; job; pos; id]
      [4; t; z]                                  a value that is none of the four classes
    Trailing [_] fields choose between construction paths that must not matter
    (int vs one-element list of machines, constructor vs [from_matrices]). *)
From JSL Require Import Base Equality EqualitySpec.

Definition dec_oper_fields (v : val) : oper :=
  mkoper (asLof asZ (vnth v 0)) (asZ (vnth v 1)) (asZ (vnth v 2)) (asZ (vnth v 3)) (asZ (vnth v 4)).

Definition dec_inst (v : val) : inst :=
  build_instance (asLof (asLof dec_oper_fields) (vnth v 1)) (asLof asZ (vnth v 2))
                 (asZ (vnth v 3)) (asB (vnth v 4)).

Definition dec_opref (v : val) : oper :=
  if asZ (vnth v 0) =? 5
  then inst_op (dec_inst (vnth v 1)) (asN (vnth v 2)) (asN (vnth v 3))
  else mkoper (asLof asZ (vnth v 1)) (asZ (vnth v 2)) (asZ (vnth v 3)) (asZ (vnth v 4)) (asZ (vnth v 5)).

Definition dec_sched (v : val) : schd :=
  let I := dec_inst (vnth v 1) in
  mkschd I
    (asLof (asLof (fun e => mksoper (inst_op I (asN (vnth e 0)) (asN (vnth e 1)))
                                    (asZ (vnth e 2)) (asZ (vnth e 3)))) (vnth v 2))
    (asZ (vnth v 3)).

Definition dec_obj (v : val) : pyobj :=
  let tag := asZ (vnth v 0) in
  if (tag =? 0) || (tag =? 5) then OOp (dec_opref v)
  else if tag =? 1 then OSop (mksoper (dec_opref (vnth v 1)) (asZ (vnth v 2)) (asZ (vnth v 3)))
  else if tag =? 2 then OSched (dec_sched v)
  else if tag =? 3 then OInst (dec_inst v)
  else OForeign (asZ (vnth v 1)) (asZ (vnth v 2)).

Definition table {A : Type} (f : A -> A -> val) (xs : list A) : val :=
  VL (map (fun a => VL (map (fun b => f a b) xs)) xs).

(** hash(a) == hash(b) is forced when the hashed keys agree; [-1]: not two operations. *)
Definition hash_key_agree (a b : pyobj) : val :=
  match a, b with
  | OOp x, OOp y => vbool (hash_key x =? hash_key y)
  | _, _ => VI (-1)
  end.

(** 1: the model's answers on a case: [==] table, [!=] table, hash-key table,
    contents of the built objects. *)
Definition cmd_case (v : val) : val :=
  let xs := map dec_obj (asL v) in
  VL [table (fun a b => vbool (py_eq a b)) xs;
      table (fun a b => vbool (py_ne a b)) xs;
      table hash_key_agree xs;
      VL (map (fun x => enc_cont (content x)) xs)].

(** 2: the oracle on the implementation's output: snapshots of its objects and
    its own [==] table -> content-equality table, reflexive, symmetric, transitive. *)
Definition cmd_oracle (v : val) : val :=
  let xs := map dec_cont (asL (vnth v 0)) in
  let M := asLof (asLof asB) (vnth v 1) in
  VL [VL (map (fun r => VL (map vbool r)) (content_table xs));
      vbool (reflexiveb M); vbool (symmetricb M); vbool (transitiveb M)].

(** 3: the [==] table of the CURRENT (unrepaired) code's model. *)
Definition cmd_case_unrepaired (v : val) : val :=
  let xs := map dec_obj (asL v) in
  table (fun a b => vbool (py_eq_unrepaired a b)) xs.

Definition run_c15 (c : Z) (v : val) : val :=
  match c with
  | 1 => cmd_case v
  | 2 => cmd_oracle v
  | 3 => cmd_case_unrepaired v
  | _ => VL []
  end.
