(** Generator.v — [GeneralInstanceGenerator] / [InstanceGenerator]
    (job_shop_lib/generation/_general_instance_generator.py, _instance_generator.py)
    as functions of an ORACLE STREAM of draws. Executable definitions only.

    The stream is the list of the results the random number generator returns,
    in the order the code asks for them ([randint] / [choice]); the model
    checks the contract of each draw on the fly ([randint a b] in [a, b];
    [choice l] an element of [l]) and answers [Bad] when the stream is
    exhausted or breaks that contract. A stream "respects the contract" for a
    call exactly when the call does not answer [Bad].

    The model is the REPAIRED code (see /verif/.scratch/fix-C19-*.diff):
      * jobs-ge-machines: with [allow_less_jobs_than_machines = False] the
        number of jobs is drawn from [max jlo mlo, jhi] and the number of
        machines from [mlo, min J mhi] (upper bound capped); the constructor
        rejects [jhi < mlo]; [generate(num_jobs=j)] with [j < mlo] raises
        ValidationError;
      * machine-choice: multi-machine operations draw [k] distinct machines
        from the available machines ([range(M)] inside [generate]), and
        ValidationError is raised when [khi] exceeds their number;
      * own-rng: a generator built with a seed owns its stream; one built
        without a seed uses the shared module-level stream. *)
From JSL Require Import Base Instance.

Definition stream := list Z.

(** ** Settings and the mutable part of a generator *)
Record params := mkparams {
  jlo : nat; jhi : nat;            (* num_jobs_range *)
  mlo : nat; mhi : nat;            (* num_machines_range *)
  dlo : Z; dhi : Z;                (* duration_range *)
  klo : nat; khi : nat;            (* machines_per_operation *)
  allow_less : bool;               (* allow_less_jobs_than_machines *)
  recirc : bool;                   (* allow_recirculation *)
  suffix : list Z;                 (* name_suffix, character codes *)
  limit : option nat               (* iteration_limit *)
}.

(** [self]: the stream its RNG will return, [_counter], [_current_iteration]. *)
Record gst := mkgst { st_rng : stream; st_counter : nat; st_iter : nat }.

Definition set_rng (g : gst) (s : stream) : gst := mkgst s (st_counter g) (st_iter g).

(** ** Outcomes. [Exn e g]: the Python code raised (1 ValidationError,
    3 IndexError, 4 other/ValueError, 5 StopIteration) in state [g];
    [Bad]: the stream ended or broke the randint/choice contract. *)
Inductive res (A : Type) : Type :=
| Ok (a : A) (g : gst)
| Exn (e : Z) (g : gst)
| Bad.
Arguments Ok {A} a g.
Arguments Exn {A} e g.
Arguments Bad {A}.

Definition G (A : Type) : Type := gst -> res A.
Definition ret {A : Type} (a : A) : G A := fun g => Ok a g.
Definition raise {A : Type} (e : Z) : G A := fun g => Exn e g.
Definition bind {A B : Type} (m : G A) (f : A -> G B) : G B :=
  fun g => match m g with Ok a g' => f a g' | Exn e g' => Exn e g' | Bad => Bad end.

(** ** The two draws *)

(** [random.randint(a, b)]: ValueError on an empty range. *)
Definition randint (a b : Z) : G Z := fun g =>
  if b <? a then Exn 4 g else
  match st_rng g with
  | [] => Bad
  | x :: t => if (a <=? x) && (x <=? b) then Ok x (set_rng g t) else Bad
  end.

Definition randintN (a b : nat) : G nat :=
  bind (randint (Z.of_nat a) (Z.of_nat b)) (fun x => ret (Z.to_nat x)).

(** [random.choice(l)]: IndexError on an empty list; the stream holds the
    element returned. *)
Definition choice (l : list nat) : G nat := fun g =>
  match l with
  | [] => Exn 3 g
  | _ => match st_rng g with
         | [] => Bad
         | x :: t => if (0 <=? x) && mem_nat (Z.to_nat x) l then Ok (Z.to_nat x) (set_rng g t) else Bad
         end
  end.

(** [list.remove(x)]: first occurrence. *)
Fixpoint remove_first (x : nat) (l : list nat) : list nat :=
  match l with
  | [] => []
  | y :: t => if (x =? y)%nat then t else y :: remove_first x t
  end.

(** ** Machine choice *)

(** The loop of [_choose_multiple_machines]: [n] times choose and remove. *)
Fixpoint pick (n : nat) (cand : list nat) : G (list nat) :=
  match n with
  | O => ret []
  | S n' => bind (choice cand) (fun m =>
            bind (pick n' (remove_first m cand)) (fun ms => ret (m :: ms)))
  end.

Definition default_avail (p : params) (avail : option (list nat)) : list nat :=
  match avail with Some l => l | None => seq 0 (mhi p) end.

(** [_choose_multiple_machines(available_machines)] — works on a copy. *)
Definition choose_multiple (p : params) (avail : option (list nat)) : G (list nat) :=
  let cand := default_avail p avail in
  if (length cand <? khi p)%nat then raise 1 else
  bind (randintN (klo p) (khi p)) (fun k => pick k cand).

(** [_choose_one_machine(available_machines)] — mutates the caller's list
    when recirculation is off. Returns the machine and the caller's list. *)
Definition choose_one (p : params) (avail : option (list nat)) : G (nat * option (list nat)) :=
  bind (choice (default_avail p avail)) (fun m =>
  ret (m, if recirc p then avail
          else match avail with Some l => Some (remove_first m l) | None => None end)).

(** [create_random_operation(available_machines)] *)
Definition create_random_operation (p : params) (avail : option (list nat))
  : G (op * option (list nat)) :=
  bind (randint (dlo p) (dhi p)) (fun d =>
  if (1 <? khi p)%nat
  then bind (choose_multiple p avail) (fun ms => ret (mkop ms d, avail))
  else bind (choose_one p avail) (fun r => ret (mkop [fst r] d, snd r))).

(** ** [generate] *)

(** The inner loop: [n] operations sharing one [available_machines] list. *)
Fixpoint gen_ops (p : params) (n : nat) (avail : list nat) : G (list op) :=
  match n with
  | O => ret []
  | S n' => bind (create_random_operation p (Some avail)) (fun r =>
            bind (gen_ops p n' (match snd r with Some l => l | None => avail end)) (fun ops =>
            ret (fst r :: ops)))
  end.

(** The outer loop: every job starts from [list(range(num_machines))]. *)
Fixpoint gen_jobs (p : params) (J M : nat) : G (list (list op)) :=
  match J with
  | O => ret []
  | S J' => bind (gen_ops p M (seq 0 M)) (fun job =>
            bind (gen_jobs p J' M) (fun jobs => ret (job :: jobs)))
  end.

(** Decimal digits of the counter, as character codes. *)
Fixpoint uint_codes (u : Decimal.uint) : list Z :=
  match u with
  | Decimal.Nil => []
  | Decimal.D0 u => 48 :: uint_codes u | Decimal.D1 u => 49 :: uint_codes u
  | Decimal.D2 u => 50 :: uint_codes u | Decimal.D3 u => 51 :: uint_codes u
  | Decimal.D4 u => 52 :: uint_codes u | Decimal.D5 u => 53 :: uint_codes u
  | Decimal.D6 u => 54 :: uint_codes u | Decimal.D7 u => 55 :: uint_codes u
  | Decimal.D8 u => 56 :: uint_codes u | Decimal.D9 u => 57 :: uint_codes u
  end.
Definition decimal (n : nat) : list Z := uint_codes (Nat.to_uint n).

(** f"{name_suffix}_{counter}" *)
Definition name_of (p : params) (c : nat) : list Z := suffix p ++ 95 :: decimal c.

(** [_next_name()] *)
Definition next_name (p : params) : G (list Z) := fun g =>
  let c := S (st_counter g) in
  Ok (name_of p c) (mkgst (st_rng g) c (st_iter g)).

(** A generated instance with its name. *)
Definition ginst : Type := list Z * instance.

Definition draw_num_jobs (p : params) (oj : option nat) : G nat :=
  match oj with
  | Some j => ret j
  | None => randintN (if allow_less p then jlo p else Nat.max (jlo p) (mlo p)) (jhi p)
  end.

Definition draw_num_machines (p : params) (J : nat) (om : option nat) : G nat :=
  match om with
  | None =>
      if allow_less p then randintN (mlo p) (mhi p)
      else if (Nat.min J (mhi p) <? mlo p)%nat then raise 1
      else randintN (mlo p) (Nat.min J (mhi p))
  | Some m => if negb (allow_less p) && (J <? m)%nat then raise 1 else ret m
  end.

(** [generate(num_jobs, num_machines)] *)
Definition generate (p : params) (oj om : option nat) : G ginst :=
  bind (draw_num_jobs p oj) (fun J =>
  bind (draw_num_machines p J om) (fun M =>
  bind (gen_jobs p J M) (fun jobs =>
  bind (next_name p) (fun nm => ret (nm, jobs))))).

(** The number of machines of a generated instance = operations per job. *)
Definition M_of (p : params) (I : instance) : nat :=
  match I with [] => mlo p | job :: _ => length job end.

(** The stream that spells out an instance: number of jobs, number of
    machines, then per operation its duration, (for flexible settings) its
    number of machines, and its machines in order. *)
Definition enc_op (p : params) (o : op) : stream :=
  duration o :: (if (1 <? khi p)%nat
                 then Z.of_nat (length (machines o)) :: map Z.of_nat (machines o)
                 else map Z.of_nat (machines o)).
Definition enc_job (p : params) (job : list op) : stream := concat (map (enc_op p) job).
Definition encode (p : params) (I : instance) : stream :=
  Z.of_nat (length I) :: Z.of_nat (M_of p I) :: concat (map (enc_job p) I).

(** ** Construction and the iterator protocol *)

(** [GeneralInstanceGenerator.__init__]: [None] = accepted, [Some e] = raised. *)
Definition construct (p : params) : option Z :=
  if negb (allow_less p) && (jhi p <? mlo p)%nat then Some 1 else None.

Definition fresh (s : stream) : gst := mkgst s 0 0.

(** [__iter__] *)
Definition iter_reset (g : gst) : gst := mkgst (st_rng g) (st_counter g) 0.

(** [__next__]: [None] = StopIteration. *)
Definition next (p : params) : G (option ginst) := fun g =>
  let stop := match limit p with Some l => (l <=? st_iter g)%nat | None => false end in
  if stop then Ok None g
  else bind (generate p None None) (fun x => ret (Some x))
            (mkgst (st_rng g) (st_counter g) (S (st_iter g))).

(** [list(gen)] after [__iter__]: [next] until StopIteration, on fuel; the
    fuel is only exhausted when there is no limit (code 9). *)
Fixpoint drain (p : params) (fuel : nat) : G (list ginst) :=
  match fuel with
  | O => raise 9
  | S f => bind (next p) (fun o =>
           match o with
           | None => ret []
           | Some x => bind (drain p f) (fun xs => ret (x :: xs))
           end)
  end.

Definition list_gen (p : params) (fuel : nat) : G (list ginst) :=
  fun g => drain p fuel (iter_reset g).

(** [n] successive [generate()] calls. *)
Fixpoint generate_n (p : params) (n : nat) : G (list ginst) :=
  match n with
  | O => ret []
  | S n' => bind (generate p None None) (fun x =>
            bind (generate_n p n') (fun xs => ret (x :: xs)))
  end.

(** ** Several generators and the module-level RNG

    A generator owns a stream ([g_own = true]: built with a seed) or uses the
    shared one. Events:
      [ENew p (Some s) gl]  GeneralInstanceGenerator(p, seed): [s] is the
                            stream [random.Random(seed)] will return, [gl] the
                            one the re-seeded module-level RNG will return;
      [ENew p None _]       built without a seed;
      [EAct i a]            an action on generator [i];
      [EOther gl]           unrelated use of the [random] module (including
                            [random.seed]): the shared stream becomes [gl]. *)
Inductive action :=
| AGenerate (oj om : option nat)
| AIter
| ANext
| AList (fuel : nat)
| ACreateOp (avail : option (list nat)).

Inductive event :=
| ENew (p : params) (own : option stream) (gl : stream)
| EAct (i : nat) (a : action)
| EOther (gl : stream).

Inductive output :=
| ONone
| OInst (x : ginst)
| OList (xs : list ginst)
| OOp (o : op) (avail : option (list nat))
| OStop
| OExn (e : Z)
| OBad.

Record gen := mkgen { g_p : params; g_own : bool; g_st : gst }.
Record world := mkworld { w_global : stream; w_gens : list gen }.

Definition out_of {A : Type} (f : A -> output) (r : res A) (g0 : gst) : output * gst :=
  match r with
  | Ok a g => (f a, g)
  | Exn e g => (OExn e, g)
  | Bad => (OBad, g0)
  end.

(** One action on a generator whose RNG will return [st_rng g]. *)
Definition act (p : params) (a : action) (g : gst) : output * gst :=
  match a with
  | AGenerate oj om => out_of OInst (generate p oj om g) g
  | AIter => (ONone, iter_reset g)
  | ANext => out_of (fun o => match o with Some x => OInst x | None => OStop end) (next p g) g
  | AList fuel => out_of OList (list_gen p fuel g) g
  | ACreateOp avail => out_of (fun r => OOp (fst r) (snd r)) (create_random_operation p avail g) g
  end.

Definition step_gen (shared : stream) (x : gen) (a : action) : output * gen * stream :=
  if g_own x then
    let r := act (g_p x) a (g_st x) in
    (fst r, mkgen (g_p x) true (snd r), shared)
  else
    let r := act (g_p x) a (set_rng (g_st x) shared) in
    (fst r, mkgen (g_p x) false (set_rng (snd r) []), st_rng (snd r)).

(** The repaired library. *)
Definition step (w : world) (e : event) : output * world :=
  match e with
  | ENew p own gl =>
      match construct p with
      | Some c => (OExn c, w)
      | None =>
          match own with
          | Some s => (ONone, mkworld gl (w_gens w ++ [mkgen p true (fresh s)]))
          | None => (ONone, mkworld (w_global w) (w_gens w ++ [mkgen p false (fresh [])]))
          end
      end
  | EAct i a =>
      match nth_error (w_gens w) i with
      | None => (OBad, w)
      | Some x =>
          let r := step_gen (w_global w) x a in
          (fst (fst r), mkworld (snd r) (upd (w_gens w) i (snd (fst r))))
      end
  | EOther gl => (ONone, mkworld gl (w_gens w))
  end.

(** The library before the own-rng repair: [random.seed(seed)] re-seeds the
    module-level RNG, which every generator uses. *)
Definition step_shared (w : world) (e : event) : output * world :=
  match e with
  | ENew p own gl =>
      match construct p with
      | Some c => (OExn c, w)
      | None =>
          (ONone, mkworld (match own with Some s => s | None => w_global w end)
                          (w_gens w ++ [mkgen p false (fresh [])]))
      end
  | _ => step w e
  end.

Fixpoint run_with (stp : world -> event -> output * world) (w : world) (es : list event)
  : list output * world :=
  match es with
  | [] => ([], w)
  | e :: t => let r := stp w e in
              let r' := run_with stp (snd r) t in
              (fst r :: fst r', snd r')
  end.
Definition run := run_with step.
Definition run_shared := run_with step_shared.

(** What generator [i] answered during a run. *)
Fixpoint outputs_of (i : nat) (es : list event) (outs : list output) : list output :=
  match es, outs with
  | EAct j _ :: t, o :: ot => if (i =? j)%nat then o :: outputs_of i t ot else outputs_of i t ot
  | _ :: t, _ :: ot => outputs_of i t ot
  | _, _ => []
  end.

Fixpoint actions_of (i : nat) (es : list event) : list action :=
  match es with
  | EAct j a :: t => if (i =? j)%nat then a :: actions_of i t else actions_of i t
  | _ :: t => actions_of i t
  | [] => []
  end.

(** A generator on its own. *)
Fixpoint solo (p : params) (g : gst) (acts : list action) : list output :=
  match acts with
  | [] => []
  | a :: t => let r := act p a g in fst r :: solo p (snd r) t
  end.

Definition empty_world (gl : stream) : world := mkworld gl [].
