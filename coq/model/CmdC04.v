(** CmdC04.v — command table of the model runner for property C04
    (commands 0400 .. 0499 of [run_cmd]; local number = c mod 100). *)
From JSL Require Import Base Instance Dstate Filters World Derived Session Feasible
     RuleObservers Rules RulesSpec.

(** the filter configuration: a list of filter numbers, or a bare integer for
    "the solver's default" *)
Definition dec_fs (v : val) : list fname :=
  match v with VI _ => default_filters | VL _ => asLof dec_fname v end.

Definition enc_okey (o : option (nat * nat)) : val := vopt enc_key o.
Definition enc_sel (r : (nat * nat) + exn) : val :=
  match r with inl k => VL [VI 0; enc_key k] | inr e => VL [VI (exn_code e)] end.

(** 1 — relational replay of one solver run.
    [I; fs; rule; chooser; [[key; machine] ...]] (the implementation's choices)
    -> [[per step: available; selection is a best one (spec twin); the model's
         own selection; machines of the selection; chooser respected;
         dispatch result] ...; final rows; is_complete; steps accepted] *)
Definition chooser_okb (I : instance) (c : chooser) (k : nat * nat) (m : nat) : bool :=
  match c with
  | CFirst => match kmachines I k with m0 :: _ => (m0 =? m)%nat | [] => false end
  | CRandom => mem_nat m (kmachines I k)
  end.

Fixpoint replay (I : instance) (r : Z) (c : chooser) (steps : list val) (w : rwld) (n : nat)
  : list val * rwld * nat :=
  match steps with
  | [] => ([], w, n)
  | s :: t =>
      let k := dec_key (vnth s 0) in
      let m := asN (vnth s 1) in
      let d := core w in
      let fs := filt w in
      let msel := snd (run_rule I (dec_rule (VI r)) 0 w) in
      let '(w', res) := dispatch r_update I (mkreq (fst k) (snd k) (Some (Z.of_nat m))) w in
      let out := VL [vlist enc_key (available I d fs);
                     vbool (rule_bestb I fs d r k);
                     (if (r <? 4) then enc_sel msel else VL []);
                     vlist vnat (kmachines I k);
                     vbool (chooser_okb I c k m);
                     enc_res (fun _ : unit => VL []) res] in
      let '(outs, wf, nf) := replay I r c t w' (match res with inl _ => S n | inr _ => n end) in
      (out :: outs, wf, nf)
  end.

Definition cmd_replay (v : val) : val :=
  let I := dec_instance (vnth v 0) in
  let fs := dec_fs (vnth v 1) in
  let '(outs, w, n) := replay I (asZ (vnth v 2)) (dec_chooser (vnth v 3)) (asL (vnth v 4))
                              (init_w robs I fs) 0 in
  VL [VL outs; enc_sched (sched (core w)); vbool (is_complete I (sched (core w))); vnat n;
      vlist enc_key (available I (core w) fs)].

(** 2 — the model's own [solve]. [I; fs; rule; chooser; [[draw_rule; draw_chooser] ...]]
    -> [outcome; rows] *)
Definition orc_of (l : list val) (t : nat) : nat * nat :=
  let v := nth t l (VL []) in (asN (vnth v 0), asN (vnth v 1)).

Definition cmd_solve (v : val) : val :=
  let I := dec_instance (vnth v 0) in
  let fs := dec_fs (vnth v 1) in
  let '(w, out) := solve I (dec_rule (vnth v 2)) (dec_chooser (vnth v 3)) fs (orc_of (asL (vnth v 4))) in
  VL [enc_outcome out; enc_sched (sched (core w))].

(** 3 — [BaseSolver.__call__] with a scripted clock.
    [I; fs; rule; chooser; draws; t0; t1] -> [outcome; [elapsed]?; solved_by; class name; default filters; rows] *)
Definition cmd_call (v : val) : val :=
  let I := dec_instance (vnth v 0) in
  let fs := dec_fs (vnth v 1) in
  let t0 := asZ (vnth v 5) in
  let t1 := asZ (vnth v 6) in
  let '(w, out, md) := call I (dec_rule (vnth v 2)) (dec_chooser (vnth v 3)) fs (orc_of (asL (vnth v 4)))
                            (fun i => match i with O => t0 | _ => t1 end) in
  VL [enc_outcome out;
      match md with Some m => VL [VI (elapsed_time m)] | None => VL [] end;
      match md with Some m => vlist VI (solved_by m) | None => VL [] end;
      vlist VI solver_class_name; vlist vnat (map (fun f => match f with
         | FDominated => 0 | FNonImmediateMachines => 1 | FNonIdleMachines => 2 | FNonImmediateOps => 3 end)%nat
         default_filters);
      enc_sched (sched (core w))].

(** 4 — a session over the dispatcher with the scorer's observers.
    Events:
      [0 j p m]        dispatch
      [1]              dispatcher.reset()
      [2]              MostWorkRemainingScorer()                  -> object index
      [3 hasj]         DurationObserver(dispatcher, feature_types=JOBS or OPERATIONS) -> index
      [4 si]           scorer(dispatcher)                         -> score vector
      [5 rule sel]     built-in rule r                            -> [model selection; sel is a best one]
      [6 si sel]       score_based_rule(scorer si)                -> [model selection; sel best under MWKR]
      [7 sfuns sel]    score_based_rule_with_tie_breaker(sfuns)   -> [model selection; sel lexicographically best; vectors]
      [8 sfun sel]     score_based_rule(sfun)                     -> [model selection; sel best under that score]
      [9]              snapshot: available, subscribers, objects *)
Definition enc_selres (r : (nat * nat) + exn) (ok : bool) (extra : val) : val :=
  VL [enc_sel r; vbool ok; extra].

Definition rule_event (I : instance) (ev : val) (w : rwld) : rwld * val :=
  let fin {A} (f : A -> val) (p : rwld * (A + exn)) : rwld * val := (fst p, enc_res f (snd p)) in
  let d := core w in
  let fs := filt w in
  match asZ (vnth ev 0) with
  | 0 => fin (fun _ : unit => VL [])
             (dispatch r_update I (mkreq (asN (vnth ev 1)) (asN (vnth ev 2)) (Some (asZ (vnth ev 3)))) w)
  | 1 => fin (fun _ : unit => VL []) (reset r_reset I w)
  | 2 => fin vnat (new_scorer w)
  | 3 => fin vnat (r_new I RKDur (asB (vnth ev 1)) w)
  | 4 => fin (vlist VI) (scorer_call I (asN (vnth ev 1)) w)
  | 5 => let r := asZ (vnth ev 1) in
         let '(w', res) := run_rule I (dec_rule (VI r)) 0 w in
         (w', enc_selres res (rule_bestb I fs d r (dec_key (vnth ev 2))) (VL []))
  | 6 => let '(w', res) := rule_mwkr_obs I (asN (vnth ev 1)) w in
         (w', enc_selres res (rule_bestb I fs d 2 (dec_key (vnth ev 2))) (VL []))
  | 7 => let sfs := asLof dec_sfun (vnth ev 1) in
         let vs := map (sfun_vec I fs d) sfs in
         let '(w', res) := rule_tie_breaker I sfs w in
         (w', enc_selres res (lex_bestb vs (available I d fs) (dec_key (vnth ev 2))) (vlist (vlist VI) vs))
  | 8 => let s := dec_sfun (vnth ev 1) in
         let v := sfun_vec I fs d s in
         let '(w', res) := rule_score_based I s w in
         (w', enc_selres res (max_byb (score_at v) (available I d fs) (dec_key (vnth ev 2))) (vlist VI v))
  (* 10: the scorer is used on another dispatcher in between; answered like a snapshot *)
  | 10 => let w' := fst (scorer_forget (asN (vnth ev 1)) w) in
          (w', VL [vlist enc_key (available I d fs); vlist vnat (subs w'); vlist enc_robs (objs w');
                   enc_sched (sched d)])
  | _ => (w, VL [vlist enc_key (available I d fs); vlist vnat (subs w); vlist enc_robs (objs w);
                 enc_sched (sched d)])
  end.

Fixpoint rule_events (I : instance) (evs : list val) (w : rwld) : list val :=
  match evs with
  | [] => []
  | ev :: t => let '(w', out) := rule_event I ev w in out :: rule_events I t w'
  end.

Definition cmd_rule_session (v : val) : val :=
  let I := dec_instance (vnth v 0) in
  let fs := dec_fs (vnth v 1) in
  VL (rule_events I (asL (vnth v 2)) (init_w robs I fs)).

(** 5 — the tie-breaker loop as the UNREPAIRED code had it, on the vectors the
    scoring functions have in the state reached by a history (used by the
    harness only to describe the defect in a replay).
    [I; fs; [[j p m] ...]; sfuns] -> [repaired result; unrepaired result] *)
Definition cmd_tb_compare (v : val) : val :=
  let I := dec_instance (vnth v 0) in
  let fs := dec_fs (vnth v 1) in
  let w := fold_left (fun w s => fst (dispatch r_update I
              (mkreq (asN (vnth s 0)) (asN (vnth s 1)) (Some (asZ (vnth s 2)))) w))
              (asL (vnth v 2)) (init_w robs I fs) in
  let vs := map (sfun_vec I fs (core w)) (asLof dec_sfun (vnth v 3)) in
  let av := available I (core w) fs in
  VL [enc_sel (tb_of vs av); enc_sel (tb_unrepaired vs av)].

Definition run_c04 (c : Z) (v : val) : val :=
  match c with
  | 1 => cmd_replay v
  | 2 => cmd_solve v
  | 3 => cmd_call v
  | 4 => cmd_rule_session v
  | 5 => cmd_tb_compare v
  | _ => VL []
  end.
