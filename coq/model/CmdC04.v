(** CmdC04.v — command table of the model runner for property C04
    (commands 0400 .. 0499 of [run_cmd]; local number = c mod 100). *)
From JSL Require Import Base.

Definition run_c04 (c : Z) (v : val) : val :=
  match c with
  | _ => VL []
  end.
