(** CmdC17.v — command table of the model runner for property C17
    (commands 1700 .. 1799 of [run_cmd]; local number = c mod 100). *)
From JSL Require Import Base.

Definition run_c17 (c : Z) (v : val) : val :=
  match c with
  | _ => VL []
  end.
