(** CmdC17.v — command table of the model runner for property C17
    (commands 1700 .. 1799 of [run_cmd]; local number = c mod 100).

    1  [I; fs; b; pre; rm_m; rm_j; events]
         graph of builder [b] (CmdC16's numbering), a fresh dispatcher with
         filters [fs], the observers of [pre] ([[0]] create-or-get
         UnscheduledOperationsObserver, [[1; hm; hj]] RemainingOperationsObserver,
         [[2; ho; hm; hj]] IsCompletedObserver with those feature types), then
         ResidualGraphUpdater(remove_completed_machine_nodes = rm_m,
         remove_completed_job_nodes = rm_j); then the events: [[0; j; p; m]]
         a dispatch request with the updater subscribed, [[2; j; p; m]] a
         dispatch request while the updater ITSELF is not subscribed
         (constructed with subscribe=False and not yet handed to
         dispatcher.subscribe: its helper observers are notified, its own
         update() is not), every other code ([[1]] is what the harness sends)
         dispatcher.reset(). Codes 0 and 2 answer [accepted; state], reset
         answers [2; state].
         -> [[0]] (the builder raised) or [[1; state; [[accepted; state] ...]]],
         state = [removed_nodes; edges sorted; is-completed observer of the
         updater: [] or [[flags_m; flags_j; remaining_m; remaining_j]]].
    3  [I; fs; recipe; pre; rm_m; rm_j; events]
         as 1, on a graph assembled from the public building blocks (recipe: see CmdC16.v, command 6)
    2  [I; fs; nodes; removed0; [[rows; removed; edges] ...]]
         oracle: the clauses of spec/ResidualSpec.v on the OBSERVED graph after
         every dispatch, dispatcher state recomputed from the observed rows.
         -> [[positive; nonempty_jobs; nodup_machines; every_machine_used];
             [[completed_removed; unscheduled_kept; group_nodes; monotone;
               no_dangling; all_removed; complete; feasible] ...]] *)
From JSL Require Import Base Instance Dstate Filters World Observers Graph Feasible Derived GraphSpec
  Residual ResidualSpec CmdC16.

Definition dec_pre (v : val) : pre :=
  match asN (vnth v 0) with
  | 0%nat => PUnsched
  | 1%nat => PRemOps (asB (vnth v 1)) (asB (vnth v 2))
  | _ => PIsComp (asB (vnth v 1)) (asB (vnth v 2)) (asB (vnth v 3))
  end.

Definition enc_iscomp (o : option iscomp) : val :=
  match o with
  | Some c => VL [VL [vlist vbool (ic_flag_m c); vlist vbool (ic_flag_j c);
                      vlist VI (ic_rem_m c); vlist VI (ic_rem_j c)]]
  | None => VL []
  end.

Definition enc_state (u : rgu) : val :=
  VL [vlist vbool (g_removed (u_graph u));
      vlist enc_edge (sort_edges (g_edges (u_graph u)));
      enc_iscomp (rgu_iscomp (u_deps u) (u_ic u))].

Definition the_rgu (w : world rgu) (dflt : rgu) : rgu := nth 0 (objs w) dflt.

Definition run_event17 (I : instance) (dflt : rgu) (acc : world rgu * list val) (ev : val)
  : world rgu * list val :=
  let w := fst acc in
  match asN (vnth ev 0) with
  | 0%nat =>
      let r := mkreq (asN (vnth ev 1)) (asN (vnth ev 2)) (Some (asZ (vnth ev 3))) in
      let res := dispatch rgu_update I r w in
      let ok := match snd res with inl _ => true | inr _ => false end in
      (fst res, snd acc ++ [VL [vbool ok; enc_state (the_rgu (fst res) dflt)]])
  | 2%nat =>
      let r := mkreq (asN (vnth ev 1)) (asN (vnth ev 2)) (Some (asZ (vnth ev 3))) in
      let res := dispatch rgu_update_detached I r w in
      let ok := match snd res with inl _ => true | inr _ => false end in
      (fst res, snd acc ++ [VL [vbool ok; enc_state (the_rgu (fst res) dflt)]])
  | _ =>
      let res := reset rgu_reset I w in
      (fst res, snd acc ++ [VL [VI 2; enc_state (the_rgu (fst res) dflt)]])
  end.

Definition cmd_run (v : val) : val :=
  let I := dec_instance (vnth v 0) in
  let fs := asLof dec_fname (vnth v 1) in
  match build_by_code (asN (vnth v 2)) I with
  | None => VL [VI 0]
  | Some g =>
      let u := rgu_fresh I (asLof dec_pre (vnth v 3)) (asB (vnth v 4)) (asB (vnth v 5)) g in
      let res := fold_left (run_event17 I u) (asL (vnth v 6)) (rg_world fs (init_d I) u, []) in
      VL [VI 1; enc_state u; VL (snd res)]
  end.

(** Command 3: as command 1, on a graph assembled from the public building blocks (CmdC16's recipes)
    instead of a built-in builder: [I; fs; recipe; pre; rm_m; rm_j; events]. *)
Definition cmd_run_recipe (v : val) : val :=
  let I := dec_instance (vnth v 0) in
  let fs := asLof dec_fname (vnth v 1) in
  match build_recipe I (asL (vnth v 2)) with
  | None => VL [VI 0]
  | Some g =>
      let u := rgu_fresh I (asLof dec_pre (vnth v 3)) (asB (vnth v 4)) (asB (vnth v 5)) g in
      let res := fold_left (run_event17 I u) (asL (vnth v 6)) (rg_world fs (init_d I) u, []) in
      VL [VI 1; enc_state u; VL (snd res)]
  end.

Definition oracle_step (I : instance) (fs : list fname) (nodes : list (nat * node))
           (acc : list bool * list val) (st : val) : list bool * list val :=
  let S := dec_sched (vnth st 0) in
  let rm := asLof asB (vnth st 1) in
  let es := asLof dec_edge (vnth st 2) in
  let g := observed_graph I nodes rm es in
  let d := dstate_of I S in
  (rm, snd acc ++ [VL [vbool (completed_removedb I fs g d); vbool (unscheduled_keptb I g d);
                       vbool (group_nodesb I g d); vbool (monotoneb (fst acc) rm);
                       vbool (no_danglingb g); vbool (all_removedb g);
                       vbool (completeb I S); vbool (feasibleb I S)]]).

Definition cmd_oracle17 (v : val) : val :=
  let I := dec_instance (vnth v 0) in
  let fs := asLof dec_fname (vnth v 1) in
  let nodes := asLof dec_node (vnth v 2) in
  let res := fold_left (oracle_step I fs nodes) (asL (vnth v 4)) (asLof asB (vnth v 3), []) in
  VL [VL [vbool (positiveb I); vbool (nonempty_jobsb I); vbool (nodup_machinesb I);
          vbool (every_machine_usedb I)];
      VL (snd res)].

Definition run_c17 (c : Z) (v : val) : val :=
  match c with
  | 1 => cmd_run v
  | 2 => cmd_oracle17 v
  | 3 => cmd_run_recipe v
  | _ => VL []
  end.
