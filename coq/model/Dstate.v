(** Dstate.v — the dispatcher's own fields and the pure helpers that read
    them (job_shop_lib/dispatching/_dispatcher.py, _schedule.py,
    _scheduled_operation.py). Executable only. *)
From JSL Require Import Base Instance.

(** A [ScheduledOperation]: the operation is identified by (job, position). *)
Record sop := mksop { s_job : nat; s_pos : nat; s_start : Z; s_mach : nat }.
Definition schedule := list (list sop).       (* row m = machine m *)

Definition key (x : sop) : nat * nat := (s_job x, s_pos x).
Definition dur (I : instance) (x : sop) : Z :=
  match get_op I (s_job x) (s_pos x) with Some o => duration o | None => 0 end.
Definition s_end (I : instance) (x : sop) : Z := s_start x + dur I x.
Definition all_sops (S : schedule) : list sop := concat S.

Record dstate := mkd {
  mfree : list Z;          (* _machine_next_available_time *)
  jnext : list nat;        (* _job_next_operation_index *)
  jfree : list Z;          (* _job_next_available_time *)
  sched : schedule         (* schedule.schedule *)
}.

Definition init_d (I : instance) : dstate :=
  mkd (repeat 0 (num_machines I)) (repeat 0%nat (num_jobs I))
      (repeat 0 (num_jobs I)) (repeat [] (num_machines I)).

(** [Schedule.makespan]: max over rows of the end of the LAST element. *)
Definition last_end (I : instance) (row : list sop) : Z :=
  match last_opt row with Some y => s_end I y | None => 0 end.
Definition makespan_code (I : instance) (S : schedule) : Z :=
  fold_left (fun acc row => match last_opt row with
                            | Some y => Z.max acc (s_end I y)
                            | None => acc end) S 0.
Definition num_scheduled (S : schedule) : nat := sumN (map (@length sop) S).
Definition is_complete (I : instance) (S : schedule) : bool :=
  (num_scheduled S =? num_ops I)%nat.

(** [Dispatcher.start_time] for an in-range machine index. *)
Definition start_time (d : dstate) (j m : nat) : Z :=
  Z.max (nthZ (mfree d) m) (nthZ (jfree d) j).

(** [Dispatcher.earliest_start_time]: min over eligible machines, then the
    job. Python's [min] of an empty generator raises; [None] stands for it. *)
Definition earliest_start_time (d : dstate) (j : nat) (o : op) : option Z :=
  match minZ_opt (map (fun m => nthZ (mfree d) m) (machines o)) with
  | None => None
  | Some mm => Some (Z.max mm (nthZ (jfree d) j))
  end.

(** Operations are passed around as keys; [ops_of] resolves them. *)
Definition kop (I : instance) (k : nat * nat) : option op := get_op I (fst k) (snd k).
Definition kmachines (I : instance) (k : nat * nat) : list nat :=
  match kop I k with Some o => machines o | None => [] end.
Definition kdur (I : instance) (k : nat * nat) : Z :=
  match kop I k with Some o => duration o | None => 0 end.

(** All candidate start times of a list of operations (every eligible machine). *)
Definition cand_starts (I : instance) (d : dstate) (L : list (nat * nat)) : list Z :=
  flat_map (fun k => map (fun m => start_time d (fst k) m) (kmachines I k)) L.

(** [Dispatcher.min_start_time]: makespan when the list is empty. If the list
    is non-empty but no operation has a machine the code raises (int(inf));
    valid instances exclude that, the model returns the makespan there. *)
Definition min_start_time (I : instance) (d : dstate) (L : list (nat * nat)) : Z :=
  match L with
  | [] => makespan_code I (sched d)
  | _ => match minZ_opt (cand_starts I d L) with
         | Some t => t
         | None => makespan_code I (sched d)
         end
  end.

(** [raw_ready_operations]: the next operation of every unfinished job. *)
Fixpoint raw_ready_from (I : instance) (j : nat) (nx : list nat) : list (nat * nat) :=
  match I, nx with
  | job :: I', p :: nx' =>
      if (p <? length job)%nat then (j, p) :: raw_ready_from I' (S j) nx'
      else raw_ready_from I' (S j) nx'
  | _, _ => []
  end.
Definition raw_ready (I : instance) (d : dstate) : list (nat * nat) :=
  raw_ready_from I 0 (jnext d).

Fixpoint unscheduled_from (I : instance) (j : nat) (nx : list nat) : list (nat * nat) :=
  match I, nx with
  | job :: I', p :: nx' =>
      map (fun q => (j, q)) (seq p (length job - p)) ++ unscheduled_from I' (S j) nx'
  | _, _ => []
  end.
Definition unscheduled_ops (I : instance) (d : dstate) : list (nat * nat) :=
  unscheduled_from I 0 (jnext d).

Fixpoint scheduled_from (I : instance) (j : nat) (nx : list nat) : list (nat * nat) :=
  match I, nx with
  | job :: I', p :: nx' =>
      map (fun q => (j, q)) (seq 0 (Nat.min p (length job))) ++ scheduled_from I' (S j) nx'
  | _, _ => []
  end.
Definition scheduled_ops (I : instance) (d : dstate) : list (nat * nat) :=
  scheduled_from I 0 (jnext d).

(** The reversed scan with [break] shared by [ongoing_operations] and
    [_get_non_idle_machines]: the maximal suffix of the row (taken from the
    back) whose elements all end after [t]; returned in scan order. *)
Fixpoint take_while_running (I : instance) (t : Z) (rrow : list sop) : list sop :=
  match rrow with
  | [] => []
  | x :: r => if s_end I x <=? t then [] else x :: take_while_running I t r
  end.
Definition ongoing_at (I : instance) (t : Z) (S : schedule) : list sop :=
  flat_map (fun row => take_while_running I t (rev row)) S.

(** Codec *)
Definition enc_sop (x : sop) : val :=
  VL [vnat (s_job x); vnat (s_pos x); VI (s_start x); vnat (s_mach x)].
Definition dec_sop (v : val) : sop :=
  mksop (asN (vnth v 0)) (asN (vnth v 1)) (asZ (vnth v 2)) (asN (vnth v 3)).
Definition enc_sched (S : schedule) : val := vlist (vlist enc_sop) S.
Definition dec_sched (v : val) : schedule := asLof (asLof dec_sop) v.
Definition enc_dstate (d : dstate) : val :=
  VL [vlist VI (mfree d); vlist vnat (jnext d); vlist VI (jfree d); enc_sched (sched d)].
