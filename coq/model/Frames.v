(** Frames.v — what [create_gif_from_frames] / [create_video_from_frames] do to
    the images they have read back before they hand them to imageio
    (visualization/_gantt_chart_video_and_gif_creation.py,
    [_pad_to_common_shape], added by the repair 6fb35e8). Executable only.

    Frames are saved with a tight bounding box, so their pixel size depends
    on what the legend shows; imageio only stacks images of one shape. The
    function computes the largest height and the largest width among the
    images ([max(..., default=0)]) and replaces every image of another
    shape by [np.full((height, width) + image.shape[2:], 255)] with the image
    written into its upper left corner ([padded[:h, :w] = image]).

    An image is a numpy array: its shape is kept apart from its data (an
    array without rows still has a width). The trailing (channel) axis is
    not modelled: a pixel is one number. *)
From JSL Require Import Base.

Record image := mkimg { i_h : nat; i_w : nat; i_px : list (list Z) }.

Definition WHITE : Z := 255.

(** [max((...), default=0)] *)
Definition list_max0 (l : list nat) : nat := fold_right Nat.max 0%nat l.

(** [image[r, c]] *)
Definition px (i : image) (r c : nat) : Z := nth c (nth r (i_px i) []) 0.

(** [np.full((H, W), 255)] followed by [padded[:h, :w] = image] *)
Definition pad_to (H W : nat) (i : image) : image :=
  mkimg H W
    (map (fun r => map (fun c => if (r <? i_h i)%nat && (c <? i_w i)%nat then px i r c else WHITE)
                       (seq 0 W))
         (seq 0 H)).

Definition pad_to_common_shape (imgs : list image) : list image :=
  let H := list_max0 (map i_h imgs) in
  let W := list_max0 (map i_w imgs) in
  map (fun i => if (i_h i =? H)%nat && (i_w i =? W)%nat then i else pad_to H W i) imgs.

(** Encoding for the runner: [[h; w; rows]] *)
Definition dec_image (v : val) : image :=
  mkimg (asN (vnth v 0)) (asN (vnth v 1)) (asLof (asLof asZ) (vnth v 2)).
Definition enc_image (i : image) : val :=
  VL [vnat (i_h i); vnat (i_w i); vlist (vlist VI) (i_px i)].
