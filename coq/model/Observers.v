(** Observers.v — the built-in observers of the dispatcher cone
    (dispatching/_history_observer.py, _unscheduled_operations_observer.py,
    reinforcement_learning/_reward_observers.py) plus a recording observer used
    by the correspondence check of C10. Executable only. *)
From JSL Require Import Base Instance Dstate Filters World.

(** [KRec single sub]: the user-defined recorder classes of the harness: a
    singleton one and a non-singleton one ([single]) and, of each, a SUBCLASS
    ([sub = true]) that adds nothing. *)
Inductive okind := KHist | KUnsched | KMakespan | KIdle | KRec (single : bool) (sub : bool) | KFeat.

Inductive obs :=
| OHist (h : list sop)
| OUnsched (dq : list (list (nat * nat)))
| OMakespan (rw : list Z) (cur : Z)
| OIdle (rw : list Z)
| ORec (single : bool) (sub : bool) (log : list val)
(* a feature observer seen only as a subscriber (non-singleton class, state not
   modelled here: FeatureObservers.v does that) *)
| OFeat.

Definition kind_of (o : obs) : okind :=
  match o with
  | OHist _ => KHist | OUnsched _ => KUnsched | OMakespan _ _ => KMakespan
  | OIdle _ => KIdle | ORec s b _ => KRec s b | OFeat => KFeat
  end.
Definition kind_eqb (a b : okind) : bool :=
  match a, b with
  | KHist, KHist | KUnsched, KUnsched | KMakespan, KMakespan | KIdle, KIdle => true
  | KRec x a, KRec y b => Bool.eqb x y && Bool.eqb a b
  | KFeat, KFeat => true
  | _, _ => false
  end.
(** [_is_singleton]: the class default [True] everywhere except the
    non-singleton recorder class. *)
Definition is_singleton (k : okind) : bool :=
  match k with KRec s _ => s | KFeat => false | _ => true end.

(** [isinstance(observer, cls)]: [have] is the class of the object, [want] the
    class asked for. An object of a subclass is an instance of the base class
    (not the other way round). *)
Definition is_instance (want have : okind) : bool :=
  match want, have with
  | KRec s false, KRec s' _ => Bool.eqb s s'
  | _, _ => kind_eqb want have
  end.

Definition pop_job (dq : list (list (nat * nat))) (j : nat) : list (list (nat * nat)) :=
  match nth_error dq j with
  | Some (_ :: t) => upd dq j t
  | _ => dq
  end.

(** What the recording observer writes down when it is notified: the event,
    the operation it was handed, and what the dispatcher shows at that moment
    (tracking vectors, rows, makespan, and two cached queries). *)
Definition rec_entry (I : instance) (fs : list fname) (d : dstate) (tag : Z) (x : option sop) : val :=
  VL [VI tag; vopt enc_sop x; enc_dstate d; VI (makespan_code I (sched d));
      vlist enc_key (scheduled_ops I d);
      VI (min_start_time I d (available I d fs));
      vlist enc_key (unscheduled_ops I d);
      vlist enc_key (available I d fs)].

Definition o_update (I : instance) (fs : list fname) (d : dstate) (x : sop) (o : obs) : obs :=
  match o with
  | OHist h => OHist (h ++ [x])
  | OUnsched dq => OUnsched (pop_job dq (s_job x))
  | OMakespan rw cur =>
      let cur' := Z.max cur (s_end I x) in
      OMakespan (rw ++ [cur - cur']) cur'
  | OIdle rw =>
      let row := removelast (nth (s_mach x) (sched d) []) in
      let idle := match last_opt row with
                  | Some y => s_start x - s_end I y
                  | None => s_start x end in
      OIdle (rw ++ [- idle])
  | ORec s b log => ORec s b (log ++ [rec_entry I fs d 0 (Some x)])
  | OFeat => OFeat
  end.

Definition all_deques (I : instance) : list (list (nat * nat)) :=
  map (fun jj => job_keys (fst jj) (snd jj)) (combine (seq 0 (length I)) I).

Definition o_reset (I : instance) (fs : list fname) (d : dstate) (o : obs) : obs :=
  match o with
  | OHist _ => OHist []
  | OUnsched _ => OUnsched (all_deques I)
  | OMakespan _ _ => OMakespan [] (makespan_code I (sched d))
  | OIdle _ => OIdle []
  | ORec s b log => ORec s b (log ++ [rec_entry I fs d 1 None])
  | OFeat => OFeat
  end.

(** Constructors, run when the dispatcher is in state [d]. *)
Definition o_construct (I : instance) (d : dstate) (k : okind) : obs :=
  match k with
  | KHist => OHist []
  | KUnsched =>
      OUnsched (fold_left (fun dq x => pop_job dq (s_job x)) (all_sops (sched d)) (all_deques I))
  | KMakespan => OMakespan [] (makespan_code I (sched d))
  | KIdle => OIdle []
  | KRec s b => ORec s b []
  | KFeat => OFeat
  end.

Definition wld := world obs.
Definition MO := M obs.

(** [DispatcherObserver.__init__]: the singleton guard looks at the current
    SUBSCRIBERS (not at every object ever created) for an INSTANCE of the class
    being constructed ([isinstance(observer, self.__class__)]: an object of a
    subclass counts), then subscribes. *)
Definition subscribed_kinds (w : wld) : list okind :=
  flat_map (fun i => match nth_error (objs w) i with Some o => [kind_of o] | None => [] end) (subs w).

(** [sub = false]: the constructor's [subscribe=False] (the singleton guard
    still runs; the object is created but not subscribed). *)
Definition new_observer_gen (I : instance) (k : okind) (sub : bool) : MO nat :=
  bind (@get obs) (fun w : wld =>
  if is_singleton k && existsb (is_instance k) (subscribed_kinds w) then raise EValidation
  else
    let i := length (objs w) in
    bind (set_objs (fun os : list obs => os ++ [o_construct I (core w) k])) (fun _ =>
    if sub then bind (subscribe i) (fun _ => ret i) else ret i)).
Definition new_observer (I : instance) (k : okind) : MO nat := new_observer_gen I k true.

(** [create_or_get_observer]: the FIRST subscriber, in subscription order,
    that is an instance of the class and satisfies the condition. The
    condition is modelled as "the object is one of [allowed]" ([None] = the
    default condition, always true). *)
Definition cond_ok (allowed : option (list nat)) (i : nat) : bool :=
  match allowed with None => true | Some l => mem_nat i l end.
Fixpoint find_sub (os : list obs) (k : okind) (allowed : option (list nat)) (ss : list nat) : option nat :=
  match ss with
  | [] => None
  | i :: t => match nth_error os i with
              | Some o => if is_instance k (kind_of o) && cond_ok allowed i then Some i
                          else find_sub os k allowed t
              | None => find_sub os k allowed t
              end
  end.
Definition create_or_get (I : instance) (k : okind) (allowed : option (list nat)) : MO nat :=
  bind (@get obs) (fun w : wld =>
  match find_sub (objs w) k allowed (subs w) with
  | Some i => ret i
  | None => new_observer I k
  end).

(** Public state of an observer, as the harness reads it. *)
Definition enc_obs (I : instance) (d : dstate) (o : obs) : val :=
  match o with
  | OHist h => VL [VI 0; vlist enc_sop h]
  | OUnsched dq =>
      VL [VI 1; vlist (vlist enc_key) dq; vlist enc_key (concat dq);
          VI (Z.of_nat (num_ops I) - Z.of_nat (num_scheduled (sched d)))]
  | OMakespan rw cur =>
      VL [VI 2; vlist VI rw; VI cur; VI (match last_opt rw with Some r => r | None => 0 end)]
  | OIdle rw => VL [VI 3; vlist VI rw; VI (match last_opt rw with Some r => r | None => 0 end)]
  | ORec s _ log => VL [VI 4; vbool s; VL log]
  | OFeat => VL [VI 5]
  end.

Definition dec_okind (v : val) : okind :=
  match asZ v with
  | 0 => KHist | 1 => KUnsched | 2 => KMakespan | 3 => KIdle | 4 => KRec true false | 6 => KFeat
  | 7 => KRec false true | 8 => KRec true true | _ => KRec false false
  end.
