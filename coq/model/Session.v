(** Session.v — an interpreter for event scripts over the dispatcher world:
    dispatch requests (valid or not), every query, reset, observer
    construction / subscription events and snapshots. The correspondence
    harness runs the same script on the real library. Executable only. *)
From JSL Require Import Base Instance Dstate Filters World Observers.

Definition enc_res {A} (f : A -> val) (r : A + exn) : val :=
  match r with inl x => VL [VI 0; f x] | inr e => VL [VI (exn_code e)] end.

Definition dec_request (v : val) : request :=
  mkreq (asN (vnth v 1)) (asN (vnth v 2)) (asOpt asZ (vnth v 3)).

Definition snapshot (I : instance) (w : wld) : val :=
  let d := core w in
  VL [enc_dstate d;
      vbool (is_complete I (sched d));
      VI (makespan_code I (sched d));
      vnat (num_scheduled (sched d));
      vlist vnat (subs w);
      vlist (enc_obs I d) (objs w)].

Definition run_query (I : instance) (q : Z) (arg : val) : MO val :=
  let wrap {A} (f : A -> val) (m : MO A) : MO val := fun w => let '(w', r) := m w in (w', inl (enc_res f r)) in
  match q with
  | 0 => wrap VI (q_now I)
  | 1 => wrap (vlist enc_key) (q_avail I)
  | 2 => wrap (vlist enc_key) (q_raw I)
  | 3 => wrap (vlist enc_key) (q_unsched I)
  | 4 => wrap (vlist enc_key) (q_sched I)
  | 5 => wrap (vlist vnat) (q_amach I)
  | 6 => wrap (vlist vnat) (q_ajobs I)
  | 7 => wrap (vlist enc_key) (q_completed I)
  | 8 => wrap (vlist enc_key) (q_uncompleted I)
  | 9 => wrap (vlist enc_sop) (q_ongoing I)
  | 10 => wrap VI (q_earliest I (dec_key arg))
  | 11 => wrap VI (q_remaining I (dec_sop arg))
  | 12 => wrap vbool (q_is_scheduled (dec_key arg))
  | 13 => wrap vbool (q_is_ongoing I (dec_sop arg))
  | 14 => wrap enc_key (q_next_operation I (asN arg))
  | 15 => wrap VI (q_min_start I (asLof dec_key arg))
  | 16 => wrap (vlist enc_key) (q_filter I (dec_fname (vnth arg 0)) (asLof dec_key (vnth arg 1)))
  | _ => ret (VL [])
  end.

Definition run_event (I : instance) (ev : val) : wld -> wld * val :=
  fun w =>
  let fin {A} (f : A -> val) (p : wld * (A + exn)) : wld * val := (fst p, enc_res f (snd p)) in
  match asZ (vnth ev 0) with
  (* on success: the subscribers notified, in notification order *)
  | 0 => fin (fun _ : unit => vlist vnat (subs w)) (dispatch o_update I (dec_request ev) w)
  | 1 => match run_query I (asZ (vnth ev 1)) (vnth ev 2) w with
         | (w', inl v) => (w', v)
         | (w', inr e) => (w', VL [VI (exn_code e)])
         end
  | 2 => fin (fun _ : unit => vlist vnat (subs w)) (reset o_reset I w)
  (* [3, kind] constructs and subscribes; [3, kind, 1] is the constructor's subscribe=False *)
  | 3 => fin vnat (new_observer_gen I (dec_okind (vnth ev 1)) (negb (asB (vnth ev 2))) w)
  (* the script names observer objects by index; an index that names no object is the driver's IndexError *)
  | 4 => if (asN (vnth ev 1) <? length (objs w))%nat
         then fin (fun _ : unit => VL []) (unsubscribe (asN (vnth ev 1)) w)
         else (w, VL [VI (exn_code EIndex)])
  | 5 => if (asN (vnth ev 1) <? length (objs w))%nat
         then fin (fun _ : unit => VL []) (subscribe (asN (vnth ev 1)) w)
         else (w, VL [VI (exn_code EIndex)])
  | 6 => fin vnat (create_or_get I (dec_okind (vnth ev 1)) (asOpt (asLof asN) (vnth ev 2)) w)
  | 8 => fin (fun _ : unit => vlist vnat (subs w)) (env_step o_update I (asN (vnth ev 1)) (asZ (vnth ev 2)) w)
  (* evaluating a dispatching rule on the dispatcher: read-only by contract (the selection itself is C04's) *)
  | 9 => (w, VL [])
  (* a constructor call whose arguments are rejected (ValidationError) before anything is created or
     subscribed, e.g. a feature observer asked for a feature type it does not support *)
  | 10 => (w, VL [VI (exn_code EValidation)])
  | _ => (w, snapshot I w)
  end.

Fixpoint run_events (I : instance) (evs : list val) (w : wld) : list val :=
  match evs with
  | [] => []
  | ev :: t => let '(w', out) := run_event I ev w in out :: run_events I t w'
  end.

(** session: [I; filters; events] -> one output per event *)
Definition cmd_session (v : val) : val :=
  let I := dec_instance (vnth v 0) in
  let fs := asLof dec_fname (vnth v 1) in
  VL (run_events I (asL (vnth v 2)) (init_w obs I fs)).
