(** World.v — the [Dispatcher] object as a mutable world: its own fields, the
    per-method result cache, the ordered subscriber list; [dispatch], [reset]
    and every query as programs in a state-and-exception monad that follow the
    statement order of job_shop_lib/dispatching/_dispatcher.py. Executable only. *)
From JSL Require Import Base Instance Dstate Filters.
Set Implicit Arguments.

Inductive exn := EValidation | EUninit | EIndex | EOther.
Definition exn_code (e : exn) : Z :=
  match e with EValidation => 1 | EUninit => 2 | EIndex => 3 | EOther => 4 end.

(** The [_cache] dictionary: one optional entry per decorated method. *)
Record cache := mkc {
  c_now : option Z;
  c_avail : option (list (nat * nat));
  c_raw : option (list (nat * nat));
  c_unsched : option (list (nat * nat));
  c_sched : option (list (nat * nat));
  c_amach : option (list nat);
  c_ajobs : option (list nat);
  c_completed : option (list (nat * nat));
  c_uncompleted : option (list (nat * nat));
  c_ongoing : option (list sop)
}.
Definition empty_cache : cache := mkc None None None None None None None None None None.

Record request := mkreq { r_job : nat; r_pos : nat; r_mach : option Z }.

Section World.
  (** Observer states are abstract here; the concrete observers instantiate
      [o_update] / [o_reset] (called with the dispatcher state at the moment
      of the notification). *)
  Variable O : Type.
  Variable o_update : instance -> list fname -> dstate -> sop -> O -> O.
  Variable o_reset : instance -> list fname -> dstate -> O -> O.

  (** Observer objects live in a store ([objs], indexed by creation order) and
      keep their state whether subscribed or not; [subs] is
      [Dispatcher.subscribers]: indices into the store, in subscription order
      (an object subscribed twice by hand appears twice). *)
  Record world := mkw {
    core : dstate;
    wcache : cache;
    filt : list fname;          (* ready_operations_filter; [] = None *)
    objs : list O;
    subs : list nat
  }.

  Definition M (A : Type) : Type := world -> world * (A + exn).
  Definition ret {A} (x : A) : M A := fun w => (w, inl x).
  Definition raise {A} (e : exn) : M A := fun w => (w, inr e).
  Definition bind {A B} (m : M A) (f : A -> M B) : M B :=
    fun w => match m w with
             | (w', inl x) => f x w'
             | (w', inr e) => (w', inr e)
             end.
  Definition get : M world := fun w => (w, inl w).
  Definition put (w' : world) : M unit := fun _ => (w', inl tt).
  Definition modify (f : world -> world) : M unit := fun w => (f w, inl tt).
  Definition of_opt {A} (o : option A) (e : exn) : M A :=
    match o with Some x => ret x | None => raise e end.

  Notation "x <- m ;; f" := (bind m (fun x => f)) (at level 61, m at next level, right associativity).
  Notation "m ;;; f" := (bind m (fun _ => f)) (at level 61, right associativity).

  Definition set_core (f : dstate -> dstate) : M unit :=
    modify (fun w => mkw (f (core w)) (wcache w) (filt w) (objs w) (subs w)).
  Definition set_cache (f : cache -> cache) : M unit :=
    modify (fun w => mkw (core w) (f (wcache w)) (filt w) (objs w) (subs w)).
  Definition set_objs (f : list O -> list O) : M unit :=
    modify (fun w => mkw (core w) (wcache w) (filt w) (f (objs w)) (subs w)).
  Definition set_subs (f : list nat -> list nat) : M unit :=
    modify (fun w => mkw (core w) (wcache w) (filt w) (objs w) (f (subs w))).

  Definition init_w (I : instance) (fs : list fname) : world :=
    mkw (init_d I) empty_cache fs [] [].

  (** [for subscriber in self.subscribers: subscriber.<f>(...)] — one call per
      list entry, in list order, each seeing the dispatcher state [d]. *)
  Definition notify_one (f : O -> O) (os : list O) (i : nat) : list O :=
    match nth_error os i with Some o => upd os i (f o) | None => os end.
  Definition notify_all (f : O -> O) (ss : list nat) (os : list O) : list O :=
    fold_left (notify_one f) ss os.

  (** ** dispatch *)

  (** [Schedule.add]: the order check against the last element of the row,
      then the append. *)
  Definition schedule_add (I : instance) (x : sop) : M unit :=
    w <- get ;;
    row <- of_opt (nth_error (sched (core w)) (s_mach x)) EIndex ;;
    (match last_opt row with
     | Some y => if s_end I y <=? s_start x then ret tt else raise EValidation
     | None => ret tt
     end) ;;;
    set_core (fun d => mkd (mfree d) (jnext d) (jfree d)
                           (upd (sched d) (s_mach x) (row ++ [x]))).

  (** [_update_tracking_attributes] *)
  Definition update_tracking (I : instance) (x : sop) : M unit :=
    let e := s_end I x in
    set_core (fun d => mkd (upd (mfree d) (s_mach x) e) (jnext d) (jfree d) (sched d)) ;;;
    set_core (fun d => mkd (mfree d) (upd (jnext d) (s_job x) (S (nthN (jnext d) (s_job x))))
                           (jfree d) (sched d)) ;;;
    set_core (fun d => mkd (mfree d) (jnext d) (upd (jfree d) (s_job x) e) (sched d)) ;;;
    set_cache (fun _ => empty_cache) ;;;
    w <- get ;;
    set_objs (notify_all (o_update I (filt w) (core w) x) (subs w)).

  (** [if machine_id is None: machine_id = operation.machine_id] *)
  Definition resolve_machine (o : op) (rm : option Z) : M Z :=
    match rm with
    | Some m => ret m
    | None => match machines o with
              | [] => raise EIndex
              | [m] => ret (Z.of_nat m)
              | _ => raise EUninit
              end
    end.

  Definition dispatch (I : instance) (r : request) : M unit :=
    o <- of_opt (get_op I (r_job r) (r_pos r)) EOther ;;
    w <- get ;;
    (* is_operation_ready *)
    (if (nthN (jnext (core w)) (r_job r) =? r_pos r)%nat then ret tt else raise EValidation) ;;;
    (* machine_id defaulting: Operation.machine_id *)
    m <- resolve_machine o (r_mach r) ;;
    (* start_time: Python subscript on the machine vector *)
    mi <- of_opt (py_index (length (mfree (core w))) m) EIndex ;;
    let st := Z.max (nthZ (mfree (core w)) mi) (nthZ (jfree (core w)) (r_job r)) in
    (* ScheduledOperation.__init__: machine_id must be one of operation.machines *)
    (if existsb (fun k => Z.of_nat k =? m) (machines o) then ret tt else raise EValidation) ;;;
    let x := mksop (r_job r) (r_pos r) st (Z.to_nat m) in
    schedule_add I x ;;;
    update_tracking I x.

  (** The dispatcher part of [SingleJobShopGraphEnv.step]:
      [operation = dispatcher.next_operation(job_id)] (ValidationError for a
      finished job), [-1] replaced by the operation's own machine, [dispatch]. *)
  Definition env_step (I : instance) (j : nat) (m : Z) : M unit :=
    w <- get ;;
    (if (length (get_job I j) <=? nthN (jnext (core w)) j)%nat then raise EValidation else ret tt) ;;;
    let p := nthN (jnext (core w)) j in
    o <- of_opt (get_op I j p) EOther ;;
    m' <- (if m =? -1 then resolve_machine o None else ret m) ;;
    dispatch I (mkreq j p (Some m')).

  (** [Dispatcher.reset] *)
  Definition reset (I : instance) : M unit :=
    set_core (fun d => mkd (mfree d) (jnext d) (jfree d) (repeat [] (num_machines I))) ;;;
    set_core (fun d => mkd (repeat 0 (num_machines I)) (jnext d) (jfree d) (sched d)) ;;;
    set_core (fun d => mkd (mfree d) (repeat 0%nat (num_jobs I)) (jfree d) (sched d)) ;;;
    set_core (fun d => mkd (mfree d) (jnext d) (repeat 0 (num_jobs I)) (sched d)) ;;;
    set_cache (fun _ => empty_cache) ;;;
    w <- get ;;
    set_objs (notify_all (o_reset I (filt w) (core w)) (subs w)).

  (** [subscribe] appends; [unsubscribe] is [list.remove]: first occurrence,
      [ValueError] when absent. *)
  Definition subscribe (i : nat) : M unit := set_subs (fun l => l ++ [i]).
  Fixpoint remove_first (i : nat) (l : list nat) : option (list nat) :=
    match l with
    | [] => None
    | y :: t => if (i =? y)%nat then Some t
                else match remove_first i t with Some t' => Some (y :: t') | None => None end
    end.
  Definition unsubscribe (i : nat) : M unit :=
    w <- get ;;
    l <- of_opt (remove_first i (subs w)) EOther ;;
    set_subs (fun _ => l).

  (** ** cached queries *)

  Definition cached {A} (rd : cache -> option A) (wr : cache -> A -> cache)
             (compute : M A) : M A :=
    w <- get ;;
    match rd (wcache w) with
    | Some v => ret v
    | None => v <- compute ;; set_cache (fun c => wr c v) ;;; ret v
    end.

  Definition q_raw (I : instance) : M (list (nat * nat)) :=
    cached c_raw (fun c v => mkc (c_now c) (c_avail c) (Some v) (c_unsched c) (c_sched c)
                                 (c_amach c) (c_ajobs c) (c_completed c) (c_uncompleted c) (c_ongoing c))
           (w <- get ;; ret (raw_ready I (core w))).

  Definition q_avail (I : instance) : M (list (nat * nat)) :=
    cached c_avail (fun c v => mkc (c_now c) (Some v) (c_raw c) (c_unsched c) (c_sched c)
                                   (c_amach c) (c_ajobs c) (c_completed c) (c_uncompleted c) (c_ongoing c))
           (raw <- q_raw I ;; w <- get ;; ret (apply_filters I (core w) (filt w) raw)).

  Definition q_now (I : instance) : M Z :=
    cached c_now (fun c v => mkc (Some v) (c_avail c) (c_raw c) (c_unsched c) (c_sched c)
                                 (c_amach c) (c_ajobs c) (c_completed c) (c_uncompleted c) (c_ongoing c))
           (av <- q_avail I ;; w <- get ;; ret (min_start_time I (core w) av)).

  Definition q_unsched (I : instance) : M (list (nat * nat)) :=
    cached c_unsched (fun c v => mkc (c_now c) (c_avail c) (c_raw c) (Some v) (c_sched c)
                                     (c_amach c) (c_ajobs c) (c_completed c) (c_uncompleted c) (c_ongoing c))
           (w <- get ;; ret (unscheduled_ops I (core w))).

  Definition q_sched (I : instance) : M (list (nat * nat)) :=
    cached c_sched (fun c v => mkc (c_now c) (c_avail c) (c_raw c) (c_unsched c) (Some v)
                                   (c_amach c) (c_ajobs c) (c_completed c) (c_uncompleted c) (c_ongoing c))
           (w <- get ;; ret (scheduled_ops I (core w))).

  (** [list(set(...))]: iteration order of a Python set is not part of the
      contract; the model returns the sorted duplicate-free list and the
      harness sorts the implementation's answer. *)
  Definition q_amach (I : instance) : M (list nat) :=
    cached c_amach (fun c v => mkc (c_now c) (c_avail c) (c_raw c) (c_unsched c) (c_sched c)
                                   (Some v) (c_ajobs c) (c_completed c) (c_uncompleted c) (c_ongoing c))
           (av <- q_avail I ;; ret (sort_nat (dedup_nat (flat_map (kmachines I) av)))).

  Definition q_ajobs (I : instance) : M (list nat) :=
    cached c_ajobs (fun c v => mkc (c_now c) (c_avail c) (c_raw c) (c_unsched c) (c_sched c)
                                   (c_amach c) (Some v) (c_completed c) (c_uncompleted c) (c_ongoing c))
           (av <- q_avail I ;; ret (sort_nat (dedup_nat (map fst av)))).

  Definition q_ongoing (I : instance) : M (list sop) :=
    cached c_ongoing (fun c v => mkc (c_now c) (c_avail c) (c_raw c) (c_unsched c) (c_sched c)
                                     (c_amach c) (c_ajobs c) (c_completed c) (c_uncompleted c) (Some v))
           (t <- q_now I ;; w <- get ;; ret (ongoing_at I t (sched (core w)))).

  (** [completed_operations]: a set; returned in job-major order. *)
  Definition q_completed (I : instance) : M (list (nat * nat)) :=
    cached c_completed (fun c v => mkc (c_now c) (c_avail c) (c_raw c) (c_unsched c) (c_sched c)
                                       (c_amach c) (c_ajobs c) (Some v) (c_uncompleted c) (c_ongoing c))
           (sc <- q_sched I ;; og <- q_ongoing I ;;
            ret (filter (fun k => negb (mem_key k (map key og))) sc)).

  (** [uncompleted_operations] (after the C05 repair: it copies the list
      returned by [unscheduled_operations] before extending it). *)
  Definition q_uncompleted (I : instance) : M (list (nat * nat)) :=
    cached c_uncompleted (fun c v => mkc (c_now c) (c_avail c) (c_raw c) (c_unsched c) (c_sched c)
                                         (c_amach c) (c_ajobs c) (c_completed c) (Some v) (c_ongoing c))
           (us <- q_unsched I ;; og <- q_ongoing I ;; ret (us ++ map key og)).

  (** ** uncached queries *)
  Definition q_earliest (I : instance) (k : nat * nat) : M Z :=
    w <- get ;;
    o <- of_opt (kop I k) EOther ;;
    of_opt (earliest_start_time (core w) (fst k) o) EOther.

  Definition q_remaining (I : instance) (x : sop) : M Z :=
    t <- q_now I ;; ret (s_end I x - Z.max (s_start x) t).

  Definition q_is_scheduled (k : nat * nat) : M bool :=
    w <- get ;; ret (snd k <? nthN (jnext (core w)) (fst k))%nat.

  Definition q_is_ongoing (I : instance) (x : sop) : M bool :=
    t <- q_now I ;; ret (s_start x <=? t).

  (** [Dispatcher.min_start_time(operations)] on a caller-supplied list, and a
      filter function applied to a caller-supplied list: neither is cached. *)
  Definition q_min_start (I : instance) (L : list (nat * nat)) : M Z :=
    w <- get ;; ret (min_start_time I (core w) L).
  Definition q_filter (I : instance) (f : fname) (L : list (nat * nat)) : M (list (nat * nat)) :=
    w <- get ;; ret (apply_filter I (core w) f L).

  Definition q_next_operation (I : instance) (j : nat) : M (nat * nat) :=
    w <- get ;;
    if (length (get_job I j) <=? nthN (jnext (core w)) j)%nat then raise EValidation
    else ret (j, nthN (jnext (core w)) j).
End World.

Arguments get {O}.
