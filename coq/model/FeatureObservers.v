(** FeatureObservers.v — the built-in feature observers
    (job_shop_lib/dispatching/feature_observers/*.py) as incremental state
    machines over exact integer vectors, the composite observer, the factory
    table, and the [UnscheduledOperationsObserver] they depend on.

    All subscribers of one dispatcher live in ONE value [fsys] (object store
    in creation order + [Dispatcher.subscribers] as indices into it), because
    observers create / look up OTHER observers: [RemainingOperationsObserver]
    calls [create_or_get_observer(UnscheduledOperationsObserver)] and
    [IsCompletedObserver] calls [create_or_get_observer(RemainingOperationsObserver, ...)]
    in [initialize_features] (constructor and [reset]) — since the repair
    196fa58 only for the side effect of having them subscribed: both count
    [dispatcher.unscheduled_operations()] themselves —, and the composite
    re-concatenates its components' arrays at EVERY notification.
    The system is driven through the dispatcher world of World.v with
    [O := fsys]: [f_update I fs d x] / [f_reset I fs d] have the signatures of
    [o_update] / [o_reset] and see the dispatcher state AFTER the dispatch /
    after the dispatcher's own reset.

    float32 arrays are exact [Z] vectors (one column per simple observer; the
    composite stores matrices); [earliest_start_times] is a matrix of
    [option Z] ([None] = NaN padding).

    [EarliestStartTimeObserver] is modelled AFTER the repair
    (.scratch/fix-C11-earliest-start.diff): the matrix entries of all
    unscheduled operations are recomputed from the dispatcher state in
    [initialize_features] (constructor, update, reset), the entry of the
    operation just scheduled is set to its start time, and the vectorised
    machine path is only taken when the index arrays are rectangular (so the
    constructor never raises; both machine paths compute the same values).
    Executable only. *)
From JSL Require Import Base Instance Dstate Filters World Observers.
Set Implicit Arguments.

(** ** Kinds, feature types *)

Inductive fkind :=
| FIsReady | FEst | FDuration | FIsScheduled | FPosInJob | FRemOps | FIsCompleted
| FComposite | FUnsched.

Definition fkind_code (k : fkind) : Z :=
  match k with
  | FIsReady => 0 | FEst => 1 | FDuration => 2 | FIsScheduled => 3 | FPosInJob => 4
  | FRemOps => 5 | FIsCompleted => 6 | FComposite => 7 | FUnsched => 8
  end.
Definition fkind_eqb (a b : fkind) : bool := fkind_code a =? fkind_code b.

(** [feature_observer_factory]'s table, in the order of [FeatureObserverType]. *)
Definition factory (c : Z) : option fkind :=
  match c with
  | 0 => Some FIsReady | 1 => Some FEst | 2 => Some FDuration | 3 => Some FIsScheduled
  | 4 => Some FPosInJob | 5 => Some FRemOps | 6 => Some FIsCompleted | _ => None
  end.

(** Which of OPERATIONS / MACHINES / JOBS. *)
Record ftm := mkftm { t_ops : bool; t_mach : bool; t_jobs : bool }.
Definition ftm_all : ftm := mkftm true true true.
Definition ftm_sub (a b : ftm) : bool :=
  implb (t_ops a) (t_ops b) && implb (t_mach a) (t_mach b) && implb (t_jobs a) (t_jobs b).

(** [_supported_feature_types] *)
Definition supported (k : fkind) : ftm :=
  match k with
  | FPosInJob => mkftm true false false
  | FRemOps => mkftm false true true
  | _ => ftm_all
  end.

(** [__class__.__name__.replace("Observer", "")] as character codes. *)
Definition kind_name (k : fkind) : list Z :=
  match k with
  | FIsReady => [73;115;82;101;97;100;121]
  | FEst => [69;97;114;108;105;101;115;116;83;116;97;114;116;84;105;109;101]
  | FDuration => [68;117;114;97;116;105;111;110]
  | FIsScheduled => [73;115;83;99;104;101;100;117;108;101;100]
  | FPosInJob => [80;111;115;105;116;105;111;110;73;110;74;111;98]
  | FRemOps => [82;101;109;97;105;110;105;110;103;79;112;101;114;97;116;105;111;110;115]
  | FIsCompleted => [73;115;67;111;109;112;108;101;116;101;100]
  | FComposite => [67;111;109;112;111;115;105;116;101;70;101;97;116;117;114;101]
  | FUnsched => [85;110;115;99;104;101;100;117;108;101;100;79;112;101;114;97;116;105;111;110;115]
  end.

(** ** One observer object *)

Record fobs := mkfo {
  fo_kind : fkind;
  fo_ops : option (list Z);            (* features[OPERATIONS][:, 0]; None = key absent *)
  fo_mach : option (list Z);           (* features[MACHINES][:, 0] *)
  fo_jobs : option (list Z);           (* features[JOBS][:, 0] *)
  fo_est : list (list (option Z));     (* EarliestStartTime: earliest_start_times *)
  fo_remm : list Z;                    (* IsCompleted: remaining_ops_per_machine[:, 0] *)
  fo_remj : list Z;                    (* IsCompleted: remaining_ops_per_job[:, 0] *)
  fo_dq : list (list (nat * nat));     (* UnscheduledOperations: unscheduled_operations_per_job *)
  fo_comps : list nat;                 (* Composite: feature_observers (object indices) *)
  fo_cmat : list (option (list (list Z)));   (* Composite: features, one entry per feature type *)
  fo_cnames : list (list (list Z))     (* Composite: column_names per feature type *)
}.

Definition blank (k : fkind) : fobs := mkfo k None None None [] [] [] [] [] [None; None; None] [[]; []; []].

Definition set_feats (o : fobs) (a b c : option (list Z)) : fobs :=
  mkfo (fo_kind o) a b c (fo_est o) (fo_remm o) (fo_remj o) (fo_dq o) (fo_comps o) (fo_cmat o) (fo_cnames o).
Definition set_est (o : fobs) (e : list (list (option Z))) : fobs :=
  mkfo (fo_kind o) (fo_ops o) (fo_mach o) (fo_jobs o) e (fo_remm o) (fo_remj o) (fo_dq o) (fo_comps o)
       (fo_cmat o) (fo_cnames o).
Definition set_rem (o : fobs) (rm rj : list Z) : fobs :=
  mkfo (fo_kind o) (fo_ops o) (fo_mach o) (fo_jobs o) (fo_est o) rm rj (fo_dq o) (fo_comps o)
       (fo_cmat o) (fo_cnames o).
Definition set_dq (o : fobs) (dq : list (list (nat * nat))) : fobs :=
  mkfo (fo_kind o) (fo_ops o) (fo_mach o) (fo_jobs o) (fo_est o) (fo_remm o) (fo_remj o) dq (fo_comps o)
       (fo_cmat o) (fo_cnames o).
Definition set_comp (o : fobs) (cs : list nat) (m : list (option (list (list Z)))) (n : list (list (list Z))) : fobs :=
  mkfo (fo_kind o) (fo_ops o) (fo_mach o) (fo_jobs o) (fo_est o) (fo_remm o) (fo_remj o) (fo_dq o) cs m n.

(** The feature types an object currently has as keys of [features]. *)
Definition isSome {A} (o : option A) : bool := match o with Some _ => true | None => false end.
Definition fo_mask (o : fobs) : ftm :=
  match fo_kind o with
  | FComposite => mkftm (isSome (nth 0 (fo_cmat o) None)) (isSome (nth 1 (fo_cmat o) None))
                        (isSome (nth 2 (fo_cmat o) None))
  | _ => mkftm (isSome (fo_ops o)) (isSome (fo_mach o)) (isSome (fo_jobs o))
  end.

(** [features[t]] as a matrix (list of rows); [t] = 0 / 1 / 2. *)
Definition colm (v : list Z) : list (list Z) := map (fun z => [z]) v.
Definition feat_rows (o : fobs) (t : nat) : option (list (list Z)) :=
  match fo_kind o with
  | FComposite => nth t (fo_cmat o) None
  | FUnsched => None
  | _ => option_map colm (match t with 0%nat => fo_ops o | 1%nat => fo_mach o | _ => fo_jobs o end)
  end.

(** ** Vector helpers *)
Definition zeros (n : nat) : list Z := repeat 0 n.
Definition addat (v : list Z) (i : nat) (a : Z) : list Z := upd v i (nthZ v i + a).
Definition b2z (b : bool) : Z := if b then 1 else 0.
Definition kid (I : instance) (k : nat * nat) : nat := op_id I (fst k) (snd k).
Definition when {A} (b : bool) (x : A) : option A := if b then Some x else None.

(** ** What the observers read from the dispatcher *)
Section Reads.
  Variable I : instance.
  Variable fs : list fname.
  Variable d : dstate.

  Definition now_of : Z := min_start_time I d (available I d fs).      (* current_time() *)
  Definition ongoing_of : list sop := ongoing_at I now_of (sched d).    (* ongoing_operations() *)
  Definition completed_of : list (nat * nat) :=                         (* completed_operations() *)
    filter (fun k => negb (mem_key k (map key ongoing_of))) (scheduled_ops I d).
  Definition is_sched (k : nat * nat) : bool := (snd k <? nthN (jnext d) (fst k))%nat.

  (** *** IsReadyObserver.initialize_features *)
  Definition ready_ops : list Z :=
    map (fun k => b2z (mem_key k (available I d fs))) (all_keys I).
  Definition ready_mach : list Z :=
    map (fun m => b2z (mem_nat m (flat_map (kmachines I) (available I d fs)))) (seq 0 (num_machines I)).
  Definition ready_jobs : list Z :=
    map (fun j => b2z (mem_nat j (map fst (available I d fs)))) (seq 0 (num_jobs I)).

  (** *** IsScheduledObserver.update, machine / job part: zero, then one
      increment per ongoing operation *)
  Definition ongoing_by_mach : list Z :=
    fold_left (fun v y => addat v (s_mach y) 1) ongoing_of (zeros (num_machines I)).
  Definition ongoing_by_job : list Z :=
    fold_left (fun v y => addat v (s_job y) 1) ongoing_of (zeros (num_jobs I)).

  (** *** PositionInJobObserver.initialize_features *)
  Definition pos_init (v : list Z) : list Z :=
    fold_left (fun v k => upd v (kid I k) (Z.of_nat (snd k))) (unscheduled_ops I d) v.

  (** *** DurationObserver.initialize_features *)
  Definition dur_ops : list Z := map (kdur I) (all_keys I).
  (** [_initialize_job_durations] (after 19e9d43): summed over the unscheduled operations *)
  Definition dur_jobs : list Z :=
    fold_left (fun v k => addat v (fst k) (kdur I k)) (unscheduled_ops I d) (zeros (num_jobs I)).
  Definition machine_loads : list Z :=
    map (fun m => sumZ (flat_map (fun k => map (fun m' => if (m' =? m)%nat then kdur I k else 0) (kmachines I k))
                                 (all_keys I))) (seq 0 (num_machines I)).

  (** *** EarliestStartTimeObserver *)
  (** constructor: [hstack(zeros, cumsum(durations[:, :-1]))], NaN where the
      duration matrix is NaN *)
  Fixpoint prefix_sums (acc : Z) (l : list Z) : list Z :=
    match l with [] => [] | x :: t => acc :: prefix_sums (acc + x) t end.
  Definition max_len : nat := fold_right Nat.max 0%nat (map (@length op) I).
  Definition est0 : list (list (option Z)) :=
    map (fun job => map Some (prefix_sums 0 (map duration job)) ++ repeat None (max_len - length job)) I.

  Definition eget (e : list (list (option Z))) (j p : nat) : Z :=
    match nth p (nth j e []) None with Some z => z | None => 0 end.
  Definition eset (e : list (list (option Z))) (j p : nat) (z : Z) : list (list (option Z)) :=
    upd e j (upd (nth j e []) p (Some z)).

  (** [min(machine_next_available_time[m] for m in operation.machines)]; an
      operation without machines (excluded by validity; Python raises) puts
      no constraint. *)
  Definition mach_avail (o : op) (t : Z) : Z :=
    match minZ_opt (map (fun m => nthZ (mfree d) m) (machines o)) with Some z => z | None => t end.

  (** [_recompute_earliest_start_times], the inner loop over one job's
      unscheduled operations, starting at position [p] with chain time [t] *)
  Fixpoint chain (ops : list op) (p : nat) (t : Z) (row : list (option Z)) : list (option Z) :=
    match ops with
    | [] => row
    | o :: r => let s := Z.max t (mach_avail o t) in
                chain r (S p) (s + duration o) (upd row p (Some s))
    end.
  Definition recompute (e : list (list (option Z))) : list (list (option Z)) :=
    map (fun jr => let j := fst jr in
                   chain (skipn (nthN (jnext d) j) (get_job I j)) (nthN (jnext d) j) (nthZ (jfree d) j) (snd jr))
        (combine (seq 0 (length e)) e).

  (** [_update_operation_features] *)
  Definition est_ops (e : list (list (option Z))) : list Z :=
    map (fun k => eget e (fst k) (snd k) - now_of) (all_keys I).
  (** [_update_machine_features] (= [_update_machine_features_vectorized]) *)
  Definition est_mach (e : list (list (option Z))) : list Z :=
    map (fun m => match minZ_opt (map (fun k => eget e (fst k) (snd k))
                                      (filter (fun k => mem_nat m (kmachines I k) && negb (is_sched k)) (all_keys I)))
                  with Some z => z | None => 0 end - now_of)
        (seq 0 (num_machines I)).
  (** [_update_job_features]: finished jobs keep their previous value *)
  Definition est_jobs (e : list (list (option Z))) (v : list Z) : list Z :=
    fold_left (fun v j => if (nthN (jnext d) j <? length (get_job I j))%nat
                          then upd v j (eget e j (nthN (jnext d) j) - now_of) else v)
              (seq 0 (num_jobs I)) v.
End Reads.

(** ** The system of subscribers *)

Record fsys := mkfs { f_objs : list fobs; f_subs : list nat }.
Definition empty_sys : fsys := mkfs [] [].
Definition fget (s : fsys) (i : nat) : fobs := nth i (f_objs s) (blank FUnsched).
Definition fput (s : fsys) (i : nat) (o : fobs) : fsys := mkfs (upd (f_objs s) i o) (f_subs s).
Definition fappend (s : fsys) (o : fobs) : fsys * nat :=
  (mkfs (f_objs s ++ [o]) (f_subs s ++ [length (f_objs s)]), length (f_objs s)).

(** the subscribed objects, in subscription order *)
Definition subscribed (s : fsys) : list (nat * fobs) :=
  flat_map (fun i => match nth_error (f_objs s) i with Some o => [(i, o)] | None => [] end) (f_subs s).
Definition find_sub_f (s : fsys) (p : fobs -> bool) : option nat :=
  match filter (fun io => p (snd io)) (subscribed s) with [] => None | io :: _ => Some (fst io) end.

(** *** CompositeFeatureObserver.initialize_features / _set_column_names *)
Definition hcat (a b : list (list Z)) : list (list Z) := map (fun p => fst p ++ snd p) (combine a b).
Definition hconcat (l : list (list (list Z))) : option (list (list Z)) :=
  match l with [] => None | m :: t => Some (fold_left hcat t m) end.
Definition comp_mats (s : fsys) (cs : list nat) : list (option (list (list Z))) :=
  map (fun t => hconcat (flat_map (fun c => match feat_rows (fget s c) t with Some m => [m] | None => [] end) cs))
      [0%nat; 1%nat; 2%nat].

Fixpoint digits_fuel (fuel n : nat) (acc : list Z) : list Z :=
  match fuel with
  | O => acc
  | S f => let acc' := (48 + Z.of_nat (n mod 10)) :: acc in
           if (n <? 10)%nat then acc' else digits_fuel f (n / 10) acc'
  end.
Definition digits (n : nat) : list Z := digits_fuel (S n) n [].
Definition ncols (m : list (list Z)) : nat := length (nth 0 m []).
Definition names_of (k : fkind) (m : list (list Z)) : list (list Z) :=
  if (1 <? ncols m)%nat then map (fun i => kind_name k ++ [95] ++ digits i) (seq 0 (ncols m))
  else [kind_name k].
Definition comp_names (s : fsys) (cs : list nat) : list (list (list Z)) :=
  map (fun t => flat_map (fun c => match feat_rows (fget s c) t with
                                   | Some m => names_of (fo_kind (fget s c)) m
                                   | None => [] end) cs)
      [0%nat; 1%nat; 2%nat].

Section Sys.
  Variable I : instance.
  Variable fs : list fname.
  Variable d : dstate.

  Let N := num_ops I.
  Let M := num_machines I.
  Let J := num_jobs I.

  (** counting a list of operations per machine: [+= 1] on EVERY eligible
      machine (a fancy-indexed [+=] counts a repeated index once) *)
  Definition count_mach (us : list (nat * nat)) (v : list Z) : list Z :=
    fold_left (fun v k => fold_left (fun v m => addat v m 1) (dedup_nat (kmachines I k)) v) us v.
  Definition count_jobs (us : list (nat * nat)) (v : list Z) : list Z :=
    fold_left (fun v k => addat v (fst k) 1) us v.

  (** *** RemainingOperationsObserver.initialize_features: [+= 1] per
      operation of [dispatcher.unscheduled_operations()] on its job and on
      every eligible machine *)
  Definition rem_init (us : list (nat * nat)) (o : fobs) : fobs :=
    set_feats o (fo_ops o) (option_map (count_mach us) (fo_mach o)) (option_map (count_jobs us) (fo_jobs o)).

  (** *** create_or_get_observer(UnscheduledOperationsObserver) *)
  Definition unsched_obj : fobs :=
    set_dq (blank FUnsched)
           (fold_left (fun dq x => pop_job dq (s_job x)) (all_sops (sched d)) (all_deques I)).
  Definition get_unsched (s : fsys) : fsys * nat :=
    match find_sub_f s (fun o => fkind_eqb (fo_kind o) FUnsched) with
    | Some i => (s, i)
    | None => fappend s unsched_obj
    end.

  (** [FeatureObserver.__init__] up to the call of [initialize_features]: the
      object is subscribed and its arrays are zero *)
  Definition zero_obj (k : fkind) (m : ftm) : fobs :=
    set_feats (blank k) (when (t_ops m) (zeros N)) (when (t_mach m) (zeros M)) (when (t_jobs m) (zeros J)).
  Definition zeroed (o : fobs) : fobs :=
    set_feats o (option_map (fun _ => zeros N) (fo_ops o)) (option_map (fun _ => zeros M) (fo_mach o))
              (option_map (fun _ => zeros J) (fo_jobs o)).

  (** [RemainingOperationsObserver.initialize_features] for the object at [i] *)
  Definition rem_initialize (s : fsys) (i : nat) : fsys :=
    let '(s1, _) := get_unsched s in       (* only for the side effect *)
    fput s1 i (rem_init (unscheduled_ops I d) (fget s1 i)).

  Definition new_remops (m : ftm) (s : fsys) : fsys * nat :=
    let '(s1, i) := fappend s (zero_obj FRemOps m) in
    (rem_initialize s1 i, i).

  (** *** IsCompletedObserver.initialize_features for the object at [i] *)
  Definition has_same (m : ftm) (o : fobs) : bool :=
    fkind_eqb (fo_kind o) FRemOps && implb (t_mach m) (isSome (fo_mach o)) && implb (t_jobs m) (isSome (fo_jobs o)).
  Definition get_remops (m : ftm) (s : fsys) : fsys * nat :=
    match find_sub_f s (has_same m) with
    | Some i => (s, i)
    | None => new_remops (mkftm false (t_mach m) (t_jobs m)) s
    end.
  Definition comp_initialize (s : fsys) (i : nat) : fsys :=
    let o := zeroed (fget s i) in
    let s0 := fput s i o in
    let '(s1, _) := get_remops (fo_mask o) s0 in      (* only for the side effect *)
    let o1 := fget s1 i in
    let us := unscheduled_ops I d in
    fput s1 i (set_rem o1
                 (match fo_mach o1 with Some _ => count_mach us (zeros M) | None => fo_remm o1 end)
                 (match fo_jobs o1 with Some _ => count_jobs us (zeros J) | None => fo_remj o1 end)).

  (** *** Simple observers: the object after [initialize_features] *)
  Definition est_features (o : fobs) : fobs :=
    let e := recompute I d (fo_est o) in
    set_est (set_feats o (option_map (fun _ => est_ops I fs d e) (fo_ops o))
                         (option_map (fun _ => est_mach I fs d e) (fo_mach o))
                         (option_map (fun v => est_jobs I fs d e v) (fo_jobs o))) e.

  Definition init_simple (o : fobs) : fobs :=
    match fo_kind o with
    | FIsReady => set_feats o (option_map (fun _ => ready_ops I fs d) (fo_ops o))
                              (option_map (fun _ => ready_mach I fs d) (fo_mach o))
                              (option_map (fun _ => ready_jobs I fs d) (fo_jobs o))
    | FEst => est_features o
    | FDuration => set_feats o (option_map (fun _ => dur_ops I) (fo_ops o))
                               (option_map (fun _ => machine_loads I) (fo_mach o))
                               (option_map (fun _ => dur_jobs I d) (fo_jobs o))
    | FPosInJob => set_feats o (option_map (pos_init I d) (fo_ops o)) (fo_mach o) (fo_jobs o)
    | _ => o
    end.

  (** *** Constructors. [cs] = the [feature_observers] argument of the
      composite ([None] = every feature observer currently subscribed). *)
  Definition is_feature_kind (k : fkind) : bool := negb (fkind_eqb k FUnsched).

  Definition f_new (k : fkind) (m : ftm) (cs : option (list nat)) (s : fsys) : fsys * (nat + exn) :=
    if negb (ftm_sub m (supported k)) then (s, inr EValidation)   (* _get_feature_types_list *)
    else match k with
    | FUnsched =>
        (* singleton guard of DispatcherObserver.__init__ *)
        if existsb (fun io => fkind_eqb (fo_kind (snd io)) FUnsched) (subscribed s) then (s, inr EValidation)
        else let '(s1, i) := fappend s unsched_obj in (s1, inl i)
    | FRemOps => let '(s1, i) := new_remops m s in (s1, inl i)
    | FIsCompleted =>
        let '(s1, i) := fappend s (set_rem (zero_obj FIsCompleted m) (zeros M) (zeros J)) in
        (comp_initialize s1 i, inl i)
    | FComposite =>
        let comps := match cs with
                     | Some l => l
                     | None => map fst (filter (fun io => is_feature_kind (fo_kind (snd io))) (subscribed s))
                     end in
        if negb (forallb (fun c => ftm_sub (fo_mask (fget s c)) m) comps) then (s, inr EValidation)
        else let '(s1, i) := fappend s (blank FComposite) in
             (fput s1 i (set_comp (fget s1 i) comps (comp_mats s1 comps) (comp_names s1 comps)), inl i)
    | FEst =>
        let '(s1, i) := fappend s (init_simple (set_est (zero_obj FEst m) (est0 I))) in (s1, inl i)
    | _ => let '(s1, i) := fappend s (init_simple (zero_obj k m)) in (s1, inl i)
    end.

  (** *** update(scheduled_operation) of the object [o] (system [s] is read
      by the composite only) *)
  Definition upd_obs (x : sop) (s : fsys) (o : fobs) : fobs :=
    let k := key x in
    match fo_kind o with
    | FIsReady => init_simple o
    | FEst => est_features (set_est o (eset (fo_est o) (s_job x) (s_pos x) (s_start x)))
    | FDuration =>
        set_feats o
          (option_map (fun v => upd v (kid I k) (s_end I x - Z.max (s_start x) (now_of I fs d))) (fo_ops o))
          (option_map (fun v => addat v (s_mach x) (- dur I x)) (fo_mach o))
          (option_map (fun v => addat v (s_job x) (- dur I x)) (fo_jobs o))
    | FIsScheduled =>
        set_feats o (option_map (fun v => upd v (kid I k) 1) (fo_ops o))
                    (option_map (fun _ => ongoing_by_mach I fs d) (fo_mach o))
                    (option_map (fun _ => ongoing_by_job I fs d) (fo_jobs o))
    | FPosInJob =>
        set_feats o
          (option_map (fun v => fold_left (fun v i => upd v (op_id I (s_job x) (S (s_pos x) + i)) (Z.of_nat i))
                                          (seq 0 (length (get_job I (s_job x)) - S (s_pos x))) v) (fo_ops o))
          (fo_mach o) (fo_jobs o)
    | FRemOps =>
        set_feats o (fo_ops o) (option_map (fun v => addat v (s_mach x) (-1)) (fo_mach o))
                    (option_map (fun v => addat v (s_job x) (-1)) (fo_jobs o))
    | FIsCompleted =>
        let ms := dedup_nat (kmachines I k) in
        let rm := match fo_mach o with
                  | Some _ => fold_left (fun v m => addat v m (-1)) ms (fo_remm o) | None => fo_remm o end in
        let rj := match fo_jobs o with Some _ => addat (fo_remj o) (s_job x) (-1) | None => fo_remj o end in
        set_rem (set_feats o
                   (option_map (fun v => fold_left (fun v c => upd v (kid I c) 1) (completed_of I fs d) v) (fo_ops o))
                   (option_map (fun v => fold_left (fun v m => upd v m (b2z (nthZ rm m =? 0))) ms v) (fo_mach o))
                   (option_map (fun v => upd v (s_job x) (b2z (nthZ rj (s_job x) =? 0))) (fo_jobs o)))
                rm rj
    | FComposite => set_comp o (fo_comps o) (comp_mats s (fo_comps o)) (fo_cnames o)
    | FUnsched => set_dq o (pop_job (fo_dq o) (s_job x))
    end.

  Definition update_one (x : sop) (s : fsys) (i : nat) : fsys :=
    match nth_error (f_objs s) i with Some o => fput s i (upd_obs x s o) | None => s end.

  (** [for subscriber in self.subscribers: subscriber.update(...)] *)
  Definition f_update (x : sop) (s : fsys) : fsys := fold_left (update_one x) (f_subs s) s.

  (** *** reset() of the object at [i]; dependencies that are no longer
      subscribed are re-created (and subscribed) by [create_or_get_observer] *)
  Definition reset_one (s : fsys) (i : nat) : fsys :=
    match nth_error (f_objs s) i with
    | None => s
    | Some o =>
        match fo_kind o with
        | FIsReady => fput s i (init_simple o)
        | FEst | FDuration | FIsScheduled | FPosInJob => fput s i (init_simple (zeroed o))
        | FRemOps => rem_initialize (fput s i (zeroed o)) i
        | FIsCompleted => comp_initialize s i
        | FComposite => fput s i (set_comp o (fo_comps o) (comp_mats s (fo_comps o)) (fo_cnames o))
        | FUnsched => fput s i (set_dq o (all_deques I))
        end
    end.

  (** The loop of [Dispatcher.reset] runs over the LIVE subscriber list:
      observers appended while it runs are reset too. *)
  Fixpoint reset_loop (fuel k : nat) (s : fsys) : fsys :=
    match fuel with
    | O => s
    | S f => match nth_error (f_subs s) k with
             | None => s
             | Some i => reset_loop f (S k) (reset_one s i)
             end
    end.
  Definition f_reset (s : fsys) : fsys := reset_loop (3 * length (f_subs s) + 3) 0 s.
End Sys.

(** ** The dispatcher world with the feature-observer system as its one
    subscriber object *)
Definition fwld := world fsys.
Definition fw (fs : list fname) (d : dstate) (s : fsys) : fwld := mkw d empty_cache fs [s] [0%nat].
Definition sys_of (w : fwld) : fsys := nth 0 (objs w) empty_sys.

(** construct an observer now (dispatcher state [core w]) *)
Definition f_construct (I : instance) (k : fkind) (m : ftm) (cs : option (list nat)) (w : fwld) : fwld * (nat + exn) :=
  let '(s, r) := f_new I (filt w) (core w) k m cs (sys_of w) in
  (mkw (core w) (wcache w) (filt w) [s] (subs w), r).

(** [dispatcher.unsubscribe(obj)]: [list.remove] *)
Definition f_unsubscribe (i : nat) (w : fwld) : fwld * (unit + exn) :=
  match remove_first i (f_subs (sys_of w)) with
  | Some l => (mkw (core w) (wcache w) (filt w) [mkfs (f_objs (sys_of w)) l] (subs w), inl tt)
  | None => (w, inr EOther)
  end.

(** ** Codec *)
Definition dec_fkind (v : val) : fkind :=
  match asZ v with
  | 0 => FIsReady | 1 => FEst | 2 => FDuration | 3 => FIsScheduled | 4 => FPosInJob
  | 5 => FRemOps | 6 => FIsCompleted | 7 => FComposite | _ => FUnsched
  end.
Definition dec_ftm (v : val) : ftm := mkftm (asB (vnth v 0)) (asB (vnth v 1)) (asB (vnth v 2)).
Definition enc_ftm (m : ftm) : val := VL [vbool (t_ops m); vbool (t_mach m); vbool (t_jobs m)].
Definition enc_fobs (o : fobs) : val :=
  VL [VI (fkind_code (fo_kind o));
      vopt (vlist VI) (fo_ops o); vopt (vlist VI) (fo_mach o); vopt (vlist VI) (fo_jobs o);
      vlist (vlist (vopt VI)) (fo_est o);
      vlist VI (fo_remm o); vlist VI (fo_remj o);
      vlist (vlist enc_key) (fo_dq o);
      vlist vnat (fo_comps o);
      vlist (vopt (vlist (vlist VI))) (fo_cmat o);
      vlist (vlist (vlist VI)) (fo_cnames o)].
Definition enc_fsys (s : fsys) : val := VL [vlist vnat (f_subs s); vlist enc_fobs (f_objs s)].
