(** Search.v — exhaustive search over dispatch histories that only ever
    dispatch AVAILABLE operations (ready operations that survive the installed
    filter composition [fs]), each on every eligible machine; [None] when no
    complete schedule is reached within the fuel. With [fs = []] this is the
    search over all dispatch histories. *)
From JSL Require Import Base Instance Dstate Filters World.
Set Implicit Arguments.

Definition no_update : instance -> list fname -> dstate -> sop -> unit -> unit := fun _ _ _ _ u => u.

Definition choice_step (I : instance) (w : world unit) (c : (nat * nat) * nat) : world unit :=
  fst (dispatch no_update I (mkreq (fst (fst c)) (snd (fst c)) (Some (Z.of_nat (snd c)))) w).

Fixpoint min_optZ (l : list (option Z)) : option Z :=
  match l with
  | [] => None
  | None :: t => min_optZ t
  | Some x :: t => match min_optZ t with None => Some x | Some y => Some (Z.min x y) end
  end.

Definition choices (I : instance) (L : list (nat * nat)) : list ((nat * nat) * nat) :=
  flat_map (fun k => map (fun m => (k, m)) (kmachines I k)) L.

Fixpoint best_makespan (fs : list fname) (fuel : nat) (I : instance) (w : world unit) : option Z :=
  match fuel with
  | O => None
  | S f =>
    match raw_ready I (core w) with
    | [] => if is_complete I (sched (core w)) then Some (makespan_code I (sched (core w))) else None
    | _ => min_optZ (map (fun c => best_makespan fs f I (choice_step I w c))
                         (choices I (available I (core w) fs)))
    end
  end.

(** Size of the same decision tree: (complete histories, nodes, dead ends = incomplete
    states without an available operation). Executable only: it ties the exact
    SET of operations the filter lets through in every state of every filtered
    history to the implementation's (two trees of the same shape). *)
Definition add3 (a b : N * N * N) : N * N * N :=
  let '(x1, y1, z1) := a in let '(x2, y2, z2) := b in ((x1 + x2)%N, (y1 + y2)%N, (z1 + z2)%N).
Fixpoint tree_size (fs : list fname) (fuel : nat) (I : instance) (w : world unit) : N * N * N :=
  match fuel with
  | O => (0, 1, 1)%N
  | S f =>
    match raw_ready I (core w) with
    | [] => if is_complete I (sched (core w)) then (1, 1, 0)%N else (0, 1, 1)%N
    | _ => match choices I (available I (core w) fs) with
           | [] => (0, 1, 1)%N
           | cs => fold_left (fun acc c => add3 acc (tree_size fs f I (choice_step I w c))) cs (0, 1, 0)%N
           end
    end
  end.

(** best makespan reachable when only operations surviving the
    dominated-operations filter are ever dispatched *)
Definition opt_filtered (I : instance) : option Z :=
  best_makespan [FDominated] (S (num_ops I)) I (init_w unit I [FDominated]).
Definition opt_unfiltered (I : instance) : option Z :=
  best_makespan [] (S (num_ops I)) I (init_w unit I []).
