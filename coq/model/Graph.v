(** Graph.v — [JobShopGraph], [Node], the building blocks and the builders of
    job_shop_lib/graphs/_job_shop_graph.py, _build_disjunctive_graph.py,
    _build_agent_task_graph.py (and _node.py, _constants.py). Executable only.

    * A node is identified by its [node_id]; the graph keeps, like the class,
      the node list, the per-type / per-machine / per-job indices, the id
      counter and the [removed_nodes] flags.
    * [self.graph] (a networkx [DiGraph]) is a finite map from ordered pairs
      [(u, v)] to the edge attributes. Only the attribute ["type"] is ever
      set, so an edge is [(u, v, t)] with [t = ENone] when the builder passes
      no attribute. Re-adding an edge OVERWRITES its attributes ([set_edge]
      replaces in place; keys stay unique). The node set of the DiGraph is
      [{ id < next | removed[id] = false }]: [add_node] and [remove_node] are
      the only writers and keep the two in step.
    * A Python exception is [None]. [add_edge] raises [ValidationError] when
      an endpoint is not in the DiGraph; [add_source_sink_edges] raises
      [IndexError] on an empty job / missing source or sink;
      [nx.DiGraph.remove_node] raises on an absent node.
    * The loops of the building blocks iterate over the indices
      ([nodes_by_machine], [nodes_by_job], [nodes_by_type]) and only call
      [add_edge], which does not touch the indices: the model therefore first
      computes the list of [add_edge] calls, in loop order, and then performs
      them ([add_edges]).
    * [OpNode j p] stands for the node whose [operation] is the operation
      [(j, p)] of the graph's own instance (its machines are read from
      [g_inst]). Nodes carrying foreign operations are outside the model. *)
From JSL Require Import Base Instance Dstate.

Inductive ntype := NOp | NMachine | NJob | NGlobal | NSource | NSink.
(** [NodeType.<X>.value - 1] (the enum uses [enum.auto()], 1 .. 6). *)
Definition ntype_code (t : ntype) : nat :=
  match t with NOp => 0 | NMachine => 1 | NJob => 2 | NGlobal => 3 | NSource => 4 | NSink => 5 end%nat.

Inductive node :=
| OpNode (j p : nat)
| MachineNode (m : nat)
| JobNode (j : nat)
| GlobalNode | SourceNode | SinkNode.
Definition node_type (n : node) : ntype :=
  match n with
  | OpNode _ _ => NOp | MachineNode _ => NMachine | JobNode _ => NJob
  | GlobalNode => NGlobal | SourceNode => NSource | SinkNode => NSink
  end.

(** [EdgeType.CONJUNCTIVE = 0], [EdgeType.DISJUNCTIVE = 1]; [ENone]: the
    edge has no ["type"] attribute. *)
Inductive etype := EConj | EDisj | ENone.
Definition etype_code (t : etype) : nat :=
  match t with EConj => 0 | EDisj => 1 | ENone => 2 end%nat.
Definition etype_eqb (a b : etype) : bool := (etype_code a =? etype_code b)%nat.

Definition edge := (nat * nat * etype)%type.
Definition e_src (e : edge) : nat := fst (fst e).
Definition e_dst (e : edge) : nat := snd (fst e).
Definition e_type (e : edge) : etype := snd e.

Record graph := mkgraph {
  g_inst : instance;                      (* instance *)
  g_nodes : list (nat * node);            (* _nodes, each with its node_id *)
  g_by_type : list (list (nat * node));   (* _nodes_by_type, row = ntype_code *)
  g_by_machine : list (list nat);         (* _nodes_by_machine (node ids) *)
  g_by_job : list (list nat);             (* _nodes_by_job (node ids) *)
  g_next : nat;                           (* _next_node_id *)
  g_removed : list bool;                  (* removed_nodes *)
  g_edges : list edge                     (* graph.edges(data="type") *)
}.

Definition with_edges (g : graph) (es : list edge) : graph :=
  mkgraph (g_inst g) (g_nodes g) (g_by_type g) (g_by_machine g) (g_by_job g)
          (g_next g) (g_removed g) es.

(** ** The DiGraph's edge map *)

Fixpoint set_edge (es : list edge) (u v : nat) (t : etype) : list edge :=
  match es with
  | [] => [(u, v, t)]
  | e :: r => if ((e_src e =? u) && (e_dst e =? v))%nat then (u, v, t) :: r
              else e :: set_edge r u v t
  end.
Definition set_edge' (es : list edge) (e : edge) : list edge :=
  set_edge es (e_src e) (e_dst e) (e_type e).
Fixpoint lookup_edge (es : list edge) (u v : nat) : option etype :=
  match es with
  | [] => None
  | e :: r => if ((e_src e =? u) && (e_dst e =? v))%nat then Some (e_type e) else lookup_edge r u v
  end.
Definition touches (n : nat) (e : edge) : bool := ((e_src e =? n) || (e_dst e =? n))%nat.

(** ** JobShopGraph.__init__ (without the operation nodes), add_node *)

Definition init_graph (I : instance) : graph :=
  mkgraph I [] (repeat [] 6) (repeat [] (num_machines I)) (repeat [] (num_jobs I)) 0 [] [].

Definition app_at {A : Type} (rows : list (list A)) (i : nat) (x : A) : list (list A) :=
  upd rows i (nth i rows [] ++ [x]).

Definition add_node (g : graph) (nd : node) : graph :=
  let id := g_next g in
  let bt := app_at (g_by_type g) (ntype_code (node_type nd)) (id, nd) in
  let bj := match nd with OpNode j _ => app_at (g_by_job g) j id | _ => g_by_job g end in
  let bm := match nd with
            | OpNode j p => fold_left (fun rows m => app_at rows m id)
                                      (kmachines (g_inst g) (j, p)) (g_by_machine g)
            | _ => g_by_machine g
            end in
  mkgraph (g_inst g) (g_nodes g ++ [(id, nd)]) bt bm bj (S id) (g_removed g ++ [false]) (g_edges g).

Definition add_nodes (g : graph) (nds : list node) : graph := fold_left add_node nds g.

(** [add_operation_nodes]: jobs in order, operations in order. *)
Definition add_operation_nodes (g : graph) : graph :=
  add_nodes g (map (fun k => OpNode (fst k) (snd k)) (all_keys (g_inst g))).

Definition new_graph (I : instance) : graph := add_operation_nodes (init_graph I).

(** ** add_edge, remove_node, is_removed, non_removed_nodes *)

Definition has_node (g : graph) (u : nat) : bool :=
  (u <? g_next g)%nat && negb (nth u (g_removed g) true).

Definition add_edge (g : graph) (u v : nat) (t : etype) : option graph :=
  if has_node g u && has_node g v then Some (with_edges g (set_edge (g_edges g) u v t)) else None.

Fixpoint add_edges (g : graph) (l : list edge) : option graph :=
  match l with
  | [] => Some g
  | e :: r => match add_edge g (e_src e) (e_dst e) (e_type e) with
              | Some g' => add_edges g' r
              | None => None
              end
  end.

(** [nx.isolates]: nodes of the DiGraph of degree 0 (a self-loop counts). *)
Definition isolated_nodes (next : nat) (removed : list bool) (es : list edge) : list nat :=
  filter (fun n => negb (nth n removed true) && negb (existsb (touches n) es)) (seq 0 next).

Definition remove_node (g : graph) (u : nat) : option graph :=
  if has_node g u then
    let es := filter (fun e => negb (touches u e)) (g_edges g) in
    let rm := upd (g_removed g) u true in
    let iso := isolated_nodes (g_next g) rm es in
    Some (mkgraph (g_inst g) (g_nodes g) (g_by_type g) (g_by_machine g) (g_by_job g) (g_next g)
                  (fold_left (fun r n => upd r n true) iso rm) es)
  else None.

Definition is_removed (g : graph) (u : nat) : option bool := nth_error (g_removed g) u.
Definition non_removed_nodes (g : graph) : list (nat * node) :=
  filter (fun x => negb (nth (fst x) (g_removed g) true)) (g_nodes g).

(** ** itertools.combinations(l, 2), consecutive pairs *)

Fixpoint combinations {A : Type} (l : list A) : list (A * A) :=
  match l with
  | [] => []
  | x :: t => map (fun y => (x, y)) t ++ combinations t
  end.

(** [for i in range(1, len(l)): (l[i-1], l[i])] *)
Fixpoint consecutive {A : Type} (l : list A) : list (A * A) :=
  match l with
  | x :: ((y :: _) as t) => (x, y) :: consecutive t
  | _ => []
  end.

(** [add_edge(a, b, ..); add_edge(b, a, ..)] *)
Definition both (t : etype) (p : nat * nat) : list edge :=
  [(fst p, snd p, t); (snd p, fst p, t)].
Definition type_row (g : graph) (t : ntype) : list (nat * node) := nth (ntype_code t) (g_by_type g) [].

(** ** Building blocks of _build_disjunctive_graph.py *)

Definition disjunctive_edge_list (g : graph) : list edge :=
  flat_map (fun machine => flat_map (both EDisj) (combinations machine)) (g_by_machine g).
Definition add_disjunctive_edges (g : graph) : option graph := add_edges g (disjunctive_edge_list g).

Definition conjunctive_edge_list (g : graph) : list edge :=
  flat_map (fun job => map (fun p => (fst p, snd p, EConj)) (consecutive job)) (g_by_job g).
Definition add_conjunctive_edges (g : graph) : option graph := add_edges g (conjunctive_edge_list g).

Definition add_source_sink_nodes (g : graph) : graph := add_node (add_node g SourceNode) SinkNode.

(** [job_operations[0]] / [job_operations[-1]]: IndexError on an empty job. *)
Fixpoint source_sink_edge_list (s t : nat) (jobs : list (list nat)) : option (list edge) :=
  match jobs with
  | [] => Some []
  | job :: r =>
      match job, source_sink_edge_list s t r with
      | a :: _, Some l => Some ((s, a, EConj) :: (last job a, t, EConj) :: l)
      | _, _ => None
      end
  end.
Definition add_source_sink_edges (g : graph) : option graph :=
  match type_row g NSource, type_row g NSink with
  | (s, _) :: _, (t, _) :: _ =>
      match source_sink_edge_list s t (g_by_job g) with
      | Some l => add_edges g l
      | None => None
      end
  | _, _ => None
  end.

(** ** Building blocks of _build_agent_task_graph.py *)

Definition same_job_edge_list (g : graph) : list edge :=
  flat_map (fun job => flat_map (both ENone) (combinations job)) (g_by_job g).
Definition add_same_job_operations_edges (g : graph) : option graph := add_edges g (same_job_edge_list g).

Definition add_machine_nodes (g : graph) : graph :=
  add_nodes g (map MachineNode (seq 0 (num_machines (g_inst g)))).

Definition operation_machine_edge_list (g : graph) : list edge :=
  flat_map (fun x => match snd x with
                     | MachineNode m => flat_map (fun o => both ENone (fst x, o)) (nth m (g_by_machine g) [])
                     | _ => []
                     end) (type_row g NMachine).
Definition add_operation_machine_edges (g : graph) : option graph :=
  add_edges g (operation_machine_edge_list g).

Definition machine_machine_edge_list (g : graph) : list edge :=
  flat_map (both ENone) (combinations (map fst (type_row g NMachine))).
Definition add_machine_machine_edges (g : graph) : option graph :=
  add_edges g (machine_machine_edge_list g).

Definition add_job_nodes (g : graph) : graph :=
  add_nodes g (map JobNode (seq 0 (num_jobs (g_inst g)))).

Definition operation_job_edge_list (g : graph) : list edge :=
  flat_map (fun x => match snd x with
                     | JobNode j => flat_map (fun o => both ENone (fst x, o)) (nth j (g_by_job g) [])
                     | _ => []
                     end) (type_row g NJob).
Definition add_operation_job_edges (g : graph) : option graph :=
  add_edges g (operation_job_edge_list g).

Definition job_job_edge_list (g : graph) : list edge :=
  flat_map (both ENone) (combinations (map fst (type_row g NJob))).
Definition add_job_job_edges (g : graph) : option graph := add_edges g (job_job_edge_list g).

Definition add_global_node (g : graph) : graph := add_node g GlobalNode.

(** [nodes_by_type[GLOBAL][0]]: IndexError when there is none. *)
Definition global_edge_list (g : graph) (t : ntype) : option (list edge) :=
  match type_row g NGlobal with
  | (gl, _) :: _ => Some (flat_map (fun x => both ENone (gl, fst x)) (type_row g t))
  | [] => None
  end.
Definition add_machine_global_edges (g : graph) : option graph :=
  match global_edge_list g NMachine with Some l => add_edges g l | None => None end.
Definition add_job_global_edges (g : graph) : option graph :=
  match global_edge_list g NJob with Some l => add_edges g l | None => None end.

(** ** The builders *)

Definition obind {A B : Type} (o : option A) (f : A -> option B) : option B :=
  match o with Some x => f x | None => None end.

Definition build_disjunctive_graph (I : instance) : option graph :=
  obind (add_disjunctive_edges (new_graph I)) (fun g1 =>
  obind (add_conjunctive_edges g1) (fun g2 =>
  add_source_sink_edges (add_source_sink_nodes g2))).

(** [build_solved_disjunctive_graph(schedule)]: conjunctive and source/sink
    edges, then for each machine row the edge between consecutive scheduled
    operations, typed DISJUNCTIVE ([operation.operation_id] = [op_id]). *)
Definition sop_id (I : instance) (x : sop) : nat := op_id I (s_job x) (s_pos x).
Definition solved_edge_list (I : instance) (S : schedule) : list edge :=
  flat_map (fun row => map (fun p => (sop_id I (fst p), sop_id I (snd p), EDisj)) (consecutive row)) S.
Definition build_solved_disjunctive_graph (I : instance) (S : schedule) : option graph :=
  obind (add_conjunctive_edges (new_graph I)) (fun g1 =>
  obind (add_source_sink_edges (add_source_sink_nodes g1)) (fun g2 =>
  add_edges g2 (solved_edge_list I S))).

Definition build_agent_task_graph (I : instance) : option graph :=
  obind (add_operation_machine_edges (add_machine_nodes (new_graph I))) (fun g1 =>
  obind (add_machine_machine_edges g1) (fun g2 =>
  add_same_job_operations_edges g2)).

Definition build_agent_task_graph_with_jobs (I : instance) : option graph :=
  obind (add_operation_machine_edges (add_machine_nodes (new_graph I))) (fun g1 =>
  obind (add_machine_machine_edges g1) (fun g2 =>
  obind (add_operation_job_edges (add_job_nodes g2)) (fun g3 =>
  add_job_job_edges g3))).

Definition build_complete_agent_task_graph (I : instance) : option graph :=
  obind (add_operation_machine_edges (add_machine_nodes (new_graph I))) (fun g1 =>
  obind (add_operation_job_edges (add_job_nodes g1)) (fun g2 =>
  obind (add_machine_global_edges (add_global_node g2)) (fun g3 =>
  add_job_global_edges g3))).

(** Builder by number (the harness's numbering). *)
Definition build_by_code (b : nat) (I : instance) : option graph :=
  match b with
  | 0 => build_disjunctive_graph I
  | 1 => build_agent_task_graph I
  | 2 => build_agent_task_graph_with_jobs I
  | 3 => build_complete_agent_task_graph I
  | _ => None
  end%nat.

(** ** Codec *)

Definition enc_node (x : nat * node) : val :=
  let t := vnat (S (ntype_code (node_type (snd x)))) in
  match snd x with
  | OpNode j p => VL [vnat (fst x); t; vnat j; vnat p]
  | MachineNode m => VL [vnat (fst x); t; vnat m]
  | JobNode j => VL [vnat (fst x); t; vnat j]
  | _ => VL [vnat (fst x); t]
  end.
Definition enc_edge (e : edge) : val := VL [vnat (e_src e); vnat (e_dst e); vnat (etype_code (e_type e))].
Definition dec_etype (v : val) : etype :=
  match asN v with 0%nat => EConj | 1%nat => EDisj | _ => ENone end.
Definition dec_edge (v : val) : edge := (asN (vnth v 0), asN (vnth v 1), dec_etype (vnth v 2)).
Definition dec_node (v : val) : nat * node :=
  (asN (vnth v 0),
   match asN (vnth v 1) with
   | 1 => OpNode (asN (vnth v 2)) (asN (vnth v 3))
   | 2 => MachineNode (asN (vnth v 2))
   | 3 => JobNode (asN (vnth v 2))
   | 4 => GlobalNode
   | 5 => SourceNode
   | _ => SinkNode
   end%nat).
