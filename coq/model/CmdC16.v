(** CmdC16.v — command table of the model runner for property C16
    (commands 1600 .. 1699 of [run_cmd]; local number = c mod 100). *)
From JSL Require Import Base.

Definition run_c16 (c : Z) (v : val) : val :=
  match c with
  | _ => VL []
  end.
