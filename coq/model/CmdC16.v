(** CmdC16.v — command table of the model runner for property C16
    (commands 1600 .. 1699 of [run_cmd]; local number = c mod 100).

    1  [I; b]              graph of builder [b] (0 disjunctive, 1 agent-task,
                           2 agent-task with jobs, 3 complete agent-task)
    2  [I; S]              build_solved_disjunctive_graph of the rows [S]
    3  [I; b; nodes; edges]   oracle: extracted specification applied to an
                           observed node list / edge list
    4  [I; S; nodes; edges]   the same for the solved graph (+ every edge
                           respects the schedule's times)
    5  [I; b; S; ids]      build (b = 4: solved graph of [S]), then
                           [remove_node id] for each id; state after each call

    6  [I; recipe]         a graph assembled from the public building blocks:
                           [recipe] is a list of steps applied to
                           [JobShopGraph(instance, add_operation_nodes=False)];
                           step [[0; node]] = [add_node] (node encoded as in the
                           node lists, its id ignored), [[k]] with k >= 1 = the
                           k-th building block of [recipe_step]

    A graph is reported as [[1; nodes; edges sorted by (u, v); nodes_by_type ids;
    nodes_by_machine; nodes_by_job; removed_nodes]] or [[0]] when the builder
    raised. *)
From JSL Require Import Base Instance Dstate Graph Feasible GraphSpec.

Definition edge_leb (a b : edge) : bool :=
  (e_src a <? e_src b)%nat || ((e_src a =? e_src b)%nat && (e_dst a <=? e_dst b)%nat).
Fixpoint insert_edge (e : edge) (l : list edge) : list edge :=
  match l with
  | [] => [e]
  | x :: t => if edge_leb e x then e :: l else x :: insert_edge e t
  end.
Definition sort_edges (l : list edge) : list edge := fold_right insert_edge [] l.

Definition enc_graph (og : option graph) : val :=
  match og with
  | None => VL [VI 0]
  | Some g =>
      VL [VI 1;
          vlist enc_node (g_nodes g);
          vlist enc_edge (sort_edges (g_edges g));
          vlist (vlist (fun x => vnat (fst x))) (g_by_type g);
          vlist (vlist vnat) (g_by_machine g);
          vlist (vlist vnat) (g_by_job g);
          vlist vbool (g_removed g)]
  end.

Definition build_any (b : nat) (I : instance) (S : schedule) : option graph :=
  if (b =? 4)%nat then build_solved_disjunctive_graph I S else build_by_code b I.

(** Graphs assembled by hand from the public building blocks (the harness's custom builders and the
    manual routes of C16): the step numbering is the harness's. *)
Definition recipe_step (k : nat) (g : graph) : option graph :=
  match k with
  | 1 => Some (add_operation_nodes g)
  | 2 => add_disjunctive_edges g
  | 3 => add_conjunctive_edges g
  | 4 => Some (add_source_sink_nodes g)
  | 5 => add_source_sink_edges g
  | 6 => Some (add_machine_nodes g)
  | 7 => add_operation_machine_edges g
  | 8 => add_machine_machine_edges g
  | 9 => add_same_job_operations_edges g
  | 10 => Some (add_job_nodes g)
  | 11 => add_operation_job_edges g
  | 12 => add_job_job_edges g
  | 13 => Some (add_global_node g)
  | 14 => add_machine_global_edges g
  | 15 => add_job_global_edges g
  | _ => None
  end%nat.

Definition recipe_apply (og : option graph) (st : val) : option graph :=
  match og with
  | None => None
  | Some g => match asN (vnth st 0) with
              | 0%nat => Some (add_node g (snd (dec_node (vnth st 1))))
              | k => recipe_step k g
              end
  end.

Definition build_recipe (I : instance) (steps : list val) : option graph :=
  fold_left recipe_apply steps (Some (init_graph I)).

Definition cmd_build_recipe (v : val) : val :=
  enc_graph (build_recipe (dec_instance (vnth v 0)) (asL (vnth v 1))).

Definition cmd_build (v : val) : val :=
  enc_graph (build_by_code (asN (vnth v 1)) (dec_instance (vnth v 0))).

Definition cmd_solved (v : val) : val :=
  enc_graph (build_solved_disjunctive_graph (dec_instance (vnth v 0)) (dec_sched (vnth v 1))).

Definition cmd_oracle (v : val) : val :=
  let I := dec_instance (vnth v 0) in
  let b := asN (vnth v 1) in
  let nodes := asLof dec_node (vnth v 2) in
  let es := asLof dec_edge (vnth v 3) in
  VL [vbool (nodes_eqb nodes (spec_nodes b I));
      vbool (edges_soundb (spec_edgesb b I) es);
      vbool (edges_completeb (spec_edgesb b I) (length nodes) es);
      vbool (keys_nodupb es);
      vbool (nonempty_jobsb I); vbool (nodup_machinesb I)].

Definition cmd_oracle_solved (v : val) : val :=
  let I := dec_instance (vnth v 0) in
  let S := dec_sched (vnth v 1) in
  let nodes := asLof dec_node (vnth v 2) in
  let es := asLof dec_edge (vnth v 3) in
  VL [vbool (nodes_eqb nodes (nodes_disjunctive I));
      vbool (edges_soundb (spec_solvedb I S) es);
      vbool (edges_completeb (spec_solvedb I S) (length nodes) es);
      vbool (keys_nodupb es);
      vbool (edges_respect_timeb I S es);
      vbool (feasibleb I S && completeb I S); vbool (positiveb I); vbool (nonempty_jobsb I);
      VI (makespan I S)].

Fixpoint remove_seq (g : graph) (ids : list nat) : list val :=
  match ids with
  | [] => []
  | u :: r =>
      match remove_node g u with
      | Some g' => VL [VI 1; vlist vbool (g_removed g'); vlist enc_edge (sort_edges (g_edges g'));
                       vlist (fun x => vnat (fst x)) (non_removed_nodes g')] :: remove_seq g' r
      | None => VL [VI 0] :: remove_seq g r
      end
  end.

Definition cmd_remove (v : val) : val :=
  let I := dec_instance (vnth v 0) in
  match build_any (asN (vnth v 1)) I (dec_sched (vnth v 2)) with
  | Some g => VL (remove_seq g (asLof asN (vnth v 3)))
  | None => VL [VI 0]
  end.

Definition run_c16 (c : Z) (v : val) : val :=
  match c with
  | 1 => cmd_build v
  | 2 => cmd_solved v
  | 3 => cmd_oracle v
  | 4 => cmd_oracle_solved v
  | 5 => cmd_remove v
  | 6 => cmd_build_recipe v
  | _ => VL []
  end.
