(** Rules.v — dispatching rules, machine choosers, scoring functions, the
    rule constructors, [DispatchingRuleSolver.step/solve] and
    [BaseSolver.__call__]
    (job_shop_lib/dispatching/rules/_dispatching_rules_functions.py,
    _dispatching_rule_factory.py, _machine_chooser_factory.py,
    _dispatching_rule_solver.py, job_shop_lib/_base_solver.py). Executable only.

    Repaired behaviour encoded here (C04): the tie-breaker maximises over the
    CANDIDATES' scores; [elapsed_time = now - start]. Random draws and the clock
    are oracles. Exceptions: [ValueError] of [min()/max()] on an empty sequence
    is [EOther], [IndexError] is [EIndex]. *)
From JSL Require Import Base Instance Dstate Filters World Derived RuleObservers.

Local Notation "x <- m ;; f" := (bind m (fun x => f)) (at level 61, m at next level, right associativity).
Local Notation "m ;;; f" := (bind m (fun _ => f)) (at level 61, right associativity).

(** ** Python's [min] / [max] with a key: the FIRST optimum in list order *)
Fixpoint py_min_from {A : Type} (f : A -> Z) (best : A) (l : list A) : A :=
  match l with
  | [] => best
  | x :: t => py_min_from f (if f x <? f best then x else best) t
  end.
Definition py_min {A : Type} (f : A -> Z) (l : list A) : option A :=
  match l with [] => None | x :: t => Some (py_min_from f x t) end.

Fixpoint py_max_from {A : Type} (f : A -> Z) (best : A) (l : list A) : A :=
  match l with
  | [] => best
  | x :: t => py_max_from f (if f best <? f x then x else best) t
  end.
Definition py_max {A : Type} (f : A -> Z) (l : list A) : option A :=
  match l with [] => None | x :: t => Some (py_max_from f x t) end.

(** [random.choice(seq)] = [seq[randbelow(len(seq))]]; the oracle supplies the
    draw; [IndexError] on an empty sequence. *)
Definition choice {A : Type} (draw : nat) (l : list A) : option A :=
  match l with [] => None | _ => nth_error l (draw mod length l) end.

(** ** The rules as functions of the lists the dispatcher hands them *)
Section RulesPure.
  Variable I : instance.

  Definition job_of (k : nat * nat) : nat := fst k.
  Definition score_at (sc : list Z) (k : nat * nat) : Z := nthZ sc (fst k).

  (** [shortest_processing_time_rule], [first_come_first_served_rule] *)
  Definition spt_of (av : list (nat * nat)) : option (nat * nat) := py_min (kdur I) av.
  Definition fcfs_of (av : list (nat * nat)) : option (nat * nat) :=
    py_min (fun k => Z.of_nat (snd k)) av.
  (** [most_work_remaining_rule]: [us] = [unscheduled_operations()] *)
  Definition mwkr_of (us av : list (nat * nat)) : option (nat * nat) :=
    py_max (score_at (acc_by_job (kdur I) (num_jobs I) us)) av.
  (** [most_operations_remaining_rule]: [uc] = [uncompleted_operations()] *)
  Definition mopnr_of (uc av : list (nat * nat)) : option (nat * nat) :=
    py_max (score_at (acc_by_job (fun _ => 1) (num_jobs I) uc)) av.

  (** [score_based_rule(score_function)]: scores are PER JOB; an operation's
      score is [scores[operation.job_id]]. *)
  Definition score_based_of (sc : list Z) (av : list (nat * nat)) : option (nat * nat) :=
    py_max (score_at sc) av.

  (** The built-in scoring functions. *)
  Definition spt_score_of (av : list (nat * nat)) : list Z :=
    fold_left (fun acc k => upd acc (fst k) (- kdur I k)) av (repeat 0 (num_jobs I)).
  Definition fcfs_score_of (av : list (nat * nat)) : list Z :=
    fold_left (fun acc k => upd acc (fst k) (Z.of_nat (op_id I (fst k) (snd k)))) av
              (repeat 0 (num_jobs I)).
  Definition mopnr_score_of (uc : list (nat * nat)) : list Z :=
    acc_by_job (fun _ => 1) (num_jobs I) uc.
  (** [random_score]: [random.randint(0, 100)] per job, draws from the oracle. *)
  Definition random_score_of (draws : list nat) : list Z :=
    map (fun i => Z.of_nat (nth i draws 0%nat mod 101)) (seq 0 (num_jobs I)).

  (** [score_based_rule_with_tie_breaker] on already computed score vectors
      (REPAIRED: [best_score = max(scores[op.job_id] for op in candidates)]). *)
  Definition best_score (sc : list Z) (cands : list (nat * nat)) : option Z :=
    py_max (fun z => z) (map (score_at sc) cands).
  Definition keep_best (sc : list Z) (best : Z) (cands : list (nat * nat)) : list (nat * nat) :=
    filter (fun k => score_at sc k =? best) cands.
  Fixpoint tb_of (vs : list (list Z)) (cands : list (nat * nat)) : (nat * nat) + exn :=
    match vs with
    | [] => match cands with x :: _ => inl x | [] => inr EIndex end
    | sc :: rest =>
        match best_score sc cands with
        | None => inr EOther
        | Some best =>
            match keep_best sc best cands with
            | [x] => inl x
            | c' => tb_of rest c'
            end
        end
    end.

  (** The same loop as the UNREPAIRED code had it ([best_score = max(scores)],
      over all jobs) — kept only to exhibit the defect ([C04.v]). *)
  Fixpoint tb_unrepaired (vs : list (list Z)) (cands : list (nat * nat)) : (nat * nat) + exn :=
    match vs with
    | [] => match cands with x :: _ => inl x | [] => inr EIndex end
    | sc :: rest =>
        match py_max (fun z => z) sc with
        | None => inr EOther
        | Some best =>
            match keep_best sc best cands with
            | [x] => inl x
            | c' => tb_unrepaired rest c'
            end
        end
    end.

  (** Machine choosers: [operation.machines[0]] / [random.choice(operation.machines)] *)
  Inductive chooser := CFirst | CRandom.
  Definition choose (c : chooser) (draw : nat) (ms : list nat) : option nat :=
    match c with
    | CFirst => match ms with m :: _ => Some m | [] => None end
    | CRandom => choice draw ms
    end.
End RulesPure.

(** ** The rules as programs over the dispatcher (cached queries, in source order) *)
Inductive rule := RSpt | RFcfs | RMwkr | RMopnr | RRandom.

(** A scoring function handed to [score_based_rule(_with_tie_breaker)]. *)
Inductive sfun :=
| SSpt | SFcfs | SMopnr
| SMwkrObs (si : nat)            (* a [MostWorkRemainingScorer] object of the store *)
| SRandom (draws : list nat)     (* [random_score] *)
| SGiven (v : list Z).           (* any other function: the vector it returns *)

Section RulesM.
  Variable I : instance.

  Definition run_rule (r : rule) (draw : nat) : MR (nat * nat) :=
    match r with
    | RSpt => av <- q_avail I ;; of_opt (spt_of I av) EOther
    | RFcfs => av <- q_avail I ;; of_opt (fcfs_of av) EOther
    | RMwkr => us <- q_unsched I ;; av <- q_avail I ;; of_opt (mwkr_of I us av) EOther
    | RMopnr => uc <- q_uncompleted I ;; av <- q_avail I ;; of_opt (mopnr_of I uc av) EOther
    | RRandom => av <- q_avail I ;; of_opt (choice draw av) EIndex
    end.

  Definition run_sfun (s : sfun) : MR (list Z) :=
    match s with
    | SSpt => av <- q_avail I ;; ret (spt_score_of I av)
    | SFcfs => av <- q_avail I ;; ret (fcfs_score_of I av)
    | SMopnr => uc <- q_uncompleted I ;; ret (mopnr_score_of I uc)
    | SMwkrObs si => scorer_call I si
    | SRandom draws => ret (random_score_of I draws)
    | SGiven v => ret v
    end.

  (** [score_based_rule(f)]: the scores first, then [available_operations()]. *)
  Definition rule_score_based (s : sfun) : MR (nat * nat) :=
    sc <- run_sfun s ;; av <- q_avail I ;; of_opt (score_based_of sc av) EOther.

  (** [observer_based_most_work_remaining_rule] with scorer object [si]. *)
  Definition rule_mwkr_obs (si : nat) : MR (nat * nat) := rule_score_based (SMwkrObs si).

  (** [score_based_rule_with_tie_breaker(fs)]: scoring functions are called
      lazily, one per round, and the loop returns as soon as one candidate is
      left. *)
  Fixpoint tb_loop (sfs : list sfun) (cands : list (nat * nat)) : MR (nat * nat) :=
    match sfs with
    | [] => of_opt (match cands with x :: _ => Some x | [] => None end) EIndex
    | s :: rest =>
        sc <- run_sfun s ;;
        best <- of_opt (best_score sc cands) EOther ;;
        match keep_best sc best cands with
        | [x] => ret x
        | c' => tb_loop rest c'
        end
    end.
  Definition rule_tie_breaker (sfs : list sfun) : MR (nat * nat) :=
    cands <- q_avail I ;; tb_loop sfs cands.

  (** ** [DispatchingRuleSolver] *)

  (** [step]: rule, chooser, dispatch. [rl] is any rule program. *)
  Definition step_with (rl : MR (nat * nat)) (c : chooser) (draw : nat) : MR unit :=
    k <- rl ;;
    m <- of_opt (choose c draw (kmachines I k)) EIndex ;;
    dispatch r_update I (mkreq (fst k) (snd k) (Some (Z.of_nat m))).

  Inductive outcome := Done (steps : nat) | Raised (e : exn) (steps : nat) | OutOfFuel (steps : nat).

  (** [while not dispatcher.schedule.is_complete(): self.step(dispatcher)] on
      explicit fuel; [orc t] = the two draws available to step [t] (rule,
      chooser); [t] counts the steps performed. *)
  Fixpoint solve_loop (rl : nat -> MR (nat * nat)) (c : chooser) (orc : nat -> nat * nat)
           (fuel t : nat) (w : rwld) : rwld * outcome :=
    if is_complete I (sched (core w)) then (w, Done t)
    else match fuel with
         | O => (w, OutOfFuel t)
         | S f =>
             match step_with (rl (fst (orc t))) c (snd (orc t)) w with
             | (w', inl _) => solve_loop rl c orc f (S t) w'
             | (w', inr e) => (w', Raised e t)
             end
         end.

  (** [solve(instance)]: a new dispatcher with the solver's filter; fuel = N. *)
  Definition solve (r : rule) (c : chooser) (fs : list fname) (orc : nat -> nat * nat) : rwld * outcome :=
    solve_loop (run_rule r) c orc (num_ops I) 0 (init_w robs I fs).
End RulesM.

(** The value each scoring function has in a dispatcher state (uncached;
    the scorer's observers read as what they hold when they are up to date). *)
Definition sfun_vec (I : instance) (fs : list fname) (d : dstate) (s : sfun) : list Z :=
  match s with
  | SSpt => spt_score_of I (available I d fs)
  | SFcfs => fcfs_score_of I (available I d fs)
  | SMopnr => mopnr_score_of I (p_uncompleted I fs d)
  | SMwkrObs _ => mask_ready (job_work I d) (ready_vec I fs d)
  | SRandom dr => random_score_of I dr
  | SGiven v => v
  end.

(** The solver's default [ready_operations_filter]:
    [(DOMINATED_OPERATIONS, NON_IDLE_MACHINES)]. *)
Definition default_filters : list fname := [FDominated; FNonIdleMachines].

(** [self.__class__.__name__] of the solver, as character codes. *)
Definition solver_class_name : list Z :=
  [68; 105; 115; 112; 97; 116; 99; 104; 105; 110; 103; 82; 117; 108; 101; 83; 111; 108; 118; 101; 114].

(** [BaseSolver.__call__]: two clock reads around [solve]; the metadata are
    written only when [solve] returns. [clock 0], [clock 1] = the first and the
    second value returned by [time.perf_counter()] (in any unit). *)
Record metadata := mkmeta { elapsed_time : Z; solved_by : list Z }.
Definition call (I : instance) (r : rule) (c : chooser) (fs : list fname)
           (orc : nat -> nat * nat) (clock : nat -> Z) : rwld * outcome * option metadata :=
  let time_start := clock 0%nat in
  let '(w, out) := solve I r c fs orc in
  match out with
  | Done _ => (w, out, Some (mkmeta (clock 1%nat - time_start) solver_class_name))
  | _ => (w, out, None)
  end.

(** Codecs *)
Definition dec_rule (v : val) : rule :=
  match asZ v with 0 => RSpt | 1 => RFcfs | 2 => RMwkr | 3 => RMopnr | _ => RRandom end.
Definition dec_chooser (v : val) : chooser := match asZ v with 0 => CFirst | _ => CRandom end.
Definition dec_sfun (v : val) : sfun :=
  match asZ (vnth v 0) with
  | 0 => SSpt | 1 => SFcfs | 2 => SMopnr
  | 3 => SMwkrObs (asN (vnth v 1))
  | 4 => SRandom (asLof asN (vnth v 1))
  | _ => SGiven (asLof asZ (vnth v 1))
  end.
Definition enc_outcome (o : outcome) : val :=
  match o with
  | Done n => VL [VI 0; vnat n]
  | Raised e n => VL [VI (exn_code e); vnat n]
  | OutOfFuel n => VL [VI 9; vnat n]
  end.
