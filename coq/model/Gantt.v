(** Gantt.v — the data that job_shop_lib/visualization hands to matplotlib and
    imageio (visualization/_plot_gantt_chart.py,
    _gantt_chart_video_and_gif_creation.py). Executable only.

    * [plot_machine_schedules] / [configure_legend] / [configure_axes]: the
      loops of [_plot_machine_schedules], [_configure_legend],
      [_configure_axes], statement by statement (artists appended to a list,
      the legend dictionary in insertion order, the [//], [range] and
      last-tick replacement of the x ticks);
    * [create_gantt_chart_frames]: the replay loop (a fresh dispatcher, one
      [dispatch] + one plot call + one [_save_frame] per history entry);
    * [frame_name]: [f"frame_{number:02d}.png"];
    * [load_order]: the order in which [_load_images] reads the frame files
      back, AFTER the repair (numeric sort key), and [load_order_str]: the
      order used by the unrepaired code ([sorted] on the file names).

    matplotlib's rendering and imageio's encoding are not modelled. *)
From JSL Require Import Base Instance Dstate Filters World.
From Coq Require Import Orders Sorting.Mergesort.

(** * 1. The static chart *)

Definition BASE_Y : Z := 1.          (* _BASE_Y_POSITION *)
Definition Y_INC : Z := 10.          (* _Y_POSITION_INCREMENT *)
Definition BAR_H : Z := 9.           (* the literal 9 of broken_barh's yrange *)

(** One [broken_barh] call = one rectangle: lower-left corner (x, y), width,
    height, and the entry of the colour look-up table used for its face. *)
Record bar := mkbar { b_y : Z; b_x : Z; b_w : Z; b_h : Z; b_col : Z }.

(** [cmap(norm(job_id))] with [cmap = get_cmap(name, max_job_id + 1)] and
    [norm = Normalize(0, max_job_id)]: [Normalize] maps [j] to
    [j / max_job_id] (everything to 0 when [vmin = vmax]); a colormap with
    [N] entries maps [x] in [0,1] to entry [floor (x * N)], and [x * N = N]
    to entry [N - 1]. In exact arithmetic the entry is: *)
Definition colour_index (njobs j : Z) : Z :=
  let maxj := njobs - 1 in
  if maxj <=? 0 then 0
  else Z.max 0 (Z.min (njobs - 1) ((j * njobs) / maxj)).

(** The legend dictionary [legend_handles]: job id -> colour entry, in
    insertion order. *)
Definition legend := list (nat * Z).

(** Body of the inner loop: [_plot_scheduled_operation] (bar appended to the
    axes' artist list), then the [if job_id not in legend_handles] insert. *)
Definition plot_op (I : instance) (njobs : Z) (y : Z) (st : list bar * legend) (x : sop)
  : list bar * legend :=
  let col := colour_index njobs (Z.of_nat (s_job x)) in
  let arts := fst st ++ [mkbar y (s_start x) (s_end I x - s_start x) BAR_H col] in
  let leg := if mem_nat (s_job x) (map fst (snd st)) then snd st
             else snd st ++ [(s_job x, col)] in
  (arts, leg).

(** [for machine_index, machine_schedule in enumerate(schedule.schedule)] *)
Fixpoint plot_rows (I : instance) (njobs : Z) (mi : nat) (rows : schedule)
         (st : list bar * legend) : list bar * legend :=
  match rows with
  | [] => st
  | row :: t =>
      let y := BASE_Y + Y_INC * Z.of_nat mi in
      plot_rows I njobs (S mi) t (fold_left (plot_op I njobs y) row st)
  end.

Definition plot_machine_schedules (I : instance) (S : schedule) : list bar * legend :=
  plot_rows I (Z.of_nat (num_jobs I)) 0 S ([], []).

Definition bars (I : instance) (S : schedule) : list bar := fst (plot_machine_schedules I S).

(** [_configure_legend]: [[legend_handles[j] for j in sorted(legend_handles)]]. *)
Definition leg_lookup (L : legend) (j : nat) : Z :=
  match find (fun e => (fst e =? j)%nat) L with Some e => snd e | None => 0 end.
Definition configure_legend (L : legend) : legend :=
  map (fun j => (j, leg_lookup L j)) (sort_nat (map fst L)).
Definition legend_entries (I : instance) (S : schedule) : legend :=
  configure_legend (snd (plot_machine_schedules I S)).

(** [_configure_axes], y part. *)
Definition ylim (S : schedule) : Z * Z := (0, BASE_Y + Y_INC * Z.of_nat (length S)).
Definition yticks (S : schedule) : list Z :=
  map (fun i => BASE_Y + Y_INC / 2 + Y_INC * Z.of_nat i) (seq 0 (length S)).

(** [_configure_axes], x part. [xlim if xlim is not None else makespan]. *)
Definition xlim_of (I : instance) (S : schedule) (req : option Z) : Z :=
  match req with Some x => x | None => makespan_code I S end.

(** [list(range(0, stop, step))] for [step > 0]: [ceil(stop / step)] values. *)
Definition py_range0 (stop step : Z) : list Z :=
  map (fun i => Z.of_nat i * step) (seq 0 (Z.to_nat ((stop + step - 1) / step))).

(** [tick_interval = max(1, xlim // number_of_x_ticks)];
    [xticks = list(range(0, xlim + 1, tick_interval))];
    [if xticks[-1] != xlim: xticks.pop(); xticks.append(xlim)].
    [None] = the statement raises ([ZeroDivisionError] for 0 ticks,
    [IndexError] on the empty range of a negative limit). Coq's [/] on [Z]
    is floor division, as Python's [//]. *)
Definition xticks (xlim nt : Z) : option (list Z) :=
  if nt =? 0 then None
  else
    let ti := Z.max 1 (xlim / nt) in
    let ticks := py_range0 (xlim + 1) ti in
    match rev ticks with
    | [] => None
    | t :: r => Some (if t =? xlim then ticks else rev (xlim :: r))
    end.

(** Everything [plot_gantt_chart] puts on the axes. *)
Record chart := mkchart {
  c_bars : list bar; c_legend : legend; c_ylim : Z * Z; c_yticks : list Z;
  c_xlim : Z; c_xticks : option (list Z) }.

Definition plot_gantt_chart (I : instance) (S : schedule) (req : option Z) (nt : Z) : chart :=
  let xl := xlim_of I S req in
  mkchart (bars I S) (legend_entries I S) (ylim S) (yticks S) xl (xticks xl nt).

(** * 2. Frame files *)

(** File names are lists of character codes. *)
Definition name := list Z.

Fixpoint uint_codes (u : Decimal.uint) : list Z :=
  match u with
  | Decimal.Nil => []
  | Decimal.D0 u => 48 :: uint_codes u | Decimal.D1 u => 49 :: uint_codes u | Decimal.D2 u => 50 :: uint_codes u
  | Decimal.D3 u => 51 :: uint_codes u | Decimal.D4 u => 52 :: uint_codes u | Decimal.D5 u => 53 :: uint_codes u
  | Decimal.D6 u => 54 :: uint_codes u | Decimal.D7 u => 55 :: uint_codes u | Decimal.D8 u => 56 :: uint_codes u
  | Decimal.D9 u => 57 :: uint_codes u
  end.

(** [str(k)] for [k >= 0]: decimal digits, no leading zero, "0" for 0. *)
Definition dec_codes (k : nat) : list Z := uint_codes (Nat.to_uint k).

(** Format spec [02d] for [k >= 0]: pad with '0' on the left up to width 2;
    longer digit strings are kept whole (Python never truncates). *)
Definition pad2 (s : list Z) : list Z := repeat 48 (2 - length s) ++ s.

Definition frame_prefix : name := [102; 114; 97; 109; 101; 95].   (* "frame_" *)
Definition frame_suffix : name := [46; 112; 110; 103].             (* ".png" *)

(** [f"frame_{number:02d}.png"] *)
Definition frame_name (k : nat) : name := frame_prefix ++ pad2 (dec_codes k) ++ frame_suffix.

(** The sort key of the repaired [_load_images]:
    [int(name.removeprefix("frame_").removesuffix(".png"))]. [None] = [int]
    raises (empty or non-digit text; the other spellings [int] accepts —
    sign, blanks, underscores — never occur in a frame directory). *)
Fixpoint remove_prefix (p s : list Z) : option (list Z) :=
  match p, s with
  | [], _ => Some s
  | _ :: _, [] => None
  | a :: p', b :: s' => if a =? b then remove_prefix p' s' else None
  end.
Definition str_removeprefix (p s : list Z) : list Z :=
  match remove_prefix p s with Some r => r | None => s end.
Definition str_removesuffix (p s : list Z) : list Z :=
  match remove_prefix (rev p) (rev s) with Some r => rev r | None => s end.

Fixpoint parse_digits_acc (s : list Z) (acc : nat) : option nat :=
  match s with
  | [] => Some acc
  | c :: t => if (48 <=? c) && (c <=? 57)
              then parse_digits_acc t (10 * acc + Z.to_nat (c - 48))%nat
              else None
  end.
Definition py_int (s : list Z) : option nat :=
  match s with [] => None | _ => parse_digits_acc s 0%nat end.

Definition frame_number (nm : name) : option nat :=
  py_int (str_removesuffix frame_suffix (str_removeprefix frame_prefix nm)).
Definition frame_key (nm : name) : nat :=
  match frame_number nm with Some k => k | None => 0%nat end.

(** [sorted(listing, key=_frame_number)]: keys are computed once per element
    (decorate), the decorated list is sorted by key with a stable merge sort,
    and the names are projected back. *)
Module KeyOrder <: TotalLeBool.
  Definition t := (nat * name)%type.
  Definition leb (a b : t) : bool := (fst a <=? fst b)%nat.
  Lemma leb_total : forall x y : t, leb x y = true \/ leb y x = true.
  Proof.
    intros x y. unfold leb. destruct (Nat.leb_spec (fst x) (fst y)) as [H|H].
    - left; reflexivity.
    - right. apply Nat.leb_le. apply Nat.lt_le_incl. exact H.
  Qed.
End KeyOrder.
Module KeySort := Sort KeyOrder.

(** The order in which [_load_images] (repaired) opens the files of a
    directory whose [os.listdir] result is [listing]. *)
Definition load_order (listing : list name) : option (list name) :=
  if forallb (fun nm => match frame_number nm with Some _ => true | None => false end) listing
  then Some (map snd (KeySort.sort (map (fun nm => (frame_key nm, nm)) listing)))
  else None.

(** The unrepaired [_load_images]: [sorted(os.listdir(frames_dir))] — Python
    compares strings by code point, a proper prefix first. *)
Fixpoint lex_leb (a b : name) : bool :=
  match a, b with
  | [], _ => true
  | _ :: _, [] => false
  | x :: a', y :: b' => if x <? y then true else if x =? y then lex_leb a' b' else false
  end.
Module LexOrder <: TotalLeBool.
  Definition t := name.
  Definition leb := lex_leb.
  Lemma leb_total : forall x y : t, leb x y = true \/ leb y x = true.
  Proof.
    unfold leb. induction x as [|a x IH]; intros [|b y]; simpl; auto.
    destruct (Z.ltb_spec a b) as [H|H]; [left; reflexivity|].
    destruct (Z.ltb_spec b a) as [H2|H2]; [right; reflexivity|].
    assert (E : a = b) by (apply Z.le_antisymm; assumption). subst b.
    rewrite Z.eqb_refl. apply IH.
  Qed.
End LexOrder.
Module LexSort := Sort LexOrder.
Definition load_order_str (listing : list name) : list name := LexSort.sort listing.

(** * 3. The frames of an animation *)

(** What a plot call is given: the dispatcher's schedule at that moment and
    the fixed x-axis limit. (The available operations and the current time
    are passed too; the property does not speak about them.) *)
Record frame := mkframe { f_sched : schedule; f_xlim : Z }.

(** A directory: file name -> content. [savefig] overwrites. *)
Definition directory := list (name * frame).
Fixpoint name_eqb (a b : name) : bool :=
  match a, b with
  | [], [] => true
  | x :: a', y :: b' => (x =? y) && name_eqb a' b'
  | _, _ => false
  end.
Definition dir_write (d : directory) (nm : name) (c : frame) : directory :=
  (nm, c) :: filter (fun e => negb (name_eqb (fst e) nm)) d.
Definition dir_lookup (d : directory) (nm : name) : option frame :=
  match find (fun e => name_eqb (fst e) nm) d with Some e => Some (snd e) | None => None end.
Definition dir_names (d : directory) : list name := map fst d.

(** The replaying dispatcher has no subscriber; the observer slot of the
    world is instantiated with the history observer's state, which is also
    what RECORDS a history (see [GanttSpec.recorded]). *)
Definition h_update (I : instance) (fs : list fname) (d : dstate) (x : sop) (h : list sop)
  : list sop := h ++ [x].

(** [dispatcher.dispatch(scheduled_operation.operation, scheduled_operation.machine_id)] *)
Definition hist_request (x : sop) : request :=
  mkreq (s_job x) (s_pos x) (Some (Z.of_nat (s_mach x))).

(** [makespan = max(sop.end_time for sop in schedule_history)] — [ValueError]
    on an empty history. *)
Definition history_makespan (I : instance) (h : list sop) : option Z :=
  match map (s_end I) h with
  | [] => None
  | e :: t => Some (fold_left Z.max t e)
  end.

(** [for i, sop in enumerate(schedule_history, start=1)]: dispatch, plot,
    [_save_frame(fig, frames_dir, i)]. An exception of [dispatch] ends the
    loop; the frames saved so far stay. *)
Fixpoint frames_loop (I : instance) (xl : Z) (h : list sop) (i : nat)
         (w : world (list sop)) (d : directory) : directory * option exn :=
  match h with
  | [] => (d, None)
  | x :: t =>
      match dispatch h_update I (hist_request x) w with
      | (_, inr e) => (d, Some e)
      | (w', inl _) =>
          frames_loop I xl t (S i) w' (dir_write d (frame_name i) (mkframe (sched (core w')) xl))
      end
  end.

(** [create_gantt_chart_frames(frames_dir, instance, None, plot, _, history)]
    into an empty directory. *)
Definition create_gantt_chart_frames (I : instance) (h : list sop) : directory * option exn :=
  match history_makespan I h with
  | None => ([], Some EOther)
  | Some xl => frames_loop I xl h 1 (init_w (list sop) I []) []
  end.

(** [_load_images] on a directory, given what [os.listdir] returned: the
    frames in the order in which they are handed to [imageio.mimsave]. *)
Definition load_images (d : directory) (listing : list name) : option (list (option frame)) :=
  match load_order listing with
  | Some l => Some (map (dir_lookup d) l)
  | None => None
  end.

(** * Codec *)
Definition enc_bar (b : bar) : val := VL [VI (b_y b); VI (b_x b); VI (b_w b); VI (b_h b); VI (b_col b)].
Definition dec_bar (v : val) : bar :=
  mkbar (asZ (vnth v 0)) (asZ (vnth v 1)) (asZ (vnth v 2)) (asZ (vnth v 3)) (asZ (vnth v 4)).
Definition enc_legend (L : legend) : val := vlist (vpair vnat VI) L.
Definition dec_legend (v : val) : legend := asLof (fun e => (asN (vnth e 0), asZ (vnth e 1))) v.
Definition enc_name (nm : name) : val := vlist VI nm.
Definition dec_name (v : val) : name := asLof asZ v.
Definition enc_chart (c : chart) : val :=
  VL [vlist enc_bar (c_bars c); enc_legend (c_legend c);
      VL [VI (fst (c_ylim c)); VI (snd (c_ylim c))]; vlist VI (c_yticks c);
      VI (c_xlim c); vopt (vlist VI) (c_xticks c)].
