(** RuleObservers.v — the two feature observers the observer-based
    most-work-remaining scorer reads, as far as that scorer needs them:
    the JOBS feature of [DurationObserver] and of [IsReadyObserver]
    (dispatching/feature_observers/_duration_observer.py, _is_ready_observer.py,
    _feature_observer.py), and the [MostWorkRemainingScorer] object itself
    (dispatching/rules/_dispatching_rules_functions.py). Executable only.

    [DurationObserver._initialize_job_durations] is modelled AFTER the C04
    repair: the job feature is initialised from the operations that are still
    unscheduled (the class docstring's meaning), not from the total job
    durations. *)
From JSL Require Import Base Instance Dstate Filters World.

Local Notation "x <- m ;; f" := (bind m (fun x => f)) (at level 61, m at next level, right associativity).
Local Notation "m ;;; f" := (bind m (fun _ => f)) (at level 61, right associativity).

(** [acc = [0] * n; for k in l: acc[k.job_id] += wt(k)] *)
Definition acc_step (wt : nat * nat -> Z) (acc : list Z) (k : nat * nat) : list Z :=
  upd acc (fst k) (nthZ acc (fst k) + wt k).
Definition acc_by_job (wt : nat * nat -> Z) (n : nat) (l : list (nat * nat)) : list Z :=
  fold_left (acc_step wt) l (repeat 0 n).

(** Sum of the durations of the unscheduled operations, per job: the loop of
    [most_work_remaining_rule] and of the (repaired) job-feature initialiser. *)
Definition job_work (I : instance) (d : dstate) : list Z :=
  acc_by_job (kdur I) (num_jobs I) (unscheduled_ops I d).

(** [IsReadyObserver.initialize_features] for the JOBS feature: zeros, then
    [feature[dispatcher.available_jobs(), 0] = 1]. *)
Definition ready_vec (I : instance) (fs : list fname) (d : dstate) : list Z :=
  fold_left (fun acc j => upd acc j 1) (map fst (available I d fs)) (repeat 0 (num_jobs I)).

(** Objects of the store: a [DurationObserver] / [IsReadyObserver] with or
    without the JOBS feature ([jf] = column 0 of [features[JOBS]]; the other
    feature types are not read by the rule and not modelled), and the scorer
    object with its two cached observer references. *)
Inductive robs :=
| ODur (hasj : bool) (jf : list Z)
| OReady (hasj : bool) (jf : list Z)
| OScorer (di ri : option nat).

(** [update(scheduled_operation)], seeing the dispatcher state [d] (already
    updated, C10). Duration: [features[JOBS][job, 0] -= duration]. IsReady:
    [FeatureObserver.update] = [initialize_features]. *)
Definition r_update (I : instance) (fs : list fname) (d : dstate) (x : sop) (o : robs) : robs :=
  match o with
  | ODur true jf => ODur true (upd jf (s_job x) (nthZ jf (s_job x) - dur I x))
  | OReady true _ => OReady true (ready_vec I fs d)
  | _ => o
  end.

(** [reset()]: features to zero, then [initialize_features]. *)
Definition r_reset (I : instance) (fs : list fname) (d : dstate) (o : robs) : robs :=
  match o with
  | ODur true _ => ODur true (job_work I d)
  | OReady true _ => OReady true (ready_vec I fs d)
  | _ => o
  end.

Inductive rkind := RKDur | RKReady.

Definition r_construct (I : instance) (fs : list fname) (d : dstate) (k : rkind) (hasj : bool) : robs :=
  match k with
  | RKDur => ODur hasj (if hasj then job_work I d else [])
  | RKReady => OReady hasj (if hasj then ready_vec I fs d else [])
  end.

Definition rwld := world robs.
Definition MR := M robs.

(** [FeatureObserver.__init__]: feature observers are not singletons, so the
    guard of [DispatcherObserver.__init__] is skipped; subscribe; zeros;
    [initialize_features]. *)
Definition r_new (I : instance) (k : rkind) (hasj : bool) : MR nat :=
  w <- @get robs ;;
  let i := length (objs w) in
  subscribe i ;;;
  set_objs (fun os : list robs => os ++ [r_construct I (filt w) (core w) k hasj]) ;;;
  ret i.

(** [has_job_feature]: a [DurationObserver] that tracks the JOBS feature.
    (The scorer passes the SAME condition when it asks for an
    [IsReadyObserver]; no [IsReadyObserver] is a [DurationObserver], so that
    lookup never finds one and a new observer is constructed.) *)
Definition has_job_feature (o : robs) : bool :=
  match o with ODur true _ => true | _ => false end.
Definition is_kind (k : rkind) (o : robs) : bool :=
  match k, o with
  | RKDur, ODur _ _ => true
  | RKReady, OReady _ _ => true
  | _, _ => false
  end.

(** [create_or_get_observer(cls, condition=has_job_feature, feature_types=JOBS)] *)
Fixpoint find_first (os : list robs) (k : rkind) (ss : list nat) : option nat :=
  match ss with
  | [] => None
  | i :: t => match nth_error os i with
              | Some o => if is_kind k o && has_job_feature o then Some i else find_first os k t
              | None => find_first os k t
              end
  end.
Definition r_create_or_get (I : instance) (k : rkind) : MR nat :=
  w <- @get robs ;;
  match find_first (objs w) k (subs w) with
  | Some i => ret i
  | None => r_new I k true
  end.

(** [work_remaining[~is_ready.astype(bool)] = 0] *)
Definition mask_ready (wr rd : list Z) : list Z :=
  map (fun p => if snd p =? 0 then 0 else fst p) (combine wr rd).

(** [MostWorkRemainingScorer.__call__(dispatcher)]; [si] = the scorer object. *)
Definition scorer_call (I : instance) (si : nat) : MR (list Z) :=
  w <- @get robs ;;
  match nth_error (objs w) si with
  | Some (OScorer di ri) =>
      di' <- (match di with Some i => ret i | None => r_create_or_get I RKDur end) ;;
      set_objs (fun os : list robs => upd os si (OScorer (Some di') ri)) ;;;
      ri' <- (match ri with Some i => ret i | None => r_create_or_get I RKReady end) ;;
      set_objs (fun os : list robs => upd os si (OScorer (Some di') (Some ri'))) ;;;
      w' <- @get robs ;;
      match nth_error (objs w') di', nth_error (objs w') ri' with
      | Some (ODur _ wr), Some (OReady _ rd) => ret (mask_ready wr rd)
      | _, _ => raise EOther
      end
  | _ => raise EOther
  end.

(** The scorer object is used on ANOTHER dispatcher in between
    ([self._current_dispatcher is not dispatcher]): it drops the observers it
    had cached and fetches them again at its next call on this dispatcher.
    Nothing else changes here. *)
Definition scorer_forget (si : nat) : MR unit :=
  w <- @get robs ;;
  match nth_error (objs w) si with
  | Some (OScorer _ _) => set_objs (fun os : list robs => upd os si (OScorer None None))
  | _ => ret tt
  end.

(** A fresh scorer object ([MostWorkRemainingScorer()]): lives in the store,
    never subscribed. *)
Definition new_scorer : MR nat :=
  w <- @get robs ;;
  set_objs (fun os : list robs => os ++ [OScorer None None]) ;;;
  ret (length (objs w)).

Definition enc_robs (o : robs) : val :=
  match o with
  | ODur h jf => VL [VI 0; vbool h; vlist VI jf]
  | OReady h jf => VL [VI 1; vbool h; vlist VI jf]
  | OScorer a b => VL [VI 2; vopt vnat a; vopt vnat b]
  end.
