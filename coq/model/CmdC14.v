(** CmdC14.v — command table of the model runner for property C14
    (commands 1400 .. 1499 of [run_cmd]; local number = c mod 100).

    Results of views that may raise: [VL [VI 0; payload]] or [VL [VI code]].
    NaN padding ([None]) is [VL []], a present cell is [VL [VI z]]. *)
From JSL Require Import Base Instance Dstate Filters World Feasible Views ViewsSpec.

Definition enc_res {A} (f : A -> val) (r : A + exn) : val :=
  match r with inl x => VL [VI 0; f x] | inr e => VL [VI (exn_code e)] end.
Definition enc_op (o : op) : val := VL [vlist vnat (machines o); VI (duration o)].
Definition enc_instance (I : instance) : val := vlist (vlist enc_op) I.
Definition enc_mval (v : mval) : val := match v with MInt m => vnat m | MList l => vlist vnat l end.
Definition dec_mval (v : val) : mval := match v with VI z => MInt (Z.to_nat z) | VL l => MList (map asN l) end.
Definition enc_attrs (a : attrs) : val := VL [vnat (at_job a); vnat (at_pos a); vnat (at_id a)].
Definition enc_marr (a : marr) : val :=
  match a with
  | A2 x => VL [VI 2; vlist (vlist (vopt vnat)) x]
  | A3 x => VL [VI 3; vlist (vlist (vlist (vopt vnat))) x]
  end.
Definition enc_tline (l : tline) : val :=
  match l with TComment => VL [VI 0; VL []] | TRow r => VL [VI 1; vlist VI r] end.
Definition dec_tline (v : val) : tline :=
  if asZ (vnth v 0) =? 0 then TComment else TRow (asLof asZ (vnth v 1)).
Definition enc_fjs (r : fjs_result) : val :=
  match r with
  | FOk rows => VL [VI 0; enc_sched rows]
  | FErr e => VL [VI (exn_code e)]
  | FOutOfFuel => VL [VI 9]
  end.

(** 1: every view as the code computes it *)
Definition cmd_views (v : val) : val :=
  let I := dec_instance v in
  VL [ vlist (vlist enc_attrs) (set_operation_attributes I);
       vnat (num_jobs I);
       enc_res vnat (num_machines_code I);
       vnat (num_operations_code I);
       vbool (is_flexible I);
       vlist (vlist VI) (durations_matrix I);
       enc_res (vlist (vlist enc_mval)) (machines_matrix_code I);
       enc_res (vlist (vlist (vopt VI))) (durations_matrix_array_code I);
       enc_res enc_marr (machines_matrix_array_code I);
       enc_res (vlist (vlist enc_key)) (operations_by_machine_code I);
       enc_res VI (max_duration_code I);
       enc_res (vlist VI) (max_duration_per_job_code I);
       enc_res (vlist VI) (max_duration_per_machine_code I);
       vlist VI (job_durations I);
       enc_res (vlist VI) (machine_loads_code I);
       VI (total_duration_code I) ].

(** 2: the same views from their DEFINITIONS (spec/ViewsSpec.v); where a
    definition is a predicate ([is_max]) the candidate is checked. The
    harness applies this to the implementation's own answers. *)
Definition cmd_spec (v : val) : val :=
  let I := dec_instance v in
  let nm := num_machines I in
  VL [ vlist (fun k => VL [vnat (fst k); vnat (snd k); vnat (op_id I (fst k) (snd k))]) (all_keys I);
       vnat (length I);
       vnat nm;
       vnat (num_ops I);
       vlist (vlist (vopt VI)) (durations_array_spec I);
       vlist (vlist (vopt vnat)) (machines_array2_spec I);
       vlist (vlist (vlist (vopt vnat))) (machines_array3_spec I);
       vlist (fun m => vlist enc_key (obm_spec I m)) (seq 0 nm);
       vlist (fun m => VI (maxdur_machine_spec I m)) (seq 0 nm);
       vlist (fun m => VI (load_spec I m)) (seq 0 nm);
       VI (sumZ (all_durations I)) ].

(** 3: is [x] the greatest element of each list?  input: list of [x, list] *)
Definition cmd_is_max (v : val) : val :=
  vlist (fun q => vbool (is_maxb (asLof asZ (vnth q 1)) (asZ (vnth q 0)))) (asL v).

(** 4: to_dict;  5: from_matrices *)
Definition cmd_to_dict (v : val) : val :=
  let X := mkio (dec_instance v) tt tt in
  enc_res (fun D => VL [vlist (vlist VI) (d_dur D); vlist (vlist enc_mval) (d_mach D)]) (to_dict X).
Definition dec_dict (dm mm : val) : inst_dict unit unit :=
  mkid tt (asLof (asLof asZ) dm) (asLof (asLof dec_mval) mm) tt.
Definition cmd_from_matrices (v : val) : val :=
  enc_res (fun X => enc_instance (io_jobs X)) (from_matrices (dec_dict (vnth v 0) (vnth v 1))).

(** 6: parse a token file;  7: print [c] comments + instance *)
Definition cmd_parse (v : val) : val := enc_instance (parse_taillard (asLof dec_tline v)).
Definition cmd_print (v : val) : val :=
  vlist enc_tline (print_taillard (asN (vnth v 0)) (dec_instance (vnth v 1))).

(** 8: from_job_sequences [instance, seqs];  9: job sequences of a schedule;
    10: Schedule.from_dict [dur, mach, seqs] *)
Definition cmd_fjs (v : val) : val :=
  enc_fjs (from_job_sequences (dec_instance (vnth v 0)) (asLof (asLof asZ) (vnth v 1))).
Definition cmd_job_sequences (v : val) : val :=
  vlist (vlist VI) (job_sequences (dec_sched v)).
Definition cmd_from_dict (v : val) : val :=
  match sched_from_dict (mksd (dec_dict (vnth v 0) (vnth v 1)) (asLof (asLof asZ) (vnth v 2)) tt) with
  | FDOk X => VL [VI 0; enc_instance (io_jobs (so_inst X)); enc_sched (so_rows X)]
  | FDErr _ _ _ e => VL [VI (exn_code e)]
  | FDOutOfFuel _ _ _ => VL [VI 9]
  end.

Definition run_c14 (c : Z) (v : val) : val :=
  match c with
  | 1 => cmd_views v
  | 2 => cmd_spec v
  | 3 => cmd_is_max v
  | 4 => cmd_to_dict v
  | 5 => cmd_from_matrices v
  | 6 => cmd_parse v
  | 7 => cmd_print v
  | 8 => cmd_fjs v
  | 9 => cmd_job_sequences v
  | 10 => cmd_from_dict v
  | _ => VL []
  end.
