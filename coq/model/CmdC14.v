(** CmdC14.v — command table of the model runner for property C14
    (commands 1400 .. 1499 of [run_cmd]; local number = c mod 100). *)
From JSL Require Import Base.

Definition run_c14 (c : Z) (v : val) : val :=
  match c with
  | _ => VL []
  end.
