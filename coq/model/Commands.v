(** Commands.v — the command table of the model runner. Every command maps
    a [val] to a [val]; the OCaml driver only parses and prints. *)
From JSL Require Import Base Instance Dstate Filters World Observers Session Feasible.

Definition cmd_feasible (v : val) : val :=
  let I := dec_instance (vnth v 0) in
  let S := dec_sched (vnth v 1) in
  VL (map vbool (feasible_clauses I S ++ [completeb I S])).

(** several schedules of one instance at once *)
Definition cmd_feasible_many (v : val) : val :=
  let I := dec_instance (vnth v 0) in
  VL (map (fun r => let S := dec_sched r in
                    VL (map vbool (feasible_clauses I S ++ [completeb I S]))) (asL (vnth v 1))).

Definition run_cmd (c : Z) (v : val) : val :=
  match c with
  | 1 => cmd_session v
  | 2 => cmd_feasible v
  | 3 => cmd_feasible_many v
  | _ => VL []
  end.
