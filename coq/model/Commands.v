(** Commands.v — the command table of the model runner. Every command maps
    a [val] to a [val]; the OCaml driver only parses and prints. *)
From JSL Require Import Base Instance Dstate Filters World Observers Session Feasible Derived QuerySpec FilterSpec Search.
From JSL Require CmdC03 CmdC04 CmdC11 CmdC12 CmdC14 CmdC15 CmdC16 CmdC17 CmdC18 CmdC19 CmdC20.

Definition cmd_feasible (v : val) : val :=
  let I := dec_instance (vnth v 0) in
  let S := dec_sched (vnth v 1) in
  VL (map vbool (feasible_clauses I S ++ [completeb I S])).

(** several schedules of one instance at once *)
Definition cmd_feasible_many (v : val) : val :=
  let I := dec_instance (vnth v 0) in
  VL (map (fun r => let S := dec_sched r in
                    VL (map vbool (feasible_clauses I S ++ [completeb I S]))) (asL (vnth v 1))).

(** oracle: queries recomputed from scratch from schedule rows.
    [I; fs; [[rows; q; arg] ...]] *)
Definition cmd_spec_queries (v : val) : val :=
  let I := dec_instance (vnth v 0) in
  let fs := asLof dec_fname (vnth v 1) in
  VL (map (fun c => pure_query I fs (dstate_of I (dec_sched (vnth c 0))) (asZ (vnth c 1)) (vnth c 2))
          (asL (vnth v 2))).

(** oracle: book-keeping recomputed from scratch from schedule rows.
    [I; [rows ...]] -> [[dstate; count; makespan] ...] *)
Definition cmd_tracking (v : val) : val :=
  let I := dec_instance (vnth v 0) in
  VL (map (fun r => let S := dec_sched r in
                    VL [enc_dstate (dstate_of I S); vnat (length (all_sops S)); VI (sp_makespan I S); VI (sp_idle I S)])
          (asL (vnth v 1))).

(** oracle: forced start times. [I; [[rows_before; j; p; m] ...]] *)
Definition cmd_forced (v : val) : val :=
  let I := dec_instance (vnth v 0) in
  VL (map (fun c => VI (forced_start I (dec_sched (vnth c 0)) (asN (vnth c 1)) (asN (vnth c 2)) (asN (vnth c 3))))
          (asL (vnth v 1))).

(** oracle: what a filter (or a composition) must return on list L in the
    state recomputed from the rows. [I; [[rows; [f ...]; L] ...]] ->
    [[spec result; sublistb result-vs-L] ...] *)
Definition spec_filters (I : instance) (d : dstate) (fs : list fname) (L : list (nat * nat)) : list (nat * nat) :=
  fold_left (fun acc f => spec_filter I d f acc) fs L.
Definition cmd_spec_filters (v : val) : val :=
  let I := dec_instance (vnth v 0) in
  VL (map (fun c => let d := dstate_of I (dec_sched (vnth c 0)) in
                    let L := asLof dec_key (vnth c 2) in
                    let r := spec_filters I d (asLof dec_fname (vnth c 1)) L in
                    VL [vlist enc_key r; vbool (sublistb r L)])
          (asL (vnth v 1))).

(** best makespan over filtered / all dispatch histories, and the sizes of the two decision trees.
    [I] -> [[opt_filtered]; [opt_unfiltered]; [leaves; nodes; dead ends] filtered; the same unfiltered] *)
Definition enc_size (t : N * N * N) : val :=
  let '(a, b, c) := t in VL [VI (Z.of_N a); VI (Z.of_N b); VI (Z.of_N c)].
Definition cmd_search (v : val) : val :=
  let I := dec_instance (vnth v 0) in
  VL [vopt VI (opt_filtered I); vopt VI (opt_unfiltered I);
      enc_size (tree_size [FDominated] (S (num_ops I)) I (init_w unit I [FDominated]));
      enc_size (tree_size [] (S (num_ops I)) I (init_w unit I []))].

(** Commands < 100: the dispatcher world (this file). Commands [100*k + n]:
    property Ck's own table ([CmdCk.run_ck n]). *)
Definition run_core (c : Z) (v : val) : val :=
  match c with
  | 1 => cmd_session v
  | 2 => cmd_feasible v
  | 3 => cmd_feasible_many v
  | 4 => cmd_spec_queries v
  | 5 => cmd_tracking v
  | 6 => cmd_forced v
  | 7 => cmd_spec_filters v
  | 8 => cmd_search v
  | _ => VL []
  end.

Definition run_cmd (c : Z) (v : val) : val :=
  match c / 100 with
  | 0 => run_core c v
  | 3 => CmdC03.run_c03 (c mod 100) v
  | 4 => CmdC04.run_c04 (c mod 100) v
  | 11 => CmdC11.run_c11 (c mod 100) v
  | 12 => CmdC12.run_c12 (c mod 100) v
  | 14 => CmdC14.run_c14 (c mod 100) v
  | 15 => CmdC15.run_c15 (c mod 100) v
  | 16 => CmdC16.run_c16 (c mod 100) v
  | 17 => CmdC17.run_c17 (c mod 100) v
  | 18 => CmdC18.run_c18 (c mod 100) v
  | 19 => CmdC19.run_c19 (c mod 100) v
  | 20 => CmdC20.run_c20 (c mod 100) v
  | _ => VL []
  end.
