(** CmdC11.v — command table of the model runner for property C11
    (commands 1100 .. 1199 of [run_cmd]; local number = c mod 100). *)
From JSL Require Import Base Instance Dstate Filters World Observers Session FeatureObservers Derived FeatureSpec.

(** *** 1: a feature-observer session.
    [I; filters; events] -> one output per event, each
    [result; snapshot of the whole subscriber system].
    Events:
      [0; job; pos; [m]?]        dispatch (through World.dispatch with O := fsys)
      [1]                        dispatcher.reset()
      [2; kind; mask; [comps]?]  construct an observer now
      [3; idx]                   dispatcher.unsubscribe(objs[idx]) *)
Definition f_event (I : instance) (ev : val) (w : fwld) : fwld * val :=
  let fin {A} (f : A -> val) (p : fwld * (A + exn)) : fwld * val := (fst p, enc_res f (snd p)) in
  match asZ (vnth ev 0) with
  | 0 => fin (fun _ : unit => VL []) (dispatch f_update I (dec_request ev) w)
  | 1 => fin (fun _ : unit => VL []) (reset f_reset I w)
  | 2 => fin vnat (f_construct I (dec_fkind (vnth ev 1)) (dec_ftm (vnth ev 2)) (asOpt (asLof asN) (vnth ev 3)) w)
  | 3 => fin (fun _ : unit => VL []) (f_unsubscribe (asN (vnth ev 1)) w)
  | _ => (w, VL [])
  end.

Fixpoint f_events (I : instance) (evs : list val) (w : fwld) : list val :=
  match evs with
  | [] => []
  | ev :: t => let '(w', out) := f_event I ev w in
               VL [out; enc_fsys (sys_of w'); enc_sched (sched (core w'))] :: f_events I t w'
  end.

Definition cmd_fsession (v : val) : val :=
  let I := dec_instance (vnth v 0) in
  let fs := asLof dec_fname (vnth v 1) in
  VL (f_events I (asL (vnth v 2)) (fw fs (init_d I) empty_sys)).

(** *** 2: the oracle. [I; filters; [rows ...]] -> [spec_table ...] *)
Definition cmd_fspec (v : val) : val :=
  let I := dec_instance (vnth v 0) in
  let fs := asLof dec_fname (vnth v 1) in
  VL (map (fun r => spec_table I fs (dec_sched r)) (asL (vnth v 2))).

(** *** 3: the factory table and the class names. [] -> [[kind code; name] ...] *)
Definition cmd_factory (v : val) : val :=
  VL (map (fun c => match factory c with
                    | Some k => VL [VI (fkind_code k); vlist VI (kind_name k)]
                    | None => VL [] end) [0; 1; 2; 3; 4; 5; 6; 7]).

Definition run_c11 (c : Z) (v : val) : val :=
  match c with
  | 1 => cmd_fsession v
  | 2 => cmd_fspec v
  | 3 => cmd_factory v
  | _ => VL []
  end.
