(** CmdC11.v — command table of the model runner for property C11
    (commands 1100 .. 1199 of [run_cmd]; local number = c mod 100). *)
From JSL Require Import Base.

Definition run_c11 (c : Z) (v : val) : val :=
  match c with
  | _ => VL []
  end.
