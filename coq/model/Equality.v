(** Equality.v — the four [__eq__] methods and [Operation.__hash__]
    (job_shop_lib/_operation.py:95-101 AFTER the repair
    .scratch/fix-C15-operation-eq.diff, _scheduled_operation.py:75-82,
    _schedule.py:289-293, _job_shop_instance.py:257-260), Python's [==] / [!=]
    dispatch around them, and — kept beside it — the CURRENT (defective)
    [Operation.__eq__]. Executable only; no proofs here. *)
From JSL Require Import Base.

(** ** The objects, with every field the constructors store — also the ones
    the comparisons ignore (instance name / metadata, a schedule's instance
    and metadata), so that "equality looks at exactly the content" is a
    statement and not a consequence of the representation. *)

(** [Operation]: the five slots. [job_id], [position_in_job], [operation_id]
    are [-1] until an instance sets them, hence [Z]. *)
Record oper := mkoper {
  o_machines : list Z; o_duration : Z; o_job : Z; o_pos : Z; o_id : Z }.

(** [ScheduledOperation]: operation, start_time, machine_id. *)
Record soper := mksoper { so_op : oper; so_start : Z; so_mach : Z }.

(** [JobShopInstance]: jobs, name (character codes), metadata (an opaque token). *)
Record inst := mkinst { i_jobs : list (list oper); i_name : list Z; i_meta : Z }.

(** [Schedule]: instance, the rows ([schedule.schedule], row m = machine m), metadata. *)
Record schd := mkschd { sc_inst : inst; sc_rows : list (list soper); sc_meta : Z }.

(** A Python value as seen by [isinstance]: one of the four library classes
    or something else ([OForeign t z]: builtin type number [t] — int, None,
    str, tuple … — carrying the payload [z]). *)
Inductive pyobj :=
| OOp (o : oper)
| OSop (s : soper)
| OSched (s : schd)
| OInst (i : inst)
| OForeign (t z : Z).

(** What a rich-comparison method returns. *)
Inductive pyres := RT | RF | RNI.       (* True | False | NotImplemented *)
Definition of_bool (b : bool) : pyres := if b then RT else RF.

(** Python [list.__eq__]: same length and element-wise [==]. (CPython first
    tests elements for identity; for a reflexive [==] that changes nothing.) *)
Fixpoint list_eqb {A : Type} (eqb : A -> A -> bool) (l1 l2 : list A) : bool :=
  match l1, l2 with
  | [], [] => true
  | x :: t1, y :: t2 => eqb x y && list_eqb eqb t1 t2
  | _, _ => false
  end.

(** ** [Operation.__eq__] *)

(** Repaired: after the [isinstance] test, the [and]-chain over the five fields. *)
Definition operation_eq_fields (a b : oper) : bool :=
  list_eqb Z.eqb (o_machines a) (o_machines b)
  && (o_duration a =? o_duration b)
  && (o_job a =? o_job b)
  && (o_pos a =? o_pos b)
  && (o_id a =? o_id b).

(** Current code: [self.__slots__ == value.__slots__]. [__slots__] is a class
    attribute (a dict keyed by the five slot names, numbered 0..4 here);
    looking it up through an instance yields the class's dict whatever the
    instance holds. *)
Definition operation_slots : list nat := [0; 1; 2; 3; 4]%nat.
Definition slots_of (_ : oper) : list nat := operation_slots.
Definition operation_eq_unrepaired (a b : oper) : bool :=
  list_eqb Nat.eqb (slots_of a) (slots_of b).

(** [Operation.__hash__]: [hash(self.operation_id)] — unchanged by the repair.
    [hash_key] is the value handed to the builtin [hash]; the builtin enters
    as a parameter, the only thing assumed of it is that it is a function. *)
Definition hash_key (o : oper) : Z := o_id o.
Definition operation_hash (py_hash : Z -> Z) (o : oper) : Z := py_hash (hash_key o).

(** ** The methods and the operators, parametrised by the field comparison of
    [Operation.__eq__] so that the repaired and the current code share
    everything else. *)
Section WithOperationEq.
  Variable opeq : oper -> oper -> bool.

  (** [ScheduledOperation.__eq__] past its [isinstance] test:
      [self.operation == value.operation and self.start_time == value.start_time
       and self.machine_id == value.machine_id]. *)
  Definition sop_eq_fields (a b : soper) : bool :=
    opeq (so_op a) (so_op b) && (so_start a =? so_start b) && (so_mach a =? so_mach b).

  (** [Schedule.__eq__]: [self.schedule == value.schedule] (list of lists). *)
  Definition schedule_eq_fields (a b : schd) : bool :=
    list_eqb (list_eqb sop_eq_fields) (sc_rows a) (sc_rows b).

  (** [JobShopInstance.__eq__]: [self.jobs == other.jobs]. *)
  Definition instance_eq_fields (a b : inst) : bool :=
    list_eqb (list_eqb opeq) (i_jobs a) (i_jobs b).

  (** [self.__eq__(value)]. The library's methods answer [False] (not
      [NotImplemented]) to a value of another class. A builtin answers
      [NotImplemented] to a value that is not of its own type. *)
  Definition method_eq (self value : pyobj) : pyres :=
    match self with
    | OOp a => match value with OOp b => of_bool (opeq a b) | _ => RF end
    | OSop a => match value with OSop b => of_bool (sop_eq_fields a b) | _ => RF end
    | OSched a => match value with OSched b => of_bool (schedule_eq_fields a b) | _ => RF end
    | OInst a => match value with OInst b => of_bool (instance_eq_fields a b) | _ => RF end
    | OForeign t z =>
        match value with
        | OForeign t' z' => if t =? t' then of_bool (z =? z') else RNI
        | _ => RNI
        end
    end.

  (** [object.__ne__]: the inverse of [__eq__] unless that is [NotImplemented]. *)
  Definition method_ne (self value : pyobj) : pyres :=
    match method_eq self value with RT => RF | RF => RT | RNI => RNI end.

  (** [a == b]: [a.__eq__(b)], then the reflected [b.__eq__(a)], then
      identity — and two separately built objects are not identical. *)
  Definition py_eq_with (a b : pyobj) : bool :=
    match method_eq a b with
    | RT => true
    | RF => false
    | RNI => match method_eq b a with RT => true | RF => false | RNI => false end
    end.

  (** [a != b]: [a.__ne__(b)], then [b.__ne__(a)], then "not identical". *)
  Definition py_ne_with (a b : pyobj) : bool :=
    match method_ne a b with
    | RT => true
    | RF => false
    | RNI => match method_ne b a with RT => true | RF => false | RNI => true end
    end.
End WithOperationEq.

(** The repaired library. *)
Definition op_eq : oper -> oper -> bool := operation_eq_fields.
Definition sop_eq : soper -> soper -> bool := sop_eq_fields op_eq.
Definition schedule_eq : schd -> schd -> bool := schedule_eq_fields op_eq.
Definition instance_eq : inst -> inst -> bool := instance_eq_fields op_eq.
Definition py_eq : pyobj -> pyobj -> bool := py_eq_with op_eq.
Definition py_ne : pyobj -> pyobj -> bool := py_ne_with op_eq.

(** The current library. *)
Definition py_eq_unrepaired : pyobj -> pyobj -> bool := py_eq_with operation_eq_unrepaired.

(** ** Construction, as far as it decides what the objects hold *)

(** [JobShopInstance.set_operation_attributes]: job id, position, running id. *)
Fixpoint set_attrs_job (j p id : Z) (job : list oper) : list oper * Z :=
  match job with
  | [] => ([], id)
  | o :: t =>
      let r := set_attrs_job j (p + 1) (id + 1) t in
      (mkoper (o_machines o) (o_duration o) j p id :: fst r, snd r)
  end.
Fixpoint set_attrs_from (j id : Z) (jobs : list (list oper)) : list (list oper) :=
  match jobs with
  | [] => []
  | job :: t =>
      let r := set_attrs_job j 0 id job in
      fst r :: set_attrs_from (j + 1) (snd r) t
  end.
Definition set_operation_attributes (jobs : list (list oper)) : list (list oper) :=
  set_attrs_from 0 0 jobs.

(** [JobShopInstance(jobs, name, set_operation_attributes=flag, **metadata)]. *)
Definition build_instance (jobs : list (list oper)) (name : list Z) (meta : Z)
           (set_attrs : bool) : inst :=
  mkinst (if set_attrs then set_operation_attributes jobs else jobs) name meta.

Definition dummy_oper : oper := mkoper [] 0 (-1) (-1) (-1).
Definition inst_op (i : inst) (j p : nat) : oper := nth p (nth j (i_jobs i) []) dummy_oper.
