(** CmdC18.v — command table of the model runner for property C18
    (commands 1800 .. 1899 of [run_cmd]; local number = c mod 100). *)
From JSL Require Import Base.

Definition run_c18 (c : Z) (v : val) : val :=
  match c with
  | _ => VL []
  end.
