(** CmdC18.v — command table of the model runner for property C18
    (commands 1800 .. 1899 of [run_cmd]; local number = c mod 100).

    ftype    = 0 operations | 1 machines | 2 jobs
    focfg    = [kind; feature_types?]          ([] = None, [[t ...]] = given)
    config   = [focfgs; reward; updater; filter; render_mode; render_cfg; padding]
    space    = [nodes; edges; [[t; rows; cols] ...]]
    obs      = [] (the call raised) | [mask; edge_index; [[t; matrix] ...]; in declared space?]
    params   = as in CmdC19 *)
From JSL Require Import Base Instance Dstate Graph Generator EnvSpaces CmdC19.

Definition dec_ftype (v : val) : ftype :=
  match asN v with 0%nat => FOps | 1%nat => FMachines | _ => FJobs end.
Definition enc_ftype (t : ftype) : val := vnat (ftype_code t).
Definition dec_focfg (v : val) : focfg := mkfo (asN (vnth v 0)) (asOpt (asLof dec_ftype) (vnth v 1)).
Definition enc_focfg (c : focfg) : val := VL [vnat (fo_kind c); vopt (vlist enc_ftype) (fo_req c)].
Definition dec_config (v : val) : config :=
  mkcfg (asLof dec_focfg (vnth v 0)) (asZ (vnth v 1)) (asLof asZ (vnth v 2)) (asLof asZ (vnth v 3))
        (asZ (vnth v 4)) (asZ (vnth v 5)) (asB (vnth v 6)).
Definition enc_config (c : config) : val :=
  VL [vlist enc_focfg (c_feats c); VI (c_reward c); vlist VI (c_updater c); vlist VI (c_filter c);
      VI (c_render_mode c); VI (c_render_cfg c); vbool (c_padding c)].
Definition enc_space (s : ospace) : val :=
  VL [vnat (sp_nodes s); vnat (sp_edges s);
      vlist (fun x => VL [enc_ftype (fst x); vnat (fst (snd x)); vnat (snd (snd x))]) (sp_feats s)].
Definition enc_matrix (m : list (list Z)) : val := vlist (vlist VI) m.
Definition dec_matrix (v : val) : list (list Z) := asLof (asLof asZ) v.
Definition enc_feats (fs : list (ftype * list (list Z))) : val :=
  vlist (fun x => VL [enc_ftype (fst x); enc_matrix (snd x)]) fs.
Definition dec_feats (v : val) : list (ftype * list (list Z)) :=
  asLof (fun x => (dec_ftype (vnth x 0), dec_matrix (vnth x 1))) v.
Definition enc_obs (sp : ospace) (o : option (obsv Z)) : val :=
  match o with
  | None => VL []
  | Some x => VL [vlist vbool (ob_removed x); enc_matrix (ob_edge x); enc_feats (ob_feats x);
                  vbool (obs_contains sp x)]
  end.

(** 1: the action space. [I; jnext; probes; nvec?] ([nvec] given: the declared
    space of the multi environment; otherwise the instance's own) ->
    [nvec; start; legal decisions; each legal decision contained?; each probe contained?] *)
Definition cmd_action (v : val) : val :=
  let I := dec_instance (vnth v 0) in
  let d := mkd [] (asLof asN (vnth v 1)) [] [] in
  let legal := legal_decisions I d in
  let nvec := match asOpt (asLof asZ) (vnth v 3) with Some n => n | None => action_nvec I end in
  VL [vlist VI nvec; vlist VI action_start; vlist (vlist VI) legal;
      vlist (fun a => vbool (action_contains nvec a)) legal;
      vlist (fun a => vbool (action_contains nvec (asLof asZ a))) (asL (vnth v 2))].

(** The observations of one episode of an inner environment: reset, then one
    per step; a step = [remove_node calls; composite features]. *)
Fixpoint episode_obs (observe : inner -> list (ftype * list (list Z)) -> option (obsv Z))
         (sp : ospace) (e : inner) (steps : list val) : list val :=
  match steps with
  | [] => []
  | s :: t =>
      let e' := inner_removes e (asLof asN (vnth s 0)) in
      enc_obs sp (observe e' (dec_feats (vnth s 1))) :: episode_obs observe sp e' t
  end.

(** 2: the single environment. [I; builder; config; episodes], episode = list of
    [removes; features] (the first entry is the reset: no removes) ->
    [built?; space; action nvec; observations per episode] *)
Definition cmd_single (v : val) : val :=
  let I := dec_instance (vnth v 0) in
  match build_inner (asN (vnth v 1)) (dec_config (vnth v 2)) I with
  | None => VL [vbool false]
  | Some e =>
      VL [vbool true; enc_space (i_space e); vlist VI (i_anvec e);
          vlist (fun ep => VL (episode_obs inner_observe (i_space e) (inner_reset e) (asL ep)))
                (asL (vnth v 3))]
  end.

(** 3: the multi environment on the instances the real generator produced
    (replayed through the generator model on the streams that spell them
    out). [params; builder; config; max-size instance; episodes], episode =
    [instance; list of [removes; inner features]] ->
    [constructed? (0 | 1); declared space; declared action nvec; per episode
     [reset ok?; inner config; inner space; inner action nvec; inner sizes fit?; observations]] *)
Fixpoint list_eqb {A : Type} (eqb : A -> A -> bool) (a b : list A) : bool :=
  match a, b with
  | [], [] => true
  | x :: a', y :: b' => eqb x y && list_eqb eqb a' b'
  | _, _ => false
  end.
Definition op_eqb (a b : op) : bool :=
  list_eqb Nat.eqb (machines a) (machines b) && (duration a =? duration b).
Definition instance_eqb (a b : instance) : bool := list_eqb (list_eqb op_eqb) a b.

(** the generator model, run on a stream, produced exactly [I] *)
Definition gen_exact (r : res ginst) (I : instance) : option gst :=
  match r with
  | Ok x g => if instance_eqb (snd x) I then Some g else None
  | _ => None
  end.

Definition multi_episode (p : params) (m : menv) (g : gst) (ep : val) : val * menv * gst :=
  let I := dec_instance (vnth ep 0) in
  match multi_reset true m (set_rng g (encode p I)) with
  | Ok (Some m') g' =>
      if instance_eqb (g_inst (i_graph0 (m_inner m'))) I then
        let e := m_inner m' in
        (VL [vbool true; enc_config (i_cfg e); enc_space (i_space e); vlist VI (i_anvec e);
             vbool (space_fits (i_space e) (m_space m'));
             VL (episode_obs (fun e' fs => multi_observe (-1) (set_inner m' e') fs)
                             (m_space m') e (asL (vnth ep 1)))],
         m', g')
      else (VL [vbool false], m, g)
  | _ => (VL [vbool false], m, g)
  end.

Fixpoint multi_episodes (p : params) (m : menv) (g : gst) (eps : list val) : list val :=
  match eps with
  | [] => []
  | ep :: t => let r := multi_episode p m g ep in
               fst (fst r) :: multi_episodes p (snd (fst r)) (snd r) t
  end.

Definition cmd_multi (v : val) : val :=
  let p := dec_params (vnth v 0) in
  let Imax := dec_instance (vnth v 3) in
  match multi_init p (asN (vnth v 1)) (dec_config (vnth v 2)) (fresh (skipn 2 (encode p Imax))) with
  | Ok (Some m) g =>
      if instance_eqb (g_inst (i_graph0 (m_inner m))) Imax then
        VL [VI 1; enc_space (m_space m); vlist VI (m_anvec m);
            VL (multi_episodes p m g (asL (vnth v 4)))]
      else VL [VI 0]
  | _ => VL [VI 0]
  end.

(** 4: add_padding on its own. list of [1; fill; n; vector] | [2; fill; r; c; matrix] ->
    [] (raised) | [result] *)
Definition cmd_padding (v : val) : val :=
  vlist (fun c =>
    match asZ (vnth c 0) with
    | 1 => vopt (vlist VI) (pad1 (asZ (vnth c 1)) (asN (vnth c 2)) (asLof asZ (vnth c 3)))
    | _ => vopt enc_matrix (pad2 (asZ (vnth c 1)) (asN (vnth c 2)) (asN (vnth c 3)) (dec_matrix (vnth c 4)))
    end) (asL v).

(** 5: the oracle: list of [space; mask; edge index; features] (an observation
    of the IMPLEMENTATION) -> is it in that declared space? *)
Definition dec_space (v : val) : ospace :=
  mkspace (asN (vnth v 0)) (asN (vnth v 1))
          (asLof (fun x => (dec_ftype (vnth x 0), (asN (vnth x 1), asN (vnth x 2)))) (vnth v 2)).
Definition cmd_oracle (v : val) : val :=
  vlist (fun c => vbool (obs_contains (dec_space (vnth c 0))
                           (mkobs (asLof asB (vnth c 1)) (dec_matrix (vnth c 2)) (dec_feats (vnth c 3)))))
        (asL v).

Definition run_c18 (c : Z) (v : val) : val :=
  match c with
  | 1 => cmd_action v
  | 2 => cmd_single v
  | 3 => cmd_multi v
  | 4 => cmd_padding v
  | 5 => cmd_oracle v
  | _ => VL []
  end.
