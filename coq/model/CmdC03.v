(** CmdC03.v — command table of the model runner for property C03
    (commands 0300 .. 0399 of [run_cmd]; local number = c mod 100). *)
From JSL Require Import Base Instance Dstate Feasible CpSat CpSatSpec.

Definition sigma_of_list (l : list Z) : nat -> Z := fun i => nthZ l i.

(** 1: [[I1; ...; Ik]] -> the CpModelProto held by a solver object that ran
    [_initialize_model] on I1 .. Ik in this order (or the exception code of the
    last one). *)
Definition cmd_encode (v : val) : val :=
  let Is := asLof dec_instance (vnth v 0) in
  let step (acc : cpstate * option cp_exn) (I : instance) :=
    match initialize I (fst acc) with
    | inl st => (st, None)
    | inr e => (fst acc, Some e)
    end in
  let r := fold_left step Is (fresh_state, None) in
  match snd r with
  | Some e => VL [VI (cp_exn_code e)]
  | None => VL [VI 0; enc_model (st_model (fst r))]
  end.

(** 2 (repaired key) / 5 (start-only key): [I; status; values] ->
    [result of solve; satb values (cp_encode I); value of the objective] *)
Definition cmd_solve (kk : sortkey) (v : val) : val :=
  let I := dec_instance (vnth v 0) in
  let st := status_of_code (asZ (vnth v 1)) in
  let sigma := sigma_of_list (asLof asZ (vnth v 2)) in
  VL [enc_result (snd (solve_gen kk I fresh_state st sigma));
      vbool (satb sigma (cp_encode I));
      VI (objective sigma (cp_encode I))].

(** 3: [I; S] -> [feasible clauses ++ [complete]; makespan I S; lower_bound I;
    total_duration I; nonflex] *)
Definition cmd_judge (v : val) : val :=
  let I := dec_instance (vnth v 0) in
  let S := dec_sched (vnth v 1) in
  VL [VL (map vbool (feasible_clauses I S ++ [completeb I S]));
      VI (makespan I S); VI (lower_bound I); VI (total_duration I); vbool (nonflexb I)].

(** 4: [I] -> brute-force optimum over dispatch histories *)
Definition cmd_opt_bf (v : val) : val := vopt VI (opt_bf (dec_instance (vnth v 0))).

Definition run_c03 (c : Z) (v : val) : val :=
  match c with
  | 1 => cmd_encode v
  | 2 => cmd_solve KeyStartEnd v
  | 3 => cmd_judge v
  | 4 => cmd_opt_bf v
  | 5 => cmd_solve KeyStart v
  | _ => VL []
  end.
