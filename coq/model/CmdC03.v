(** CmdC03.v — command table of the model runner for property C03
    (commands 0300 .. 0399 of [run_cmd]; local number = c mod 100). *)
From JSL Require Import Base.

Definition run_c03 (c : Z) (v : val) : val :=
  match c with
  | _ => VL []
  end.
