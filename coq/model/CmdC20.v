(** CmdC20.v — command table of the model runner for property C20
    (commands 2000 .. 2099 of [run_cmd]; local number = c mod 100). *)
From JSL Require Import Base.

Definition run_c20 (c : Z) (v : val) : val :=
  match c with
  | _ => VL []
  end.
