(** CmdC20.v — command table of the model runner for property C20
    (commands 2000 .. 2099 of [run_cmd]; local number = c mod 100). *)
From JSL Require Import Base Instance Dstate Filters World Feasible Gantt GanttSpec Frames.

(** 1: [I; rows; requested xlim (option); number_of_x_ticks] -> the chart *)
Definition cmd_chart (v : val) : val :=
  let I := dec_instance (vnth v 0) in
  let S := dec_sched (vnth v 1) in
  enc_chart (plot_gantt_chart I S (asOpt asZ (vnth v 2)) (asZ (vnth v 3))).

(** 2: the property oracle on what the IMPLEMENTATION put on the axes:
    [I; rows; requested xlim; [bars; legend; [ylo; yhi]; yticks; xlim; xticks]]
    -> [drawable; bars; legend; y axis; x limit; x ticks] *)
Definition cmd_chart_oracle (v : val) : val :=
  let I := dec_instance (vnth v 0) in
  let S := dec_sched (vnth v 1) in
  let req := asOpt asZ (vnth v 2) in
  let o := vnth v 3 in
  let B := asLof dec_bar (vnth o 0) in
  let L := dec_legend (vnth o 1) in
  let yl := (asZ (vnth (vnth o 2) 0), asZ (vnth (vnth o 2) 1)) in
  let yt := asLof asZ (vnth o 3) in
  let xl := asZ (vnth o 4) in
  let xt := asLof asZ (vnth o 5) in
  VL (map vbool [drawableb I S; chart_barsb I S B; legend_okb S L; yaxis_okb (length S) yl yt;
                 xlim_okb I S req xl; xaxis_okb xl xt]).

Definition enc_frame (k : nat) (f : option frame) : val :=
  match f with
  | Some f => VL [vnat k; enc_sched (f_sched f); VI (f_xlim f)]
  | None => VL [vnat k]
  end.

(** 3: [I; history; ks] -> [error code (0 = none); number of files written;
    for k in ks: [k; rows; xlim] of the file named [frame_name k]] *)
Definition cmd_frames (v : val) : val :=
  let I := dec_instance (vnth v 0) in
  let h := asLof dec_sop (vnth v 1) in
  let ks := asLof asN (vnth v 2) in
  let '(d, e) := create_gantt_chart_frames I h in
  VL [VI (match e with Some x => exn_code x | None => 0 end); vnat (length d);
      VL (map (fun k => enc_frame k (dir_lookup d (frame_name k))) ks)].

(** 4: the specification of the same: [I; history; ks] -> for k in ks:
    [k; rows of history[:k]; makespan of the whole history] *)
Definition cmd_frames_spec (v : val) : val :=
  let I := dec_instance (vnth v 0) in
  let h := asLof dec_sop (vnth v 1) in
  let ks := asLof asN (vnth v 2) in
  let mk := makespan I (sched_of_history I h) in
  VL (map (fun k => enc_frame k (Some (mkframe (sched_of_history I (firstn k h)) mk))) ks).

(** 5: ks -> file names *)
Definition cmd_names (v : val) : val := vlist (fun k => enc_name (frame_name (asN k))) (asL v).

(** 6: directory listing -> read order of the repaired [_load_images] *)
Definition cmd_load_order (v : val) : val :=
  vopt (vlist enc_name) (load_order (asLof dec_name v)).

(** 7: directory listing -> read order of the unrepaired [_load_images] *)
Definition cmd_load_order_str (v : val) : val :=
  vlist enc_name (load_order_str (asLof dec_name v)).

(** 8: images [[h; w; rows]; ...] -> the images [_pad_to_common_shape] hands on *)
Definition cmd_pad (v : val) : val := vlist enc_image (pad_to_common_shape (asLof dec_image v)).

Definition run_c20 (c : Z) (v : val) : val :=
  match c with
  | 1 => cmd_chart v
  | 2 => cmd_chart_oracle v
  | 3 => cmd_frames v
  | 4 => cmd_frames_spec v
  | 5 => cmd_names v
  | 6 => cmd_load_order v
  | 7 => cmd_load_order_str v
  | 8 => cmd_pad v
  | _ => VL []
  end.
