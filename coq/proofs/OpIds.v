(** OpIds.v — the dense operation id: [all_keys I] enumerates the operations
    in id order, [op_id] is injective, ids are below [num_ops]; machine ids of
    operations are below [num_machines]. *)
From JSL Require Import Base Instance Dstate.
From Coq Require Import Lia.

Lemma get_op_cons_0 (job : list op) (r : instance) p : get_op (job :: r) 0 p = nth_error job p.
Proof. reflexivity. Qed.
Lemma get_op_cons_S (job : list op) (r : instance) k p : get_op (job :: r) (S k) p = get_op r k p.
Proof. reflexivity. Qed.
Lemma op_id_cons_0 (job : list op) (r : instance) p : op_id (job :: r) 0 p = p.
Proof. reflexivity. Qed.
Lemma op_id_cons_S (job : list op) (r : instance) k p :
  op_id (job :: r) (S k) p = (length job + op_id r k p)%nat.
Proof. unfold op_id. simpl. lia. Qed.
Lemma op_id_S I j p : op_id I j (S p) = S (op_id I j p).
Proof. unfold op_id. lia. Qed.
Lemma get_op_nil j p : get_op [] j p = None.
Proof. unfold get_op. destruct j; reflexivity. Qed.

Lemma nth_error_job_keys j (job : list op) u :
  nth_error (job_keys j job) u = if (u <? length job)%nat then Some (j, u) else None.
Proof.
  unfold job_keys. destruct (u <? length job)%nat eqn:E.
  - apply Nat.ltb_lt in E. rewrite nth_error_map.
    rewrite (nth_error_nth' (seq 0 (length job)) 0%nat) by (rewrite seq_length; exact E).
    rewrite seq_nth by exact E. reflexivity.
  - apply Nat.ltb_ge in E. apply nth_error_None. rewrite map_length, seq_length. exact E.
Qed.

Lemma length_job_keys j (job : list op) : length (job_keys j job) = length job.
Proof. unfold job_keys. rewrite map_length, seq_length. reflexivity. Qed.

Lemma all_keys_from_nth I : forall j0 u j p,
  nth_error (all_keys_from j0 I) u = Some (j, p) <->
  ((j0 <= j)%nat /\ (exists o, get_op I (j - j0) p = Some o) /\ u = op_id I (j - j0) p).
Proof.
  induction I as [|job r IH]; intros j0 u j p.
  - simpl. split.
    + destruct u; discriminate.
    + intros (_ & (o & Ho) & _). rewrite get_op_nil in Ho. discriminate.
  - cbn [all_keys_from]. destruct (Nat.lt_ge_cases u (length job)) as [Hlt|Hge].
    + rewrite nth_error_app1 by (rewrite length_job_keys; exact Hlt).
      rewrite nth_error_job_keys. apply Nat.ltb_lt in Hlt. rewrite Hlt. apply Nat.ltb_lt in Hlt.
      split.
      * intros H. inversion H; subst. replace (j - j)%nat with 0%nat by lia.
        rewrite get_op_cons_0, op_id_cons_0. split; [lia|]. split; [|reflexivity].
        destruct (nth_error job p) as [o|] eqn:E; [eauto|].
        apply nth_error_None in E. lia.
      * intros (Hle & (o & Ho) & Hu).
        destruct (j - j0)%nat as [|k] eqn:Ek.
        -- rewrite op_id_cons_0 in Hu. subst u. f_equal. f_equal. lia.
        -- rewrite op_id_cons_S in Hu. lia.
    + rewrite nth_error_app2 by (rewrite length_job_keys; exact Hge).
      rewrite length_job_keys. rewrite IH. split.
      * intros (Hle & (o & Ho) & Hu). split; [lia|].
        replace (j - j0)%nat with (S (j - S j0)) by lia.
        rewrite get_op_cons_S, op_id_cons_S. split; [eauto|lia].
      * intros (Hle & (o & Ho) & Hu).
        destruct (j - j0)%nat as [|k] eqn:Ek.
        -- rewrite get_op_cons_0 in Ho. rewrite op_id_cons_0 in Hu.
           assert (p < length job)%nat by (apply nth_error_Some; congruence). lia.
        -- rewrite get_op_cons_S in Ho. rewrite op_id_cons_S in Hu.
           replace (j - S j0)%nat with k by lia. split; [lia|]. split; [eauto|lia].
Qed.

(** The key lemma: position [u] of [all_keys I] holds [(j, p)] iff [(j, p)]
    is an operation and [u] is its id. *)
Lemma all_keys_nth I u j p :
  nth_error (all_keys I) u = Some (j, p) <-> ((exists o, get_op I j p = Some o) /\ u = op_id I j p).
Proof.
  unfold all_keys. rewrite all_keys_from_nth. rewrite Nat.sub_0_r. split.
  - intros (_ & H1 & H2). auto.
  - intros (H1 & H2). split; [lia|auto].
Qed.

Lemma length_all_keys_from I : forall j0, length (all_keys_from j0 I) = num_ops I.
Proof.
  unfold num_ops. induction I as [|job r IH]; intros j0; simpl; [reflexivity|].
  rewrite !app_length, length_job_keys, IH. reflexivity.
Qed.
Lemma length_all_keys I : length (all_keys I) = num_ops I.
Proof. apply length_all_keys_from. Qed.

Lemma op_id_lt I j p o : get_op I j p = Some o -> (op_id I j p < num_ops I)%nat.
Proof.
  intros H. rewrite <- length_all_keys. apply nth_error_Some.
  assert (E : nth_error (all_keys I) (op_id I j p) = Some (j, p)) by (apply all_keys_nth; eauto).
  congruence.
Qed.

Lemma op_id_inj I j p o j' p' o' :
  get_op I j p = Some o -> get_op I j' p' = Some o' -> op_id I j p = op_id I j' p' ->
  j = j' /\ p = p'.
Proof.
  intros H H' E.
  assert (E1 : nth_error (all_keys I) (op_id I j p) = Some (j, p)) by (apply all_keys_nth; eauto).
  assert (E2 : nth_error (all_keys I) (op_id I j p) = Some (j', p')) by (apply all_keys_nth; eauto).
  rewrite E1 in E2. inversion E2; auto.
Qed.

Lemma id_is_some_op I u : (u < num_ops I)%nat ->
  exists j p o, get_op I j p = Some o /\ u = op_id I j p.
Proof.
  intros H. rewrite <- length_all_keys in H.
  destruct (nth_error (all_keys I) u) as [[j p]|] eqn:E.
  - apply all_keys_nth in E. destruct E as ((o & Ho) & Hu). eauto.
  - apply nth_error_None in E. lia.
Qed.

Lemma In_all_keys I j p : In (j, p) (all_keys I) <-> exists o, get_op I j p = Some o.
Proof.
  split.
  - intros H. apply In_nth_error in H. destruct H as [u Hu]. apply all_keys_nth in Hu. tauto.
  - intros H. apply nth_error_In with (n := op_id I j p). apply all_keys_nth. auto.
Qed.

Lemma get_op_job_lt I j p o : get_op I j p = Some o -> (j < num_jobs I)%nat.
Proof.
  unfold get_op, num_jobs. destruct (nth_error I j) eqn:E; [|discriminate].
  intros _. apply nth_error_Some. congruence.
Qed.

Lemma get_op_pos_lt I j p o : get_op I j p = Some o -> (p < length (get_job I j))%nat.
Proof.
  unfold get_op, get_job. destruct (nth_error I j) as [job|] eqn:E; [|discriminate].
  intros H. rewrite (nth_error_nth _ _ _ E). apply nth_error_Some. congruence.
Qed.

Lemma get_op_of_pos_lt I j p : (p < length (get_job I j))%nat -> exists o, get_op I j p = Some o.
Proof.
  unfold get_op, get_job. intros H. destruct (nth_error I j) as [job|] eqn:E.
  - rewrite (nth_error_nth _ _ _ E) in H. apply nth_error_Some in H.
    destruct (nth_error job p) as [o|]; [eauto|congruence].
  - apply nth_error_None in E. rewrite nth_overflow in H by exact E. simpl in H. lia.
Qed.

Lemma get_op_In_job I j p o : get_op I j p = Some o -> In (get_job I j) I /\ In o (get_job I j).
Proof.
  unfold get_op, get_job. destruct (nth_error I j) as [job|] eqn:E; [|discriminate].
  intros H. rewrite (nth_error_nth _ _ _ E). split; eapply nth_error_In; eauto.
Qed.

Lemma fold_max_ge (l : list nat) x : In x l -> (x <= fold_right Nat.max 0 l)%nat.
Proof.
  induction l as [|y t IH]; simpl; [tauto|]. intros [->|H]; [lia|]. specialize (IH H). lia.
Qed.

Lemma machine_lt I j p o m : get_op I j p = Some o -> In m (machines o) -> (m < num_machines I)%nat.
Proof.
  intros Ho Hm. destruct (get_op_In_job _ _ _ _ Ho) as [Hj Hin].
  unfold num_machines.
  assert (H1 : (S m <= max_mach_op o)%nat).
  { unfold max_mach_op. apply fold_max_ge. apply in_map. exact Hm. }
  assert (H2 : (max_mach_op o <= fold_right Nat.max 0 (map max_mach_op (concat I)))%nat).
  { apply fold_max_ge. apply in_map. apply in_concat. eauto. }
  lia.
Qed.

Lemma kmachines_of I j p o : get_op I j p = Some o -> kmachines I (j, p) = machines o.
Proof. unfold kmachines, kop. simpl. intros ->. reflexivity. Qed.
Lemma kdur_of I j p o : get_op I j p = Some o -> kdur I (j, p) = duration o.
Proof. unfold kdur, kop. simpl. intros ->. reflexivity. Qed.
