(** CpSatLemmas.v — list facts, the enumeration of operations ([all_keys],
    [op_id]), the closed form of [cp_encode], and the insertion sort. *)
From JSL Require Import Base Instance Dstate Feasible ListFacts CpSat CpSatSpec.
From Coq Require Import Lia Permutation Sorted.

#[global] Arguments svar : simpl never.
#[global] Arguments evar : simpl never.
#[global] Arguments mkvar : simpl never.
#[global] Arguments kdur : simpl never.
#[global] Arguments kmach : simpl never.
#[global] Arguments total_duration : simpl never.

(** ** Generic list facts *)

Lemma NoDup_app_intro {A} (l1 l2 : list A) :
  NoDup l1 -> NoDup l2 -> (forall x, In x l1 -> ~ In x l2) -> NoDup (l1 ++ l2).
Proof.
  induction l1 as [|a t IH]; intros H1 H2 Hd; simpl; [exact H2|].
  inversion H1 as [|? ? Hna Hnt]; subst. constructor.
  - intros Hin. apply in_app_iff in Hin. destruct Hin as [Hin|Hin]; [contradiction|].
    apply (Hd a); [left; reflexivity|exact Hin].
  - apply IH; auto. intros x Hx. apply Hd. right; exact Hx.
Qed.

Lemma NoDup_map_inj {A B} (f : A -> B) (l : list A) :
  (forall x y, In x l -> In y l -> f x = f y -> x = y) -> NoDup l -> NoDup (map f l).
Proof.
  induction l as [|a t IH]; intros Hinj Hnd; simpl; [constructor|].
  inversion Hnd as [|? ? Hna Hnt]; subst. constructor.
  - intros Hin. apply in_map_iff in Hin. destruct Hin as (y & Hy & Hin).
    assert (y = a) by (apply Hinj; [right; exact Hin|left; reflexivity|exact Hy]). subst y. contradiction.
  - apply IH; [|exact Hnt]. intros x y Hx Hy. apply Hinj; right; assumption.
Qed.

Lemma NoDup_key_unique {A B} (f : A -> B) (l : list A) x y :
  NoDup (map f l) -> In x l -> In y l -> f x = f y -> x = y.
Proof.
  induction l as [|a t IH]; intros Hnd Hx Hy Hf; [destruct Hx|].
  simpl in Hnd. inversion Hnd as [|? ? Hna Hnt]; subst.
  destruct Hx as [->|Hx], Hy as [->|Hy]; auto.
  - exfalso. apply Hna. rewrite Hf. apply in_map; exact Hy.
  - exfalso. apply Hna. rewrite <- Hf. apply in_map; exact Hx.
Qed.

Lemma map_nth_error_seq {A} (l : list A) : map (nth_error l) (seq 0 (length l)) = map Some l.
Proof.
  induction l as [|a t IH]; simpl; [reflexivity|]. f_equal.
  rewrite <- seq_shift, map_map. simpl. exact IH.
Qed.

Lemma nth_error_seq n p : (p < n)%nat -> nth_error (seq 0 n) p = Some p.
Proof.
  intros H. rewrite (nth_error_nth' _ 0%nat) by (rewrite seq_length; exact H).
  rewrite seq_nth by exact H. reflexivity.
Qed.

Lemma sumZ_app l1 l2 : sumZ (l1 ++ l2) = sumZ l1 + sumZ l2.
Proof. induction l1 as [|a t IH]; simpl; [reflexivity|]. rewrite IH. lia. Qed.

Lemma le_fold_max (l : list nat) x : In x l -> (x <= fold_right Nat.max 0 l)%nat.
Proof. induction l as [|a t IH]; intros H; [destruct H|]. simpl. destruct H as [->|H]; [lia|]. specialize (IH H). lia. Qed.

Lemma maxZ0_ge l x : In x l -> x <= maxZ0 l.
Proof. unfold maxZ0. induction l as [|a t IH]; intros H; [destruct H|]. simpl. destruct H as [->|H]; [lia|]. specialize (IH H). lia. Qed.

Lemma maxZ0_nonneg l : 0 <= maxZ0 l.
Proof. unfold maxZ0. induction l as [|a t IH]; simpl; lia. Qed.

Lemma maxZ0_attained l : l <> [] -> (forall x, In x l -> 0 <= x) -> In (maxZ0 l) l.
Proof.
  unfold maxZ0. induction l as [|a t IH]; intros Hne Hnn; [congruence|]. simpl.
  destruct t as [|b t'].
  - simpl. left. specialize (Hnn a (or_introl eq_refl)). lia.
  - assert (Hin : In (fold_right Z.max 0 (b :: t')) (b :: t')).
    { apply IH; [discriminate|]. intros x Hx. apply Hnn. right; exact Hx. }
    destruct (Z.max_spec a (fold_right Z.max 0 (b :: t'))) as [[_ ->]|[_ ->]]; [right; exact Hin|left; reflexivity].
Qed.

Lemma maxZ0_eq l c : (forall x, In x l -> x <= c) -> In c l -> 0 <= c -> maxZ0 l = c.
Proof.
  intros Hle Hin H0. apply Z.le_antisymm; [|apply maxZ0_ge; exact Hin].
  unfold maxZ0. clear Hin. induction l as [|a t IH]; simpl; [exact H0|].
  apply Z.max_lub; [apply Hle; left; reflexivity|]. apply IH. intros x Hx. apply Hle. right; exact Hx.
Qed.

Lemma maxZ0_perm l l' : Permutation l l' -> maxZ0 l = maxZ0 l'.
Proof. unfold maxZ0. induction 1; simpl; lia. Qed.

Lemma Permutation_concat_map {A} (f : list A -> list A) (l : list (list A)) :
  (forall x, Permutation (f x) x) -> Permutation (concat (map f l)) (concat l).
Proof. intros H. induction l as [|a t IH]; simpl; [constructor|]. apply Permutation_app; [apply H|exact IH]. Qed.

Lemma filter_all {A} (f : A -> bool) (l : list A) : (forall x, In x l -> f x = true) -> filter f l = l.
Proof.
  induction l as [|a t IH]; intros H; simpl; [reflexivity|].
  rewrite (H a (or_introl eq_refl)). f_equal. apply IH. intros x Hx. apply H. right; exact Hx.
Qed.

(** Grouping by a key in [0, n) and concatenating the groups is a permutation. *)
Lemma filter_lt_split {A} (g : A -> nat) (n : nat) (L : list A) :
  Permutation (filter (fun k => (g k <? n)%nat) L ++ filter (fun k => (g k =? n)%nat) L)
              (filter (fun k => (g k <? S n)%nat) L).
Proof.
  induction L as [|a t IH]; simpl; [constructor|].
  destruct (Nat.ltb_spec (g a) n) as [H1|H1]; destruct (Nat.eqb_spec (g a) n) as [H2|H2];
    destruct (Nat.ltb_spec (g a) (S n)) as [H3|H3]; try lia; simpl.
  - constructor. exact IH.
  - rewrite <- Permutation_middle. constructor. exact IH.
  - exact IH.
Qed.

Lemma group_by_perm {A} (g : A -> nat) (n : nat) (L : list A) :
  Permutation (concat (map (fun m => filter (fun k => (g k =? m)%nat) L) (seq 0 n)))
              (filter (fun k => (g k <? n)%nat) L).
Proof.
  induction n as [|n IH].
  - simpl. induction L as [|a t IHL]; simpl; [constructor|exact IHL].
  - rewrite seq_S, map_app, concat_app. simpl. rewrite app_nil_r.
    rewrite <- filter_lt_split. apply Permutation_app; [exact IH|reflexivity].
Qed.

Lemma group_by_perm_all {A} (g : A -> nat) (n : nat) (L : list A) :
  (forall k, In k L -> (g k < n)%nat) ->
  Permutation (concat (map (fun m => filter (fun k => (g k =? m)%nat) L) (seq 0 n))) L.
Proof.
  intros H. rewrite group_by_perm. rewrite filter_all; [reflexivity|].
  intros x Hx. apply Nat.ltb_lt. apply H; exact Hx.
Qed.

(** Symmetric relations over all ordered pairs. *)
Lemma FOP_map_In {A B} (R : B -> B -> Prop) (f : A -> B) (l : list A) a b :
  ForallOrdPairs R (map f l) -> NoDup l -> In a l -> In b l -> a <> b -> R (f a) (f b) \/ R (f b) (f a).
Proof.
  induction l as [|x t IH]; intros Hf Hnd Ha Hb Hne; [destruct Ha|].
  simpl in Hf. inversion Hf as [|? ? Hall Hrest]; subst.
  inversion Hnd as [|? ? Hnx Hnt]; subst. rewrite Forall_forall in Hall.
  destruct Ha as [->|Ha], Hb as [->|Hb].
  - congruence.
  - left. apply Hall. apply in_map; exact Hb.
  - right. apply Hall. apply in_map; exact Ha.
  - apply IH; assumption.
Qed.

Lemma FOP_map_intro {A B} (R : B -> B -> Prop) (f : A -> B) (l : list A) :
  NoDup l -> (forall a b, In a l -> In b l -> a <> b -> R (f a) (f b)) -> ForallOrdPairs R (map f l).
Proof.
  induction l as [|x t IH]; intros Hnd H; simpl; [constructor|].
  inversion Hnd as [|? ? Hnx Hnt]; subst. constructor.
  - apply Forall_forall. intros y Hy. apply in_map_iff in Hy. destruct Hy as (b & <- & Hb).
    apply H; [left; reflexivity|right; exact Hb|]. intros ->. contradiction.
  - apply IH; [exact Hnt|]. intros a b Ha Hb. apply H; right; assumption.
Qed.

(** ** The enumeration of operations *)

Lemma get_op_cons_0 job (t : instance) p : get_op (job :: t) 0 p = nth_error job p.
Proof. reflexivity. Qed.
Lemma get_op_cons_S job (t : instance) j p : get_op (job :: t) (S j) p = get_op t j p.
Proof. reflexivity. Qed.

Lemma job_keys_length j (job : list op) : length (job_keys j job) = length job.
Proof. unfold job_keys. rewrite map_length, seq_length. reflexivity. Qed.

Lemma all_keys_from_kop (I0 : instance) j0 (I' : instance) :
  (forall j p, get_op I0 (j0 + j) p = get_op I' j p) ->
  map (kop I0) (all_keys_from j0 I') = map Some (concat I').
Proof.
  revert j0. induction I' as [|job t IH]; intros j0 H; simpl; [reflexivity|].
  rewrite !map_app. f_equal.
  - unfold job_keys. rewrite map_map. rewrite <- map_nth_error_seq. apply map_ext.
    intros p. unfold kop. simpl. specialize (H 0%nat p). rewrite Nat.add_0_r in H. rewrite H. reflexivity.
  - apply IH. intros j p. specialize (H (S j) p). rewrite get_op_cons_S in H.
    replace (S j0 + j)%nat with (j0 + S j)%nat by lia. exact H.
Qed.

Lemma all_keys_kop I : map (kop I) (all_keys I) = map Some (concat I).
Proof. apply all_keys_from_kop. intros j p. reflexivity. Qed.

Lemma all_keys_length I : length (all_keys I) = num_ops I.
Proof.
  unfold num_ops. rewrite <- (map_length (kop I)), all_keys_kop, map_length. reflexivity.
Qed.

Lemma all_keys_In_kop I k : In k (all_keys I) -> exists o, kop I k = Some o /\ In o (concat I).
Proof.
  intros H. apply (in_map (kop I)) in H. rewrite all_keys_kop in H.
  apply in_map_iff in H. destruct H as (o & Ho & Hin). exists o. split; [symmetry; exact Ho|exact Hin].
Qed.

Lemma all_keys_from_In j0 (I' : instance) j p o :
  get_op I' j p = Some o -> In ((j0 + j)%nat, p) (all_keys_from j0 I').
Proof.
  revert j0 j. induction I' as [|job t IH]; intros j0 j H.
  - unfold get_op in H. destruct j; discriminate.
  - simpl. apply in_app_iff. destruct j as [|j].
    + left. rewrite get_op_cons_0 in H. unfold job_keys. apply in_map_iff. exists p.
      rewrite Nat.add_0_r. split; [reflexivity|]. apply in_seq.
      assert (p < length job)%nat by (apply nth_error_Some; congruence). lia.
    + right. rewrite get_op_cons_S in H. replace (j0 + S j)%nat with (S j0 + j)%nat by lia.
      apply IH; exact H.
Qed.

Lemma all_keys_In I j p o : get_op I j p = Some o -> In (j, p) (all_keys I).
Proof. intros H. apply (all_keys_from_In 0) in H. exact H. Qed.

Lemma all_keys_In_iff I k : In k (all_keys I) <-> exists o, kop I k = Some o.
Proof.
  split.
  - intros H. destruct (all_keys_In_kop I k H) as (o & Ho & _). eauto.
  - intros [o Ho]. destruct k as [j p]. eapply all_keys_In. exact Ho.
Qed.

Lemma all_keys_from_ge j0 (I' : instance) k : In k (all_keys_from j0 I') -> (j0 <= fst k)%nat.
Proof.
  revert j0. induction I' as [|job t IH]; intros j0 H; [destruct H|].
  simpl in H. apply in_app_iff in H. destruct H as [H|H].
  - unfold job_keys in H. apply in_map_iff in H. destruct H as (p & <- & _). simpl. lia.
  - apply IH in H. lia.
Qed.

Lemma all_keys_from_NoDup j0 (I' : instance) : NoDup (all_keys_from j0 I').
Proof.
  revert j0. induction I' as [|job t IH]; intros j0; simpl; [constructor|].
  apply NoDup_app_intro; [| apply IH |].
  - unfold job_keys. apply NoDup_map_inj; [|apply seq_NoDup].
    intros x y _ _ H. inversion H; reflexivity.
  - intros k Hk Hk'. apply all_keys_from_ge in Hk'.
    unfold job_keys in Hk. apply in_map_iff in Hk. destruct Hk as (p & <- & _). simpl in Hk'. lia.
Qed.

Lemma all_keys_NoDup I : NoDup (all_keys I).
Proof. apply all_keys_from_NoDup. Qed.

Lemma all_keys_from_nth j0 (I' : instance) j p o :
  get_op I' j p = Some o ->
  nth_error (all_keys_from j0 I') (sumN (map (@length op) (firstn j I')) + p) = Some ((j0 + j)%nat, p).
Proof.
  revert j0 j. induction I' as [|job t IH]; intros j0 j H.
  - unfold get_op in H. destruct j; discriminate.
  - destruct j as [|j].
    + rewrite get_op_cons_0 in H. simpl.
      assert (Hp : (p < length job)%nat) by (apply nth_error_Some; congruence).
      rewrite nth_error_app1 by (rewrite job_keys_length; exact Hp).
      unfold job_keys. rewrite Nat.add_0_r.
      apply (map_nth_error (fun q => (j0, q))). apply nth_error_seq; exact Hp.
    + rewrite get_op_cons_S in H. simpl.
      rewrite nth_error_app2 by (rewrite job_keys_length; lia).
      rewrite job_keys_length.
      replace (length job + sumN (map (@length op) (firstn j t)) + p - length job)%nat
        with (sumN (map (@length op) (firstn j t)) + p)%nat by lia.
      replace (j0 + S j)%nat with (S j0 + j)%nat by lia. apply IH; exact H.
Qed.

Lemma op_id_nth I k : In k (all_keys I) -> nth_error (all_keys I) (op_id I (fst k) (snd k)) = Some k.
Proof.
  intros H. apply all_keys_In_iff in H. destruct H as [o Ho]. destruct k as [j p].
  unfold kop in Ho. simpl in *. apply (all_keys_from_nth 0) in Ho. exact Ho.
Qed.

Lemma op_id_lt I k : In k (all_keys I) -> (op_id I (fst k) (snd k) < num_ops I)%nat.
Proof.
  intros H. rewrite <- all_keys_length. apply nth_error_Some. rewrite (op_id_nth I k H). discriminate.
Qed.

Lemma op_id_inj I k1 k2 :
  In k1 (all_keys I) -> In k2 (all_keys I) ->
  op_id I (fst k1) (snd k1) = op_id I (fst k2) (snd k2) -> k1 = k2.
Proof.
  intros H1 H2 E. apply op_id_nth in H1. apply op_id_nth in H2. rewrite E in H1. congruence.
Qed.

Lemma all_keys_pred I j p : In (j, S p) (all_keys I) -> In (j, p) (all_keys I).
Proof.
  intros H. apply all_keys_In_iff in H. destruct H as [o Ho]. unfold kop, get_op in Ho. cbn [fst snd] in Ho.
  destruct (nth_error I j) as [job|] eqn:Ej; [|discriminate].
  assert (Hlt : (S p < length job)%nat) by (apply nth_error_Some; rewrite Ho; discriminate).
  destruct (nth_error job p) as [o'|] eqn:Ep.
  - apply (all_keys_In I j p o'). unfold get_op. rewrite Ej. exact Ep.
  - apply nth_error_None in Ep. lia.
Qed.

Lemma all_keys_below I j p q : In (j, q) (all_keys I) -> (p <= q)%nat -> In (j, p) (all_keys I).
Proof.
  intros H Hle. induction q as [|q IH].
  - replace p with 0%nat by lia. exact H.
  - destruct (Nat.eq_dec p (S q)) as [->|Hne]; [exact H|].
    apply IH; [apply all_keys_pred; exact H|lia].
Qed.

Lemma kdur_of_kop I k o : kop I k = Some o -> kdur I k = duration o.
Proof. unfold kdur. intros ->. reflexivity. Qed.

Lemma kdur_nonneg I k : valid I -> 0 <= kdur I k.
Proof.
  intros Hv. unfold kdur. destruct (kop I k) as [o|] eqn:E; [|lia].
  unfold kop in E. eapply Hv; eauto.
Qed.

Lemma sumZ_durations I : sumZ (map (kdur I) (all_keys I)) = total_duration I.
Proof.
  assert (E : map (kdur I) (all_keys I) = map duration (concat I)).
  { transitivity (map (fun ok => match ok with Some o => duration o | None => 0 end) (map (kop I) (all_keys I))).
    - rewrite map_map. reflexivity.
    - rewrite all_keys_kop, map_map. reflexivity. }
  rewrite E. unfold total_duration, job_durations. clear E.
  induction I as [|job t IH]; simpl; [reflexivity|]. rewrite map_app, sumZ_app, IH. reflexivity.
Qed.

(** Non-flexible instances: the machine of an operation. *)
Lemma kmach_spec I k o : nonflex I -> kop I k = Some o -> machines o = [kmach I k].
Proof.
  intros Hnf Ho. unfold kmach, kmachines. rewrite Ho. unfold kop in Ho.
  destruct (Hnf _ _ _ Ho) as [m Hm]. rewrite Hm. reflexivity.
Qed.

Lemma kmach_lt I k : nonflex I -> In k (all_keys I) -> (kmach I k < num_machines I)%nat.
Proof.
  intros Hnf Hk. destruct (all_keys_In_kop I k Hk) as (o & Ho & Hin).
  pose proof (kmach_spec I k o Hnf Ho) as Hm.
  unfold num_machines.
  assert (H : (max_mach_op o <= fold_right Nat.max 0 (map max_mach_op (concat I)))%nat).
  { apply le_fold_max. apply in_map; exact Hin. }
  unfold max_mach_op in H at 1. rewrite Hm in H. simpl in H. lia.
Qed.

Lemma keys_on_In I m k : In k (keys_on I m) <-> In k (all_keys I) /\ kmach I k = m.
Proof. unfold keys_on. rewrite filter_In, Nat.eqb_eq. reflexivity. Qed.

Lemma keys_on_NoDup I m : NoDup (keys_on I m).
Proof. unfold keys_on. apply NoDup_filter. apply all_keys_NoDup. Qed.

Lemma keys_on_perm I : nonflex I ->
  Permutation (concat (map (keys_on I) (seq 0 (num_machines I)))) (all_keys I).
Proof.
  intros Hnf. unfold keys_on. apply (group_by_perm_all (kmach I)).
  intros k Hk. apply kmach_lt; assumption.
Qed.

(** ** Closed form of the encoding *)

Lemma length_flat2 {A B} (a b : B) (l : list A) :
  length (flat_map (fun _ => [a; b]) l) = (2 * length l)%nat.
Proof. induction l as [|x t IH]; simpl; [reflexivity|]. rewrite IH. lia. Qed.

Definition lin_cstrs (I : instance) : list cstr :=
  map (fun k => CLin [(svar I k, -1); (evar I k, 1)] (Some (kdur I k)) (Some (kdur I k))) (all_keys I).

Lemma encode_vars I :
  cp_vars (cp_encode I) =
  flat_map (fun _ => [(0, total_duration I); (0, total_duration I)]) (all_keys I) ++ [(0, total_duration I)].
Proof. reflexivity. Qed.

(** [AddMaxEquality] is there only when there is an end time to take the
    maximum of. *)
Definition max_cstrs (I : instance) : list cstr :=
  match all_keys I with
  | [] => []
  | _ :: _ => [CLinMax (mkvar I) (map (evar I) (all_keys I))]
  end.

Lemma nil_dec {A} (l : list A) : {l = []} + {l <> []}.
Proof. destruct l as [|a t]; [left; reflexivity|right; discriminate]. Qed.

Lemma all_keys_nil_iff I : all_keys I = [] <-> num_ops I = 0%nat.
Proof. rewrite <- all_keys_length. split; [intros ->; reflexivity|apply length_zero_iff_nil]. Qed.

Lemma max_cstrs_nil I : all_keys I = [] -> max_cstrs I = [].
Proof. unfold max_cstrs. intros ->. reflexivity. Qed.

Lemma max_cstrs_cons I : all_keys I <> [] ->
  max_cstrs I = [CLinMax (mkvar I) (map (evar I) (all_keys I))].
Proof. unfold max_cstrs. destruct (all_keys I) as [|k t]; [congruence|reflexivity]. Qed.

Lemma encode_cstrs I :
  cp_cstrs (cp_encode I) =
  ((lin_cstrs I ++ prec_cstrs I) ++ mach_cstrs I) ++ max_cstrs I.
Proof.
  assert (Hmk : length (flat_map (fun _ : nat * nat => [(0, total_duration I); (0, total_duration I)])
                                 (all_keys I)) = mkvar I).
  { unfold mkvar. rewrite length_flat2, all_keys_length. reflexivity. }
  unfold cp_encode, build, set_objective, add_machine_constraints, add_job_constraints,
    create_variables, reset_model, fresh_state, lin_cstrs, max_cstrs. simpl.
  f_equal. destruct (all_keys I) as [|k t]; [reflexivity|]. rewrite Hmk. reflexivity.
Qed.

Lemma encode_obj I : cp_obj (cp_encode I) = Some (mkvar I).
Proof.
  unfold cp_encode, build, set_objective, add_machine_constraints, add_job_constraints,
    create_variables, reset_model, fresh_state, mkvar. simpl.
  rewrite length_flat2, all_keys_length. reflexivity.
Qed.

Lemma encode_vars_length I : length (cp_vars (cp_encode I)) = S (2 * num_ops I).
Proof. rewrite encode_vars, app_length, length_flat2, all_keys_length. simpl. lia. Qed.

Lemma encode_vars_all I d : In d (cp_vars (cp_encode I)) -> d = (0, total_duration I).
Proof.
  rewrite encode_vars. intros H. apply in_app_iff in H. destruct H as [H|[H|[]]]; [|auto].
  apply in_flat_map in H. destruct H as (_ & _ & [H|[H|[]]]); auto.
Qed.

(** No memory: the model after [_initialize_model] never depends on the
    state the solver object was in. *)
Lemma build_no_memory I st st' : st_model (build I st) = st_model (build I st') /\
                                 st_keys (build I st) = st_keys (build I st') /\
                                 st_mk (build I st) = st_mk (build I st').
Proof. repeat split; reflexivity. Qed.

(** The constraints, said directly. *)
Record satd (I : instance) (sigma : assignment) : Prop := {
  sd_end : forall k, In k (all_keys I) -> sigma (evar I k) = sigma (svar I k) + kdur I k;
  sd_prec : forall j p, In (j, S p) (all_keys I) -> sigma (evar I (j, p)) <= sigma (svar I (j, S p));
  sd_noov : forall m, (m < num_machines I)%nat ->
            ForallOrdPairs (disjoint sigma) (map (iv I) (keys_on I m));
  sd_max_le : forall k, In k (all_keys I) -> sigma (evar I k) <= sigma (mkvar I);
  sd_max_ex : all_keys I <> [] -> exists k, In k (all_keys I) /\ sigma (mkvar I) = sigma (evar I k)
}.

Lemma sat_cstrs_iff I sigma : Forall (sat_cstr sigma) (cp_cstrs (cp_encode I)) <-> satd I sigma.
Proof.
  rewrite encode_cstrs, !Forall_app. split.
  - intros [[[Hlin Hprec] Hmach] Hmax]. rewrite Forall_forall in Hlin, Hprec, Hmach.
    assert (Hm : (forall k, In k (all_keys I) -> sigma (evar I k) <= sigma (mkvar I)) /\
                 (all_keys I <> [] -> exists k, In k (all_keys I) /\ sigma (mkvar I) = sigma (evar I k))).
    { destruct (nil_dec (all_keys I)) as [Hnil|Hne].
      - split; [intros k Hk; rewrite Hnil in Hk; destruct Hk|intros Hne; congruence].
      - rewrite (max_cstrs_cons I Hne) in Hmax. inversion Hmax as [|? ? Hm _]; subst.
        simpl in Hm. destruct Hm as [Hle Hex]. split.
        + intros k Hk. apply Hle. apply in_map; exact Hk.
        + intros _. destruct Hex as (e & He & Heq). apply in_map_iff in He.
          destruct He as (k & <- & Hk). eauto. }
    destruct Hm as [Hle Hex].
    constructor.
    + intros k Hk. specialize (Hlin _ (in_map _ _ _ Hk)). cbn [sat_cstr ev map sumZ fold_right fst snd] in Hlin. lia.
    + intros j p Hk.
      assert (Hin : In (CLin [(evar I (j, p), 1); (svar I (j, S p), -1)] None (Some 0)) (prec_cstrs I)).
      { unfold prec_cstrs. apply in_flat_map. exists (j, S p). split; [exact Hk|]. simpl. left; reflexivity. }
      specialize (Hprec _ Hin). cbn [sat_cstr ev map sumZ fold_right fst snd] in Hprec. lia.
    + intros m Hm.
      assert (Hin : In (CNoOverlap (map (iv I) (keys_on I m))) (mach_cstrs I)).
      { unfold mach_cstrs. apply in_flat_map. exists m. split; [apply in_seq; lia|].
        apply in_app_iff. right. left; reflexivity. }
      apply (Hmach _ Hin).
    + exact Hle.
    + exact Hex.
  - intros [Hend Hprec Hnoov Hle Hex]. repeat split.
    + apply Forall_forall. intros c Hc. unfold lin_cstrs in Hc. apply in_map_iff in Hc.
      destruct Hc as (k & <- & Hk). cbn [sat_cstr ev map sumZ fold_right fst snd]. specialize (Hend k Hk). lia.
    + apply Forall_forall. intros c Hc. unfold prec_cstrs in Hc. apply in_flat_map in Hc.
      destruct Hc as ([j q] & Hk & Hc). simpl in Hc. destruct q as [|p]; [destruct Hc|].
      destruct Hc as [<-|[]]. cbn [sat_cstr ev map sumZ fold_right fst snd]. specialize (Hprec j p Hk). lia.
    + apply Forall_forall. intros c Hc. unfold mach_cstrs in Hc. apply in_flat_map in Hc.
      destruct Hc as (m & Hm & Hc). apply in_seq in Hm. apply in_app_iff in Hc. destruct Hc as [Hc|[<-|[]]].
      * apply in_map_iff in Hc. destruct Hc as (k & <- & Hk). simpl.
        apply keys_on_In in Hk. destruct Hk as [Hk _]. specialize (Hend k Hk). lia.
      * simpl. apply Hnoov. lia.
    + destruct (nil_dec (all_keys I)) as [Hnil|Hne]; [rewrite (max_cstrs_nil I Hnil); constructor|].
      rewrite (max_cstrs_cons I Hne). constructor; [|constructor]. simpl. split.
      * intros e He. apply in_map_iff in He. destruct He as (k & <- & Hk). apply Hle; exact Hk.
      * destruct (Hex Hne) as (k & Hk & Heq). exists (evar I k). split; [apply in_map; exact Hk|exact Heq].
Qed.

(** Domains of the variables that belong to operations. *)
Lemma sat_domain I sigma i :
  in_domains sigma (cp_vars (cp_encode I)) -> (i < S (2 * num_ops I))%nat ->
  0 <= sigma i <= total_duration I.
Proof.
  intros Hd Hi. rewrite <- encode_vars_length in Hi.
  destruct (nth_error (cp_vars (cp_encode I)) i) as [[lo hi]|] eqn:E.
  - pose proof (nth_error_In _ _ E) as Hin. apply encode_vars_all in Hin. inversion Hin; subst.
    apply (Hd i _ _ E).
  - apply nth_error_None in E. lia.
Qed.

Lemma sat_domain_svar I sigma k :
  in_domains sigma (cp_vars (cp_encode I)) -> In k (all_keys I) ->
  0 <= sigma (svar I k) <= total_duration I /\ 0 <= sigma (evar I k) <= total_duration I.
Proof.
  intros Hd Hk. pose proof (op_id_lt I k Hk) as Hlt.
  split; (apply sat_domain; [exact Hd|unfold evar, svar; lia]).
Qed.

Lemma sat_domain_mk I sigma :
  in_domains sigma (cp_vars (cp_encode I)) -> 0 <= sigma (mkvar I) <= total_duration I.
Proof. intros Hd. apply sat_domain; [exact Hd|unfold mkvar; lia]. Qed.

(** An instance without operations: the horizon is 0, so the makespan
    variable (which no constraint mentions) is 0. *)
Lemma total_duration_no_ops I : all_keys I = [] -> total_duration I = 0.
Proof. intros H. rewrite <- sumZ_durations, H. reflexivity. Qed.

Lemma sat_mk_no_ops I sigma :
  in_domains sigma (cp_vars (cp_encode I)) -> all_keys I = [] -> sigma (mkvar I) = 0.
Proof.
  intros Hd H. pose proof (sat_domain_mk I sigma Hd) as Hr.
  rewrite (total_duration_no_ops I H) in Hr. lia.
Qed.

(** ** Insertion sort *)

Lemma insert_by_perm {A} (le : A -> A -> bool) x l : Permutation (insert_by le x l) (x :: l).
Proof.
  induction l as [|y t IH]; simpl; [reflexivity|].
  destruct (le x y); [reflexivity|]. rewrite IH. apply perm_swap.
Qed.

Lemma sort_by_perm {A} (le : A -> A -> bool) l : Permutation (sort_by le l) l.
Proof.
  induction l as [|x t IH]; simpl; [constructor|].
  rewrite insert_by_perm. constructor. exact IH.
Qed.

Lemma insert_by_sorted {A} (le : A -> A -> bool) x l :
  (forall a b, le a b = false -> le b a = true) ->
  Sorted (fun a b => le a b = true) l -> Sorted (fun a b => le a b = true) (insert_by le x l).
Proof.
  intros Htot. induction l as [|a t IH]; intros Hs; simpl.
  - constructor; constructor.
  - destruct (le x a) eqn:E.
    + constructor; [exact Hs|constructor; exact E].
    + inversion Hs as [|? ? Hst Hhd]; subst. constructor; [apply IH; exact Hst|].
      destruct t as [|b t']; simpl.
      * constructor. apply Htot; exact E.
      * destruct (le x b); constructor; [apply Htot; exact E|].
        inversion Hhd; subst. assumption.
Qed.

Lemma sort_by_sorted {A} (le : A -> A -> bool) l :
  (forall a b, le a b = false -> le b a = true) ->
  Sorted (fun a b => le a b = true) (sort_by le l).
Proof.
  intros Htot. induction l as [|x t IH]; simpl; [constructor|].
  apply insert_by_sorted; assumption.
Qed.

Lemma key_le_total I kk a b : key_le I kk a b = false -> key_le I kk b a = true.
Proof.
  destruct kk; simpl.
  - intros H. apply Z.leb_gt in H. apply Z.leb_le. lia.
  - intros H. apply orb_false_iff in H. destruct H as [H1 H2].
    apply Z.ltb_ge in H1. apply andb_false_iff in H2.
    apply orb_true_iff.
    destruct (Z.eq_dec (s_start a) (s_start b)) as [E|Hne].
    + right. destruct H2 as [H2|H2]; [apply Z.eqb_neq in H2; congruence|].
      apply Z.leb_gt in H2. apply andb_true_iff. split; [apply Z.eqb_eq; congruence|apply Z.leb_le; lia].
    + left. apply Z.ltb_lt. lia.
Qed.
