(** ResidualObs.v — the observers the residual updater depends on
    (model/Residual.v, initialisation as repaired by 196fa58: the counts are
    taken from the dispatcher's own unscheduled operations):
    the counters of [IsCompletedObserver] count the UNSCHEDULED operations
    (of a machine: the operations that list it; of a job), and a flag is up
    exactly when that count reached zero on a machine / job that has at least
    one operation. Holds for every way the observers were created on the
    fresh dispatcher ([run_pre]) and is preserved by every dispatch. *)
From JSL Require Import Base Instance Dstate Filters World Observers Graph Feasible ListFacts
  DispatchFun Inv OpIds Partition GraphStages Residual.
From Coq Require Import Lia.

(** ** The list of unscheduled operations *)

Lemma In_unscheduled_from (I : instance) : forall j0 nx j p,
  In (j, p) (unscheduled_from I j0 nx) <->
  (j0 <= j /\ j - j0 < length I /\ j - j0 < length nx /\
   nth (j - j0) nx 0 <= p /\ p < length (nth (j - j0) I []))%nat.
Proof.
  induction I as [|job t IH]; intros j0 nx j p.
  - simpl. split; [tauto|]. intros (_ & H & _). simpl in H. lia.
  - destruct nx as [|q nx']; simpl.
    + split; [tauto|]. intros (_ & _ & H & _). simpl in H. lia.
    + rewrite in_app_iff, in_map_iff, IH. split.
      * intros [(r & E & Hr)|(H1 & H2 & H3 & H4 & H5)].
        -- inversion E; subst. apply in_seq in Hr. replace (j - j)%nat with 0%nat by lia. simpl. lia.
        -- replace (j - j0)%nat with (S (j - S j0)) by lia. simpl. lia.
      * intros (H1 & H2 & H3 & H4 & H5). destruct (Nat.eq_dec j j0) as [->|Hne].
        -- left. exists p. replace (j0 - j0)%nat with 0%nat in * by lia. simpl in *.
           split; [reflexivity|]. apply in_seq. lia.
        -- right. replace (j - j0)%nat with (S (j - S j0)) in * by lia. simpl in *. lia.
Qed.

Lemma In_unscheduled I d j p : Inv I d ->
  (In (j, p) (unscheduled_ops I d) <->
   (exists o, get_op I j p = Some o) /\ (nthN (jnext d) j <= p)%nat).
Proof.
  intros Hi. unfold unscheduled_ops. rewrite In_unscheduled_from, Nat.sub_0_r, (i_len_jn _ _ Hi).
  fold (get_job I j). unfold nthN. split.
  - intros (_ & H2 & _ & H4 & H5). split; [apply get_op_of_pos_lt; exact H5|exact H4].
  - intros ((o & Ho) & H). pose proof (get_op_job_lt _ _ _ _ Ho). pose proof (get_op_pos_lt _ _ _ _ Ho).
    unfold num_jobs in *. lia.
Qed.

Lemma unscheduled_step (I : instance) : forall j0 nx j p,
  (j < length I)%nat -> length nx = length I -> nth j nx 0%nat = p -> (p < length (nth j I []))%nat ->
  exists l1 l2, unscheduled_from I j0 nx = l1 ++ ((j0 + j)%nat, p) :: l2 /\
                unscheduled_from I j0 (upd nx j (S p)) = l1 ++ l2.
Proof.
  induction I as [|job t IH]; intros j0 nx j p Hj Hl Hn Hp; [simpl in Hj; lia|].
  destruct nx as [|q nx']; [discriminate|]. destruct j as [|j'].
  - simpl in Hn, Hp. subst q. simpl.
    exists [], (map (fun q => (j0, q)) (seq (S p) (length job - S p)) ++ unscheduled_from t (S j0) nx').
    rewrite Nat.add_0_r. split; [|reflexivity].
    replace (length job - p)%nat with (S (length job - S p)) by lia. reflexivity.
  - simpl in Hn, Hp, Hj, Hl.
    destruct (IH (S j0) nx' j' p ltac:(lia) ltac:(lia) Hn Hp) as (l1 & l2 & E1 & E2).
    exists (map (fun r => (j0, r)) (seq q (length job - q)) ++ l1), l2. simpl.
    rewrite E1, E2, <- !app_assoc. replace (j0 + S j')%nat with (S j0 + j')%nat by lia. split; reflexivity.
Qed.

Lemma unscheduled_init_from (I : instance) : forall j0,
  unscheduled_from I j0 (repeat 0%nat (length I)) = all_keys_from j0 I.
Proof.
  induction I as [|job t IH]; intros j0; simpl; [reflexivity|].
  rewrite IH, Nat.sub_0_r. reflexivity.
Qed.
Lemma unscheduled_init I : unscheduled_ops I (init_d I) = all_keys I.
Proof. apply unscheduled_init_from. Qed.

Lemma all_deques_concat_from (I : instance) : forall j0,
  concat (map (fun jj => job_keys (fst jj) (snd jj)) (combine (seq j0 (length I)) I)) = all_keys_from j0 I.
Proof. induction I as [|job t IH]; intros j0; simpl; [reflexivity|]. rewrite IH. reflexivity. Qed.
Lemma all_deques_concat I : concat (all_deques I) = all_keys I.
Proof. apply all_deques_concat_from. Qed.

Lemma unsched_construct_init I : unsched_construct I (init_d I) = all_deques I.
Proof. unfold unsched_construct, all_sops. simpl. rewrite concat_repeat_nil. reflexivity. Qed.

(** ** Counting *)

Definition cntM (I : instance) (d : dstate) (m : nat) : Z := count_keys (on_machine I m) (unscheduled_ops I d).
Definition cntJ (I : instance) (d : dstate) (j : nat) : Z := count_keys (in_job j) (unscheduled_ops I d).
Definition has_op_m (I : instance) (m : nat) : Prop := exists k, In k (all_keys I) /\ on_machine I m k = true.
Definition has_op_j (I : instance) (j : nat) : Prop := exists k, In k (all_keys I) /\ in_job j k = true.

Lemma count_keys_mid f l1 k l2 :
  count_keys f (l1 ++ k :: l2) = count_keys f (l1 ++ l2) + (if f k then 1 else 0).
Proof.
  unfold count_keys. rewrite !filter_app, !app_length. simpl. destruct (f k); simpl; lia.
Qed.

Lemma count_keys_zero f l : count_keys f l = 0 <-> forall k, In k l -> f k = false.
Proof.
  unfold count_keys. split.
  - intros H k Hk. destruct (f k) eqn:E; [|reflexivity].
    assert (Hin : In k (filter f l)) by (apply filter_In; auto).
    destruct (filter f l); [contradiction|simpl in H; lia].
  - intros H. rewrite (filter_all f l false H). reflexivity.
Qed.

Lemma count_keys_nonneg f l : 0 <= count_keys f l.
Proof. unfold count_keys. lia. Qed.

Lemma nth_map_seq0 {A} (f : nat -> A) n i dflt : (i < n)%nat -> nth i (map f (seq 0 n)) dflt = f i.
Proof.
  intros H. rewrite (nth_indep _ dflt (f 0%nat)) by (rewrite map_length, seq_length; exact H).
  rewrite map_nth, seq_nth by exact H. reflexivity.
Qed.

(** ** The invariant of the updater's IsCompletedObserver *)

Record ic_inv (I : instance) (d : dstate) (c : iscomp) : Prop := {
  ii_m : ic_m c = true ->
         length (ic_rem_m c) = num_machines I /\ length (ic_flag_m c) = num_machines I /\
         forall m, (m < num_machines I)%nat ->
           nthZ (ic_rem_m c) m = cntM I d m /\
           (nth m (ic_flag_m c) false = true <-> cntM I d m = 0 /\ has_op_m I m);
  ii_j : ic_j c = true ->
         length (ic_rem_j c) = num_jobs I /\ length (ic_flag_j c) = num_jobs I /\
         forall j, (j < num_jobs I)%nat ->
           nthZ (ic_rem_j c) j = cntJ I d j /\
           (nth j (ic_flag_j c) false = true <-> cntJ I d j = 0 /\ has_op_j I j)
}.

Definition CM (I : instance) : list Z :=
  map (fun m => count_keys (on_machine I m) (all_keys I)) (seq 0 (num_machines I)).
Definition CJ (I : instance) : list Z :=
  map (fun j => count_keys (in_job j) (all_keys I)) (seq 0 (num_jobs I)).

(** an IsCompletedObserver as it is right after its construction on the
    fresh dispatcher *)
Definition c_ok (I : instance) (c : iscomp) : Prop :=
  (ic_m c = true -> ic_rem_m c = CM I /\ ic_flag_m c = repeat false (num_machines I)) /\
  (ic_j c = true -> ic_rem_j c = CJ I /\ ic_flag_j c = repeat false (num_jobs I)).

Lemma ic_inv_init I c : c_ok I c -> ic_inv I (init_d I) c.
Proof.
  intros [Hm Hj]. constructor.
  - intros E. destruct (Hm E) as [-> ->]. unfold CM. rewrite map_length, seq_length, repeat_length.
    split; [reflexivity|]. split; [reflexivity|]. intros m Hlt. unfold nthZ, cntM.
    rewrite nth_map_seq0 by exact Hlt. rewrite unscheduled_init. split; [reflexivity|].
    rewrite nth_repeat by exact Hlt. split; [discriminate|].
    intros [H0 (k & Hk & Hon)]. exfalso. rewrite count_keys_zero in H0. rewrite (H0 k Hk) in Hon. discriminate.
  - intros E. destruct (Hj E) as [-> ->]. unfold CJ. rewrite map_length, seq_length, repeat_length.
    split; [reflexivity|]. split; [reflexivity|]. intros j Hlt. unfold nthZ, cntJ.
    rewrite nth_map_seq0 by exact Hlt. rewrite unscheduled_init. split; [reflexivity|].
    rewrite nth_repeat by exact Hlt. split; [discriminate|].
    intros [H0 (k & Hk & Hon)]. exfalso. rewrite count_keys_zero in H0. rewrite (H0 k Hk) in Hon. discriminate.
Qed.

Lemma ic_inv_step I d r x o row c :
  Inv I d -> accepted I d r x o row -> ic_inv I d c ->
  ic_inv I (apply_sop I d x row) (ic_update I x c).
Proof.
  intros Hi Ha [Hm Hj].
  assert (Hgo : get_op I (s_job x) (s_pos x) = Some o)
    by (rewrite (a_job _ _ _ _ _ _ Ha), (a_pos _ _ _ _ _ _ Ha); apply (a_op _ _ _ _ _ _ Ha)).
  assert (Hnext : nthN (jnext d) (s_job x) = s_pos x)
    by (rewrite (a_job _ _ _ _ _ _ Ha), (a_pos _ _ _ _ _ _ Ha); apply (a_next _ _ _ _ _ _ Ha)).
  pose proof (get_op_job_lt _ _ _ _ Hgo) as Hjlt. pose proof (get_op_pos_lt _ _ _ _ Hgo) as Hplt.
  assert (Hkey : In (key x) (all_keys I)) by (apply In_all_keys; eauto).
  destruct (unscheduled_step I 0 (jnext d) (s_job x) (s_pos x) Hjlt (i_len_jn _ _ Hi) Hnext Hplt)
    as (l1 & l2 & E1 & E2). simpl in E1.
  assert (EU : unscheduled_ops I d = l1 ++ key x :: l2) by exact E1.
  assert (EU' : unscheduled_ops I (apply_sop I d x row) = l1 ++ l2).
  { unfold unscheduled_ops, apply_sop. cbn [jnext]. rewrite Hnext. exact E2. }
  assert (HcM : forall m, cntM I d m = cntM I (apply_sop I d x row) m + (if on_machine I m (key x) then 1 else 0))
    by (intros m; unfold cntM; rewrite EU, EU'; apply count_keys_mid).
  assert (HcJ : forall j, cntJ I d j = cntJ I (apply_sop I d x row) j + (if in_job j (key x) then 1 else 0))
    by (intros j; unfold cntJ; rewrite EU, EU'; apply count_keys_mid).
  constructor.
  - intros E. cbn [ic_update ic_m] in E. destruct (Hm E) as (L1 & L2 & Hall).
    unfold ic_update. cbn [ic_rem_m ic_flag_m]. rewrite E. rewrite !map_length, !seq_length.
    split; [exact L1|]. split; [exact L2|]. intros m Hlt. destruct (Hall m Hlt) as [Hr Hf].
    unfold nthZ in *. rewrite L1, L2. rewrite !nth_map_seq0 by exact Hlt. specialize (HcM m). unfold on_machine at 1 in HcM.
    destruct (mem_nat m (kmachines I (key x))) eqn:Em.
    + split; [lia|]. rewrite Z.eqb_eq. split.
      * intros H0. split; [lia|]. exists (key x). split; [exact Hkey|exact Em].
      * intros [H0 _]. lia.
    + split; [lia|]. rewrite Hf. replace (cntM I d m) with (cntM I (apply_sop I d x row) m) by lia. tauto.
  - intros E. cbn [ic_update ic_j] in E. destruct (Hj E) as (L1 & L2 & Hall).
    unfold ic_update. cbn [ic_rem_j ic_flag_j]. rewrite E. unfold dec_at. rewrite !length_upd.
    split; [exact L1|]. split; [exact L2|]. intros j Hlt. destruct (Hall j Hlt) as [Hr Hf].
    specialize (HcJ j). unfold in_job at 1 in HcJ. cbn [key fst] in HcJ. unfold nthZ in *.
    destruct (Nat.eqb_spec (s_job x) j) as [Ej|Ej].
    + subst j. rewrite !nth_upd_eq by (try rewrite length_upd; lia). split; [lia|]. rewrite Z.eqb_eq. split.
      * intros H0. split; [lia|]. exists (key x). split; [exact Hkey|]. unfold in_job. simpl. apply Nat.eqb_refl.
      * intros [H0 _]. lia.
    + rewrite !nth_upd_neq by exact Ej. split; [lia|]. rewrite Hf.
      replace (cntJ I d j) with (cntJ I (apply_sop I d x row) j) by lia. tauto.
Qed.

(** ** The observers created on the fresh dispatcher *)

Section Fresh.
  Variable I : instance.
  Let d0 := init_d I.
  Let D0 := all_deques I.

  Definition r_fine (r : remops) : Prop :=
    (forall l, ro_m r = Some l -> l = CM I) /\ (forall l, ro_j r = Some l -> l = CJ I).
  Definition U_ok (ch : list dep) : Prop := forall dq, In (DUnsched dq) ch -> dq = D0.
  Definition R_ok (ch : list dep) : Prop := forall r, In (DRemOps r) ch -> r_fine r.
  Definition C_ok (ch : list dep) : Prop := forall c, In (DIsComp c) ch -> c_ok I c.
  Definition UR_rest (rest : list dep) : Prop :=
    forall o, In o rest -> o = DUnsched D0 \/ exists r, o = DRemOps r /\ r_fine r.

  Lemma UR_rest_U ch rest : U_ok ch -> UR_rest rest -> U_ok (ch ++ rest).
  Proof.
    intros H1 H2 dq Hin. apply in_app_iff in Hin. destruct Hin as [Hin|Hin]; [apply H1; exact Hin|].
    destruct (H2 _ Hin) as [E|(r & E & _)]; [inversion E; reflexivity|discriminate].
  Qed.
  Lemma UR_rest_R ch rest : R_ok ch -> UR_rest rest -> R_ok (ch ++ rest).
  Proof.
    intros H1 H2 r Hin. apply in_app_iff in Hin. destruct Hin as [Hin|Hin]; [apply H1; exact Hin|].
    destruct (H2 _ Hin) as [E|(r' & E & Hf)]; [discriminate|inversion E; subst; exact Hf].
  Qed.
  Lemma UR_rest_C ch rest : C_ok ch -> UR_rest rest -> C_ok (ch ++ rest).
  Proof.
    intros H1 H2 c Hin. apply in_app_iff in Hin. destruct Hin as [Hin|Hin]; [apply H1; exact Hin|].
    destruct (H2 _ Hin) as [E|(r' & E & Hf)]; discriminate.
  Qed.

  Lemma find_dep_some {A} (f : dep -> option A) ch : forall i k a,
    find_dep f i ch = Some (k, a) ->
    (i <= k)%nat /\ exists o, nth_error ch (k - i) = Some o /\ f o = Some a.
  Proof.
    induction ch as [|o t IH]; intros i k a H; simpl in H; [discriminate|].
    destruct (f o) as [a'|] eqn:E.
    - inversion H; subst. split; [lia|]. exists o. rewrite Nat.sub_diag. split; [reflexivity|exact E].
    - apply IH in H. destruct H as [Hle (o' & Hn & Hf)]. split; [lia|]. exists o'.
      replace (k - i)%nat with (S (k - S i)) by lia. split; [exact Hn|exact Hf].
  Qed.

  Lemma upd_app_mid {A} (l : list A) y x rest : upd (l ++ y :: rest) (length l) x = l ++ x :: rest.
  Proof. induction l as [|a t IH]; simpl; [reflexivity|]. rewrite IH. reflexivity. Qed.

  Lemma gnu_spec ch ch' dq : U_ok ch -> get_or_new_unsched I d0 ch = (ch', dq) ->
    dq = D0 /\ exists rest, ch' = ch ++ rest /\ UR_rest rest.
  Proof.
    intros HU. unfold get_or_new_unsched. destruct (find_dep as_unsched 0 ch) as [[k a]|] eqn:E.
    - intros H. inversion H; subst. apply find_dep_some in E. destruct E as [_ (o & Hn & Hf)].
      destruct o; try discriminate. simpl in Hf. inversion Hf; subst. apply nth_error_In in Hn.
      split; [apply HU; exact Hn|]. exists []. rewrite app_nil_r. split; [reflexivity|intros o []].
    - intros H. inversion H; subst. unfold d0. rewrite unsched_construct_init.
      split; [reflexivity|]. exists [DUnsched D0]. split; [reflexivity|].
      intros o [<-|[]]. left. reflexivity.
  Qed.

  Definition r0 (hm hj : bool) : remops := remops_init I (concat D0) hm hj.
  Lemma r0_fine hm hj : r_fine (r0 hm hj).
  Proof.
    unfold r0, remops_init, D0. rewrite all_deques_concat. split; simpl.
    - destruct hm; [|discriminate]. intros l H. inversion H. reflexivity.
    - destruct hj; [|discriminate]. intros l H. inversion H. reflexivity.
  Qed.

  (** since the repair the counts come from the dispatcher itself *)
  Lemma r0_eq hm hj : remops_init I (unscheduled_ops I d0) hm hj = r0 hm hj.
  Proof. unfold r0, D0, d0. rewrite unscheduled_init, all_deques_concat. reflexivity. Qed.

  Lemma new_remops_spec hm hj ch ch' r : U_ok ch -> new_remops I d0 hm hj ch = (ch', r) ->
    r = r0 hm hj /\ exists rest, ch' = ch ++ DRemOps r :: rest /\ UR_rest rest.
  Proof.
    intros HU. unfold new_remops.
    destruct (get_or_new_unsched I d0 (ch ++ [DRemOps (mkro None None)])) as [ch2 dq] eqn:E.
    rewrite r0_eq. intros H. inversion H; subst. clear H.
    apply gnu_spec in E.
    - destruct E as [_ (rest & -> & Hr)]. split; [reflexivity|]. exists rest. split; [|exact Hr].
      rewrite <- app_assoc. simpl. apply upd_app_mid.
    - intros dq' Hin. apply in_app_iff in Hin. destruct Hin as [Hin|[Hin|[]]]; [apply HU; exact Hin|discriminate].
  Qed.

  Definition r_good (nm nj : bool) (r : remops) : Prop :=
    (nm = true -> ro_m r = Some (CM I)) /\ (nj = true -> ro_j r = Some (CJ I)).

  Lemma gnr_spec nm nj ch ch' r : U_ok ch -> R_ok ch -> get_or_new_remops I d0 nm nj ch = (ch', r) ->
    r_good nm nj r /\ exists rest, ch' = ch ++ rest /\ UR_rest rest.
  Proof.
    intros HU HR. unfold get_or_new_remops.
    destruct (find_dep (as_remops nm nj) 0 ch) as [[k a]|] eqn:E.
    - intros H. inversion H; subst. apply find_dep_some in E. destruct E as [_ (o & Hn & Hf)].
      destruct o as [|r'|]; try discriminate. simpl in Hf.
      destruct (remops_ok nm nj r') eqn:Eok; [|discriminate]. inversion Hf; subst.
      apply nth_error_In in Hn. destruct (HR _ Hn) as [F1 F2].
      unfold remops_ok in Eok. apply andb_true_iff in Eok. destruct Eok as [O1 O2]. split.
      + split; intros ->; simpl in *.
        * destruct (ro_m r) as [l|]; [|discriminate]. rewrite (F1 l eq_refl). reflexivity.
        * destruct (ro_j r) as [l|]; [|discriminate]. rewrite (F2 l eq_refl). reflexivity.
      + exists []. rewrite app_nil_r. split; [reflexivity|intros o []].
    - intros H. apply new_remops_spec in H; [|exact HU]. destruct H as [-> (rest & -> & Hr)]. split.
      + unfold r0, remops_init, D0. rewrite all_deques_concat. split; intros ->; reflexivity.
      + exists (DRemOps (r0 nm nj) :: rest). split; [reflexivity|].
        intros o [<-|Hin]; [right; exists (r0 nm nj); split; [reflexivity|apply r0_fine]|apply Hr; exact Hin].
  Qed.

  Lemma new_iscomp_spec ho hm hj ch ch' i : U_ok ch -> R_ok ch -> new_iscomp I d0 ho hm hj ch = (ch', i) ->
    i = length ch /\ exists c rest, ch' = ch ++ DIsComp c :: rest /\ UR_rest rest /\
      c_ok I c /\ ic_m c = hm /\ ic_j c = hj.
  Proof.
    intros HU HR. unfold new_iscomp.
    set (ph := DIsComp (mkic ho hm hj (repeat 0 (num_machines I)) (repeat 0 (num_jobs I)) [] [])).
    destruct (get_or_new_remops I d0 hm hj (ch ++ [ph])) as [ch2 r] eqn:E.
    intros H. inversion H; subst. clear H. split; [reflexivity|].
    apply gnr_spec in E.
    - destruct E as [[G1 G2] (rest & -> & Hr)].
      eexists. exists rest. split; [rewrite <- app_assoc; simpl; apply upd_app_mid|].
      split; [exact Hr|]. rewrite r0_eq. unfold ic_init, c_ok, r0, remops_init, D0. rewrite all_deques_concat.
      cbn [ic_m ic_j ic_rem_m ic_rem_j ic_flag_m ic_flag_j ro_m ro_j].
      split; [|split; reflexivity]. split; intros ->; split; reflexivity.
    - intros dq Hin. apply in_app_iff in Hin. destruct Hin as [Hin|[Hin|[]]]; [apply HU; exact Hin|discriminate].
    - intros r' Hin. apply in_app_iff in Hin. destruct Hin as [Hin|[Hin|[]]]; [apply HR; exact Hin|discriminate].
  Qed.

  Definition all_ok (ch : list dep) : Prop := U_ok ch /\ R_ok ch /\ C_ok ch.

  Lemma run_pre1_ok ch p : all_ok ch -> all_ok (run_pre1 I d0 ch p).
  Proof.
    intros (HU & HR & HC). destruct p as [|hm hj|ho hm hj]; simpl.
    - destruct (get_or_new_unsched I d0 ch) as [ch' dq] eqn:E. apply gnu_spec in E; [|exact HU].
      destruct E as [_ (rest & -> & Hr)]. simpl.
      split; [apply UR_rest_U; assumption|]. split; [apply UR_rest_R; assumption|apply UR_rest_C; assumption].
    - destruct (new_remops I d0 hm hj ch) as [ch' r] eqn:E. apply new_remops_spec in E; [|exact HU].
      destruct E as [-> (rest & -> & Hr)]. simpl.
      assert (Hr' : UR_rest (DRemOps (r0 hm hj) :: rest)).
      { intros o [<-|Hin]; [right; exists (r0 hm hj); split; [reflexivity|apply r0_fine]|apply Hr; exact Hin]. }
      split; [apply UR_rest_U; assumption|]. split; [apply UR_rest_R; assumption|apply UR_rest_C; assumption].
    - destruct (new_iscomp I d0 ho hm hj ch) as [ch' i] eqn:E. apply new_iscomp_spec in E; [|exact HU|exact HR].
      destruct E as [_ (c & rest & -> & Hr & Hc & _)]. simpl.
      split; [|split].
      + intros dq Hin. apply in_app_iff in Hin. destruct Hin as [Hin|[Hin|Hin]]; [apply HU; exact Hin|discriminate|].
        destruct (Hr _ Hin) as [E|(r & E & _)]; [inversion E; reflexivity|discriminate].
      + intros r Hin. apply in_app_iff in Hin. destruct Hin as [Hin|[Hin|Hin]]; [apply HR; exact Hin|discriminate|].
        destruct (Hr _ Hin) as [E|(r' & E & Hf)]; [discriminate|inversion E; subst; exact Hf].
      + intros c' Hin. apply in_app_iff in Hin. destruct Hin as [Hin|[Hin|Hin]]; [apply HC; exact Hin| |].
        * inversion Hin; subst. exact Hc.
        * destruct (Hr _ Hin) as [E|(r' & E & _)]; discriminate.
  Qed.

  Lemma run_pre_ok ps : all_ok (run_pre I d0 ps).
  Proof.
    unfold run_pre. assert (H0 : all_ok []) by (split; [|split]; intros x []).
    revert H0. generalize (@nil dep). induction ps as [|p t IH]; intros ch H; simpl; [exact H|].
    apply IH. apply run_pre1_ok. exact H.
  Qed.

  (** The updater as constructed on the fresh dispatcher: options and graph
      as given, and — when an option is on — an IsCompletedObserver that
      tracks what the option needs, in its just-constructed state. *)
  Theorem rgu_fresh_spec ps rm_m rm_j g :
    let u := rgu_fresh I ps rm_m rm_j g in
    u_rm_m u = rm_m /\ u_rm_j u = rm_j /\ u_graph u = g /\ u_init u = g /\
    (rm_m || rm_j = true ->
     exists c, rgu_iscomp (u_deps u) (u_ic u) = Some c /\ c_ok I c /\
               (rm_m = true -> ic_m c = true) /\ (rm_j = true -> ic_j c = true)).
  Proof.
    unfold rgu_fresh, rgu_construct. fold d0. destruct (run_pre_ok ps) as (HU & HR & HC).
    set (ch := run_pre I d0 ps) in *. destruct (rm_m || rm_j) eqn:Eo; cbv zeta.
    - destruct (find_dep (as_iscomp rm_m rm_j) 0 ch) as [[i a]|] eqn:E.
      + simpl. repeat split. intros _. apply find_dep_some in E. destruct E as [_ (o & Hn & Hf)].
        rewrite Nat.sub_0_r in Hn. destruct o as [| |c]; try discriminate. simpl in Hf.
        destruct (iscomp_ok rm_m rm_j c) eqn:Eok; [|discriminate]. exists c. rewrite Hn.
        split; [reflexivity|]. split; [apply HC; eapply nth_error_In; eauto|].
        unfold iscomp_ok in Eok. apply andb_true_iff in Eok. destruct Eok as [O1 O2].
        split; intros ->; simpl in *; assumption.
      + destruct (new_iscomp I d0 false rm_m rm_j ch) as [ch' i] eqn:En.
        apply new_iscomp_spec in En; [|exact HU|exact HR].
        destruct En as [-> (c & rest & -> & _ & Hc & Em & Ej)]. simpl. repeat split. intros _.
        exists c. rewrite nth_error_app2 by lia. rewrite Nat.sub_diag. simpl.
        split; [reflexivity|]. split; [exact Hc|]. split; intros ->; assumption.
    - simpl. repeat split. discriminate.
  Qed.
End Fresh.

(** one notification round keeps the updater pointing at its observer *)
Lemma rgu_iscomp_map I x ch ic c :
  rgu_iscomp ch ic = Some c -> rgu_iscomp (map (dep_update I x) ch) ic = Some (ic_update I x c).
Proof.
  unfold rgu_iscomp. destruct ic as [i|]; [|discriminate].
  rewrite nth_error_map. destruct (nth_error ch i) as [[| |c']|]; try discriminate.
  intros H. inversion H; subst. reflexivity.
Qed.
