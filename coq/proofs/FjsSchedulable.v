(** FjsSchedulable.v — [from_job_sequences] in terms of SCHEDULES.

    With positive durations, per-machine job sequences [P] are accepted
    exactly when some feasible complete schedule has [P] as its per-machine
    job sequences; for true per-machine permutations the rejection is the
    ValidationError exactly when no such schedule exists.

    The new direction (a schedule exists => accepted): list the operations of
    the schedule by non-decreasing start time. With positive durations the job
    order and the machine order both force STRICTLY increasing start times, so
    that list is a linear extension of "job order ∪ machine order of P"
    ([linearises], spec/ViewsSpec.v); FjsIff.v then gives acceptance.

    Second part (from "Topological sort" on): the order-theoretic bridge. The
    relation [prec I P] ("job order ∪ machine order of P", stated on
    operations without any [L]) has a linear extension iff its transitive
    closure is irreflexive ([acyclic]); constructively: either a cycle or a
    linear extension can be exhibited. *)
From JSL Require Import Base Instance Dstate Filters World Feasible ListFacts DispatchFun Inv Run
  Views ViewsSpec ViewsProofs FjsInv FjsStep FjsRebuild FjsIff FjsPerm.
From Coq Require Import Lia Permutation Sorted Relations.

(** ** Insertion sort of scheduled operations by start time *)
Definition le_start (a b : sop) : Prop := s_start a <= s_start b.
Definition lt_start (a b : sop) : Prop := s_start a < s_start b.

Fixpoint ins_start (x : sop) (l : list sop) : list sop :=
  match l with
  | [] => [x]
  | y :: t => if s_start x <=? s_start y then x :: l else y :: ins_start x t
  end.
Fixpoint sort_start (l : list sop) : list sop :=
  match l with [] => [] | x :: t => ins_start x (sort_start t) end.

Lemma ins_start_perm x l : Permutation (ins_start x l) (x :: l).
Proof.
  induction l as [|y t IH]; simpl; [apply Permutation_refl|].
  destruct (s_start x <=? s_start y); [apply Permutation_refl|].
  eapply Permutation_trans; [apply perm_skip; exact IH|apply perm_swap].
Qed.

Lemma sort_start_perm l : Permutation (sort_start l) l.
Proof.
  induction l as [|x t IH]; simpl; [constructor|].
  eapply Permutation_trans; [apply ins_start_perm|apply perm_skip; exact IH].
Qed.

Lemma ins_start_sorted x l : StronglySorted le_start l -> StronglySorted le_start (ins_start x l).
Proof.
  induction l as [|y t IH]; intros Hl; simpl.
  - constructor; constructor.
  - inversion Hl as [|? ? Ht Hy]; subst. destruct (s_start x <=? s_start y) eqn:E.
    + apply Z.leb_le in E. constructor; [exact Hl|]. constructor; [exact E|].
      rewrite Forall_forall in *. intros z Hz. specialize (Hy z Hz). unfold le_start in *. lia.
    + apply Z.leb_gt in E. constructor; [apply IH; exact Ht|].
      rewrite Forall_forall in *. intros z Hz.
      apply (Permutation_in _ (ins_start_perm x t)) in Hz. destruct Hz as [<-|Hz].
      * unfold le_start. lia.
      * apply Hy; exact Hz.
Qed.

Lemma sort_start_sorted l : StronglySorted le_start (sort_start l).
Proof. induction l as [|x t IH]; simpl; [constructor|apply ins_start_sorted; exact IH]. Qed.

Lemma sorted_split {A} (R : A -> A -> Prop) l1 x l2 :
  StronglySorted R (l1 ++ x :: l2) -> forall y, In y l2 -> R x y.
Proof.
  induction l1 as [|a l1 IH]; simpl; intros H y Hy.
  - inversion H as [|? ? _ Hx]; subst. rewrite Forall_forall in Hx. apply Hx; exact Hy.
  - inversion H as [|? ? Ht _]; subst. apply IH; assumption.
Qed.

Lemma sorted_filter {A} (R : A -> A -> Prop) (f : A -> bool) l :
  StronglySorted R l -> StronglySorted R (filter f l).
Proof.
  induction l as [|a l IH]; simpl; intros H; [constructor|].
  inversion H as [|? ? Ht Ha]; subst. destruct (f a); [|apply IH; exact Ht].
  constructor; [apply IH; exact Ht|]. rewrite Forall_forall in *. intros z Hz.
  apply filter_In in Hz. apply Ha. apply Hz.
Qed.

(** A strictly sorted list and a weakly sorted list with the same elements are equal. *)
Lemma sorted_unique (l1 : list sop) : forall l2,
  Permutation l1 l2 -> StronglySorted lt_start l1 -> StronglySorted le_start l2 -> l1 = l2.
Proof.
  induction l1 as [|a t1 IH]; intros l2 Hp H1 H2.
  - apply Permutation_nil in Hp. symmetry; exact Hp.
  - destruct l2 as [|b t2]; [apply Permutation_sym, Permutation_nil in Hp; discriminate|].
    inversion H1 as [|? ? Ht1 Ha]; subst. inversion H2 as [|? ? Ht2 Hb]; subst.
    rewrite Forall_forall in Ha, Hb.
    assert (E : a = b).
    { assert (Hain : In a (b :: t2)) by (eapply Permutation_in; [exact Hp|left; reflexivity]).
      assert (Hbin : In b (a :: t1)) by (eapply Permutation_in; [apply Permutation_sym; exact Hp|left; reflexivity]).
      destruct Hain as [E|Hain]; [symmetry; exact E|]. destruct Hbin as [E|Hbin]; [exact E|].
      specialize (Ha b Hbin). specialize (Hb a Hain). unfold lt_start, le_start in *. lia. }
    subst b. f_equal. apply IH; [eapply Permutation_cons_inv; exact Hp|exact Ht1|exact Ht2].
Qed.

Lemma NoDup_app_both {A} (a b : list A) : NoDup (a ++ b) -> NoDup a /\ NoDup b.
Proof.
  induction a as [|x a IH]; simpl; intros H; [split; [constructor|exact H]|].
  inversion H as [|? ? Hni Hnd]; subst. destruct (IH Hnd) as [Ha Hb]. split; [|exact Hb].
  constructor; [|exact Ha]. intros Hin. apply Hni. apply in_or_app; left; exact Hin.
Qed.

Lemma positive_is_valid I : positive I -> valid I.
Proof. intros H j p o Ho. destruct (H j p o Ho) as [Hd _]. lia. Qed.

Section Schedulable.
  Variable I : instance.
  Hypothesis Hpos : positive I.
  Hypothesis Hs : single_machine I.
  Variable S : schedule.
  Hypothesis Hf : feasible I S.
  Hypothesis Hc : complete I S.

  Lemma sch_dur_pos x : In x (all_sops S) -> 0 < dur I x.
  Proof.
    intros Hx. destruct (f_exists _ _ Hf x Hx) as (o & Ho & _). unfold dur. rewrite Ho.
    apply (Hpos _ _ _ Ho).
  Qed.

  Lemma sch_machine_key m x : In x (all_sops S) -> on_machine_k I m (key x) = on_mach m x.
  Proof.
    intros Hx. destruct (f_exists _ _ Hf x Hx) as (o & Ho & Hm). destruct (Hs _ _ _ Ho) as [mm Hmm].
    rewrite Hmm in Hm. simpl in Hm. destruct Hm as [Hm|[]].
    unfold on_mach, on_machine_k, kmachines, kop, key. cbn [fst snd]. rewrite Ho, Hmm, <- Hm. simpl.
    rewrite orb_false_r. apply Nat.eqb_sym.
  Qed.

  Lemma sch_row_in m row x : nth_error S m = Some row -> In x row -> In x (all_sops S).
  Proof. intros Hr Hx. apply In_concat_nth_error. eauto. Qed.

  (** Row [m] is strictly sorted by start time. *)
  Lemma row_sorted_strict row :
    (forall x, In x row -> 0 < dur I x) -> row_sorted I row -> StronglySorted lt_start row.
  Proof.
    induction row as [|x t IH]; intros Hd Hr; [constructor|].
    destruct t as [|y t'].
    - constructor; constructor.
    - destruct Hr as [Hxy Hr].
      assert (Ht : StronglySorted lt_start (y :: t')) by (apply IH; [intros z Hz; apply Hd; right; exact Hz|exact Hr]).
      constructor; [exact Ht|]. inversion Ht as [|? ? _ Hy]; subst.
      assert (Hlt : lt_start x y).
      { unfold lt_start. unfold s_end in Hxy. specialize (Hd x (or_introl eq_refl)). lia. }
      constructor; [exact Hlt|]. rewrite Forall_forall in *. intros z Hz. specialize (Hy z Hz).
      unfold lt_start in *. lia.
  Qed.

  Lemma NoDup_all_sops : NoDup (all_sops S).
  Proof. apply (NoDup_map_inv key). apply (f_once _ _ Hf). Qed.

  (** The operations on machine [m], by start time, are row [m]. *)
  Lemma sorted_row m :
    (m < length S)%nat -> filter (on_mach m) (sort_start (all_sops S)) = nth m S [].
  Proof.
    intros Hm. destruct (nth_error S m) as [row|] eqn:Er; [|apply nth_error_None in Er; lia].
    rewrite (nth_error_nth _ _ _ Er). symmetry. apply sorted_unique.
    - apply NoDup_Permutation.
      + assert (H : NoDup (all_sops S)) by apply NoDup_all_sops.
        unfold all_sops in H. clear -H Er. revert m Er. induction S as [|r S' IH]; intros [|m] Er; simpl in *; try discriminate.
        * inversion Er; subst. apply NoDup_app_both in H. apply H.
        * apply NoDup_app_both in H. destruct H as [_ H]. eapply IH; eauto.
      + apply NoDup_filter. eapply Permutation_NoDup; [apply Permutation_sym; apply sort_start_perm|apply NoDup_all_sops].
      + intros x. rewrite filter_In. split.
        * intros Hx. split.
          -- eapply Permutation_in; [apply Permutation_sym; apply sort_start_perm|eapply sch_row_in; eauto].
          -- unfold on_mach. apply Nat.eqb_eq. eapply (f_row _ _ Hf); eauto.
        * intros [Hx Hxm]. apply (Permutation_in _ (sort_start_perm _)) in Hx.
          apply In_concat_nth_error in Hx. destruct Hx as (m' & row' & Hr' & Hin).
          unfold on_mach in Hxm. apply Nat.eqb_eq in Hxm. rewrite (f_row _ _ Hf _ _ _ Hr' Hin) in Hxm. subst m'.
          rewrite Er in Hr'. inversion Hr'; subst. exact Hin.
    - apply row_sorted_strict.
      + intros x Hx. apply sch_dur_pos. eapply sch_row_in; eauto.
      + apply (f_machine _ _ Hf). eapply nth_error_In; eauto.
    - apply sorted_filter. apply sort_start_sorted.
  Qed.

  Theorem schedule_linearises P :
    length P = num_machines I -> job_sequences S = map (map Z.of_nat) P ->
    linearises I P (map key (sort_start (all_sops S))).
  Proof.
    intros Hlen HP.
    assert (HP' : P = map (map s_job) S).
    { apply map_map_of_nat_inj. rewrite <- HP. unfold job_sequences. rewrite map_map.
      apply map_ext. intros row. rewrite map_map. reflexivity. }
    assert (HlenS : length S = num_machines I) by (rewrite <- Hlen, HP', map_length; reflexivity).
    set (h := sort_start (all_sops S)).
    assert (Hin : forall x, In x h <-> In x (all_sops S)).
    { intros x. split; intros H.
      - eapply Permutation_in; [apply sort_start_perm|exact H].
      - eapply Permutation_in; [apply Permutation_sym; apply sort_start_perm|exact H]. }
    constructor.
    - apply NoDup_Permutation.
      + eapply Permutation_NoDup; [|apply (f_once _ _ Hf)].
        apply Permutation_map. apply Permutation_sym. apply sort_start_perm.
      + apply NoDup_all_keys.
      + intros [j p]. rewrite all_keys_In. split.
        * intros H. apply in_map_iff in H. destruct H as (x & Hk & Hx). apply Hin in Hx.
          destruct (f_exists _ _ Hf x Hx) as (o & Ho & _). unfold key in Hk. injection Hk as Hj Hp.
          subst. eauto.
        * intros [o Ho]. destruct (Hc _ _ _ Ho) as (y & Hy & Hk).
          apply in_map_iff. exists y. split; [exact Hk|apply Hin; exact Hy].
    - intros L1 k L2 q E Hq. apply map_eq_app in E. destruct E as (h1 & h2' & Eh & <- & E2).
      apply map_eq_cons in E2. destruct E2 as (x & h2 & -> & <- & _).
      assert (Hx : In x (all_sops S)) by (apply Hin; rewrite Eh; apply in_or_app; right; left; reflexivity).
      cbn [key fst snd] in *.
      destruct (f_prefix _ _ Hf x q Hx Hq) as (y & Hy & Hky).
      apply in_map_iff. exists y. split; [exact Hky|].
      pose proof Hy as Hyh. apply Hin in Hyh. rewrite Eh in Hyh. apply in_app_or in Hyh.
      destruct Hyh as [Hyh|[Hyx|Hyh]]; [exact Hyh|exfalso|exfalso].
      + subst y. unfold key in Hky. injection Hky as Hp. lia.
      + assert (Hle : le_start x y).
        { apply (sorted_split le_start h1 x h2); [rewrite <- Eh; apply sort_start_sorted|exact Hyh]. }
        unfold key in Hky. injection Hky as Hyj Hyp.
        assert (Hend : s_end I y <= s_start x) by (apply (f_job _ _ Hf y x Hy Hx); [exact Hyj|lia]).
        pose proof (sch_dur_pos y Hy) as Hd. unfold le_start, s_end in *. lia.
    - rewrite HP'. apply list_eq_nth with (d := map s_job []).
      + rewrite map_length. exact HlenS.
      + intros m Hm. rewrite map_nth. unfold project. rewrite filter_map_comm, map_map. cbn [key fst].
        rewrite <- (sorted_row m) by (rewrite HlenS; exact Hm). fold h. f_equal.
        apply filter_ext_in. intros x Hx. symmetry. apply sch_machine_key. apply Hin; exact Hx.
  Qed.
End Schedulable.

(** ** The statements in terms of schedules *)

(** [S] realises [P]: a feasible complete schedule whose per-machine job
    sequences are [P]. *)
Definition realises (I : instance) (P : list (list nat)) (S : schedule) : Prop :=
  feasible I S /\ complete I S /\ job_sequences S = map (map Z.of_nat) P.

Lemma realises_def I P S :
  realises I P S <-> feasible I S /\ complete I S /\ job_sequences S = map (map Z.of_nat) P.
Proof. unfold realises. tauto. Qed.

Theorem schedule_order_linearises I P S :
  positive I -> single_machine I -> length P = num_machines I ->
  feasible I S -> complete I S -> job_sequences S = map (map Z.of_nat) P ->
  linearises I P (map key (sort_start (all_sops S))).
Proof. intros Hp Hs Hl Hf Hc HP. exact (schedule_linearises I Hp Hs S Hf Hc P Hl HP). Qed.

Theorem schedule_accepted I P S :
  positive I -> single_machine I -> length P = num_machines I -> realises I P S ->
  exists rows, from_job_sequences I (map (map Z.of_nat) P) = FOk rows.
Proof.
  intros Hpos Hs Hlen (Hf & Hc & HP). pose proof (positive_is_valid I Hpos) as Hv.
  pose proof (schedule_linearises I Hpos Hs S Hf Hc P Hlen HP) as HL.
  destruct (accept_if_linearisable I Hv Hs P _ HL) as (h & d & _ & _ & H). eauto.
Qed.

Theorem accepted_realises I P rows :
  valid I -> single_machine I -> length P = num_machines I -> sumN (map (@length nat) P) = num_ops I ->
  from_job_sequences I (map (map Z.of_nat) P) = FOk rows -> realises I P rows.
Proof.
  intros Hv Hs Hlen Hn H. pose proof (from_job_sequences_sound I (map (map Z.of_nat) P) Hv) as Hsound.
  rewrite H in Hsound. destruct Hsound as [Hf Hc]. split; [exact Hf|]. split; [exact Hc|].
  apply (accepted_rows_have_sequences I P rows Hv Hs Hlen Hn H).
Qed.

Theorem accepted_iff_schedule I P :
  positive I -> single_machine I -> length P = num_machines I -> sumN (map (@length nat) P) = num_ops I ->
  ((exists rows, from_job_sequences I (map (map Z.of_nat) P) = FOk rows) <-> (exists S, realises I P S)).
Proof.
  intros Hpos Hs Hlen Hn. pose proof (positive_is_valid I Hpos) as Hv. split.
  - intros [rows H]. exists rows. apply accepted_realises; assumption.
  - intros [S HS]. eapply schedule_accepted; eauto.
Qed.

Theorem rejected_iff_no_schedule I P :
  positive I -> single_machine I -> true_permutation I P ->
  (from_job_sequences I (map (map Z.of_nat) P) = FErr EValidation <-> ~ exists S, realises I P S).
Proof.
  intros Hpos Hs Htp. pose proof (positive_is_valid I Hpos) as Hv.
  pose proof (true_permutation_total I Hs P Htp) as Hn. pose proof (proj1 Htp) as Hlen. split.
  - intros Hrej [S HS]. destruct (schedule_accepted I P S Hpos Hs Hlen HS) as [rows H]. congruence.
  - intros Hno. destruct (true_permutation_outcome I Hv Hs P Htp) as [(rows & H & _)|[H _]]; [exfalso|exact H].
    apply Hno. exists rows. apply accepted_realises; assumption.
Qed.

(** Boolean checks used to exhibit concrete witnesses. *)
Lemma positiveb_is_positive I : positiveb I = true -> positive I.
Proof.
  unfold positiveb, positive. rewrite forallb_forall. intros H j p o Ho. unfold get_op in Ho.
  destruct (nth_error I j) as [job|] eqn:Ej; [|discriminate].
  specialize (H job (nth_error_In _ _ Ej)). rewrite forallb_forall in H.
  specialize (H o (nth_error_In _ _ Ho)). unfold positive_opb in H. apply andb_true_iff in H.
  destruct H as [H1 H2]. apply Z.ltb_lt in H1. split; [exact H1|]. destruct (machines o); discriminate.
Qed.

Lemma completeb_is_complete I S : completeb I S = true -> complete I S.
Proof.
  unfold completeb, complete. rewrite forallb_forall. intros H j p o Ho.
  assert (Hk : In (j, p) (all_keys I)) by (apply all_keys_In; eauto).
  specialize (H _ Hk). apply mem_key_In in H. apply in_map_iff in H. destruct H as (x & Hx & Hin). eauto.
Qed.

Lemma realises_by_computation I P S :
  feasibleb I S = true -> completeb I S = true -> job_sequences S = map (map Z.of_nat) P -> realises I P S.
Proof.
  intros H1 H2 H3. split; [apply feasibleb_spec; exact H1|]. split; [apply completeb_is_complete; exact H2|exact H3].
Qed.

(** Exactly two outcomes for a true per-machine permutation. *)
Theorem true_permutation_schedule_outcome I P :
  positive I -> single_machine I -> true_permutation I P ->
  (exists rows, from_job_sequences I (map (map Z.of_nat) P) = FOk rows /\ realises I P rows) \/
  (from_job_sequences I (map (map Z.of_nat) P) = FErr EValidation /\ ~ exists S, realises I P S).
Proof.
  intros Hpos Hs Htp. pose proof (positive_is_valid I Hpos) as Hv.
  pose proof (true_permutation_total I Hs P Htp) as Hn. pose proof (proj1 Htp) as Hlen.
  destruct (true_permutation_outcome I Hv Hs P Htp) as [(rows & H & _)|[H _]].
  - left. exists rows. split; [exact H|]. apply accepted_realises; assumption.
  - right. split; [exact H|]. apply (rejected_iff_no_schedule I P Hpos Hs Htp). exact H.
Qed.

(** ** Topological sort of a decidable relation on a finite duplicate-free list *)
Section Topo.
  Variable A : Type.
  Hypothesis A_dec : forall a b : A, {a = b} + {a <> b}.
  Variable R : A -> A -> Prop.
  Hypothesis R_dec : forall a b, R a b \/ ~ R a b.

  (** a path x0 R x1 R x2 ... *)
  Fixpoint chainp (c : list A) : Prop :=
    match c with
    | [] => True
    | x :: t => match t with [] => True | y :: _ => R x y /\ chainp t end
    end.

  Lemma chainp_cons2 x y t : chainp (x :: y :: t) <-> R x y /\ chainp (y :: t).
  Proof. reflexivity. Qed.

  Lemma chainp_tail a t : chainp (a :: t) -> chainp t.
  Proof. destruct t as [|y t']; [intros _; exact I|]. rewrite chainp_cons2. intros [_ H]; exact H. Qed.

  Lemma chainp_suffix l1 l : chainp (l1 ++ l) -> chainp l.
  Proof.
    induction l1 as [|a l1 IH]; [auto|]. change ((a :: l1) ++ l) with (a :: (l1 ++ l)).
    intros H. apply IH. apply (chainp_tail a). exact H.
  Qed.

  Lemma chainp_reach l2 : forall a b l3, chainp (a :: l2 ++ b :: l3) -> clos_trans A R a b.
  Proof.
    induction l2 as [|c l2 IH]; intros a b l3.
    - change (a :: [] ++ b :: l3) with (a :: b :: l3). rewrite chainp_cons2. intros [H _]. apply t_step; exact H.
    - change (a :: (c :: l2) ++ b :: l3) with (a :: c :: l2 ++ b :: l3). rewrite chainp_cons2.
      intros [H1 H2]. eapply t_trans; [apply t_step; exact H1|eapply IH; exact H2].
  Qed.

  Lemma chain_grow (U : list A) :
    (forall x, In x U -> exists y, In y U /\ R y x) -> forall x0, In x0 U ->
    forall n, exists c, length c = S n /\ chainp c /\ incl c U.
  Proof.
    intros Hpred x0 Hx0 n. induction n as [|n IH].
    - exists [x0]. split; [reflexivity|]. split; [exact I|]. intros z [<-|[]]; exact Hx0.
    - destruct IH as (c & Hl & Hc & Hi). destruct c as [|y t]; [discriminate|].
      destruct (Hpred y (Hi y (or_introl eq_refl))) as (x & Hx & Hr).
      exists (x :: y :: t). split; [simpl in *; lia|]. split; [apply chainp_cons2; split; assumption|].
      intros z [<-|Hz]; [exact Hx|apply Hi; exact Hz].
  Qed.

  Lemma dup_or_nodup (c : list A) : NoDup c \/ exists a l1 l2 l3, c = l1 ++ a :: l2 ++ a :: l3.
  Proof.
    induction c as [|x t IH]; [left; constructor|].
    destruct (in_dec A_dec x t) as [Hin|Hn].
    - right. apply in_split in Hin. destruct Hin as (l2 & l3 & ->). exists x, [], l2, l3. reflexivity.
    - destruct IH as [IH|(a & l1 & l2 & l3 & ->)].
      + left; constructor; assumption.
      + right; exists a, (x :: l1), l2, l3; reflexivity.
  Qed.

  Lemma dec_exists_in (Q : A -> Prop) :
    (forall x, Q x \/ ~ Q x) -> forall l, (exists x, In x l /\ Q x) \/ (forall x, In x l -> ~ Q x).
  Proof.
    intros Hd l. induction l as [|a l IH]; [right; intros x []|].
    destruct (Hd a) as [Ha|Ha]; [left; exists a; split; [left; reflexivity|exact Ha]|].
    destruct IH as [(x & Hx & Hq)|Hn]; [left; exists x; split; [right; exact Hx|exact Hq]|].
    right. intros x [<-|Hx]; [exact Ha|apply Hn; exact Hx].
  Qed.

  Lemma minimal_or_cycle U :
    U <> [] -> (exists x, In x U /\ forall y, In y U -> ~ R y x) \/ exists a, clos_trans A R a a.
  Proof.
    intros Hne.
    assert (Hq : forall x, (forall y, In y U -> ~ R y x) \/ ~ (forall y, In y U -> ~ R y x)).
    { intros x. destruct (dec_exists_in (fun y => R y x) (fun y => R_dec y x) U) as [(y & Hy & Hr)|Hn].
      - right. intros H. exact (H y Hy Hr).
      - left. exact Hn. }
    destruct (dec_exists_in (fun x => forall y, In y U -> ~ R y x) Hq U) as [(x & Hx & Hm)|Hall].
    - left. exists x. split; assumption.
    - right.
      assert (Hpred : forall x, In x U -> exists y, In y U /\ R y x).
      { intros x Hx. destruct (dec_exists_in (fun y => R y x) (fun y => R_dec y x) U) as [(y & Hy & Hr)|Hn].
        - exists y. split; assumption.
        - exfalso. exact (Hall x Hx Hn). }
      destruct U as [|x0 U']; [contradiction|].
      destruct (chain_grow (x0 :: U') Hpred x0 (or_introl eq_refl) (length (x0 :: U'))) as (c & Hl & Hc & Hi).
      destruct (dup_or_nodup c) as [Hnd|(a & l1 & l2 & l3 & ->)].
      + pose proof (NoDup_incl_length Hnd Hi). lia.
      + exists a. apply chainp_suffix in Hc. eapply chainp_reach. exact Hc.
  Qed.

  Lemma topo_sort n : forall U, length U = n -> NoDup U ->
    (exists a, clos_trans A R a a) \/
    exists L, Permutation L U /\
              forall L1 k L2 a, L = L1 ++ k :: L2 -> In a U -> R a k -> In a L1.
  Proof.
    induction n as [|n IH]; intros U Hlen Hnd.
    - right. exists []. destruct U; [|discriminate]. split; [constructor|].
      intros L1 k L2 a E. destruct L1; discriminate.
    - assert (Hne : U <> []) by (destruct U; [discriminate|discriminate]).
      destruct (minimal_or_cycle U Hne) as [(x & Hx & Hmin)|Hcyc]; [|left; exact Hcyc].
      apply in_split in Hx. destruct Hx as (U1 & U2 & ->).
      assert (Hnd' : NoDup (U1 ++ U2)) by (eapply NoDup_remove_1; exact Hnd).
      assert (Hlen' : length (U1 ++ U2) = n) by (rewrite app_length in *; simpl in Hlen; lia).
      destruct (IH (U1 ++ U2) Hlen' Hnd') as [Hcyc|(L' & Hp & Ho)]; [left; exact Hcyc|].
      right. exists (x :: L'). split.
      + eapply Permutation_trans; [apply perm_skip; exact Hp|apply Permutation_middle].
      + intros L1 k L2 a E Ha Hr. destruct L1 as [|z L1]; simpl in E; inversion E; subst.
        * exfalso. exact (Hmin a Ha Hr).
        * destruct (A_dec a z) as [->|Hne']; [left; reflexivity|right].
          apply (Ho L1 k L2 a eq_refl); [|exact Hr].
          apply in_app_or in Ha. apply in_or_app. destruct Ha as [Ha|[Ha|Ha]]; [left; exact Ha| |right; exact Ha].
          exfalso. apply Hne'. symmetry; exact Ha.
  Qed.
End Topo.

(** ** The precedence relation of per-machine job sequences, without [L] *)

(** positions of job [j] whose operation runs on machine [m], increasing *)
Definition ops_on (I : instance) (m j : nat) : list nat :=
  filter (fun p => on_machine_k I m (j, p)) (seq 0 (length (get_job I j))).

(** A row of job ids read as a row of operations: the c-th occurrence of [j]
    (counting from 0) is the c-th operation of job [j] on machine [m]. *)
Fixpoint decode_row (I : instance) (m : nat) (seen row : list nat) : list (nat * nat) :=
  match row with
  | [] => []
  | j :: t => (j, nth (cnt j seen) (ops_on I m j) 0%nat) :: decode_row I m (j :: seen) t
  end.
Definition decode (I : instance) (P : list (list nat)) (m : nat) : list (nat * nat) :=
  decode_row I m [] (nth m P []).

Definition before {A} (l : list A) (a b : A) : Prop := exists l1 l2 l3, l = l1 ++ a :: l2 ++ b :: l3.

(** [a] must precede [b]: same job and earlier position, or same machine and
    earlier in that machine's row. *)
Definition prec (I : instance) (P : list (list nat)) (a b : nat * nat) : Prop :=
  (In a (all_keys I) /\ In b (all_keys I) /\ fst a = fst b /\ (snd a < snd b)%nat) \/
  (exists m, (m < num_machines I)%nat /\ before (decode I P m) a b).

Definition acyclic (I : instance) (P : list (list nat)) : Prop :=
  forall k, ~ clos_trans (nat * nat) (prec I P) k k.

Lemma key_dec (a b : nat * nat) : {a = b} + {a <> b}.
Proof. decide equality; apply Nat.eq_dec. Qed.

(** *** [before] *)
Lemma before_dec (l : list (nat * nat)) a b : before l a b \/ ~ before l a b.
Proof.
  induction l as [|x t IH].
  - right. intros (l1 & l2 & l3 & E). destruct l1; discriminate.
  - destruct IH as [(l1 & l2 & l3 & ->)|Hn]; [left; exists (x :: l1), l2, l3; reflexivity|].
    destruct (key_dec x a) as [->|Hne].
    + destruct (in_dec key_dec b t) as [Hin|Hnin].
      * left. apply in_split in Hin. destruct Hin as (l2 & l3 & ->). exists [], l2, l3. reflexivity.
      * right. intros (l1 & l2 & l3 & E). destruct l1 as [|z l1]; simpl in E; inversion E; subst.
        -- apply Hnin. apply in_or_app; right; left; reflexivity.
        -- apply Hn. exists l1, l2, l3. reflexivity.
    + right. intros (l1 & l2 & l3 & E). destruct l1 as [|z l1]; simpl in E; inversion E; subst.
      * apply Hne; reflexivity.
      * apply Hn. exists l1, l2, l3. reflexivity.
Qed.

Lemma bounded_dec (Q : nat -> Prop) : (forall m, Q m \/ ~ Q m) ->
  forall n, (exists m, (m < n)%nat /\ Q m) \/ ~ (exists m, (m < n)%nat /\ Q m).
Proof.
  intros Hd n. induction n as [|n IH]; [right; intros (m & Hm & _); lia|].
  destruct IH as [(m & Hm & Hq)|Hn]; [left; exists m; split; [lia|exact Hq]|].
  destruct (Hd n) as [Hq|Hq]; [left; exists n; split; [lia|exact Hq]|].
  right. intros (m & Hm & Hqm). destruct (Nat.eq_dec m n) as [->|Hne]; [contradiction|].
  apply Hn. exists m. split; [lia|exact Hqm].
Qed.

Lemma prec_dec I P a b : prec I P a b \/ ~ prec I P a b.
Proof.
  unfold prec.
  destruct (bounded_dec (fun m => before (decode I P m) a b) (fun m => before_dec _ a b) (num_machines I)) as [H|H];
    [left; right; exact H|].
  destruct (in_dec key_dec a (all_keys I)) as [Ha|Ha]; [|right; intros [(H1 & _)|H1]; contradiction].
  destruct (in_dec key_dec b (all_keys I)) as [Hb|Hb]; [|right; intros [(_ & H1 & _)|H1]; contradiction].
  destruct (Nat.eq_dec (fst a) (fst b)) as [E|E]; [|right; intros [(_ & _ & H1 & _)|H1]; contradiction].
  destruct (lt_dec (snd a) (snd b)) as [Hl|Hl]; [|right; intros [(_ & _ & _ & H1)|H1]; contradiction].
  left; left; auto.
Qed.

(** *** position in a list *)
Fixpoint idx (k : nat * nat) (L : list (nat * nat)) : nat :=
  match L with [] => 0%nat | x :: t => if key_dec x k then 0%nat else S (idx k t) end.

Lemma idx_in a L1 L2 : In a L1 -> (idx a (L1 ++ L2) < length L1)%nat.
Proof.
  induction L1 as [|x t IH]; intros H; [destruct H|]. simpl. destruct (key_dec x a) as [E|Hne]; [lia|].
  destruct H as [H|H]; [contradiction|]. specialize (IH H). lia.
Qed.

Lemma idx_notin a L1 L2 : ~ In a L1 -> idx a (L1 ++ a :: L2) = length L1.
Proof.
  induction L1 as [|x t IH]; intros H; simpl.
  - destruct (key_dec a a); [reflexivity|contradiction].
  - destruct (key_dec x a) as [E|Hne]; [exfalso; apply H; left; exact E|].
    rewrite IH; [reflexivity|]. intros Hin. apply H. right; exact Hin.
Qed.

Lemma before_idx L a b : NoDup L -> before L a b -> (idx a L < idx b L)%nat.
Proof.
  intros Hnd (l1 & l2 & l3 & ->).
  assert (Hb : ~ In b (l1 ++ a :: l2)).
  { replace (l1 ++ a :: l2 ++ b :: l3) with ((l1 ++ a :: l2) ++ b :: l3) in Hnd by (rewrite <- app_assoc; reflexivity).
    apply NoDup_remove_2 in Hnd. intros H. apply Hnd. apply in_or_app. left; exact H. }
  replace (l1 ++ a :: l2 ++ b :: l3) with ((l1 ++ a :: l2) ++ b :: l3) at 2 by (rewrite <- app_assoc; reflexivity).
  rewrite (idx_notin b _ l3 Hb).
  assert (Ha : In a (l1 ++ a :: l2)) by (apply in_or_app; right; left; reflexivity).
  replace (l1 ++ a :: l2 ++ b :: l3) with ((l1 ++ a :: l2) ++ b :: l3) by (rewrite <- app_assoc; reflexivity).
  apply idx_in. exact Ha.
Qed.

(** a split of [filter f L] comes from a split of [L] *)
Lemma filter_split {A} (f : A -> bool) (L : list A) : forall l1 a r,
  filter f L = l1 ++ a :: r -> exists L1 R, L = L1 ++ a :: R /\ filter f L1 = l1 /\ filter f R = r.
Proof.
  induction L as [|x t IH]; intros l1 a r E; simpl in E; [destruct l1; discriminate|].
  destruct (f x) eqn:Ef.
  - destruct l1 as [|z l1]; simpl in E; inversion E; subst.
    + exists [], t. auto.
    + destruct (IH l1 a r H1) as (L1 & R & -> & H2 & H3). exists (z :: L1), R. simpl. rewrite Ef, H2. auto.
  - destruct (IH l1 a r E) as (L1 & R & -> & H2 & H3). exists (x :: L1), R. simpl. rewrite Ef. auto.
Qed.

Lemma before_filter {A} (f : A -> bool) (L : list A) a b : before (filter f L) a b -> before L a b.
Proof.
  intros (l1 & l2 & l3 & E). destruct (filter_split f L l1 a _ E) as (L1 & R & -> & _ & ER).
  destruct (filter_split f R l2 b l3 ER) as (L2 & L3 & -> & _ & _). exists L1, L2, L3. reflexivity.
Qed.

Lemma cnt_cons j x l : cnt j (x :: l) = ((if (j =? x)%nat then 1 else 0) + cnt j l)%nat.
Proof. unfold cnt. simpl. destruct (j =? x)%nat; reflexivity. Qed.

Lemma map_fst_decode_row I m row : forall seen, map fst (decode_row I m seen row) = row.
Proof. induction row as [|j t IH]; intros seen; simpl; [reflexivity|]. rewrite IH. reflexivity. Qed.

Lemma nth_filter_seq (f : nat -> bool) n p d :
  (p < n)%nat -> f p = true -> nth (length (filter f (seq 0 p))) (filter f (seq 0 n)) d = p.
Proof.
  intros Hp Hf. replace n with (p + S (n - S p))%nat by lia.
  rewrite seq_app, filter_app. simpl. rewrite Hf. rewrite app_nth2 by lia. rewrite Nat.sub_diag. reflexivity.
Qed.

Lemma get_op_some_lt I j p : (p < length (get_job I j))%nat -> exists o, get_op I j p = Some o.
Proof.
  unfold get_op, get_job. intros H. destruct (nth_error I j) as [job|] eqn:E.
  - rewrite (nth_error_nth _ _ _ E) in H. destruct (nth_error job p) eqn:E2; [eauto|].
    apply nth_error_None in E2. lia.
  - rewrite (nth_overflow I []) in H by (apply nth_error_None; exact E). simpl in H. lia.
Qed.

Lemma in_ops_on I m j p : In p (ops_on I m j) <-> In (j, p) (all_keys I) /\ on_machine_k I m (j, p) = true.
Proof.
  unfold ops_on. rewrite filter_In, in_seq, all_keys_In. split.
  - intros [Hp Hon]. split; [apply get_op_some_lt; lia|exact Hon].
  - intros [[o Ho] Hon]. split; [|exact Hon]. destruct (get_op_bounds _ _ _ _ Ho). lia.
Qed.

Lemma NoDup_ops_on I m j : NoDup (ops_on I m j).
Proof. apply NoDup_filter. apply seq_NoDup. Qed.

(** the number of operations of job [j] on machine [m], counted in a
    duplicate-free list of keys *)
Lemma count_job_keys I m j (K : list (nat * nat)) (f : nat -> bool) :
  NoDup K ->
  (forall q, In (j, q) K /\ on_machine_k I m (j, q) = true <-> In q (filter f (ops_on I m j))) ->
  cnt j (project I m K) = length (filter f (ops_on I m j)).
Proof.
  intros Hnd Hiff. unfold project. rewrite cnt_map.
  rewrite <- (map_length (pair j) (filter f (ops_on I m j))). apply Permutation_length. apply NoDup_Permutation.
  - apply NoDup_filter. apply NoDup_filter. exact Hnd.
  - apply FinFun.Injective_map_NoDup; [intros x y E; inversion E; reflexivity|].
    apply NoDup_filter. apply NoDup_ops_on.
  - intros [j' q]. rewrite filter_In, filter_In, in_map_iff. cbn [fst]. split.
    + intros [[Hin Hon] Hj]. apply Nat.eqb_eq in Hj. subst j'. exists q. split; [reflexivity|].
      apply Hiff. split; assumption.
    + intros (q' & E & Hq). inversion E; subst. apply Hiff in Hq. destruct Hq as [Hin Hon].
      split; [split; assumption|apply Nat.eqb_refl].
Qed.

Lemma filter_all {A} (f : A -> bool) l : (forall x, In x l -> f x = true) -> filter f l = l.
Proof.
  induction l as [|a l IH]; intros H; simpl; [reflexivity|]. rewrite (H a (or_introl eq_refl)).
  rewrite IH; [reflexivity|]. intros x Hx. apply H. right; exact Hx.
Qed.

Lemma filter_none {A} (f : A -> bool) l : (forall x, In x l -> f x = false) -> filter f l = [].
Proof.
  induction l as [|a l IH]; intros H; simpl; [reflexivity|]. rewrite (H a (or_introl eq_refl)).
  apply IH. intros x Hx. apply H. right; exact Hx.
Qed.

Lemma nth_filter_below (g : nat -> bool) n p d :
  (p < n)%nat -> g p = true ->
  nth (length (filter (fun q => q <? p)%nat (filter g (seq 0 n)))) (filter g (seq 0 n)) d = p.
Proof.
  intros Hp Hg. replace n with (p + S (n - S p))%nat by lia.
  rewrite seq_app, filter_app. simpl. rewrite Hg. rewrite filter_app. simpl. rewrite Nat.ltb_irrefl.
  rewrite (filter_all (fun q => (q <? p)%nat) (filter g (seq 0 p))).
  - rewrite (filter_none (fun q => (q <? p)%nat) (filter g (seq (S p) (n - S p)))).
    + rewrite app_nil_r. rewrite app_nth2 by lia. rewrite Nat.sub_diag. reflexivity.
    + intros x Hx. apply filter_In in Hx. destruct Hx as [Hx _]. apply in_seq in Hx. apply Nat.ltb_ge. lia.
  - intros x Hx. apply filter_In in Hx. destruct Hx as [Hx _]. apply in_seq in Hx. apply Nat.ltb_lt. lia.
Qed.

Lemma nth_map_seq {A} (f : nat -> A) n m d : (m < n)%nat -> nth m (map f (seq 0 n)) d = f m.
Proof.
  intros Hm. rewrite (nth_indep _ d (f 0%nat)) by (rewrite map_length, seq_length; exact Hm).
  rewrite map_nth, seq_nth by exact Hm. reflexivity.
Qed.

(** ** A linear extension exists => no cycle *)
Section Forward.
  Variables (I : instance) (P : list (list nat)) (L : list (nat * nat)).
  Hypothesis HL : linearises I P L.

  Lemma lin_NoDup : NoDup L.
  Proof. eapply Permutation_NoDup; [apply Permutation_sym; apply (lin_perm _ _ _ HL)|apply NoDup_all_keys]. Qed.

  Lemma lin_in k : In k L <-> In k (all_keys I).
  Proof.
    split; intros H.
    - eapply Permutation_in; [apply (lin_perm _ _ _ HL)|exact H].
    - eapply Permutation_in; [apply Permutation_sym; apply (lin_perm _ _ _ HL)|exact H].
  Qed.

  (** before the operation (j, p), the operations of job j are exactly (j, 0..p-1) *)
  Lemma prefix_job_keys L1 j p L2 q : L = L1 ++ (j, p) :: L2 -> (In (j, q) L1 <-> (q < p)%nat).
  Proof.
    intros E. pose proof lin_NoDup as Hnd. split.
    - intros Hin. destruct (lt_eq_lt_dec q p) as [[Hlt|Heq]|Hgt]; [exact Hlt|exfalso|exfalso].
      + subst q. rewrite E in Hnd. apply NoDup_remove_2 in Hnd. apply Hnd. apply in_or_app; left; exact Hin.
      + apply in_split in Hin. destruct Hin as (A1 & B1 & ->).
        rewrite <- app_assoc in E. simpl in E.
        pose proof (lin_job _ _ _ HL A1 (j, q) (B1 ++ (j, p) :: L2) p E Hgt) as H. cbn [fst] in H.
        rewrite E in Hnd.
        replace (A1 ++ (j, q) :: B1 ++ (j, p) :: L2) with ((A1 ++ (j, q) :: B1) ++ (j, p) :: L2) in Hnd
          by (rewrite <- app_assoc; reflexivity).
        apply NoDup_remove_2 in Hnd. apply Hnd. apply in_or_app. left. apply in_or_app. left. exact H.
    - intros Hq. exact (lin_job _ _ _ HL L1 (j, p) L2 q E Hq).
  Qed.

  Lemma decode_row_filter m : forall L2 L1 seen,
    L = L1 ++ L2 -> (forall j, cnt j seen = cnt j (project I m L1)) ->
    decode_row I m seen (project I m L2) = filter (on_machine_k I m) L2.
  Proof.
    induction L2 as [|k L2 IH]; intros L1 seen E Hc; [reflexivity|].
    assert (E' : L = (L1 ++ [k]) ++ L2) by (rewrite <- app_assoc; exact E).
    unfold project in *. cbn [filter]. destruct (on_machine_k I m k) eqn:Hon.
    - destruct k as [j p]. cbn [map fst decode_row].
      assert (Hk : In (j, p) (all_keys I)) by (apply lin_in; rewrite E; apply in_or_app; right; left; reflexivity).
      assert (Hnd1 : NoDup L1).
      { pose proof lin_NoDup as Hnd. rewrite E in Hnd. apply NoDup_app_both in Hnd. apply Hnd. }
      assert (Hp : nth (cnt j seen) (ops_on I m j) 0%nat = p).
      { rewrite Hc. fold (project I m L1).
        rewrite (count_job_keys I m j L1 (fun q => (q <? p)%nat) Hnd1).
        - unfold ops_on. apply nth_filter_below; [|exact Hon].
          apply all_keys_In in Hk. destruct Hk as [o Ho]. apply (get_op_bounds _ _ _ _ Ho).
        - intros q. rewrite filter_In, in_ops_on, (prefix_job_keys L1 j p L2 q E), Nat.ltb_lt. split.
          + intros [Hq Honq]. split; [split; [|exact Honq]|exact Hq].
            apply lin_in. rewrite E. apply in_or_app. left. apply (prefix_job_keys L1 j p L2 q E). exact Hq.
          + intros [[_ Honq] Hq]. split; assumption. }
      rewrite Hp. f_equal. apply (IH (L1 ++ [(j, p)]) (j :: seen) E').
      intros j'. rewrite filter_app, map_app, cnt_app, cnt_cons, Hc. cbn [filter]. rewrite Hon. cbn [map fst].
      rewrite cnt_cons. unfold cnt at 3. simpl. lia.
    - apply (IH (L1 ++ [k]) seen E'). intros j'. rewrite Hc, filter_app, map_app, cnt_app. cbn [filter].
      rewrite Hon. simpl. unfold cnt at 3. simpl. lia.
  Qed.

  Lemma decode_is_filter m : (m < num_machines I)%nat -> decode I P m = filter (on_machine_k I m) L.
  Proof.
    intros Hm. unfold decode. rewrite (lin_rows _ _ _ HL), nth_map_seq by exact Hm.
    apply (decode_row_filter m L [] []); [reflexivity|]. intros j. reflexivity.
  Qed.

  Lemma prec_idx a b : prec I P a b -> (idx a L < idx b L)%nat.
  Proof.
    intros [(Ha & Hb & Hj & Hp)|(m & Hm & Hbef)].
    - apply lin_in in Hb. apply in_split in Hb. destruct Hb as (L1 & L2 & E).
      pose proof (lin_job _ _ _ HL L1 b L2 (snd a) E Hp) as Hin. rewrite <- Hj, <- surjective_pairing in Hin.
      assert (Hnb : ~ In b L1).
      { pose proof lin_NoDup as Hnd. rewrite E in Hnd. apply NoDup_remove_2 in Hnd. intros H. apply Hnd.
        apply in_or_app; left; exact H. }
      rewrite E at 2. rewrite (idx_notin b L1 L2 Hnb). rewrite E. apply idx_in. exact Hin.
    - rewrite (decode_is_filter m Hm) in Hbef. apply before_filter in Hbef. apply before_idx; [apply lin_NoDup|exact Hbef].
  Qed.

  Theorem linearises_acyclic : acyclic I P.
  Proof.
    assert (H : forall a b, clos_trans _ (prec I P) a b -> (idx a L < idx b L)%nat).
    { intros a b Hab. induction Hab as [a b Hab|a b c _ IH1 _ IH2]; [apply prec_idx; exact Hab|lia]. }
    intros k Hk. specialize (H k k Hk). lia.
  Qed.
End Forward.

(** two duplicate-free arrangements of the same elements, one of which respects the order of the other, are equal *)
Lemma order_unique {A} (D : list A) : forall F, NoDup D -> Permutation D F ->
  (forall a b, before D a b -> forall F1 F2, F = F1 ++ b :: F2 -> In a F1) -> D = F.
Proof.
  induction D as [|a D IH]; intros F Hnd Hp H.
  - apply Permutation_nil in Hp. symmetry; exact Hp.
  - destruct F as [|b F]; [apply Permutation_sym, Permutation_nil in Hp; discriminate|].
    assert (E : a = b).
    { assert (Hb : In b (a :: D)) by (eapply Permutation_in; [apply Permutation_sym; exact Hp|left; reflexivity]).
      destruct Hb as [E|Hb]; [exact E|exfalso].
      apply in_split in Hb. destruct Hb as (l2 & l3 & ->).
      apply (H a b (ex_intro _ [] (ex_intro _ l2 (ex_intro _ l3 eq_refl))) [] F eq_refl). }
    subst b. f_equal. inversion Hnd as [|? ? Hni Hnd']; subst. apply IH; [exact Hnd'|eapply Permutation_cons_inv; exact Hp|].
    intros a' b' (l1 & l2 & l3 & ->) F1 F2 ->.
    destruct (H a' b' (ex_intro _ (a :: l1) (ex_intro _ l2 (ex_intro _ l3 eq_refl))) (a :: F1) F2 eq_refl) as [<-|Hin];
      [|exact Hin].
    exfalso. apply Hni. apply in_or_app; right; left; reflexivity.
Qed.

(** ** No cycle => a linear extension exists (for true per-machine permutations) *)
Section Backward.
  Variables (I : instance) (P : list (list nat)).
  Hypothesis Htp : true_permutation I P.

  Lemma cnt_row m j : (m < num_machines I)%nat -> cnt j (nth m P []) = length (ops_on I m j).
  Proof.
    intros Hm. rewrite (cnt_perm _ _ _ (proj2 Htp m Hm)).
    rewrite (count_job_keys I m j (all_keys I) (fun _ => true) (NoDup_all_keys I)).
    - rewrite filter_all; [reflexivity|auto].
    - intros q. rewrite filter_all by auto. rewrite in_ops_on. tauto.
  Qed.

  Lemma decode_row_facts m : forall t seen,
    (forall j, (cnt j seen + cnt j t <= length (ops_on I m j))%nat) ->
    NoDup (decode_row I m seen t) /\
    forall x, In x (decode_row I m seen t) ->
      exists c, (cnt (fst x) seen <= c)%nat /\ (c < length (ops_on I m (fst x)))%nat /\
                snd x = nth c (ops_on I m (fst x)) 0%nat.
  Proof.
    induction t as [|j t IH]; intros seen Hc; [split; [constructor|intros x []]|].
    cbn [decode_row].
    assert (Hc' : forall j', (cnt j' (j :: seen) + cnt j' t <= length (ops_on I m j'))%nat).
    { intros j'. specialize (Hc j'). rewrite cnt_cons in *. lia. }
    destruct (IH (j :: seen) Hc') as [Hnd Hall].
    assert (Hc0 : (cnt j seen < length (ops_on I m j))%nat).
    { specialize (Hc j). rewrite cnt_cons, Nat.eqb_refl in Hc. lia. }
    split.
    - constructor; [|exact Hnd]. intros Hin. destruct (Hall _ Hin) as (c & Hle & Hlt & Hnth). cbn [fst snd] in *.
      rewrite cnt_cons, Nat.eqb_refl in Hle.
      assert (cnt j seen = c) by (apply (proj1 (NoDup_nth (ops_on I m j) 0%nat) (NoDup_ops_on I m j)); assumption).
      lia.
    - intros x [<-|Hx].
      + exists (cnt j seen). cbn [fst snd]. split; [lia|]. split; [exact Hc0|reflexivity].
      + destruct (Hall x Hx) as (c & Hle & Hlt & Hnth). exists c. rewrite cnt_cons in Hle.
        split; [lia|]. split; assumption.
  Qed.

  Lemma decode_facts m : (m < num_machines I)%nat ->
    NoDup (decode I P m) /\
    forall x, In x (decode I P m) -> In x (all_keys I) /\ on_machine_k I m x = true.
  Proof.
    intros Hm. unfold decode.
    destruct (decode_row_facts m (nth m P []) []) as [Hnd Hall].
    { intros j. rewrite (cnt_row m j Hm). unfold cnt at 1. simpl. lia. }
    split; [exact Hnd|]. intros [j p] Hx. destruct (Hall _ Hx) as (c & _ & Hlt & Hnth). cbn [fst snd] in *.
    apply in_ops_on. rewrite Hnth. apply nth_In. exact Hlt.
  Qed.

  Lemma decode_perm m F : (m < num_machines I)%nat -> NoDup F ->
    (forall x, In x F <-> In x (all_keys I) /\ on_machine_k I m x = true) -> Permutation (decode I P m) F.
  Proof.
    intros Hm HF Hiff. destruct (decode_facts m Hm) as [Hnd Hin]. apply NoDup_Permutation_bis.
    - exact Hnd.
    - assert (E : length (decode I P m) = length (filter (on_machine_k I m) (all_keys I))).
      { rewrite <- (map_length fst (decode I P m)). unfold decode. rewrite map_fst_decode_row.
        rewrite (Permutation_length (proj2 Htp m Hm)). unfold project. apply map_length. }
      rewrite E. apply NoDup_incl_length; [exact HF|]. intros x Hx. apply filter_In. apply Hiff. exact Hx.
    - intros x Hx. apply Hiff. apply Hin. exact Hx.
  Qed.

  Theorem cycle_or_linearisation :
    (exists k, clos_trans _ (prec I P) k k) \/ exists L, linearises I P L.
  Proof.
    destruct (topo_sort _ key_dec (prec I P) (prec_dec I P) _ (all_keys I) eq_refl (NoDup_all_keys I))
      as [H|(L & Hp & Ho)]; [left; exact H|right].
    assert (Hin : forall k, In k L <-> In k (all_keys I)).
    { intros k. split; intros H; [eapply Permutation_in; [exact Hp|exact H]|].
      eapply Permutation_in; [apply Permutation_sym; exact Hp|exact H]. }
    assert (HndL : NoDup L) by (eapply Permutation_NoDup; [apply Permutation_sym; exact Hp|apply NoDup_all_keys]).
    exists L. constructor.
    - exact Hp.
    - intros L1 [j p] L2 q E Hq. cbn [fst snd] in *.
      assert (Hk : In (j, p) (all_keys I)) by (apply Hin; rewrite E; apply in_or_app; right; left; reflexivity).
      assert (Hkq : In (j, q) (all_keys I)).
      { apply all_keys_In in Hk. destruct Hk as [o Ho']. destruct (get_op_bounds _ _ _ _ Ho') as [_ Hb].
        apply all_keys_In. apply get_op_some_lt. lia. }
      apply (Ho L1 (j, p) L2 (j, q) E Hkq). left. cbn [fst snd]. auto.
    - apply list_eq_nth with (d := []); [exact (proj1 Htp)|]. intros m Hm.
      rewrite <- (map_fst_decode_row I m (nth m P []) []). fold (decode I P m). unfold project. f_equal.
      destruct (decode_facts m Hm) as [Hnd Hdin]. apply order_unique.
      + exact Hnd.
      + apply decode_perm; [exact Hm|apply NoDup_filter; exact HndL|].
        intros x. rewrite filter_In, Hin. tauto.
      + intros a b Hbef F1 F2 EF. destruct (filter_split _ _ _ _ _ EF) as (L1 & R & EL & <- & _).
        assert (Ha : In a (decode I P m)).
        { destruct Hbef as (l1 & l2 & l3 & ->). apply in_or_app; right; left; reflexivity. }
        destruct (Hdin a Ha) as [Hak Hon]. apply filter_In. split; [|exact Hon].
        apply (Ho L1 b R a EL Hak). right. exists m. split; assumption.
  Qed.
End Backward.

Theorem linearisable_iff_acyclic I P :
  true_permutation I P -> ((exists L, linearises I P L) <-> acyclic I P).
Proof.
  intros Htp. split.
  - intros [L HL]. exact (linearises_acyclic I P L HL).
  - intros Hac. destruct (cycle_or_linearisation I P Htp) as [[k Hk]|H]; [exfalso; exact (Hac k Hk)|exact H].
Qed.

Theorem accept_iff_acyclic I P :
  valid I -> single_machine I -> true_permutation I P ->
  ((exists rows, from_job_sequences I (map (map Z.of_nat) P) = FOk rows) <-> acyclic I P).
Proof.
  intros Hv Hs Htp. rewrite <- (linearisable_iff_acyclic I P Htp). split.
  - intros [rows H].
    destruct (accept_only_if_linearisable I Hv Hs P rows (proj1 Htp) (true_permutation_total I Hs P Htp) H)
      as (h & d & _ & _ & HL). eauto.
  - intros [L HL]. destruct (accept_if_linearisable I Hv Hs P L HL) as (h & d & _ & _ & H). eauto.
Qed.

Theorem rejected_iff_cycle I P :
  valid I -> single_machine I -> true_permutation I P ->
  (from_job_sequences I (map (map Z.of_nat) P) = FErr EValidation <->
   exists k, clos_trans _ (prec I P) k k).
Proof.
  intros Hv Hs Htp. split.
  - intros Hrej. destruct (cycle_or_linearisation I P Htp) as [H|[L HL]]; [exact H|exfalso].
    destruct (accept_if_linearisable I Hv Hs P L HL) as (h & d & _ & _ & H). congruence.
  - intros [k Hk]. destruct (true_permutation_outcome I Hv Hs P Htp) as [(rows & _ & _ & _ & [L HL])|[H _]]; [exfalso|exact H].
    exact (linearises_acyclic I P L HL k Hk).
Qed.

(** *** The three readings agree: accepted, schedulable, acyclic. *)
Theorem schedule_iff_acyclic I P :
  positive I -> single_machine I -> true_permutation I P ->
  ((exists S, realises I P S) <-> acyclic I P).
Proof.
  intros Hpos Hs Htp. pose proof (positive_is_valid I Hpos) as Hv.
  rewrite <- (accept_iff_acyclic I P Hv Hs Htp). symmetry.
  apply (accepted_iff_schedule I P Hpos Hs (proj1 Htp) (true_permutation_total I Hs P Htp)).
Qed.

Lemma prec_def I P a b :
  prec I P a b <->
  (In a (all_keys I) /\ In b (all_keys I) /\ fst a = fst b /\ (snd a < snd b)%nat) \/
  (exists m, (m < num_machines I)%nat /\
             exists l1 l2 l3, decode_row I m [] (nth m P []) = l1 ++ a :: l2 ++ b :: l3).
Proof. reflexivity. Qed.

Lemma acyclic_def I P : acyclic I P <-> forall k, ~ clos_trans (nat * nat) (prec I P) k k.
Proof. reflexivity. Qed.

Lemma decode_row_def I m seen j t :
  decode_row I m seen [] = [] /\
  decode_row I m seen (j :: t) =
    (j, nth (length (filter (Nat.eqb j) seen))
            (filter (fun p => mem_nat m (kmachines I (j, p))) (seq 0 (length (get_job I j)))) 0%nat)
    :: decode_row I m (j :: seen) t.
Proof. split; reflexivity. Qed.
