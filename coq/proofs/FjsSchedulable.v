(** FjsSchedulable.v — [from_job_sequences] in terms of SCHEDULES.

    With positive durations, per-machine job sequences [P] are accepted
    exactly when some feasible complete schedule has [P] as its per-machine
    job sequences; for true per-machine permutations the rejection is the
    ValidationError exactly when no such schedule exists.

    The new direction (a schedule exists => accepted): list the operations of
    the schedule by non-decreasing start time. With positive durations the job
    order and the machine order both force STRICTLY increasing start times, so
    that list is a linear extension of "job order ∪ machine order of P"
    ([linearises], spec/ViewsSpec.v); FjsIff.v then gives acceptance. *)
From JSL Require Import Base Instance Dstate Filters World Feasible ListFacts DispatchFun Inv Run
  Views ViewsSpec ViewsProofs FjsInv FjsStep FjsRebuild FjsIff FjsPerm.
From Coq Require Import Lia Permutation Sorted.

(** ** Insertion sort of scheduled operations by start time *)
Definition le_start (a b : sop) : Prop := s_start a <= s_start b.
Definition lt_start (a b : sop) : Prop := s_start a < s_start b.

Fixpoint ins_start (x : sop) (l : list sop) : list sop :=
  match l with
  | [] => [x]
  | y :: t => if s_start x <=? s_start y then x :: l else y :: ins_start x t
  end.
Fixpoint sort_start (l : list sop) : list sop :=
  match l with [] => [] | x :: t => ins_start x (sort_start t) end.

Lemma ins_start_perm x l : Permutation (ins_start x l) (x :: l).
Proof.
  induction l as [|y t IH]; simpl; [apply Permutation_refl|].
  destruct (s_start x <=? s_start y); [apply Permutation_refl|].
  eapply Permutation_trans; [apply perm_skip; exact IH|apply perm_swap].
Qed.

Lemma sort_start_perm l : Permutation (sort_start l) l.
Proof.
  induction l as [|x t IH]; simpl; [constructor|].
  eapply Permutation_trans; [apply ins_start_perm|apply perm_skip; exact IH].
Qed.

Lemma ins_start_sorted x l : StronglySorted le_start l -> StronglySorted le_start (ins_start x l).
Proof.
  induction l as [|y t IH]; intros Hl; simpl.
  - constructor; constructor.
  - inversion Hl as [|? ? Ht Hy]; subst. destruct (s_start x <=? s_start y) eqn:E.
    + apply Z.leb_le in E. constructor; [exact Hl|]. constructor; [exact E|].
      rewrite Forall_forall in *. intros z Hz. specialize (Hy z Hz). unfold le_start in *. lia.
    + apply Z.leb_gt in E. constructor; [apply IH; exact Ht|].
      rewrite Forall_forall in *. intros z Hz.
      apply (Permutation_in _ (ins_start_perm x t)) in Hz. destruct Hz as [<-|Hz].
      * unfold le_start. lia.
      * apply Hy; exact Hz.
Qed.

Lemma sort_start_sorted l : StronglySorted le_start (sort_start l).
Proof. induction l as [|x t IH]; simpl; [constructor|apply ins_start_sorted; exact IH]. Qed.

Lemma sorted_split {A} (R : A -> A -> Prop) l1 x l2 :
  StronglySorted R (l1 ++ x :: l2) -> forall y, In y l2 -> R x y.
Proof.
  induction l1 as [|a l1 IH]; simpl; intros H y Hy.
  - inversion H as [|? ? _ Hx]; subst. rewrite Forall_forall in Hx. apply Hx; exact Hy.
  - inversion H as [|? ? Ht _]; subst. apply IH; assumption.
Qed.

Lemma sorted_filter {A} (R : A -> A -> Prop) (f : A -> bool) l :
  StronglySorted R l -> StronglySorted R (filter f l).
Proof.
  induction l as [|a l IH]; simpl; intros H; [constructor|].
  inversion H as [|? ? Ht Ha]; subst. destruct (f a); [|apply IH; exact Ht].
  constructor; [apply IH; exact Ht|]. rewrite Forall_forall in *. intros z Hz.
  apply filter_In in Hz. apply Ha. apply Hz.
Qed.

(** A strictly sorted list and a weakly sorted list with the same elements are equal. *)
Lemma sorted_unique (l1 : list sop) : forall l2,
  Permutation l1 l2 -> StronglySorted lt_start l1 -> StronglySorted le_start l2 -> l1 = l2.
Proof.
  induction l1 as [|a t1 IH]; intros l2 Hp H1 H2.
  - apply Permutation_nil in Hp. symmetry; exact Hp.
  - destruct l2 as [|b t2]; [apply Permutation_sym, Permutation_nil in Hp; discriminate|].
    inversion H1 as [|? ? Ht1 Ha]; subst. inversion H2 as [|? ? Ht2 Hb]; subst.
    rewrite Forall_forall in Ha, Hb.
    assert (E : a = b).
    { assert (Hain : In a (b :: t2)) by (eapply Permutation_in; [exact Hp|left; reflexivity]).
      assert (Hbin : In b (a :: t1)) by (eapply Permutation_in; [apply Permutation_sym; exact Hp|left; reflexivity]).
      destruct Hain as [E|Hain]; [symmetry; exact E|]. destruct Hbin as [E|Hbin]; [exact E|].
      specialize (Ha b Hbin). specialize (Hb a Hain). unfold lt_start, le_start in *. lia. }
    subst b. f_equal. apply IH; [eapply Permutation_cons_inv; exact Hp|exact Ht1|exact Ht2].
Qed.

Lemma NoDup_app_both {A} (a b : list A) : NoDup (a ++ b) -> NoDup a /\ NoDup b.
Proof.
  induction a as [|x a IH]; simpl; intros H; [split; [constructor|exact H]|].
  inversion H as [|? ? Hni Hnd]; subst. destruct (IH Hnd) as [Ha Hb]. split; [|exact Hb].
  constructor; [|exact Ha]. intros Hin. apply Hni. apply in_or_app; left; exact Hin.
Qed.

Lemma positive_is_valid I : positive I -> valid I.
Proof. intros H j p o Ho. destruct (H j p o Ho) as [Hd _]. lia. Qed.

Section Schedulable.
  Variable I : instance.
  Hypothesis Hpos : positive I.
  Hypothesis Hs : single_machine I.
  Variable S : schedule.
  Hypothesis Hf : feasible I S.
  Hypothesis Hc : complete I S.

  Lemma sch_dur_pos x : In x (all_sops S) -> 0 < dur I x.
  Proof.
    intros Hx. destruct (f_exists _ _ Hf x Hx) as (o & Ho & _). unfold dur. rewrite Ho.
    apply (Hpos _ _ _ Ho).
  Qed.

  Lemma sch_machine_key m x : In x (all_sops S) -> on_machine_k I m (key x) = on_mach m x.
  Proof.
    intros Hx. destruct (f_exists _ _ Hf x Hx) as (o & Ho & Hm). destruct (Hs _ _ _ Ho) as [mm Hmm].
    rewrite Hmm in Hm. simpl in Hm. destruct Hm as [Hm|[]].
    unfold on_mach, on_machine_k, kmachines, kop, key. cbn [fst snd]. rewrite Ho, Hmm, <- Hm. simpl.
    rewrite orb_false_r. apply Nat.eqb_sym.
  Qed.

  Lemma sch_row_in m row x : nth_error S m = Some row -> In x row -> In x (all_sops S).
  Proof. intros Hr Hx. apply In_concat_nth_error. eauto. Qed.

  (** Row [m] is strictly sorted by start time. *)
  Lemma row_sorted_strict row :
    (forall x, In x row -> 0 < dur I x) -> row_sorted I row -> StronglySorted lt_start row.
  Proof.
    induction row as [|x t IH]; intros Hd Hr; [constructor|].
    destruct t as [|y t'].
    - constructor; constructor.
    - destruct Hr as [Hxy Hr].
      assert (Ht : StronglySorted lt_start (y :: t')) by (apply IH; [intros z Hz; apply Hd; right; exact Hz|exact Hr]).
      constructor; [exact Ht|]. inversion Ht as [|? ? _ Hy]; subst.
      assert (Hlt : lt_start x y).
      { unfold lt_start. unfold s_end in Hxy. specialize (Hd x (or_introl eq_refl)). lia. }
      constructor; [exact Hlt|]. rewrite Forall_forall in *. intros z Hz. specialize (Hy z Hz).
      unfold lt_start in *. lia.
  Qed.

  Lemma NoDup_all_sops : NoDup (all_sops S).
  Proof. apply (NoDup_map_inv key). apply (f_once _ _ Hf). Qed.

  (** The operations on machine [m], by start time, are row [m]. *)
  Lemma sorted_row m :
    (m < length S)%nat -> filter (on_mach m) (sort_start (all_sops S)) = nth m S [].
  Proof.
    intros Hm. destruct (nth_error S m) as [row|] eqn:Er; [|apply nth_error_None in Er; lia].
    rewrite (nth_error_nth _ _ _ Er). symmetry. apply sorted_unique.
    - apply NoDup_Permutation.
      + assert (H : NoDup (all_sops S)) by apply NoDup_all_sops.
        unfold all_sops in H. clear -H Er. revert m Er. induction S as [|r S' IH]; intros [|m] Er; simpl in *; try discriminate.
        * inversion Er; subst. apply NoDup_app_both in H. apply H.
        * apply NoDup_app_both in H. destruct H as [_ H]. eapply IH; eauto.
      + apply NoDup_filter. eapply Permutation_NoDup; [apply Permutation_sym; apply sort_start_perm|apply NoDup_all_sops].
      + intros x. rewrite filter_In. split.
        * intros Hx. split.
          -- eapply Permutation_in; [apply Permutation_sym; apply sort_start_perm|eapply sch_row_in; eauto].
          -- unfold on_mach. apply Nat.eqb_eq. eapply (f_row _ _ Hf); eauto.
        * intros [Hx Hxm]. apply (Permutation_in _ (sort_start_perm _)) in Hx.
          apply In_concat_nth_error in Hx. destruct Hx as (m' & row' & Hr' & Hin).
          unfold on_mach in Hxm. apply Nat.eqb_eq in Hxm. rewrite (f_row _ _ Hf _ _ _ Hr' Hin) in Hxm. subst m'.
          rewrite Er in Hr'. inversion Hr'; subst. exact Hin.
    - apply row_sorted_strict.
      + intros x Hx. apply sch_dur_pos. eapply sch_row_in; eauto.
      + apply (f_machine _ _ Hf). eapply nth_error_In; eauto.
    - apply sorted_filter. apply sort_start_sorted.
  Qed.

  Theorem schedule_linearises P :
    length P = num_machines I -> job_sequences S = map (map Z.of_nat) P ->
    linearises I P (map key (sort_start (all_sops S))).
  Proof.
    intros Hlen HP.
    assert (HP' : P = map (map s_job) S).
    { apply map_map_of_nat_inj. rewrite <- HP. unfold job_sequences. rewrite map_map.
      apply map_ext. intros row. rewrite map_map. reflexivity. }
    assert (HlenS : length S = num_machines I) by (rewrite <- Hlen, HP', map_length; reflexivity).
    set (h := sort_start (all_sops S)).
    assert (Hin : forall x, In x h <-> In x (all_sops S)).
    { intros x. split; intros H.
      - eapply Permutation_in; [apply sort_start_perm|exact H].
      - eapply Permutation_in; [apply Permutation_sym; apply sort_start_perm|exact H]. }
    constructor.
    - apply NoDup_Permutation.
      + eapply Permutation_NoDup; [|apply (f_once _ _ Hf)].
        apply Permutation_map. apply Permutation_sym. apply sort_start_perm.
      + apply NoDup_all_keys.
      + intros [j p]. rewrite all_keys_In. split.
        * intros H. apply in_map_iff in H. destruct H as (x & Hk & Hx). apply Hin in Hx.
          destruct (f_exists _ _ Hf x Hx) as (o & Ho & _). unfold key in Hk. injection Hk as Hj Hp.
          subst. eauto.
        * intros [o Ho]. destruct (Hc _ _ _ Ho) as (y & Hy & Hk).
          apply in_map_iff. exists y. split; [exact Hk|apply Hin; exact Hy].
    - intros L1 k L2 q E Hq. apply map_eq_app in E. destruct E as (h1 & h2' & Eh & <- & E2).
      apply map_eq_cons in E2. destruct E2 as (x & h2 & -> & <- & _).
      assert (Hx : In x (all_sops S)) by (apply Hin; rewrite Eh; apply in_or_app; right; left; reflexivity).
      cbn [key fst snd] in *.
      destruct (f_prefix _ _ Hf x q Hx Hq) as (y & Hy & Hky).
      apply in_map_iff. exists y. split; [exact Hky|].
      pose proof Hy as Hyh. apply Hin in Hyh. rewrite Eh in Hyh. apply in_app_or in Hyh.
      destruct Hyh as [Hyh|[Hyx|Hyh]]; [exact Hyh|exfalso|exfalso].
      + subst y. unfold key in Hky. injection Hky as Hp. lia.
      + assert (Hle : le_start x y).
        { apply (sorted_split le_start h1 x h2); [rewrite <- Eh; apply sort_start_sorted|exact Hyh]. }
        unfold key in Hky. injection Hky as Hyj Hyp.
        assert (Hend : s_end I y <= s_start x) by (apply (f_job _ _ Hf y x Hy Hx); [exact Hyj|lia]).
        pose proof (sch_dur_pos y Hy) as Hd. unfold le_start, s_end in *. lia.
    - rewrite HP'. apply list_eq_nth with (d := map s_job []).
      + rewrite map_length. exact HlenS.
      + intros m Hm. rewrite map_nth. unfold project. rewrite filter_map_comm, map_map. cbn [key fst].
        rewrite <- (sorted_row m) by (rewrite HlenS; exact Hm). fold h. f_equal.
        apply filter_ext_in. intros x Hx. symmetry. apply sch_machine_key. apply Hin; exact Hx.
  Qed.
End Schedulable.

(** ** The statements in terms of schedules *)

(** [S] realises [P]: a feasible complete schedule whose per-machine job
    sequences are [P]. *)
Definition realises (I : instance) (P : list (list nat)) (S : schedule) : Prop :=
  feasible I S /\ complete I S /\ job_sequences S = map (map Z.of_nat) P.

Lemma realises_def I P S :
  realises I P S <-> feasible I S /\ complete I S /\ job_sequences S = map (map Z.of_nat) P.
Proof. unfold realises. tauto. Qed.

Theorem schedule_order_linearises I P S :
  positive I -> single_machine I -> length P = num_machines I ->
  feasible I S -> complete I S -> job_sequences S = map (map Z.of_nat) P ->
  linearises I P (map key (sort_start (all_sops S))).
Proof. intros Hp Hs Hl Hf Hc HP. exact (schedule_linearises I Hp Hs S Hf Hc P Hl HP). Qed.

Theorem schedule_accepted I P S :
  positive I -> single_machine I -> length P = num_machines I -> realises I P S ->
  exists rows, from_job_sequences I (map (map Z.of_nat) P) = FOk rows.
Proof.
  intros Hpos Hs Hlen (Hf & Hc & HP). pose proof (positive_is_valid I Hpos) as Hv.
  pose proof (schedule_linearises I Hpos Hs S Hf Hc P Hlen HP) as HL.
  destruct (accept_if_linearisable I Hv Hs P _ HL) as (h & d & _ & _ & H). eauto.
Qed.

Theorem accepted_realises I P rows :
  valid I -> single_machine I -> length P = num_machines I -> sumN (map (@length nat) P) = num_ops I ->
  from_job_sequences I (map (map Z.of_nat) P) = FOk rows -> realises I P rows.
Proof.
  intros Hv Hs Hlen Hn H. pose proof (from_job_sequences_sound I (map (map Z.of_nat) P) Hv) as Hsound.
  rewrite H in Hsound. destruct Hsound as [Hf Hc]. split; [exact Hf|]. split; [exact Hc|].
  apply (accepted_rows_have_sequences I P rows Hv Hs Hlen Hn H).
Qed.

Theorem accepted_iff_schedule I P :
  positive I -> single_machine I -> length P = num_machines I -> sumN (map (@length nat) P) = num_ops I ->
  ((exists rows, from_job_sequences I (map (map Z.of_nat) P) = FOk rows) <-> (exists S, realises I P S)).
Proof.
  intros Hpos Hs Hlen Hn. pose proof (positive_is_valid I Hpos) as Hv. split.
  - intros [rows H]. exists rows. apply accepted_realises; assumption.
  - intros [S HS]. eapply schedule_accepted; eauto.
Qed.

Theorem rejected_iff_no_schedule I P :
  positive I -> single_machine I -> true_permutation I P ->
  (from_job_sequences I (map (map Z.of_nat) P) = FErr EValidation <-> ~ exists S, realises I P S).
Proof.
  intros Hpos Hs Htp. pose proof (positive_is_valid I Hpos) as Hv.
  pose proof (true_permutation_total I Hs P Htp) as Hn. pose proof (proj1 Htp) as Hlen. split.
  - intros Hrej [S HS]. destruct (schedule_accepted I P S Hpos Hs Hlen HS) as [rows H]. congruence.
  - intros Hno. destruct (true_permutation_outcome I Hv Hs P Htp) as [(rows & H & _)|[H _]]; [exfalso|exact H].
    apply Hno. exists rows. apply accepted_realises; assumption.
Qed.

(** Boolean checks used to exhibit concrete witnesses. *)
Lemma positiveb_is_positive I : positiveb I = true -> positive I.
Proof.
  unfold positiveb, positive. rewrite forallb_forall. intros H j p o Ho. unfold get_op in Ho.
  destruct (nth_error I j) as [job|] eqn:Ej; [|discriminate].
  specialize (H job (nth_error_In _ _ Ej)). rewrite forallb_forall in H.
  specialize (H o (nth_error_In _ _ Ho)). unfold positive_opb in H. apply andb_true_iff in H.
  destruct H as [H1 H2]. apply Z.ltb_lt in H1. split; [exact H1|]. destruct (machines o); discriminate.
Qed.

Lemma completeb_is_complete I S : completeb I S = true -> complete I S.
Proof.
  unfold completeb, complete. rewrite forallb_forall. intros H j p o Ho.
  assert (Hk : In (j, p) (all_keys I)) by (apply all_keys_In; eauto).
  specialize (H _ Hk). apply mem_key_In in H. apply in_map_iff in H. destruct H as (x & Hx & Hin). eauto.
Qed.

Lemma realises_by_computation I P S :
  feasibleb I S = true -> completeb I S = true -> job_sequences S = map (map Z.of_nat) P -> realises I P S.
Proof.
  intros H1 H2 H3. split; [apply feasibleb_spec; exact H1|]. split; [apply completeb_is_complete; exact H2|exact H3].
Qed.

(** Exactly two outcomes for a true per-machine permutation. *)
Theorem true_permutation_schedule_outcome I P :
  positive I -> single_machine I -> true_permutation I P ->
  (exists rows, from_job_sequences I (map (map Z.of_nat) P) = FOk rows /\ realises I P rows) \/
  (from_job_sequences I (map (map Z.of_nat) P) = FErr EValidation /\ ~ exists S, realises I P S).
Proof.
  intros Hpos Hs Htp. pose proof (positive_is_valid I Hpos) as Hv.
  pose proof (true_permutation_total I Hs P Htp) as Hn. pose proof (proj1 Htp) as Hlen.
  destruct (true_permutation_outcome I Hv Hs P Htp) as [(rows & H & _)|[H _]].
  - left. exists rows. split; [exact H|]. apply accepted_realises; assumption.
  - right. split; [exact H|]. apply (rejected_iff_no_schedule I P Hpos Hs Htp). exact H.
Qed.
