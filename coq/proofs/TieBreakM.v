(** TieBreakM.v — C04: the rule PROGRAMS built by [score_based_rule] and
    [score_based_rule_with_tie_breaker] (scoring functions called lazily, the
    observer-based scorer possibly creating its observers on the way) return
    what the pure loops [score_based_of] / [tb_of] return on the vectors the
    scoring functions have in the current state. *)
From JSL Require Import Base Instance Dstate Filters World Feasible Derived ListFacts DispatchFun
     Inv Run Replay Queries Notify Sublist NoDeadlock RuleObservers Rules RulesSpec RulesProofs SolverProofs
     MwkrAgree.
From Coq Require Import Lia.

Section TieBreakM.
  Variable I : instance.
  Hypothesis Hv : valid I.
  Hypothesis Hm : has_machines I.

  (** a scorer argument must be a scorer object of the store *)
  Definition sfun_ok (w : rwld) (s : sfun) : Prop :=
    match s with
    | SMwkrObs si => exists a b, nth_error (objs w) si = Some (OScorer a b)
    | _ => True
    end.

  Definition keeps_scorers (w w' : rwld) : Prop :=
    forall sj a0 b0, nth_error (objs w) sj = Some (OScorer a0 b0) ->
                     exists a' b', nth_error (objs w') sj = Some (OScorer a' b').

  Lemma keeps_sfun_ok w w' s : keeps_scorers w w' -> sfun_ok w s -> sfun_ok w' s.
  Proof. intros Hk. destruct s; simpl; auto. intros (a & b & H). eapply Hk; eauto. Qed.

  Lemma ext_keeps (w w' : rwld) : ext robs w w' -> keeps_scorers w w'.
  Proof. intros (_ & _ & Ho & _) sj a0 b0 H. rewrite Ho. eauto. Qed.

  Theorem run_sfun_spec s (w : rwld) :
    RI I w -> sfun_ok w s ->
    exists w', run_sfun I s w = (w', inl (sfun_vec I (filt w) (core w) s)) /\
               RI I w' /\ core w' = core w /\ filt w' = filt w /\ keeps_scorers w w'.
  Proof.
    intros Hri Hok. pose proof Hri as [Hi Hw Ho].
    destruct s as [| | |si|dr|v]; unfold run_sfun, sfun_vec.
    - unfold bind. destruct (q_avail_answers robs I w Hw) as (w1 & E1 & Hx & Hw1). rewrite E1.
      exists w1. unfold ret. split; [reflexivity|]. split; [eapply RI_ext; eauto|].
      pose proof (ext_keeps _ _ Hx) as Hk. destruct Hx as (Hc & Hf & _). auto.
    - unfold bind. destruct (q_avail_answers robs I w Hw) as (w1 & E1 & Hx & Hw1). rewrite E1.
      exists w1. unfold ret. split; [reflexivity|]. split; [eapply RI_ext; eauto|].
      pose proof (ext_keeps _ _ Hx) as Hk. destruct Hx as (Hc & Hf & _). auto.
    - unfold bind. destruct (q_uncompleted_answers robs I w Hw) as (w1 & E1 & Hx & Hw1). rewrite E1.
      exists w1. unfold ret. split; [reflexivity|]. split; [eapply RI_ext; eauto|].
      pose proof (ext_keeps _ _ Hx) as Hk. destruct Hx as (Hc & Hf & _). auto.
    - destruct Hok as (a & b & Hsi).
      destruct (scorer_call_spec I si a b w Ho Hsi) as (w1 & E1 & Ho1 & Hc1 & Hf1 & Hk1 & Hs1).
      exists w1. split; [exact E1|]. split.
      + constructor; [rewrite Hc1; exact Hi|unfold wok in *; rewrite Hc1, Hf1, Hk1; exact Hw|exact Ho1].
      + auto.
    - exists w. unfold ret. split; [reflexivity|]. split; [exact Hri|]. split; [reflexivity|].
      split; [reflexivity|]. intros sj a0 b0 H; eauto.
    - exists w. unfold ret. split; [reflexivity|]. split; [exact Hri|]. split; [reflexivity|].
      split; [reflexivity|]. intros sj a0 b0 H; eauto.
  Qed.

  Theorem tb_loop_spec sfs : forall cands (w : rwld),
    RI I w -> (forall s, In s sfs -> sfun_ok w s) ->
    exists w', tb_loop I sfs cands w = (w', tb_of (map (sfun_vec I (filt w) (core w)) sfs) cands) /\
               RI I w' /\ core w' = core w /\ filt w' = filt w.
  Proof.
    induction sfs as [|s rest IH]; intros cands w Hri Hok.
    - exists w. simpl. unfold of_opt, ret, raise. destruct cands; (split; [reflexivity|auto]).
    - cbn [tb_loop map tb_of].
      destruct (run_sfun_spec s w Hri (Hok s (or_introl eq_refl))) as (w1 & E1 & Hri1 & Hc1 & Hf1 & Hk1).
      unfold bind at 1. rewrite E1.
      destruct (best_score (sfun_vec I (filt w) (core w) s) cands) as [best|] eqn:Eb.
      + unfold bind at 1. unfold of_opt at 1. unfold ret at 1.
        assert (Hok1 : forall s', In s' rest -> sfun_ok w1 s').
        { intros s' Hs'. eapply keeps_sfun_ok; [exact Hk1|]. apply Hok. right. exact Hs'. }
        destruct (keep_best (sfun_vec I (filt w) (core w) s) best cands) as [|x [|y t]] eqn:Ek.
        * destruct (IH [] w1 Hri1 Hok1) as (w2 & E2 & Hri2 & Hc2 & Hf2). exists w2.
          rewrite E2, Hc1, Hf1. split; [reflexivity|]. split; [exact Hri2|]. split; congruence.
        * exists w1. unfold ret. split; [reflexivity|]. split; [exact Hri1|]. split; assumption.
        * destruct (IH (x :: y :: t) w1 Hri1 Hok1) as (w2 & E2 & Hri2 & Hc2 & Hf2). exists w2.
          rewrite E2, Hc1, Hf1. split; [reflexivity|]. split; [exact Hri2|]. split; congruence.
      + unfold bind at 1. unfold of_opt at 1. unfold raise at 1.
        exists w1. split; [reflexivity|]. split; [exact Hri1|]. split; assumption.
  Qed.

  (** [score_based_rule_with_tie_breaker(sfs)(dispatcher)] *)
  Theorem rule_tie_breaker_spec sfs (w : rwld) :
    RI I w -> (forall s, In s sfs -> sfun_ok w s) ->
    exists w', rule_tie_breaker I sfs w =
                 (w', tb_of (map (sfun_vec I (filt w) (core w)) sfs) (available I (core w) (filt w))) /\
               RI I w' /\ core w' = core w /\ filt w' = filt w.
  Proof.
    intros Hri Hok. pose proof Hri as [Hi Hw Ho].
    unfold rule_tie_breaker, bind. destruct (q_avail_answers robs I w Hw) as (w1 & E1 & Hx & Hw1). rewrite E1.
    change (p_avail I (filt w) (core w)) with (available I (core w) (filt w)).
    assert (Hri1 : RI I w1) by (eapply RI_ext; eauto).
    assert (Hok1 : forall s, In s sfs -> sfun_ok w1 s).
    { intros s Hs. eapply keeps_sfun_ok; [apply ext_keeps; exact Hx|apply Hok; exact Hs]. }
    destruct (tb_loop_spec sfs (available I (core w) (filt w)) w1 Hri1 Hok1) as (w2 & E2 & Hri2 & Hc2 & Hf2).
    destruct Hx as (Hc & Hf & _). exists w2. rewrite E2, Hc, Hf.
    split; [reflexivity|]. split; [exact Hri2|]. split; congruence.
  Qed.

  (** [score_based_rule(s)(dispatcher)] *)
  Theorem rule_score_based_spec s (w : rwld) :
    RI I w -> sfun_ok w s ->
    exists w', rule_score_based I s w =
                 (w', opt_sum (score_based_of (sfun_vec I (filt w) (core w) s) (available I (core w) (filt w))) EOther) /\
               RI I w' /\ core w' = core w /\ filt w' = filt w.
  Proof.
    intros Hri Hok.
    destruct (run_sfun_spec s w Hri Hok) as (w1 & E1 & Hri1 & Hc1 & Hf1 & _).
    destruct (q_avail_answers robs I w1 (ri_wok _ _ Hri1)) as (w2 & E2 & Hx & Hw2).
    exists w2. unfold rule_score_based. unfold bind at 1. rewrite E1. unfold bind at 1. rewrite E2.
    rewrite Hc1, Hf1. change (p_avail I (filt w) (core w)) with (available I (core w) (filt w)).
    split; [unfold of_opt, opt_sum, ret, raise; destruct (score_based_of _ _); reflexivity|].
    split; [eapply RI_ext; eauto|]. destruct Hx as (Hc & Hf & _). split; congruence.
  Qed.
End TieBreakM.
