(** ResetResidual.v — C12 for the residual graph updater (model/Residual.v,
    initialisation as repaired by 196fa58): whatever dependency observers were
    created before the updater on the new dispatcher, whatever its options,
    whatever graph it was given and whatever was dispatched since,
    [Dispatcher.reset] leaves the updater — its graph, the observers it
    depends on, in their subscription order — exactly as the constructors
    left them on the new dispatcher. *)
From JSL Require Import Base Instance Dstate Filters World Observers Graph ListFacts DispatchFun Run Replay
     Residual ResidualObs ResidualProofs ResetFeatures.
From Coq Require Import Lia.

(** what never changes about a dependency observer: its class and which
    feature types it tracks *)
Inductive dkind := KU | KR (hm hj : bool) | KC (hm hj : bool).
Definition dk (o : dep) : dkind :=
  match o with
  | DUnsched _ => KU
  | DRemOps r => KR (is_some (ro_m r)) (is_some (ro_j r))
  | DIsComp c => KC (ic_m c) (ic_j c)
  end.
Definition isKU (k : dkind) : bool := match k with KU => true | _ => false end.
Definition okR (nm nj : bool) (k : dkind) : bool :=
  match k with KR a b => (negb nm || a) && (negb nj || b) | _ => false end.

Definition hasd (ks : list dkind) (q : dkind -> bool) : Prop := exists k, In k ks /\ q k = true.
Definition closedd (ks : list dkind) : Prop :=
  forall k, In k ks ->
    match k with
    | KU => True
    | KR _ _ => hasd ks isKU
    | KC hm hj => hasd ks (okR hm hj)
    end.

Lemma hasd_app ks ks' q : hasd ks q -> hasd (ks ++ ks') q.
Proof. intros (k & Hin & Hq). exists k. split; [apply in_or_app; left; exact Hin|exact Hq]. Qed.

Lemma find_dep_has {A} (f : dep -> option A) (q : dkind -> bool) :
  (forall o, q (dk o) = true -> f o <> None) ->
  forall ch i, hasd (map dk ch) q -> exists k a, find_dep f i ch = Some (k, a).
Proof.
  intros Hq. induction ch as [|o t IH]; intros i (k & Hin & Hk); [destruct Hin|].
  cbn [find_dep]. destruct (f o) as [a|] eqn:E; [exists i, a; reflexivity|].
  destruct Hin as [<-|Hin]; [exfalso; apply (Hq o Hk); exact E|].
  apply IH. exists k. split; assumption.
Qed.

Lemma as_unsched_q o : isKU (dk o) = true -> as_unsched o <> None.
Proof. destruct o; simpl; intros H; congruence. Qed.
Lemma as_remops_q nm nj o : okR nm nj (dk o) = true -> as_remops nm nj o <> None.
Proof.
  destruct o as [dq|r|c]; simpl; intros H; try discriminate. unfold remops_ok.
  destruct r as [[m|] [j|]]; simpl in *; rewrite H; discriminate.
Qed.

Section RR.
  Variable I : instance.
  Let d0 := init_d I.

  (** [reset()] of one dependency observer in dispatcher state [d] *)
  Definition rdep (d : dstate) (o : dep) : dep :=
    match o with
    | DUnsched _ => DUnsched (all_deques I)
    | DRemOps r => DRemOps (remops_init I (unscheduled_ops I d) (is_some (ro_m r)) (is_some (ro_j r)))
    | DIsComp c => DIsComp (ic_init I (ic_o c) (ic_m c) (ic_j c) (ic_rem_m c) (ic_rem_j c)
                                    (remops_init I (unscheduled_ops I d) (ic_m c) (ic_j c)))
    end.

  Lemma dk_rdep d o : dk (rdep d o) = dk o.
  Proof.
    destruct o as [dq|[m j]|c]; simpl; [reflexivity| |reflexivity].
    destruct m, j; reflexivity.
  Qed.

  Lemma rdep_update d x o : rdep d (dep_update I x o) = rdep d o.
  Proof.
    destruct o as [dq|[[m|] [j|]]|[o [] [] rm rj fm fj]]; reflexivity.
  Qed.

  Lemma rdep_idem d o : rdep d (rdep d o) = rdep d o.
  Proof.
    destruct o as [dq|[[m|] [j|]]|[o [] [] rm rj fm fj]]; reflexivity.
  Qed.

  (** *** [reset()] of the subscriber at [i], all dependencies subscribed *)
  Lemma dep_reset_closed d ch i o : closedd (map dk ch) -> nth_error ch i = Some o ->
    dep_reset I d ch i = upd ch i (rdep d o).
  Proof.
    intros Hc Ho. unfold dep_reset. rewrite Ho.
    assert (Hk : In (dk o) (map dk ch)) by (apply in_map; eapply nth_error_In; eauto).
    specialize (Hc (dk o) Hk). destruct o as [dq|r|c]; cbn [dk rdep] in *.
    - reflexivity.
    - unfold get_or_new_unsched.
      destruct (find_dep_has as_unsched isKU as_unsched_q ch 0 Hc) as (k & a & E). rewrite E. reflexivity.
    - unfold get_or_new_remops.
      destruct (find_dep_has (as_remops (ic_m c) (ic_j c)) (okR (ic_m c) (ic_j c)) (as_remops_q _ _) ch 0 Hc)
        as (k & a & E). rewrite E. reflexivity.
  Qed.

  (** *** The loop over the subscribers *)
  Section Loop.
    Variable d : dstate.
    Variable ch0 : list dep.
    Hypothesis Hcl : closedd (map dk ch0).

    Definition upto (k : nat) (ch : list dep) : Prop :=
      map dk ch = map dk ch0 /\
      (forall j, (j < k)%nat -> nth_error ch j = option_map (rdep d) (nth_error ch0 j)) /\
      (forall j, (k <= j)%nat -> nth_error ch j = nth_error ch0 j).

    Lemma upto_length k ch : upto k ch -> length ch = length ch0.
    Proof. intros (H & _). apply (f_equal (@length dkind)) in H. rewrite !map_length in H. exact H. Qed.

    Lemma upto_step k ch : upto k ch -> (k < length ch0)%nat -> upto (S k) (dep_reset I d ch k).
    Proof.
      intros Hu Hk. pose proof (upto_length k ch Hu) as Hl. destruct Hu as (Hd & Hlo & Hhi).
      destruct (nth_error ch k) as [o|] eqn:Ho; [|apply nth_error_None in Ho; lia].
      rewrite (dep_reset_closed d ch k o); [|rewrite Hd; exact Hcl|exact Ho].
      assert (Ho0 : nth_error ch0 k = Some o) by (rewrite <- (Hhi k (le_n k)); exact Ho).
      split; [|split].
      - rewrite map_upd, dk_rdep. rewrite upd_same; [exact Hd|]. rewrite nth_error_map, Ho. reflexivity.
      - intros j Hj. destruct (Nat.eq_dec k j) as [<-|Hne].
        + rewrite nth_error_upd_eq by lia. rewrite Ho0. reflexivity.
        + rewrite nth_error_upd_neq by exact Hne. apply Hlo. lia.
      - intros j Hj. rewrite nth_error_upd_neq by lia. apply Hhi. lia.
    Qed.

    Lemma reset_loop_upto : forall fuel k ch, upto k ch -> (k <= length ch0)%nat -> (length ch0 - k < fuel)%nat ->
      reset_loop I d fuel k ch = map (rdep d) ch0.
    Proof.
      induction fuel as [|f IH]; intros k ch Hu Hk Hf; [lia|]. cbn [reset_loop].
      rewrite (upto_length k ch Hu). destruct (k <? length ch0)%nat eqn:E.
      - apply Nat.ltb_lt in E. apply IH; [apply upto_step; assumption|lia|lia].
      - apply Nat.ltb_ge in E. assert (k = length ch0) by lia. subst k.
        pose proof (upto_length _ ch Hu) as Hl. destruct Hu as (_ & Hlo & _).
        apply list_eq_nth_error; [rewrite map_length; exact Hl|].
        intros j Hj. rewrite nth_error_map. apply Hlo. lia.
    Qed.

    Lemma reset_loop_all : reset_loop I d (length ch0 + 2) 0 ch0 = map (rdep d) ch0.
    Proof.
      apply reset_loop_upto; [|lia|lia]. split; [reflexivity|]. split; [intros j Hj; lia|reflexivity].
    Qed.
  End Loop.

  (** *** Dependency lists built by constructors on the new dispatcher *)
  Definition Good0 (ch : list dep) : Prop := closedd (map dk ch) /\ map (rdep d0) ch = ch.

  Lemma Good0_nil : Good0 [].
  Proof. split; [intros k []|reflexivity]. Qed.

  Lemma Good0_extend ch news :
    Good0 ch ->
    (forall o, In o news -> rdep d0 o = o) ->
    (forall o, In o news ->
       match dk o with
       | KU => True
       | KR _ _ => hasd (map dk (ch ++ news)) isKU
       | KC hm hj => hasd (map dk (ch ++ news)) (okR hm hj)
       end) ->
    Good0 (ch ++ news).
  Proof.
    intros [Hc Hf] Hn Hd. split.
    - intros k Hk. rewrite map_app in Hk. apply in_app_or in Hk. destruct Hk as [Hk|Hk].
      + specialize (Hc k Hk). rewrite map_app. destruct k; [exact Logic.I|apply hasd_app; exact Hc|apply hasd_app; exact Hc].
      + apply in_map_iff in Hk. destruct Hk as (o & <- & Hin). exact (Hd o Hin).
    - rewrite map_app, Hf. f_equal. apply map_fixed. exact Hn.
  Qed.

  Definition Ud : dep := DUnsched (all_deques I).
  Definition Rd (hm hj : bool) : dep := DRemOps (remops_init I (unscheduled_ops I d0) hm hj).
  Definition Cd (ho hm hj : bool) : dep :=
    DIsComp (ic_init I ho hm hj (repeat 0 (num_machines I)) (repeat 0 (num_jobs I))
                     (remops_init I (unscheduled_ops I d0) hm hj)).

  Lemma Ud_fixed : rdep d0 Ud = Ud. Proof. reflexivity. Qed.
  Lemma Rd_fixed hm hj : rdep d0 (Rd hm hj) = Rd hm hj. Proof. destruct hm, hj; reflexivity. Qed.
  Lemma Cd_fixed ho hm hj : rdep d0 (Cd ho hm hj) = Cd ho hm hj. Proof. destruct hm, hj; reflexivity. Qed.
  Lemma dk_Rd hm hj : dk (Rd hm hj) = KR hm hj. Proof. destruct hm, hj; reflexivity. Qed.
  Lemma dk_Cd ho hm hj : dk (Cd ho hm hj) = KC hm hj. Proof. reflexivity. Qed.

  Lemma gnu_shape ch :
    (fst (get_or_new_unsched I d0 ch) = ch /\ hasd (map dk ch) isKU) \/
    fst (get_or_new_unsched I d0 ch) = ch ++ [Ud].
  Proof.
    unfold get_or_new_unsched. destruct (find_dep as_unsched 0 ch) as [[k a]|] eqn:E.
    - left. split; [reflexivity|]. apply find_dep_some in E. destruct E as [_ (o & Hn & Hf)].
      exists (dk o). split; [apply in_map; eapply nth_error_In; eauto|]. destruct o; try discriminate. reflexivity.
    - right. cbn [fst]. unfold d0. rewrite unsched_construct_init. reflexivity.
  Qed.

  Lemma new_remops_shape hm hj ch :
    exists rest, fst (new_remops I d0 hm hj ch) = ch ++ Rd hm hj :: rest /\
      ((rest = [] /\ hasd (map dk ch) isKU) \/ rest = [Ud]).
  Proof.
    unfold new_remops.
    destruct (gnu_shape (ch ++ [DRemOps (mkro None None)])) as [[E Hh]|E];
      destruct (get_or_new_unsched I d0 (ch ++ [DRemOps (mkro None None)])) as [ch2 dq]; cbn [fst] in *; subst ch2.
    - exists []. split; [apply upd_mid|]. left. split; [reflexivity|].
      destruct Hh as (k & Hin & Hq). rewrite map_app in Hin. apply in_app_or in Hin.
      destruct Hin as [Hin|[<-|[]]]; [exists k; split; assumption|discriminate].
    - exists [Ud]. split; [|right; reflexivity]. rewrite <- app_assoc. cbn [app]. apply upd_mid.
  Qed.

  Lemma gnr_shape nm nj ch :
    (fst (get_or_new_remops I d0 nm nj ch) = ch /\ hasd (map dk ch) (okR nm nj)) \/
    fst (get_or_new_remops I d0 nm nj ch) = fst (new_remops I d0 nm nj ch).
  Proof.
    unfold get_or_new_remops. destruct (find_dep (as_remops nm nj) 0 ch) as [[k a]|] eqn:E.
    - left. split; [reflexivity|]. apply find_dep_some in E. destruct E as [_ (o & Hn & Hf)].
      exists (dk o). split; [apply in_map; eapply nth_error_In; eauto|].
      destruct o as [|r|]; try discriminate. cbn [as_remops] in Hf.
      destruct (remops_ok nm nj r) eqn:Eo; [|discriminate]. unfold remops_ok in Eo. exact Eo.
    - right. reflexivity.
  Qed.

  Lemma okR_self hm hj : okR hm hj (KR hm hj) = true.
  Proof. destruct hm, hj; reflexivity. Qed.

  Lemma new_iscomp_shape ho hm hj ch :
    snd (new_iscomp I d0 ho hm hj ch) = length ch /\
    exists rest, fst (new_iscomp I d0 ho hm hj ch) = ch ++ Cd ho hm hj :: rest /\
      (forall o, In o rest -> rdep d0 o = o) /\
      hasd (map dk (ch ++ Cd ho hm hj :: rest)) (okR hm hj) /\
      (forall o, In o rest -> match dk o with
                              | KU => True
                              | KR _ _ => hasd (map dk (ch ++ Cd ho hm hj :: rest)) isKU
                              | KC _ _ => False end).
  Proof.
    unfold new_iscomp.
    set (ph := DIsComp (mkic ho hm hj (repeat 0 (num_machines I)) (repeat 0 (num_jobs I)) [] [])).
    pose proof (gnr_shape hm hj (ch ++ [ph])) as Hs.
    destruct (get_or_new_remops I d0 hm hj (ch ++ [ph])) as [ch2 r] eqn:E2. cbn [fst snd] in *.
    split; [reflexivity|].
    assert (Hdk : forall rest, map dk (ch ++ Cd ho hm hj :: rest) = map dk (ch ++ ph :: rest))
      by (intros rest; rewrite !map_app; reflexivity).
    destruct Hs as [[-> Hh]|Hs].
    - exists []. split; [apply upd_mid|]. split; [intros o []|]. split; [rewrite Hdk; exact Hh|intros o []].
    - destruct (new_remops_shape hm hj (ch ++ [ph])) as (rest & Hn & Hr). rewrite Hn in Hs. subst ch2.
      exists (Rd hm hj :: rest). rewrite <- app_assoc. cbn [app]. split; [apply upd_mid|].
      assert (HR : hasd (map dk (ch ++ Cd ho hm hj :: Rd hm hj :: rest)) (okR hm hj)).
      { exists (KR hm hj). split; [|apply okR_self]. rewrite map_app. apply in_or_app. right.
        cbn [map]. right. left. apply dk_Rd. }
      assert (HU : hasd (map dk (ch ++ Cd ho hm hj :: Rd hm hj :: rest)) isKU).
      { destruct Hr as [[-> Hh]| ->].
        - destruct Hh as (k & Hin & Hq). exists k. split; [|exact Hq]. rewrite Hdk.
          rewrite map_app in Hin. rewrite map_app. apply in_app_or in Hin. apply in_or_app.
          destruct Hin as [Hin|Hin]; [left; exact Hin|right]. cbn [map] in *. destruct Hin as [<-|[]]. left. reflexivity.
        - exists KU. split; [|reflexivity]. rewrite map_app. apply in_or_app. right. cbn [map]. right. right. left. reflexivity. }
      split; [|split; [exact HR|]].
      + intros o [<-|Hin]; [apply Rd_fixed|]. destruct Hr as [[-> _]| ->]; [destruct Hin|].
        destruct Hin as [<-|[]]. apply Ud_fixed.
      + intros o [<-|Hin]; [rewrite dk_Rd; exact HU|]. destruct Hr as [[-> _]| ->]; [destruct Hin|].
        destruct Hin as [<-|[]]. exact Logic.I.
  Qed.

  Lemma run_pre1_good ch p : Good0 ch -> Good0 (run_pre1 I d0 ch p).
  Proof.
    intros HG. destruct p as [|hm hj|ho hm hj]; cbn [run_pre1].
    - destruct (gnu_shape ch) as [[-> _]| ->]; [exact HG|].
      apply Good0_extend; [exact HG|intros o [<-|[]]; apply Ud_fixed|intros o [<-|[]]; exact Logic.I].
    - destruct (new_remops_shape hm hj ch) as (rest & -> & Hr).
      apply Good0_extend; [exact HG| |].
      + intros o [<-|Hin]; [apply Rd_fixed|]. destruct Hr as [[-> _]| ->]; [destruct Hin|].
        destruct Hin as [<-|[]]. apply Ud_fixed.
      + assert (HU : hasd (map dk (ch ++ Rd hm hj :: rest)) isKU).
        { destruct Hr as [[-> Hh]| ->]; [rewrite map_app; apply hasd_app; exact Hh|].
          exists KU. split; [|reflexivity]. rewrite map_app. apply in_or_app. right. right. left. reflexivity. }
        intros o [<-|Hin]; [rewrite dk_Rd; exact HU|]. destruct Hr as [[-> _]| ->]; [destruct Hin|].
        destruct Hin as [<-|[]]. exact Logic.I.
    - destruct (new_iscomp_shape ho hm hj ch) as (_ & rest & -> & Hfix & HR & Hrest).
      apply Good0_extend; [exact HG| |].
      + intros o [<-|Hin]; [apply Cd_fixed|apply Hfix; exact Hin].
      + intros o [<-|Hin]; [rewrite dk_Cd; exact HR|]. specialize (Hrest o Hin).
        destruct (dk o); [exact Logic.I|exact Hrest|destruct Hrest].
  Qed.

  Lemma run_pre_good ps : Good0 (run_pre I d0 ps).
  Proof.
    unfold run_pre. generalize Good0_nil. generalize (@nil dep).
    induction ps as [|p t IH]; intros ch H; simpl; [exact H|]. apply IH. apply run_pre1_good. exact H.
  Qed.

  Lemma rgu_construct_good ch rm_m rm_j g : Good0 ch -> Good0 (u_deps (rgu_construct I d0 ch rm_m rm_j g)).
  Proof.
    intros HG. unfold rgu_construct. destruct (rm_m || rm_j); [|exact HG].
    destruct (find_dep (as_iscomp rm_m rm_j) 0 ch) as [[i a]|]; [exact HG|].
    destruct (new_iscomp_shape false rm_m rm_j ch) as (_ & rest & E & Hfix & HR & Hrest).
    destruct (new_iscomp I d0 false rm_m rm_j ch) as [ch' i]. cbn [fst u_deps] in *. subst ch'.
    apply Good0_extend; [exact HG| |].
    - intros o [<-|Hin]; [apply Cd_fixed|apply Hfix; exact Hin].
    - intros o [<-|Hin]; [rewrite dk_Cd; exact HR|]. specialize (Hrest o Hin).
      destruct (dk o); [exact Logic.I|exact Hrest|destruct Hrest].
  Qed.

  Lemma rgu_construct_graph ch rm_m rm_j g :
    u_graph (rgu_construct I d0 ch rm_m rm_j g) = g /\ u_init (rgu_construct I d0 ch rm_m rm_j g) = g.
  Proof.
    unfold rgu_construct. destruct (rm_m || rm_j); [|split; reflexivity].
    destruct (find_dep (as_iscomp rm_m rm_j) 0 ch) as [[i a]|]; [split; reflexivity|].
    destruct (new_iscomp I d0 false rm_m rm_j ch) as [ch' i]. split; reflexivity.
  Qed.

  (** *** The updater now ([u]) and as constructed ([u0]) *)
  Variable fs : list fname.

  Definition RelU (u u0 : rgu) : Prop :=
    u_ic u = u_ic u0 /\ u_rm_m u = u_rm_m u0 /\ u_rm_j u = u_rm_j u0 /\ u_init u = u_init u0 /\
    map (rdep d0) (u_deps u) = u_deps u0.

  Lemma RelU_update d x u u0 : RelU u u0 -> RelU (rgu_update I fs d x u) u0.
  Proof.
    intros (H1 & H2 & H3 & H4 & H5). unfold RelU, rgu_update. cbn [u_ic u_rm_m u_rm_j u_init u_deps].
    repeat (split; [assumption|]). rewrite map_map. rewrite <- H5. apply map_ext. intros o. apply rdep_update.
  Qed.

  Lemma rgu_reset_RelU u u0 : closedd (map dk (u_deps u0)) -> u_graph u0 = u_init u0 -> RelU u u0 ->
    rgu_reset I fs d0 u = u0.
  Proof.
    intros Hc Hg (H1 & H2 & H3 & H4 & H5). unfold rgu_reset.
    assert (Hcu : closedd (map dk (u_deps u))).
    { rewrite <- H5 in Hc. rewrite map_map in Hc. erewrite map_ext in Hc; [exact Hc|]. intros o. apply dk_rdep. }
    rewrite (reset_loop_all d0 (u_deps u) Hcu), H5, H1, H2, H3, H4. destruct u0 as [dp ic mm mj gi gg].
    cbn [u_graph u_init] in *. subst gg. reflexivity.
  Qed.

  Lemma reset_rg d u : fst (reset rgu_reset I (rg_world fs d u)) = rg_world fs d0 (rgu_reset I fs d0 u).
  Proof. destruct d as [mf jn jf sc]. reflexivity. Qed.

  Lemma run_RelU u0 : forall rs d u, RelU u u0 ->
    exists u', run_from rgu rgu_update I (rg_world fs d u) rs = rg_world fs (fold_left (apply_req I) rs d) u' /\
               RelU u' u0.
  Proof.
    induction rs as [|r t IH]; intros d u HR; [exists u; split; [reflexivity|exact HR]|].
    unfold run_from in *. cbn [fold_left]. rewrite rg_step.
    destruct (sop_of_request I d r) as [x|] eqn:E.
    - assert (Hreq : apply_req I d r = apply_sop I d x (row_of d x)) by (unfold apply_req; rewrite E; reflexivity).
      rewrite Hreq. apply IH. apply RelU_update. exact HR.
    - assert (Hreq : apply_req I d r = d) by (unfold apply_req; rewrite E; reflexivity).
      rewrite Hreq. apply IH. exact HR.
  Qed.

  (** the world right after the constructor calls on a new dispatcher:
      the observers of [ps], then the updater with options [rm_m], [rm_j] on [g] *)
  Definition fresh_rg (ps : list pre) (rm_m rm_j : bool) (g : graph) : world rgu :=
    rg_world fs d0 (rgu_fresh I ps rm_m rm_j g).

  Theorem rgu_reset_is_fresh ps rm_m rm_j g rs :
    fst (reset rgu_reset I (run_from rgu rgu_update I (fresh_rg ps rm_m rm_j g) rs)) = fresh_rg ps rm_m rm_j g.
  Proof.
    unfold fresh_rg. set (u0 := rgu_fresh I ps rm_m rm_j g).
    assert (HR : RelU u0 u0).
    { repeat (split; [reflexivity|]). apply (proj2 (rgu_construct_good _ rm_m rm_j g (run_pre_good ps))). }
    destruct (run_RelU u0 rs d0 u0 HR) as (u' & E & HR').
    rewrite E, reset_rg. f_equal. apply rgu_reset_RelU; [| |exact HR'].
    - exact (proj1 (rgu_construct_good _ rm_m rm_j g (run_pre_good ps))).
    - destruct (rgu_construct_graph (run_pre I d0 ps) rm_m rm_j g) as [E1 E2]. exact (eq_trans E1 (eq_sym E2)).
  Qed.

  Definition episode_rg (w : world rgu) (rs : list request) : world rgu :=
    fst (reset rgu_reset I (run_from rgu rgu_update I w rs)).

  Theorem rgu_episodes_are_fresh ps rm_m rm_j g eps :
    fold_left episode_rg eps (fresh_rg ps rm_m rm_j g) = fresh_rg ps rm_m rm_j g.
  Proof.
    induction eps as [|rs t IH]; [reflexivity|]. cbn [fold_left]. unfold episode_rg at 2.
    rewrite rgu_reset_is_fresh. exact IH.
  Qed.

  Theorem rgu_after_reset_like_fresh ps rm_m rm_j g eps rs :
    run_from rgu rgu_update I (fold_left episode_rg eps (fresh_rg ps rm_m rm_j g)) rs =
    run_from rgu rgu_update I (fresh_rg ps rm_m rm_j g) rs.
  Proof. rewrite rgu_episodes_are_fresh. reflexivity. Qed.
End RR.
