(** SolverProofs.v — C04: the rule programs (cached queries in source order)
    return what the rule functions return on the uncached lists (C05 cache
    coherence); one solver step from a reachable incomplete state never raises
    and schedules exactly one operation (C07: some operation is available, it
    is a ready one, it is accepted on each of its machines); hence the loop
    finishes in exactly N steps within fuel N with a feasible complete
    schedule; metadata. *)
From JSL Require Import Base Instance Dstate Filters World Feasible Derived ListFacts DispatchFun
     Inv Run Replay Queries Sublist NoDeadlock RuleObservers Rules RulesSpec RulesProofs.
From Coq Require Import Lia.

Definition opt_sum {A} (o : option A) (e : exn) : A + exn :=
  match o with Some x => inl x | None => inr e end.

Lemma opt_sum_inl {A} (o : option A) e x : opt_sum o e = inl x -> o = Some x.
Proof. destruct o; simpl; intros H; inversion H; reflexivity. Qed.

(** what each built-in rule returns in dispatcher state [d] under filter [fs] *)
Definition rule_pure (I : instance) (fs : list fname) (d : dstate) (r : rule) (draw : nat)
  : (nat * nat) + exn :=
  match r with
  | RSpt => opt_sum (spt_of I (available I d fs)) EOther
  | RFcfs => opt_sum (fcfs_of (available I d fs)) EOther
  | RMwkr => opt_sum (mwkr_of I (unscheduled_ops I d) (available I d fs)) EOther
  | RMopnr => opt_sum (mopnr_of I (p_uncompleted I fs d) (available I d fs)) EOther
  | RRandom => opt_sum (choice draw (available I d fs)) EIndex
  end.

(** an accepted request, as a statement about the monadic program *)
Lemma dispatch_of_sop {O} (o_update : instance -> list fname -> dstate -> sop -> O -> O)
      (I : instance) (w : world O) r x :
  sop_of_request I (core w) r = Some x ->
  dispatch o_update I r w = (after O o_update I w x (row_of (core w) x), inl tt).
Proof.
  rewrite dispatch_is_pure. unfold dispatch_pure, sop_of_request.
  destruct (get_op I (r_job r) (r_pos r)) as [o|]; [|discriminate].
  destruct (nthN (jnext (core w)) (r_job r) =? r_pos r)%nat; [|discriminate].
  destruct (resolve_pure o (r_mach r)) as [m|e]; [|discriminate].
  destruct (py_index (length (mfree (core w))) m) as [mi|]; [|discriminate].
  destruct (existsb (fun k : nat => Z.of_nat k =? m) (machines o)); [|discriminate].
  destruct (nth_error (sched (core w)) (Z.to_nat m)) as [row|] eqn:Hrow; [|discriminate].
  cbv zeta. unfold row_of.
  destruct (last_opt row) as [y|].
  - destruct (s_end I y <=? _); [|discriminate]. intros H; inversion H; subst x.
    cbn [s_mach]. rewrite (nth_error_nth _ _ _ Hrow). reflexivity.
  - intros H; inversion H; subst x. cbn [s_mach]. rewrite (nth_error_nth _ _ _ Hrow). reflexivity.
Qed.

Lemma sumN_jnext_apply I d r x o row :
  Inv I d -> accepted I d r x o row -> sumN (jnext (apply_sop I d x row)) = S (sumN (jnext d)).
Proof.
  intros Hi [Aop Ajob _ _ _ _ _ _ _ _]. simpl. unfold nthN. apply sumN_upd_S.
  rewrite (i_len_jn _ _ Hi), Ajob. eapply get_op_bounds; eauto.
Qed.

Lemma count_le I d : Inv I d -> (sumN (jnext d) <= num_ops I)%nat.
Proof.
  intros Hi. rewrite num_ops_sumN.
  assert (G : forall a b : list nat, length a = length b -> (forall i, nth i a 0 <= nth i b 0)%nat ->
              (sumN a <= sumN b)%nat).
  { induction a as [|x a IH]; intros [|y b] Hl Hle; simpl in *; try discriminate; [lia|].
    specialize (IH b ltac:(lia) (fun k => Hle (S k))). specialize (Hle 0%nat). simpl in Hle. lia. }
  apply G.
  - rewrite map_length. apply (i_len_jn _ _ Hi).
  - intros i. rewrite nth_map_length. apply (i_bound _ _ Hi).
Qed.

Lemma complete_count I d : Inv I d -> (is_complete I (sched d) = true <-> sumN (jnext d) = num_ops I).
Proof.
  intros Hi. unfold is_complete. rewrite Nat.eqb_eq, num_scheduled_length, (i_count _ _ Hi). tauto.
Qed.

Section Solver.
  Variable I : instance.
  Hypothesis Hv : valid I.
  Hypothesis Hm : has_machines I.

  Notation wokR := (wok robs I).
  Notation extR := (ext robs).

  (** ** the rule programs and the rule functions *)
  Theorem run_rule_yields r draw (w : rwld) : wokR w ->
    exists w', run_rule I r draw w = (w', rule_pure I (filt w) (core w) r draw) /\ extR w w' /\ wokR w'.
  Proof.
    intros Hw. destruct r; unfold run_rule, rule_pure, bind.
    - destruct (q_avail_answers robs I w Hw) as (w1 & E1 & Hx & Hw1). rewrite E1.
      change (p_avail I (filt w) (core w)) with (available I (core w) (filt w)).
      exists w1. unfold of_opt. destruct (spt_of I _); (split; [reflexivity|split; assumption]).
    - destruct (q_avail_answers robs I w Hw) as (w1 & E1 & Hx & Hw1). rewrite E1.
      change (p_avail I (filt w) (core w)) with (available I (core w) (filt w)).
      exists w1. unfold of_opt. destruct (fcfs_of _); (split; [reflexivity|split; assumption]).
    - destruct (q_unsched_answers robs I w Hw) as (w1 & E1 & Hx1 & Hw1). rewrite E1.
      destruct (q_avail_answers robs I w1 Hw1) as (w2 & E2 & Hx2 & Hw2). rewrite E2.
      destruct Hx1 as (Hc & Hf & Ho & Hs). rewrite Hc, Hf.
      change (p_avail I (filt w) (core w)) with (available I (core w) (filt w)).
      change (p_unsched I (core w)) with (unscheduled_ops I (core w)).
      exists w2. unfold of_opt. destruct (mwkr_of I _ _);
        (split; [reflexivity|split; [eapply ext_trans; [|exact Hx2]; repeat split; assumption|exact Hw2]]).
    - destruct (q_uncompleted_answers robs I w Hw) as (w1 & E1 & Hx1 & Hw1). rewrite E1.
      destruct (q_avail_answers robs I w1 Hw1) as (w2 & E2 & Hx2 & Hw2). rewrite E2.
      destruct Hx1 as (Hc & Hf & Ho & Hs). rewrite Hc, Hf.
      change (p_avail I (filt w) (core w)) with (available I (core w) (filt w)).
      exists w2. unfold of_opt. destruct (mopnr_of I _ _);
        (split; [reflexivity|split; [eapply ext_trans; [|exact Hx2]; repeat split; assumption|exact Hw2]]).
    - destruct (q_avail_answers robs I w Hw) as (w1 & E1 & Hx & Hw1). rewrite E1.
      change (p_avail I (filt w) (core w)) with (available I (core w) (filt w)).
      exists w1. unfold of_opt. destruct (choice draw _); (split; [reflexivity|split; assumption]).
  Qed.

  (** every built-in rule selects one of the available operations when there is one *)
  Theorem rule_pure_selects fs d r draw :
    available I d fs <> [] -> exists k, rule_pure I fs d r draw = inl k /\ In k (available I d fs).
  Proof.
    intros Hne. destruct r; unfold rule_pure, spt_of, fcfs_of, mwkr_of, mopnr_of.
    - destruct (py_min_some (kdur I) _ Hne) as [k E]. rewrite E. exists k. split; [reflexivity|].
      apply (py_min_spec _ _ _ E).
    - destruct (py_min_some (fun k => Z.of_nat (snd k)) _ Hne) as [k E]. rewrite E. exists k.
      split; [reflexivity|]. apply (py_min_spec _ _ _ E).
    - match goal with |- context [py_max ?f ?l] => destruct (py_max_some f l Hne) as [k E] end.
      rewrite E. exists k. split; [reflexivity|]. apply (py_max_spec _ _ _ E).
    - match goal with |- context [py_max ?f ?l] => destruct (py_max_some f l Hne) as [k E] end.
      rewrite E. exists k. split; [reflexivity|]. apply (py_max_spec _ _ _ E).
    - destruct (choice_some draw _ Hne) as [k E]. rewrite E. exists k. split; [reflexivity|].
      apply (choice_In _ _ _ E).
  Qed.

  Lemma choose_some c draw ms : ms <> [] -> exists m, choose c draw ms = Some m /\ In m ms.
  Proof.
    intros Hne. destruct c; simpl.
    - destruct ms as [|m t]; [congruence|]. exists m. split; [reflexivity|left; reflexivity].
    - destruct (choice_some draw ms Hne) as [m E]. exists m. split; [exact E|apply (choice_In _ _ _ E)].
  Qed.

  (** ** one step *)

  (** A rule program is SOUND for a world invariant [P] when, in every world
      satisfying [Inv], cache coherence and [P] that has an available operation,
      it returns one of the available operations without raising, leaves the
      dispatcher fields and the filter alone, and keeps coherence and [P]. *)
  Definition rule_sound (P : rwld -> Prop) (rl : MR (nat * nat)) : Prop :=
    forall w, Inv I (core w) -> wokR w -> P w -> available I (core w) (filt w) <> [] ->
      exists w' k, rl w = (w', inl k) /\ In k (available I (core w) (filt w)) /\
                   core w' = core w /\ filt w' = filt w /\ wokR w' /\ P w'.

  Theorem builtin_rule_sound r draw : rule_sound (fun _ => True) (run_rule I r draw).
  Proof.
    intros w Hi Hw _ Hne. destruct (run_rule_yields r draw w Hw) as (w' & E & (Hc & Hf & _) & Hw').
    destruct (rule_pure_selects (filt w) (core w) r draw Hne) as (k & Ek & Hk).
    exists w', k. rewrite E, Ek.
    split; [reflexivity|]. split; [exact Hk|]. split; [exact Hc|]. split; [exact Hf|]. split; [exact Hw'|exact Logic.I].
  Qed.

  Section Step.
    Variable P : rwld -> Prop.
    (** [P] survives an accepted dispatch *)
    Hypothesis P_dispatch : forall w r x o,
      Inv I (core w) -> accepted I (core w) r x o (row_of (core w) x) -> P w ->
      P (after robs r_update I w x (row_of (core w) x)).

    Theorem step_ok rl c draw (w : rwld) :
      rule_sound P rl -> Inv I (core w) -> wokR w -> P w ->
      is_complete I (sched (core w)) = false ->
      exists w', step_with I rl c draw w = (w', inl tt) /\
                 Inv I (core w') /\ wokR w' /\ P w' /\ filt w' = filt w /\
                 sumN (jnext (core w')) = S (sumN (jnext (core w))).
    Proof.
      intros Hrl Hi Hw HP Hnc.
      assert (Hncp : ~ complete I (sched (core w))).
      { intros Hc. apply (is_complete_spec _ _ Hi) in Hc. congruence. }
      pose proof (no_deadlock I Hv Hm (core w) Hi (filt w) Hncp) as Hne.
      destruct (Hrl w Hi Hw HP Hne) as (w1 & k & E1 & Hk & Hc1 & Hf1 & Hw1 & HP1).
      pose proof (sublist_In _ _ k (available_sublist_ready I Hv Hm (core w) Hi (filt w)) Hk) as Hready.
      destruct k as [j p].
      destruct (raw_ready_ok I Hm (core w) Hi _ Hready) as (o & Ho & Hmne).
      assert (Hkm : kmachines I (j, p) = machines o) by (unfold kmachines; rewrite Ho; reflexivity).
      destruct (choose_some c draw (kmachines I (j, p))) as (m & Em & Hmin); [rewrite Hkm; exact Hmne|].
      destruct (ready_dispatchable I Hm (core w) Hi j p m Hready Hmin) as (x & Hx & _).
      unfold step_with, bind. rewrite E1. unfold of_opt. rewrite Em. cbn [fst snd].
      assert (Hx1 : sop_of_request I (core w1) (mkreq j p (Some (Z.of_nat m))) = Some x) by (rewrite Hc1; exact Hx).
      unfold ret. rewrite (dispatch_of_sop r_update I w1 _ x Hx1).
      destruct (sop_of_request_accepted I (core w) _ x Hx) as (o' & Hacc).
      eexists. split; [reflexivity|]. cbn [core after wcache filt]. rewrite Hc1.
      split; [eapply Inv_apply_sop; eauto|].
      split; [unfold wok; cbn [core after wcache filt]; apply empty_cache_ok|].
      split; [rewrite <- Hc1; eapply P_dispatch; [rewrite Hc1; exact Hi|rewrite Hc1; exact Hacc|exact HP1]|].
      split; [exact Hf1|]. eapply sumN_jnext_apply; eauto.
    Qed.

    (** ** the loop *)
    Theorem solve_loop_terminates (rl : nat -> MR (nat * nat)) c orc :
      (forall draw, rule_sound P (rl draw)) ->
      forall fuel t (w : rwld),
        Inv I (core w) -> wokR w -> P w ->
        (num_ops I - sumN (jnext (core w)) <= fuel)%nat ->
        exists w', solve_loop I rl c orc fuel t w = (w', Done (t + (num_ops I - sumN (jnext (core w))))) /\
                   Inv I (core w') /\ P w' /\ filt w' = filt w /\
                   is_complete I (sched (core w')) = true.
    Proof.
      intros Hrl. induction fuel as [|f IH]; intros t w Hi Hw HP Hfuel; simpl.
      - destruct (is_complete I (sched (core w))) eqn:E.
        + apply (complete_count _ _ Hi) in E as E'. exists w. rewrite E'.
          replace (t + (num_ops I - num_ops I))%nat with t by lia.
          split; [reflexivity|]. split; [exact Hi|]. split; [exact HP|]. split; [reflexivity|exact E].
        + exfalso. assert (sumN (jnext (core w)) <> num_ops I).
          { intros H. apply (complete_count _ _ Hi) in H. congruence. }
          pose proof (count_le _ _ Hi). lia.
      - destruct (is_complete I (sched (core w))) eqn:E.
        + apply (complete_count _ _ Hi) in E as E'. exists w. rewrite E'.
          replace (t + (num_ops I - num_ops I))%nat with t by lia.
          split; [reflexivity|]. split; [exact Hi|]. split; [exact HP|]. split; [reflexivity|exact E].
        + destruct (step_ok (rl (fst (orc t))) c (snd (orc t)) w (Hrl _) Hi Hw HP E)
            as (w1 & E1 & Hi1 & Hw1 & HP1 & Hf1 & Hcnt).
          rewrite E1.
          assert (Hlt : (sumN (jnext (core w)) < num_ops I)%nat).
          { assert (sumN (jnext (core w)) <> num_ops I).
            { intros H. apply (complete_count _ _ Hi) in H. congruence. }
            pose proof (count_le _ _ Hi). lia. }
          destruct (IH (S t) w1 Hi1 Hw1 HP1) as (w' & E' & Hi' & HP' & Hf' & Hc'); [lia|].
          exists w'. rewrite E'. split; [f_equal; f_equal; lia|].
          split; [exact Hi'|]. split; [exact HP'|]. split; [congruence|exact Hc'].
    Qed.
  End Step.

  (** ** [solve] and [__call__] for the built-in configuration matrix *)
  Theorem solve_terminates r c fs orc :
    exists w', solve I r c fs orc = (w', Done (num_ops I)) /\
               Inv I (core w') /\ feasible I (sched (core w')) /\ complete I (sched (core w')).
  Proof.
    unfold solve.
    destruct (solve_loop_terminates (fun _ => True) (fun _ _ _ _ _ _ _ => Logic.I) (run_rule I r) c orc
                (fun draw => builtin_rule_sound r draw) (num_ops I) 0 (init_w robs I fs))
      as (w' & E & Hi' & _ & _ & Hc').
    - simpl. apply Inv_init.
    - unfold wok. simpl. apply empty_cache_ok.
    - exact Logic.I.
    - lia.
    - exists w'. split.
      + rewrite E. f_equal. f_equal. simpl. unfold num_jobs. rewrite sumN_repeat0. lia.
      + split; [exact Hi'|]. split; [apply Inv_feasible; exact Hi'|].
        apply (is_complete_spec _ _ Hi'). exact Hc'.
  Qed.

  Theorem call_metadata r c fs orc clock :
    clock 0%nat <= clock 1%nat ->
    exists w' md, call I r c fs orc clock = (w', Done (num_ops I), Some md) /\
                  0 <= elapsed_time md /\ elapsed_time md = clock 1%nat - clock 0%nat /\
                  solved_by md = solver_class_name /\
                  feasible I (sched (core w')) /\ complete I (sched (core w')).
  Proof.
    intros Hmono. destruct (solve_terminates r c fs orc) as (w' & E & _ & Hf & Hc).
    unfold call. rewrite E. eexists. eexists. split; [reflexivity|]. cbn [elapsed_time solved_by].
    split; [lia|]. split; [reflexivity|]. split; [reflexivity|]. split; [exact Hf|exact Hc].
  Qed.
End Solver.
