(** FjsPerm.v — true per-machine permutations: the only possible rejection is
    the ValidationError, and it happens exactly when no linear extension exists. *)
From JSL Require Import Base Instance Dstate Filters World Feasible ListFacts DispatchFun Inv Run
  Views ViewsSpec ViewsProofs FjsInv FjsStep FjsRebuild FjsIff.
From Coq Require Import Lia Permutation.

Section CountSeq.
Local Open Scope nat_scope.
Lemma count_in_seq x a n :
  length (filter (fun m => (m =? x)%nat) (seq a n)) = if ((a <=? x) && (x <? a + n))%nat then 1%nat else 0%nat.
Proof.
  revert a. induction n as [|n IH]; intros a.
  - simpl. destruct (a <=? x) eqn:E1; destruct (x <? a + 0) eqn:E2; simpl; try reflexivity.
    apply Nat.leb_le in E1. apply Nat.ltb_lt in E2. lia.
  - cbn [seq filter]. destruct (Nat.eqb_spec a x) as [E|Hne]; cbn [length]; rewrite (IH (S a)); [subst a|].
    + destruct (S x <=? x) eqn:E1; [apply Nat.leb_le in E1; lia|].
      rewrite Nat.leb_refl. destruct (x <? x + S n) eqn:E2; [reflexivity|apply Nat.ltb_ge in E2; lia].
    + destruct (S a <=? x) eqn:E1; destruct (a <=? x) eqn:E2; simpl.
      * replace (a + S n) with (S a + n) by lia. reflexivity.
      * apply Nat.leb_le in E1. apply Nat.leb_gt in E2. lia.
      * apply Nat.leb_gt in E1. apply Nat.leb_le in E2. lia.
      * reflexivity.
Qed.
End CountSeq.

Lemma sum_filter_partition {A} (f : nat -> A -> bool) (g : A -> nat) (K : list A) n :
  (forall k m, In k K -> f m k = (m =? g k)%nat) -> (forall k, In k K -> (g k < n)%nat) ->
  sumN (map (fun m => length (filter (f m) K)) (seq 0 n)) = length K.
Proof.
  induction K as [|k K IH]; intros Hf Hg.
  - simpl. induction (seq 0 n); simpl; auto.
  - assert (E : map (fun m => length (filter (f m) (k :: K))) (seq 0 n) =
               map (fun m => ((if (m =? g k)%nat then 1 else 0) + length (filter (f m) K))%nat) (seq 0 n)).
    { apply map_ext. intros m. simpl. rewrite (Hf k m (or_introl eq_refl)). destruct (m =? g k)%nat; reflexivity. }
    rewrite E.
    assert (Hsum : forall (u v : nat -> nat) l, sumN (map (fun m => (u m + v m)%nat) l) = (sumN (map u l) + sumN (map v l))%nat).
    { clear. intros u v l. induction l; simpl; lia. }
    rewrite (Hsum (fun m => if (m =? g k)%nat then 1%nat else 0%nat) (fun m => length (filter (f m) K))).
    rewrite IH; [|intros k' m Hk'; apply Hf; right; exact Hk'|intros k' Hk'; apply Hg; right; exact Hk'].
    assert (Hone : sumN (map (fun m => if (m =? g k)%nat then 1%nat else 0%nat) (seq 0 n)) =
                   length (filter (fun m => (m =? g k)%nat) (seq 0 n))).
    { clear. induction (seq 0 n) as [|a l IHl]; simpl; [reflexivity|]. destruct (a =? g k)%nat; simpl; lia. }
    rewrite Hone, count_in_seq. specialize (Hg k (or_introl eq_refl)).
    assert (E2 : ((0 <=? g k) && (g k <? 0 + n))%nat = true).
    { apply andb_true_iff. split; [apply Nat.leb_le; lia|apply Nat.ltb_lt; lia]. }
    rewrite E2. simpl. reflexivity.
Qed.

Section Perm.
  Variable I : instance.
  Hypothesis Hv : valid I.
  Hypothesis Hs : single_machine I.

  (** A true permutation has N entries in total. *)
  Lemma true_permutation_total P : true_permutation I P -> sumN (map (@length nat) P) = num_ops I.
  Proof.
    intros [Hlen Hperm].
    assert (E : map (@length nat) P =
                map (fun m => length (filter (on_machine_k I m) (all_keys I))) (seq 0 (num_machines I))).
    { apply list_eq_nth with (d := 0%nat).
      - rewrite map_length. exact Hlen.
      - intros m Hm. change 0%nat with (length (@nil nat)) at 1. rewrite map_nth.
        rewrite (Permutation_length (Hperm m Hm)). unfold project. apply map_length. }
    rewrite E.
    rewrite (sum_filter_partition (on_machine_k I) (fun k => hd 0%nat (kmachines I k)) (all_keys I) (num_machines I)).
    - unfold all_keys. rewrite all_keys_from_length. reflexivity.
    - intros [j p] m Hk. apply all_keys_In in Hk. destruct Hk as [o Ho]. destruct (Hs _ _ _ Ho) as [mm Hmm].
      unfold on_machine_k, kmachines, kop. cbn [fst snd]. rewrite Ho, Hmm. simpl. apply orb_false_r.
    - intros [j p] Hk. apply all_keys_In in Hk. destruct Hk as [o Ho]. destruct (Hs _ _ _ Ho) as [mm Hmm].
      unfold kmachines, kop. cbn [fst snd]. rewrite Ho, Hmm. simpl.
      eapply machine_lt_num_machines; [exact Ho|rewrite Hmm; left; reflexivity].
  Qed.

  Lemma tr_loop_no_index P fuel : forall w h dn, Tr I P h w dn -> true_permutation I P ->
    fjs_loop I fuel w (map (map Z.of_nat) dn) <> FErr EIndex.
  Proof.
    induction fuel as [|f IH]; intros w h dn T Htp; simpl.
    - destruct (is_complete I (sched (core w))); discriminate.
    - destruct (is_complete I (sched (core w))); [discriminate|].
      pose proof (tr_pass I Hv Hs P dn [] w h T) as Hp. simpl in Hp.
      destruct (fjs_pass I 0 (map (map Z.of_nat) dn) w) as [[[w2 rest2Z] b]|e]; [|contradiction].
      destruct Hp as (h2 & rest2 & -> & T2). destruct b; [|discriminate]. apply (IH _ _ _ T2 Htp).
  Qed.

  (** For true per-machine permutations: accepted (with a feasible complete
      schedule) when a linear extension exists, and otherwise rejected with
      the ValidationError — nothing else can happen. *)
  Theorem true_permutation_outcome P :
    true_permutation I P ->
    (exists rows, from_job_sequences I (map (map Z.of_nat) P) = FOk rows /\
                  feasible I rows /\ complete I rows /\ exists L, linearises I P L) \/
    (from_job_sequences I (map (map Z.of_nat) P) = FErr EValidation /\ ~ exists L, linearises I P L).
  Proof.
    intros Htp. pose proof (true_permutation_total P Htp) as Hn. destruct Htp as [Hlen Hperm].
    pose proof (from_job_sequences_sound I (map (map Z.of_nat) P) Hv) as Hsound.
    destruct (from_job_sequences I (map (map Z.of_nat) P)) as [rows|e|] eqn:E; [|
      |contradiction].
    - left. exists rows. split; [reflexivity|]. destruct Hsound as [Hf Hc]. split; [exact Hf|]. split; [exact Hc|].
      destruct (accept_only_if_linearisable I Hv Hs P rows Hlen Hn E) as (h & d & _ & _ & HL). eauto.
    - right. assert (e = EValidation).
      { destruct Hsound as [-> | ->]; [exfalso|reflexivity].
        unfold from_job_sequences, from_job_sequences_fuel in E. rewrite reset_init in E.
        assert (T0 : Tr I P [] (init_w unit I []) P).
        { constructor; [apply Hist_init|reflexivity|]. intros m. simpl.
          assert (nth m (repeat (@nil sop) (num_machines I)) [] = []) as ->; [|reflexivity].
          destruct (le_lt_dec (num_machines I) m) as [H|H].
          - apply nth_overflow. rewrite repeat_length. exact H.
          - apply nth_repeat. exact H. }
        exact (tr_loop_no_index P _ _ _ _ T0 (conj Hlen Hperm) E). }
      subst e. split; [reflexivity|]. intros [L HL].
      destruct (accept_if_linearisable I Hv Hs P L HL) as (h & d & _ & _ & H). congruence.
  Qed.
End Perm.

(** The accepted schedule has exactly the requested per-machine job sequences. *)
Theorem accepted_rows_have_sequences I P rows :
  valid I -> single_machine I ->
  length P = num_machines I -> sumN (map (@length nat) P) = num_ops I ->
  from_job_sequences I (map (map Z.of_nat) P) = FOk rows ->
  job_sequences rows = map (map Z.of_nat) P.
Proof.
  intros Hv Hs Hl Hn H. destruct (accept_only_if_linearisable I Hv Hs P rows Hl Hn H) as (h & d & Hh & -> & HL).
  rewrite (job_sequences_project I Hs h d Hh), <- (lin_rows _ _ _ HL). reflexivity.
Qed.
