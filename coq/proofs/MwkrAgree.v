(** MwkrAgree.v — C04: the observer-based most-work-remaining rule selects
    what the direct rule selects, in every world reachable by dispatch
    requests (accepted or not), resets, creation of scorers and of
    DurationObservers at ANY moment, and invocations of rules and scorers —
    in particular when the scorer is first invoked mid-history (its
    DurationObserver is then initialised from the unscheduled operations: the
    C04 repair). *)
From JSL Require Import Base Instance Dstate Filters World Feasible Derived ListFacts DispatchFun
     Inv Run Replay Queries Notify Sublist NoDeadlock RuleObservers Rules RulesSpec RulesProofs SolverProofs.
From Coq Require Import Lia.

(** ** remaining work after a dispatch *)

Lemma unscheduled_from_split (I : instance) : forall j0 nx jx,
  (jx < length I)%nat -> (jx < length nx)%nat -> (nth jx nx 0 < length (nth jx I []))%nat ->
  exists l1 l2,
    unscheduled_from I j0 nx = l1 ++ ((j0 + jx)%nat, nth jx nx 0%nat) :: l2 /\
    unscheduled_from I j0 (upd nx jx (S (nth jx nx 0%nat))) = l1 ++ l2.
Proof.
  induction I as [|job I' IH]; intros j0 nx jx H1 H2 H3; [simpl in H1; lia|].
  destruct nx as [|p nx']; [simpl in H2; lia|].
  destruct jx as [|jx'].
  - simpl in H3. cbn [nth upd unscheduled_from].
    exists [], (map (fun q => (j0, q)) (seq (S p) (length job - S p)) ++ unscheduled_from I' (S j0) nx').
    split; [|reflexivity].
    replace (length job - p)%nat with (S (length job - S p)) by lia.
    cbn [seq map app]. rewrite Nat.add_0_r. reflexivity.
  - simpl in H1, H2, H3. cbn [nth upd unscheduled_from].
    destruct (IH (S j0) nx' jx') as (l1 & l2 & E1 & E2); try lia.
    exists (map (fun q => (j0, q)) (seq p (length job - p)) ++ l1), l2.
    rewrite E1, E2, <- !app_assoc. replace (S j0 + jx')%nat with (j0 + S jx')%nat by lia.
    split; reflexivity.
Qed.

Lemma sumZ_app' a b : sumZ (a ++ b) = sumZ a + sumZ b.
Proof. unfold sumZ. induction a as [|x a IH]; simpl; [reflexivity|]. rewrite IH. lia. Qed.

Lemma nthZ_upd_eq l i v : (i < length l)%nat -> nthZ (upd l i v) i = v.
Proof. unfold nthZ. apply nth_upd_eq. Qed.
Lemma nthZ_upd_neq l i j v : i <> j -> nthZ (upd l i v) j = nthZ l j.
Proof. unfold nthZ. apply nth_upd_neq. Qed.

Lemma job_work_length I d : length (job_work I d) = num_jobs I.
Proof. apply acc_by_job_length. Qed.

Theorem job_work_after (I : instance) (d : dstate) r x o row :
  Inv I d -> accepted I d r x o row ->
  job_work I (apply_sop I d x row) =
  upd (job_work I d) (s_job x) (nthZ (job_work I d) (s_job x) - dur I x).
Proof.
  intros Hi Ha. destruct Ha as [Aop Ajob Apos Anext _ _ _ _ _ _].
  assert (Hgo : get_op I (s_job x) (s_pos x) = Some o) by (rewrite Ajob, Apos; exact Aop).
  destruct (get_op_bounds _ _ _ _ Hgo) as [Hj Hp].
  assert (Hnext : nth (s_job x) (jnext d) 0%nat = s_pos x) by (rewrite Ajob, Apos; exact Anext).
  destruct (unscheduled_from_split I 0 (jnext d) (s_job x)) as (l1 & l2 & E1 & E2).
  { exact Hj. } { rewrite (i_len_jn _ _ Hi). exact Hj. } { rewrite Hnext. exact Hp. }
  rewrite Hnext in E1, E2. cbn [Nat.add] in E1.
  apply nth_ext with (d := 0) (d' := 0).
  - rewrite length_upd, !job_work_length. reflexivity.
  - intros j Hjl. rewrite job_work_length in Hjl.
    change (nth j (job_work I (apply_sop I d x row)) 0) with (nthZ (job_work I (apply_sop I d x row)) j).
    change (nth j (upd (job_work I d) (s_job x) (nthZ (job_work I d) (s_job x) - dur I x)) 0)
      with (nthZ (upd (job_work I d) (s_job x) (nthZ (job_work I d) (s_job x) - dur I x)) j).
    assert (Hnew : nthZ (job_work I (apply_sop I d x row)) j = sumZ (map (kdur I) (filter (of_job j) (l1 ++ l2)))).
    { unfold job_work. rewrite acc_by_job_nth by exact Hjl. unfold unscheduled_ops, apply_sop. cbn [jnext].
      unfold nthN. rewrite Hnext, E2. reflexivity. }
    assert (Hold : forall j', (j' < num_jobs I)%nat ->
               nthZ (job_work I d) j' = sumZ (map (kdur I) (filter (of_job j') (l1 ++ (s_job x, s_pos x) :: l2)))).
    { intros j' Hj'. unfold job_work. rewrite acc_by_job_nth by exact Hj'. unfold unscheduled_ops. rewrite E1. reflexivity. }
    assert (Hkd : kdur I (s_job x, s_pos x) = dur I x) by reflexivity.
    rewrite Hnew. destruct (Nat.eq_dec (s_job x) j) as [E|Hne].
    + subst j. rewrite nthZ_upd_eq by (rewrite job_work_length; exact Hjl). rewrite (Hold _ Hjl).
      rewrite !filter_app, !map_app, !sumZ_app'. cbn [filter]. unfold of_job at 4. cbn [fst].
      rewrite Nat.eqb_refl. cbn [map]. unfold sumZ at 4. cbn [fold_right]. fold (sumZ (map (kdur I) (filter (of_job (s_job x)) l2))).
      rewrite Hkd. lia.
    + rewrite nthZ_upd_neq by exact Hne. rewrite (Hold _ Hjl).
      rewrite !filter_app, !map_app, !sumZ_app'. cbn [filter]. unfold of_job at 4. cbn [fst].
      assert (En : (s_job x =? j)%nat = false) by (apply Nat.eqb_neq; exact Hne). rewrite En. reflexivity.
Qed.

(** ** the ready vector and the mask *)

Lemma ready_fold_length js : forall acc, length (fold_left (fun acc j => upd acc j 1) js acc) = length acc.
Proof. induction js as [|j t IH]; intros acc; simpl; [reflexivity|]. rewrite IH. apply length_upd. Qed.

Lemma ready_fold_one js j : forall acc, (j < length acc)%nat -> In j js ->
  nthZ (fold_left (fun acc j => upd acc j 1) js acc) j = 1.
Proof.
  induction js as [|a t IH]; intros acc Hj Hin; [contradiction|]. simpl.
  destruct (in_dec Nat.eq_dec j t) as [Ht|Hnt].
  - apply IH; [rewrite length_upd; exact Hj|exact Ht].
  - destruct Hin as [->|Hin]; [|contradiction].
    clear IH. revert acc Hj. induction t as [|b t IHt]; intros acc Hj; simpl.
    + apply nthZ_upd_eq; exact Hj.
    + assert (Hb : b <> j) by (intros ->; apply Hnt; left; reflexivity).
      assert (Hnt' : ~ In j t) by (intros H; apply Hnt; right; exact H).
      specialize (IHt Hnt' (upd acc b 1)).
      (* commute the two updates *)
      assert (Hc : upd (upd acc j 1) b 1 = upd (upd acc b 1) j 1).
      { clear. revert j b. induction acc as [|h acc IHa]; intros [|j] [|b]; simpl; try reflexivity.
        f_equal. apply IHa. }
      rewrite Hc. apply IHt. rewrite length_upd. exact Hj.
Qed.

Lemma ready_vec_length I fs d : length (ready_vec I fs d) = num_jobs I.
Proof. unfold ready_vec. rewrite ready_fold_length. apply repeat_length. Qed.

Lemma ready_vec_available I fs d k :
  In k (available I d fs) -> (fst k < num_jobs I)%nat -> nthZ (ready_vec I fs d) (fst k) = 1.
Proof.
  intros Hk Hj. unfold ready_vec. apply ready_fold_one; [rewrite repeat_length; exact Hj|].
  apply in_map. exact Hk.
Qed.

Lemma mask_ready_nth wr : forall rd j, length wr = length rd -> (j < length wr)%nat ->
  nthZ (mask_ready wr rd) j = if nthZ rd j =? 0 then 0 else nthZ wr j.
Proof.
  unfold mask_ready, nthZ.
  induction wr as [|a wr IH]; intros [|b rd] j Hl Hj; simpl in *; try lia.
  destruct j as [|j]; [reflexivity|]. apply IH; lia.
Qed.

Lemma py_max_from_ext {A} (f g : A -> Z) l : forall best,
  f best = g best -> (forall x, In x l -> f x = g x) -> py_max_from f best l = py_max_from g best l.
Proof.
  induction l as [|x t IH]; intros best Hb Hl; simpl; [reflexivity|].
  rewrite Hb, (Hl x (or_introl eq_refl)).
  apply IH; [destruct (g best <? g x); [apply Hl; left; reflexivity|exact Hb]|].
  intros y Hy. apply Hl. right. exact Hy.
Qed.

Lemma py_max_ext {A} (f g : A -> Z) l : (forall x, In x l -> f x = g x) -> py_max f l = py_max g l.
Proof.
  destruct l as [|a t]; intros H; simpl; [reflexivity|]. f_equal.
  apply py_max_from_ext; [apply H; left; reflexivity|intros x Hx; apply H; right; exact Hx].
Qed.

(** the scorer's vector ranks the available operations as the direct rule does *)
Theorem masked_scores_agree I fs d :
  (forall k, In k (available I d fs) -> (fst k < num_jobs I)%nat) ->
  score_based_of (mask_ready (job_work I d) (ready_vec I fs d)) (available I d fs) =
  mwkr_of I (unscheduled_ops I d) (available I d fs).
Proof.
  intros Hjobs. unfold score_based_of, mwkr_of. fold (job_work I d). apply py_max_ext.
  intros k Hk. unfold score_at.
  rewrite mask_ready_nth.
  - rewrite (ready_vec_available I fs d k Hk (Hjobs k Hk)). reflexivity.
  - rewrite job_work_length, ready_vec_length. reflexivity.
  - rewrite job_work_length. apply Hjobs. exact Hk.
Qed.

(** ** the invariant of the scorer's observers *)

Lemma nth_error_lt {A} (l : list A) i o : nth_error l i = Some o -> (i < length l)%nat.
Proof. intros H. apply nth_error_Some. congruence. Qed.

Section Agree.
  Variable I : instance.
  Hypothesis Hv : valid I.
  Hypothesis Hm : has_machines I.

  (** Every SUBSCRIBED DurationObserver with the JOBS feature holds the
      remaining work per job of the current state, every subscribed
      IsReadyObserver the ready flags of the current state; a scorer object is
      never subscribed and the observers it has cached are subscribed ones of
      the right kind. *)
  Record ObsInv (w : rwld) : Prop := {
    oi_nodup : NoDup (subs w);
    oi_range : forall i, In i (subs w) -> exists o, nth_error (objs w) i = Some o;
    oi_dur : forall i jf, In i (subs w) -> nth_error (objs w) i = Some (ODur true jf) ->
                          jf = job_work I (core w);
    oi_ready : forall i jf, In i (subs w) -> nth_error (objs w) i = Some (OReady true jf) ->
                            jf = ready_vec I (filt w) (core w);
    oi_scorer : forall si a b, nth_error (objs w) si = Some (OScorer a b) ->
        ~ In si (subs w) /\
        (forall i, a = Some i -> In i (subs w) /\ exists jf, nth_error (objs w) i = Some (ODur true jf)) /\
        (forall i, b = Some i -> In i (subs w) /\ exists jf, nth_error (objs w) i = Some (OReady true jf))
  }.

  Lemma ObsInv_init fs : ObsInv (init_w robs I fs).
  Proof.
    constructor; simpl.
    - constructor.
    - intros i [].
    - intros i jf [].
    - intros i jf [].
    - intros si a b H. destruct si; discriminate.
  Qed.

  Lemma ObsInv_cache w c : ObsInv w -> ObsInv (mkw (core w) c (filt w) (objs w) (subs w)).
  Proof. intros [H1 H2 H3 H4 H5]. constructor; assumption. Qed.

  (** *** notifications (update / reset) *)
  Definition h_ok (h : robs -> robs) (dold d' : dstate) (fs : list fname) : Prop :=
    forall o, match o with
              | ODur true jf => exists jf', h o = ODur true jf' /\ (jf = job_work I dold -> jf' = job_work I d')
              | OReady true _ => h o = OReady true (ready_vec I fs d')
              | _ => h o = o
              end.

  Lemma ObsInv_notify h d' c (w : rwld) :
    ObsInv w -> h_ok h (core w) d' (filt w) ->
    ObsInv (mkw d' c (filt w) (notify_all h (subs w) (objs w)) (subs w)).
  Proof.
    intros [N R D Rd S] Hh.
    assert (Hn : forall i, nth_error (notify_all h (subs w) (objs w)) i =
                           if mem_nat i (subs w) then option_map h (nth_error (objs w) i)
                           else nth_error (objs w) i)
      by (intros i; apply notify_all_spec; exact N).
    assert (Hin : forall i, In i (subs w) -> mem_nat i (subs w) = true) by (intros i Hi; apply mem_nat_In; exact Hi).
    constructor; cbn [core filt objs subs].
    - exact N.
    - intros i Hi. rewrite Hn, (Hin i Hi). destruct (R i Hi) as [o Ho]. rewrite Ho. simpl. eauto.
    - intros i jf' Hi. rewrite Hn, (Hin i Hi). destruct (R i Hi) as [o Ho]. rewrite Ho. simpl.
      intros H. inversion H as [H1]. clear H. pose proof (Hh o) as Ho'.
      destruct o as [[|] jf|[|] jf|a b].
      + destruct Ho' as (jf'' & E & Himp). rewrite E in H1. inversion H1; subst jf''.
        apply Himp. apply (D i jf Hi Ho).
      + rewrite Ho' in H1. discriminate.
      + rewrite Ho' in H1. discriminate.
      + rewrite Ho' in H1. discriminate.
      + rewrite Ho' in H1. discriminate.
    - intros i jf' Hi. rewrite Hn, (Hin i Hi). destruct (R i Hi) as [o Ho]. rewrite Ho. simpl.
      intros H. inversion H as [H1]. clear H. pose proof (Hh o) as Ho'.
      destruct o as [[|] jf|[|] jf|a b].
      + destruct Ho' as (jf'' & E & _). rewrite E in H1. discriminate.
      + rewrite Ho' in H1. discriminate.
      + rewrite Ho' in H1. inversion H1. reflexivity.
      + rewrite Ho' in H1. discriminate.
      + rewrite Ho' in H1. discriminate.
    - intros si a b. rewrite Hn. destruct (mem_nat si (subs w)) eqn:Em.
      + apply mem_nat_In in Em. destruct (R si Em) as [o Ho]. rewrite Ho. simpl. intros H.
        inversion H as [H1]. clear H. pose proof (Hh o) as Ho'. exfalso.
        destruct o as [[|] jf|[|] jf|a0 b0].
        * destruct Ho' as (jf'' & E & _). rewrite E in H1. discriminate.
        * rewrite Ho' in H1. discriminate.
        * rewrite Ho' in H1. discriminate.
        * rewrite Ho' in H1. discriminate.
        * destruct (S si a0 b0 Ho) as [Hni _]. contradiction.
      + intros Ho. destruct (S si a b Ho) as (Hni & Ha & Hb). split; [exact Hni|]. split.
        * intros i Hi. destruct (Ha i Hi) as (Hs & jf & Hjf). split; [exact Hs|].
          rewrite Hn, (Hin i Hs), Hjf. simpl. destruct (Hh (ODur true jf)) as (jf' & E & _). rewrite E. eauto.
        * intros i Hi. destruct (Hb i Hi) as (Hs & jf & Hjf). split; [exact Hs|].
          rewrite Hn, (Hin i Hs), Hjf. simpl. pose proof (Hh (OReady true jf)) as E. simpl in E. rewrite E. eauto.
  Qed.

  Lemma r_update_ok (w : rwld) r x o row :
    Inv I (core w) -> accepted I (core w) r x o row ->
    h_ok (r_update I (filt w) (apply_sop I (core w) x row) x) (core w) (apply_sop I (core w) x row) (filt w).
  Proof.
    intros Hi Ha [[|] jf|[|] jf|a b]; simpl; try reflexivity.
    eexists. split; [reflexivity|]. intros ->. symmetry. eapply job_work_after; eauto.
  Qed.

  Lemma r_reset_ok (w : rwld) d' : h_ok (r_reset I (filt w) d') (core w) d' (filt w).
  Proof. intros [[|] jf|[|] jf|a b]; simpl; try reflexivity. eexists. split; [reflexivity|auto]. Qed.

  Lemma ObsInv_after (w : rwld) r x o row :
    Inv I (core w) -> accepted I (core w) r x o row -> ObsInv w -> ObsInv (after robs r_update I w x row).
  Proof. intros Hi Ha Ho. unfold after. apply ObsInv_notify; [exact Ho|eapply r_update_ok; eauto]. Qed.

  Lemma reset_eq_r (w : rwld) :
    reset r_reset I w =
    (mkw (init_d I) empty_cache (filt w) (notify_all (r_reset I (filt w) (init_d I)) (subs w) (objs w)) (subs w),
     inl tt).
  Proof. destruct w as [[mf jn jf sc] c f os ss]. reflexivity. Qed.

  (** *** creation of objects *)
  Lemma r_new_eq k hasj (w : rwld) :
    r_new I k hasj w =
    (mkw (core w) (wcache w) (filt w) (objs w ++ [r_construct I (filt w) (core w) k hasj])
         (subs w ++ [length (objs w)]), inl (length (objs w))).
  Proof. destruct w as [d c f os ss]. reflexivity. Qed.

  Lemma new_scorer_eq (w : rwld) :
    new_scorer w = (mkw (core w) (wcache w) (filt w) (objs w ++ [OScorer None None]) (subs w), inl (length (objs w))).
  Proof. destruct w as [d c f os ss]. reflexivity. Qed.

  Definition fresh_ok (w : rwld) (o : robs) : Prop :=
    match o with
    | ODur true jf => jf = job_work I (core w)
    | OReady true jf => jf = ready_vec I (filt w) (core w)
    | OScorer _ _ => False
    | _ => True
    end.

  Lemma r_construct_fresh (w : rwld) k hasj : fresh_ok w (r_construct I (filt w) (core w) k hasj).
  Proof. destruct k, hasj; simpl; auto. Qed.

  Lemma subs_lt (w : rwld) : ObsInv w -> forall i, In i (subs w) -> (i < length (objs w))%nat.
  Proof. intros Ho i Hi. destruct (oi_range _ Ho i Hi) as [o E]. eapply nth_error_lt; eauto. Qed.

  Lemma ObsInv_append_sub (w : rwld) o :
    ObsInv w -> fresh_ok w o ->
    ObsInv (mkw (core w) (wcache w) (filt w) (objs w ++ [o]) (subs w ++ [length (objs w)])).
  Proof.
    intros Ho Hf. pose proof (subs_lt w Ho) as Hlt. destruct Ho as [N R D Rd S].
    assert (Hold : forall i, (i < length (objs w))%nat -> nth_error (objs w ++ [o]) i = nth_error (objs w) i)
      by (intros i Hi; apply nth_error_app1; exact Hi).
    assert (Hnew : nth_error (objs w ++ [o]) (length (objs w)) = Some o)
      by (rewrite nth_error_app2 by lia; rewrite Nat.sub_diag; reflexivity).
    assert (Hcase : forall i, In i (subs w ++ [length (objs w)]) ->
              (In i (subs w) /\ (i < length (objs w))%nat) \/ i = length (objs w)).
    { intros i Hi. apply in_app_iff in Hi. destruct Hi as [Hi|[<-|[]]]; [left; split; [exact Hi|apply Hlt; exact Hi]|right; reflexivity]. }
    constructor; cbn [core filt objs subs].
    - apply NoDup_app_intro_single; [exact N|]. intros Hin. apply Hlt in Hin. lia.
    - intros i Hi. destruct (Hcase i Hi) as [[Hs Hl]| ->]; [rewrite (Hold i Hl); apply R; exact Hs|eauto].
    - intros i jf Hi. destruct (Hcase i Hi) as [[Hs Hl]| ->].
      + rewrite (Hold i Hl). apply D; exact Hs.
      + rewrite Hnew. intros H; inversion H; subst o. exact Hf.
    - intros i jf Hi. destruct (Hcase i Hi) as [[Hs Hl]| ->].
      + rewrite (Hold i Hl). apply Rd; exact Hs.
      + rewrite Hnew. intros H; inversion H; subst o. exact Hf.
    - intros si a b Hsi.
      assert (Hl : (si < length (objs w))%nat).
      { pose proof (nth_error_lt _ _ _ Hsi) as Hb0. rewrite app_length in Hb0. simpl in Hb0.
        destruct (Nat.eq_dec si (length (objs w))) as [->|]; [|lia].
        rewrite Hnew in Hsi. inversion Hsi; subst o. contradiction. }
      rewrite (Hold si Hl) in Hsi. destruct (S si a b Hsi) as (Hni & Ha & Hb). split.
      + intros Hin. apply in_app_iff in Hin. destruct Hin as [Hin|[Hin|[]]]; [contradiction|lia].
      + split; intros i Hi.
        * destruct (Ha i Hi) as (Hs & jf & Hjf). split; [apply in_app_iff; left; exact Hs|].
          exists jf. rewrite (Hold i (Hlt i Hs)). exact Hjf.
        * destruct (Hb i Hi) as (Hs & jf & Hjf). split; [apply in_app_iff; left; exact Hs|].
          exists jf. rewrite (Hold i (Hlt i Hs)). exact Hjf.
  Qed.

  Lemma ObsInv_append_scorer (w : rwld) :
    ObsInv w -> ObsInv (mkw (core w) (wcache w) (filt w) (objs w ++ [OScorer None None]) (subs w)).
  Proof.
    intros Ho. pose proof (subs_lt w Ho) as Hlt. destruct Ho as [N R D Rd S].
    assert (Hold : forall i, (i < length (objs w))%nat ->
               nth_error (objs w ++ [OScorer None None]) i = nth_error (objs w) i)
      by (intros i Hi; apply nth_error_app1; exact Hi).
    constructor; cbn [core filt objs subs].
    - exact N.
    - intros i Hi. rewrite (Hold i (Hlt i Hi)). apply R; exact Hi.
    - intros i jf Hi. rewrite (Hold i (Hlt i Hi)). apply D; exact Hi.
    - intros i jf Hi. rewrite (Hold i (Hlt i Hi)). apply Rd; exact Hi.
    - intros si a b Hsi. destruct (Nat.lt_ge_cases si (length (objs w))) as [Hl|Hge].
      + rewrite (Hold si Hl) in Hsi. destruct (S si a b Hsi) as (Hni & Ha & Hb). split; [exact Hni|].
        split; intros i Hi.
        * destruct (Ha i Hi) as (Hs & jf & Hjf). split; [exact Hs|]. exists jf. rewrite (Hold i (Hlt i Hs)). exact Hjf.
        * destruct (Hb i Hi) as (Hs & jf & Hjf). split; [exact Hs|]. exists jf. rewrite (Hold i (Hlt i Hs)). exact Hjf.
      + assert (si = length (objs w)).
        { apply nth_error_lt in Hsi. rewrite app_length in Hsi. simpl in Hsi. lia. }
        subst si. rewrite nth_error_app2, Nat.sub_diag in Hsi by lia. simpl in Hsi. inversion Hsi; subst a b.
        split; [intros Hin; apply Hlt in Hin; lia|]. split; intros i Hi; discriminate.
  Qed.

  (** the scorer object caches references to subscribed observers *)
  Lemma ObsInv_set_scorer (w : rwld) si a b a' b' :
    ObsInv w -> nth_error (objs w) si = Some (OScorer a b) ->
    (forall i, a' = Some i -> In i (subs w) /\ exists jf, nth_error (objs w) i = Some (ODur true jf)) ->
    (forall i, b' = Some i -> In i (subs w) /\ exists jf, nth_error (objs w) i = Some (OReady true jf)) ->
    ObsInv (mkw (core w) (wcache w) (filt w) (upd (objs w) si (OScorer a' b')) (subs w)).
  Proof.
    intros Ho Hsi Ha' Hb'. destruct (oi_scorer _ Ho si a b Hsi) as (Hni & _ & _).
    pose proof (nth_error_lt _ _ _ Hsi) as Hl.
    assert (Hsame : forall i, In i (subs w) -> nth_error (upd (objs w) si (OScorer a' b')) i = nth_error (objs w) i).
    { intros i Hi. apply nth_error_upd_neq. intros ->. contradiction. }
    destruct Ho as [N R D Rd S].
    constructor; cbn [core filt objs subs].
    - exact N.
    - intros i Hi. rewrite (Hsame i Hi). apply R; exact Hi.
    - intros i jf Hi. rewrite (Hsame i Hi). apply D; exact Hi.
    - intros i jf Hi. rewrite (Hsame i Hi). apply Rd; exact Hi.
    - intros sj a0 b0 Hsj. destruct (Nat.eq_dec si sj) as [<-|Hne].
      + rewrite nth_error_upd_eq in Hsj by exact Hl. inversion Hsj; subst a0 b0. split; [exact Hni|].
        split; intros i Hi.
        * destruct (Ha' i Hi) as (Hs & jf & Hjf). split; [exact Hs|]. exists jf. rewrite (Hsame i Hs). exact Hjf.
        * destruct (Hb' i Hi) as (Hs & jf & Hjf). split; [exact Hs|]. exists jf. rewrite (Hsame i Hs). exact Hjf.
      + rewrite nth_error_upd_neq in Hsj by exact Hne. destruct (S sj a0 b0 Hsj) as (Hnj & Ha & Hb).
        split; [exact Hnj|]. split; intros i Hi.
        * destruct (Ha i Hi) as (Hs & jf & Hjf). split; [exact Hs|]. exists jf. rewrite (Hsame i Hs). exact Hjf.
        * destruct (Hb i Hi) as (Hs & jf & Hjf). split; [exact Hs|]. exists jf. rewrite (Hsame i Hs). exact Hjf.
  Qed.
End Agree.

Section Scorer.
  Variable I : instance.

  Lemma find_first_sound os k ss i :
    find_first os k ss = Some i ->
    In i ss /\ k = RKDur /\ exists jf, nth_error os i = Some (ODur true jf).
  Proof.
    induction ss as [|a t IH]; simpl; [discriminate|].
    destruct (nth_error os a) as [o|] eqn:E.
    - destruct (is_kind k o && has_job_feature o) eqn:B.
      + intros H; inversion H; subst a. apply andb_true_iff in B. destruct B as [B1 B2].
        destruct o as [[|] jf|[|] jf|x y]; simpl in B2; try discriminate.
        destruct k; simpl in B1; try discriminate.
        split; [left; reflexivity|]. split; [reflexivity|eauto].
      + intros H. destruct (IH H) as (H1 & H2 & H3). split; [right; exact H1|auto].
    - intros H. destruct (IH H) as (H1 & H2 & H3). split; [right; exact H1|auto].
  Qed.

  Definition kind_obj (k : rkind) (jf : list Z) : robs :=
    match k with RKDur => ODur true jf | RKReady => OReady true jf end.

  (** what a lookup-or-create leaves behind: dispatcher untouched, objects and
      subscribers only added, invariant kept, the result is a subscribed
      observer of the requested kind with the JOBS feature *)
  Definition got (k : rkind) (w w' : rwld) (i : nat) : Prop :=
    ObsInv I w' /\ core w' = core w /\ filt w' = filt w /\ wcache w' = wcache w /\
    In i (subs w') /\ (exists jf, nth_error (objs w') i = Some (kind_obj k jf)) /\
    (forall j o, nth_error (objs w) j = Some o -> nth_error (objs w') j = Some o).

  Lemma r_cog_spec k (w : rwld) : ObsInv I w -> exists w' i, r_create_or_get I k w = (w', inl i) /\ got k w w' i.
  Proof.
    intros Ho. unfold r_create_or_get, bind, get.
    destruct (find_first (objs w) k (subs w)) as [i|] eqn:E.
    - apply find_first_sound in E. destruct E as (Hin & -> & jf & Hjf).
      exists w, i. unfold ret. split; [reflexivity|]. unfold got.
      split; [exact Ho|]. split; [reflexivity|]. split; [reflexivity|]. split; [reflexivity|].
      split; [exact Hin|]. split; [exists jf; exact Hjf|auto].
    - rewrite r_new_eq. eexists. exists (length (objs w)). split; [reflexivity|].
      unfold got. cbn [core filt wcache objs subs].
      split; [apply ObsInv_append_sub; [exact Ho|apply r_construct_fresh]|].
      split; [reflexivity|]. split; [reflexivity|]. split; [reflexivity|].
      split; [apply in_app_iff; right; left; reflexivity|].
      split.
      + rewrite nth_error_app2, Nat.sub_diag by lia. simpl. destruct k; simpl; eauto.
      + intros j o Hj. rewrite nth_error_app1 by (eapply nth_error_lt; eauto). exact Hj.
  Qed.

  Lemma get_ref_spec k (ref : option nat) (w : rwld) :
    ObsInv I w ->
    (forall i, ref = Some i -> In i (subs w) /\ exists jf, nth_error (objs w) i = Some (kind_obj k jf)) ->
    exists w' i, (match ref with Some i => ret i | None => r_create_or_get I k end) w = (w', inl i) /\ got k w w' i.
  Proof.
    intros Ho Href. destruct ref as [i|]; [|apply r_cog_spec; exact Ho].
    destruct (Href i eq_refl) as (Hin & jf & Hjf). exists w, i. unfold ret. split; [reflexivity|].
    unfold got. split; [exact Ho|]. split; [reflexivity|]. split; [reflexivity|]. split; [reflexivity|].
    split; [exact Hin|]. split; [exists jf; exact Hjf|auto].
  Qed.

  Lemma set_objs_eq (f : list robs -> list robs) (w : rwld) :
    set_objs f w = (mkw (core w) (wcache w) (filt w) (f (objs w)) (subs w), inl tt).
  Proof. reflexivity. Qed.

  Theorem scorer_call_spec si a b (w : rwld) :
    ObsInv I w -> nth_error (objs w) si = Some (OScorer a b) ->
    exists w', scorer_call I si w =
                 (w', inl (mask_ready (job_work I (core w)) (ready_vec I (filt w) (core w)))) /\
               ObsInv I w' /\ core w' = core w /\ filt w' = filt w /\ wcache w' = wcache w /\
               (forall sj a0 b0, nth_error (objs w) sj = Some (OScorer a0 b0) ->
                                 exists a' b', nth_error (objs w') sj = Some (OScorer a' b')).
  Proof.
    intros Ho Hsi.
    destruct (oi_scorer _ _ Ho si a b Hsi) as (Hni & Ha & Hb).
    (* 1: the duration observer *)
    destruct (get_ref_spec RKDur a w Ho Ha) as (w1 & di & E1 & Ho1 & Hc1 & Hf1 & Hk1 & Hin1 & (jf1 & Hjf1) & Hold1).
    pose proof (Hold1 _ _ Hsi) as Hsi1.
    destruct (oi_scorer _ _ Ho1 si a b Hsi1) as (Hni1 & _ & Hb1).
    (* 2: remember it *)
    set (w2 := mkw (core w1) (wcache w1) (filt w1) (upd (objs w1) si (OScorer (Some di) b)) (subs w1)).
    assert (Ho2 : ObsInv I w2).
    { apply (ObsInv_set_scorer I w1 si a b (Some di) b Ho1 Hsi1); [|exact Hb1].
      intros i Hi. inversion Hi; subst i. split; [exact Hin1|exists jf1; exact Hjf1]. }
    assert (Hsi2 : nth_error (objs w2) si = Some (OScorer (Some di) b)).
    { unfold w2. cbn [objs]. apply nth_error_upd_eq. eapply nth_error_lt; eauto. }
    destruct (oi_scorer _ _ Ho2 si _ _ Hsi2) as (Hni2 & _ & Hb2).
    (* 3: the is-ready observer *)
    destruct (get_ref_spec RKReady b w2 Ho2 Hb2) as (w3 & ri & E3 & Ho3 & Hc3 & Hf3 & Hk3 & Hin3 & (jf3 & Hjf3) & Hold3).
    pose proof (Hold3 _ _ Hsi2) as Hsi3.
    destruct (oi_scorer _ _ Ho3 si _ _ Hsi3) as (Hni3 & Ha3 & _).
    destruct (Ha3 di eq_refl) as (Hind3 & jfd & Hjfd).
    (* 4: remember it *)
    set (w4 := mkw (core w3) (wcache w3) (filt w3) (upd (objs w3) si (OScorer (Some di) (Some ri))) (subs w3)).
    assert (Ho4 : ObsInv I w4).
    { apply (ObsInv_set_scorer I w3 si (Some di) b (Some di) (Some ri) Ho3 Hsi3).
      - intros i Hi. inversion Hi; subst i. split; [exact Hind3|exists jfd; exact Hjfd].
      - intros i Hi. inversion Hi; subst i. split; [exact Hin3|exists jf3; exact Hjf3]. }
    assert (Hd4 : nth_error (objs w4) di = Some (ODur true jfd)).
    { unfold w4. cbn [objs]. rewrite nth_error_upd_neq; [exact Hjfd|]. intros ->. contradiction. }
    assert (Hr4 : nth_error (objs w4) ri = Some (OReady true jf3)).
    { unfold w4. cbn [objs]. rewrite nth_error_upd_neq; [exact Hjf3|]. intros ->. contradiction. }
    assert (Hcore : core w4 = core w) by (unfold w4; cbn [core]; rewrite Hc3; unfold w2; cbn [core]; exact Hc1).
    assert (Hfilt : filt w4 = filt w) by (unfold w4; cbn [filt]; rewrite Hf3; unfold w2; cbn [filt]; exact Hf1).
    assert (Hcache : wcache w4 = wcache w) by (unfold w4; cbn [wcache]; rewrite Hk3; unfold w2; cbn [wcache]; exact Hk1).
    pose proof (oi_dur _ _ Ho4 di jfd Hind3 Hd4) as Ejd.
    pose proof (oi_ready _ _ Ho4 ri jf3 Hin3 Hr4) as Ejr.
    rewrite Hcore in Ejd. rewrite Hcore, Hfilt in Ejr.
    exists w4. split.
    - unfold scorer_call. unfold bind at 1. unfold get at 1. rewrite Hsi.
      unfold bind at 1. rewrite E1.
      unfold bind at 1. rewrite set_objs_eq. fold w2.
      unfold bind at 1. rewrite E3.
      unfold bind at 1. rewrite set_objs_eq. fold w4.
      unfold bind at 1. unfold get at 1. rewrite Hd4, Hr4. unfold ret. rewrite Ejd, Ejr. reflexivity.
    - split; [exact Ho4|]. split; [exact Hcore|]. split; [exact Hfilt|]. split; [exact Hcache|].
      intros sj a0 b0 Hsj. unfold w4. cbn [objs]. destruct (Nat.eq_dec si sj) as [<-|Hne].
      + exists (Some di), (Some ri). apply nth_error_upd_eq. eapply nth_error_lt; eauto.
      + rewrite nth_error_upd_neq by exact Hne. exists a0, b0. apply Hold3. unfold w2. cbn [objs].
        rewrite nth_error_upd_neq by exact Hne. apply Hold1. exact Hsj.
  Qed.
End Scorer.

(** ** agreement in every reachable world *)
Section Reach.
  Variable I : instance.
  Hypothesis Hv : valid I.
  Hypothesis Hm : has_machines I.

  Record RI (w : rwld) : Prop := {
    ri_inv : Inv I (core w);
    ri_wok : wok robs I w;
    ri_obs : ObsInv I w
  }.

  Lemma ObsInv_ext (w w' : rwld) : ext robs w w' -> ObsInv I w -> ObsInv I w'.
  Proof.
    intros (Hc & Hf & Ho & Hs) H. destruct w as [d c f os ss], w' as [d' c' f' os' ss']. simpl in *. subst.
    apply (ObsInv_cache I (mkw d c f os ss) c'). exact H.
  Qed.

  Lemma RI_ext (w w' : rwld) : ext robs w w' -> wok robs I w' -> RI w -> RI w'.
  Proof.
    intros Hx Hw' [Hi _ Ho]. constructor; [|exact Hw'|eapply ObsInv_ext; eauto].
    destruct Hx as (Hc & _). rewrite Hc. exact Hi.
  Qed.

  Lemma avail_jobs d fs : Inv I d -> forall k, In k (available I d fs) -> (fst k < num_jobs I)%nat.
  Proof.
    intros Hi [j p] Hk.
    apply (sublist_In _ _ _ (available_sublist_ready I Hv Hm d Hi fs)) in Hk.
    apply (In_raw_ready I d Hi) in Hk. simpl. unfold num_jobs. tauto.
  Qed.

  (** the observer-based rule returns exactly what the direct rule returns *)
  Theorem obs_rule_is_direct (w : rwld) si a b draw :
    RI w -> nth_error (objs w) si = Some (OScorer a b) ->
    exists w', rule_mwkr_obs I si w = (w', rule_pure I (filt w) (core w) RMwkr draw) /\
               RI w' /\ core w' = core w /\ filt w' = filt w /\
               (exists a' b', nth_error (objs w') si = Some (OScorer a' b')).
  Proof.
    intros [Hi Hw Ho] Hsi.
    destruct (scorer_call_spec I si a b w Ho Hsi) as (w1 & E1 & Ho1 & Hc1 & Hf1 & Hk1 & Hs1').
    pose proof (Hs1' si a b Hsi) as Hs1.
    assert (Hw1 : wok robs I w1) by (unfold wok in *; rewrite Hc1, Hf1, Hk1; exact Hw).
    destruct (q_avail_answers robs I w1 Hw1) as (w2 & E2 & Hx2 & Hw2).
    exists w2. split.
    - unfold rule_mwkr_obs, rule_score_based, run_sfun. unfold bind at 1. rewrite E1.
      unfold bind at 1. rewrite E2. rewrite Hc1, Hf1.
      change (p_avail I (filt w) (core w)) with (available I (core w) (filt w)).
      rewrite (masked_scores_agree I (filt w) (core w) (avail_jobs (core w) (filt w) Hi)).
      unfold rule_pure, of_opt, opt_sum, ret, raise. destruct (mwkr_of I _ _); reflexivity.
    - assert (Hri1 : RI w1) by (constructor; [rewrite Hc1; exact Hi|exact Hw1|exact Ho1]).
      split; [eapply RI_ext; eauto|]. destruct Hx2 as (Hc2 & Hf2 & Hob2 & _).
      split; [congruence|]. split; [congruence|]. rewrite Hob2. exact Hs1.
  Qed.

  Theorem mwkr_rules_agree (w : rwld) si a b draw :
    RI w -> nth_error (objs w) si = Some (OScorer a b) ->
    snd (rule_mwkr_obs I si w) = snd (run_rule I RMwkr draw w).
  Proof.
    intros Hri Hsi. destruct (obs_rule_is_direct w si a b draw Hri Hsi) as (w1 & E1 & _).
    destruct (run_rule_yields I RMwkr draw w (ri_wok _ Hri)) as (w2 & E2 & _).
    rewrite E1, E2. reflexivity.
  Qed.

  (** *** reachable worlds *)
  Inductive rev :=
  | EvDispatch (r : request)              (* any request, accepted or not *)
  | EvReset
  | EvNewScorer                           (* MostWorkRemainingScorer() *)
  | EvNewObs (k : rkind) (hasj : bool)    (* DurationObserver / IsReadyObserver(dispatcher, feature_types=...) *)
  | EvScorer (si : nat)                   (* scorer(dispatcher) *)
  | EvRule (r : rule) (draw : nat)        (* a built-in rule *)
  | EvObsRule (si : nat)                  (* score_based_rule(scorer)(dispatcher) *)
  | EvForget (si : nat).                  (* the scorer is used on another dispatcher in between *)

  Definition run_rev (w : rwld) (e : rev) : rwld :=
    match e with
    | EvDispatch r => fst (dispatch r_update I r w)
    | EvReset => fst (reset r_reset I w)
    | EvNewScorer => fst (new_scorer w)
    | EvNewObs k h => fst (r_new I k h w)
    | EvScorer si => fst (scorer_call I si w)
    | EvRule r dr => fst (run_rule I r dr w)
    | EvObsRule si => fst (rule_mwkr_obs I si w)
    | EvForget si => fst (scorer_forget si w)
    end.
  Definition reach (fs : list fname) (evs : list rev) : rwld := fold_left run_rev evs (init_w robs I fs).

  Lemma scorer_call_other si (w : rwld) :
    (forall a b, nth_error (objs w) si <> Some (OScorer a b)) -> scorer_call I si w = (w, inr EOther).
  Proof.
    intros H. unfold scorer_call, bind, get.
    destruct (nth_error (objs w) si) as [[h jf|h jf|a b]|] eqn:E; try reflexivity.
    exfalso. apply (H a b). reflexivity.
  Qed.

  Lemma scorer_dec (w : rwld) si :
    (exists a b, nth_error (objs w) si = Some (OScorer a b)) \/
    (forall a b, nth_error (objs w) si <> Some (OScorer a b)).
  Proof.
    destruct (nth_error (objs w) si) as [[h jf|h jf|a b]|]; [right|right|left|right]; try (intros; discriminate).
    eauto.
  Qed.

  Lemma run_rev_RI w e : RI w -> RI (run_rev w e).
  Proof.
    intros Hri. pose proof Hri as [Hi Hw Ho]. destruct e as [r| | |k h|si|r dr|si|si]; cbn [run_rev].
    - destruct (dispatch_cases robs r_update I r w) as [[e He]|(x & o & row & Ha & He)]; rewrite He; simpl.
      + exact Hri.
      + constructor; cbn [after core wcache filt].
        * eapply Inv_apply_sop; eauto.
        * unfold wok. cbn [after core wcache filt]. apply empty_cache_ok.
        * eapply ObsInv_after; eauto.
    - rewrite reset_eq_r. simpl. constructor; cbn [core wcache filt].
      + apply Inv_init.
      + unfold wok. cbn [core wcache filt]. apply empty_cache_ok.
      + apply ObsInv_notify; [exact Ho|apply r_reset_ok].
    - rewrite new_scorer_eq. simpl. constructor; [exact Hi|exact Hw|apply ObsInv_append_scorer; exact Ho].
    - rewrite r_new_eq. simpl. constructor; [exact Hi|exact Hw|].
      apply ObsInv_append_sub; [exact Ho|apply r_construct_fresh].
    - destruct (scorer_dec w si) as [(a & b & Hsi)|Hno].
      + destruct (scorer_call_spec I si a b w Ho Hsi) as (w1 & E1 & Ho1 & Hc1 & Hf1 & Hk1 & _). rewrite E1. simpl.
        constructor; [rewrite Hc1; exact Hi|unfold wok in *; rewrite Hc1, Hf1, Hk1; exact Hw|exact Ho1].
      + rewrite (scorer_call_other si w Hno). exact Hri.
    - destruct (run_rule_yields I r dr w Hw) as (w1 & E1 & Hx & Hw1). rewrite E1. simpl.
      eapply RI_ext; eauto.
    - destruct (scorer_dec w si) as [(a & b & Hsi)|Hno].
      + destruct (obs_rule_is_direct w si a b 0 Hri Hsi) as (w1 & E1 & Hri1 & _). rewrite E1. exact Hri1.
      + unfold rule_mwkr_obs, rule_score_based, run_sfun, bind. rewrite (scorer_call_other si w Hno). exact Hri.
    - unfold scorer_forget, bind, get.
      destruct (nth_error (objs w) si) as [[h jf|h jf|a b]|] eqn:E; try exact Hri.
      unfold set_objs, modify. cbn [fst]. constructor; cbn [core wcache filt].
      + exact Hi.
      + exact Hw.
      + apply (ObsInv_set_scorer I w si a b None None Ho E); intros i Hx; discriminate.
  Qed.

  Theorem reach_RI fs evs : RI (reach fs evs).
  Proof.
    unfold reach.
    assert (H0 : RI (init_w robs I fs)).
    { constructor; [simpl; apply Inv_init|unfold wok; simpl; apply empty_cache_ok|apply ObsInv_init]. }
    revert H0. generalize (init_w robs I fs). induction evs as [|e t IH]; intros w Hw; simpl; [exact Hw|].
    apply IH. apply run_rev_RI. exact Hw.
  Qed.

  (** what a built-in rule program returns in a reachable world *)
  Lemma rule_result fs evs r draw k :
    snd (run_rule I r draw (reach fs evs)) = inl k ->
    rule_pure I (filt (reach fs evs)) (core (reach fs evs)) r draw = inl k /\
    (forall k', In k' (available I (core (reach fs evs)) (filt (reach fs evs))) -> (fst k' < num_jobs I)%nat).
  Proof.
    intros H. pose proof (reach_RI fs evs) as Hri.
    destruct (run_rule_yields I r draw _ (ri_wok _ Hri)) as (w' & E & _). rewrite E in H. cbn [snd] in H.
    split; [exact H|]. apply avail_jobs. apply (ri_inv _ Hri).
  Qed.

  (** *** the solver with the observer-based rule *)
  Definition has_scorer (si : nat) (w : rwld) : Prop :=
    ObsInv I w /\ exists a b, nth_error (objs w) si = Some (OScorer a b).

  Lemma has_scorer_after si (w : rwld) r x o :
    Inv I (core w) -> accepted I (core w) r x o (row_of (core w) x) -> has_scorer si w ->
    has_scorer si (after robs r_update I w x (row_of (core w) x)).
  Proof.
    intros Hi Ha [Ho (a & b & Hsi)]. split; [eapply ObsInv_after; eauto|].
    exists a, b. unfold after. cbn [objs].
    rewrite notify_all_spec by (apply (oi_nodup _ _ Ho)).
    destruct (oi_scorer _ _ Ho si a b Hsi) as (Hni & _).
    destruct (mem_nat si (subs w)) eqn:E; [apply mem_nat_In in E; contradiction|exact Hsi].
  Qed.

  Lemma obs_rule_sound si : rule_sound I (has_scorer si) (rule_mwkr_obs I si).
  Proof.
    intros w Hi Hw [Ho (a & b & Hsi)] Hne.
    destruct (obs_rule_is_direct w si a b 0 (Build_RI w Hi Hw Ho) Hsi) as (w1 & E1 & Hri1 & Hc1 & Hf1 & Hs1).
    destruct (rule_pure_selects I (filt w) (core w) RMwkr 0 Hne) as (k & Ek & Hk).
    exists w1, k. rewrite E1, Ek. split; [reflexivity|]. split; [exact Hk|]. split; [exact Hc1|].
    split; [exact Hf1|]. split; [apply (ri_wok _ Hri1)|]. split; [apply (ri_obs _ Hri1)|exact Hs1].
  Qed.

  Theorem solve_obs_terminates c fs orc :
    let w0 := fst (new_scorer (init_w robs I fs)) in
    exists w', solve_loop I (fun _ => rule_mwkr_obs I 0) c orc (num_ops I) 0 w0 = (w', Done (num_ops I)) /\
               feasible I (sched (core w')) /\ complete I (sched (core w')).
  Proof.
    intros w0.
    assert (H0 : RI (init_w robs I fs)).
    { constructor; [simpl; apply Inv_init|unfold wok; simpl; apply empty_cache_ok|apply ObsInv_init]. }
    assert (Hw0 : RI w0) by (apply (run_rev_RI _ EvNewScorer H0)).
    destruct (solve_loop_terminates I Hv Hm (has_scorer 0) (has_scorer_after 0)
                (fun _ => rule_mwkr_obs I 0) c orc (fun _ => obs_rule_sound 0) (num_ops I) 0 w0)
      as (w' & E & Hi' & _ & _ & Hc').
    - apply (ri_inv _ Hw0).
    - apply (ri_wok _ Hw0).
    - split; [apply (ri_obs _ Hw0)|]. unfold w0. rewrite new_scorer_eq. simpl. eauto.
    - lia.
    - exists w'. split.
      + rewrite E. f_equal. f_equal. unfold w0. rewrite new_scorer_eq. simpl.
        unfold num_jobs. rewrite sumN_repeat0. lia.
      + split; [apply Inv_feasible; exact Hi'|apply (is_complete_spec _ _ Hi'); exact Hc'].
  Qed.
End Reach.
