(** Inv.v — the invariant of the dispatcher's own fields, its preservation
    by every accepted dispatch, and what follows from it: feasibility (C01),
    exact book-keeping (C02), completeness counting. *)
From JSL Require Import Base Instance Dstate Filters World Feasible ListFacts DispatchFun.
From Coq Require Import Lia Permutation.

Record Inv (I : instance) (d : dstate) : Prop := {
  i_len_mf : length (mfree d) = num_machines I;
  i_len_sc : length (sched d) = num_machines I;
  i_len_jn : length (jnext d) = length I;
  i_len_jf : length (jfree d) = length I;
  i_bound : forall j, (nthN (jnext d) j <= length (get_job I j))%nat;
  i_sop : forall x, In x (all_sops (sched d)) ->
      (exists o, get_op I (s_job x) (s_pos x) = Some o /\ In (s_mach x) (machines o)) /\
      (s_pos x < nthN (jnext d) (s_job x))%nat /\ 0 <= s_start x /\
      s_end I x <= nthZ (jfree d) (s_job x) /\ s_end I x <= nthZ (mfree d) (s_mach x);
  i_rows : forall m row, nth_error (sched d) m = Some row ->
      row_sorted I row /\ (forall x, In x row -> s_mach x = m) /\ last_end I row = nthZ (mfree d) m;
  i_nodup : NoDup (map key (all_sops (sched d)));
  i_prefix : forall j p, (p < nthN (jnext d) j)%nat ->
      exists x, In x (all_sops (sched d)) /\ key x = (j, p);
  i_job : forall x y, In x (all_sops (sched d)) -> In y (all_sops (sched d)) ->
      s_job x = s_job y -> (s_pos x < s_pos y)%nat -> s_end I x <= s_start y;
  i_jfree : forall j,
      (nthN (jnext d) j = 0%nat /\ nthZ (jfree d) j = 0) \/
      (exists x, In x (all_sops (sched d)) /\ key x = (j, pred (nthN (jnext d) j)) /\
                 (0 < nthN (jnext d) j)%nat /\ nthZ (jfree d) j = s_end I x);
  i_nonneg_mf : forall m, 0 <= nthZ (mfree d) m;
  i_nonneg_jf : forall j, 0 <= nthZ (jfree d) j;
  i_count : length (all_sops (sched d)) = sumN (jnext d)
}.

(** ** The initial state *)

Lemma concat_repeat_nil {A} n : concat (repeat (@nil A) n) = [].
Proof. induction n; simpl; auto. Qed.

Lemma Inv_init I : Inv I (init_d I).
Proof.
  unfold init_d, num_jobs. constructor; cbn [mfree jnext jfree sched];
    rewrite ?repeat_length; try reflexivity.
  - intros j. unfold nthN. rewrite nth_repeat_default. lia.
  - unfold all_sops. rewrite concat_repeat_nil. intros x [].
  - intros m row H. apply nth_error_repeat in H. subst row. simpl.
    split; [exact Logic.I|]. split; [intros x []|]. unfold last_end, nthZ. simpl.
    rewrite nth_repeat_default. reflexivity.
  - unfold all_sops. rewrite concat_repeat_nil. constructor.
  - intros j p H. unfold nthN in H. rewrite nth_repeat_default in H. lia.
  - unfold all_sops. rewrite concat_repeat_nil. intros x y [].
  - intros j. left. unfold nthN, nthZ. rewrite !nth_repeat_default. auto.
  - intros m. unfold nthZ. rewrite nth_repeat_default. lia.
  - intros j. unfold nthZ. rewrite nth_repeat_default. lia.
  - unfold all_sops. rewrite concat_repeat_nil, sumN_repeat0. reflexivity.
Qed.

(** ** Preservation *)

Lemma row_sorted_app I row x :
  row_sorted I row ->
  match last_opt row with Some y => s_end I y <= s_start x | None => True end ->
  row_sorted I (row ++ [x]).
Proof.
  induction row as [|a t IH]; intros Hs Hl; simpl; auto.
  destruct t as [|b t'].
  - simpl. unfold last_opt in Hl. simpl in Hl. split; [exact Hl|exact Logic.I].
  - simpl in Hs. destruct Hs as [Hab Hs]. change ((b :: t') ++ [x]) with (b :: (t' ++ [x])).
    split; [exact Hab|]. apply IH; [exact Hs|].
    rewrite last_opt_cons in Hl. destruct (last_opt (b :: t')); auto.
Qed.

Lemma get_op_bounds I j p o :
  get_op I j p = Some o -> (j < length I)%nat /\ (p < length (get_job I j))%nat.
Proof.
  unfold get_op, get_job. destruct (nth_error I j) as [job|] eqn:E; [|discriminate].
  intros H. split.
  - apply nth_error_Some. congruence.
  - rewrite (nth_error_nth _ _ _ E). apply nth_error_Some. congruence.
Qed.

Lemma s_end_of I x o : get_op I (s_job x) (s_pos x) = Some o -> s_end I x = s_start x + duration o.
Proof. unfold s_end, dur. intros ->. reflexivity. Qed.

Theorem Inv_apply_sop I d r x o row :
  valid I -> Inv I d -> accepted I d r x o row -> Inv I (apply_sop I d x row).
Proof.
  intros Hv Hi Ha.
  destruct Ha as [Aop Ajob Apos Anext Aelig Amach Arange Astart Arow Alast].
  assert (Hgo : get_op I (s_job x) (s_pos x) = Some o) by (rewrite Ajob, Apos; exact Aop).
  destruct (get_op_bounds _ _ _ _ Hgo) as [Hj Hp].
  assert (Hdur : 0 <= duration o) by (eapply Hv; eauto).
  assert (Hend : s_end I x = s_start x + duration o) by (apply s_end_of; exact Hgo).
  assert (Hjn : ((s_job x) < length (jnext d))%nat) by (rewrite (i_len_jn _ _ Hi); exact Hj).
  assert (Hjf : ((s_job x) < length (jfree d))%nat) by (rewrite (i_len_jf _ _ Hi); exact Hj).
  assert (Hnext : nthN (jnext d) (s_job x) = s_pos x) by (rewrite Ajob, Apos; exact Anext).
  assert (Hst1 : nthZ (mfree d) (s_mach x) <= s_start x) by (rewrite Astart; lia).
  assert (Hst2 : nthZ (jfree d) (s_job x) <= s_start x) by (rewrite Astart, Ajob; lia).
  assert (Hperm : Permutation (all_sops (upd (sched d) (s_mach x) (row ++ [x]))) (x :: all_sops (sched d)))
    by (apply concat_upd_perm; exact Arow).
  assert (Hin : forall y, In y (all_sops (upd (sched d) (s_mach x) (row ++ [x]))) <-> y = x \/ In y (all_sops (sched d))).
  { intros y. split; intros H.
    - apply (Permutation_in _ Hperm) in H. destruct H; auto.
    - apply (Permutation_in _ (Permutation_sym Hperm)). destruct H; [left; auto|right; auto]. }
  assert (Hold_pos : forall y, In y (all_sops (sched d)) -> s_job y = (s_job x) -> (s_pos y < s_pos x)%nat).
  { intros y Hy Hyj. destruct (i_sop _ _ Hi y Hy) as (_ & Hlt & _). rewrite Hyj, Hnext in Hlt. exact Hlt. }
  unfold apply_sop.
  constructor; cbn [mfree jnext jfree sched].
  - rewrite length_upd. apply (i_len_mf _ _ Hi).
  - rewrite length_upd. apply (i_len_sc _ _ Hi).
  - rewrite length_upd. apply (i_len_jn _ _ Hi).
  - rewrite length_upd. apply (i_len_jf _ _ Hi).
  - (* bound *)
    intros j'. unfold nthN. destruct (Nat.eq_dec (s_job x) j') as [<-|Hne].
    + rewrite nth_upd_eq by exact Hjn. fold (nthN (jnext d) (s_job x)). rewrite Hnext. lia.
    + rewrite nth_upd_neq by exact Hne. apply (i_bound _ _ Hi).
  - (* sop facts *)
    intros y Hy. apply Hin in Hy. destruct Hy as [->|Hy].
    + split; [exists o; split; [exact Hgo|exact Aelig]|].
      unfold nthN, nthZ. rewrite !nth_upd_eq by assumption.
      fold (nthN (jnext d) (s_job x)). rewrite Hnext.
      pose proof (i_nonneg_mf _ _ Hi (s_mach x)). lia.
    + destruct (i_sop _ _ Hi y Hy) as (He & Hlt & H0 & Hjf' & Hmf').
      split; [exact He|]. unfold nthN, nthZ in *.
      split; [|split; [exact H0|split]].
      * destruct (Nat.eq_dec (s_job x) (s_job y)) as [E|Hne].
        -- rewrite <- E. rewrite nth_upd_eq by exact Hjn. rewrite <- E in Hlt. lia.
        -- rewrite nth_upd_neq by exact Hne. exact Hlt.
      * destruct (Nat.eq_dec (s_job x) (s_job y)) as [E|Hne].
        -- rewrite <- E. rewrite nth_upd_eq by exact Hjf. rewrite <- E in Hjf'. unfold nthZ in Hst2. lia.
        -- rewrite nth_upd_neq by exact Hne. exact Hjf'.
      * destruct (Nat.eq_dec (s_mach x) (s_mach y)) as [E|Hne].
        -- rewrite <- E. rewrite nth_upd_eq by exact Arange. rewrite <- E in Hmf'. unfold nthZ in Hst1. lia.
        -- rewrite nth_upd_neq by exact Hne. exact Hmf'.
  - (* rows *)
    intros m r' Hr'. destruct (Nat.eq_dec (s_mach x) m) as [<-|Hne].
    + assert (Hk : ((s_mach x) < length (sched d))%nat) by (apply nth_error_Some; congruence).
      rewrite nth_error_upd_eq in Hr' by exact Hk. inversion Hr'; subst r'.
      destruct (i_rows _ _ Hi (s_mach x) row Arow) as (Hs & Hm & Hl).
      split; [apply row_sorted_app; assumption|]. split.
      * intros y Hy. apply in_app_iff in Hy. destruct Hy as [Hy|[<-|[]]]; [apply Hm; exact Hy|reflexivity].
      * unfold last_end. rewrite last_opt_app. unfold nthZ. rewrite nth_upd_eq by exact Arange. reflexivity.
    + rewrite nth_error_upd_neq in Hr' by exact Hne.
      destruct (i_rows _ _ Hi m r' Hr') as (Hs & Hm & Hl). split; [exact Hs|split; [exact Hm|]].
      unfold nthZ. rewrite nth_upd_neq by exact Hne. exact Hl.
  - (* nodup *)
    apply (Permutation_NoDup (l := map key (x :: all_sops (sched d)))).
    + apply Permutation_map. apply Permutation_sym. exact Hperm.
    + simpl. constructor; [|apply (i_nodup _ _ Hi)].
      intros Hc. apply in_map_iff in Hc. destruct Hc as (y & Hk & Hy).
      unfold key in Hk. injection Hk as Hkj Hkp.
      pose proof (Hold_pos y Hy Hkj). lia.
  - (* prefix *)
    intros j' p' Hlt. unfold nthN in Hlt. destruct (Nat.eq_dec (s_job x) j') as [<-|Hne].
    + rewrite nth_upd_eq in Hlt by exact Hjn. fold (nthN (jnext d) (s_job x)) in Hlt. rewrite Hnext in Hlt.
      destruct (Nat.eq_dec p' (s_pos x)) as [->|Hnp].
      * exists x. split; [apply Hin; left; reflexivity|reflexivity].
      * destruct (i_prefix _ _ Hi (s_job x) p') as (y & Hy & Hk); [rewrite Hnext; lia|].
        exists y. split; [apply Hin; right; exact Hy|exact Hk].
    + rewrite nth_upd_neq in Hlt by exact Hne.
      destruct (i_prefix _ _ Hi j' p' Hlt) as (y & Hy & Hk).
      exists y. split; [apply Hin; right; exact Hy|exact Hk].
  - (* job order *)
    intros y z Hy Hz Hjob Hpos. apply Hin in Hy. apply Hin in Hz.
    destruct Hy as [->|Hy], Hz as [->|Hz].
    + lia.
    + pose proof (Hold_pos z Hz (eq_sym Hjob)). lia.
    + destruct (i_sop _ _ Hi y Hy) as (_ & _ & _ & Hjf' & _). rewrite Hjob in Hjf'. lia.
    + apply (i_job _ _ Hi); assumption.
  - (* jfree *)
    intros j'. unfold nthN, nthZ. destruct (Nat.eq_dec (s_job x) j') as [<-|Hne].
    + right. exists x. rewrite !nth_upd_eq by assumption. fold (nthN (jnext d) (s_job x)). rewrite Hnext.
      split; [apply Hin; left; reflexivity|]. split; [reflexivity|]. split; [lia|reflexivity].
    + rewrite !nth_upd_neq by exact Hne. destruct (i_jfree _ _ Hi j') as [H|(y & Hy & Hk & Hpos & He)].
      * left. exact H.
      * right. exists y. split; [apply Hin; right; exact Hy|]. auto.
  - intros m. unfold nthZ. destruct (Nat.eq_dec (s_mach x) m) as [<-|Hne].
    + rewrite nth_upd_eq by exact Arange. pose proof (i_nonneg_mf _ _ Hi (s_mach x)). lia.
    + rewrite nth_upd_neq by exact Hne. apply (i_nonneg_mf _ _ Hi).
  - intros j'. unfold nthZ. destruct (Nat.eq_dec (s_job x) j') as [<-|Hne].
    + rewrite nth_upd_eq by exact Hjf. pose proof (i_nonneg_mf _ _ Hi (s_mach x)). lia.
    + rewrite nth_upd_neq by exact Hne. apply (i_nonneg_jf _ _ Hi).
  - rewrite (Permutation_length Hperm). simpl. rewrite (i_count _ _ Hi).
    unfold nthN. rewrite sumN_upd_S by exact Hjn. reflexivity.
Qed.

(** ** Consequences *)

Theorem Inv_feasible I d : Inv I d -> feasible I (sched d).
Proof.
  intros Hi. constructor.
  - intros x Hx. apply (i_sop _ _ Hi x Hx).
  - intros m row x Hr Hx. destruct (i_rows _ _ Hi m row Hr) as (_ & Hm & _). apply Hm; exact Hx.
  - apply (i_nodup _ _ Hi).
  - apply (i_job _ _ Hi).
  - intros x p Hx Hp. destruct (i_sop _ _ Hi x Hx) as (_ & Hlt & _).
    apply (i_prefix _ _ Hi). lia.
  - intros row Hr. apply In_nth_error in Hr. destruct Hr as [m Hm].
    apply (i_rows _ _ Hi m row Hm).
  - intros x Hx. apply (i_sop _ _ Hi x Hx).
Qed.

Lemma num_ops_sumN I : num_ops I = sumN (map (@length op) I).
Proof. unfold num_ops. apply length_concat_sumN. Qed.

Lemma nth_map_length (I : instance) j : nth j (map (@length op) I) 0%nat = length (get_job I j).
Proof.
  unfold get_job. revert j; induction I as [|job t IH]; intros [|j]; simpl; auto.
Qed.

Lemma Inv_all_scheduled_iff I d :
  Inv I d -> (sumN (jnext d) = num_ops I <-> forall j, nthN (jnext d) j = length (get_job I j)).
Proof.
  intros Hi. rewrite num_ops_sumN. split.
  - intros Hs j. unfold nthN. rewrite <- nth_map_length.
    apply sumN_le_eq; auto.
    + rewrite map_length. apply (i_len_jn _ _ Hi).
    + intros i. rewrite nth_map_length. apply (i_bound _ _ Hi).
  - intros H. f_equal. apply nth_ext with (d := 0%nat) (d' := 0%nat).
    + rewrite map_length. apply (i_len_jn _ _ Hi).
    + intros n _. rewrite nth_map_length. apply H.
Qed.

Theorem Inv_complete_iff I d :
  Inv I d -> (complete I (sched d) <-> sumN (jnext d) = num_ops I).
Proof.
  intros Hi. rewrite (Inv_all_scheduled_iff _ _ Hi). split.
  - intros Hc j. pose proof (i_bound _ _ Hi j) as Hb.
    destruct (Nat.eq_dec (nthN (jnext d) j) (length (get_job I j))) as [E|Hne]; [exact E|].
    assert (Hlt : (nthN (jnext d) j < length (get_job I j))%nat) by lia.
    assert (Hex : exists o, get_op I j (nthN (jnext d) j) = Some o).
    { unfold get_op, get_job in *. destruct (nth_error I j) as [job|] eqn:E.
      - rewrite (nth_error_nth _ _ _ E) in Hlt. apply nth_error_Some in Hlt.
        destruct (nth_error job (nthN (jnext d) j)) as [o|]; [eauto|congruence].
      - assert (nth j I [] = []) by (apply nth_overflow; apply nth_error_None; exact E).
        rewrite H in Hlt. simpl in Hlt. lia. }
    destruct Hex as [o Ho]. destruct (Hc _ _ _ Ho) as (x & Hx & Hk).
    destruct (i_sop _ _ Hi x Hx) as (_ & Hp & _). unfold key in Hk. injection Hk as Hkj Hkp.
    rewrite Hkj, Hkp in Hp. unfold nthN in *. lia.
  - intros H j p o Ho. destruct (get_op_bounds _ _ _ _ Ho) as [_ Hp].
    apply (i_prefix _ _ Hi). rewrite H. exact Hp.
Qed.

Lemma num_scheduled_length (S : schedule) : num_scheduled S = length (all_sops S).
Proof. unfold num_scheduled, all_sops. symmetry. apply length_concat_sumN. Qed.

(** [Schedule.is_complete()] says exactly "every operation occurs". *)
Theorem is_complete_spec I d : Inv I d -> (is_complete I (sched d) = true <-> complete I (sched d)).
Proof.
  intros Hi. unfold is_complete. rewrite Nat.eqb_eq, num_scheduled_length, (i_count _ _ Hi).
  symmetry. apply Inv_complete_iff; exact Hi.
Qed.

(** Book-keeping (C02): the tracking vectors are functions of the schedule. *)
Theorem Inv_mfree_is_last_end I d m row :
  Inv I d -> nth_error (sched d) m = Some row -> nthZ (mfree d) m = last_end I row.
Proof. intros Hi Hr. destruct (i_rows _ _ Hi m row Hr) as (_ & _ & H). symmetry; exact H. Qed.

Lemma makespan_code_spec_aux I (S : schedule) acc :
  fold_left (fun a row => match last_opt row with Some y => Z.max a (s_end I y) | None => a end) S acc
  = Z.max acc (fold_right Z.max acc (map (last_end I) S)) \/ True.
Proof. right; exact Logic.I. Qed.
