(** FjsRebuild.v — a complete dispatcher-built schedule of an instance whose
    operations have one machine each is determined by its per-machine job
    sequences: [from_job_sequences] rebuilds exactly that schedule. *)
From JSL Require Import Base Instance Dstate Filters World Feasible ListFacts DispatchFun Inv Run
  Views ViewsSpec ViewsProofs FjsInv FjsStep.
From Coq Require Import Lia Permutation.

Definition jobZ (x : sop) : Z := Z.of_nat (s_job x).

Lemma upd_same {A} (l : list A) m v : nth_error l m = Some v -> upd l m v = l.
Proof.
  revert m. induction l as [|h t IH]; intros [|m] H; simpl in *; try discriminate.
  - inversion H; reflexivity.
  - rewrite (IH m H). reflexivity.
Qed.

Lemma upd_middle {A} (a : list A) x b y : upd (a ++ x :: b) (length a) y = a ++ y :: b.
Proof. induction a as [|h t IH]; simpl; [reflexivity|]. rewrite IH. reflexivity. Qed.

Lemma first_false {A} (P : A -> bool) (l : list A) :
  Forall (fun x => P x = true) l \/
  exists l1 x l2, l = l1 ++ x :: l2 /\ Forall (fun x => P x = true) l1 /\ P x = false.
Proof.
  induction l as [|a t IH]; [left; constructor|].
  destruct (P a) eqn:E.
  - destruct IH as [H|(l1 & x & l2 & -> & H1 & H2)].
    + left. constructor; assumption.
    + right. exists (a :: l1), x, l2. split; [reflexivity|]. split; [constructor; assumption|exact H2].
  - right. exists [], a, t. split; [reflexivity|]. split; [constructor|exact E].
Qed.

Lemma split_done {A} (P : A -> Prop) (a b c : list A) x e :
  a ++ b = c ++ x :: e -> Forall P a -> Forall (fun z => ~ P z) b -> Forall P c -> ~ P x ->
  a = c /\ b = x :: e.
Proof.
  revert c. induction a as [|a0 a IH]; intros c E Ha Hb Hc Hx; simpl in E.
  - destruct c as [|c0 c]; [auto|]. simpl in E. subst b.
    inversion Hb as [|? ? Hn _]; subst. inversion Hc as [|? ? Hp _]; subst. contradiction.
  - inversion Ha as [|? ? Ha0 Ha']; subst. destruct c as [|c0 c]; simpl in E.
    + inversion E; subst. contradiction.
    + inversion E; subst. inversion Hc as [|? ? _ Hc']; subst.
      destruct (IH c H1 Ha' Hb Hc' Hx) as [-> ->]. auto.
Qed.

Lemma prefix_len_le {A} (a b : list (list A)) :
  length a = length b ->
  (forall m ra, nth_error a m = Some ra -> exists suf, nth_error b m = Some (ra ++ suf)) ->
  (length (concat a) <= length (concat b))%nat.
Proof.
  revert b. induction a as [|ra a IH]; intros [|rb b] Hl Hp; simpl in *; try discriminate; [lia|].
  destruct (Hp 0%nat ra eq_refl) as [suf Hs]. simpl in Hs. inversion Hs; subst rb.
  rewrite !app_length.
  assert (H : (length (concat a) <= length (concat b))%nat).
  { apply IH; [lia|]. intros m r H. exact (Hp (S m) r H). }
  lia.
Qed.

Lemma prefix_total {A} (a b : list (list A)) :
  length a = length b ->
  (forall m ra, nth_error a m = Some ra -> exists suf, nth_error b m = Some (ra ++ suf)) ->
  length (concat a) = length (concat b) -> a = b.
Proof.
  revert b. induction a as [|ra a IH]; intros [|rb b] Hl Hp Hc; simpl in *; try discriminate; [reflexivity|].
  destruct (Hp 0%nat ra eq_refl) as [suf Hs]. simpl in Hs. inversion Hs; subst rb.
  assert (Hp' : forall m r, nth_error a m = Some r -> exists suf, nth_error b m = Some (r ++ suf))
    by (intros m r H; exact (Hp (S m) r H)).
  assert (Hle : (length (concat a) <= length (concat b))%nat) by (apply prefix_len_le; [lia|exact Hp']).
  rewrite !app_length in Hc. assert (suf = []) by (destruct suf; [reflexivity|simpl in Hc; lia]). subst suf.
  rewrite app_nil_r in *. f_equal. apply IH; [lia|exact Hp'|lia].
Qed.

Section Rebuild.
  Variable I : instance.
  Hypothesis Hv : valid I.
  Hypothesis Hs : single_machine I.
  Variables (hT : list sop) (dT : dstate).
  Hypothesis HT : Hist I hT dT.
  Hypothesis Hcomplete : is_complete I (sched dT) = true.

  Let TI : Inv I dT := h_inv _ _ _ HT.

  (** The reconstruction has dispatched, on every machine, a prefix of the
      target row; the deque holds the job ids of the rest. *)
  Record Sim (w : world unit) (deqs : list (list Z)) : Prop := {
    s_inv : Inv I (core w);
    s_len : length deqs = length (sched dT);
    s_pref : forall m row, nth_error (sched (core w)) m = Some row ->
      exists suf, nth_error (sched dT) m = Some (row ++ suf) /\ nth_error deqs m = Some (map jobZ suf)
  }.

  Lemma T_complete j p o : get_op I j p = Some o -> exists y, In y (all_sops (sched dT)) /\ key y = (j, p).
  Proof. apply (proj1 (is_complete_spec _ _ TI) Hcomplete). Qed.

  Lemma T_key_unique y y' :
    In y (all_sops (sched dT)) -> In y' (all_sops (sched dT)) -> key y = key y' -> y = y'.
  Proof. apply NoDup_map_inj. apply (i_nodup _ _ TI). Qed.

  Lemma row_member d m row y : Inv I d -> nth_error (sched d) m = Some row -> In y row ->
    In y (all_sops (sched d)) /\ s_mach y = m.
  Proof.
    intros Hi Hr Hy. split; [apply In_concat_nth_error; eauto|].
    destruct (i_rows _ _ Hi _ _ Hr) as (_ & Hm & _). apply Hm; exact Hy.
  Qed.

  Lemma member_row d y : Inv I d -> In y (all_sops (sched d)) ->
    exists row, nth_error (sched d) (s_mach y) = Some row /\ In y row.
  Proof.
    intros Hi Hy. apply In_concat_nth_error in Hy. destruct Hy as (m & row & Hr & Hin).
    destruct (i_rows _ _ Hi _ _ Hr) as (_ & Hm & _). rewrite (Hm _ Hin). eauto.
  Qed.

  (** With one machine per operation, the key determines the machine. *)
  Lemma same_key_same_machine d d' y y' :
    Inv I d -> Inv I d' -> In y (all_sops (sched d)) -> In y' (all_sops (sched d')) -> key y = key y' ->
    s_mach y = s_mach y'.
  Proof.
    intros Hi Hi' Hy Hy' Hk. unfold key in Hk. inversion Hk as [[Hj Hp]].
    destruct (i_sop _ _ Hi y Hy) as ((o & Ho & Hm) & _).
    destruct (i_sop _ _ Hi' y' Hy') as ((o' & Ho' & Hm') & _).
    rewrite Hj, Hp in Ho. rewrite Ho in Ho'. inversion Ho'; subst o'.
    destruct (Hs _ _ _ Ho) as [mm Hmm]. rewrite Hmm in Hm, Hm'. simpl in Hm, Hm'.
    destruct Hm as [<-|[]]. destruct Hm' as [<-|[]]. reflexivity.
  Qed.

  Lemma sim_sub w deqs y : Sim w deqs -> In y (all_sops (sched (core w))) -> In y (all_sops (sched dT)).
  Proof.
    intros Sm Hy. apply In_concat_nth_error in Hy. destruct Hy as (m & row & Hr & Hin).
    destruct (s_pref _ _ Sm _ _ Hr) as (suf & Ht & _). apply In_concat_nth_error.
    exists m, (row ++ suf). split; [exact Ht|apply in_or_app; left; exact Hin].
  Qed.

  (** Nothing in the un-dispatched part of a row has been dispatched. *)
  Lemma sim_suffix_undone w deqs m row suf z :
    Sim w deqs -> nth_error (sched (core w)) m = Some row -> nth_error (sched dT) m = Some (row ++ suf) ->
    In z suf -> (nthN (jnext (core w)) (s_job z) <= s_pos z)%nat.
  Proof.
    intros Sm Hr Ht Hz. pose proof (s_inv _ _ Sm) as Hi.
    destruct (le_lt_dec (nthN (jnext (core w)) (s_job z)) (s_pos z)) as [H|H]; [exact H|exfalso].
    destruct (i_prefix _ _ Hi _ _ H) as (y & Hy & Hky).
    assert (HzT : In z (all_sops (sched dT)) /\ s_mach z = m).
    { eapply row_member; [exact TI|exact Ht|]. apply in_or_app; right; exact Hz. }
    destruct HzT as [HzT Hzm].
    assert (Hym : s_mach y = m).
    { rewrite <- Hzm. eapply (same_key_same_machine (core w) dT); eauto. }
    destruct (member_row _ _ Hi Hy) as (row' & Hr' & Hyin). rewrite Hym, Hr in Hr'. inversion Hr'; subst row'.
    apply in_split in Hyin. destruct Hyin as (l1 & l2 & ->).
    rewrite <- app_assoc in Ht. simpl in Ht.
    assert (Hlt : (s_pos y < s_pos z)%nat).
    { eapply (h_mono _ _ _ HT m l1 y (l2 ++ suf) z Ht).
      - apply in_or_app; right; exact Hz.
      - unfold key in Hky. inversion Hky; reflexivity. }
    unfold key in Hky. inversion Hky. lia.
  Qed.

  (** If the next operation of the head's job runs on this machine, it IS the head. *)
  Lemma sim_head_is_next w deqs m row x suf' o :
    Sim w deqs -> nth_error (sched (core w)) m = Some row ->
    nth_error (sched dT) m = Some (row ++ x :: suf') ->
    get_op I (s_job x) (nthN (jnext (core w)) (s_job x)) = Some o -> In m (machines o) ->
    s_pos x = nthN (jnext (core w)) (s_job x).
  Proof.
    intros Sm Hr Ht Hgo Hm. pose proof (s_inv _ _ Sm) as Hi.
    assert (Hlb : (nthN (jnext (core w)) (s_job x) <= s_pos x)%nat)
      by (eapply sim_suffix_undone; eauto; left; reflexivity).
    destruct (Nat.eq_dec (s_pos x) (nthN (jnext (core w)) (s_job x))) as [E|Hne]; [exact E|exfalso].
    set (p := nthN (jnext (core w)) (s_job x)) in *.
    destruct (T_complete _ _ _ Hgo) as (y & Hy & Hky). unfold key in Hky. injection Hky as Hyj Hyp.
    assert (Hym : s_mach y = m).
    { destruct (i_sop _ _ TI y Hy) as ((o' & Ho' & Hm') & _). rewrite Hyj, Hyp, Hgo in Ho'.
      inversion Ho'; subst o'. destruct (Hs _ _ _ Hgo) as [mm Hmm]. rewrite Hmm in Hm, Hm'. simpl in Hm, Hm'.
      destruct Hm as [<-|[]]. destruct Hm' as [<-|[]]. reflexivity. }
    destruct (member_row _ _ TI Hy) as (rowT & HrT & Hyin). rewrite Hym, Ht in HrT. inversion HrT; subst rowT.
    apply in_app_iff in Hyin. destruct Hyin as [Hyin|[Hyx|Hyin]].
    - destruct (row_member _ _ _ _ Hi Hr Hyin) as [Hyw _].
      destruct (i_sop _ _ Hi y Hyw) as (_ & Hlt & _). rewrite Hyj, Hyp in Hlt. unfold p in Hlt. lia.
    - subst y. lia.
    - assert (Hlt : (s_pos x < s_pos y)%nat) by (eapply (h_mono _ _ _ HT m row x suf' y Ht); eauto).
      lia.
  Qed.

  (** ... and the start time the dispatcher computes for it is the one in the target. *)
  Lemma sim_head_start w deqs m row x suf' :
    Sim w deqs -> nth_error (sched (core w)) m = Some row ->
    nth_error (sched dT) m = Some (row ++ x :: suf') ->
    s_pos x = nthN (jnext (core w)) (s_job x) ->
    fjs_sop (core w) (s_job x) m = x.
  Proof.
    intros Sm Hr Ht Hp. pose proof (s_inv _ _ Sm) as Hi.
    assert (HxT : In x (all_sops (sched dT)) /\ s_mach x = m).
    { eapply row_member; [exact TI|exact Ht|]. apply in_or_app; right; left; reflexivity. }
    destruct HxT as [HxT Hxm].
    destruct (h_forced _ _ _ HT _ _ _ _ Ht) as (jp & Hjp & Hst).
    destruct (i_rows _ _ Hi _ _ Hr) as (_ & _ & Hle). rewrite Hle in Hst.
    assert (Hjf : jp = nthZ (jfree (core w)) (s_job x)).
    { destruct Hjp as [[H0 ->]|(y & Hy & Hyj & Hyp & ->)].
      - destruct (i_jfree _ _ Hi (s_job x)) as [[_ Hf]|(y' & _ & _ & Hpos & _)]; [symmetry; exact Hf|lia].
      - destruct (i_jfree _ _ Hi (s_job x)) as [[Hz _]|(y' & Hy' & Hky' & Hpos & Hf)]; [lia|].
        assert (y = y').
        { apply T_key_unique; [exact Hy|eapply sim_sub; eauto|].
          rewrite Hky'. unfold key. f_equal; [exact Hyj|lia]. }
        subst y'. symmetry; exact Hf. }
    unfold fjs_sop. rewrite <- Hp, <- Hjf, <- Hst. destruct x as [xj xp xs xm]. simpl in *. subst xm. reflexivity.
  Qed.

  Lemma sim_after w deqs m row x suf' r o :
    Sim w deqs -> (m < length deqs)%nat -> nth_error (sched (core w)) m = Some row ->
    nth_error (sched dT) m = Some (row ++ x :: suf') -> s_mach x = m ->
    accepted I (core w) r x o row ->
    Sim (after unit u_update I w x row) (upd deqs m (map jobZ suf')).
  Proof.
    intros Sm Hml Hr Ht Hxm Hacc. pose proof (s_inv _ _ Sm) as Hi. constructor.
    - exact (Inv_apply_sop I (core w) r x o row Hv Hi Hacc).
    - rewrite length_upd. apply (s_len _ _ Sm).
    - intros m0 row0 H0. change (sched (core (after unit u_update I w x row)))
        with (upd (sched (core w)) (s_mach x) (row ++ [x])) in H0. rewrite Hxm in H0.
      assert (Hk : (m < length (sched (core w)))%nat) by (apply nth_error_Some; congruence).
      destruct (Nat.eq_dec m m0) as [<-|Hne].
      + rewrite nth_error_upd_eq in H0 by exact Hk. inversion H0; subst row0.
        exists suf'. rewrite <- app_assoc. simpl. split; [exact Ht|]. apply nth_error_upd_eq; exact Hml.
      + rewrite nth_error_upd_neq in H0 by exact Hne. rewrite nth_error_upd_neq by exact Hne.
        apply (s_pref _ _ Sm); exact H0.
  Qed.

  Lemma sim_lookup w deqs m dq :
    Sim w deqs -> nth_error deqs m = Some dq ->
    exists row suf, nth_error (sched (core w)) m = Some row /\
                    nth_error (sched dT) m = Some (row ++ suf) /\ dq = map jobZ suf.
  Proof.
    intros Sm Hd. pose proof (s_inv _ _ Sm) as Hi.
    assert (Hm : (m < length (sched (core w)))%nat).
    { rewrite (i_len_sc _ _ Hi), <- (i_len_sc _ _ TI), <- (s_len _ _ Sm). apply nth_error_Some. congruence. }
    destruct (nth_error (sched (core w)) m) as [row|] eqn:Hr; [|apply nth_error_None in Hr; lia].
    destruct (s_pref _ _ Sm _ _ Hr) as (suf & Ht & Hq). rewrite Hd in Hq. inversion Hq. eauto.
  Qed.

  Lemma head_job_in_range m row x suf' :
    nth_error (sched dT) m = Some (row ++ x :: suf') ->
    py_index (length I) (jobZ x) = Some (s_job x) /\
    exists ox, get_op I (s_job x) (s_pos x) = Some ox /\ In m (machines ox).
  Proof.
    intros Ht.
    assert (HxT : In x (all_sops (sched dT)) /\ s_mach x = m).
    { eapply row_member; [exact TI|exact Ht|]. apply in_or_app; right; left; reflexivity. }
    destruct HxT as [HxT Hxm]. destruct (i_sop _ _ TI x HxT) as ((ox & Hox & Hmx) & _).
    split; [|exists ox; rewrite <- Hxm; auto]. apply py_index_of_nat. eapply get_op_bounds; eauto.
  Qed.

  (** One iteration of the [for] loop keeps the simulation. *)
  Lemma sim_machine_step w deqs m dq :
    Sim w deqs -> nth_error deqs m = Some dq ->
    exists w' dq' b, fjs_machine I m dq w = inl (w', dq', b) /\ Sim w' (upd deqs m dq') /\
                     (b = false -> w' = w /\ dq' = dq).
  Proof.
    intros Sm Hd. pose proof (s_inv _ _ Sm) as Hi.
    assert (Hml : (m < length deqs)%nat) by (apply nth_error_Some; congruence).
    destruct (sim_lookup _ _ _ _ Sm Hd) as (row & suf & Hr & Ht & ->).
    destruct suf as [|x suf'].
    - exists w, [], false. simpl in Hd |- *. rewrite (upd_same _ _ _ Hd). auto.
    - destruct (head_job_in_range _ _ _ _ Ht) as (Hpy & ox & Hox & Hmx).
      cbn [map]. destruct (fjs_machine_spec I m (jobZ x) (map jobZ suf') w Hi)
        as [H|j H1 H2|j o H1 H2 H3|j o row0 H1 H2 H3 Hacc].
      + congruence.
      + rewrite Hpy in H1. inversion H1; subst j. exfalso.
        assert (Hlb : (nthN (jnext (core w)) (s_job x) <= s_pos x)%nat)
          by (eapply sim_suffix_undone; eauto; left; reflexivity).
        destruct (get_op_bounds _ _ _ _ Hox) as [_ Hb].
        unfold get_op, get_job in *. destruct (nth_error I (s_job x)) as [job|] eqn:E; [|discriminate].
        rewrite (nth_error_nth _ _ _ E) in Hb. apply nth_error_None in H2. lia.
      + exists w, (jobZ x :: map jobZ suf'), false. split; [reflexivity|].
        change (jobZ x :: map jobZ suf') with (map jobZ (x :: suf')). rewrite (upd_same _ _ _ Hd). auto.
      + rewrite Hpy in H1. inversion H1; subst j.
        assert (Hp : s_pos x = nthN (jnext (core w)) (s_job x)) by (eapply sim_head_is_next; eauto).
        assert (Hx : fjs_sop (core w) (s_job x) m = x) by (eapply sim_head_start; eauto).
        rewrite Hx in *.
        assert (Hxm : s_mach x = m) by (rewrite <- Hx; reflexivity).
        assert (row0 = row).
        { destruct Hacc as [_ _ _ _ _ _ _ _ Arow _]. rewrite Hxm, Hr in Arow. inversion Arow; reflexivity. }
        subst row0.
        exists (after unit u_update I w x row), (map jobZ suf'), true. split; [reflexivity|].
        split; [eapply sim_after; eauto|intros Hb; discriminate Hb].
  Qed.

  (** If the head of a row is its job's next operation, the iteration dispatches it. *)
  Lemma sim_head_progress w deqs m row x suf' :
    Sim w deqs -> nth_error (sched (core w)) m = Some row ->
    nth_error (sched dT) m = Some (row ++ x :: suf') ->
    s_pos x = nthN (jnext (core w)) (s_job x) ->
    exists w' dq', fjs_machine I m (map jobZ (x :: suf')) w = inl (w', dq', true).
  Proof.
    intros Sm Hr Ht Hp. pose proof (s_inv _ _ Sm) as Hi.
    destruct (head_job_in_range _ _ _ _ Ht) as (Hpy & ox & Hox & Hmx). rewrite Hp in Hox.
    cbn [map]. destruct (fjs_machine_spec I m (jobZ x) (map jobZ suf') w Hi)
      as [H|j H1 H2|j o H1 H2 H3|j o row0 H1 H2 H3 Hacc].
    - congruence.
    - rewrite Hpy in H1. inversion H1; subst j. congruence.
    - rewrite Hpy in H1. inversion H1; subst j. rewrite Hox in H2. inversion H2; subst o. contradiction.
    - eauto.
  Qed.

  (** One pass. *)
  Lemma sim_pass rest : forall done w, Sim w (done ++ rest) ->
    exists w2 rest2 b, fjs_pass I (length done) rest w = inl (w2, rest2, b) /\ Sim w2 (done ++ rest2) /\
      (b = false -> w2 = w /\ rest2 = rest /\
         forall k dq, nth_error rest k = Some dq ->
                      exists dq', fjs_machine I (length done + k) dq w = inl (w, dq', false)).
  Proof.
    induction rest as [|dq rest IH]; intros done w Sm.
    - exists w, [], false. simpl. split; [reflexivity|]. split; [exact Sm|]. intros _.
      split; [reflexivity|]. split; [reflexivity|]. intros [|k] dq H; discriminate.
    - assert (Hd : nth_error (done ++ dq :: rest) (length done) = Some dq).
      { rewrite nth_error_app2, Nat.sub_diag by lia. reflexivity. }
      destruct (sim_machine_step _ _ _ _ Sm Hd) as (w1 & dq1 & b1 & Hm & S1 & Hs1).
      rewrite upd_middle in S1.
      assert (S1' : Sim w1 ((done ++ [dq1]) ++ rest)) by (rewrite <- app_assoc; exact S1).
      destruct (IH (done ++ [dq1]) w1 S1') as (w2 & rest2 & b2 & Hp & S2 & Hs2).
      rewrite app_length in Hp. simpl in Hp. rewrite Nat.add_1_r in Hp.
      exists w2, (dq1 :: rest2), (b1 || b2)%bool. cbn [fjs_pass]. rewrite Hm, Hp.
      split; [reflexivity|]. split; [rewrite <- app_assoc in S2; exact S2|].
      intros Hb. apply orb_false_iff in Hb. destruct Hb as [-> ->].
      destruct (Hs1 eq_refl) as [-> ->]. destruct (Hs2 eq_refl) as (-> & -> & Hk).
      split; [reflexivity|]. split; [reflexivity|].
      intros [|k] dq0 H; simpl in H.
      + inversion H; subst dq0. rewrite Nat.add_0_r. eauto.
      + specialize (Hk k dq0 H). rewrite app_length in Hk. simpl in Hk.
        replace (length done + S k)%nat with (length done + 1 + k)%nat by lia. exact Hk.
  Qed.

  (** No deadlock: while the target is not rebuilt, some machine dispatches. *)
  Lemma sim_progress w deqs :
    Sim w deqs -> is_complete I (sched (core w)) = false ->
    (forall m dq, nth_error deqs m = Some dq -> exists dq', fjs_machine I m dq w = inl (w, dq', false)) ->
    False.
  Proof.
    intros Sm Hnc Hstuck. pose proof (s_inv _ _ Sm) as Hi.
    set (done := fun x : sop => (s_pos x <? nthN (jnext (core w)) (s_job x))%nat).
    destruct (first_false done hT) as [Hall|(h1 & x & h2 & Eh & H1 & Hx)].
    - (* everything of the target is dispatched: complete *)
      assert (Hc : sumN (jnext (core w)) = num_ops I).
      { apply (Inv_all_scheduled_iff _ _ Hi). intros j. pose proof (i_bound _ _ Hi j) as Hb.
        destruct (Nat.eq_dec (nthN (jnext (core w)) j) (length (get_job I j))) as [E|Hne]; [exact E|exfalso].
        assert (Hlt : (nthN (jnext (core w)) j < length (get_job I j))%nat) by lia.
        assert (Hex : exists o, get_op I j (nthN (jnext (core w)) j) = Some o).
        { destruct (get_op I j (nthN (jnext (core w)) j)) as [o|] eqn:E; [eauto|exfalso].
          unfold get_op, get_job in *. destruct (nth_error I j) as [job|] eqn:Ej.
          - rewrite (nth_error_nth _ _ _ Ej) in Hlt. apply nth_error_None in E. lia.
          - rewrite (nth_overflow I []) in Hlt by (apply nth_error_None; exact Ej). simpl in Hlt. lia. }
        destruct Hex as [o Ho]. destruct (T_complete _ _ _ Ho) as (y & Hy & Hky).
        apply (h_in _ _ _ HT) in Hy. rewrite Forall_forall in Hall. specialize (Hall y Hy).
        unfold done in Hall. apply Nat.ltb_lt in Hall. unfold key in Hky. injection Hky as Hyj Hyp.
        rewrite Hyj, Hyp in Hall. lia. }
      apply (is_complete_count _ _ Hi) in Hc. congruence.
    - unfold done in Hx. apply Nat.ltb_ge in Hx.
      assert (HxT : In x (all_sops (sched dT))) by (apply (h_in _ _ _ HT); rewrite Eh; apply in_or_app; right; left; reflexivity).
      destruct (member_row _ _ TI HxT) as (rowT & HrT & HxinT). set (m := s_mach x) in *.
      assert (Hml : (m < length deqs)%nat) by (rewrite (s_len _ _ Sm); apply nth_error_Some; congruence).
      destruct (nth_error deqs m) as [dq|] eqn:Hd; [|apply nth_error_None in Hd; lia].
      destruct (sim_lookup _ _ _ _ Sm Hd) as (row & suf & Hr & Ht & ->).
      (* position of x: its job's next operation *)
      assert (Hp : s_pos x = nthN (jnext (core w)) (s_job x)).
      { destruct (Nat.eq_dec (s_pos x) (nthN (jnext (core w)) (s_job x))) as [E|Hne]; [exact E|exfalso].
        destruct (h_closed _ _ _ HT _ _ _ Eh (nthN (jnext (core w)) (s_job x))) as (y & Hy & Hky); [lia|].
        rewrite Forall_forall in H1. specialize (H1 y Hy). unfold done in H1. apply Nat.ltb_lt in H1.
        unfold key in Hky. injection Hky as Hyj Hyp. rewrite Hyj, Hyp in H1. lia. }
      (* x is the head of the un-dispatched part of its row *)
      pose proof (h_rows _ _ _ HT _ _ HrT) as Hfil. rewrite Eh, filter_app in Hfil. simpl in Hfil.
      unfold on_mach at 2 in Hfil. fold m in Hfil. rewrite Nat.eqb_refl in Hfil.
      rewrite Ht in HrT. inversion HrT as [E]. rewrite <- E in Hfil.
      destruct (split_done (fun z => (s_pos z < nthN (jnext (core w)) (s_job z))%nat)
                           row suf (filter (on_mach m) h1) x (filter (on_mach m) h2) Hfil) as [_ ->].
      + apply Forall_forall. intros z Hz. destruct (row_member _ _ _ _ Hi Hr Hz) as [Hzw _].
        apply (i_sop _ _ Hi z Hzw).
      + apply Forall_forall. intros z Hz. apply Nat.le_ngt. eapply sim_suffix_undone; eauto.
      + apply Forall_forall. intros z Hz. apply filter_In in Hz. destruct Hz as [Hz _].
        rewrite Forall_forall in H1. specialize (H1 z Hz). unfold done in H1. apply Nat.ltb_lt in H1. exact H1.
      + lia.
      + destruct (sim_head_progress _ _ _ _ _ _ Sm Hr Ht Hp) as (w' & dq' & Hm).
        destruct (Hstuck m _ Hd) as [dq'' Hst]. rewrite Hm in Hst. inversion Hst.
  Qed.

  Lemma sim_complete_eq w deqs :
    Sim w deqs -> is_complete I (sched (core w)) = true -> sched (core w) = sched dT.
  Proof.
    intros Sm Hc. pose proof (s_inv _ _ Sm) as Hi. apply prefix_total.
    - rewrite (i_len_sc _ _ Hi), (i_len_sc _ _ TI). reflexivity.
    - intros m ra H. destruct (s_pref _ _ Sm _ _ H) as (suf & Ht & _). eauto.
    - unfold is_complete in *. apply Nat.eqb_eq in Hc. pose proof Hcomplete as Hc'. apply Nat.eqb_eq in Hc'.
      rewrite num_scheduled_length in Hc, Hc'. unfold all_sops in *. congruence.
  Qed.

  Lemma sim_loop fuel : forall w deqs, Sim w deqs -> (num_ops I - sumN (jnext (core w)) <= fuel)%nat ->
    fjs_loop I fuel w deqs = FOk (sched dT).
  Proof.
    induction fuel as [|f IH]; intros w deqs Sm Hf; pose proof (s_inv _ _ Sm) as Hi; simpl.
    - destruct (is_complete I (sched (core w))) eqn:E; [rewrite (sim_complete_eq _ _ Sm E); reflexivity|].
      exfalso. assert (sumN (jnext (core w)) <> num_ops I).
      { intros H. apply (is_complete_count _ _ Hi) in H. congruence. }
      pose proof (Inv_count_le _ _ Hi). lia.
    - destruct (is_complete I (sched (core w))) eqn:E; [rewrite (sim_complete_eq _ _ Sm E); reflexivity|].
      destruct (sim_pass deqs [] w Sm) as (w2 & rest2 & b & Hp & S2 & Hs2). simpl in Hp.
      pose proof (fjs_pass_general I deqs 0 w Hv Hi) as Hg. rewrite Hp in *.
      destruct Hg as (_ & _ & _ & _ & Hlt). destruct b.
      + apply IH; [exact S2|]. specialize (Hlt eq_refl). lia.
      + exfalso. destruct (Hs2 eq_refl) as (_ & _ & Hk). apply (sim_progress w deqs Sm E).
        intros m dq Hd. exact (Hk m dq Hd).
  Qed.

  Lemma sim_init : Sim (init_w unit I []) (job_sequences (sched dT)).
  Proof.
    constructor.
    - simpl. apply Inv_init.
    - unfold job_sequences. apply map_length.
    - intros m row H. simpl in H. pose proof (nth_error_repeat _ _ _ _ H) as E. subst row.
      assert (Hm : (m < length (sched dT))%nat).
      { rewrite (i_len_sc _ _ TI). rewrite <- (repeat_length (@nil sop) (num_machines I)). apply nth_error_Some. congruence. }
      destruct (nth_error (sched dT) m) as [rowT|] eqn:Ht; [|apply nth_error_None in Ht; lia].
      exists rowT. split; [reflexivity|]. unfold job_sequences. apply map_nth_error. exact Ht.
  Qed.

  Theorem fjs_rebuilds_target : from_job_sequences I (job_sequences (sched dT)) = FOk (sched dT).
  Proof.
    unfold from_job_sequences, from_job_sequences_fuel. rewrite reset_init.
    apply sim_loop; [apply sim_init|lia].
  Qed.
End Rebuild.
