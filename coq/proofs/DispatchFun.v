(** DispatchFun.v — the monadic [dispatch] program either raises and leaves
    the world untouched (every check precedes every write), or performs
    exactly the writes of [after]. Everything else is proved against this
    characterisation. *)
From JSL Require Import Base Instance Dstate Filters World.
From Coq Require Import Lia.

Section DispatchFun.
  Variable O : Type.
  Variable o_update : instance -> list fname -> dstate -> sop -> O -> O.
  Variable o_reset : instance -> list fname -> dstate -> O -> O.

  (** The facts established by the checks of an accepted request. *)
  Record accepted (I : instance) (d : dstate) (r : request) (x : sop) (o : op) (row : list sop) : Prop := {
    a_op : get_op I (r_job r) (r_pos r) = Some o;
    a_job : s_job x = r_job r;
    a_pos : s_pos x = r_pos r;
    a_next : nthN (jnext d) (r_job r) = r_pos r;
    a_elig : In (s_mach x) (machines o);
    a_mach : match r_mach r with Some m => m = Z.of_nat (s_mach x) | None => machines o = [s_mach x] end;
    a_inrange : (s_mach x < length (mfree d))%nat;
    a_start : s_start x = Z.max (nthZ (mfree d) (s_mach x)) (nthZ (jfree d) (r_job r));
    a_row : nth_error (sched d) (s_mach x) = Some row;
    a_last : match last_opt row with Some y => s_end I y <= s_start x | None => True end
  }.

  (** The dispatcher fields after an accepted dispatch of [x]. *)
  Definition apply_sop (I : instance) (d : dstate) (x : sop) (row : list sop) : dstate :=
    mkd (upd (mfree d) (s_mach x) (s_end I x))
        (upd (jnext d) (s_job x) (S (nthN (jnext d) (s_job x))))
        (upd (jfree d) (s_job x) (s_end I x))
        (upd (sched d) (s_mach x) (row ++ [x])).

  Definition after (I : instance) (w : world O) (x : sop) (row : list sop) : world O :=
    let d' := apply_sop I (core w) x row in
    mkw d' empty_cache (filt w) (notify_all (o_update I (filt w) d' x) (subs w) (objs w)) (subs w).

  Lemma existsb_elig (l : list nat) (m : Z) :
    existsb (fun k => Z.of_nat k =? m) l = true -> In (Z.to_nat m) l /\ m = Z.of_nat (Z.to_nat m).
  Proof.
    intros H. apply existsb_exists in H. destruct H as (k & Hin & Hk).
    apply Z.eqb_eq in Hk. subst m. rewrite Nat2Z.id. split; [exact Hin|reflexivity].
  Qed.

  Lemma py_index_nonneg len m mi :
    0 <= m -> py_index len m = Some mi -> mi = Z.to_nat m /\ (mi < len)%nat.
  Proof.
    unfold py_index. intros Hm.
    destruct ((0 <=? m) && (m <? Z.of_nat len)) eqn:E.
    - intros H; inversion H; subst. apply andb_true_iff in E. destruct E as [_ E].
      apply Z.ltb_lt in E. split; [reflexivity|lia].
    - destruct ((- Z.of_nat len <=? m) && (m <? 0)) eqn:E2; [|discriminate].
      apply andb_true_iff in E2. destruct E2 as [_ E2]. apply Z.ltb_lt in E2. lia.
  Qed.

  (** The same program with the monad unfolded: a cascade of checks, each of
      which returns the UNCHANGED world, followed by the writes. *)
  Definition resolve_pure (o : op) (rm : option Z) : Z + exn :=
    match rm with
    | Some m => inl m
    | None => match machines o with [] => inr EIndex | [m] => inl (Z.of_nat m) | _ => inr EUninit end
    end.

  Definition dispatch_pure (I : instance) (r : request) (w : world O) : world O * (unit + exn) :=
    match get_op I (r_job r) (r_pos r) with
    | None => (w, inr EOther)
    | Some o =>
      if (nthN (jnext (core w)) (r_job r) =? r_pos r)%nat then
        match resolve_pure o (r_mach r) with
        | inr e => (w, inr e)
        | inl m =>
          match py_index (length (mfree (core w))) m with
          | None => (w, inr EIndex)
          | Some mi =>
            if existsb (fun k => Z.of_nat k =? m) (machines o) then
              match nth_error (sched (core w)) (Z.to_nat m) with
              | None => (w, inr EIndex)
              | Some row =>
                let st := Z.max (nthZ (mfree (core w)) mi) (nthZ (jfree (core w)) (r_job r)) in
                let x := mksop (r_job r) (r_pos r) st (Z.to_nat m) in
                match last_opt row with
                | Some y => if s_end I y <=? st then (after I w x row, inl tt) else (w, inr EValidation)
                | None => (after I w x row, inl tt)
                end
              end
            else (w, inr EValidation)
          end
        end
      else (w, inr EValidation)
    end.

  Theorem dispatch_is_pure (I : instance) (r : request) (w : world O) :
    dispatch o_update I r w = dispatch_pure I r w.
  Proof.
    destruct w as [[mf jn jf sc] c f os ss].
    unfold dispatch_pure, dispatch, after, apply_sop, resolve_pure, bind, of_opt, get, ret, raise, schedule_add,
      update_tracking, set_core, set_cache, set_objs, modify, resolve_machine, bind, get, ret, raise, of_opt.
    cbn.
    unfold nthN, nthZ.
    destruct (get_op I (r_job r) (r_pos r)) as [o|]; cbn; [|reflexivity].
    destruct (nth (r_job r) jn 0%nat =? r_pos r)%nat; cbn; [|reflexivity].
    destruct (r_mach r) as [m|]; cbn.
    - destruct (py_index (length mf) m) as [mi|]; cbn; [|reflexivity].
      destruct (existsb (fun k : nat => Z.of_nat k =? m) (machines o)); cbn; [|reflexivity].
      destruct (nth_error sc (Z.to_nat m)) as [row|]; cbn; [|reflexivity].
      destruct (last_opt row) as [y|]; cbn; [|reflexivity].
      destruct (s_end I y <=? Z.max (nth mi mf 0) (nth (r_job r) jf 0)); cbn; reflexivity.
    - destruct (machines o) as [|k [|k2 t]]; cbn; try reflexivity.
      destruct (py_index (length mf) (Z.of_nat k)) as [mi|]; cbn; [|reflexivity].
      destruct (Z.of_nat k =? Z.of_nat k); cbn; [|reflexivity].
      destruct (nth_error sc (Z.to_nat (Z.of_nat k))) as [row|]; cbn; [|reflexivity].
      destruct (last_opt row) as [y|]; cbn; [|reflexivity].
      destruct (s_end I y <=? Z.max (nth mi mf 0) (nth (r_job r) jf 0)); cbn; reflexivity.
  Qed.

  Theorem dispatch_cases (I : instance) (r : request) (w : world O) :
    (exists e, dispatch o_update I r w = (w, inr e)) \/
    (exists x o row, accepted I (core w) r x o row /\
                     dispatch o_update I r w = (after I w x row, inl tt)).
  Proof.
    rewrite dispatch_is_pure. unfold dispatch_pure.
    destruct (get_op I (r_job r) (r_pos r)) as [o|] eqn:Ho; [|left; eexists; reflexivity].
    destruct (nthN (jnext (core w)) (r_job r) =? r_pos r)%nat eqn:Hnext;
      [|left; eexists; reflexivity].
    apply Nat.eqb_eq in Hnext.
    destruct (resolve_pure o (r_mach r)) as [m|e] eqn:Hres; [|left; eexists; reflexivity].
    assert (Hmm : match r_mach r with Some m' => m' = m | None => exists k, machines o = [k] /\ m = Z.of_nat k end).
    { unfold resolve_pure in Hres. destruct (r_mach r) as [m'|].
      - inversion Hres; reflexivity.
      - destruct (machines o) as [|k [|k2 t]]; inversion Hres. exists k; split; reflexivity. }
    destruct (py_index (length (mfree (core w))) m) as [mi|] eqn:Hpi; [|left; eexists; reflexivity].
    destruct (existsb (fun k : nat => Z.of_nat k =? m) (machines o)) eqn:Hel;
      [|left; eexists; reflexivity].
    apply existsb_elig in Hel. destruct Hel as [Hin Hmeq].
    assert (Hm0 : 0 <= m) by lia.
    destruct (py_index_nonneg _ _ _ Hm0 Hpi) as [Hmi Hlt]. subst mi.
    destruct (nth_error (sched (core w)) (Z.to_nat m)) as [row|] eqn:Hrow;
      [|left; eexists; reflexivity].
    cbv zeta.
    set (st := Z.max (nthZ (mfree (core w)) (Z.to_nat m)) (nthZ (jfree (core w)) (r_job r))).
    set (x := mksop (r_job r) (r_pos r) st (Z.to_nat m)).
    assert (Hacc : forall (Hl : match last_opt row with Some y => s_end I y <= st | None => True end),
               accepted I (core w) r x o row).
    { intros Hl. constructor; try reflexivity; auto.
      - cbn [s_mach x]. destruct (r_mach r) as [m'|].
        + subst m'. exact Hmeq.
        + destruct Hmm as (k & Hk & Hmk). rewrite Hk. subst m. rewrite Nat2Z.id. reflexivity. }
    destruct (last_opt row) as [y|] eqn:Hlast.
    - destruct (s_end I y <=? st) eqn:Hle; [|left; eexists; reflexivity].
      apply Z.leb_le in Hle. right. exists x, o, row. split; [apply Hacc; exact Hle|reflexivity].
    - right. exists x, o, row. split; [apply Hacc; exact Logic.I|reflexivity].
  Qed.

  (** C09 core: a raised exception leaves the whole world as it was. *)
  Corollary dispatch_atomic (I : instance) (r : request) (w w' : world O) (e : exn) :
    dispatch o_update I r w = (w', inr e) -> w' = w.
  Proof.
    intros H. destruct (dispatch_cases I r w) as [[e' He]|(x & o & row & _ & He)];
      rewrite He in H; inversion H; reflexivity.
  Qed.

  (** The environment step either raises before touching anything or IS a
      dispatch of the job's next operation. *)
  Theorem env_step_cases (I : instance) (j : nat) (m : Z) (w : world O) :
    (exists e, env_step o_update I j m w = (w, inr e)) \/
    (exists m', env_step o_update I j m w =
                dispatch o_update I (mkreq j (nthN (jnext (core w)) j) (Some m')) w).
  Proof.
    unfold env_step, bind, get, of_opt, ret, raise.
    destruct (length (get_job I j) <=? nthN (jnext (core w)) j)%nat; [left; eexists; reflexivity|].
    destruct (get_op I j (nthN (jnext (core w)) j)) as [o|]; [|left; eexists; reflexivity].
    destruct (m =? -1).
    - unfold resolve_machine, ret, raise. destruct (machines o) as [|k [|k2 t]].
      + left; eexists; reflexivity.
      + right; eexists; reflexivity.
      + left; eexists; reflexivity.
    - right; eexists; reflexivity.
  Qed.

  Corollary env_step_atomic (I : instance) (j : nat) (m : Z) (w w' : world O) (e : exn) :
    env_step o_update I j m w = (w', inr e) -> w' = w.
  Proof.
    intros H. destruct (env_step_cases I j m w) as [[e' He]|[m' He]]; rewrite He in H.
    - inversion H; reflexivity.
    - eapply dispatch_atomic; eauto.
  Qed.
End DispatchFun.
