(** ListFacts.v — small list lemmas used throughout. *)
From JSL Require Import Base.
From Coq Require Import Lia Permutation.

Lemma length_upd {A} (l : list A) i x : length (upd l i x) = length l.
Proof. revert i; induction l as [|h t IH]; intros [|i]; simpl; auto. Qed.

Lemma nth_upd_eq {A} (l : list A) i x d : (i < length l)%nat -> nth i (upd l i x) d = x.
Proof.
  revert i; induction l as [|h t IH]; intros [|i] H; simpl in *; try lia; auto.
  apply IH; lia.
Qed.

Lemma nth_upd_neq {A} (l : list A) i j x d : i <> j -> nth j (upd l i x) d = nth j l d.
Proof.
  revert i j; induction l as [|h t IH]; intros [|i] [|j] H; simpl; auto; try congruence.
Qed.

Lemma nth_error_upd_eq {A} (l : list A) i x : (i < length l)%nat -> nth_error (upd l i x) i = Some x.
Proof.
  revert i; induction l as [|h t IH]; intros [|i] H; simpl in *; try lia; auto.
  apply IH; lia.
Qed.

Lemma nth_error_upd_neq {A} (l : list A) i j x : i <> j -> nth_error (upd l i x) j = nth_error l j.
Proof.
  revert i j; induction l as [|h t IH]; intros [|i] [|j] H; simpl; auto; try congruence.
Qed.

Lemma concat_upd_perm {A} (l : list (list A)) k row x :
  nth_error l k = Some row ->
  Permutation (concat (upd l k (row ++ [x]))) (x :: concat l).
Proof.
  revert k; induction l as [|h t IH]; intros [|k] H; simpl in *; try discriminate.
  - inversion H; subst. rewrite <- app_assoc. simpl.
    rewrite <- Permutation_middle. reflexivity.
  - rewrite (IH k H). rewrite <- Permutation_middle. reflexivity.
Qed.

Lemma last_opt_app {A} (l : list A) x : last_opt (l ++ [x]) = Some x.
Proof. unfold last_opt. rewrite rev_app_distr. reflexivity. Qed.

Lemma last_opt_nil {A} : @last_opt A [] = None.
Proof. reflexivity. Qed.

Lemma last_opt_In {A} (l : list A) y : last_opt l = Some y -> In y l.
Proof.
  unfold last_opt. intros H. destruct (rev l) as [|z t] eqn:E; [discriminate|].
  inversion H; subst. apply in_rev. rewrite E. left; reflexivity.
Qed.

Lemma last_opt_cons {A} (a : A) (l : list A) :
  last_opt (a :: l) = match last_opt l with Some y => Some y | None => Some a end.
Proof.
  unfold last_opt. simpl. destruct (rev l) as [|z t]; reflexivity.
Qed.

Lemma nth_repeat {A} (x : A) n i d : (i < n)%nat -> nth i (repeat x n) d = x.
Proof. revert i; induction n; intros [|i] H; simpl; try lia; auto. apply IHn; lia. Qed.

Lemma nth_repeat_default {A} (x : A) n i : nth i (repeat x n) x = x.
Proof. revert i; induction n; intros [|i]; simpl; auto. Qed.

Lemma nth_error_repeat {A} (x : A) n i y : nth_error (repeat x n) i = Some y -> y = x.
Proof. revert i; induction n; intros [|i] H; simpl in *; try discriminate; [inversion H; auto|eauto]. Qed.

Lemma sumN_upd_S (l : list nat) j :
  (j < length l)%nat -> sumN (upd l j (S (nth j l 0%nat))) = S (sumN l).
Proof.
  revert j; induction l as [|h t IH]; intros [|j] H; simpl in *; try lia.
  rewrite IH; lia.
Qed.

Lemma sumN_repeat0 n : sumN (repeat 0%nat n) = 0%nat.
Proof. induction n; simpl; auto. Qed.

Lemma sumN_le_eq (a b : list nat) :
  length a = length b ->
  (forall i, nth i a 0 <= nth i b 0)%nat ->
  sumN a = sumN b -> forall i, nth i a 0%nat = nth i b 0%nat.
Proof.
  revert b; induction a as [|x a IH]; intros [|y b] Hl Hle Hs i; simpl in *; try discriminate.
  - destruct i; reflexivity.
  - assert (Hxy : (x <= y)%nat) by (apply (Hle 0%nat)).
    assert (Hle' : forall i, (nth i a 0 <= nth i b 0)%nat) by (intros k; apply (Hle (S k))).
    assert (Hsum : (sumN a <= sumN b)%nat).
    { clear -Hl Hle'. revert b Hl Hle'. induction a as [|u a IHa]; intros [|v b] Hl Hle'; simpl in *; try discriminate; [lia|].
      specialize (IHa b ltac:(lia) (fun k => Hle' (S k))). specialize (Hle' 0%nat). simpl in Hle'. lia. }
    assert (x = y) by lia. assert (sumN a = sumN b) by lia.
    destruct i; [assumption|]. apply IH; auto.
Qed.

Lemma length_concat_sumN {A} (l : list (list A)) : length (concat l) = sumN (map (@length A) l).
Proof. induction l as [|h t IH]; simpl; auto. rewrite app_length, IH. reflexivity. Qed.

Lemma In_concat_nth_error {A} (l : list (list A)) x :
  In x (concat l) <-> exists m row, nth_error l m = Some row /\ In x row.
Proof.
  split.
  - intros H. apply in_concat in H. destruct H as (row & Hr & Hx).
    apply In_nth_error in Hr. destruct Hr as [m Hm]. eauto.
  - intros (m & row & Hm & Hx). apply in_concat. exists row. split; auto.
    eapply nth_error_In; eauto.
Qed.
