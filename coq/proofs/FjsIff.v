(** FjsIff.v — which per-machine job sequences [from_job_sequences] accepts:
    exactly those that are the machine-wise projection of a total order of
    all operations respecting the job order (a linear extension of
    "job order ∪ machine order"). *)
From JSL Require Import Base Instance Dstate Filters World Feasible ListFacts DispatchFun Inv Run
  Views ViewsSpec ViewsProofs FjsInv FjsStep FjsRebuild.
From Coq Require Import Lia Permutation.

Lemma NoDup_all_keys I : NoDup (all_keys I).
Proof.
  apply (NoDup_map_inv (fun k => op_id I (fst k) (snd k))). rewrite (op_id_dense I). apply seq_NoDup.
Qed.

Lemma filter_map_comm {A B} (f : B -> bool) (g : A -> B) (l : list A) :
  filter f (map g l) = map g (filter (fun x => f (g x)) l).
Proof. induction l as [|x t IH]; simpl; [reflexivity|]. destruct (f (g x)); simpl; rewrite IH; reflexivity. Qed.

Lemma py_index_nat_inv len j0 j : py_index len (Z.of_nat j0) = Some j -> j = j0.
Proof.
  unfold py_index. destruct ((0 <=? Z.of_nat j0) && (Z.of_nat j0 <? Z.of_nat len)).
  - intros H; inversion H. apply Nat2Z.id.
  - destruct ((- Z.of_nat len <=? Z.of_nat j0) && (Z.of_nat j0 <? 0)) eqn:E; [|discriminate].
    apply andb_true_iff in E. destruct E as [_ E]. apply Z.ltb_lt in E. lia.
Qed.

Lemma map_map_of_nat_inj (a b : list (list nat)) :
  map (map Z.of_nat) a = map (map Z.of_nat) b -> a = b.
Proof.
  revert b. induction a as [|x a IH]; intros [|y b] H; simpl in H; try discriminate; [reflexivity|].
  inversion H as [[Hx Ha]]. f_equal; [|apply IH; exact Ha].
  clear -Hx. revert y Hx. induction x as [|u x IH]; intros [|v y] H; simpl in H; try discriminate; [reflexivity|].
  inversion H as [[Hu Hx]]. apply Nat2Z.inj in Hu. f_equal; [exact Hu|apply IH; exact Hx].
Qed.

Definition cnt (j : nat) (l : list nat) : nat := length (filter (Nat.eqb j) l).

Lemma cnt_app j a b : cnt j (a ++ b) = (cnt j a + cnt j b)%nat.
Proof. unfold cnt. rewrite filter_app, app_length. reflexivity. Qed.

Lemma cnt_cons_eq j l : cnt j (j :: l) = S (cnt j l).
Proof. unfold cnt. simpl. rewrite Nat.eqb_refl. reflexivity. Qed.

Lemma cnt_perm j a b : Permutation a b -> cnt j a = cnt j b.
Proof.
  unfold cnt. intros H. induction H as [|x l l' _ IH|x y l|l l' l'' _ IH1 _ IH2]; simpl.
  - reflexivity.
  - destruct (j =? x)%nat; simpl; rewrite IH; reflexivity.
  - destruct (j =? x)%nat, (j =? y)%nat; reflexivity.
  - congruence.
Qed.

Lemma cnt_map {A} j (f : A -> nat) (l : list A) :
  cnt j (map f l) = length (filter (fun x => (j =? f x)%nat) l).
Proof. unfold cnt. rewrite filter_map_comm, map_length. reflexivity. Qed.

Section Iff.
  Variable I : instance.
  Hypothesis Hv : valid I.
  Hypothesis Hs : single_machine I.

  Lemma hist_key_iff h d j q : Hist I h d -> (In (j, q) (map key h) <-> (q < nthN (jnext d) j)%nat).
  Proof.
    intros Hh. pose proof (h_inv _ _ _ Hh) as Hi. split.
    - intros H. apply in_map_iff in H. destruct H as (x & Hk & Hx). apply (h_in _ _ _ Hh) in Hx.
      destruct (i_sop _ _ Hi x Hx) as (_ & Hlt & _). unfold key in Hk. injection Hk as Hj Hp. subst. exact Hlt.
    - intros H. destruct (i_prefix _ _ Hi _ _ H) as (x & Hx & Hk). apply in_map_iff. exists x.
      split; [exact Hk|apply (h_in _ _ _ Hh); exact Hx].
  Qed.

  Lemma hist_machine_filter h d m x :
    Hist I h d -> In x h -> on_mach m x = on_machine_k I m (key x).
  Proof.
    intros Hh Hx. pose proof (h_inv _ _ _ Hh) as Hi. apply (h_in _ _ _ Hh) in Hx.
    destruct (i_sop _ _ Hi x Hx) as ((o & Ho & Hm) & _). destruct (Hs _ _ _ Ho) as [mm Hmm].
    rewrite Hmm in Hm. simpl in Hm. destruct Hm as [Hm|[]].
    unfold on_mach, on_machine_k, kmachines, kop, key. cbn [fst snd]. rewrite Ho, Hmm, <- Hm. simpl.
    rewrite orb_false_r. apply Nat.eqb_sym.
  Qed.

  Lemma hist_rows_project h d m :
    Hist I h d -> map s_job (filter (on_mach m) h) = project I m (map key h).
  Proof.
    intros Hh. unfold project. rewrite filter_map_comm, map_map. cbn [key fst].
    f_equal. apply filter_ext_in. intros x Hx. apply (hist_machine_filter h d m x Hh Hx).
  Qed.

  Lemma sched_rows_eq h d :
    Hist I h d -> sched d = map (fun m => filter (on_mach m) h) (seq 0 (num_machines I)).
  Proof.
    intros Hh. pose proof (h_inv _ _ _ Hh) as Hi. apply list_eq_nth with (d := []).
    - apply (i_len_sc _ _ Hi).
    - intros m Hm. destruct (nth_error (sched d) m) as [row|] eqn:E.
      + rewrite (nth_error_nth _ _ _ E). apply (h_rows _ _ _ Hh); exact E.
      + apply nth_error_None in E. rewrite (i_len_sc _ _ Hi) in E. lia.
  Qed.

  Lemma job_sequences_project h d :
    Hist I h d ->
    job_sequences (sched d) =
    map (map Z.of_nat) (map (fun m => project I m (map key h)) (seq 0 (num_machines I))).
  Proof.
    intros Hh. rewrite (sched_rows_eq _ _ Hh) at 1. unfold job_sequences. rewrite !map_map.
    apply map_ext. intros m. rewrite <- (hist_rows_project h d m Hh), map_map. reflexivity.
  Qed.

  (** *** A linear extension can be dispatched in its own order. *)
  Lemma lin_build P L : linearises I P L ->
    forall L1 L2, L = L1 ++ L2 -> exists h d, Hist I h d /\ map key h = L1.
  Proof.
    intros [Hperm Hjob _]. assert (Hnd : NoDup L).
    { eapply Permutation_NoDup; [apply Permutation_sym; exact Hperm|apply NoDup_all_keys]. }
    induction L1 as [|k L1 IH] using rev_ind; intros L2 E.
    - exists [], (init_d I). split; [apply Hist_init|reflexivity].
    - rewrite <- app_assoc in E. simpl in E. destruct (IH (k :: L2) E) as (h & d & Hh & Hk).
      pose proof (h_inv _ _ _ Hh) as Hi. destruct k as [j p].
      assert (Hin : In (j, p) (all_keys I)).
      { eapply Permutation_in; [exact Hperm|]. rewrite E. apply in_or_app; right; left; reflexivity. }
      apply all_keys_In in Hin. destruct Hin as [o Ho].
      assert (Hnext : nthN (jnext d) j = p).
      { assert (H1 : ~ (p < nthN (jnext d) j)%nat).
        { intros H. apply (hist_key_iff h d j p Hh) in H. rewrite Hk in H. rewrite E in Hnd.
          apply NoDup_remove_2 in Hnd. apply Hnd. apply in_or_app; left; exact H. }
        assert (H2 : ~ (nthN (jnext d) j < p)%nat).
        { intros H. pose proof (Hjob L1 (j, p) L2 (nthN (jnext d) j) E H) as Hq. cbn [fst] in Hq.
          rewrite <- Hk in Hq. apply (hist_key_iff h d j _ Hh) in Hq. lia. }
        lia. }
      destruct (Hs _ _ _ Ho) as [m Hm].
      set (w := mkw d empty_cache [] (@nil unit) []).
      destruct (fjs_dispatch_accepted I w j m o Hi) as (row & Hacc & _).
      { cbn [core w]. rewrite Hnext. exact Ho. }
      { rewrite Hm. left; reflexivity. }
      exists (h ++ [fjs_sop d j m]), (apply_sop I d (fjs_sop d j m) row).
      split; [eapply Hist_apply_sop; eauto|].
      rewrite map_app, Hk. simpl. unfold key. simpl. rewrite Hnext. reflexivity.
  Qed.

  Theorem accept_if_linearisable P L :
    linearises I P L ->
    exists h d, Hist I h d /\ map key h = L /\
                from_job_sequences I (map (map Z.of_nat) P) = FOk (sched d).
  Proof.
    intros Hl. destruct (lin_build P L Hl L [] (eq_sym (app_nil_r L))) as (h & d & Hh & Hk).
    exists h, d. split; [exact Hh|]. split; [exact Hk|].
    pose proof (h_inv _ _ _ Hh) as Hi.
    assert (Hc : is_complete I (sched d) = true).
    { apply (is_complete_spec _ _ Hi). intros j p o Ho.
      assert (Hin : In (j, p) (map key h)).
      { rewrite Hk. eapply Permutation_in; [apply Permutation_sym; apply (lin_perm _ _ _ Hl)|].
        apply all_keys_In; eauto. }
      apply in_map_iff in Hin. destruct Hin as (x & Hkx & Hx). exists x.
      split; [apply (h_in _ _ _ Hh); exact Hx|exact Hkx]. }
    rewrite (lin_rows _ _ _ Hl), <- Hk, <- (job_sequences_project h d Hh).
    apply (fjs_rebuilds_target I Hv Hs h d Hh Hc).
  Qed.

  (** *** Conversely, the order in which the loop dispatches is a linear extension. *)
  Record Tr (P : list (list nat)) (h : list sop) (w : world unit) (dn : list (list nat)) : Prop := {
    tr_hist : Hist I h (core w);
    tr_len : length dn = length P;
    tr_rows : forall m, nth m P [] = map s_job (nth m (sched (core w)) []) ++ nth m dn []
  }.

  (** With a true permutation the head of a deque always names a job that
      still has an operation to dispatch: no IndexError. *)
  Lemma tr_head_ok P h w dn m j0 rn :
    Tr P h w dn -> true_permutation I P -> (m < length dn)%nat -> nth m dn [] = j0 :: rn ->
    py_index (length I) (Z.of_nat j0) = Some j0 /\ get_op I j0 (nthN (jnext (core w)) j0) <> None.
  Proof.
    intros T [Hlen Hperm] Hm Edq. pose proof (tr_hist _ _ _ _ T) as Hh. pose proof (h_inv _ _ _ Hh) as Hi.
    assert (Hmn : (m < num_machines I)%nat) by (rewrite <- Hlen, <- (tr_len _ _ _ _ T); exact Hm).
    specialize (Hperm m Hmn). pose proof (tr_rows _ _ _ _ T m) as Hr. rewrite Edq in Hr.
    assert (Hj : (j0 < length I)%nat).
    { assert (Hin : In j0 (project I m (all_keys I))).
      { eapply Permutation_in; [exact Hperm|]. rewrite Hr. apply in_or_app; right; left; reflexivity. }
      unfold project in Hin. apply in_map_iff in Hin. destruct Hin as ([j p] & Hf & Hk). cbn [fst] in Hf. subst j.
      apply filter_In in Hk. destruct Hk as [Hk _]. apply all_keys_In in Hk. destruct Hk as [o Ho].
      eapply get_op_bounds; eauto. }
    split; [apply py_index_of_nat; exact Hj|]. intros Hnone.
    set (K := filter (fun k : nat * nat => (j0 =? fst k)%nat) (filter (on_machine_k I m) (all_keys I))).
    set (row := nth m (sched (core w)) []) in *.
    set (R := filter (fun x : sop => (j0 =? s_job x)%nat) row).
    assert (HK : NoDup K) by (unfold K; do 2 apply NoDup_filter; apply NoDup_all_keys).
    assert (Hincl : incl K (map key R)).
    { intros [j p] Hk. unfold K in Hk. apply filter_In in Hk. destruct Hk as [Hk Hj0]. cbn [fst] in Hj0.
      apply Nat.eqb_eq in Hj0. subst j. apply filter_In in Hk. destruct Hk as [Hk Hon].
      apply all_keys_In in Hk. destruct Hk as [o Ho].
      assert (Hp : (p < nthN (jnext (core w)) j0)%nat).
      { destruct (le_lt_dec (nthN (jnext (core w)) j0) p) as [Hle|Hlt]; [exfalso|exact Hlt].
        unfold get_op in Hnone, Ho. destruct (nth_error I j0) as [job|]; [|discriminate].
        apply nth_error_None in Hnone. assert (p < length job)%nat by (apply nth_error_Some; congruence). lia. }
      destruct (i_prefix _ _ Hi _ _ Hp) as (x & Hx & Hkx).
      assert (Hxm : s_mach x = m).
      { destruct (i_sop _ _ Hi x Hx) as ((o' & Ho' & Hm') & _). unfold key in Hkx. injection Hkx as Hxj Hxp.
        rewrite Hxj, Hxp, Ho in Ho'. inversion Ho'; subst o'. destruct (Hs _ _ _ Ho) as [mm Hmm].
        unfold on_machine_k, kmachines, kop in Hon. cbn [fst snd] in Hon. rewrite Ho, Hmm in Hon. simpl in Hon.
        rewrite orb_false_r in Hon. apply Nat.eqb_eq in Hon. rewrite Hmm in Hm'. simpl in Hm'.
        destruct Hm' as [<-|[]]. symmetry; exact Hon. }
      destruct (member_row I _ _ Hi Hx) as (row' & Hr' & Hxin). rewrite Hxm in Hr'.
      apply in_map_iff. exists x. split; [exact Hkx|]. unfold R. apply filter_In. split.
      - unfold row. rewrite (nth_error_nth _ _ _ Hr'). exact Hxin.
      - unfold key in Hkx. injection Hkx as Hxj _. rewrite Hxj. apply Nat.eqb_refl. }
    pose proof (NoDup_incl_length HK Hincl) as Hle. rewrite map_length in Hle.
    assert (Hc1 : cnt j0 (nth m P []) = length K).
    { rewrite (cnt_perm _ _ _ Hperm). unfold project. rewrite cnt_map. reflexivity. }
    assert (Hc2 : cnt j0 (nth m P []) = (length R + S (cnt j0 rn))%nat).
    { rewrite Hr, cnt_app, cnt_map, cnt_cons_eq. reflexivity. }
    lia.
  Qed.

  Lemma tr_machine P h w dn m :
    Tr P h w dn -> (m < length dn)%nat ->
    match fjs_machine I m (map Z.of_nat (nth m dn [])) w with
    | inr _ => ~ true_permutation I P
    | inl (w', dq', b) => exists h' rn, dq' = map Z.of_nat rn /\ Tr P h' w' (upd dn m rn)
    end.
  Proof.
    intros T Hm. pose proof (tr_hist _ _ _ _ T) as Hh. pose proof (h_inv _ _ _ Hh) as Hi.
    destruct (nth m dn []) as [|j0 rn] eqn:Edq.
    - simpl. exists h, []. split; [reflexivity|].
      assert (upd dn m [] = dn) as ->; [|exact T].
      apply upd_same. rewrite <- Edq. apply nth_error_nth'. exact Hm.
    - cbn [map]. destruct (fjs_machine_spec I m (Z.of_nat j0) (map Z.of_nat rn) w Hi)
        as [H|j H1 H2|j o H1 H2 H3|j o row H1 H2 H3 Hacc].
      + intros Htp. destruct (tr_head_ok P h w dn m j0 rn T Htp Hm Edq) as [Hpy _]. congruence.
      + intros Htp. destruct (tr_head_ok P h w dn m j0 rn T Htp Hm Edq) as [Hpy Hne].
        rewrite Hpy in H1. inversion H1; subst j. contradiction.
      + exists h, (j0 :: rn). split; [reflexivity|].
        assert (upd dn m (j0 :: rn) = dn) as ->; [|exact T].
        apply upd_same. rewrite <- Edq. apply nth_error_nth'. exact Hm.
      + apply py_index_nat_inv in H1. subst j.
        exists (h ++ [fjs_sop (core w) j0 m]), rn. split; [reflexivity|]. constructor.
        * exact (Hist_apply_sop I h (core w) _ _ o row Hv Hh Hacc).
        * rewrite length_upd. apply (tr_len _ _ _ _ T).
        * intros m0. change (sched (core (after unit u_update I w (fjs_sop (core w) j0 m) row)))
            with (upd (sched (core w)) m (row ++ [fjs_sop (core w) j0 m])).
          pose proof (tr_rows _ _ _ _ T m0) as Hr.
          destruct Hacc as [_ _ _ _ _ _ _ _ Arow _]. cbn [fjs_sop s_mach] in Arow.
          assert (Hk : (m < length (sched (core w)))%nat) by (apply nth_error_Some; congruence).
          destruct (Nat.eq_dec m m0) as [<-|Hne].
          -- rewrite !nth_upd_eq by assumption. rewrite Hr, Edq, (nth_error_nth _ _ _ Arow).
             rewrite map_app, <- app_assoc. reflexivity.
          -- rewrite !nth_upd_neq by exact Hne. exact Hr.
  Qed.

  Lemma tr_pass P rest : forall done w h, Tr P h w (done ++ rest) ->
    match fjs_pass I (length done) (map (map Z.of_nat) rest) w with
    | inr _ => ~ true_permutation I P
    | inl (w2, rest2Z, b) => exists h2 rest2, rest2Z = map (map Z.of_nat) rest2 /\ Tr P h2 w2 (done ++ rest2)
    end.
  Proof.
    induction rest as [|dq rest IH]; intros done w h T.
    - simpl. exists h, []. split; [reflexivity|exact T].
    - cbn [map fjs_pass].
      assert (Hm : (length done < length (done ++ dq :: rest))%nat) by (rewrite app_length; simpl; lia).
      pose proof (tr_machine P h w _ _ T Hm) as H1. rewrite nth_middle in H1.
      destruct (fjs_machine I (length done) (map Z.of_nat dq) w) as [[[w1 dq1] b1]|e]; [|exact H1].
      destruct H1 as (h1 & rn & -> & T1). rewrite upd_middle in T1.
      assert (T1' : Tr P h1 w1 ((done ++ [rn]) ++ rest)) by (rewrite <- app_assoc; exact T1).
      specialize (IH (done ++ [rn]) w1 h1 T1'). rewrite app_length in IH. simpl in IH. rewrite Nat.add_1_r in IH.
      destruct (fjs_pass I (S (length done)) (map (map Z.of_nat) rest) w1) as [[[w2 rest2Z] b2]|e]; [|exact IH].
      destruct IH as (h2 & rest2 & -> & T2). exists h2, (rn :: rest2). split; [reflexivity|].
      rewrite <- app_assoc in T2. exact T2.
  Qed.

  Lemma tr_loop P fuel : forall w h dn, Tr P h w dn ->
    forall rows, fjs_loop I fuel w (map (map Z.of_nat) dn) = FOk rows ->
    exists h' w' dn', Tr P h' w' dn' /\ rows = sched (core w') /\ is_complete I rows = true.
  Proof.
    induction fuel as [|f IH]; intros w h dn T rows; simpl.
    - destruct (is_complete I (sched (core w))) eqn:E; [|discriminate].
      intros H; inversion H; subst. exists h, w, dn. auto.
    - destruct (is_complete I (sched (core w))) eqn:E.
      + intros H; inversion H; subst. exists h, w, dn. auto.
      + pose proof (tr_pass P dn [] w h T) as Hp. simpl in Hp.
        destruct (fjs_pass I 0 (map (map Z.of_nat) dn) w) as [[[w2 rest2Z] b]|e]; [|discriminate].
        destruct Hp as (h2 & rest2 & -> & T2). destruct b; [|discriminate]. apply (IH _ _ _ T2).
  Qed.

  Lemma lengths_split {A B} (f : A -> B) (P : list (list B)) :
    forall (S0 : list (list A)) (D : list (list B)),
    length S0 = length P -> length D = length P ->
    (forall m, nth m P [] = map f (nth m S0 []) ++ nth m D []) ->
    sumN (map (@length B) P) = (sumN (map (@length A) S0) + sumN (map (@length B) D))%nat.
  Proof.
    induction P as [|p P IH]; intros [|s S0] [|dd D] H1 H2 H; simpl in *; try discriminate; [reflexivity|].
    pose proof (H 0%nat) as H0. simpl in H0. rewrite H0, app_length, map_length.
    rewrite (IH S0 D); [lia|lia|lia|]. intros m. exact (H (S m)).
  Qed.

  Lemma all_nil_of_sum0 {B} (D : list (list B)) : sumN (map (@length B) D) = 0%nat -> forall m, nth m D [] = [].
  Proof.
    induction D as [|x D IH]; intros H [|m]; simpl in *; try reflexivity.
    - destruct x; [reflexivity|simpl in H; lia].
    - apply IH. lia.
  Qed.

  Theorem accept_only_if_linearisable P rows :
    length P = num_machines I -> sumN (map (@length nat) P) = num_ops I ->
    from_job_sequences I (map (map Z.of_nat) P) = FOk rows ->
    exists h d, Hist I h d /\ rows = sched d /\ linearises I P (map key h).
  Proof.
    intros Hlen Hsum Hok. unfold from_job_sequences, from_job_sequences_fuel in Hok. rewrite reset_init in Hok.
    assert (T0 : Tr P [] (init_w unit I []) P).
    { constructor; [apply Hist_init|reflexivity|]. intros m. simpl.
      assert (nth m (repeat (@nil sop) (num_machines I)) [] = []) as ->; [|reflexivity].
      destruct (le_lt_dec (num_machines I) m) as [H|H].
      - apply nth_overflow. rewrite repeat_length. exact H.
      - apply nth_repeat. exact H. }
    destruct (tr_loop P _ _ _ _ T0 rows Hok) as (h & w & dn & T & -> & Hc).
    pose proof (tr_hist _ _ _ _ T) as Hh. pose proof (h_inv _ _ _ Hh) as Hi.
    exists h, (core w). split; [exact Hh|]. split; [reflexivity|].
    (* nothing is left in the deques *)
    assert (Hsplit := lengths_split s_job P (sched (core w)) dn
                        ltac:(rewrite (i_len_sc _ _ Hi); symmetry; exact Hlen) (tr_len _ _ _ _ T) (tr_rows _ _ _ _ T)).
    assert (Hn : sumN (map (@length sop) (sched (core w))) = num_ops I).
    { unfold is_complete in Hc. apply Nat.eqb_eq in Hc. exact Hc. }
    assert (Hd0 : forall m, nth m dn [] = []) by (apply all_nil_of_sum0; lia).
    assert (HP : P = map (map s_job) (sched (core w))).
    { apply nth_ext with (d := []) (d' := map s_job []).
      - rewrite map_length, (i_len_sc _ _ Hi). exact Hlen.
      - intros m _. rewrite map_nth, (tr_rows _ _ _ _ T m), Hd0, app_nil_r. reflexivity. }
    constructor.
    - apply NoDup_Permutation.
      + eapply Permutation_NoDup; [|apply (i_nodup _ _ Hi)].
        apply Permutation_map. apply Permutation_sym. apply (h_perm _ _ _ Hh).
      + apply NoDup_all_keys.
      + intros [j p]. rewrite all_keys_In. split.
        * intros H. apply in_map_iff in H. destruct H as (x & Hk & Hx). apply (h_in _ _ _ Hh) in Hx.
          destruct (i_sop _ _ Hi x Hx) as ((o & Ho & _) & _). unfold key in Hk. injection Hk as Hj Hp.
          subst. eauto.
        * intros [o Ho]. destruct (proj1 (is_complete_spec _ _ Hi) Hc _ _ _ Ho) as (y & Hy & Hk).
          apply in_map_iff. exists y. split; [exact Hk|apply (h_in _ _ _ Hh); exact Hy].
    - intros L1 k L2 q E Hq. apply map_eq_app in E. destruct E as (h1 & h2' & -> & <- & E2).
      apply map_eq_cons in E2. destruct E2 as (x & h2 & -> & <- & _).
      destruct (h_closed _ _ _ Hh h1 x h2 eq_refl q Hq) as (y & Hy & Hky).
      apply in_map_iff. exists y. split; [exact Hky|exact Hy].
    - rewrite HP, (sched_rows_eq _ _ Hh) at 1. rewrite map_map. apply map_ext.
      intros m. apply (hist_rows_project h (core w) m Hh).
  Qed.
End Iff.
