(** ResetFeatObj.v — C12 for the feature observers, object level.
    [robj d s o]: what [reset()] makes of ONE subscriber object [o] when the
    dispatcher state is [d] (the system [s] is read by the composite only).
    On the initial dispatcher state: [robj] forgets everything an [update]
    wrote ([robj_upd]) and is idempotent ([robj_idem]); both rest on the fact
    that the earliest-start matrix is recomputed for every operation of every
    job ([recompute0_agree]). *)
From JSL Require Import Base Instance Dstate Filters World Observers ListFacts FeatureObservers FeatureBase
     FeatureComposite FeatureEst.
From Coq Require Import Lia.

(** ** The earliest-start matrix on the initial dispatcher state *)
Section ChainAgree.
  Variable d : dstate.

  Lemma chain_agree ops : forall p t row row',
    length row = length row' ->
    (forall q, (q < p \/ p + length ops <= q)%nat -> nth q row None = nth q row' None) ->
    chain d ops p t row = chain d ops p t row'.
  Proof.
    induction ops as [|o r IH]; intros p t row row' Hl Hq; cbn [chain].
    - apply (nth_ext _ _ None None Hl). intros q _. apply Hq. simpl. lia.
    - apply IH.
      + rewrite !length_upd. exact Hl.
      + intros q Hc. destruct (Nat.eq_dec q p) as [->|Hne].
        * destruct (lt_dec p (length row)) as [Hlt|Hge].
          -- rewrite !nth_upd_eq by lia. reflexivity.
          -- rewrite !nth_overflow by (rewrite length_upd; lia). reflexivity.
        * rewrite !nth_upd_neq by congruence. apply Hq. simpl. lia.
  Qed.

  Lemma chain_nth_out ops : forall p t row q, (q < p \/ p + length ops <= q)%nat ->
    nth q (chain d ops p t row) None = nth q row None.
  Proof.
    induction ops as [|o r IH]; intros p t row q Hq; cbn [chain]; [reflexivity|].
    rewrite IH by (simpl in Hq; lia). apply nth_upd_neq. simpl in Hq. lia.
  Qed.
End ChainAgree.

Lemma jnext_init I j : nthN (jnext (init_d I)) j = 0%nat.
Proof. unfold init_d, nthN. cbn [jnext]. apply nth_repeat_default. Qed.

Lemma length_recompute I d e : length (recompute I d e) = length e.
Proof. unfold recompute. rewrite map_length, combine_length, seq_length. apply Nat.min_id. Qed.

Lemma nth_recompute I d e j : (j < length e)%nat ->
  nth j (recompute I d e) [] =
  chain d (skipn (nthN (jnext d) j) (get_job I j)) (nthN (jnext d) j) (nthZ (jfree d) j) (nth j e []).
Proof. intros Hj. unfold recompute. rewrite (nth_map_combine_seq _ e [] [] j Hj). reflexivity. Qed.

Section Est0.
  Variable I : instance.
  Let d0 := init_d I.

  (** two matrices of the same dimensions that agree on the padding give the
      same matrix after a recomputation on the initial state *)
  Definition pad_agree (e e' : list (list (option Z))) : Prop :=
    length e = length e' /\
    forall j, (j < length e)%nat ->
      length (nth j e []) = length (nth j e' []) /\
      forall q, (length (get_job I j) <= q)%nat -> nth q (nth j e []) None = nth q (nth j e' []) None.

  Lemma recompute0_agree e e' : pad_agree e e' -> recompute I d0 e = recompute I d0 e'.
  Proof.
    intros [Hl Hr]. apply (nth_ext _ _ [] []).
    - rewrite !length_recompute. exact Hl.
    - intros j Hj. rewrite length_recompute in Hj.
      rewrite !nth_recompute by lia. unfold d0. rewrite jnext_init. cbn [skipn].
      destruct (Hr j Hj) as [H1 H2]. apply chain_agree; [exact H1|].
      intros q [Hq|Hq]; [lia|]. apply H2. simpl in Hq. exact Hq.
  Qed.

  Lemma pad_agree_recompute d e : pad_agree (recompute I d e) e.
  Proof.
    split; [apply length_recompute|]. intros j Hj. rewrite length_recompute in Hj.
    rewrite nth_recompute by exact Hj. split; [apply length_chain|].
    intros q Hq. apply chain_nth_out. rewrite skipn_length. lia.
  Qed.

  Lemma pad_agree_eset e j p z : (p < length (get_job I j))%nat -> pad_agree (eset e j p z) e.
  Proof.
    intros Hp. unfold eset. split; [apply length_upd|]. intros j' Hj'. rewrite length_upd in Hj'.
    destruct (Nat.eq_dec j j') as [<-|Hne].
    - rewrite nth_upd_eq by exact Hj'. split; [apply length_upd|].
      intros q Hq. apply nth_upd_neq. lia.
    - rewrite nth_upd_neq by exact Hne. split; reflexivity.
  Qed.

  Lemma recompute0_recompute d e : recompute I d0 (recompute I d e) = recompute I d0 e.
  Proof. apply recompute0_agree, pad_agree_recompute. Qed.

  Lemma recompute0_eset e j p z : (p < length (get_job I j))%nat ->
    recompute I d0 (eset e j p z) = recompute I d0 e.
  Proof. intros H. apply recompute0_agree, pad_agree_eset. exact H. Qed.
End Est0.

(** ** One object *)

(** what never changes about an object: class, which feature types it
    tracks, the components of a composite *)
Definition sk (o : fobs) : fkind * bool * bool * bool * list nat :=
  (fo_kind o, isSome (fo_ops o), isSome (fo_mach o), isSome (fo_jobs o), fo_comps o).

Section Obj.
  Variable I : instance.
  Variable fs : list fname.
  Let d0 := init_d I.

  (** [reset()] of one object in dispatcher state [d] *)
  Definition robj (d : dstate) (s : fsys) (o : fobs) : fobs :=
    match fo_kind o with
    | FIsReady => init_simple I fs d o
    | FEst | FDuration | FIsScheduled | FPosInJob => init_simple I fs d (zeroed I o)
    | FRemOps => rem_init I (unscheduled_ops I d) (zeroed I o)
    | FIsCompleted =>
        let o1 := zeroed I o in
        set_rem o1
          (match fo_mach o1 with
           | Some _ => count_mach I (unscheduled_ops I d) (zeros (num_machines I)) | None => fo_remm o1 end)
          (match fo_jobs o1 with
           | Some _ => count_jobs (unscheduled_ops I d) (zeros (num_jobs I)) | None => fo_remj o1 end)
    | FComposite => set_comp o (fo_comps o) (comp_mats s (fo_comps o)) (fo_cnames o)
    | FUnsched => set_dq o (all_deques I)
    end.

  Lemma sk_robj d s o : sk (robj d s o) = sk o.
  Proof.
    destruct o as [k a b c e rm rj dq cs cm cn]. destruct k, a, b, c; reflexivity.
  Qed.

  Lemma sk_upd_obs d x s o : sk (upd_obs I fs d x s o) = sk o.
  Proof.
    destruct o as [k a b c e rm rj dq cs cm cn]. destruct k, a, b, c; reflexivity.
  Qed.

  Lemma robj_ext d s s' o : (forall c, In c (fo_comps o) -> fget s c = fget s' c) -> robj d s o = robj d s' o.
  Proof.
    intros H. unfold robj. destruct (fo_kind o); try reflexivity.
    rewrite (comp_mats_ext s s' (fo_comps o) H). reflexivity.
  Qed.

  Lemma robj_est_explicit d s a b c e rm rj dq cs cm cn :
    robj d s (mkfo FEst a b c e rm rj dq cs cm cn) =
    mkfo FEst (option_map (fun _ => est_ops I fs d (recompute I d e)) a)
              (option_map (fun _ => est_mach I fs d (recompute I d e)) b)
              (option_map (fun _ => est_jobs I fs d (recompute I d e) (zeros (num_jobs I))) c)
              (recompute I d e) rm rj dq cs cm cn.
  Proof. destruct a, b, c; reflexivity. Qed.

  Lemma upd_est_explicit d x s a b c e rm rj dq cs cm cn :
    upd_obs I fs d x s (mkfo FEst a b c e rm rj dq cs cm cn) =
    mkfo FEst
      (option_map (fun _ => est_ops I fs d (recompute I d (eset e (s_job x) (s_pos x) (s_start x)))) a)
      (option_map (fun _ => est_mach I fs d (recompute I d (eset e (s_job x) (s_pos x) (s_start x)))) b)
      (option_map (fun v => est_jobs I fs d (recompute I d (eset e (s_job x) (s_pos x) (s_start x))) v) c)
      (recompute I d (eset e (s_job x) (s_pos x) (s_start x))) rm rj dq cs cm cn.
  Proof. destruct a, b, c; reflexivity. Qed.

  Lemma robj_idem s o : robj d0 s (robj d0 s o) = robj d0 s o.
  Proof.
    destruct o as [k a b c e rm rj dq cs cm cn]. destruct k.
    - destruct a, b, c; reflexivity.
    - rewrite !robj_est_explicit. unfold d0. rewrite (recompute0_recompute I (init_d I) e).
      destruct a, b, c; reflexivity.
    - destruct a, b, c; reflexivity.
    - destruct a, b, c; reflexivity.
    - destruct a, b, c; reflexivity.
    - destruct a, b, c; reflexivity.
    - destruct a, b, c; reflexivity.
    - reflexivity.
    - reflexivity.
  Qed.

  (** an [update] (of a dispatch the dispatcher accepted: the position lies
      inside the job) leaves nothing behind that a reset does not overwrite *)
  Lemma robj_upd d x s s' o :
    (s_pos x < length (get_job I (s_job x)))%nat ->
    robj d0 s (upd_obs I fs d x s' o) = robj d0 s o.
  Proof.
    intros Hp. destruct o as [k a b c e rm rj dq cs cm cn]. destruct k.
    - destruct a, b, c; reflexivity.
    - rewrite upd_est_explicit, !robj_est_explicit. unfold d0.
      rewrite (recompute0_recompute I d), (recompute0_eset I e _ _ _ Hp).
      destruct a, b, c; reflexivity.
    - destruct a, b, c; reflexivity.
    - destruct a, b, c; reflexivity.
    - destruct a, b, c; reflexivity.
    - destruct a, b, c; reflexivity.
    - destruct a, b, c; reflexivity.
    - reflexivity.
    - reflexivity.
  Qed.
End Obj.
