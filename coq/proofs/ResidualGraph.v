(** ResidualGraph.v — graph-generic facts about [remove_node] with its
    isolated-node sweep, for ANY well-formed graph (not only the builders'):
    a closed form of "remove these nodes, skipping the ones already removed"
    ([fold_char]) from which monotonicity, no dangling edges, "every target
    ends up removed" and independence of the iteration order follow. *)
From JSL Require Import Base Instance Dstate Graph ListFacts GraphFacts Residual.
From Coq Require Import Lia Permutation.

(** removed, or not a node id at all *)
Definition rmd (g : graph) (n : nat) : bool := nth n (g_removed g) true.

Record gwf (g : graph) : Prop := {
  wf_len : length (g_removed g) = g_next g;
  wf_edges : forall e, In e (g_edges g) -> rmd g (e_src e) = false /\ rmd g (e_dst e) = false
}.

Definition same_static (g g' : graph) : Prop :=
  g_inst g' = g_inst g /\ g_nodes g' = g_nodes g /\ g_by_type g' = g_by_type g /\
  g_by_machine g' = g_by_machine g /\ g_by_job g' = g_by_job g /\ g_next g' = g_next g.

Lemma same_static_refl g : same_static g g.
Proof. repeat split. Qed.
Lemma same_static_trans g1 g2 g3 : same_static g1 g2 -> same_static g2 g3 -> same_static g1 g3.
Proof.
  intros (A1 & A2 & A3 & A4 & A5 & A6) (B1 & B2 & B3 & B4 & B5 & B6).
  repeat split; congruence.
Qed.

Lemma graph_ext g1 g2 :
  same_static g1 g2 -> g_removed g2 = g_removed g1 -> g_edges g2 = g_edges g1 -> g2 = g1.
Proof.
  destruct g1, g2. unfold same_static. simpl. intros (A1 & A2 & A3 & A4 & A5 & A6) B C. subst. reflexivity.
Qed.

(** no edge touches [n] *)
Definition iso_in (es : list edge) (n : nat) : Prop := forall e, In e es -> touches n e = false.
Definition avoid (L : list nat) (e : edge) : bool := negb (existsb (fun u => touches u e) L).

Lemma rmd_false_lt g n : rmd g n = false -> (n < length (g_removed g))%nat.
Proof.
  unfold rmd. intros H. destruct (Nat.lt_ge_cases n (length (g_removed g))) as [Hl|Hg]; [exact Hl|].
  rewrite nth_overflow in H by exact Hg. discriminate.
Qed.

Lemma nth_upd_true (l : list bool) k n : nth n (upd l k true) true = (n =? k)%nat || nth n l true.
Proof.
  destruct (Nat.eqb_spec n k) as [->|Hne]; simpl.
  - destruct (Nat.lt_ge_cases k (length l)) as [Hl|Hg].
    + apply nth_upd_eq. exact Hl.
    + apply nth_overflow. rewrite length_upd. exact Hg.
  - apply nth_upd_neq. congruence.
Qed.

Lemma sweep_length iso : forall rm, length (fold_left (fun r k => upd r k true) iso rm) = length rm.
Proof. induction iso as [|k t IH]; intros rm; simpl; [reflexivity|]. rewrite IH. apply length_upd. Qed.

Lemma sweep_nth iso : forall rm n,
  nth n (fold_left (fun r k => upd r k true) iso rm) true = true <-> nth n rm true = true \/ In n iso.
Proof.
  induction iso as [|k t IH]; intros rm n; simpl; [tauto|].
  rewrite IH, nth_upd_true. destruct (Nat.eqb_spec n k) as [->|Hne]; simpl.
  - split; auto.
  - split; [intros [H|H]; auto|intros [H|[H|H]]; auto; congruence].
Qed.

Lemma In_isolated next rm es n :
  In n (isolated_nodes next rm es) <-> (n < next)%nat /\ nth n rm true = false /\ iso_in es n.
Proof.
  unfold isolated_nodes. rewrite filter_In, in_seq, andb_true_iff, !negb_true_iff. unfold iso_in. split.
  - intros (H1 & H2 & H3). split; [lia|]. split; [exact H2|].
    intros e He. destruct (touches n e) eqn:E; [|reflexivity].
    assert (existsb (touches n) es = true) by (apply existsb_exists; exists e; auto). congruence.
  - intros (H1 & H2 & H3). split; [lia|]. split; [exact H2|].
    destruct (existsb (touches n) es) eqn:E; [|reflexivity].
    apply existsb_exists in E. destruct E as (e & He & Ht). rewrite (H3 e He) in Ht. discriminate.
Qed.

Lemma touches_iff n e : touches n e = true <-> e_src e = n \/ e_dst e = n.
Proof. unfold touches. rewrite orb_true_iff, !Nat.eqb_eq. tauto. Qed.

Lemma filter_true_all {A} (f : A -> bool) (l : list A) : (forall x, In x l -> f x = true) -> filter f l = l.
Proof.
  induction l as [|x t IH]; intros H; simpl; [reflexivity|].
  rewrite (H x (or_introl eq_refl)). f_equal. apply IH. intros y Hy. apply H. right. exact Hy.
Qed.

(** ** One call of [remove_node] on a present node *)
Lemma remove_node_char g u : gwf g -> rmd g u = false ->
  exists g', remove_node g u = Some g' /\ same_static g g' /\
    g_edges g' = filter (fun e => negb (touches u e)) (g_edges g) /\
    length (g_removed g') = length (g_removed g) /\
    forall n, rmd g' n = true <-> rmd g n = true \/ n = u \/ iso_in (g_edges g') n.
Proof.
  intros [Hlen Hed] Hu. pose proof (rmd_false_lt _ _ Hu) as Hlt.
  unfold remove_node, has_node. fold (rmd g u). rewrite Hu.
  assert (Hb : (u <? g_next g)%nat = true) by (apply Nat.ltb_lt; lia). rewrite Hb. simpl.
  eexists. split; [reflexivity|]. split; [repeat split|]. cbn [g_edges g_removed].
  split; [reflexivity|]. split; [rewrite sweep_length; apply length_upd|].
  intros n. unfold rmd at 1. cbn [g_removed]. rewrite sweep_nth, nth_upd_true, In_isolated, nth_upd_true.
  fold (rmd g n). destruct (Nat.eqb_spec n u) as [->|Hne]; simpl.
  - split; auto.
  - split.
    + intros [H|(H1 & H2 & H3)]; auto.
    + intros [H|[H|H]]; [auto|congruence|].
      destruct (rmd g n) eqn:E; [auto|]. right. split; [|split; [reflexivity|exact H]].
      apply rmd_false_lt in E. lia.
Qed.

(** ** One step of the updater's loops: skip when removed, else remove *)
Lemma step_char g a : gwf g ->
  gwf (remove_if_present g a) /\ same_static g (remove_if_present g a) /\
  g_edges (remove_if_present g a) = filter (fun e => negb (touches a e)) (g_edges g) /\
  forall n, rmd (remove_if_present g a) n = true <->
            rmd g n = true \/ (rmd g a = false /\ (n = a \/ iso_in (g_edges (remove_if_present g a)) n)).
Proof.
  intros Hw. unfold remove_if_present. fold (rmd g a). destruct (rmd g a) eqn:Ha.
  - split; [exact Hw|]. split; [apply same_static_refl|]. split.
    + symmetry. apply filter_true_all. intros e He. destruct (wf_edges _ Hw e He) as [H1 H2].
      destruct (touches a e) eqn:Et; [|reflexivity]. apply touches_iff in Et.
      destruct Et as [<-|<-]; congruence.
    + intros n. split; [auto|]. intros [H|[H _]]; [exact H|discriminate].
  - destruct (remove_node_char g a Hw Ha) as (g' & E & Hs & He & Hl & Hr). rewrite E.
    split; [|split; [exact Hs|split; [exact He|]]].
    + constructor.
      * rewrite Hl, (wf_len _ Hw). destruct Hs as (_ & _ & _ & _ & _ & Hn). symmetry; exact Hn.
      * intros e Hin. pose proof Hin as Hin0. rewrite He in Hin. apply filter_In in Hin.
        destruct Hin as [Hin Hnt]. apply negb_true_iff in Hnt.
        destruct (wf_edges _ Hw e Hin) as [H1 H2].
        assert (Hnot : forall v, (e_src e = v \/ e_dst e = v) -> rmd g v = false -> rmd g' v = false).
        { intros v Hv Hg. destruct (rmd g' v) eqn:Ev; [|reflexivity]. exfalso.
          apply Hr in Ev. destruct Ev as [Ev|[->|Ev]]; [congruence| |].
          - assert (touches a e = true) by (apply touches_iff; exact Hv). congruence.
          - assert (touches v e = true) by (apply touches_iff; exact Hv).
            rewrite (Ev e Hin0) in H. discriminate. }
        split; apply Hnot; auto.
    + intros n. rewrite Hr. split; [intros [H|H]; auto|intros [H|[_ H]]; auto].
Qed.

Lemma existsb_app_single {A} (f : A -> bool) l a : existsb f (l ++ [a]) = existsb f l || f a.
Proof. rewrite existsb_app. simpl. rewrite orb_false_r. reflexivity. Qed.

Lemma filter_filter {A} (f h : A -> bool) (l : list A) :
  filter f (filter h l) = filter (fun x => h x && f x) l.
Proof.
  induction l as [|x t IH]; simpl; [reflexivity|].
  destruct (h x); simpl; [destruct (f x); simpl; rewrite IH; reflexivity|exact IH].
Qed.

(** ** The closed form *)
Theorem fold_char L : forall g, gwf g ->
  gwf (fold_left remove_if_present L g) /\ same_static g (fold_left remove_if_present L g) /\
  g_edges (fold_left remove_if_present L g) = filter (avoid L) (g_edges g) /\
  forall n, rmd (fold_left remove_if_present L g) n = true <->
            rmd g n = true \/
            ((exists u, In u L /\ rmd g u = false) /\
             (In n L \/ iso_in (g_edges (fold_left remove_if_present L g)) n)).
Proof.
  induction L as [|a L IH] using rev_ind; intros g Hw.
  - simpl. split; [exact Hw|]. split; [apply same_static_refl|]. split.
    + symmetry. apply filter_true_all. reflexivity.
    + intros n. split; [auto|]. intros [H|[(u & [] & _) _]]. exact H.
  - rewrite fold_left_app. simpl. destruct (IH g Hw) as (W1 & S1 & E1 & R1).
    set (g1 := fold_left remove_if_present L g) in *.
    destruct (step_char g1 a W1) as (W2 & S2 & E2 & R2).
    set (g2 := remove_if_present g1 a) in *.
    split; [exact W2|]. split; [eapply same_static_trans; eauto|]. split.
    + rewrite E2, E1, filter_filter. apply filter_ext. intros e. unfold avoid.
      rewrite existsb_app_single, negb_orb. reflexivity.
    + assert (Hsub : forall n, iso_in (g_edges g1) n -> iso_in (g_edges g2) n).
      { intros n H e He. rewrite E2 in He. apply filter_In in He. apply H. tauto. }
      assert (Hmono : forall n, rmd g n = true -> rmd g1 n = true) by (intros n H; apply R1; auto).
      intros n. rewrite R2. split.
      * intros [H|(Ha & H)].
        -- apply R1 in H. destruct H as [H|((u & Hu & Hru) & H)]; [auto|]. right. split.
           ++ exists u. split; [apply in_app_iff; auto|exact Hru].
           ++ destruct H as [H|H]; [left; apply in_app_iff; auto|right; apply Hsub; exact H].
        -- right. split.
           ++ exists a. split; [apply in_app_iff; right; left; reflexivity|].
              destruct (rmd g a) eqn:E; [|reflexivity]. apply Hmono in E. congruence.
           ++ destruct H as [->|H]; [left; apply in_app_iff; right; left; reflexivity|right; exact H].
      * intros [H|((u & Hu & Hru) & H)]; [left; apply R1; auto|].
        assert (HcL : rmd g1 a = true -> exists u', In u' L /\ rmd g u' = false).
        { intros Ha. apply in_app_iff in Hu. destruct Hu as [Hu|[<-|[]]]; [eauto|].
          apply R1 in Ha. destruct Ha as [Ha|[Hc _]]; [congruence|exact Hc]. }
        destruct H as [H|H].
        -- apply in_app_iff in H. destruct H as [H|[<-|[]]].
           ++ left. apply R1. destruct (rmd g n) eqn:En; [auto|]. right. split; [eauto|auto].
           ++ destruct (rmd g1 a) eqn:Ea; [auto|]. right. auto.
        -- destruct (rmd g1 a) eqn:Ea; [|right; auto].
           left. apply R1. right. split; [apply HcL; reflexivity|]. right.
           intros e He. apply H. rewrite E2. apply filter_In. split; [exact He|].
           destruct (wf_edges _ W1 e He) as [H1 H2].
           destruct (touches a e) eqn:Et; [|reflexivity]. apply touches_iff in Et.
           destruct Et as [<-|<-]; congruence.
Qed.

(** ** Consequences *)

Corollary fold_monotone L g n : gwf g -> rmd g n = true -> rmd (fold_left remove_if_present L g) n = true.
Proof. intros Hw H. apply (fold_char L g Hw). auto. Qed.

Corollary fold_targets_removed L g n : gwf g -> In n L -> rmd (fold_left remove_if_present L g) n = true.
Proof.
  intros Hw Hn. apply (fold_char L g Hw). destruct (rmd g n) eqn:E; [auto|]. right. split; [eauto|auto].
Qed.

Lemma existsb_perm {A} (f : A -> bool) l l' : Permutation l l' -> existsb f l = existsb f l'.
Proof.
  intros Hp. apply Bool.eq_iff_eq_true. rewrite !existsb_exists. split; intros (x & Hx & Hf); exists x; split; auto.
  - eapply Permutation_in; eauto.
  - eapply Permutation_in; [apply Permutation_sym|]; eauto.
Qed.

(** The result does not depend on the order in which the targets are
    visited (in particular on the iteration order of the SET returned by
    [Dispatcher.completed_operations()]). *)
Theorem remove_all_perm L L' g : gwf g -> Permutation L L' ->
  fold_left remove_if_present L g = fold_left remove_if_present L' g.
Proof.
  intros Hw Hp.
  destruct (fold_char L g Hw) as (W1 & S1 & E1 & R1). destruct (fold_char L' g Hw) as (W2 & S2 & E2 & R2).
  assert (HE : g_edges (fold_left remove_if_present L' g) = g_edges (fold_left remove_if_present L g)).
  { rewrite E1, E2. apply filter_ext. intros e. unfold avoid. f_equal. apply existsb_perm.
    apply Permutation_sym. exact Hp. }
  symmetry. apply graph_ext.
  - destruct S1 as (A1 & A2 & A3 & A4 & A5 & A6), S2 as (B1 & B2 & B3 & B4 & B5 & B6).
    repeat split; congruence.
  - apply nth_ext with (d := true) (d' := true).
    + rewrite (wf_len _ W1), (wf_len _ W2).
      destruct S1 as (_ & _ & _ & _ & _ & A6), S2 as (_ & _ & _ & _ & _ & B6). congruence.
    + intros n _. apply Bool.eq_iff_eq_true. fold (rmd (fold_left remove_if_present L' g) n).
      fold (rmd (fold_left remove_if_present L g) n). rewrite R1, R2, HE.
      split; (intros [H|((u & Hu & Hru) & H)]; [auto|right; split;
        [exists u; split; [eapply Permutation_in; [|exact Hu]; auto using Permutation_sym|exact Hru]
        |destruct H as [H|H]; [left; eapply Permutation_in; [|exact H]; auto using Permutation_sym|right; exact H]]]).
  - exact HE.
Qed.

(** [remove_completed_operations]: the same fold, over the operations' ids *)
Lemma remove_completed_as_fold I g l :
  remove_completed_operations I g l =
  fold_left remove_if_present (map (fun k => op_id I (fst k) (snd k)) l) g.
Proof.
  unfold remove_completed_operations. revert g. induction l as [|k t IH]; intros g; simpl; [reflexivity|apply IH].
Qed.

Theorem remove_completed_order_irrelevant I g l l' : gwf g -> Permutation l l' ->
  remove_completed_operations I g l = remove_completed_operations I g l'.
Proof.
  intros Hw Hp. rewrite !remove_completed_as_fold. apply remove_all_perm; [exact Hw|].
  apply Permutation_map. exact Hp.
Qed.

(** [remove_flagged]: the same fold, over the flagged nodes' ids *)
Definition flagged_ids (row : list (nat * node)) (matches : nat -> node -> bool) (flags : list bool) : list nat :=
  flat_map (fun i => if nth i flags false
                     then match get_group_node row matches i with Some id => [id] | None => [] end
                     else []) (seq 0 (length flags)).

Lemma remove_flagged_as_fold t matches flags g : gwf g ->
  remove_flagged g t matches flags =
  fold_left remove_if_present (flagged_ids (type_row g t) matches flags) g.
Proof.
  intros Hw. unfold remove_flagged, flagged_ids.
  set (row := type_row g t).
  assert (Hgen : forall l g', gwf g' -> type_row g' t = row ->
    fold_left (fun g0 i => if nth i flags false
                           then match get_group_node (type_row g0 t) matches i with
                                | Some id => remove_if_present g0 id | None => g0 end
                           else g0) l g' =
    fold_left remove_if_present
      (flat_map (fun i => if nth i flags false
                          then match get_group_node row matches i with Some id => [id] | None => [] end
                          else []) l) g').
  { induction l as [|i l IH]; intros g' Hw' Hrow; simpl; [reflexivity|].
    rewrite fold_left_app. rewrite Hrow.
    destruct (nth i flags false); simpl; [|apply IH; assumption].
    destruct (get_group_node row matches i) as [id|]; simpl; [|apply IH; assumption].
    destruct (step_char g' id Hw') as (W & S & _). apply IH; [exact W|].
    unfold type_row. destruct S as (_ & _ & -> & _). exact Hrow. }
  apply Hgen; [exact Hw|reflexivity].
Qed.
