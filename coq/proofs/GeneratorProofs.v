(** GeneratorProofs.v — lemmas behind property C19. *)
From JSL Require Import Base Instance Generator GeneratorSpec ListFacts.
From Coq Require Import Permutation Lia DecimalNat.

(** ** The monad *)

Definition same_ci (g g' : gst) : Prop :=
  st_counter g' = st_counter g /\ st_iter g' = st_iter g.

Lemma same_ci_refl g : same_ci g g.
Proof. split; reflexivity. Qed.
Lemma same_ci_trans a b c : same_ci a b -> same_ci b c -> same_ci a c.
Proof. unfold same_ci. intros [H1 H2] [H3 H4]. split; congruence. Qed.
Lemma same_ci_set_rng g t : same_ci g (set_rng g t).
Proof. split; reflexivity. Qed.

Lemma post_bind {A B} (m : G A) (f : A -> G B) g (Q1 : A -> gst -> Prop) (Q2 : B -> gst -> Prop) :
  post Q1 (m g) -> (forall a g', Q1 a g' -> post Q2 (f a g')) -> post Q2 (bind m f g).
Proof.
  intros H1 H2. unfold bind. destruct (m g) as [a g'|e g'|]; simpl in *.
  - apply H2. exact H1.
  - contradiction.
  - exact I.
Qed.

Lemma post_weaken {A} (Q1 Q2 : A -> gst -> Prop) r :
  post Q1 r -> (forall a g, Q1 a g -> Q2 a g) -> post Q2 r.
Proof. destruct r; simpl; auto. Qed.

Lemma post_ret {A} (a : A) g (Q : A -> gst -> Prop) : Q a g -> post Q (ret a g).
Proof. intro H. exact H. Qed.

(** ** Draws *)

Lemma randint_post a b g :
  a <= b -> post (fun x g' => a <= x <= b /\ same_ci g g') (randint a b g).
Proof.
  intro Hab. unfold randint. destruct (b <? a) eqn:E; [apply Z.ltb_lt in E; lia|].
  destruct (st_rng g) as [|x t]; [exact I|].
  destruct ((a <=? x) && (x <=? b)) eqn:E2; [|exact I].
  apply andb_true_iff in E2. destruct E2 as [E2 E3]. apply Z.leb_le in E2, E3.
  cbn [post]. split; [lia|apply same_ci_set_rng].
Qed.

Lemma randintN_post a b g :
  (a <= b)%nat -> post (fun x g' => (a <= x <= b)%nat /\ same_ci g g') (randintN a b g).
Proof.
  intro Hab. unfold randintN. eapply post_bind.
  - apply randint_post. lia.
  - intros x g' [Hx Hs]. apply post_ret. split; [lia|exact Hs].
Qed.

Lemma choice_post l g :
  l <> [] -> post (fun m g' => In m l /\ same_ci g g') (choice l g).
Proof.
  intro Hl. unfold choice. destruct l as [|y t]; [congruence|].
  destruct (st_rng g) as [|x s]; [exact I|].
  destruct ((0 <=? x) && mem_nat (Z.to_nat x) (y :: t)) eqn:E; [|exact I].
  apply andb_true_iff in E. destruct E as [_ E]. apply mem_nat_In in E.
  cbn [post]. split; [exact E|apply same_ci_set_rng].
Qed.

(** ** [remove_first] *)

Lemma remove_first_In x y l : In x (remove_first y l) -> In x l.
Proof.
  induction l as [|z t IH]; simpl; [tauto|].
  destruct (y =? z)%nat; simpl; intro H; [right; exact H|].
  destruct H as [H|H]; [left; exact H|right; auto].
Qed.

Lemma remove_first_In_neq x y l : In x l -> x <> y -> In x (remove_first y l).
Proof.
  induction l as [|z t IH]; simpl; [tauto|].
  intros [H|H] Hn.
  - subst z. destruct (y =? x)%nat eqn:E; [apply Nat.eqb_eq in E; congruence|left; reflexivity].
  - destruct (y =? z)%nat; [exact H|right; auto].
Qed.

Lemma remove_first_NoDup y l : NoDup l -> NoDup (remove_first y l).
Proof.
  induction l as [|z t IH]; simpl; intro H; [constructor|].
  inversion H as [|? ? Hnin Hnd]; subst.
  destruct (y =? z)%nat; [exact Hnd|].
  constructor; [|auto]. intro Hin. apply remove_first_In in Hin. contradiction.
Qed.

Lemma remove_first_notin y l : NoDup l -> ~ In y (remove_first y l).
Proof.
  induction l as [|z t IH]; simpl; intro H; [tauto|].
  inversion H as [|? ? Hnin Hnd]; subst.
  destruct (y =? z)%nat eqn:E.
  - apply Nat.eqb_eq in E. subst. exact Hnin.
  - apply Nat.eqb_neq in E. simpl. intros [Hz|Hin]; [congruence|]. exact (IH Hnd Hin).
Qed.

Lemma remove_first_length y l : In y l -> S (length (remove_first y l)) = length l.
Proof.
  induction l as [|z t IH]; simpl; [tauto|].
  intros [H|H].
  - subst. rewrite Nat.eqb_refl. reflexivity.
  - destruct (y =? z)%nat; [reflexivity|]. simpl. rewrite IH; auto.
Qed.

Lemma remove_first_perm y l : In y l -> Permutation (y :: remove_first y l) l.
Proof.
  induction l as [|z t IH]; simpl; [tauto|].
  intros [H|H].
  - subst. rewrite Nat.eqb_refl. apply Permutation_refl.
  - destruct (y =? z)%nat eqn:E.
    + apply Nat.eqb_eq in E. subst. apply Permutation_refl.
    + eapply perm_trans; [apply perm_swap|]. apply perm_skip. auto.
Qed.

(** ** Choosing [n] distinct machines *)

Lemma pick_post n : forall cand g,
  NoDup cand -> (n <= length cand)%nat ->
  post (fun ms g' => length ms = n /\ NoDup ms /\ incl ms cand /\ same_ci g g') (pick n cand g).
Proof.
  induction n as [|n IH]; intros cand g Hnd Hlen; cbn [pick].
  - apply post_ret. split; [reflexivity|]. split; [constructor|]. split; [intros x []|apply same_ci_refl].
  - eapply post_bind.
    + apply choice_post. destruct cand; simpl in Hlen; [lia|discriminate].
    + intros m g1 [Hm Hs1]. eapply post_bind.
      * apply IH; [apply remove_first_NoDup; exact Hnd|].
        pose proof (remove_first_length m cand Hm). lia.
      * intros ms g2 (Hl & Hn & Hi & Hs2). apply post_ret. split; [simpl; lia|]. split.
        -- constructor; [|exact Hn]. intro Hin. apply Hi in Hin.
           exact (remove_first_notin m cand Hnd Hin).
        -- split; [|eapply same_ci_trans; eauto].
           intros x [Hx|Hx]; [subst; exact Hm|]. apply Hi in Hx. eapply remove_first_In; eauto.
Qed.

(** Surjectivity: every arrangement of [k] distinct available machines is
    what [pick] returns on the stream that lists it. *)
Lemma pick_complete : forall ms cand g rest,
  NoDup ms -> incl ms cand ->
  pick (length ms) cand (set_rng g (map Z.of_nat ms ++ rest)) = Ok ms (set_rng g rest).
Proof.
  induction ms as [|m ms IH]; intros cand g rest Hnd Hin; simpl.
  - reflexivity.
  - inversion Hnd as [|? ? Hnin Hnd']; subst.
    assert (Hm : In m cand) by (apply Hin; left; reflexivity).
    unfold bind at 1. unfold choice. destruct cand as [|c0 ct]; [destruct Hm|].
    cbn [st_rng set_rng].
    assert (E : (0 <=? Z.of_nat m) && mem_nat (Z.to_nat (Z.of_nat m)) (c0 :: ct) = true).
    { apply andb_true_iff. split; [apply Z.leb_le; lia|]. rewrite Nat2Z.id. apply mem_nat_In. exact Hm. }
    rewrite E. rewrite Nat2Z.id.
    replace (set_rng (mkgst (Z.of_nat m :: map Z.of_nat ms ++ rest) (st_counter g) (st_iter g))
                     (map Z.of_nat ms ++ rest))
      with (set_rng g (map Z.of_nat ms ++ rest)) by reflexivity.
    unfold bind. rewrite IH.
    + reflexivity.
    + exact Hnd'.
    + intros x Hx. apply remove_first_In_neq; [apply Hin; right; exact Hx|].
      intro; subst. contradiction.
Qed.

(** ** One operation *)

Definition all_below (M : nat) (l : list nat) : Prop := Forall (fun m => (m < M)%nat) l.

(** Hypotheses on the parameters that the operation-level lemmas need. *)
Definition wf_op (p : params) : Prop := dlo p <= dhi p /\ (1 <= klo p <= khi p)%nat.

Lemma choose_multiple_post p avail g :
  wf_op p -> NoDup avail -> (khi p <= length avail)%nat ->
  post (fun ms g' => (klo p <= length ms <= khi p)%nat /\ NoDup ms /\ incl ms avail /\ same_ci g g')
       (choose_multiple p (Some avail) g).
Proof.
  intros [_ Hk] Hnd Hlen. unfold choose_multiple. cbn [default_avail].
  destruct (length avail <? khi p)%nat eqn:E; [apply Nat.ltb_lt in E; lia|].
  eapply post_bind.
  - apply randintN_post. lia.
  - intros k g1 [Hk1 Hs1]. eapply post_weaken.
    + apply pick_post; [exact Hnd|lia].
    + intros ms g2 (Hl & Hn & Hi & Hs2). split; [lia|]. split; [exact Hn|]. split; [exact Hi|].
      eapply same_ci_trans; eauto.
Qed.

(** What [create_random_operation] returns in each of the three modes. *)
Definition op_result (p : params) (M : nat) (avail : list nat) (g : gst)
           (r : op * option (list nat)) (g' : gst) : Prop :=
  op_ok p M (fst r) /\ same_ci g g' /\
  (if (1 <? khi p)%nat then snd r = Some avail
   else exists m, machines (fst r) = [m] /\ In m avail /\
                  snd r = Some (if recirc p then avail else remove_first m avail)).

Lemma create_op_post p M avail g :
  wf_op p -> NoDup avail -> all_below M avail ->
  (if (1 <? khi p)%nat then (khi p <= length avail)%nat else avail <> []) ->
  post (op_result p M avail g) (create_random_operation p (Some avail) g).
Proof.
  intros Hwf Hnd Hbelow Henough. pose proof Hwf as [Hd Hk].
  unfold create_random_operation. eapply post_bind.
  - apply randint_post. exact Hd.
  - intros d g1 [Hd1 Hs1]. unfold op_result.
    destruct (1 <? khi p)%nat eqn:Ek.
    + eapply post_bind.
      * apply choose_multiple_post; assumption.
      * intros ms g2 (Hl & Hn & Hi & Hs2). apply post_ret. cbn [fst snd].
        split; [|split; [eapply same_ci_trans; eauto|reflexivity]].
        unfold op_ok. cbn [machines duration]. split; [exact Hd1|]. split; [exact Hl|].
        split; [exact Hn|]. apply Forall_forall. intros x Hx. apply Hi in Hx.
        unfold all_below in Hbelow. rewrite Forall_forall in Hbelow. auto.
    + apply Nat.ltb_ge in Ek.
      eapply post_bind with
        (Q1 := fun r g' => In (fst r) avail /\
                           snd r = Some (if recirc p then avail else remove_first (fst r) avail) /\
                           same_ci g1 g').
      * unfold choose_one. cbn [default_avail]. eapply post_bind.
        -- apply choice_post. exact Henough.
        -- intros m g2 [Hm Hs2]. apply post_ret. cbn [fst snd].
           split; [exact Hm|]. split; [destruct (recirc p); reflexivity|exact Hs2].
      * intros r g2 (Hm & Hav & Hs2). apply post_ret. cbn [fst snd].
        split; [|split; [eapply same_ci_trans; eauto|]].
        -- unfold op_ok. cbn [machines duration length]. split; [exact Hd1|]. split; [lia|].
           split; [constructor; [intros []|constructor]|].
           constructor; [|constructor]. unfold all_below in Hbelow. rewrite Forall_forall in Hbelow. auto.
        -- exists (fst r). split; [reflexivity|]. split; [exact Hm|exact Hav].
Qed.

(** ** One job *)

Definition enough (p : params) (n : nat) (avail : list nat) : Prop :=
  if (1 <? khi p)%nat then (khi p <= length avail)%nat
  else if recirc p then n = 0%nat \/ avail <> []
  else (n <= length avail)%nat.

Lemma all_below_remove M m l : all_below M l -> all_below M (remove_first m l).
Proof.
  unfold all_below. rewrite !Forall_forall. intros H x Hx. apply H. eapply remove_first_In; eauto.
Qed.

Lemma gen_ops_post p M : forall n avail g,
  wf_op p -> NoDup avail -> all_below M avail -> enough p n avail ->
  post (fun ops g' =>
          length ops = n /\ Forall (op_ok p M) ops /\ same_ci g g' /\
          (recirc p = false -> (khi p <= 1)%nat ->
           exists rest, Permutation (concat (map machines ops) ++ rest) avail /\
                        (length rest + n = length avail)%nat))
       (gen_ops p n avail g).
Proof.
  induction n as [|n IH]; intros avail g Hwf Hnd Hbelow Hen; cbn [gen_ops].
  - apply post_ret. split; [reflexivity|]. split; [constructor|]. split; [apply same_ci_refl|].
    intros _ _. exists avail. split; [apply Permutation_refl|lia].
  - eapply post_bind.
    + apply (create_op_post p M avail g Hwf Hnd Hbelow).
      unfold enough in Hen. destruct (1 <? khi p)%nat; [exact Hen|].
      destruct (recirc p).
      * destruct Hen as [Hen|Hen]; [discriminate|exact Hen].
      * destruct avail; [simpl in Hen; lia|discriminate].
    + intros r g1 (Hop & Hs1 & Hmode).
      unfold enough in Hen.
      destruct (1 <? khi p)%nat eqn:Ek.
      * (* several machines per operation: the list is left alone *)
        rewrite Hmode. eapply post_bind.
        -- apply IH; try assumption. unfold enough. rewrite Ek. exact Hen.
        -- intros ops g2 (Hl & Hf & Hs2 & _). apply post_ret.
           split; [simpl; lia|]. split; [constructor; assumption|].
           split; [eapply same_ci_trans; eauto|].
           intros _ Hk1. apply Nat.ltb_lt in Ek. lia.
      * destruct Hmode as (m & Hms & Hm & Hav). rewrite Hav.
        destruct (recirc p) eqn:Er.
        -- eapply post_bind.
           ++ apply IH; try assumption. unfold enough. rewrite Ek, Er.
              right. intro; subst; destruct Hm.
           ++ intros ops g2 (Hl & Hf & Hs2 & _). apply post_ret.
              split; [simpl; lia|]. split; [constructor; assumption|].
              split; [eapply same_ci_trans; eauto|]. intros Hr; discriminate.
        -- pose proof (remove_first_length m avail Hm) as Hlen.
           eapply post_bind.
           ++ apply IH; try assumption.
              ** apply remove_first_NoDup; exact Hnd.
              ** apply all_below_remove; exact Hbelow.
              ** unfold enough. rewrite Ek, Er. lia.
           ++ intros ops g2 (Hl & Hf & Hs2 & Hperm). apply post_ret.
              split; [simpl; lia|]. split; [constructor; assumption|].
              split; [eapply same_ci_trans; eauto|].
              intros Hr Hk1. destruct (Hperm Hr Hk1) as (rest & HP & Hrl).
              exists rest. split; [|lia].
              cbn [map concat]. rewrite Hms. cbn [app].
              eapply perm_trans; [apply perm_skip; exact HP|].
              apply remove_first_perm. exact Hm.
Qed.

Lemma all_below_seq M : all_below M (seq 0 M).
Proof. apply Forall_forall. intros x Hx. apply in_seq in Hx. lia. Qed.

(** ** All jobs *)

Lemma gen_jobs_post p M :
  wf_op p -> ((1 < khi p)%nat -> (khi p <= M)%nat) ->
  forall J g,
  post (fun jobs g' => length jobs = J /\ Forall (job_ok p M) jobs /\ same_ci g g')
       (gen_jobs p J M g).
Proof.
  intros Hwf HkM. induction J as [|J IH]; intro g; cbn [gen_jobs].
  - apply post_ret. split; [reflexivity|]. split; [constructor|apply same_ci_refl].
  - eapply post_bind.
    + apply (gen_ops_post p M M (seq 0 M) g Hwf (seq_NoDup M 0) (all_below_seq M)).
      unfold enough. destruct (1 <? khi p)%nat eqn:Ek.
      * rewrite seq_length. apply HkM. apply Nat.ltb_lt. exact Ek.
      * destruct (recirc p); [|rewrite seq_length; lia].
        destruct M; [left; reflexivity|right; discriminate].
    + intros job g1 (Hl & Hf & Hs1 & Hperm). eapply post_bind.
      * apply IH.
      * intros jobs g2 (Hl2 & Hf2 & Hs2). apply post_ret.
        split; [simpl; lia|]. split; [|eapply same_ci_trans; eauto].
        constructor; [|exact Hf2]. split; [exact Hl|]. split; [exact Hf|].
        intros Hr Hk. destruct (Hperm Hr Hk) as (rest & HP & Hrl).
        rewrite seq_length in Hrl. assert (rest = []) by (destruct rest; [reflexivity|simpl in Hrl; lia]).
        subst rest. rewrite app_nil_r in HP. exact HP.
Qed.

(** ** [generate] *)

Lemma shape_intro p J M jobs :
  length jobs = J -> Forall (job_ok p M) jobs ->
  (jlo p <= J <= jhi p)%nat -> (mlo p <= M <= mhi p)%nat ->
  (allow_less p = false -> (M <= J)%nat) ->
  shape p jobs.
Proof.
  intros Hl Hf HJ HM Ha. unfold shape. destruct jobs as [|job t].
  - simpl in *. subst J. split; [lia|]. split; [lia|]. split; [|constructor].
    intro H. specialize (Ha H). lia.
  - assert (HMof : M_of p (job :: t) = M).
    { inversion Hf as [|? ? Hj _]; subst. destruct Hj as [Hj _]. exact Hj. }
    rewrite HMof. rewrite Hl. split; [lia|]. split; [lia|]. split; [exact Ha|exact Hf].
Qed.

Definition generated (p : params) (g : gst) (Q : instance -> Prop) (x : ginst) (g' : gst) : Prop :=
  Q (snd x) /\ fst x = name_of p (S (st_counter g)) /\
  st_counter g' = S (st_counter g) /\ st_iter g' = st_iter g.

Lemma next_name_post p g0 g (Q : instance -> Prop) jobs :
  same_ci g0 g -> Q jobs ->
  post (generated p g0 Q) (bind (next_name p) (fun nm => ret (nm, jobs)) g).
Proof.
  intros [Hc Hi] HQ. unfold bind, next_name, ret. cbn [post]. unfold generated. cbn [fst snd st_counter st_iter].
  rewrite Hc, Hi. auto.
Qed.

Lemma wf_params_op p : wf_params p -> wf_op p.
Proof. intros (_ & _ & Hd & Hk & _). split; assumption. Qed.

Theorem generate_post p g :
  wf_params p -> post (generated p g (shape p)) (generate p None None g).
Proof.
  intros Hwf. pose proof (wf_params_op p Hwf) as Hop.
  destruct Hwf as (Hj & Hm & Hd & Hk & HkM & Ha).
  unfold generate, draw_num_jobs, draw_num_machines.
  destruct (allow_less p) eqn:Eal.
  - eapply post_bind; [apply randintN_post; exact Hj|].
    intros J g1 [HJ Hs1]. eapply post_bind; [apply randintN_post; exact Hm|].
    intros M g2 [HM Hs2]. eapply post_bind.
    + apply (gen_jobs_post p M Hop). intro H1. specialize (HkM H1). lia.
    + intros jobs g3 (Hl & Hf & Hs3). apply next_name_post.
      * eapply same_ci_trans; [exact Hs1|]. eapply same_ci_trans; eauto.
      * apply (shape_intro p J M); auto. rewrite Eal. discriminate.
  - specialize (Ha eq_refl).
    eapply post_bind; [apply randintN_post; lia|].
    intros J g1 [HJ Hs1].
    destruct (Nat.min J (mhi p) <? mlo p)%nat eqn:Emin; [apply Nat.ltb_lt in Emin; lia|].
    apply Nat.ltb_ge in Emin.
    eapply post_bind; [apply randintN_post; lia|].
    intros M g2 [HM Hs2]. eapply post_bind.
    + apply (gen_jobs_post p M Hop). intro H1. specialize (HkM H1). lia.
    + intros jobs g3 (Hl & Hf & Hs3). apply next_name_post.
      * eapply same_ci_trans; [exact Hs1|]. eapply same_ci_trans; eauto.
      * apply (shape_intro p J M); auto; try lia.
Qed.

(** [generate(num_jobs=j, num_machines=m)] *)
Theorem generate_explicit_post p j m g :
  wf_op p -> (allow_less p = false -> (m <= j)%nat) -> ((1 < khi p)%nat -> (khi p <= m)%nat) ->
  post (generated p g (shape_at p j m)) (generate p (Some j) (Some m) g).
Proof.
  intros Hop Ha HkM. unfold generate, draw_num_jobs, draw_num_machines.
  unfold bind at 1. unfold ret at 1.
  assert (E : negb (allow_less p) && (j <? m)%nat = false).
  { destruct (allow_less p); [reflexivity|]. simpl. apply Nat.ltb_ge. auto. }
  unfold bind at 1. rewrite E. unfold ret at 1.
  eapply post_bind.
  - apply (gen_jobs_post p m Hop HkM).
  - intros jobs g3 (Hl & Hf & Hs3). apply next_name_post; [exact Hs3|].
    split; assumption.
Qed.

(** ** The iterator protocol *)

Definition next_result (p : params) (g : gst) (o : option ginst) (g' : gst) : Prop :=
  match o with
  | None => (exists l, limit p = Some l /\ (l <= st_iter g)%nat) /\ g' = g
  | Some x => shape p (snd x) /\ fst x = name_of p (S (st_counter g)) /\
              st_counter g' = S (st_counter g) /\ st_iter g' = S (st_iter g) /\
              (forall l, limit p = Some l -> (st_iter g < l)%nat)
  end.

Lemma next_post p g : wf_params p -> post (next_result p g) (next p g).
Proof.
  intro Hwf. unfold next.
  destruct (match limit p with Some l => (l <=? st_iter g)%nat | None => false end) eqn:Estop.
  - cbn [post next_result]. split; [|reflexivity].
    destruct (limit p) as [l|]; [|discriminate]. exists l. split; [reflexivity|apply Nat.leb_le; exact Estop].
  - eapply post_bind.
    + apply (generate_post p _ Hwf).
    + intros x g' (Hs & Hn & Hc & Hi). apply post_ret. cbn [next_result st_counter st_iter] in *.
      split; [exact Hs|]. split; [exact Hn|]. split; [exact Hc|]. split; [exact Hi|].
      intros l Hl. rewrite Hl in Estop. apply Nat.leb_gt in Estop. exact Estop.
Qed.

(** [list(gen)] yields exactly [limit - current_iteration] instances, never
    runs out of fuel [> limit - current_iteration], and every one of them has
    the shape. *)
Lemma drain_post p l : wf_params p -> limit p = Some l ->
  forall fuel g, (st_iter g <= l)%nat -> (l - st_iter g < fuel)%nat ->
  post (fun xs g' => length xs = (l - st_iter g)%nat /\ Forall (fun x => shape p (snd x)) xs /\
                     st_counter g' = (st_counter g + length xs)%nat)
       (drain p fuel g).
Proof.
  intros Hwf Hl. induction fuel as [|fuel IH]; intros g Hle Hfuel; [lia|].
  cbn [drain]. eapply post_bind; [apply (next_post p g Hwf)|].
  intros [x|] g1 Hr; cbn [next_result] in Hr.
  - destruct Hr as (Hs & Hn & Hc & Hi & Hlt). specialize (Hlt l Hl).
    eapply post_bind.
    + apply IH; lia.
    + intros xs g2 (Hlen & Hf & Hc2). apply post_ret. split; [simpl; lia|].
      split; [constructor; assumption|]. simpl. lia.
  - destruct Hr as [(l' & Hl' & Hge) ->]. apply post_ret.
    rewrite Hl in Hl'. inversion Hl'; subst l'. split; [simpl; lia|]. split; [constructor|simpl; lia].
Qed.

Theorem list_gen_post p l g : wf_params p -> limit p = Some l ->
  post (fun xs g' => length xs = l /\ Forall (fun x => shape p (snd x)) xs) (list_gen p (S l) g).
Proof.
  intros Hwf Hl. unfold list_gen. eapply post_weaken.
  - apply (drain_post p l Hwf Hl (S l) (iter_reset g)); simpl; lia.
  - intros xs g' (Hlen & Hf & _). simpl in Hlen. split; [lia|exact Hf].
Qed.

Theorem generate_n_post p : wf_params p -> forall n g,
  post (fun xs g' => length xs = n /\ Forall (fun x => shape p (snd x)) xs) (generate_n p n g).
Proof.
  intro Hwf. induction n as [|n IH]; intro g; cbn [generate_n].
  - apply post_ret. split; [reflexivity|constructor].
  - eapply post_bind; [apply (generate_post p g Hwf)|].
    intros x g1 (Hs & _). eapply post_bind; [apply IH|].
    intros xs g2 [Hl Hf]. apply post_ret. split; [simpl; lia|constructor; assumption].
Qed.

(** ** Names: unconditional (any parameters, any stream, any outcome) *)

Definition keeps {A} (g : gst) (r : res A) : Prop :=
  match r with Ok _ g' => same_ci g g' | Exn _ g' => same_ci g g' | Bad => True end.

Lemma keeps_bind {A B} (m : G A) (f : A -> G B) g :
  keeps g (m g) -> (forall a g', keeps g' (f a g')) -> keeps g (bind m f g).
Proof.
  intros H1 H2. unfold bind. destruct (m g) as [a g'|e g'|]; cbn [keeps] in *; auto.
  specialize (H2 a g'). destruct (f a g'); cbn [keeps] in *; auto; eapply same_ci_trans; eauto.
Qed.

Lemma keeps_ret {A} (a : A) g : keeps g (ret a g).
Proof. apply same_ci_refl. Qed.
Lemma keeps_raise {A} e g : keeps g (@raise A e g).
Proof. apply same_ci_refl. Qed.

Lemma randint_keeps a b g : keeps g (randint a b g).
Proof.
  unfold randint. destruct (b <? a); [apply same_ci_refl|].
  destruct (st_rng g); [exact I|]. destruct ((a <=? z) && (z <=? b)); [apply same_ci_set_rng|exact I].
Qed.

Lemma randintN_keeps a b g : keeps g (randintN a b g).
Proof. unfold randintN. apply keeps_bind; [apply randint_keeps|intros; apply keeps_ret]. Qed.

Lemma choice_keeps l g : keeps g (choice l g).
Proof.
  unfold choice. destruct l; [apply same_ci_refl|].
  destruct (st_rng g); [exact I|].
  destruct ((0 <=? z) && mem_nat (Z.to_nat z) (n :: l)); [apply same_ci_set_rng|exact I].
Qed.

Lemma pick_keeps n : forall cand g, keeps g (pick n cand g).
Proof.
  induction n as [|n IH]; intros cand g; cbn [pick]; [apply keeps_ret|].
  apply keeps_bind; [apply choice_keeps|]. intros m g1.
  apply keeps_bind; [apply IH|]. intros; apply keeps_ret.
Qed.

Lemma create_op_keeps p avail g : keeps g (create_random_operation p avail g).
Proof.
  unfold create_random_operation. apply keeps_bind; [apply randint_keeps|]. intros d g1.
  destruct (1 <? khi p)%nat.
  - apply keeps_bind; [|intros; apply keeps_ret].
    unfold choose_multiple. destruct (length (default_avail p avail) <? khi p)%nat; [apply keeps_raise|].
    apply keeps_bind; [apply randintN_keeps|]. intros; apply pick_keeps.
  - apply keeps_bind; [|intros; apply keeps_ret].
    unfold choose_one. apply keeps_bind; [apply choice_keeps|]. intros; apply keeps_ret.
Qed.

Lemma gen_ops_keeps p n : forall avail g, keeps g (gen_ops p n avail g).
Proof.
  induction n as [|n IH]; intros avail g; cbn [gen_ops]; [apply keeps_ret|].
  apply keeps_bind; [apply create_op_keeps|]. intros r g1.
  apply keeps_bind; [apply IH|]. intros; apply keeps_ret.
Qed.

Lemma gen_jobs_keeps p M J : forall g, keeps g (gen_jobs p J M g).
Proof.
  induction J as [|J IH]; intro g; cbn [gen_jobs]; [apply keeps_ret|].
  apply keeps_bind; [apply gen_ops_keeps|]. intros r g1.
  apply keeps_bind; [apply IH|]. intros; apply keeps_ret.
Qed.

(** What [generate] does to the counter, whatever happens. *)
Definition gen_counts (p : params) (g : gst) (r : res ginst) : Prop :=
  match r with
  | Ok x g' => fst x = name_of p (S (st_counter g)) /\ st_counter g' = S (st_counter g) /\
               st_iter g' = st_iter g
  | Exn _ g' => same_ci g g'
  | Bad => True
  end.

Lemma generate_counts p oj om g : gen_counts p g (generate p oj om g).
Proof.
  unfold generate.
  assert (H : keeps g (bind (draw_num_jobs p oj) (fun J => bind (draw_num_machines p J om)
                       (fun M => bind (gen_jobs p J M) (fun jobs => ret (M, jobs)))) g)).
  { apply keeps_bind.
    - unfold draw_num_jobs. destruct oj; [apply keeps_ret|apply randintN_keeps].
    - intros J g1. apply keeps_bind.
      + unfold draw_num_machines. destruct om.
        * destruct (negb (allow_less p) && (J <? n)%nat); [apply keeps_raise|apply keeps_ret].
        * destruct (allow_less p); [apply randintN_keeps|].
          destruct (Nat.min J (mhi p) <? mlo p)%nat; [apply keeps_raise|apply randintN_keeps].
      + intros M g2. apply keeps_bind; [apply gen_jobs_keeps|intros; apply keeps_ret]. }
  revert H. unfold bind.
  destruct (draw_num_jobs p oj g) as [J g1|e g1|]; cbn [keeps gen_counts]; auto.
  destruct (draw_num_machines p J om g1) as [M g2|e g2|]; cbn [keeps gen_counts]; auto.
  destruct (gen_jobs p J M g2) as [jobs g3|e g3|]; cbn [keeps gen_counts]; auto.
  unfold next_name, ret. cbn [gen_counts fst st_counter st_iter]. intros [Hc Hi].
  rewrite Hc, Hi. auto.
Qed.

(** The names in an answer are those of the counters [c+1 .. c+k], and the
    counter ends at least at [c+k]. *)
Definition names_from (p : params) (c : nat) (o : output) (c' : nat) : Prop :=
  exists k, out_names o = map (name_of p) (seq (S c) k) /\ (c + k <= c')%nat.

Lemma names_from_none p c o : out_names o = [] -> names_from p c o c.
Proof. intro H. exists 0%nat. rewrite H. split; [reflexivity|lia]. Qed.

Lemma drain_counts p : forall fuel g,
  match drain p fuel g with
  | Ok xs g' => map fst xs = map (name_of p) (seq (S (st_counter g)) (length xs)) /\
                st_counter g' = (st_counter g + length xs)%nat
  | Exn _ g' => (st_counter g <= st_counter g')%nat
  | Bad => True
  end.
Proof.
  induction fuel as [|fuel IH]; intro g; cbn [drain]; [unfold raise; lia|].
  unfold bind at 1. unfold next.
  destruct (match limit p with Some l => (l <=? st_iter g)%nat | None => false end).
  - unfold ret. cbn. split; [reflexivity|lia].
  - unfold bind at 1.
    pose proof (generate_counts p None None (mkgst (st_rng g) (st_counter g) (S (st_iter g)))) as Hg.
    destruct (generate p None None (mkgst (st_rng g) (st_counter g) (S (st_iter g)))) as [x g1|e g1|];
      cbn [gen_counts st_counter] in Hg.
    + unfold ret at 1. unfold bind. specialize (IH g1).
      destruct Hg as (Hn & Hc & _).
      destruct (drain p fuel g1) as [xs g2|e g2|]; [|lia|exact I].
      destruct IH as [IHn IHc]. unfold ret. cbn [map length fst]. rewrite Hc in IHn, IHc.
      split; [|lia]. cbn [seq map]. rewrite Hn, IHn. reflexivity.
    + destruct Hg as [Hc _]. cbn [st_counter] in Hc. lia.
    + exact I.
Qed.

Lemma act_names p a g :
  names_from p (st_counter g) (fst (act p a g)) (st_counter (snd (act p a g))).
Proof.
  destruct a as [oj om| | |fuel|avail]; cbn [act].
  - pose proof (generate_counts p oj om g) as H.
    destruct (generate p oj om g) as [x g'|e g'|]; cbn [out_of fst snd gen_counts] in *.
    + destruct H as (Hn & Hc & _). exists 1%nat. cbn [out_names seq map]. rewrite Hn. split; [reflexivity|lia].
    + destruct H as [Hc _]. rewrite Hc. apply names_from_none. reflexivity.
    + apply names_from_none. reflexivity.
  - apply names_from_none. reflexivity.
  - unfold next. destruct (match limit p with Some l => (l <=? st_iter g)%nat | None => false end).
    + cbn [out_of fst snd]. apply names_from_none. reflexivity.
    + unfold bind.
      pose proof (generate_counts p None None (mkgst (st_rng g) (st_counter g) (S (st_iter g)))) as H.
      destruct (generate p None None (mkgst (st_rng g) (st_counter g) (S (st_iter g)))) as [x g'|e g'|];
        cbn [out_of fst snd gen_counts st_counter ret] in *.
      * destruct H as (Hn & Hc & _). exists 1%nat. cbn [out_names seq map]. rewrite Hn. split; [reflexivity|lia].
      * destruct H as [Hc _]. rewrite Hc. apply names_from_none. reflexivity.
      * apply names_from_none. reflexivity.
  - unfold list_gen. pose proof (drain_counts p fuel (iter_reset g)) as H.
    destruct (drain p fuel (iter_reset g)) as [xs g'|e g'|]; cbn [out_of fst snd] in *.
    + destruct H as [Hn Hc]. exists (length xs). cbn [out_names]. cbn [iter_reset st_counter] in *.
      split; [exact Hn|lia].
    + exists 0%nat. cbn [iter_reset st_counter] in *. split; [reflexivity|lia].
    + apply names_from_none. reflexivity.
  - pose proof (create_op_keeps p avail g) as H.
    destruct (create_random_operation p avail g) as [x g'|e g'|]; cbn [out_of fst snd keeps] in *.
    + destruct H as [Hc _]. rewrite Hc. apply names_from_none. reflexivity.
    + destruct H as [Hc _]. rewrite Hc. apply names_from_none. reflexivity.
    + apply names_from_none. reflexivity.
Qed.

(** Decimal printing is injective, hence so is naming. *)
Lemma uint_codes_inj : forall u v, uint_codes u = uint_codes v -> u = v.
Proof.
  induction u; destruct v; cbn [uint_codes]; intro H;
    try reflexivity; try discriminate H; inversion H; f_equal; auto.
Qed.

Lemma decimal_inj a b : decimal a = decimal b -> a = b.
Proof.
  unfold decimal. intro H. apply uint_codes_inj in H.
  rewrite <- (Unsigned.of_to a), <- (Unsigned.of_to b), H. reflexivity.
Qed.

Lemma name_of_inj p a b : name_of p a = name_of p b -> a = b.
Proof.
  unfold name_of. intro H. apply app_inv_head in H. inversion H as [H1]. apply decimal_inj. exact H1.
Qed.

Lemma NoDup_map_inj {A B} (f : A -> B) l :
  (forall a b, f a = f b -> a = b) -> NoDup l -> NoDup (map f l).
Proof.
  intros Hinj. induction 1 as [|x l Hnin Hnd IH]; simpl; constructor; [|exact IH].
  intro Hin. apply in_map_iff in Hin. destruct Hin as (y & Hy & Hin). apply Hinj in Hy. subst. contradiction.
Qed.

Lemma NoDup_app_intro {A} (l1 l2 : list A) :
  NoDup l1 -> NoDup l2 -> (forall x, In x l1 -> In x l2 -> False) -> NoDup (l1 ++ l2).
Proof.
  induction 1 as [|x l1 Hnin Hnd IH]; intros H2 Hdis; simpl; [exact H2|].
  constructor.
  - intro Hin. apply in_app_or in Hin. destruct Hin as [Hin|Hin]; [contradiction|].
    apply (Hdis x); [left; reflexivity|exact Hin].
  - apply IH; [exact H2|]. intros y Hy1 Hy2. apply (Hdis y); [right; exact Hy1|exact Hy2].
Qed.

Lemma trace_names p g outs : trace p g outs ->
  exists idx, concat (map out_names outs) = map (name_of p) idx /\ NoDup idx /\
              Forall (fun i => (st_counter g < i)%nat) idx.
Proof.
  induction 1 as [g|g s a o g' outs Hact Htr IH].
  - exists []. split; [reflexivity|]. split; constructor.
  - destruct IH as (idx & Hcat & Hnd & Hgt).
    pose proof (act_names p a (set_rng g s)) as Hn. rewrite Hact in Hn. cbn [fst snd st_counter set_rng] in Hn.
    destruct Hn as (k & Hk & Hle).
    exists (seq (S (st_counter g)) k ++ idx). cbn [map concat]. rewrite Hk, Hcat, map_app.
    split; [reflexivity|]. rewrite Forall_forall in Hgt. split.
    + apply NoDup_app_intro; [apply seq_NoDup|exact Hnd|].
      intros x Hx Hx'. apply in_seq in Hx. specialize (Hgt x Hx'). lia.
    + apply Forall_forall. intros x Hx. apply in_app_or in Hx. destruct Hx as [Hx|Hx].
      * apply in_seq in Hx. lia.
      * specialize (Hgt x Hx). lia.
Qed.

Theorem names_never_reused p g outs : trace p g outs -> NoDup (concat (map out_names outs)).
Proof.
  intro H. destruct (trace_names p g outs H) as (idx & Hcat & Hnd & _).
  rewrite Hcat. apply NoDup_map_inj; [apply name_of_inj|exact Hnd].
Qed.

Lemma solo_trace p : forall acts g, trace p g (solo p g acts).
Proof.
  induction acts as [|a t IH]; intro g; cbn [solo]; [constructor|].
  apply (trace_cons p g (st_rng g) a _ (snd (act p a g))).
  - replace (set_rng g (st_rng g)) with g by (destruct g; reflexivity). destruct (act p a g); reflexivity.
  - apply IH.
Qed.

(** ** Several generators: a generator with its own RNG state is not
    affected by anything else that happens *)

Lemma nth_error_lt {A} (l : list A) i x : nth_error l i = Some x -> (i < length l)%nat.
Proof. intro H. apply nth_error_Some. congruence. Qed.

Lemma step_other w e i x :
  nth_error (w_gens w) i = Some x ->
  (forall a, e <> EAct i a) ->
  nth_error (w_gens (snd (step w e))) i = Some x.
Proof.
  intros Hx Hne. destruct e as [p own gl|j a|gl]; cbn [step].
  - destruct (construct p); [exact Hx|].
    destruct own; cbn [snd w_gens]; rewrite nth_error_app1; auto; eapply nth_error_lt; eauto.
  - destruct (nth_error (w_gens w) j) as [y|] eqn:Ey; [|exact Hx].
    cbn [snd w_gens]. rewrite nth_error_upd_neq; [exact Hx|]. intro; subst. apply (Hne a). reflexivity.
  - exact Hx.
Qed.

Lemma step_own w i a x :
  nth_error (w_gens w) i = Some x -> g_own x = true ->
  fst (step w (EAct i a)) = fst (act (g_p x) a (g_st x)) /\
  nth_error (w_gens (snd (step w (EAct i a)))) i =
    Some (mkgen (g_p x) true (snd (act (g_p x) a (g_st x)))).
Proof.
  intros Hx Hown. cbn [step]. rewrite Hx. unfold step_gen. rewrite Hown. cbn [fst snd w_gens].
  split; [reflexivity|]. apply nth_error_upd_eq. eapply nth_error_lt; eauto.
Qed.

Theorem interleaving_independence : forall es w i x,
  nth_error (w_gens w) i = Some x -> g_own x = true ->
  outputs_of i es (fst (run w es)) = solo (g_p x) (g_st x) (actions_of i es).
Proof.
  induction es as [|e es IH]; intros w i x Hx Hown; [reflexivity|].
  unfold run. cbn [run_with fst]. fold (run (snd (step w e)) es).
  destruct e as [p own gl|j a|gl].
  - cbn [outputs_of actions_of]. apply IH; [|exact Hown].
    apply step_other; [exact Hx|intros; discriminate].
  - cbn [outputs_of actions_of]. destruct (i =? j)%nat eqn:Eij.
    + apply Nat.eqb_eq in Eij. subst j. destruct (step_own w i a x Hx Hown) as [Ho Hg].
      cbn [solo]. rewrite Ho. f_equal.
      apply (IH _ i _ Hg). reflexivity.
    + apply Nat.eqb_neq in Eij. apply IH; [|exact Hown].
      apply step_other; [exact Hx|]. intros a' H. inversion H. congruence.
  - cbn [outputs_of actions_of]. apply IH; [|exact Hown].
    apply step_other; [exact Hx|intros; discriminate].
Qed.

Lemma solo_app p : forall a b g, exists g', solo p g (a ++ b) = solo p g a ++ solo p g' b.
Proof.
  induction a as [|x a IH]; intros b g; cbn [app solo].
  - exists g. reflexivity.
  - destruct (IH b (snd (act p x g))) as (g' & H). exists g'. rewrite H. reflexivity.
Qed.

(** Two generators with their own RNG, the same parameters and the same
    state (built with the same seed) answer the same as far as both are asked
    the same, however their use is interleaved with each other, with other
    generators and with other users of the [random] module. *)
Theorem same_seed_same_sequence : forall es w i j x y rest,
  nth_error (w_gens w) i = Some x -> nth_error (w_gens w) j = Some y ->
  g_own x = true -> g_own y = true -> g_p x = g_p y -> g_st x = g_st y ->
  actions_of j es = actions_of i es ++ rest ->
  exists more, outputs_of j es (fst (run w es)) = outputs_of i es (fst (run w es)) ++ more.
Proof.
  intros es w i j x y rest Hx Hy Hox Hoy Hp Hst Hacts.
  rewrite (interleaving_independence es w i x Hx Hox), (interleaving_independence es w j y Hy Hoy).
  rewrite Hacts, <- Hp, <- Hst. destruct (solo_app (g_p x) (actions_of i es) rest (g_st x)) as (g' & H).
  rewrite H. eexists. reflexivity.
Qed.

(** ** Completeness: every instance of the requested shape is generated by
    the stream that spells it out (so every arrangement of machines, every
    duration, every size is reachable: "drawn from all M machines") *)

Lemma randint_ok a b x g t : a <= x <= b -> randint a b (set_rng g (x :: t)) = Ok x (set_rng g t).
Proof.
  intro H. unfold randint. destruct (b <? a) eqn:E; [apply Z.ltb_lt in E; lia|].
  cbn [st_rng set_rng]. replace ((a <=? x) && (x <=? b)) with true; [reflexivity|].
  symmetry. apply andb_true_iff. split; apply Z.leb_le; lia.
Qed.

Lemma randintN_ok a b n g t : (a <= n <= b)%nat ->
  randintN a b (set_rng g (Z.of_nat n :: t)) = Ok n (set_rng g t).
Proof.
  intro H. unfold randintN, bind. rewrite randint_ok by lia. unfold ret. rewrite Nat2Z.id. reflexivity.
Qed.

Lemma choice_ok l m g t : In m l -> choice l (set_rng g (Z.of_nat m :: t)) = Ok m (set_rng g t).
Proof.
  intro H. unfold choice. destruct l as [|y l']; [destruct H|].
  cbn [st_rng set_rng]. rewrite Nat2Z.id.
  replace ((0 <=? Z.of_nat m) && mem_nat m (y :: l')) with true; [reflexivity|].
  symmetry. apply andb_true_iff. split; [apply Z.leb_le; lia|apply mem_nat_In; exact H].
Qed.

(** The stream of a job can be consumed from [avail]. *)
Fixpoint fits (p : params) (avail : list nat) (ops : list op) : Prop :=
  match ops with
  | [] => True
  | o :: t =>
      dlo p <= duration o <= dhi p /\
      (if (1 <? khi p)%nat
       then (klo p <= length (machines o) <= khi p)%nat /\ NoDup (machines o) /\
            incl (machines o) avail /\ (khi p <= length avail)%nat /\ fits p avail t
       else exists m, machines o = [m] /\ In m avail /\
                      fits p (if recirc p then avail else remove_first m avail) t)
  end.

Lemma op_eta o : mkop (machines o) (duration o) = o.
Proof. destruct o; reflexivity. Qed.

Lemma gen_ops_complete p : forall ops avail g rest,
  fits p avail ops ->
  gen_ops p (length ops) avail (set_rng g (enc_job p ops ++ rest)) = Ok ops (set_rng g rest).
Proof.
  induction ops as [|o t IH]; intros avail g rest Hfit; [reflexivity|].
  cbn [length gen_ops]. unfold enc_job. cbn [map concat]. fold (enc_job p t).
  rewrite <- app_assoc. destruct Hfit as [Hd Hmode].
  unfold bind at 1. unfold create_random_operation, enc_op.
  destruct (1 <? khi p)%nat eqn:Ek.
  - destruct Hmode as (Hk & Hnd & Hincl & Hlen & Hfit).
    cbn [app]. unfold bind at 1. rewrite randint_ok by exact Hd.
    unfold bind at 1. unfold choose_multiple. cbn [default_avail].
    replace (length avail <? khi p)%nat with false by (symmetry; apply Nat.ltb_ge; exact Hlen).
    unfold bind at 1. rewrite randintN_ok by exact Hk.
    rewrite pick_complete by assumption.
    unfold ret at 1. cbn [fst snd]. unfold bind. rewrite IH by exact Hfit.
    unfold ret. rewrite op_eta. reflexivity.
  - destruct Hmode as (m & Hms & Hm & Hfit). rewrite Hms. cbn [map app].
    unfold bind at 1. rewrite randint_ok by exact Hd.
    unfold bind at 1. unfold choose_one. cbn [default_avail].
    unfold bind at 1. rewrite choice_ok by exact Hm.
    unfold ret at 1. unfold ret at 1. cbn [fst snd].
    assert (Hav : match (if recirc p then Some avail else Some (remove_first m avail)) with
                  | Some l => l | None => avail end
                  = (if recirc p then avail else remove_first m avail)) by (destruct (recirc p); reflexivity).
    unfold bind. rewrite Hav. rewrite IH by exact Hfit.
    unfold ret. rewrite <- Hms, op_eta. reflexivity.
Qed.

Lemma fits_of_job_ok p M job :
  wf_params p -> (mlo p <= M)%nat -> job_ok p M job -> fits p (seq 0 M) job.
Proof.
  intros (Hj & Hm & Hd & Hk & HkM & Ha) HM (Hlen & Hf & Hperm).
  destruct (1 <? khi p)%nat eqn:Ek.
  - (* several machines *)
    clear Hperm Hlen. induction Hf as [|o t Ho Hf IH]; cbn [fits]; [exact I|].
    destruct Ho as (Hdur & Hkk & Hnd & Hb). split; [exact Hdur|]. rewrite Ek.
    split; [exact Hkk|]. split; [exact Hnd|]. split.
    + intros x Hx. rewrite Forall_forall in Hb. apply in_seq. specialize (Hb x Hx). lia.
    + split; [|exact IH]. rewrite seq_length. apply Nat.ltb_lt in Ek. specialize (HkM Ek). lia.
  - apply Nat.ltb_ge in Ek.
    assert (Hsingle : Forall (fun o => exists m, machines o = [m]) job).
    { rewrite Forall_forall in *. intros o Ho. destruct (Hf o Ho) as (_ & Hkk & _).
      destruct (machines o) as [|m [|m' r]]; simpl in Hkk; [lia|exists m; reflexivity|lia]. }
    destruct (recirc p) eqn:Er.
    + clear Hperm Hlen. induction Hf as [|o t Ho Hf IH]; cbn [fits]; [exact I|].
      inversion Hsingle as [|? ? (m & Hms) Hs']; subst.
      destruct Ho as (Hdur & _ & _ & Hb). split; [exact Hdur|].
      replace (1 <? khi p)%nat with false by (symmetry; apply Nat.ltb_ge; exact Ek).
      exists m. split; [exact Hms|]. rewrite Er. split; [|apply IH; exact Hs'].
      rewrite Hms in Hb. inversion Hb; subst. apply in_seq. lia.
    + specialize (Hperm eq_refl Ek). unfold visits_each_once in Hperm.
      assert (Hnd : NoDup (concat (map machines job)))
        by (apply (Permutation_NoDup (Permutation_sym Hperm)); apply seq_NoDup).
      assert (Hincl : incl (concat (map machines job)) (seq 0 M))
        by (intros x Hx; apply (Permutation_in _ Hperm); exact Hx).
      clear Hperm Hlen. revert Hnd Hincl. generalize (seq 0 M) as avail.
      induction Hf as [|o t Ho Hf IH]; intros avail Hnd Hincl; cbn [fits]; [exact I|].
      inversion Hsingle as [|? ? (m & Hms) Hs']; subst.
      destruct Ho as (Hdur & _ & _ & Hb). split; [exact Hdur|].
      replace (1 <? khi p)%nat with false by (symmetry; apply Nat.ltb_ge; exact Ek).
      exists m. split; [exact Hms|]. rewrite Er.
      cbn [map concat] in Hnd, Hincl. rewrite Hms in Hnd, Hincl. cbn [app] in Hnd, Hincl.
      inversion Hnd as [|? ? Hnin Hnd']; subst.
      split; [apply Hincl; left; reflexivity|].
      apply IH; [exact Hs'|exact Hnd'|].
      intros x Hx. apply remove_first_In_neq; [apply Hincl; right; exact Hx|].
      intro; subst. contradiction.
Qed.

Lemma gen_jobs_complete p M : forall jobs g rest,
  Forall (fun job => length job = M /\ fits p (seq 0 M) job) jobs ->
  gen_jobs p (length jobs) M (set_rng g (concat (map (enc_job p) jobs) ++ rest)) = Ok jobs (set_rng g rest).
Proof.
  induction jobs as [|job t IH]; intros g rest Hf; [reflexivity|].
  inversion Hf as [|? ? Hjob Hf']; subst. destruct Hjob as [Hlen Hfit].
  cbn [length gen_jobs map concat]. rewrite <- app_assoc.
  unfold bind at 1. rewrite <- Hlen at 1. rewrite gen_ops_complete by exact Hfit.
  unfold bind. rewrite IH by exact Hf'. reflexivity.
Qed.

Theorem generate_complete p I g rest :
  wf_params p -> shape p I ->
  generate p None None (set_rng g (encode p I ++ rest)) =
    Ok (name_of p (S (st_counter g)), I) (mkgst rest (S (st_counter g)) (st_iter g)).
Proof.
  intros Hwf (HJ & HM & Ha & Hf). pose proof Hwf as (Hj & Hm & Hd & Hk & HkM & Hal).
  assert (Hjobs : gen_jobs p (length I) (M_of p I) (set_rng g (concat (map (enc_job p) I) ++ rest))
                  = Ok I (set_rng g rest)).
  { apply gen_jobs_complete. rewrite Forall_forall in *. intros job Hjob.
    specialize (Hf job Hjob). split; [apply Hf|]. apply fits_of_job_ok; [exact Hwf|lia|exact Hf]. }
  unfold generate, encode, draw_num_jobs, draw_num_machines. cbn [app].
  destruct (allow_less p) eqn:Eal.
  - unfold bind at 1. rewrite randintN_ok by exact HJ.
    unfold bind at 1. rewrite randintN_ok by exact HM.
    unfold bind at 1. rewrite Hjobs. reflexivity.
  - specialize (Ha eq_refl).
    unfold bind at 1. rewrite randintN_ok by lia.
    replace (Nat.min (length I) (mhi p) <? mlo p)%nat with false by (symmetry; apply Nat.ltb_ge; lia).
    unfold bind at 1. rewrite randintN_ok by lia.
    unfold bind at 1. rewrite Hjobs. reflexivity.
Qed.
