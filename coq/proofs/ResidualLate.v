(** ResidualLate.v — C17 for an updater that is subscribed LATE.

    [ResidualGraphUpdater(dispatcher, graph, subscribe=False, ..)] on the
    fresh dispatcher creates-or-gets and subscribes its IsCompletedObserver
    (and what that one depends on) but not itself; [k >= 0] requests later
    [dispatcher.subscribe(updater)] appends it at the end of the subscriber
    list. Model: a request in the first phase is
    [dispatch rgu_update_detached] (the dependencies are notified, the graph
    is not touched), a request in the second phase is [dispatch rgu_update].

    * The dependencies (and the dispatcher) do not notice whether the updater
      is attached: same state as in the ordinary run on [rs1 ++ rs2].
    * While detached the graph is the builder's graph.
    * At every point the WEAK invariant [ResidualProofs.WInv] holds: the
      graph is the builder's graph with a list of JUSTIFIED nodes removed,
      and the IsCompletedObserver is in step with the dispatcher. It gives
      unscheduled_kept, group_nodes, no_dangling, and every step is monotone.
    * [update] removes the nodes of ALL completed operations and scans ALL
      flags, so ONE notified accepted request turns the weak invariant into
      the full one ([ResidualProofs.WInv_step]); from then on the run is an
      ordinary run ([rgu_run]): completed_removed, all_removed at the end. *)
From JSL Require Import Base Instance Dstate Filters World Observers Graph Feasible Derived GraphSpec
  ListFacts OpIds GraphFacts GraphStages GraphProofs GraphSpecFacts DispatchFun Inv Run Tracking Partition
  Replay Residual ResidualSpec ResidualGraph ResidualObs ResidualProofs.
From Coq Require Import Lia.

(** ** The run: [rs1] while detached, then [rs2] attached *)

Definition c17_late_run (I : instance) (fs : list fname) (ps : list pre) (rm_m rm_j : bool) (g0 : graph)
           (rs1 rs2 : list request) : world rgu :=
  run_from rgu rgu_update I
    (run_from rgu rgu_update_detached I (rg_world fs (init_d I) (rgu_fresh I ps rm_m rm_j g0)) rs1) rs2.

(** ** The world step, for any update function *)

Section AnyUpdate.
  Variable f : instance -> list fname -> dstate -> sop -> rgu -> rgu.

  Lemma rg_step_any I fs d u r :
    step_req rgu f I (rg_world fs d u) r =
    match sop_of_request I d r with
    | Some x => rg_world fs (apply_sop I d x (row_of d x)) (f I fs (apply_sop I d x (row_of d x)) x u)
    | None => rg_world fs d u
    end.
  Proof.
    rewrite step_req_sop. cbn [core rg_world]. destruct (sop_of_request I d r) as [x|]; reflexivity.
  Qed.
End AnyUpdate.

(** ** "some request of the list is accepted" *)

(** [accepts] (the answer of [dispatch]) in terms of [sop_of_request] *)
Lemma accepts_iff_sop (O : Type) (f : instance -> list fname -> dstate -> sop -> O -> O) I (w : world O) r :
  accepts O f I w r = true <-> sop_of_request I (core w) r <> None.
Proof.
  unfold accepts. rewrite dispatch_is_pure. unfold dispatch_pure, sop_of_request.
  assert (F : forall (w' : world O) e, (match snd (w', @inr unit exn e) with inl _ => true | inr _ => false end) = true <->
                           @None sop <> None) by (intros w' e; simpl; split; [discriminate|intros H; contradiction]).
  assert (T : forall (w' : world O) (x : sop), (match snd (w', @inl unit exn tt) with inl _ => true | inr _ => false end) = true <->
                           Some x <> None) by (intros w' x; simpl; split; [discriminate|reflexivity]).
  destruct (get_op I (r_job r) (r_pos r)) as [o|]; [|apply F].
  destruct (nthN (jnext (core w)) (r_job r) =? r_pos r)%nat; [|apply F].
  destruct (resolve_pure o (r_mach r)) as [m|e]; [|apply F].
  destruct (py_index (length (mfree (core w))) m) as [mi|]; [|apply F].
  destruct (existsb (fun k : nat => Z.of_nat k =? m) (machines o)); [|apply F].
  destruct (nth_error (sched (core w)) (Z.to_nat m)) as [row|]; [|apply F]. cbv zeta.
  destruct (last_opt row) as [y|]; [|apply T].
  destruct (s_end I y <=? _); [apply T|apply F].
Qed.

(** [accepted_sops I d rs] (the accepted dispatches of [rs] issued from state
    [d], in order) is non-empty iff some request of [rs] is accepted in the
    state it meets *)
Lemma accepted_sops_nonempty I rs : forall d,
  accepted_sops I d rs <> [] <->
  exists pre r post, rs = pre ++ r :: post /\ sop_of_request I (fold_left (apply_req I) pre d) r <> None.
Proof.
  induction rs as [|r t IH]; intros d.
  - split; [intros H; exfalso; apply H; reflexivity|].
    intros (pre & r & post & E & _). destruct pre; discriminate.
  - cbn [accepted_sops]. destruct (sop_of_request I d r) as [x|] eqn:E.
    + split; [|discriminate]. intros _. exists [], r, t. split; [reflexivity|]. simpl. rewrite E. discriminate.
    + assert (HA : apply_req I d r = d) by (unfold apply_req; rewrite E; reflexivity).
      rewrite IH. split.
      * intros (pre & r' & post & -> & H). exists (r :: pre), r', post. split; [reflexivity|].
        cbn [fold_left]. rewrite HA. exact H.
      * intros (pre & r' & post & Eq & H). destruct pre as [|r0 pre].
        -- simpl in Eq, H. inversion Eq; subst r' post. rewrite E in H. contradiction.
        -- simpl in Eq. inversion Eq; subst r0 t. exists pre, r', post. split; [reflexivity|].
           cbn [fold_left] in H. rewrite HA in H. exact H.
Qed.

(** ** (a) the dependencies do not notice *)

(** everything of the updater except its graph *)
Definition same_obs (u v : rgu) : Prop :=
  u_deps u = u_deps v /\ u_ic u = u_ic v /\ u_rm_m u = u_rm_m v /\ u_rm_j u = u_rm_j v /\ u_init u = u_init v.

Definition notifies_deps (f : instance -> list fname -> dstate -> sop -> rgu -> rgu) : Prop :=
  forall I fs d x u,
    u_deps (f I fs d x u) = map (dep_update I x) (u_deps u) /\ u_ic (f I fs d x u) = u_ic u /\
    u_rm_m (f I fs d x u) = u_rm_m u /\ u_rm_j (f I fs d x u) = u_rm_j u /\ u_init (f I fs d x u) = u_init u.

Lemma notifies_deps_update : notifies_deps rgu_update.
Proof. intros I fs d x u. unfold rgu_update. cbn [u_deps u_ic u_rm_m u_rm_j u_init]. repeat split. Qed.
Lemma notifies_deps_detached : notifies_deps rgu_update_detached.
Proof. intros I fs d x u. unfold rgu_update_detached. cbn [u_deps u_ic u_rm_m u_rm_j u_init]. repeat split. Qed.

Lemma run_same_obs f1 f2 I fs : notifies_deps f1 -> notifies_deps f2 ->
  forall rs d u v, same_obs u v ->
    exists u' v', run_from rgu f1 I (rg_world fs d u) rs = rg_world fs (fold_left (apply_req I) rs d) u' /\
                  run_from rgu f2 I (rg_world fs d v) rs = rg_world fs (fold_left (apply_req I) rs d) v' /\
                  same_obs u' v'.
Proof.
  intros H1 H2. induction rs as [|r t IH]; intros d u v Hs.
  - exists u, v. split; [reflexivity|]. split; [reflexivity|exact Hs].
  - unfold run_from in *. cbn [fold_left]. rewrite !rg_step_any.
    destruct (sop_of_request I d r) as [x|] eqn:E.
    + assert (HA : apply_req I d r = apply_sop I d x (row_of d x)) by (unfold apply_req; rewrite E; reflexivity).
      rewrite HA. apply IH. set (d' := apply_sop I d x (row_of d x)).
      destruct (H1 I fs d' x u) as (A1 & A2 & A3 & A4 & A5).
      destruct (H2 I fs d' x v) as (B1 & B2 & B3 & B4 & B5).
      destruct Hs as (S1 & S2 & S3 & S4 & S5). unfold same_obs.
      rewrite A1, A2, A3, A4, A5, B1, B2, B3, B4, B5, S1, S2, S3, S4, S5. repeat split.
    + assert (HA : apply_req I d r = d) by (unfold apply_req; rewrite E; reflexivity).
      rewrite HA. apply IH. exact Hs.
Qed.

Lemma same_obs_refl u : same_obs u u.
Proof. unfold same_obs. repeat split. Qed.

Theorem f_late_deps I fs ps rm_m rm_j g0 rs1 rs2 :
  exists d u u',
    c17_late_run I fs ps rm_m rm_j g0 rs1 rs2 = rg_world fs d u /\
    c17_run I fs ps rm_m rm_j g0 (rs1 ++ rs2) = rg_world fs d u' /\
    d = fold_left (apply_req I) (rs1 ++ rs2) (init_d I) /\
    u_deps u = u_deps u' /\ u_ic u = u_ic u' /\ u_rm_m u = u_rm_m u' /\ u_rm_j u = u_rm_j u' /\
    u_init u = u_init u'.
Proof.
  set (u0 := rgu_fresh I ps rm_m rm_j g0).
  destruct (run_same_obs rgu_update_detached rgu_update I fs notifies_deps_detached notifies_deps_update
              rs1 (init_d I) u0 u0 (same_obs_refl u0)) as (u1 & v1 & E1 & F1 & S1).
  destruct (run_same_obs rgu_update rgu_update I fs notifies_deps_update notifies_deps_update
              rs2 (fold_left (apply_req I) rs1 (init_d I)) u1 v1 S1) as (u2 & v2 & E2 & F2 & S2).
  exists (fold_left (apply_req I) (rs1 ++ rs2) (init_d I)), u2, v2.
  unfold c17_late_run, c17_run. fold u0. rewrite E1, E2.
  unfold run_from in *. rewrite (fold_left_app (step_req rgu rgu_update I)), F1, F2.
  rewrite fold_left_app. split; [reflexivity|]. split; [reflexivity|]. split; [reflexivity|exact S2].
Qed.

(** ** (b) while detached the graph is not touched *)

Lemma detached_graph I fs rs : forall d u,
  exists u', run_from rgu rgu_update_detached I (rg_world fs d u) rs =
             rg_world fs (fold_left (apply_req I) rs d) u' /\ u_graph u' = u_graph u.
Proof.
  induction rs as [|r t IH]; intros d u.
  - exists u. split; reflexivity.
  - unfold run_from in *. cbn [fold_left]. rewrite rg_step_any.
    destruct (sop_of_request I d r) as [x|] eqn:E0.
    + assert (HA : apply_req I d r = apply_sop I d x (row_of d x)) by (unfold apply_req; rewrite E0; reflexivity).
      rewrite HA.
      destruct (IH (apply_sop I d x (row_of d x))
                   (rgu_update_detached I fs (apply_sop I d x (row_of d x)) x u)) as (u' & E & G).
      exists u'. split; [exact E|exact G].
    + assert (HA : apply_req I d r = d) by (unfold apply_req; rewrite E0; reflexivity).
      rewrite HA. apply IH.
Qed.

Theorem f_late_untouched I fs ps rm_m rm_j g0 rs1 :
  exists d u, c17_late_run I fs ps rm_m rm_j g0 rs1 [] = rg_world fs d u /\
              d = fold_left (apply_req I) rs1 (init_d I) /\
              u_graph u = u_graph (rgu_fresh I ps rm_m rm_j g0) /\ u_graph u = g0.
Proof.
  destruct (detached_graph I fs rs1 (init_d I) (rgu_fresh I ps rm_m rm_j g0)) as (u & E & G).
  exists (fold_left (apply_req I) rs1 (init_d I)), u. unfold c17_late_run. rewrite E.
  split; [reflexivity|]. split; [reflexivity|]. split; [exact G|].
  rewrite G. destruct (rgu_fresh_spec I ps rm_m rm_j g0) as (_ & _ & E3 & _). exact E3.
Qed.

(** ** One notified update only adds removals (any well-formed graph) *)

Lemma update_monotone I fs d x u : gwf (u_graph u) ->
  monotone (g_removed (u_graph u)) (g_removed (u_graph (rgu_update I fs d x u))).
Proof.
  intros Hw. rewrite (rgu_update_graph I fs d x u Hw). set (T := targets I fs d x u).
  destruct (fold_char T (u_graph u) Hw) as (Hw' & Hst & _).
  intros n Hn. change (is_rm (u_graph u) n = true) in Hn.
  change (is_rm (fold_left remove_if_present T (u_graph u)) n = true).
  assert (Hlt : (n < length (g_removed (u_graph u)))%nat).
  { unfold is_rm in Hn. destruct (Nat.lt_ge_cases n (length (g_removed (u_graph u)))) as [Hl|Hg]; [exact Hl|].
    rewrite nth_overflow in Hn by exact Hg. discriminate. }
  apply rmd_is_rm.
  - rewrite (wf_len _ Hw'). destruct Hst as (_ & _ & _ & _ & _ & ->). rewrite <- (wf_len _ Hw). exact Hlt.
  - apply fold_monotone; [exact Hw|apply is_rm_rmd; exact Hn].
Qed.

Lemma monotone_refl' l : monotone l l.
Proof. intros n H. exact H. Qed.
Lemma monotone_trans' a c e : monotone a c -> monotone c e -> monotone a e.
Proof. intros H1 H2 n H. apply H2, H1, H. Qed.

(** ** The weak invariant: what it gives *)

Section WeakClauses.
  Variable I : instance.
  Variable b : nat.
  Variable g0 : graph.
  Hypothesis Hsc : scope17 I b.
  Hypothesis Hb : built I b g0.
  Variables rm_m rm_j : bool.
  Variable d : dstate.
  Variable u : rgu.
  Hypothesis Hi : Inv I d.
  Hypothesis Hw : WInv I b g0 rm_m rm_j d u.

  Lemma w_gwf : gwf (u_graph u).
  Proof.
    destruct (w_graph _ _ _ _ _ _ _ Hw) as (L & EL & _). exact (proj1 (graph_shape I b g0 Hb u L EL)).
  Qed.

  Theorem wcl_no_dangling : no_dangling (u_graph u).
  Proof. intros e He. apply (wf_edges _ w_gwf e He). Qed.

  Lemma w_protected_not_removed v : protected I b d v -> is_rm (u_graph u) v = false.
  Proof.
    intros HP. destruct (w_graph _ _ _ _ _ _ _ Hw) as (L & EL & HJ).
    destruct (is_rm (u_graph u) v) eqn:E; [|reflexivity]. apply is_rm_rmd in E.
    rewrite EL, (protected_kept I b g0 Hb (proj1 (proj2 Hsc)) d L v HJ HP) in E. discriminate.
  Qed.

  Theorem wcl_unscheduled_kept : unscheduled_kept I (u_graph u) d.
  Proof.
    intros [j p] Hk. apply w_protected_not_removed. left. exists j, p. split; [|reflexivity].
    apply (unsched_key_In I d j p Hi). exact Hk.
  Qed.

  Theorem wcl_group_nodes : group_nodes I (u_graph u) d.
  Proof.
    destruct (w_graph _ _ _ _ _ _ _ Hw) as (L & EL & _).
    destruct (graph_shape I b g0 Hb u L EL) as (_ & En & _).
    intros x Hx Hrm. rewrite En in Hx. pose proof (nodes_kinds I b x (bt_b _ _ _ Hb) Hx) as Hk.
    destruct (snd x) as [j p|m|j| | |]; simpl; try exact Logic.I.
    - destruct Hk as (H1 & Hm & Ex). intros [j p] Hin.
      destruct (uses_machine I m (j, p)) eqn:Eu; [|reflexivity]. exfalso.
      rewrite w_protected_not_removed in Hrm; [discriminate|].
      right. right. left. split; [exact H1|]. exists m, j, p.
      split; [apply (unsched_key_In I d j p Hi); exact Hin|]. split; [exact Eu|exact Ex].
    - destruct Hk as (H2 & Hj & Ex). intros [j' p] Hin Ej. simpl in Ej. subst j'.
      rewrite w_protected_not_removed in Hrm; [discriminate|].
      right. right. right. split; [exact H2|]. exists j, p.
      split; [apply (unsched_key_In I d j p Hi); exact Hin|exact Ex].
  Qed.
End WeakClauses.

(** ** The weak invariant along the two phases *)

Section LateRun.
  Variable I : instance.
  Variable b : nat.
  Variable g0 : graph.
  Hypothesis Hsc : scope17 I b.
  Hypothesis Hb : built I b g0.
  Variable fs : list fname.
  Variables rm_m rm_j : bool.

  Let WI := WInv I b g0 rm_m rm_j.
  Let RI := RInv I b g0 fs rm_m rm_j.

  (** a round that reaches only the dependencies *)
  Lemma WInv_detached_step d u r x o row :
    Inv I d -> accepted I d r x o row -> WI d u ->
    WI (apply_sop I d x row) (rgu_update_detached I fs (apply_sop I d x row) x u).
  Proof.
    intros Hi Ha [W1 W2 W3 (L & EL & HJ)]. constructor.
    - exact W1.
    - exact W2.
    - intros Ho. destruct (W3 Ho) as (c & Hc & Hm & Hj & Hinv). exists (ic_update I x c).
      split; [unfold has_ic; cbn [rgu_update_detached u_deps u_ic]; apply rgu_iscomp_map; exact Hc|].
      split; [exact Hm|]. split; [exact Hj|]. eapply ic_inv_step; eauto.
    - exists L. split; [exact EL|]. intros n Hn. eapply justified_mono; [|apply HJ; exact Hn].
      eapply jnext_mono; eauto.
  Qed.

  Lemma detached_run rs : forall d u, Inv I d -> WI d u ->
    exists u', run_from rgu rgu_update_detached I (rg_world fs d u) rs =
               rg_world fs (fold_left (apply_req I) rs d) u' /\
               Inv I (fold_left (apply_req I) rs d) /\ WI (fold_left (apply_req I) rs d) u' /\
               u_graph u' = u_graph u.
  Proof.
    assert (Hv : valid I) by exact (proj1 Hsc).
    induction rs as [|r t IH]; intros d u Hi Hw.
    - exists u. split; [reflexivity|]. split; [exact Hi|]. split; [exact Hw|reflexivity].
    - unfold run_from in *. cbn [fold_left]. rewrite rg_step_any.
      destruct (sop_of_request I d r) as [x|] eqn:E.
      + assert (HA : apply_req I d r = apply_sop I d x (row_of d x)) by (unfold apply_req; rewrite E; reflexivity).
        rewrite HA. destruct (sop_of_request_accepted I d r x E) as (o & Ha).
        destruct (IH _ _ (Inv_apply_sop I d r x o _ Hv Hi Ha) (WInv_detached_step d u r x o _ Hi Ha Hw))
          as (u' & E' & Hi' & Hw' & G).
        exists u'. split; [exact E'|]. split; [exact Hi'|]. split; [exact Hw'|exact G].
      + assert (HA : apply_req I d r = d) by (unfold apply_req; rewrite E; reflexivity).
        rewrite HA. apply IH; assumption.
  Qed.

  (** the attached phase, entered with the weak invariant only: the full
      invariant holds from the first accepted request on *)
  Lemma attached_run rs : forall d u, Inv I d -> WI d u ->
    exists u', run_from rgu rgu_update I (rg_world fs d u) rs = rg_world fs (fold_left (apply_req I) rs d) u' /\
               Inv I (fold_left (apply_req I) rs d) /\ WI (fold_left (apply_req I) rs d) u' /\
               (RI d u \/ accepted_sops I d rs <> [] -> RI (fold_left (apply_req I) rs d) u') /\
               monotone (g_removed (u_graph u)) (g_removed (u_graph u')).
  Proof.
    assert (Hv : valid I) by exact (proj1 Hsc).
    induction rs as [|r t IH]; intros d u Hi Hw.
    - exists u. split; [reflexivity|]. split; [exact Hi|]. split; [exact Hw|].
      split; [|apply monotone_refl']. intros [H|H]; [exact H|]. exfalso. apply H. reflexivity.
    - unfold run_from in *. cbn [fold_left accepted_sops]. rewrite rg_step_any.
      destruct (sop_of_request I d r) as [x|] eqn:E.
      + assert (HA : apply_req I d r = apply_sop I d x (row_of d x)) by (unfold apply_req; rewrite E; reflexivity).
        rewrite HA. destruct (sop_of_request_accepted I d r x E) as (o & Ha).
        pose proof (WInv_step I b g0 Hsc Hb fs rm_m rm_j d u r x o _ Hi Ha Hw) as Hr1.
        destruct (IH _ _ (Inv_apply_sop I d r x o _ Hv Hi Ha) (RInv_WInv I b g0 fs rm_m rm_j _ _ Hr1))
          as (u' & E' & Hi' & Hw' & HR & Hm).
        exists u'. split; [exact E'|]. split; [exact Hi'|]. split; [exact Hw'|]. split.
        * intros _. apply HR. left. exact Hr1.
        * eapply monotone_trans'; [|exact Hm]. apply update_monotone.
          exact (w_gwf I b g0 Hb rm_m rm_j d u Hw).
      + assert (HA : apply_req I d r = d) by (unfold apply_req; rewrite E; reflexivity).
        rewrite HA. apply IH; assumption.
  Qed.
End LateRun.

(** ** From the fresh world: [rs1] detached, [rs2] attached *)

Section LateFinal.
  Variable I : instance.
  Variable b : nat.
  Variable g0 : graph.
  Hypothesis Hsc : scope17 I b.
  Hypothesis Hbuild : build_by_code b I = Some g0.
  Variable fs : list fname.
  Variable ps : list pre.
  Variables rm_m rm_j : bool.

  Let Hb : built I b g0 := build_built I b g0 Hsc Hbuild.
  Let u0 := rgu_fresh I ps rm_m rm_j g0.
  Let after1 (rs1 : list request) := fold_left (apply_req I) rs1 (init_d I).

  Lemma late_reach rs1 rs2 :
    exists u1 u,
      c17_late_run I fs ps rm_m rm_j g0 rs1 [] = rg_world fs (after1 rs1) u1 /\
      u_graph u1 = u_graph u0 /\
      c17_late_run I fs ps rm_m rm_j g0 rs1 rs2 = rg_world fs (fold_left (apply_req I) (rs1 ++ rs2) (init_d I)) u /\
      Inv I (fold_left (apply_req I) (rs1 ++ rs2) (init_d I)) /\
      WInv I b g0 rm_m rm_j (fold_left (apply_req I) (rs1 ++ rs2) (init_d I)) u /\
      (accepted_sops I (after1 rs1) rs2 <> [] ->
       RInv I b g0 fs rm_m rm_j (fold_left (apply_req I) (rs1 ++ rs2) (init_d I)) u) /\
      monotone (g_removed (u_graph u1)) (g_removed (u_graph u)).
  Proof.
    assert (Hw0 : WInv I b g0 rm_m rm_j (init_d I) u0).
    { apply (RInv_WInv I b g0 fs). apply RInv_init; assumption. }
    destruct (detached_run I b g0 Hsc fs rm_m rm_j rs1 (init_d I) u0 (Inv_init I) Hw0)
      as (u1 & E1 & Hi1 & Hw1 & G1).
    destruct (attached_run I b g0 Hsc Hb fs rm_m rm_j rs2 _ u1 Hi1 Hw1) as (u & E2 & Hi2 & Hw2 & HR & Hm).
    exists u1, u. unfold c17_late_run. fold u0. rewrite E1. rewrite fold_left_app. fold (after1 rs1).
    split; [reflexivity|]. split; [exact G1|]. split; [exact E2|]. split; [exact Hi2|].
    split; [exact Hw2|]. split; [|exact Hm]. intros Hacc. apply HR. right. exact Hacc.
  Qed.

  Lemma late_clause (P : graph -> dstate -> Prop) :
    (forall d u, Inv I d -> WInv I b g0 rm_m rm_j d u -> P (u_graph u) d) ->
    forall rs1 rs2, exists d u, c17_late_run I fs ps rm_m rm_j g0 rs1 rs2 = rg_world fs d u /\
                                d = fold_left (apply_req I) (rs1 ++ rs2) (init_d I) /\ P (u_graph u) d.
  Proof.
    intros H rs1 rs2. destruct (late_reach rs1 rs2) as (u1 & u & _ & _ & E & Hi & Hw & _).
    exists (fold_left (apply_req I) (rs1 ++ rs2) (init_d I)), u.
    split; [exact E|]. split; [reflexivity|apply H; assumption].
  Qed.

  (** (c) at every point, attached or not *)
  Theorem f_late_unscheduled_kept rs1 rs2 :
    exists d u, c17_late_run I fs ps rm_m rm_j g0 rs1 rs2 = rg_world fs d u /\
                d = fold_left (apply_req I) (rs1 ++ rs2) (init_d I) /\ unscheduled_kept I (u_graph u) d.
  Proof.
    apply (late_clause (fun g d => unscheduled_kept I g d)). intros d u Hi Hw.
    eapply wcl_unscheduled_kept; eauto.
  Qed.

  Theorem f_late_group_nodes rs1 rs2 :
    exists d u, c17_late_run I fs ps rm_m rm_j g0 rs1 rs2 = rg_world fs d u /\
                d = fold_left (apply_req I) (rs1 ++ rs2) (init_d I) /\ group_nodes I (u_graph u) d.
  Proof.
    apply (late_clause (fun g d => group_nodes I g d)). intros d u Hi Hw. eapply wcl_group_nodes; eauto.
  Qed.

  Theorem f_late_no_dangling rs1 rs2 :
    exists d u, c17_late_run I fs ps rm_m rm_j g0 rs1 rs2 = rg_world fs d u /\
                d = fold_left (apply_req I) (rs1 ++ rs2) (init_d I) /\ no_dangling (u_graph u).
  Proof.
    apply (late_clause (fun g _ => no_dangling g)). intros d u Hi Hw. eapply wcl_no_dangling; eauto.
  Qed.

  (** removed(point) within removed(later point): a point of the detached
      phase against any later point (detached or attached), and a point of
      the attached phase against any later point *)
  Theorem f_late_monotone rs1 rs1' rs2 rs2' :
    exists d1 u1 d2 u2 d3 u3,
      c17_late_run I fs ps rm_m rm_j g0 rs1 [] = rg_world fs d1 u1 /\
      c17_late_run I fs ps rm_m rm_j g0 (rs1 ++ rs1') rs2 = rg_world fs d2 u2 /\
      c17_late_run I fs ps rm_m rm_j g0 (rs1 ++ rs1') (rs2 ++ rs2') = rg_world fs d3 u3 /\
      monotone (g_removed (u_graph u1)) (g_removed (u_graph u2)) /\
      monotone (g_removed (u_graph u2)) (g_removed (u_graph u3)).
  Proof.
    destruct (late_reach rs1 []) as (u1 & _ & E1 & G1 & _).
    destruct (late_reach (rs1 ++ rs1') rs2) as (v1 & u2 & F1 & H1 & E2 & Hi2 & Hw2 & _ & M12).
    destruct (attached_run I b g0 Hsc Hb fs rm_m rm_j rs2' _ u2 Hi2 Hw2) as (u3 & E3 & _ & _ & _ & M23).
    exists (after1 rs1), u1, (fold_left (apply_req I) ((rs1 ++ rs1') ++ rs2) (init_d I)), u2,
      (fold_left (apply_req I) rs2' (fold_left (apply_req I) ((rs1 ++ rs1') ++ rs2) (init_d I))), u3.
    split; [exact E1|]. split; [exact E2|]. split.
    - unfold c17_late_run, run_from in *. rewrite (fold_left_app (step_req rgu rgu_update I)), E2. exact E3.
    - split; [|exact M23]. rewrite G1, <- H1. exact M12.
  Qed.

  (** (d) once an accepted request has been notified to the updater *)
  Theorem f_late_completed_removed rs1 rs2 :
    exists d u, c17_late_run I fs ps rm_m rm_j g0 rs1 rs2 = rg_world fs d u /\
                d = fold_left (apply_req I) (rs1 ++ rs2) (init_d I) /\
                (accepted_sops I (fold_left (apply_req I) rs1 (init_d I)) rs2 <> [] ->
                 completed_removed I fs (u_graph u) d).
  Proof.
    destruct (late_reach rs1 rs2) as (u1 & u & _ & _ & E & Hi & _ & HR & _).
    exists (fold_left (apply_req I) (rs1 ++ rs2) (init_d I)), u.
    split; [exact E|]. split; [reflexivity|]. intros Hacc.
    pose proof (HR Hacc) as Hr. eapply cl_completed_removed; eauto.
  Qed.

  Theorem f_late_all_removed rs1 rs2 :
    rm_m = true -> rm_j = true -> every_machine_used I -> I <> [] ->
    exists d u, c17_late_run I fs ps rm_m rm_j g0 rs1 rs2 = rg_world fs d u /\
                d = fold_left (apply_req I) (rs1 ++ rs2) (init_d I) /\
                (accepted_sops I (fold_left (apply_req I) rs1 (init_d I)) rs2 <> [] ->
                 complete I (sched d) -> all_removed (u_graph u)).
  Proof.
    intros H1 H2 H3 H4. destruct (late_reach rs1 rs2) as (u1 & u & _ & _ & E & Hi & _ & HR & _).
    exists (fold_left (apply_req I) (rs1 ++ rs2) (init_d I)), u.
    split; [exact E|]. split; [reflexivity|]. intros Hacc Hc.
    pose proof (HR Hacc) as Hr. eapply cl_all_removed; eauto.
  Qed.
End LateFinal.
