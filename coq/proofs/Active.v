(** Active.v — C08: pruning dominated operations never loses the optimum.
    A Giffler-Thompson style simulation: given ANY feasible complete assignment
    [A] (start and machine of every operation) and a dispatcher state that [A]
    extends, some AVAILABLE (non-dominated) operation can be dispatched so that
    a feasible complete assignment with no larger completion times still extends
    the new state. *)
From JSL Require Import Base Instance Dstate Filters World Feasible ListFacts DispatchFun Inv Run Derived Tracking
     Partition Replay FilterSpec FilterFacts Sublist NoDeadlock Clock Search OpIds.
From Coq Require Import Lia.

Definition asg := nat * nat -> Z * nat.
Definition t_start (A : asg) (k : nat * nat) : Z := fst (A k).
Definition t_mach (A : asg) (k : nat * nat) : nat := snd (A k).
Definition t_end (I : instance) (A : asg) (k : nat * nat) : Z := t_start A k + kdur I k.
Definition valid_key (I : instance) (k : nat * nat) : Prop := exists o, kop I k = Some o.
Definition unsched (d : dstate) (k : nat * nat) : Prop := (nthN (jnext d) (fst k) <= snd k)%nat.

Record AFeas (I : instance) (A : asg) : Prop := {
  af_elig : forall k o, kop I k = Some o -> In (t_mach A k) (machines o);
  af_nonneg : forall k, valid_key I k -> 0 <= t_start A k;
  af_job : forall j p, valid_key I (j, S p) -> t_end I A (j, p) <= t_start A (j, S p);
  af_mach : forall k1 k2, valid_key I k1 -> valid_key I k2 -> k1 <> k2 -> t_mach A k1 = t_mach A k2 ->
              t_end I A k1 <= t_start A k2 \/ t_end I A k2 <= t_start A k1
}.
Definition Abound (I : instance) (A : asg) (c : Z) : Prop := forall k, valid_key I k -> t_end I A k <= c.
Definition Ext (A : asg) (d : dstate) : Prop :=
  forall x, In x (all_sops (sched d)) -> A (key x) = (s_start x, s_mach x).
Definition MP (I : instance) (A : asg) (d : dstate) : Prop :=
  forall x k, In x (all_sops (sched d)) -> valid_key I k -> unsched d k -> t_mach A k = s_mach x ->
              s_end I x <= t_start A k.

Definition set_asg (A : asg) (k : nat * nat) (v : Z * nat) : asg :=
  fun k' => if eqb_key k' k then v else A k'.

Lemma set_asg_same A k v : set_asg A k v k = v.
Proof. unfold set_asg. rewrite (proj2 (eqb_key_eq k k) eq_refl). reflexivity. Qed.
Lemma set_asg_other A k v k' : k' <> k -> set_asg A k v k' = A k'.
Proof.
  intros H. unfold set_asg. destruct (eqb_key k' k) eqn:E; [apply eqb_key_eq in E; contradiction|reflexivity].
Qed.

Lemma valid_key_pred I j p : valid_key I (j, S p) -> valid_key I (j, p).
Proof.
  intros (o & Ho). unfold valid_key, kop, get_op in *. cbn [fst snd] in *.
  destruct (nth_error I j) as [job|]; [|discriminate].
  assert (Hlt : (S p < length job)%nat) by (apply nth_error_Some; rewrite Ho; discriminate).
  destruct (nth_error job p) as [o'|] eqn:E; [eauto|apply nth_error_None in E; lia].
Qed.

Lemma argmin {X} (f : X -> Z) (l : list X) : l <> [] -> exists x, In x l /\ forall y, In y l -> f x <= f y.
Proof.
  induction l as [|a t IH]; intros Hne; [congruence|]. destruct t as [|b t'].
  - exists a. split; [left; reflexivity|]. intros y [<-|[]]. lia.
  - destruct IH as (x & Hx & Hmin); [discriminate|]. destruct (Z_le_dec (f a) (f x)) as [H|H].
    + exists a. split; [left; reflexivity|]. intros y [<-|Hy]; [lia|]. specialize (Hmin y Hy). lia.
    + exists x. split; [right; exact Hx|]. intros y [<-|Hy]; [lia|]. apply Hmin; exact Hy.
Qed.

Lemma In_choices I L k m : In (k, m) (choices I L) <-> In k L /\ In m (kmachines I k).
Proof.
  unfold choices. rewrite in_flat_map. split.
  - intros (k' & Hk' & Hin). apply in_map_iff in Hin. destruct Hin as (m' & E & Hm'). inversion E; subst. auto.
  - intros [Hk Hm]. exists k. split; [exact Hk|]. apply in_map. exact Hm.
Qed.

Section Step.
  Variable I : instance.
  Hypothesis Hpos : positive I.
  Variable d : dstate.
  Hypothesis Hi : Inv I d.
  Variable A : asg.
  Hypothesis Hf : AFeas I A.
  Hypothesis He : Ext A d.
  Hypothesis Hmp : MP I A d.

  Let Hv : valid I. Proof. intros j p o Ho. destruct (Hpos j p o Ho). lia. Qed.
  Let Hm : has_machines I. Proof. intros j p o Ho. destruct (Hpos j p o Ho). assumption. Qed.

  Lemma kdur_pos k : valid_key I k -> 0 < kdur I k.
  Proof. intros (o & Ho). unfold kdur. rewrite Ho. unfold kop in Ho. destruct (Hpos _ _ _ Ho). assumption. Qed.

  (** the job's clock is the completion, in [A], of the last scheduled operation *)
  Lemma jfree_is_pred_end j p :
    nthN (jnext d) j = S p -> nthZ (jfree d) j = t_end I A (j, p).
  Proof.
    intros Hn. destruct (i_jfree _ _ Hi j) as [[H0 _]|(x & Hx & Hk & _ & Hfr)]; [lia|].
    rewrite Hn in Hk. simpl in Hk. rewrite Hfr. unfold t_end, t_start. rewrite <- Hk, (He x Hx). simpl.
    unfold s_end, dur, kdur, kop. unfold key. simpl. reflexivity.
  Qed.

  (** starts (hence ends) do not decrease along a job in a feasible assignment *)
  Lemma job_chain j p q : (p <= q)%nat -> valid_key I (j, q) -> t_end I A (j, p) <= t_end I A (j, q).
  Proof.
    induction q as [|q IH]; intros Hle Hq.
    - assert (p = 0%nat) by lia. subst. lia.
    - destruct (Nat.eq_dec p (S q)) as [->|Hne]; [lia|].
      pose proof (IH ltac:(lia) (valid_key_pred I j q Hq)) as H1.
      pose proof (af_job _ _ Hf j q Hq) as H2. pose proof (kdur_pos (j, S q) Hq). unfold t_end in *. lia.
  Qed.

  (** an unscheduled operation starts, in [A], no earlier than its [A]-machine is free now *)
  Lemma start_ge_mfree k : valid_key I k -> unsched d k -> nthZ (mfree d) (t_mach A k) <= t_start A k.
  Proof.
    intros Hk Hu. set (m := t_mach A k). pose proof (af_nonneg _ _ Hf k Hk) as Hnn.
    destruct (nth_error (sched d) m) as [row|] eqn:Hrow.
    - destruct (i_rows _ _ Hi m row Hrow) as (_ & Hmach & Hl). rewrite <- Hl. unfold last_end.
      destruct (last_opt row) as [y|] eqn:Ey; [|exact Hnn].
      apply last_opt_In in Ey. apply (Hmp y k); auto.
      + apply In_concat_nth_error. eauto.
      + rewrite (Hmach y Ey). reflexivity.
    - apply nth_error_None in Hrow. rewrite (i_len_sc _ _ Hi), <- (i_len_mf _ _ Hi) in Hrow.
      unfold nthZ. rewrite nth_overflow by exact Hrow. exact Hnn.
  Qed.

  (** ... and no earlier than its job is free now *)
  Lemma start_ge_jfree j p : valid_key I (j, p) -> unsched d (j, p) -> nthZ (jfree d) j <= t_start A (j, p).
  Proof.
    intros Hk Hu. unfold unsched in Hu. simpl in Hu.
    destruct (nthN (jnext d) j) as [|q] eqn:En.
    - destruct (i_jfree _ _ Hi j) as [[_ H0]|(x & _ & _ & Hp & _)]; [|lia].
      rewrite H0. apply (af_nonneg _ _ Hf _ Hk).
    - rewrite (jfree_is_pred_end j q En).
      destruct p as [|p]; [lia|].
      pose proof (job_chain j q p ltac:(lia) (valid_key_pred I j p Hk)) as H1.
      pose proof (af_job _ _ Hf j p Hk) as H2. lia.
  Qed.

  Lemma start_ge_now k :
    valid_key I k -> unsched d k -> start_time d (fst k) (t_mach A k) <= t_start A k.
  Proof.
    intros Hk Hu. unfold start_time. destruct k as [j p]. simpl.
    pose proof (start_ge_mfree (j, p) Hk Hu). pose proof (start_ge_jfree j p Hk Hu). lia.
  Qed.

  (** *** dispatching a ready operation [k] on an eligible machine [m] *)
  Section Move.
    Variables (j p m : nat).
    Hypothesis Hr : In (j, p) (raw_ready I d).
    Hypothesis Hel : In m (kmachines I (j, p)).

    Let k := (j, p).
    Let a := start_time d j m.
    Let x := mksop j p a m.
    Let d' := apply_sop I d x (row_of d x).
    Let A' := set_asg A k (a, m).

    Lemma k_valid : valid_key I k.
    Proof. destruct (raw_ready_ok I Hm d Hi k Hr) as (o & Ho & _). exists o. exact Ho. Qed.

    Lemma k_next : nthN (jnext d) j = p.
    Proof. apply (In_raw_ready I d Hi) in Hr. destruct Hr as (_ & Hp & _). symmetry; exact Hp. Qed.

    Lemma move_accepted : exists o, accepted I d (mkreq j p (Some (Z.of_nat m))) x o (row_of d x).
    Proof.
      destruct (ready_dispatchable I Hm d Hi j p m Hr Hel) as (x0 & Hx0 & Hj & Hp & Hmx).
      destruct (sop_of_request_accepted I d _ x0 Hx0) as (o & Ha). exists o.
      assert (x0 = x).
      { pose proof (a_start _ _ _ _ _ _ Ha) as Hs. cbn [r_job] in Hs.
        destruct x0 as [j0 p0 s0 m0]. simpl in *. subst. unfold x, a. reflexivity. }
      subst x0. exact Ha.
    Qed.

    Lemma Inv_move : Inv I d'.
    Proof. destruct move_accepted as (o & Ha). eapply Inv_apply_sop; eauto. Qed.

    Lemma sops_move y : In y (all_sops (sched d')) <-> y = x \/ In y (all_sops (sched d)).
    Proof.
      destruct move_accepted as (o & Ha). unfold d', apply_sop. cbn [sched].
      pose proof (concat_upd_perm (sched d) (s_mach x) (row_of d x) x (a_row _ _ _ _ _ _ Ha)) as Hp.
      split; intros H.
      - apply (Permutation.Permutation_in _ Hp) in H. destruct H; auto.
      - apply (Permutation.Permutation_in _ (Permutation.Permutation_sym Hp)). destruct H; [left; auto|right; auto].
    Qed.

    Lemma unsched_move k2 : unsched d' k2 <-> unsched d k2 /\ k2 <> k.
    Proof.
      unfold unsched, d', apply_sop. cbn [jnext s_job x].
      assert (Hlen : (j < length (jnext d))%nat).
      { rewrite (i_len_jn _ _ Hi). apply (In_raw_ready I d Hi) in Hr. tauto. }
      rewrite nthN_upd by exact Hlen. destruct k2 as [j2 p2]. cbn [fst snd].
      destruct (j2 =? j)%nat eqn:E.
      - apply Nat.eqb_eq in E. subst j2. rewrite k_next. unfold k. split.
        + intros H. split; [lia|]. intro Hk. inversion Hk. lia.
        + intros [H Hne]. assert (p2 <> p) by (intro; subst; apply Hne; reflexivity). lia.
      - apply Nat.eqb_neq in E. split; [intros H; split; [exact H|intro Hk; inversion Hk; contradiction]|tauto].
    Qed.

    Lemma scheduled_not_k y : In y (all_sops (sched d)) -> key y <> k.
    Proof.
      intros Hy Hk. destruct (i_sop _ _ Hi y Hy) as (_ & Hlt & _).
      unfold key, k in Hk. inversion Hk as [[Hj Hp]]. rewrite Hj, k_next, Hp in Hlt. lia.
    Qed.

    (** if the completion of [k] does not grow and nothing unscheduled on [m]
        starts, in [A], before [k] would complete there, the move is sound *)
    Hypothesis G1 : a + kdur I k <= t_end I A k.
    Hypothesis G2 : forall k2, valid_key I k2 -> unsched d k2 -> k2 <> k -> t_mach A k2 = m ->
                               a + kdur I k <= t_start A k2.

    Lemma a_nonneg : 0 <= a.
    Proof. unfold a, start_time. pose proof (i_nonneg_mf _ _ Hi m). lia. Qed.

    Lemma AFeas_move : AFeas I A'.
    Proof.
      constructor.
      - intros k0 o Ho. unfold t_mach, A', set_asg. destruct (eqb_key k0 k) eqn:E.
        + apply eqb_key_eq in E. subst k0. simpl. unfold kmachines in Hel. fold k in Hel. rewrite Ho in Hel. exact Hel.
        + apply (af_elig _ _ Hf k0 o Ho).
      - intros k0 Hk0. unfold t_start, A', set_asg. destruct (eqb_key k0 k); [simpl; apply a_nonneg|].
        apply (af_nonneg _ _ Hf k0 Hk0).
      - intros j0 p0 Hs. unfold t_end, t_start, A', set_asg.
        destruct (eqb_key (j0, p0) k) eqn:E1; destruct (eqb_key (j0, S p0) k) eqn:E2.
        + apply eqb_key_eq in E1, E2. unfold k in *. inversion E1; inversion E2; lia.
        + apply eqb_key_eq in E1. unfold k in E1. inversion E1 as [[Hj Hp]]. subst j0 p0. cbn [fst].
          pose proof (af_job _ _ Hf j p Hs) as H. pose proof G1 as G1'. unfold t_end, t_start, k in *. cbn [fst] in *. lia.
        + apply eqb_key_eq in E2. unfold k in E2. inversion E2 as [[Hj Hp]]. subst j0. cbn [fst].
          pose proof k_next as Hn. rewrite <- Hp in Hn. pose proof (jfree_is_pred_end j p0 Hn) as Hjf.
          unfold t_end, t_start in Hjf. unfold a, start_time. lia.
        + apply (af_job _ _ Hf j0 p0 Hs).
      - intros k1 k2 H1 H2 Hne Hmm.
        assert (Hcase : forall kk, valid_key I kk -> kk <> k -> t_mach A kk = m ->
                  a + kdur I k <= t_start A kk \/ t_end I A kk <= a).
        { intros kk Hkk Hnek Hmk. destruct (le_lt_dec (nthN (jnext d) (fst kk)) (snd kk)) as [Hu|Hs].
          - left. apply G2; assumption.
          - right. destruct kk as [j2 p2]. cbn [fst snd] in Hs.
            destruct (i_prefix _ _ Hi j2 p2 Hs) as (y & Hy & Hky).
            destruct (i_sop _ _ Hi y Hy) as (_ & _ & _ & _ & Hmf).
            pose proof (He y Hy) as HA. rewrite Hky in HA.
            unfold t_mach in Hmk. rewrite HA in Hmk. simpl in Hmk.
            unfold t_end, t_start. rewrite HA. simpl.
            assert (Hd : kdur I (j2, p2) = dur I y).
            { unfold kdur, dur, kop. unfold key in Hky. inversion Hky. reflexivity. }
            rewrite Hd. fold (s_end I y). rewrite Hmk in Hmf. unfold a, start_time. lia. }
        unfold t_mach, t_end, t_start, A', set_asg in *.
        destruct (eqb_key k1 k) eqn:E1; destruct (eqb_key k2 k) eqn:E2.
        + apply eqb_key_eq in E1, E2. congruence.
        + apply eqb_key_eq in E1. subst k1. simpl in *.
          destruct (Hcase k2 H2 ltac:(congruence) ltac:(symmetry; exact Hmm)) as [H|H]; [left|right]; exact H.
        + apply eqb_key_eq in E2. subst k2. simpl in *.
          destruct (Hcase k1 H1 ltac:(exact Hne) Hmm) as [H|H]; [right|left]; exact H.
        + apply (af_mach _ _ Hf k1 k2 H1 H2 Hne Hmm).
    Qed.

    Lemma Ext_move : Ext A' d'.
    Proof.
      intros y Hy. apply sops_move in Hy. destruct Hy as [->|Hy].
      - unfold x, key. simpl. fold k. unfold A'. apply set_asg_same.
      - unfold A'. rewrite set_asg_other by (apply scheduled_not_k; exact Hy). apply He; exact Hy.
    Qed.

    Lemma MP_move : MP I A' d'.
    Proof.
      intros y k2 Hy Hk2 Hu Hmm. apply unsched_move in Hu. destruct Hu as [Hu Hne].
      unfold t_mach, t_start, A' in *. rewrite set_asg_other in * by exact Hne.
      apply sops_move in Hy. destruct Hy as [->|Hy].
      - unfold s_end, dur. cbn [s_start s_job s_pos x]. fold (kdur I (j, p)). fold k.
        apply G2; auto.
      - apply (Hmp y k2 Hy Hk2 Hu Hmm).
    Qed.

    Lemma Abound_move c : Abound I A c -> Abound I A' c.
    Proof.
      intros Hb k0 Hk0. unfold t_end, t_start, A', set_asg. destruct (eqb_key k0 k) eqn:E.
      - apply eqb_key_eq in E. subst k0. simpl. pose proof (Hb k k_valid). lia.
      - apply (Hb k0 Hk0).
    Qed.
  End Move.

  (** *** the Giffler-Thompson choice *)
  Let L := raw_ready I d.
  Definition comp (c : (nat * nat) * nat) : Z := start_time d (fst (fst c)) (snd c) + kdur I (fst c).

  Lemma ready_unsched j p : In (j, p) L -> valid_key I (j, p) /\ unsched d (j, p).
  Proof.
    intros H. split; [destruct (raw_ready_ok I Hm d Hi _ H) as (o & Ho & _); exists o; exact Ho|].
    apply (In_raw_ready I d Hi) in H. unfold unsched. simpl. lia.
  Qed.

  Lemma valid_key_le j p q : (q <= p)%nat -> valid_key I (j, p) -> valid_key I (j, q).
  Proof.
    intros Hle. induction p as [|p IH]; intros H; [assert (q = 0%nat) by lia; subst; exact H|].
    destruct (Nat.eq_dec q (S p)) as [->|Hne]; [exact H|]. apply IH; [lia|apply valid_key_pred; exact H].
  Qed.

  Lemma ready_of_unsched j p :
    valid_key I (j, p) -> unsched d (j, p) -> In (j, nthN (jnext d) j) L /\ (nthN (jnext d) j <= p)%nat.
  Proof.
    intros Hk Hu. unfold unsched in Hu. simpl in Hu. split; [|exact Hu].
    pose proof (valid_key_le j p _ Hu Hk) as (o & Ho). unfold kop in Ho. simpl in Ho.
    destruct (get_op_bounds _ _ _ _ Ho) as [Hj Hp]. apply (In_raw_ready I d Hi). auto.
  Qed.

  Section Choice.
    Variables (ks : nat * nat) (ms : nat).
    Hypothesis Hks : In (ks, ms) (choices I L).
    Hypothesis Hmin : forall c, In c (choices I L) -> comp (ks, ms) <= comp c.
    Let cs := comp (ks, ms).

    Lemma ready_end_ge r : In r L -> cs <= t_end I A r.
    Proof.
      intros Hr. destruct r as [j p]. destruct (ready_unsched j p Hr) as [Hk Hu].
      pose proof (start_ge_now (j, p) Hk Hu) as H. destruct Hk as (o & Ho).
      assert (Hin : In ((j, p), t_mach A (j, p)) (choices I L)).
      { apply In_choices. split; [exact Hr|]. unfold kmachines. rewrite Ho. apply (af_elig _ _ Hf _ o Ho). }
      specialize (Hmin _ Hin). unfold cs, comp, t_end in *. cbn [fst snd] in *. lia.
    Qed.

    Lemma unsched_end_ge k2 : valid_key I k2 -> unsched d k2 -> cs <= t_end I A k2.
    Proof.
      destruct k2 as [j p]. intros Hk Hu. destruct (ready_of_unsched j p Hk Hu) as [Hr Hle].
      pose proof (ready_end_ge _ Hr). pose proof (job_chain j _ p Hle Hk). lia.
    Qed.

    Lemma completions_ge e : In e (completions_on I d L ms) -> cs <= e.
    Proof.
      intros He'. apply (In_completions I d L) in He'. destruct He' as (k' & Hk' & Hm' & ->).
      apply (Hmin (k', ms)). apply In_choices. split; assumption.
    Qed.

    Lemma avail_if_starts_before j p :
      In (j, p) L -> In ms (kmachines I (j, p)) -> start_time d j ms < cs ->
      In (j, p) (available I d [FDominated]).
    Proof.
      intros Hr Hel Hlt. unfold available, apply_filters. cbn [fold_left apply_filter]. fold L.
      rewrite (dominated_is_filter I d L). unfold spec_filter.
      assert (Ez : first_zero I L = None).
      { unfold first_zero. destruct (find (fun k0 => kdur I k0 =? 0) L) as [z|] eqn:E; [|reflexivity].
        apply find_some in E. destruct E as [Hz Hd]. apply Z.eqb_eq in Hd. destruct z as [jz pz].
        destruct (ready_unsched jz pz Hz) as [Hvz _]. pose proof (kdur_pos _ Hvz). lia. }
      rewrite Ez. apply filter_In. split; [exact Hr|]. unfold crit_of, crit_not_dominated.
      apply existsb_exists. exists ms. split; [exact Hel|]. apply forallb_forall. intros e He'.
      apply Z.ltb_lt. pose proof (completions_ge e He'). cbn [fst]. lia.
    Qed.
  End Choice.

  Theorem gt_step c :
    Abound I A c -> ~ complete I (sched d) ->
    exists j p m A',
      In (j, p) (available I d [FDominated]) /\ In m (kmachines I (j, p)) /\
      let x := mksop j p (start_time d j m) m in
      let d' := apply_sop I d x (row_of d x) in
      Inv I d' /\ AFeas I A' /\ Ext A' d' /\ MP I A' d' /\ Abound I A' c.
  Proof.
    intros Hb Hnc.
    assert (HLne : L <> []) by (apply (raw_ready_nonempty I d Hi Hnc)).
    assert (Hcne : choices I L <> []).
    { destruct (nonempty_in _ HLne) as (k & Hk). destruct (raw_ready_ok I Hm d Hi k Hk) as (o & Ho & Hmo).
      destruct (machines o) as [|m0 ms0] eqn:Em; [congruence|]. intro H0.
      assert (Hin : In (k, m0) (choices I L)) by (apply In_choices; split; [exact Hk|unfold kmachines; rewrite Ho, Em; left; reflexivity]).
      rewrite H0 in Hin. contradiction. }
    destruct (argmin comp _ Hcne) as ([ks ms] & Hks & Hmin).
    set (cs := comp (ks, ms)).
    destruct ks as [js ps]. pose proof (proj1 (In_choices I L _ _) Hks) as [HksL Hksm].
    set (U := filter (fun k2 => (nthN (jnext d) (fst k2) <=? snd k2)%nat && (t_mach A k2 =? ms)%nat && (t_start A k2 <? cs))
                     (all_keys I)).
    assert (HU : forall k2, In k2 U <-> valid_key I k2 /\ unsched d k2 /\ t_mach A k2 = ms /\ t_start A k2 < cs).
    { intros [j2 p2]. unfold U. rewrite filter_In, !andb_true_iff, Nat.leb_le, Nat.eqb_eq, Z.ltb_lt, In_all_keys.
      unfold valid_key, kop, unsched. cbn [fst snd]. tauto. }
    destruct U as [|u0 Urest] eqn:EU.
    - (* nothing unscheduled is planned on ms before cs: dispatch the earliest-completing pair itself *)
      exists js, ps, ms, (set_asg A (js, ps) (start_time d js ms, ms)).
      assert (Hav : In (js, ps) (available I d [FDominated])).
      { apply (avail_if_starts_before (js, ps) ms Hmin js ps HksL Hksm).
        destruct (ready_unsched js ps HksL) as [Hvk _]. pose proof (kdur_pos _ Hvk). unfold comp. cbn [fst snd]. lia. }
      split; [exact Hav|]. split; [exact Hksm|]. cbv zeta.
      assert (G1 : start_time d js ms + kdur I (js, ps) <= t_end I A (js, ps))
        by (apply (ready_end_ge (js, ps) ms Hmin _ HksL)).
      assert (G2 : forall k2, valid_key I k2 -> unsched d k2 -> k2 <> (js, ps) -> t_mach A k2 = ms ->
                              start_time d js ms + kdur I (js, ps) <= t_start A k2).
      { intros k2 Hv2 Hu2 _ Hm2. destruct (Z_lt_dec (t_start A k2) cs) as [Hlt|Hge]; [|unfold cs, comp in Hge; cbn [fst snd] in Hge; lia].
        assert (Hin : In k2 []) by (apply HU; auto). contradiction. }
      split; [apply (Inv_move js ps ms HksL Hksm)|]. split; [apply (AFeas_move js ps ms HksL Hksm G1 G2)|].
      split; [apply (Ext_move js ps ms HksL Hksm)|]. split; [apply (MP_move js ps ms HksL Hksm G2)|].
      apply (Abound_move js ps ms HksL G1 c Hb).
    - (* some unscheduled operation is planned on ms before cs: take the one planned first *)
      assert (HUne : u0 :: Urest <> []) by discriminate.
      destruct (argmin (t_start A) _ HUne) as ([jz pz] & Hz & Hzmin).
      apply HU in Hz. destruct Hz as (Hvz & Huz & Hmz & Hltz).
      (* it is the next operation of its job *)
      destruct (ready_of_unsched jz pz Hvz Huz) as [Hrz Hlez].
      assert (Epz : pz = nthN (jnext d) jz).
      { destruct (Nat.eq_dec pz (nthN (jnext d) jz)) as [E|Hne]; [exact E|exfalso].
        destruct pz as [|pz']; [lia|].
        pose proof (ready_end_ge (js, ps) ms Hmin _ Hrz) as H1.
        pose proof (job_chain jz (nthN (jnext d) jz) pz' ltac:(lia) (valid_key_pred I jz pz' Hvz)) as H2.
        pose proof (af_job _ _ Hf jz pz' Hvz) as H3. fold cs in H1. lia. }
      rewrite <- Epz in Hrz.
      assert (Helz : In ms (kmachines I (jz, pz))).
      { destruct Hvz as (o & Ho). unfold kmachines. rewrite Ho. rewrite <- Hmz. apply (af_elig _ _ Hf _ o Ho). }
      pose proof (start_ge_now (jz, pz) Hvz Huz) as Hnow. rewrite Hmz in Hnow. cbn [fst] in Hnow.
      exists jz, pz, ms, (set_asg A (jz, pz) (start_time d jz ms, ms)).
      split; [apply (avail_if_starts_before (js, ps) ms Hmin jz pz Hrz Helz); fold cs; lia|].
      split; [exact Helz|]. cbv zeta.
      assert (G1 : start_time d jz ms + kdur I (jz, pz) <= t_end I A (jz, pz)) by (unfold t_end; lia).
      assert (G2 : forall k2, valid_key I k2 -> unsched d k2 -> k2 <> (jz, pz) -> t_mach A k2 = ms ->
                              start_time d jz ms + kdur I (jz, pz) <= t_start A k2).
      { intros k2 Hv2 Hu2 Hne2 Hm2.
        assert (Hord : t_start A (jz, pz) <= t_start A k2).
        { destruct (Z_lt_dec (t_start A k2) cs) as [Hlt|Hge]; [|lia].
          apply Hzmin. apply HU. auto. }
        destruct (af_mach _ _ Hf (jz, pz) k2 Hvz Hv2 ltac:(congruence) ltac:(congruence)) as [H|H].
        - unfold t_end in H. lia.
        - pose proof (kdur_pos k2 Hv2). unfold t_end in H. lia. }
      split; [apply (Inv_move jz pz ms Hrz Helz)|]. split; [apply (AFeas_move jz pz ms Hrz Helz G1 G2)|].
      split; [apply (Ext_move jz pz ms Hrz Helz)|]. split; [apply (MP_move jz pz ms Hrz Helz G2)|].
      apply (Abound_move jz pz ms Hrz G1 c Hb).
  Qed.
End Step.

(** ** from a feasible complete schedule to an assignment *)
Definition asg_of (S : schedule) : asg :=
  fun k => match find (fun x => eqb_key (key x) k) (all_sops S) with
           | Some x => (s_start x, s_mach x)
           | None => (0, 0%nat)
           end.

Lemma sorted_all_after I a t :
  row_sorted I (a :: t) -> (forall z, In z t -> 0 <= dur I z) -> forall z, In z t -> s_end I a <= s_start z.
Proof.
  revert a. induction t as [|b t' IH]; intros a Hs Hd z Hz; [contradiction|].
  cbn [row_sorted] in Hs. destruct Hs as [Hab Hs]. destruct Hz as [<-|Hz]; [exact Hab|].
  pose proof (IH b Hs (fun y Hy => Hd y (or_intror Hy)) z Hz). pose proof (Hd b (or_introl eq_refl)).
  unfold s_end in *. lia.
Qed.

Lemma sorted_pair I row x1 x2 :
  row_sorted I row -> (forall z, In z row -> 0 <= dur I z) -> In x1 row -> In x2 row -> x1 <> x2 ->
  s_end I x1 <= s_start x2 \/ s_end I x2 <= s_start x1.
Proof.
  induction row as [|a t IH]; intros Hs Hd H1 H2 Hne; [contradiction|].
  assert (Hd' : forall z, In z t -> 0 <= dur I z) by (intros z Hz; apply Hd; right; exact Hz).
  assert (Hs' : row_sorted I t) by (destruct t; [exact Logic.I|cbn [row_sorted] in Hs; tauto]).
  destruct H1 as [<-|H1], H2 as [<-|H2].
  - congruence.
  - left. apply (sorted_all_after I a t Hs Hd' x2 H2).
  - right. apply (sorted_all_after I a t Hs Hd' x1 H1).
  - apply IH; assumption.
Qed.

Section FromSchedule.
  Variable I : instance.
  Hypothesis Hv : valid I.
  Variable S : schedule.
  Hypothesis HfS : feasible I S.
  Hypothesis HcS : complete I S.

  Lemma asg_of_found k : valid_key I k ->
    exists x, In x (all_sops S) /\ key x = k /\ asg_of S k = (s_start x, s_mach x).
  Proof.
    intros (o & Ho). destruct k as [j p]. unfold kop in Ho. simpl in Ho.
    destruct (HcS j p o Ho) as (y & Hy & Hky). unfold asg_of.
    destruct (find (fun x => eqb_key (key x) (j, p)) (all_sops S)) as [x|] eqn:E.
    - apply find_some in E. destruct E as [Hx Hk]. apply eqb_key_eq in Hk. exists x. auto.
    - pose proof (find_none _ _ E y Hy) as Hn. cbv beta in Hn. rewrite (proj2 (eqb_key_eq _ _) Hky) in Hn. discriminate.
  Qed.

  Lemma dur_kdur x : dur I x = kdur I (key x).
  Proof. reflexivity. Qed.

  Lemma sop_dur_nonneg' x : In x (all_sops S) -> 0 <= dur I x.
  Proof.
    intros Hx. destruct (f_exists _ _ HfS x Hx) as (o & Ho & _). unfold dur. rewrite Ho. eapply Hv; eauto.
  Qed.

  Lemma AFeas_asg_of : AFeas I (asg_of S).
  Proof.
    constructor.
    - intros k o Ho. destruct (asg_of_found k (ex_intro _ o Ho)) as (x & Hx & Hk & HA).
      unfold t_mach. rewrite HA. simpl. destruct (f_exists _ _ HfS x Hx) as (o' & Ho' & Hin).
      unfold kop in Ho. rewrite <- Hk in Ho. unfold key in Ho. simpl in Ho. congruence.
    - intros k Hk. destruct (asg_of_found k Hk) as (x & Hx & _ & HA). unfold t_start. rewrite HA. simpl.
      apply (f_nonneg _ _ HfS x Hx).
    - intros j p Hs. destruct (asg_of_found _ Hs) as (x2 & Hx2 & Hk2 & HA2).
      destruct (asg_of_found _ (valid_key_pred I j p Hs)) as (x1 & Hx1 & Hk1 & HA1).
      unfold t_end, t_start. rewrite HA1, HA2. simpl. rewrite <- Hk1, <- dur_kdur. fold (s_end I x1).
      unfold key in Hk1, Hk2. inversion Hk1; inversion Hk2. apply (f_job _ _ HfS x1 x2 Hx1 Hx2); lia.
    - intros k1 k2 H1 H2 Hne Hmm.
      destruct (asg_of_found k1 H1) as (x1 & Hx1 & Hk1 & HA1). destruct (asg_of_found k2 H2) as (x2 & Hx2 & Hk2 & HA2).
      unfold t_mach, t_end, t_start in *. rewrite HA1, HA2 in *. simpl in *.
      rewrite <- Hk1, <- Hk2, <- !dur_kdur. fold (s_end I x1). fold (s_end I x2).
      apply In_concat_nth_error in Hx1. destruct Hx1 as (m1 & r1 & Hr1 & Hi1).
      apply In_concat_nth_error in Hx2. destruct Hx2 as (m2 & r2 & Hr2 & Hi2).
      pose proof (f_row _ _ HfS m1 r1 x1 Hr1 Hi1) as E1. pose proof (f_row _ _ HfS m2 r2 x2 Hr2 Hi2) as E2.
      assert (Em : m1 = m2) by congruence. subst m2.
      assert (Er : r2 = r1) by congruence. subst r2.
      apply (sorted_pair I r1 x1 x2).
      + apply (f_machine _ _ HfS). eapply nth_error_In; eauto.
      + intros z Hz. apply sop_dur_nonneg'. apply In_concat_nth_error. eauto.
      + exact Hi1.
      + exact Hi2.
      + intro E. apply Hne. congruence.
  Qed.

  Lemma Abound_asg_of : Abound I (asg_of S) (makespan I S).
  Proof.
    intros k Hk. destruct (asg_of_found k Hk) as (x & Hx & Hkx & HA). unfold t_end, t_start. rewrite HA. simpl.
    rewrite <- Hkx, <- dur_kdur. fold (s_end I x). unfold makespan. apply maxZ0_ge. apply in_map. exact Hx.
  Qed.
End FromSchedule.

(** ** the search over filtered histories *)
Lemma min_optZ_le l c : In (Some c) l -> exists c', min_optZ l = Some c' /\ c' <= c.
Proof.
  induction l as [|[x|] t IH]; intros H; [contradiction| |].
  - simpl. destruct H as [E|H].
    + inversion E; subst x. destruct (min_optZ t) as [y|]; eexists; split; try reflexivity; lia.
    + destruct (IH H) as (c' & -> & Hle). eexists; split; [reflexivity|]. lia.
  - simpl. destruct H as [E|H]; [discriminate|]. apply IH; exact H.
Qed.

Lemma min_optZ_in l c : min_optZ l = Some c -> In (Some c) l.
Proof.
  revert c. induction l as [|[x|] t IH]; intros c H; simpl in *; [discriminate| |right; apply IH; exact H].
  destruct (min_optZ t) as [y|] eqn:E.
  - inversion H; subst c. destruct (Z.min_spec x y) as [[_ ->]|[_ ->]]; [left; reflexivity|right; apply IH; reflexivity].
  - inversion H; subst c. left; reflexivity.
Qed.

Lemma sumN_pointwise (a b : list nat) :
  length a = length b -> (forall i, nth i a 0 <= nth i b 0)%nat -> (sumN a <= sumN b)%nat.
Proof.
  revert b. induction a as [|u a IH]; intros [|v b] Hl Hle; simpl in *; try discriminate; [lia|].
  specialize (IH b ltac:(lia) (fun k => Hle (S k))). specialize (Hle 0%nat). simpl in Hle. lia.
Qed.

Lemma not_complete_lt I d : Inv I d -> ~ complete I (sched d) -> (sumN (jnext d) < num_ops I)%nat.
Proof.
  intros Hi Hnc.
  assert (Hle : (sumN (jnext d) <= num_ops I)%nat).
  { rewrite num_ops_sumN. apply sumN_pointwise.
    - rewrite map_length. apply (i_len_jn _ _ Hi).
    - intros i. rewrite nth_map_length. apply (i_bound _ _ Hi). }
  destruct (Nat.eq_dec (sumN (jnext d)) (num_ops I)) as [E|Hne]; [|lia].
  exfalso. apply Hnc. apply (Inv_complete_iff _ _ Hi). exact E.
Qed.

Section SearchFacts.
  Variable I : instance.
  Hypothesis Hpos : positive I.

  Let Hv : valid I. Proof. intros j p o Ho. destruct (Hpos j p o Ho). lia. Qed.
  Let Hm : has_machines I. Proof. intros j p o Ho. destruct (Hpos j p o Ho). assumption. Qed.

  (** a chosen available operation on an eligible machine is dispatched as expected *)
  Lemma choice_step_core (w : world unit) fs j p m :
    Inv I (core w) -> In (j, p) (available I (core w) fs) -> In m (kmachines I (j, p)) ->
    core (choice_step I w ((j, p), m)) =
    apply_sop I (core w) (mksop j p (start_time (core w) j m) m)
              (row_of (core w) (mksop j p (start_time (core w) j m) m)) /\
    sumN (jnext (core (choice_step I w ((j, p), m)))) = Datatypes.S (sumN (jnext (core w))).
  Proof.
    intros Hi Hav Hel.
    assert (Hr : In (j, p) (raw_ready I (core w)))
      by (eapply sublist_In; [apply (available_sublist_ready I Hv Hm (core w) Hi fs)|exact Hav]).
    unfold choice_step. cbn [fst snd].
    change (fst (dispatch no_update I (mkreq j p (Some (Z.of_nat m))) w))
      with (step_req unit no_update I w (mkreq j p (Some (Z.of_nat m)))).
    destruct (move_accepted I Hpos (core w) Hi j p m Hr Hel) as (o & Ha).
    destruct (ready_dispatchable I Hm (core w) Hi j p m Hr Hel) as (x0 & Hx0 & Hj0 & Hp0 & Hm0).
    assert (Ex : x0 = mksop j p (start_time (core w) j m) m).
    { destruct (sop_of_request_accepted I (core w) _ x0 Hx0) as (o0 & Ha0).
      pose proof (a_start _ _ _ _ _ _ Ha0) as Hs. cbn [r_job] in Hs.
      destruct x0 as [j0 p0 s0 m0]. simpl in *. subst. reflexivity. }
    rewrite step_req_sop, Hx0, Ex. cbn [core after]. split; [reflexivity|].
    unfold apply_sop. cbn [jnext s_job]. unfold nthN. apply sumN_upd_S.
    rewrite (i_len_jn _ _ Hi). apply (In_raw_ready I (core w) Hi) in Hr. tauto.
  Qed.

  Lemma ready_not_complete d : Inv I d -> raw_ready I d <> [] -> ~ complete I (sched d).
  Proof.
    intros Hi Hne Hc. destruct (nonempty_in _ Hne) as ([j p] & Hr). apply (In_raw_ready I d Hi) in Hr.
    destruct Hr as (_ & Hp & Hlt).
    pose proof (proj1 (Inv_all_scheduled_iff _ _ Hi) (proj1 (Inv_complete_iff _ _ Hi) Hc) j). lia.
  Qed.

  (** C08, search form: for ANY feasible complete assignment extending the
      current state, the filtered search finds a makespan that is no larger. *)
  Theorem search_dominates fuel : forall (w : world unit) (A : asg) (c : Z),
    Inv I (core w) -> AFeas I A -> Ext A (core w) -> MP I A (core w) -> Abound I A c -> 0 <= c ->
    (num_ops I - sumN (jnext (core w)) < fuel)%nat ->
    exists c', best_makespan [FDominated] fuel I w = Some c' /\ c' <= c.
  Proof.
    induction fuel as [|f IH]; intros w A c Hi Hf He Hmp Hb Hc0 Hfuel; [lia|].
    cbn [best_makespan]. destruct (raw_ready I (core w)) as [|k0 rest] eqn:ER.
    - (* nothing ready: the schedule is complete and every end is bounded by c *)
      assert (Hcomp : is_complete I (sched (core w)) = true).
      { destruct (is_complete I (sched (core w))) eqn:E; [reflexivity|exfalso].
        assert (Hnc : ~ complete I (sched (core w))) by (intro H; apply (is_complete_spec _ _ Hi) in H; congruence).
        apply (raw_ready_nonempty I (core w) Hi Hnc). exact ER. }
      rewrite Hcomp. eexists. split; [reflexivity|].
      rewrite (makespan_derived I (core w) Hi). unfold sp_makespan. apply maxZ0_ub; [exact Hc0|].
      intros z Hz. apply in_map_iff in Hz. destruct Hz as (x & <- & Hx).
      destruct (i_sop _ _ Hi x Hx) as ((o & Ho & _) & _).
      assert (Hk : valid_key I (key x)) by (exists o; exact Ho).
      pose proof (Hb (key x) Hk) as Hle. unfold t_end, t_start in Hle. rewrite (He x Hx) in Hle. simpl in Hle.
      unfold s_end. rewrite dur_kdur. exact Hle.
    - assert (Hnc : ~ complete I (sched (core w))) by (apply ready_not_complete; [exact Hi|rewrite ER; discriminate]).
      destruct (gt_step I Hpos (core w) Hi A Hf He Hmp c Hb Hnc) as (j & p & m & A' & Hav & Hel & Hrest).
      cbv zeta in Hrest. destruct Hrest as (Hi' & Hf' & He' & Hmp' & Hb').
      destruct (choice_step_core w [FDominated] j p m Hi Hav Hel) as [Ecore Ecount].
      rewrite <- Ecore in Hi', He', Hmp'.
      pose proof (not_complete_lt I (core w) Hi Hnc) as Hlt.
      destruct (IH (choice_step I w ((j, p), m)) A' c Hi' Hf' He' Hmp' Hb' Hc0 ltac:(lia)) as (c2 & E2 & Hle2).
      assert (Hin : In (Some c2) (map (fun ch => best_makespan [FDominated] f I (choice_step I w ch))
                                      (choices I (available I (core w) [FDominated])))).
      { apply in_map_iff. exists ((j, p), m). split; [exact E2|]. apply In_choices. split; assumption. }
      destruct (min_optZ_le _ _ Hin) as (c' & Ec' & Hle'). exists c'. split; [exact Ec'|lia].
  Qed.

  (** whatever the search returns is the makespan of a reachable complete schedule *)
  Theorem search_sound fs fuel : forall (w : world unit) c,
    Inv I (core w) -> best_makespan fs fuel I w = Some c ->
    exists d', Inv I d' /\ complete I (sched d') /\ makespan I (sched d') = c.
  Proof.
    induction fuel as [|f IH]; intros w c Hi H; [discriminate|]. cbn [best_makespan] in H.
    destruct (raw_ready I (core w)) as [|k0 rest] eqn:ER.
    - destruct (is_complete I (sched (core w))) eqn:E; [|discriminate]. inversion H; subst c.
      exists (core w). split; [exact Hi|]. split; [apply (is_complete_spec _ _ Hi); exact E|].
      symmetry. apply (makespan_derived I (core w) Hi).
    - apply min_optZ_in in H. apply in_map_iff in H. destruct H as (ch & Ech & _).
      apply (IH (choice_step I w ch) c); [|exact Ech].
      unfold choice_step. apply (step_req_Inv unit no_update I w _ Hv Hi).
  Qed.

  (** the filtered search always finds a complete schedule (no deadlock) *)
  Theorem search_total fs fuel : forall (w : world unit),
    Inv I (core w) -> (num_ops I - sumN (jnext (core w)) < fuel)%nat ->
    exists c, best_makespan fs fuel I w = Some c.
  Proof.
    induction fuel as [|f IH]; intros w Hi Hfuel; [lia|]. cbn [best_makespan].
    destruct (raw_ready I (core w)) as [|k0 rest] eqn:ER.
    - assert (Hcomp : is_complete I (sched (core w)) = true).
      { destruct (is_complete I (sched (core w))) eqn:E; [reflexivity|exfalso].
        assert (Hnc : ~ complete I (sched (core w))) by (intro H; apply (is_complete_spec _ _ Hi) in H; congruence).
        apply (raw_ready_nonempty I (core w) Hi Hnc). exact ER. }
      rewrite Hcomp. eauto.
    - assert (Hnc : ~ complete I (sched (core w))) by (apply ready_not_complete; [exact Hi|rewrite ER; discriminate]).
      pose proof (no_deadlock I Hv Hm (core w) Hi fs Hnc) as Hne.
      destruct (nonempty_in _ Hne) as ([j p] & Hav).
      assert (Hr : In (j, p) (raw_ready I (core w)))
        by (eapply sublist_In; [apply (available_sublist_ready I Hv Hm (core w) Hi fs)|exact Hav]).
      destruct (raw_ready_ok I Hm (core w) Hi _ Hr) as (o & Ho & Hmo).
      destruct (machines o) as [|m ms] eqn:Em; [congruence|].
      assert (Hel : In m (kmachines I (j, p))) by (unfold kmachines; rewrite Ho, Em; left; reflexivity).
      destruct (choice_step_core w fs j p m Hi Hav Hel) as [Ecore Ecount].
      assert (Hi' : Inv I (core (choice_step I w ((j, p), m)))).
      { unfold choice_step. apply (step_req_Inv unit no_update I w _ Hv Hi). }
      pose proof (not_complete_lt I (core w) Hi Hnc) as Hlt.
      destruct (IH (choice_step I w ((j, p), m)) Hi' ltac:(lia)) as (c2 & E2).
      assert (Hin : In (Some c2) (map (fun ch => best_makespan fs f I (choice_step I w ch))
                                      (choices I (available I (core w) fs)))).
      { apply in_map_iff. exists ((j, p), m). split; [exact E2|]. apply In_choices. split; assumption. }
      destruct (min_optZ_le _ _ Hin) as (c' & Ec' & _). eauto.
  Qed.

  Lemma init_measure fs : (num_ops I - sumN (jnext (core (init_w unit I fs))) < Datatypes.S (num_ops I))%nat.
  Proof. lia. Qed.

  (** C08: the best makespan over histories that only dispatch operations
      surviving the dominated-operations filter is the optimal makespan over
      ALL feasible complete schedules. *)
  Theorem filtered_search_is_optimal : exists c, opt_filtered I = Some c /\ is_opt I c.
  Proof.
    unfold opt_filtered.
    destruct (search_total [FDominated] _ (init_w unit I [FDominated]) (Inv_init I) (init_measure _)) as (c & Ec).
    exists c. split; [exact Ec|]. split.
    - destruct (search_sound [FDominated] _ (init_w unit I [FDominated]) c (Inv_init I) Ec) as (d' & Hi' & Hc' & Hmk).
      exists (sched d'). split; [apply Inv_feasible; exact Hi'|]. split; assumption.
    - intros S HfS HcS.
      assert (H0 : 0 <= makespan I S) by (unfold makespan; apply maxZ0_nonneg).
      destruct (search_dominates (Datatypes.S (num_ops I)) (init_w unit I [FDominated]) (asg_of S) (makespan I S)
                  (Inv_init I) (AFeas_asg_of I Hv S HfS HcS)) as (c' & Ec' & Hle).
      + intros x Hx. simpl in Hx. unfold all_sops in Hx. rewrite concat_repeat_nil in Hx. contradiction.
      + intros x k Hx. simpl in Hx. unfold all_sops in Hx. rewrite concat_repeat_nil in Hx. contradiction.
      + apply Abound_asg_of; assumption.
      + exact H0.
      + apply init_measure.
      + rewrite Ec in Ec'. inversion Ec'; subst c'. exact Hle.
  Qed.


  (** *** the same result as a statement about dispatch histories *)
  Definition picks_available (fs : list fname) (w : world unit) (r : request) : Prop :=
    exists m, r_mach r = Some (Z.of_nat m) /\ In (r_job r, r_pos r) (available I (core w) fs) /\
              In m (kmachines I (r_job r, r_pos r)).
  Fixpoint only_available (fs : list fname) (w : world unit) (rs : list request) : Prop :=
    match rs with
    | [] => True
    | r :: t => picks_available fs w r /\ only_available fs (step_req unit no_update I w r) t
    end.

  Theorem active_history n : forall (w : world unit) (A : asg) (c : Z),
    Inv I (core w) -> AFeas I A -> Ext A (core w) -> MP I A (core w) -> Abound I A c -> 0 <= c ->
    (num_ops I - sumN (jnext (core w)) = n)%nat ->
    exists rs, only_available [FDominated] w rs /\
               complete I (sched (core (run_from unit no_update I w rs))) /\
               makespan I (sched (core (run_from unit no_update I w rs))) <= c.
  Proof.
    induction n as [|n IH]; intros w A c Hi Hf He Hmp Hb Hc0 Hn.
    - exists []. split; [exact Logic.I|]. cbn [run_from fold_left].
      assert (Hc : complete I (sched (core w))).
      { destruct (is_complete I (sched (core w))) eqn:E; [apply (is_complete_spec _ _ Hi); exact E|exfalso].
        assert (Hnc : ~ complete I (sched (core w))) by (intro H; apply (is_complete_spec _ _ Hi) in H; congruence).
        pose proof (not_complete_lt I (core w) Hi Hnc). lia. }
      split; [exact Hc|].
      change (makespan I (sched (core w))) with (sp_makespan I (sched (core w))). unfold sp_makespan.
      apply maxZ0_ub; [exact Hc0|]. intros z Hz. apply in_map_iff in Hz. destruct Hz as (x & <- & Hx).
      destruct (i_sop _ _ Hi x Hx) as ((o & Ho & _) & _).
      assert (Hk : valid_key I (key x)) by (exists o; exact Ho).
      pose proof (Hb (key x) Hk) as Hle. unfold t_end, t_start in Hle. rewrite (He x Hx) in Hle. simpl in Hle.
      unfold s_end. rewrite dur_kdur. exact Hle.
    - assert (Hnc : ~ complete I (sched (core w))).
      { intro Hc. apply (Inv_complete_iff _ _ Hi) in Hc. lia. }
      destruct (gt_step I Hpos (core w) Hi A Hf He Hmp c Hb Hnc) as (j & p & m & A' & Hav & Hel & Hrest).
      cbv zeta in Hrest. destruct Hrest as (Hi' & Hf' & He' & Hmp' & Hb').
      destruct (choice_step_core w [FDominated] j p m Hi Hav Hel) as [Ecore Ecount].
      rewrite <- Ecore in Hi', He', Hmp'.
      set (r := mkreq j p (Some (Z.of_nat m))).
      assert (Estep : step_req unit no_update I w r = choice_step I w ((j, p), m)) by reflexivity.
      destruct (IH (choice_step I w ((j, p), m)) A' c Hi' Hf' He' Hmp' Hb' Hc0 ltac:(lia)) as (rs & Hon & Hc & Hmk).
      exists (r :: rs). split.
      + cbn [only_available]. split; [exists m; repeat split; assumption|rewrite Estep; exact Hon].
      + unfold run_from in *. cbn [fold_left]. rewrite Estep. split; assumption.
  Qed.

  (** C08 as pinned in DESIGN.md, Appendix A: against ALL feasible complete schedules *)
  Theorem filtered_history_dominates (S : schedule) :
    feasible I S -> complete I S ->
    exists rs, only_available [FDominated] (init_w unit I [FDominated]) rs /\
               complete I (sched (core (run_from unit no_update I (init_w unit I [FDominated]) rs))) /\
               makespan I (sched (core (run_from unit no_update I (init_w unit I [FDominated]) rs))) <= makespan I S.
  Proof.
    intros HfS HcS.
    apply (active_history (num_ops I - sumN (jnext (core (init_w unit I [FDominated])))) (init_w unit I [FDominated]) (asg_of S) (makespan I S) (Inv_init I)
             (AFeas_asg_of I Hv S HfS HcS)).
    - intros x Hx. simpl in Hx. unfold all_sops in Hx. rewrite concat_repeat_nil in Hx. contradiction.
    - intros x k Hx. simpl in Hx. unfold all_sops in Hx. rewrite concat_repeat_nil in Hx. contradiction.
    - apply Abound_asg_of; assumption.
    - unfold makespan. apply maxZ0_nonneg.
    - reflexivity.
  Qed.
End SearchFacts.
