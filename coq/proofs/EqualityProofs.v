(** EqualityProofs.v — lemmas behind C15. *)
From JSL Require Import Base Equality EqualitySpec.
From Coq Require Import Lia.

(** ** Python list equality *)

Lemma list_eqb_map_spec :
  forall (A C : Type) (eqb : A -> A -> bool) (f : A -> C),
    (forall x y, eqb x y = true <-> f x = f y) ->
    forall l1 l2, list_eqb eqb l1 l2 = true <-> map f l1 = map f l2.
Proof.
  intros A C eqb f H l1.
  induction l1 as [|x t1 IH]; intros [|y t2]; simpl.
  - split; reflexivity.
  - split; discriminate.
  - split; discriminate.
  - rewrite andb_true_iff, H, IH. split.
    + intros [H1 H2]. rewrite H1, H2. reflexivity.
    + intros H1. injection H1 as H1 H2. split; assumption.
Qed.

Lemma list_eqb_spec :
  forall (A : Type) (eqb : A -> A -> bool),
    (forall x y, eqb x y = true <-> x = y) ->
    forall l1 l2, list_eqb eqb l1 l2 = true <-> l1 = l2.
Proof.
  intros A eqb H l1 l2.
  rewrite (list_eqb_map_spec A A eqb (fun x => x)).
  - rewrite !map_id. reflexivity.
  - exact H.
Qed.

Lemma list_eqb_length :
  forall (A : Type) (eqb : A -> A -> bool) l1 l2,
    list_eqb eqb l1 l2 = true -> length l1 = length l2.
Proof.
  intros A eqb l1.
  induction l1 as [|x t1 IH]; intros [|y t2]; simpl; try discriminate.
  - reflexivity.
  - intros H. apply andb_true_iff in H. destruct H as [_ H]. f_equal. apply IH. exact H.
Qed.

Lemma list_eqb_nth :
  forall (A : Type) (eqb : A -> A -> bool) l1 l2 n x y,
    list_eqb eqb l1 l2 = true ->
    nth_error l1 n = Some x -> nth_error l2 n = Some y -> eqb x y = true.
Proof.
  intros A eqb l1.
  induction l1 as [|a t1 IH]; intros [|b t2] n x y; simpl; try discriminate.
  - destruct n; discriminate.
  - intros H. apply andb_true_iff in H. destruct H as [Hh Ht].
    destruct n as [|n]; simpl.
    + intros Hx Hy. injection Hx as <-. injection Hy as <-. exact Hh.
    + apply IH. exact Ht.
Qed.

Lemma Zlist_eqb_spec : forall l1 l2 : list Z, list_eqb Z.eqb l1 l2 = true <-> l1 = l2.
Proof. apply list_eqb_spec. intros x y. apply Z.eqb_eq. Qed.

(** ** The four comparisons decide content equality *)

Lemma op_eq_iff : forall a b, op_eq a b = true <-> cont_op a = cont_op b.
Proof.
  intros [m1 d1 j1 p1 i1] [m2 d2 j2 p2 i2].
  unfold op_eq, operation_eq_fields, cont_op; simpl.
  rewrite !andb_true_iff, Zlist_eqb_spec, !Z.eqb_eq. split.
  - intros [[[[H1 H2] H3] H4] H5]. subst. reflexivity.
  - intros H. injection H as H1 H2 H3 H4 H5. subst. repeat split.
Qed.

Lemma sop_eq_iff : forall a b, sop_eq a b = true <-> cont_sop a = cont_sop b.
Proof.
  intros [o1 s1 m1] [o2 s2 m2].
  unfold sop_eq, sop_eq_fields, cont_sop; cbn [so_op so_start so_mach].
  rewrite !andb_true_iff, !Z.eqb_eq, op_eq_iff.
  generalize (cont_op o1) (cont_op o2). intros c1 c2. split.
  - intros [[H1 H2] H3]. rewrite H1, H2, H3. reflexivity.
  - intros H. injection H as H1 H2 H3. repeat split; assumption.
Qed.

Lemma rows_eq_iff :
  forall r1 r2, list_eqb (list_eqb sop_eq) r1 r2 = true <-> cont_rows r1 = cont_rows r2.
Proof.
  intros r1 r2. unfold cont_rows. apply list_eqb_map_spec.
  intros x y. apply list_eqb_map_spec. exact sop_eq_iff.
Qed.

Lemma jobs_eq_iff :
  forall j1 j2, list_eqb (list_eqb op_eq) j1 j2 = true <-> cont_jobs j1 = cont_jobs j2.
Proof.
  intros j1 j2. unfold cont_jobs. apply list_eqb_map_spec.
  intros x y. apply list_eqb_map_spec. exact op_eq_iff.
Qed.

Lemma schedule_eq_iff :
  forall a b, schedule_eq a b = true <-> cont_rows (sc_rows a) = cont_rows (sc_rows b).
Proof. intros a b. apply rows_eq_iff. Qed.

Lemma instance_eq_iff :
  forall a b, instance_eq a b = true <-> cont_jobs (i_jobs a) = cont_jobs (i_jobs b).
Proof. intros a b. apply jobs_eq_iff. Qed.

(** [==] between any two values, library objects or not. *)
Lemma py_eq_iff : forall a b, py_eq a b = true <-> content a = content b.
Proof.
  intros a b. unfold py_eq, py_eq_with.
  destruct a as [a|a|a|a|t z]; destruct b as [b|b|b|b|t' z']; simpl;
    try (split; [discriminate | intros H; discriminate H]).
  - destruct (op_eq a b) eqn:E; simpl.
    + split; [intros _ | reflexivity]. f_equal. apply op_eq_iff. exact E.
    + split; [discriminate|]. intros H. assert (H' : cont_op a = cont_op b) by congruence.
      apply op_eq_iff in H'. congruence.
  - fold (sop_eq a b). destruct (sop_eq a b) eqn:E; simpl.
    + split; [intros _ | reflexivity]. f_equal. apply sop_eq_iff. exact E.
    + split; [discriminate|]. intros H. assert (H' : cont_sop a = cont_sop b) by congruence.
      apply sop_eq_iff in H'. congruence.
  - fold (schedule_eq a b). destruct (schedule_eq a b) eqn:E; simpl.
    + split; [intros _ | reflexivity]. f_equal. apply schedule_eq_iff. exact E.
    + split; [discriminate|]. intros H. assert (H' : cont_rows (sc_rows a) = cont_rows (sc_rows b)) by congruence.
      apply schedule_eq_iff in H'. congruence.
  - fold (instance_eq a b). destruct (instance_eq a b) eqn:E; simpl.
    + split; [intros _ | reflexivity]. f_equal. apply instance_eq_iff. exact E.
    + split; [discriminate|]. intros H. assert (H' : cont_jobs (i_jobs a) = cont_jobs (i_jobs b)) by congruence.
      apply instance_eq_iff in H'. congruence.
  - destruct (t =? t') eqn:Et.
    + apply Z.eqb_eq in Et. subst t'. destruct (z =? z') eqn:Ez; simpl.
      * apply Z.eqb_eq in Ez. subst z'. split; reflexivity.
      * apply Z.eqb_neq in Ez. split; [discriminate|]. intros H. injection H as H. contradiction.
    + apply Z.eqb_neq in Et.
      destruct (t' =? t) eqn:Et'; [apply Z.eqb_eq in Et'; congruence|].
      split; [discriminate|]. intros H. injection H as H1 H2. congruence.
Qed.

(** ** Consequences: equivalence relations *)

Section FromIff.
  Variables (A C : Type) (eqb : A -> A -> bool) (f : A -> C).
  Hypothesis H : forall a b, eqb a b = true <-> f a = f b.

  Lemma iff_refl : forall a, eqb a a = true.
  Proof. intros a. apply H. reflexivity. Qed.

  Lemma iff_sym : forall a b, eqb a b = eqb b a.
  Proof.
    intros a b. destruct (eqb a b) eqn:E1; destruct (eqb b a) eqn:E2; try reflexivity.
    - apply H in E1. symmetry in E1. apply H in E1. congruence.
    - apply H in E2. symmetry in E2. apply H in E2. congruence.
  Qed.

  Lemma iff_trans : forall a b c, eqb a b = true -> eqb b c = true -> eqb a c = true.
  Proof.
    intros a b c H1 H2. apply H. apply H in H1. apply H in H2. congruence.
  Qed.

  Lemma iff_false : forall a b, f a <> f b -> eqb a b = false.
  Proof.
    intros a b Hn. destruct (eqb a b) eqn:E; [|reflexivity].
    apply H in E. contradiction.
  Qed.
End FromIff.

Lemma py_ne_negb : forall a b, py_ne a b = negb (py_eq a b).
Proof.
  intros a b. unfold py_ne, py_eq, py_ne_with, py_eq_with, method_ne.
  destruct (method_eq op_eq a b); try reflexivity.
  destruct (method_eq op_eq b a); reflexivity.
Qed.

(** ** Differing fields *)

Lemma op_eq_false_machines : forall a b, o_machines a <> o_machines b -> op_eq a b = false.
Proof.
  intros a b Hn. apply (iff_false _ _ _ _ op_eq_iff). unfold cont_op. congruence.
Qed.
Lemma op_eq_false_duration : forall a b, o_duration a <> o_duration b -> op_eq a b = false.
Proof.
  intros a b Hn. apply (iff_false _ _ _ _ op_eq_iff). unfold cont_op. congruence.
Qed.
Lemma op_eq_false_place :
  forall a b, o_job a <> o_job b \/ o_pos a <> o_pos b \/ o_id a <> o_id b -> op_eq a b = false.
Proof.
  intros a b Hn. apply (iff_false _ _ _ _ op_eq_iff). unfold cont_op.
  destruct Hn as [Hn | [Hn | Hn]]; congruence.
Qed.

Lemma sop_eq_false_start : forall a b, so_start a <> so_start b -> sop_eq a b = false.
Proof.
  intros a b Hn. apply (iff_false _ _ _ _ sop_eq_iff). unfold cont_sop. congruence.
Qed.
Lemma sop_eq_false_machine : forall a b, so_mach a <> so_mach b -> sop_eq a b = false.
Proof.
  intros a b Hn. apply (iff_false _ _ _ _ sop_eq_iff). unfold cont_sop. congruence.
Qed.
Lemma sop_eq_false_op : forall a b, op_eq (so_op a) (so_op b) = false -> sop_eq a b = false.
Proof.
  intros a b Hn. unfold sop_eq, sop_eq_fields. rewrite Hn. reflexivity.
Qed.

(** A schedule differs as soon as the row shapes differ or some position
    holds scheduled operations that compare unequal. *)
Lemma schedule_eq_false_shape : forall a b, row_shape a <> row_shape b -> schedule_eq a b = false.
Proof.
  intros a b Hn. apply (iff_false _ _ _ _ schedule_eq_iff). intros Hc. apply Hn.
  unfold row_shape. unfold cont_rows in Hc.
  apply (f_equal (map (@length sop_content))) in Hc.
  rewrite !map_map in Hc. erewrite map_ext in Hc; [rewrite Hc; apply map_ext|];
    intros r; rewrite map_length; reflexivity.
Qed.

Lemma schedule_eq_false_at :
  forall a b m i ra rb x y,
    nth_error (sc_rows a) m = Some ra -> nth_error (sc_rows b) m = Some rb ->
    nth_error ra i = Some x -> nth_error rb i = Some y ->
    sop_eq x y = false -> schedule_eq a b = false.
Proof.
  intros a b m i ra rb x y Ha Hb Hx Hy Hn.
  destruct (schedule_eq a b) eqn:E; [|reflexivity].
  unfold schedule_eq, schedule_eq_fields in E.
  pose proof (list_eqb_nth _ _ _ _ _ _ _ E Ha Hb) as Hr.
  pose proof (list_eqb_nth _ _ _ _ _ _ _ Hr Hx Hy) as Hxy.
  fold sop_eq in Hxy. congruence.
Qed.

Lemma instance_eq_false_shape : forall a b, job_shape a <> job_shape b -> instance_eq a b = false.
Proof.
  intros a b Hn. apply (iff_false _ _ _ _ instance_eq_iff). intros Hc. apply Hn.
  unfold job_shape. unfold cont_jobs in Hc.
  apply (f_equal (map (@length op_content))) in Hc.
  rewrite !map_map in Hc. erewrite map_ext in Hc; [rewrite Hc; apply map_ext|];
    intros r; rewrite map_length; reflexivity.
Qed.

Lemma instance_eq_false_at :
  forall a b j p ja jb x y,
    nth_error (i_jobs a) j = Some ja -> nth_error (i_jobs b) j = Some jb ->
    nth_error ja p = Some x -> nth_error jb p = Some y ->
    op_eq x y = false -> instance_eq a b = false.
Proof.
  intros a b j p ja jb x y Ha Hb Hx Hy Hn.
  destruct (instance_eq a b) eqn:E; [|reflexivity].
  unfold instance_eq, instance_eq_fields in E.
  pose proof (list_eqb_nth _ _ _ _ _ _ _ E Ha Hb) as Hr.
  pose proof (list_eqb_nth _ _ _ _ _ _ _ Hr Hx Hy) as Hxy.
  congruence.
Qed.

(** What the comparisons do NOT look at. *)
Lemma instance_eq_ignores_name_metadata :
  forall jobs n1 m1 n2 m2, instance_eq (mkinst jobs n1 m1) (mkinst jobs n2 m2) = true.
Proof. intros. apply instance_eq_iff. reflexivity. Qed.

Lemma schedule_eq_ignores_instance_metadata :
  forall rows i1 m1 i2 m2, schedule_eq (mkschd i1 rows m1) (mkschd i2 rows m2) = true.
Proof. intros. apply schedule_eq_iff. reflexivity. Qed.

(** ** Hash *)
Lemma op_eq_hash_key : forall a b, op_eq a b = true -> hash_key a = hash_key b.
Proof.
  intros a b H. apply op_eq_iff in H. unfold cont_op in H. unfold hash_key. congruence.
Qed.

Lemma op_eq_hash :
  forall (py_hash : Z -> Z) a b, op_eq a b = true -> operation_hash py_hash a = operation_hash py_hash b.
Proof.
  intros h a b H. unfold operation_hash. rewrite (op_eq_hash_key a b H). reflexivity.
Qed.

(** ** The current (unrepaired) [Operation.__eq__] *)
Lemma unrepaired_always_true : forall a b, operation_eq_unrepaired a b = true.
Proof. intros a b. reflexivity. Qed.

(** ** The oracle *)

Lemma op_content_eqb_spec : forall a b, op_content_eqb a b = true <-> a = b.
Proof.
  intros [[[[m1 d1] j1] p1] i1] [[[[m2 d2] j2] p2] i2]. simpl.
  rewrite !andb_true_iff, Zlist_eqb_spec, !Z.eqb_eq. split.
  - intros [[[[H1 H2] H3] H4] H5]. subst. reflexivity.
  - intros H. injection H as H1 H2 H3 H4 H5. subst. repeat split.
Qed.

Lemma sop_content_eqb_spec : forall a b, sop_content_eqb a b = true <-> a = b.
Proof.
  intros [[o1 s1] m1] [[o2 s2] m2]. simpl.
  rewrite !andb_true_iff, op_content_eqb_spec, !Z.eqb_eq. split.
  - intros [[H1 H2] H3]. subst. reflexivity.
  - intros H. injection H as H1 H2 H3. subst. repeat split.
Qed.

Lemma cont_eqb_spec : forall a b, cont_eqb a b = true <-> a = b.
Proof.
  intros a b.
  destruct a as [x|x|x|x|t z]; destruct b as [y|y|y|y|t' z']; simpl;
    try (split; [discriminate | intros H; discriminate H]).
  - rewrite op_content_eqb_spec. split; [intros ->; reflexivity | intros H; injection H as H; exact H].
  - rewrite sop_content_eqb_spec. split; [intros ->; reflexivity | intros H; injection H as H; exact H].
  - rewrite (list_eqb_spec _ _ (list_eqb_spec _ _ sop_content_eqb_spec)).
    split; [intros ->; reflexivity | intros H; injection H as H; exact H].
  - rewrite (list_eqb_spec _ _ (list_eqb_spec _ _ op_content_eqb_spec)).
    split; [intros ->; reflexivity | intros H; injection H as H; exact H].
  - rewrite andb_true_iff, !Z.eqb_eq. split.
    + intros [-> ->]. reflexivity.
    + intros H. injection H as H1 H2. split; assumption.
Qed.

Lemma idx_in : forall M i, In i (idx M) <-> (i < length M)%nat.
Proof. intros M i. unfold idx. rewrite in_seq. lia. Qed.

Lemma reflexiveb_spec : forall M, reflexiveb M = true <-> reflexive_on M.
Proof.
  intros M. unfold reflexiveb, reflexive_on. rewrite forallb_forall. split.
  - intros H i Hi. apply H. apply idx_in. exact Hi.
  - intros H i Hi. apply H. apply idx_in. exact Hi.
Qed.

Lemma symmetricb_spec : forall M, symmetricb M = true <-> symmetric_on M.
Proof.
  intros M. unfold symmetricb, symmetric_on. rewrite forallb_forall. split.
  - intros H i j Hi Hj. apply idx_in in Hi. apply idx_in in Hj.
    specialize (H i Hi). rewrite forallb_forall in H. specialize (H j Hj).
    apply Bool.eqb_prop in H. exact H.
  - intros H i Hi. rewrite forallb_forall. intros j Hj.
    apply idx_in in Hi. apply idx_in in Hj. rewrite (H i j Hi Hj). apply Bool.eqb_reflx.
Qed.

Lemma transitiveb_spec : forall M, transitiveb M = true <-> transitive_on M.
Proof.
  intros M. unfold transitiveb, transitive_on. rewrite forallb_forall. split.
  - intros H i j k Hi Hj Hk Hij Hjk. apply idx_in in Hi. apply idx_in in Hj. apply idx_in in Hk.
    specialize (H i Hi). rewrite forallb_forall in H. specialize (H j Hj).
    rewrite forallb_forall in H. specialize (H k Hk).
    rewrite Hij, Hjk in H. simpl in H. exact H.
  - intros H i Hi. rewrite forallb_forall. intros j Hj. rewrite forallb_forall. intros k Hk.
    apply idx_in in Hi. apply idx_in in Hj. apply idx_in in Hk.
    destruct (mget M i j) eqn:Eij; [|reflexivity].
    destruct (mget M j k) eqn:Ejk; [|reflexivity].
    simpl. rewrite (H i j k Hi Hj Hk Eij Ejk). reflexivity.
Qed.

Lemma content_table_get :
  forall xs i j, (i < length xs)%nat -> (j < length xs)%nat ->
    mget (content_table xs) i j =
    cont_eqb (nth i xs (CForeign 0 0)) (nth j xs (CForeign 0 0)).
Proof.
  intros xs i j Hi Hj. unfold mget, content_table.
  rewrite (nth_indep _ [] (map (fun b => cont_eqb (CForeign 0 0) b) xs)) by (rewrite map_length; exact Hi).
  rewrite (map_nth (fun a => map (fun b => cont_eqb a b) xs) xs (CForeign 0 0) i).
  rewrite (nth_indep _ false (cont_eqb (nth i xs (CForeign 0 0)) (CForeign 0 0)))
    by (rewrite map_length; exact Hj).
  rewrite (map_nth (fun b => cont_eqb (nth i xs (CForeign 0 0)) b) xs (CForeign 0 0) j).
  reflexivity.
Qed.

Lemma content_table_reflects : forall xs, reflects_content xs (content_table xs).
Proof.
  intros xs i j Hi Hj. rewrite (content_table_get xs i j Hi Hj). apply cont_eqb_spec.
Qed.

(** A table that reflects content is an equivalence on the listed objects. *)
Lemma reflects_equivalence :
  forall xs M, length M = length xs -> reflects_content xs M ->
    reflexive_on M /\ symmetric_on M /\ transitive_on M.
Proof.
  intros xs M HL H. repeat split.
  - intros i Hi. rewrite HL in Hi. apply (H i i Hi Hi). reflexivity.
  - intros i j Hi Hj. rewrite HL in Hi, Hj.
    destruct (mget M i j) eqn:E1; destruct (mget M j i) eqn:E2; try reflexivity.
    + apply (H i j Hi Hj) in E1. symmetry in E1. apply (H j i Hj Hi) in E1. congruence.
    + apply (H j i Hj Hi) in E2. symmetry in E2. apply (H i j Hi Hj) in E2. congruence.
  - intros i j k Hi Hj Hk Hij Hjk. rewrite HL in Hi, Hj, Hk.
    apply (H i k Hi Hk). apply (H i j Hi Hj) in Hij. apply (H j k Hj Hk) in Hjk. congruence.
Qed.
