(** ResetFresh.v — C12 for the dispatcher and the observers of Observers.v:
    after [Dispatcher.reset], performed in ANY world, the dispatcher fields are
    those of a new dispatcher, the cache is empty, and every subscribed
    history / unscheduled-operations / reward observer holds exactly the state
    its constructor gives it on a new dispatcher - whatever order the observers
    were created in and whatever happened before. *)
From JSL Require Import Base Instance Dstate Filters World Observers Feasible ListFacts DispatchFun Inv Run Replay Notify.
From Coq Require Import Lia.

Definition plain_kind (k : okind) : bool :=
  match k with KHist | KUnsched | KMakespan | KIdle => true | KRec _ _ | KFeat => false end.

Lemma all_sops_init I : all_sops (sched (init_d I)) = [].
Proof. unfold all_sops, init_d. cbn [sched]. apply concat_repeat_nil. Qed.

Lemma makespan_code_init I : makespan_code I (sched (init_d I)) = 0.
Proof.
  unfold makespan_code, init_d. cbn [sched]. induction (num_machines I) as [|n IH]; [reflexivity|exact IH].
Qed.

(** resetting an observer on the reset dispatcher = constructing it on a new one *)
Theorem observer_reset_is_fresh I fs (o : obs) :
  plain_kind (kind_of o) = true ->
  o_reset I fs (init_d I) o = o_construct I (init_d I) (kind_of o).
Proof.
  destruct o as [h|dq|rw cur|rw|s log|]; cbn [kind_of plain_kind o_reset o_construct]; intros H;
    try discriminate; try reflexivity.
  rewrite all_sops_init. reflexivity.
Qed.

Section ResetWorld.
  Variable I : instance.

  (** the world a brand-new dispatcher would have if the same observer objects
      (same kinds, same store positions, same subscription order) were
      constructed on it *)
  Definition fresh_obj (o : obs) : obs := o_construct I (init_d I) (kind_of o).

  Theorem reset_world_is_fresh (w : wld) :
    NoDup (subs w) ->
    let w' := fst (reset o_reset I w) in
    core w' = init_d I /\ wcache w' = empty_cache /\ filt w' = filt w /\ subs w' = subs w /\
    forall i o, In i (subs w) -> nth_error (objs w) i = Some o -> plain_kind (kind_of o) = true ->
                nth_error (objs w') i = Some (fresh_obj o).
  Proof.
    intros Hnd w'. destruct (reset_notifies_post_state I w) as (Hc & Hca & Hs & Ho). fold w' in Hc, Hca, Hs, Ho.
    assert (Hf : filt w' = filt w) by (unfold w'; destruct w as [[mf jn jf sc] c f os ss]; reflexivity).
    repeat split; try assumption.
    intros i o Hi Hoi Hk. rewrite Ho, (notify_all_spec obs _ (subs w) (objs w) i Hnd).
    rewrite (proj2 (mem_nat_In i (subs w)) Hi), Hoi. simpl. f_equal.
    apply observer_reset_is_fresh. exact Hk.
  Qed.

  (** consequently every later dispatch history behaves as on new objects:
      the states (dispatcher fields, schedule, observer states) coincide *)
  Theorem episodes_after_reset_coincide (w : wld) (rs : list request) :
    core (run_from obs o_update I (fst (reset o_reset I w)) rs) =
    fold_left (apply_req I) rs (init_d I).
  Proof.
    rewrite core_run_from. destruct (reset_notifies_post_state I w) as (Hc & _). rewrite Hc. reflexivity.
  Qed.
End ResetWorld.
