(** FjsStep.v — one machine step, one pass and the whole loop of
    [Schedule.from_job_sequences], characterised on worlds satisfying [Inv]:
    never out of fuel, errors are IndexError / ValidationError only,
    an accepted result is a reachable dispatcher schedule. *)
From JSL Require Import Base Instance Dstate Filters World Feasible ListFacts DispatchFun Inv Run
  Views ViewsSpec ViewsProofs FjsInv.
From Coq Require Import Lia Permutation.

Lemma py_index_of_nat len j : (j < len)%nat -> py_index len (Z.of_nat j) = Some j.
Proof.
  intros H. unfold py_index.
  assert (E : (0 <=? Z.of_nat j) && (Z.of_nat j <? Z.of_nat len) = true).
  { apply andb_true_iff. split; [apply Z.leb_le; lia|apply Z.ltb_lt; lia]. }
  rewrite E, Nat2Z.id. reflexivity.
Qed.

Lemma py_index_lt len i j : py_index len i = Some j -> (j < len)%nat.
Proof.
  unfold py_index. destruct ((0 <=? i) && (i <? Z.of_nat len)) eqn:E.
  - intros H; inversion H; subst. apply andb_true_iff in E. destruct E as [E1 E2].
    apply Z.leb_le in E1. apply Z.ltb_lt in E2. lia.
  - destruct ((- Z.of_nat len <=? i) && (i <? 0)) eqn:E2; [|discriminate].
    intros H; inversion H; subst. apply andb_true_iff in E2. destruct E2 as [E1 E3].
    apply Z.leb_le in E1. apply Z.ltb_lt in E3. lia.
Qed.

Lemma get_op_get_job I j p : (j < length I)%nat -> nth_error (get_job I j) p = get_op I j p.
Proof.
  intros H. unfold get_op, get_job. destruct (nth_error I j) as [job|] eqn:E.
  - rewrite (nth_error_nth _ _ _ E). reflexivity.
  - apply nth_error_None in E. lia.
Qed.

Lemma machine_lt_num_machines I j p o m :
  get_op I j p = Some o -> In m (machines o) -> (m < num_machines I)%nat.
Proof. intros H1 H2. eapply (proj1 (num_machines_spec I)); eauto. Qed.

Definition fjs_sop (d : dstate) (j m : nat) : sop :=
  mksop j (nthN (jnext d) j) (Z.max (nthZ (mfree d) m) (nthZ (jfree d) j)) m.

(** The dispatch issued by the loop is always accepted on a world with [Inv]. *)
Lemma fjs_dispatch_accepted I (w : world unit) j m o :
  Inv I (core w) -> get_op I j (nthN (jnext (core w)) j) = Some o -> In m (machines o) ->
  exists row,
    accepted I (core w) (mkreq j (nthN (jnext (core w)) j) (Some (Z.of_nat m))) (fjs_sop (core w) j m) o row /\
    dispatch u_update I (mkreq j (nthN (jnext (core w)) j) (Some (Z.of_nat m))) w =
      (after unit u_update I w (fjs_sop (core w) j m) row, inl tt).
Proof.
  intros Hi Hgo Hel.
  assert (Hm : (m < num_machines I)%nat) by (eapply machine_lt_num_machines; eauto).
  assert (Hmf : (m < length (mfree (core w)))%nat) by (rewrite (i_len_mf _ _ Hi); exact Hm).
  destruct (nth_error (sched (core w)) m) as [row|] eqn:Hrow;
    [|apply nth_error_None in Hrow; rewrite (i_len_sc _ _ Hi) in Hrow; lia].
  destruct (i_rows _ _ Hi m row Hrow) as (_ & _ & Hle).
  exists row.
  assert (Hlast : match last_opt row with
                  | Some y => s_end I y <= s_start (fjs_sop (core w) j m) | None => True end).
  { destruct (last_opt row) as [y|] eqn:El; [|exact Logic.I].
    rewrite (last_end_of_last _ _ _ El) in Hle. simpl. lia. }
  split.
  - constructor; cbn [r_job r_pos r_mach fjs_sop s_job s_pos s_mach s_start]; auto.
  - rewrite dispatch_is_pure. unfold dispatch_pure. cbn [r_job r_pos r_mach].
    rewrite Hgo, Nat.eqb_refl. unfold resolve_pure. rewrite (py_index_of_nat _ _ Hmf).
    assert (Hex : existsb (fun k : nat => Z.of_nat k =? Z.of_nat m) (machines o) = true).
    { apply existsb_exists. exists m. split; [exact Hel|apply Z.eqb_eq; reflexivity]. }
    rewrite Hex, Nat2Z.id, Hrow. cbv zeta. fold (fjs_sop (core w) j m).
    destruct (last_opt row) as [y|] eqn:El; [|reflexivity].
    assert (Hleb : s_end I y <=? Z.max (nthZ (mfree (core w)) m) (nthZ (jfree (core w)) j) = true)
      by (apply Z.leb_le; exact Hlast).
    rewrite Hleb. reflexivity.
Qed.

(** What one iteration of the [for] loop does. *)
Inductive machine_outcome (I : instance) (m : nat) (jid : Z) (rest : list Z) (w : world unit)
  : (world unit * list Z * bool) + exn -> Prop :=
| mo_bad_job : py_index (length I) jid = None -> machine_outcome I m jid rest w (inr EIndex)
| mo_job_done j : py_index (length I) jid = Some j ->
    get_op I j (nthN (jnext (core w)) j) = None -> machine_outcome I m jid rest w (inr EIndex)
| mo_other_machine j o : py_index (length I) jid = Some j ->
    get_op I j (nthN (jnext (core w)) j) = Some o -> ~ In m (machines o) ->
    machine_outcome I m jid rest w (inl (w, jid :: rest, false))
| mo_dispatched j o row : py_index (length I) jid = Some j ->
    get_op I j (nthN (jnext (core w)) j) = Some o -> In m (machines o) ->
    accepted I (core w) (mkreq j (nthN (jnext (core w)) j) (Some (Z.of_nat m))) (fjs_sop (core w) j m) o row ->
    machine_outcome I m jid rest w (inl (after unit u_update I w (fjs_sop (core w) j m) row, rest, true)).

Lemma fjs_machine_spec I m jid rest (w : world unit) :
  Inv I (core w) -> machine_outcome I m jid rest w (fjs_machine I m (jid :: rest) w).
Proof.
  intros Hi. unfold fjs_machine. rewrite (i_len_jn _ _ Hi).
  destruct (py_index (length I) jid) as [j|] eqn:Hj; [|apply mo_bad_job; exact Hj].
  pose proof (py_index_lt _ _ _ Hj) as Hjl. rewrite (get_op_get_job _ _ _ Hjl).
  destruct (get_op I j (nthN (jnext (core w)) j)) as [o|] eqn:Hgo; [|eapply mo_job_done; eauto].
  rewrite Nat.eqb_refl. cbn [andb].
  destruct (mem_nat m (machines o)) eqn:Hmem.
  - apply (proj1 (mem_nat_In _ _)) in Hmem.
    destruct (fjs_dispatch_accepted I w j m o Hi Hgo Hmem) as (row & Hacc & Hd). rewrite Hd.
    eapply mo_dispatched; eauto.
  - eapply mo_other_machine; eauto. intros Hin. apply (proj2 (mem_nat_In _ _)) in Hin. congruence.
Qed.

(** ** Consequences that need no target schedule *)

Lemma sumN_jnext_after I (d : dstate) r x o row :
  Inv I d -> accepted I d r x o row -> sumN (jnext (apply_sop I d x row)) = S (sumN (jnext d)).
Proof.
  intros Hi [Aop Ajob _ _ _ _ _ _ _ _]. simpl. unfold nthN. apply sumN_upd_S.
  rewrite (i_len_jn _ _ Hi), Ajob. eapply get_op_bounds; eauto.
Qed.

Lemma fjs_machine_general I m dq (w : world unit) :
  valid I -> Inv I (core w) ->
  match fjs_machine I m dq w with
  | inr e => e = EIndex
  | inl (w', dq', b) =>
      Inv I (core w') /\
      (b = false -> w' = w /\ dq' = dq) /\
      (b = true -> sumN (jnext (core w')) = S (sumN (jnext (core w))))
  end.
Proof.
  intros Hv Hi. destruct dq as [|jid rest].
  { simpl. split; [exact Hi|]. split; [intros _; split; reflexivity|intros Hb; discriminate Hb]. }
  destruct (fjs_machine_spec I m jid rest w Hi) as [H|j H1 H2|j o H1 H2 H3|j o row H1 H2 H3 Hacc].
  - reflexivity.
  - reflexivity.
  - split; [exact Hi|]. split; [intros _; split; reflexivity|intros Hb; discriminate Hb].
  - split; [|split; [intros Hb; discriminate Hb|intros _]].
    + exact (Inv_apply_sop I (core w) _ _ o row Hv Hi Hacc).
    + exact (sumN_jnext_after I (core w) _ _ o row Hi Hacc).
Qed.

Lemma fjs_pass_general I deqs m (w : world unit) :
  valid I -> Inv I (core w) ->
  match fjs_pass I m deqs w with
  | inr e => e = EIndex
  | inl (w', deqs', b) =>
      Inv I (core w') /\ length deqs' = length deqs /\
      (b = false -> w' = w /\ deqs' = deqs) /\
      (sumN (jnext (core w)) <= sumN (jnext (core w')))%nat /\
      (b = true -> (sumN (jnext (core w)) < sumN (jnext (core w')))%nat)
  end.
Proof.
  intros Hv. revert m w. induction deqs as [|dq rest IH]; intros m w Hi; simpl.
  - split; [exact Hi|]. split; [reflexivity|]. split; [intros _; split; reflexivity|]. split; [lia|intros Hb; discriminate Hb].
  - pose proof (fjs_machine_general I m dq w Hv Hi) as H1.
    destruct (fjs_machine I m dq w) as [[[w1 dq1] b1]|e]; [|exact H1].
    destruct H1 as (Hi1 & Hs1 & Hc1).
    specialize (IH (S m) w1 Hi1). destruct (fjs_pass I (S m) rest w1) as [[[w2 rest2] b2]|e]; [|exact IH].
    destruct IH as (Hi2 & Hl2 & Hs2 & Hle2 & Hlt2).
    assert (Hle1 : (sumN (jnext (core w)) <= sumN (jnext (core w1)))%nat).
    { destruct b1; [rewrite (Hc1 eq_refl); lia|]. destruct (Hs1 eq_refl) as [-> _]. lia. }
    split; [exact Hi2|]. split; [simpl; congruence|]. split; [|split].
    + intros Hb. apply orb_false_iff in Hb. destruct Hb as [-> ->].
      destruct (Hs1 eq_refl) as [-> ->]. destruct (Hs2 eq_refl) as [-> ->]. auto.
    + lia.
    + intros Hb. apply orb_true_iff in Hb. destruct Hb as [-> | ->].
      * rewrite (Hc1 eq_refl) in Hle2. lia.
      * specialize (Hlt2 eq_refl). lia.
Qed.

Lemma sumN_pointwise_le (a b : list nat) :
  length a = length b -> (forall i, nth i a 0 <= nth i b 0)%nat -> (sumN a <= sumN b)%nat.
Proof.
  revert b. induction a as [|x a IH]; intros [|y b] Hl Hle; simpl in *; try discriminate; [lia|].
  specialize (IH b ltac:(lia) (fun k => Hle (S k))). specialize (Hle 0%nat). simpl in Hle. lia.
Qed.

Lemma Inv_count_le I d : Inv I d -> (sumN (jnext d) <= num_ops I)%nat.
Proof.
  intros Hi. rewrite num_ops_sumN. apply sumN_pointwise_le.
  - rewrite map_length. apply (i_len_jn _ _ Hi).
  - intros i. rewrite nth_map_length. apply (i_bound _ _ Hi).
Qed.

Lemma is_complete_count I d : Inv I d -> (is_complete I (sched d) = true <-> sumN (jnext d) = num_ops I).
Proof.
  intros Hi. unfold is_complete. rewrite Nat.eqb_eq, num_scheduled_length, (i_count _ _ Hi). tauto.
Qed.

(** Fuel: a pass that schedules something strictly increases the number of
    scheduled operations, which never exceeds N. *)
Theorem fjs_loop_fuel I fuel deqs (w : world unit) :
  valid I -> Inv I (core w) -> (num_ops I - sumN (jnext (core w)) <= fuel)%nat ->
  fjs_loop I fuel w deqs <> FOutOfFuel.
Proof.
  intros Hv. revert w deqs. induction fuel as [|f IH]; intros w deqs Hi Hf; simpl.
  - destruct (is_complete I (sched (core w))) eqn:E; [discriminate|].
    exfalso. assert (sumN (jnext (core w)) <> num_ops I).
    { intros H. apply (is_complete_count _ _ Hi) in H. congruence. }
    pose proof (Inv_count_le _ _ Hi). lia.
  - destruct (is_complete I (sched (core w))) eqn:E; [discriminate|].
    pose proof (fjs_pass_general I deqs 0 w Hv Hi) as Hp.
    destruct (fjs_pass I 0 deqs w) as [[[w' deqs'] b]|e]; [|discriminate].
    destruct Hp as (Hi' & _ & _ & _ & Hlt). destruct b; [|discriminate].
    apply IH; [exact Hi'|]. specialize (Hlt eq_refl). lia.
Qed.

(** An accepted result is the schedule of a dispatcher state satisfying [Inv]
    and is complete; errors are IndexError or ValidationError. *)
Theorem fjs_loop_sound I fuel deqs (w : world unit) :
  valid I -> Inv I (core w) ->
  match fjs_loop I fuel w deqs with
  | FOk rows => exists d, Inv I d /\ rows = sched d /\ is_complete I rows = true
  | FErr e => e = EIndex \/ e = EValidation
  | FOutOfFuel => True
  end.
Proof.
  intros Hv. revert w deqs. induction fuel as [|f IH]; intros w deqs Hi; simpl.
  - destruct (is_complete I (sched (core w))) eqn:E; [|exact Logic.I]. exists (core w). auto.
  - destruct (is_complete I (sched (core w))) eqn:E; [exists (core w); auto|].
    pose proof (fjs_pass_general I deqs 0 w Hv Hi) as Hp.
    destruct (fjs_pass I 0 deqs w) as [[[w' deqs'] b]|e]; [|left; exact Hp].
    destruct Hp as (Hi' & _). destruct b; [apply IH; exact Hi'|right; reflexivity].
Qed.

Lemma reset_init I : reset u_reset I (init_w unit I []) = (init_w unit I [], inl tt).
Proof. reflexivity. Qed.

Theorem from_job_sequences_never_out_of_fuel I seqs fuel :
  valid I -> (num_ops I <= fuel)%nat -> from_job_sequences_fuel I fuel seqs <> FOutOfFuel.
Proof.
  intros Hv Hf. unfold from_job_sequences_fuel. rewrite reset_init.
  apply fjs_loop_fuel; [exact Hv|simpl; apply Inv_init|lia].
Qed.

Theorem from_job_sequences_sound I seqs :
  valid I ->
  match from_job_sequences I seqs with
  | FOk rows => feasible I rows /\ complete I rows
  | FErr e => e = EIndex \/ e = EValidation
  | FOutOfFuel => False
  end.
Proof.
  intros Hv. pose proof (from_job_sequences_never_out_of_fuel I seqs (S (num_ops I)) Hv ltac:(lia)) as Hfuel.
  unfold from_job_sequences in *. unfold from_job_sequences_fuel in *. rewrite reset_init in *.
  pose proof (fjs_loop_sound I (S (num_ops I)) seqs (init_w unit I []) Hv (Inv_init I)) as Hs.
  destruct (fjs_loop I (S (num_ops I)) (init_w unit I []) seqs) as [rows|e|]; [|exact Hs|congruence].
  destruct Hs as (d & Hi & -> & Hc). split; [apply Inv_feasible; exact Hi|].
  apply (is_complete_spec _ _ Hi); exact Hc.
Qed.
