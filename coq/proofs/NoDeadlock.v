(** NoDeadlock.v — C07: compositions of filters are sub-lists and never
    empty; every reachable incomplete state has an available operation, and
    every available operation can be dispatched on each of its machines. *)
From JSL Require Import Base Instance Dstate Filters World Feasible ListFacts DispatchFun Inv Run Derived Tracking
     Partition Replay FilterSpec FilterFacts Sublist.
From Coq Require Import Lia.

Lemma In_raw_ready_from (I : instance) : forall j0 nx j p,
  In (j, p) (raw_ready_from I j0 nx) <->
  (j0 <= j /\ j - j0 < length I /\ j - j0 < length nx /\
   p = nth (j - j0) nx 0 /\ p < length (nth (j - j0) I []))%nat.
Proof.
  induction I as [|job t IH]; intros j0 nx j p.
  - simpl. split; [tauto|]. intros (_ & H & _). simpl in H. lia.
  - destruct nx as [|q nx']; simpl.
    + split; [tauto|]. intros (_ & _ & H & _). simpl in H. lia.
    + assert (Hrec : In (j, p) (raw_ready_from t (S j0) nx') <->
                     (S j0 <= j /\ j - S j0 < length t /\ j - S j0 < length nx' /\
                      p = nth (j - S j0) nx' 0 /\ p < length (nth (j - S j0) t []))%nat) by apply IH.
      destruct (q <? length job)%nat eqn:E.
      * simpl. rewrite Hrec. apply Nat.ltb_lt in E. split.
        -- intros [H|H]; [inversion H; subst; replace (j - j)%nat with 0%nat by lia; simpl; lia|].
           replace (j - j0)%nat with (S (j - S j0)) by lia. simpl. lia.
        -- intros (H1 & H2 & H3 & H4 & H5). destruct (Nat.eq_dec j j0) as [->|Hne].
           ++ left. replace (j0 - j0)%nat with 0%nat in * by lia. simpl in *. congruence.
           ++ right. replace (j - j0)%nat with (S (j - S j0)) in * by lia. simpl in *. lia.
      * rewrite Hrec. apply Nat.ltb_ge in E. split.
        -- intros H. replace (j - j0)%nat with (S (j - S j0)) by lia. simpl. lia.
        -- intros (H1 & H2 & H3 & H4 & H5). destruct (Nat.eq_dec j j0) as [->|Hne].
           ++ replace (j0 - j0)%nat with 0%nat in * by lia. simpl in *. lia.
           ++ replace (j - j0)%nat with (S (j - S j0)) in * by lia. simpl in *. lia.
Qed.

Lemma fold_max_ge (l : list nat) x : In x l -> (x <= fold_right Nat.max 0 l)%nat.
Proof.
  induction l as [|a t IH]; intros H; [contradiction|]. cbn [fold_right].
  destruct H as [->|H]; [apply Nat.le_max_l|]. specialize (IH H). etransitivity; [exact IH|apply Nat.le_max_r].
Qed.

Section NoDeadlock.
  Variable I : instance.
  Hypothesis Hv : valid I.
  Hypothesis Hm : has_machines I.
  Variable d : dstate.
  Hypothesis Hi : Inv I d.

  Definition ops_ok (L : list (nat * nat)) : Prop :=
    forall k, In k L -> exists o, kop I k = Some o /\ machines o <> [].

  Lemma In_raw_ready j p :
    In (j, p) (raw_ready I d) <-> (j < length I /\ p = nthN (jnext d) j /\ p < length (get_job I j))%nat.
  Proof.
    unfold raw_ready. rewrite In_raw_ready_from, Nat.sub_0_r, (i_len_jn _ _ Hi). unfold nthN, get_job. split.
    - intros (_ & H1 & _ & H2 & H3). auto.
    - intros (H1 & H2 & H3). repeat split; auto; lia.
  Qed.

  Lemma raw_ready_ok : ops_ok (raw_ready I d).
  Proof.
    intros [j p] H. apply In_raw_ready in H. destruct H as (Hj & Hp & Hlt).
    unfold kop, get_op, get_job in *. simpl.
    destruct (nth_error I j) as [job|] eqn:E; [|apply nth_error_None in E; lia].
    rewrite (nth_error_nth _ _ _ E) in Hlt.
    destruct (nth_error job p) as [o|] eqn:Eo; [|apply nth_error_None in Eo; lia].
    exists o. split; [reflexivity|]. apply (Hm j p o). unfold get_op. rewrite E. exact Eo.
  Qed.

  Lemma ops_ok_sublist a b : sublist a b -> ops_ok b -> ops_ok a.
  Proof. intros Hs Hb k Hk. apply Hb. eapply sublist_In; eauto. Qed.

  Lemma spec_filter_sublist f L : sublist (spec_filter I d f L) L.
  Proof.
    unfold spec_filter. destruct f; try apply sublist_filter.
    unfold first_zero. destruct (find (fun k => kdur I k =? 0) L) as [z|] eqn:E; [|apply sublist_filter].
    apply find_some in E. apply sublist_single. tauto.
  Qed.

  (** one filter *)
  Theorem filter_sublist f L : ops_ok L -> sublist (apply_filter I d f L) L.
  Proof. intros HL. rewrite (filter_is_spec I d Hi L HL). apply spec_filter_sublist. Qed.

  (** any composition *)
  Theorem filters_sublist_nonempty fs : forall L,
    ops_ok L -> sublist (apply_filters I d fs L) L /\ (L <> [] -> apply_filters I d fs L <> []).
  Proof.
    induction fs as [|f fs IH]; intros L HL; simpl.
    - split; [apply sublist_refl|auto].
    - unfold apply_filters in *. simpl.
      pose proof (filter_sublist f L HL) as Hs.
      pose proof (ops_ok_sublist _ _ Hs HL) as HL'.
      destruct (IH _ HL') as [Hs2 Hne2]. split.
      + eapply sublist_trans; eauto.
      + intros Hne. apply Hne2. apply (filter_nonempty I Hv d Hi L HL f Hne).
  Qed.

  (** an incomplete reachable state has a ready operation ... *)
  Lemma raw_ready_nonempty : ~ complete I (sched d) -> raw_ready I d <> [].
  Proof.
    intros Hnc Hnil. apply Hnc. apply (Inv_complete_iff _ _ Hi). apply (Inv_all_scheduled_iff _ _ Hi).
    intros j. pose proof (i_bound _ _ Hi j) as Hb.
    destruct (Nat.eq_dec (nthN (jnext d) j) (length (get_job I j))) as [E|Hne]; [exact E|exfalso].
    assert (Hlt : (nthN (jnext d) j < length (get_job I j))%nat) by lia.
    assert (Hj : (j < length I)%nat).
    { destruct (Nat.lt_ge_cases j (length I)) as [H|H]; [exact H|].
      unfold get_job in Hlt. rewrite nth_overflow in Hlt by exact H. simpl in Hlt. lia. }
    assert (Hin : In (j, nthN (jnext d) j) (raw_ready I d)) by (apply In_raw_ready; auto).
    rewrite Hnil in Hin. contradiction.
  Qed.

  (** ... hence an available one, under any composition of built-in filters *)
  Theorem no_deadlock fs : ~ complete I (sched d) -> available I d fs <> [].
  Proof.
    intros Hnc. unfold available. apply (filters_sublist_nonempty fs _ raw_ready_ok). apply raw_ready_nonempty. exact Hnc.
  Qed.

  Theorem available_sublist_ready fs : sublist (available I d fs) (raw_ready I d).
  Proof. apply (filters_sublist_nonempty fs _ raw_ready_ok). Qed.

  Lemma machine_in_range k o m : kop I k = Some o -> In m (machines o) -> (m < num_machines I)%nat.
  Proof.
    intros Ho Hin. unfold num_machines.
    assert (Hop : In o (concat I)).
    { unfold kop, get_op in Ho. destruct (nth_error I (fst k)) as [job|] eqn:E; [|discriminate].
      apply in_concat. exists job. split; [eapply nth_error_In; eauto|eapply nth_error_In; eauto]. }
    assert (H1 : (S m <= max_mach_op o)%nat).
    { unfold max_mach_op. apply fold_max_ge. apply in_map. exact Hin. }
    assert (H2 : (max_mach_op o <= fold_right Nat.max 0 (map max_mach_op (concat I)))%nat).
    { apply fold_max_ge. apply in_map. exact Hop. }
    lia.
  Qed.

  (** every ready (hence every available) operation is accepted on each of its machines *)
  Theorem ready_dispatchable j p m :
    In (j, p) (raw_ready I d) -> In m (kmachines I (j, p)) ->
    exists x, sop_of_request I d (mkreq j p (Some (Z.of_nat m))) = Some x /\
              s_job x = j /\ s_pos x = p /\ s_mach x = m.
  Proof.
    intros Hr Hmm. destruct (raw_ready_ok _ Hr) as (o & Ho & _).
    apply In_raw_ready in Hr. destruct Hr as (Hj & Hp & Hlt).
    unfold kmachines in Hmm. rewrite Ho in Hmm. unfold kop in Ho. simpl in Ho.
    pose proof (machine_in_range (j, p) o m Ho Hmm) as Hrange.
    unfold sop_of_request. cbn [r_job r_pos r_mach]. rewrite Ho.
    rewrite <- Hp, Nat.eqb_refl. unfold resolve_pure.
    assert (Hpi : py_index (length (mfree d)) (Z.of_nat m) = Some m).
    { unfold py_index. rewrite (i_len_mf _ _ Hi).
      assert (E : ((0 <=? Z.of_nat m) && (Z.of_nat m <? Z.of_nat (num_machines I))) = true).
      { apply andb_true_iff. split; [apply Z.leb_le|apply Z.ltb_lt]; lia. }
      rewrite E, Nat2Z.id. reflexivity. }
    rewrite Hpi.
    assert (Hex : existsb (fun k : nat => Z.of_nat k =? Z.of_nat m) (machines o) = true).
    { apply existsb_exists. exists m. split; [exact Hmm|apply Z.eqb_eq; reflexivity]. }
    rewrite Hex, Nat2Z.id.
    destruct (nth_error (sched d) m) as [row|] eqn:Hrow;
      [|apply nth_error_None in Hrow; rewrite (i_len_sc _ _ Hi) in Hrow; lia].
    cbv zeta. destruct (i_rows _ _ Hi m row Hrow) as (_ & _ & Hl).
    unfold last_end in Hl. destruct (last_opt row) as [y|].
    - assert (E : (s_end I y <=? Z.max (nthZ (mfree d) m) (nthZ (jfree d) j)) = true) by (apply Z.leb_le; lia).
      rewrite E. eexists. split; [reflexivity|auto].
    - eexists. split; [reflexivity|auto].
  Qed.
End NoDeadlock.
