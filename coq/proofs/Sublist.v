(** Sublist.v — the sub-list relation and its boolean twin. *)
From JSL Require Import Base Instance Dstate Filters Feasible FilterSpec.
From Coq Require Import Lia.

Lemma sublist_tail x a b : sublist (x :: a) b -> sublist a b.
Proof.
  induction b as [|y b IH]; intros H; inversion H; subst.
  - apply sub_skip. assumption.
  - apply sub_skip. apply IH. assumption.
Qed.

Lemma sublist_refl a : sublist a a.
Proof. induction a; constructor; assumption. Qed.

Lemma sublist_trans a b c : sublist a b -> sublist b c -> sublist a c.
Proof.
  intros Hab Hbc. revert a Hab. induction Hbc as [c|x b c Hbc IH|y b c Hbc IH]; intros a Hab.
  - inversion Hab; subst. constructor.
  - inversion Hab; subst.
    + constructor.
    + apply sub_take. apply IH. assumption.
    + apply sub_skip. apply IH. assumption.
  - apply sub_skip. apply IH. assumption.
Qed.

Lemma sublist_In a b x : sublist a b -> In x a -> In x b.
Proof. induction 1; simpl; intros Hx; [contradiction| |]; tauto. Qed.

Lemma sublist_filter (c : nat * nat -> bool) l : sublist (filter c l) l.
Proof. induction l as [|x r IH]; simpl; [constructor|]. destruct (c x); [apply sub_take|apply sub_skip]; exact IH. Qed.

Lemma sublist_single x l : In x l -> sublist [x] l.
Proof.
  induction l as [|y r IH]; simpl; [contradiction|]. intros [->|H].
  - apply sub_take. constructor.
  - apply sub_skip. apply IH. exact H.
Qed.

Lemma sublist_NoDup a b : sublist a b -> NoDup b -> NoDup a.
Proof.
  induction 1; intros Hnd; [constructor| |].
  - inversion Hnd; subst. constructor; [|auto]. intro Hin. eapply sublist_In in Hin; eauto.
  - inversion Hnd; subst. auto.
Qed.

Theorem sublistb_spec a b : sublistb a b = true <-> sublist a b.
Proof.
  split.
  - revert a. induction b as [|y b IH]; intros a H.
    + destruct a; [constructor|discriminate].
    + destruct a as [|x a]; [constructor|]. simpl in H. destruct (eqb_key x y) eqn:E.
      * apply eqb_key_eq in E. subst y. apply sub_take. apply IH. exact H.
      * apply sub_skip. apply IH. exact H.
  - revert a. induction b as [|y b IH]; intros a H.
    + inversion H; reflexivity.
    + destruct a as [|x a]; [reflexivity|]. simpl. destruct (eqb_key x y) eqn:E.
      * apply eqb_key_eq in E. subst y. apply IH. inversion H; subst; [assumption|eapply sublist_tail; eassumption].
      * apply IH. inversion H as [| x0 a0 b0 H0 | y0 a0 b0 H0]; subst; [|assumption].
        rewrite (proj2 (eqb_key_eq y y) eq_refl) in E. discriminate.
Qed.
