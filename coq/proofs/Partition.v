(** Partition.v — C05: what the uncached queries mean in terms of the
    schedule. Scheduled and unscheduled partition the operations; ongoing and
    completed partition the scheduled ones; uncompleted = unscheduled ++ ongoing. *)
From JSL Require Import Base Instance Dstate Filters World Feasible ListFacts DispatchFun Inv Derived.
From Coq Require Import Lia Permutation.

Lemma job_keys_split j (job : list op) p :
  (p <= length job)%nat ->
  map (fun q => (j, q)) (seq 0 (Nat.min p (length job))) ++ map (fun q => (j, q)) (seq p (length job - p))
  = job_keys j job.
Proof.
  intros Hp. unfold job_keys. rewrite <- map_app. f_equal.
  rewrite Nat.min_l by exact Hp.
  replace (length job) with (p + (length job - p))%nat at 2 by lia.
  rewrite seq_app. reflexivity.
Qed.

Lemma sched_unsched_perm (I : instance) : forall j nx,
  length nx = length I ->
  (forall i, (nth i nx 0 <= length (nth i I []))%nat) ->
  Permutation (scheduled_from I j nx ++ unscheduled_from I j nx) (all_keys_from j I).
Proof.
  induction I as [|job t IH]; intros j nx Hl Hb.
  - destruct nx; simpl; constructor.
  - destruct nx as [|p nx']; [discriminate|]. simpl.
    assert (Hp : (p <= length job)%nat) by (apply (Hb 0%nat)).
    specialize (IH (S j) nx' ltac:(simpl in Hl; lia) (fun i => Hb (S i))).
    rewrite <- (job_keys_split j job p Hp).
    set (A := map (fun q => (j, q)) (seq 0 (Nat.min p (length job)))).
    set (B := map (fun q => (j, q)) (seq p (length job - p))).
    rewrite <- !app_assoc. apply Permutation_app_head.
    rewrite !app_assoc. transitivity ((B ++ scheduled_from t (S j) nx') ++ unscheduled_from t (S j) nx').
    + apply Permutation_app_tail. apply Permutation_app_comm.
    + rewrite <- app_assoc. apply Permutation_app_head. exact IH.
Qed.

Lemma In_scheduled_from (I : instance) : forall j0 nx j p,
  In (j, p) (scheduled_from I j0 nx) <->
  (j0 <= j /\ j - j0 < length I /\ j - j0 < length nx /\
   p < nth (j - j0) nx 0 /\ p < length (nth (j - j0) I []))%nat.
Proof.
  induction I as [|job t IH]; intros j0 nx j p.
  - simpl. split; [tauto|]. intros (_ & H & _). simpl in H. lia.
  - destruct nx as [|q nx']; simpl.
    + split; [tauto|]. intros (_ & _ & H & _). simpl in H. lia.
    + rewrite in_app_iff, in_map_iff, IH. split.
      * intros [(r & E & Hr)|(H1 & H2 & H3 & H4 & H5)].
        -- inversion E; subst. apply in_seq in Hr. replace (j - j)%nat with 0%nat by lia. simpl. lia.
        -- replace (j - j0)%nat with (S (j - S j0)) by lia. simpl. lia.
      * intros (H1 & H2 & H3 & H4 & H5). destruct (Nat.eq_dec j j0) as [->|Hne].
        -- left. exists p. replace (j0 - j0)%nat with 0%nat in * by lia. simpl in *.
           split; [reflexivity|]. apply in_seq. lia.
        -- right. replace (j - j0)%nat with (S (j - S j0)) in * by lia. simpl in *. lia.
Qed.

Lemma nodup_app_intro {A} (a b : list A) :
  NoDup a -> NoDup b -> (forall x, In x a -> ~ In x b) -> NoDup (a ++ b).
Proof.
  induction a as [|x t IH]; simpl; intros Ha Hb Hd; [exact Hb|].
  inversion Ha as [|? ? Hni Hnd]; subst. constructor.
  - rewrite in_app_iff. intros [H|H]; [contradiction|]. apply (Hd x); auto.
  - apply IH; auto.
Qed.

Lemma all_keys_from_ge (I : instance) : forall j0 j p, In (j, p) (all_keys_from j0 I) -> (j0 <= j)%nat.
Proof.
  induction I as [|job t IH]; intros j0 j p H; simpl in H; [contradiction|].
  apply in_app_iff in H. destruct H as [H|H].
  - unfold job_keys in H. apply in_map_iff in H. destruct H as (q & E & _). inversion E; lia.
  - apply IH in H. lia.
Qed.

Lemma all_keys_from_nodup (I : instance) : forall j0, NoDup (all_keys_from j0 I).
Proof.
  induction I as [|job t IH]; intros j0; simpl; [constructor|].
  apply nodup_app_intro; [|apply IH|].
  - unfold job_keys. apply FinFun.Injective_map_NoDup; [intros a b H; congruence|apply seq_NoDup].
  - intros [j p] H1 H2. unfold job_keys in H1. apply in_map_iff in H1. destruct H1 as (q & E & _).
    inversion E; subst. apply all_keys_from_ge in H2. lia.
Qed.

Lemma take_while_running_In I t rrow x : In x (take_while_running I t rrow) -> In x rrow.
Proof.
  induction rrow as [|y r IH]; simpl; [tauto|]. destruct (s_end I y <=? t); simpl; [tauto|].
  intros [->|H]; auto.
Qed.

Section Partition.
  Variable I : instance.
  Variable fs : list fname.
  Variable d : dstate.
  Hypothesis Hi : Inv I d.

  Theorem scheduled_unscheduled_partition :
    Permutation (p_sched I d ++ p_unsched I d) (all_keys I).
  Proof.
    apply sched_unsched_perm.
    - apply (i_len_jn _ _ Hi).
    - intros i. apply (i_bound _ _ Hi i).
  Qed.

  (** [scheduled_operations()] lists exactly the operations present in the rows. *)
  Theorem scheduled_is_schedule k : In k (p_sched I d) <-> In k (map key (all_sops (sched d))).
  Proof.
    destruct k as [j p]. unfold p_sched, scheduled_ops. rewrite In_scheduled_from.
    rewrite Nat.sub_0_r. split.
    - intros (_ & H2 & H3 & H4 & H5). destruct (i_prefix _ _ Hi j p H4) as (x & Hx & Hk).
      apply in_map_iff. exists x. split; assumption.
    - intros Hin. apply in_map_iff in Hin. destruct Hin as (x & Hk & Hx).
      unfold key in Hk. injection Hk as Hj Hp. subst j p.
      destruct (i_sop _ _ Hi x Hx) as ((o & Ho & _) & Hlt & _).
      destruct (get_op_bounds _ _ _ _ Ho) as [Hb1 Hb2]. unfold get_job in Hb2.
      unfold nthN in Hlt. rewrite (i_len_jn _ _ Hi). repeat split; try lia.
  Qed.

  Theorem all_keys_nodup : NoDup (all_keys I).
  Proof. apply all_keys_from_nodup. Qed.

  Theorem scheduled_unscheduled_nodup : NoDup (p_sched I d ++ p_unsched I d).
  Proof.
    eapply Permutation_NoDup; [symmetry; apply scheduled_unscheduled_partition|apply all_keys_nodup].
  Qed.

  (** ongoing / completed / uncompleted *)
  Theorem ongoing_in_schedule x : In x (p_ongoing I fs d) -> In x (all_sops (sched d)).
  Proof.
    unfold p_ongoing, ongoing_at. intros H. apply in_flat_map in H. destruct H as (row & Hr & Hx).
    apply in_concat. exists row. split; [exact Hr|]. apply in_rev. eapply take_while_running_In; eauto.
  Qed.

  Theorem completed_ongoing_partition k :
    In k (p_sched I d) <-> (In k (p_completed I fs d) \/ In k (map key (p_ongoing I fs d))).
  Proof.
    unfold p_completed. rewrite filter_In. split.
    - intros H. destruct (mem_key k (map key (p_ongoing I fs d))) eqn:E.
      + right. apply mem_key_In. exact E.
      + left. split; [exact H|reflexivity].
    - intros [[H _]|H]; [exact H|].
      apply scheduled_is_schedule. apply in_map_iff in H. destruct H as (x & Hk & Hx).
      apply in_map_iff. exists x. split; [exact Hk|apply ongoing_in_schedule; exact Hx].
  Qed.

  Theorem completed_ongoing_disjoint k :
    In k (p_completed I fs d) -> ~ In k (map key (p_ongoing I fs d)).
  Proof.
    unfold p_completed. rewrite filter_In. intros [_ H] Hin. apply mem_key_In in Hin.
    rewrite Hin in H. discriminate.
  Qed.

  Theorem uncompleted_is_unscheduled_plus_ongoing :
    p_uncompleted I fs d = p_unsched I d ++ map key (p_ongoing I fs d).
  Proof. reflexivity. Qed.
End Partition.
