(** Run.v — request lists: every reachable dispatcher state satisfies [Inv]. *)
From JSL Require Import Base Instance Dstate Filters World Feasible ListFacts DispatchFun Inv.
From Coq Require Import Lia.

Section Run.
  Variable O : Type.
  Variable o_update : instance -> list fname -> dstate -> sop -> O -> O.
  Variable o_reset : instance -> list fname -> dstate -> O -> O.

  (** One request: the world afterwards (a rejected request returns the world
      as the program left it — which [dispatch_atomic] shows is untouched). *)
  Definition step_req (I : instance) (w : world O) (r : request) : world O :=
    fst (dispatch o_update I r w).
  Definition accepts (I : instance) (w : world O) (r : request) : bool :=
    match snd (dispatch o_update I r w) with inl _ => true | inr _ => false end.
  Definition run_reqs (I : instance) (fs : list fname) (rs : list request) : world O :=
    fold_left (step_req I) rs (init_w O I fs).

  Fixpoint count_accepted (I : instance) (w : world O) (rs : list request) : nat :=
    match rs with
    | [] => 0%nat
    | r :: t => ((if accepts I w r then 1 else 0) + count_accepted I (step_req I w r) t)%nat
    end.

  Lemma step_req_cases I w r :
    (step_req I w r = w /\ accepts I w r = false) \/
    (exists x o row, accepted I (core w) r x o row /\
                     step_req I w r = after O o_update I w x row /\ accepts I w r = true).
  Proof.
    unfold step_req, accepts.
    destruct (dispatch_cases O o_update I r w) as [[e He]|(x & o & row & Ha & He)]; rewrite He; simpl.
    - left; auto.
    - right. exists x, o, row. auto.
  Qed.

  Lemma step_req_Inv I w r : valid I -> Inv I (core w) -> Inv I (core (step_req I w r)).
  Proof.
    intros Hv Hi. destruct (step_req_cases I w r) as [[-> _]|(x & o & row & Ha & -> & _)]; [exact Hi|].
    simpl. eapply Inv_apply_sop; eauto.
  Qed.

  Lemma fold_step_Inv I rs w : valid I -> Inv I (core w) -> Inv I (core (fold_left (step_req I) rs w)).
  Proof.
    intros Hv. revert w. induction rs as [|r t IH]; intros w Hi; simpl; [exact Hi|].
    apply IH. apply step_req_Inv; assumption.
  Qed.

  Theorem run_Inv I fs rs : valid I -> Inv I (core (run_reqs I fs rs)).
  Proof. intros Hv. apply fold_step_Inv; [exact Hv|]. simpl. apply Inv_init. Qed.

  Lemma step_req_count I w r :
    Inv I (core w) ->
    sumN (jnext (core (step_req I w r))) =
    (sumN (jnext (core w)) + (if accepts I w r then 1 else 0))%nat.
  Proof.
    intros Hi. destruct (step_req_cases I w r) as [[-> ->]|(x & o & row & Ha & -> & ->)]; [lia|].
    simpl. unfold nthN. rewrite sumN_upd_S; [lia|].
    destruct Ha as [Aop Ajob Apos _ _ _ _ _ _ _].
    rewrite (i_len_jn _ _ Hi). rewrite Ajob.
    destruct (get_op_bounds _ _ _ _ Aop) as [Hj _]. exact Hj.
  Qed.

  Lemma fold_step_count I rs w :
    valid I -> Inv I (core w) ->
    sumN (jnext (core (fold_left (step_req I) rs w))) = (sumN (jnext (core w)) + count_accepted I w rs)%nat.
  Proof.
    intros Hv. revert w. induction rs as [|r t IH]; intros w Hi; simpl; [lia|].
    rewrite IH by (apply step_req_Inv; assumption). rewrite step_req_count by exact Hi. lia.
  Qed.

  (** C01, as pinned in DESIGN.md Appendix A. *)
  Theorem dispatch_histories_feasible I fs rs :
    valid I ->
    feasible I (sched (core (run_reqs I fs rs))) /\
    (count_accepted I (init_w O I fs) rs = num_ops I -> complete I (sched (core (run_reqs I fs rs)))).
  Proof.
    intros Hv. pose proof (run_Inv I fs rs Hv) as Hi. split.
    - apply Inv_feasible; exact Hi.
    - intros Hc. apply (Inv_complete_iff _ _ Hi). unfold run_reqs.
      rewrite fold_step_count; [|exact Hv|simpl; apply Inv_init].
      simpl. unfold num_jobs. rewrite sumN_repeat0. simpl. exact Hc.
  Qed.

End Run.
