(** GraphStages.v — the state of a [JobShopGraph] under construction, as an
    invariant ([stage]) that every builder step preserves: the node list, the
    type rows (= the node list filtered by type), the per-job rows (= the ids of
    the job's operations in order), the per-machine rows (= the ids of the
    operations eligible on the machine), no node removed, and the edge map =
    the calls to [add_edge] made so far, replayed on an empty DiGraph. *)
From JSL Require Import Base Instance Dstate Graph Feasible GraphSpec ListFacts OpIds GraphFacts.
From Coq Require Import Lia.

Definition opn (k : nat * nat) : node := OpNode (fst k) (snd k).
Definition is_type (t : ntype) (x : nat * node) : bool :=
  (ntype_code (node_type (snd x)) =? ntype_code t)%nat.
Definition non_op (nd : node) : Prop := match nd with OpNode _ _ => False | _ => True end.

Fixpoint number_from {A} (n : nat) (l : list A) : list (nat * A) :=
  match l with [] => [] | x :: t => (n, x) :: number_from (S n) t end.

Lemma number_from_length {A} (l : list A) : forall n, length (number_from n l) = length l.
Proof. induction l; intros n; simpl; auto. Qed.

Lemma number_from_app {A} (l1 l2 : list A) : forall n,
  number_from n (l1 ++ l2) = number_from n l1 ++ number_from (n + length l1) l2.
Proof.
  induction l1 as [|x t IH]; intros n; simpl.
  - rewrite Nat.add_0_r. reflexivity.
  - rewrite IH. replace (S n + length t)%nat with (n + S (length t))%nat by lia. reflexivity.
Qed.

Lemma number_from_map_seq {A} (f : nat -> A) k : forall n s,
  number_from n (map f (seq s k)) = map (fun i => ((n + i)%nat, f (s + i)%nat)) (seq 0 k).
Proof.
  induction k as [|k IH]; intros n s; simpl; [reflexivity|].
  rewrite !Nat.add_0_r. f_equal. rewrite IH, <- seq_shift, map_map.
  apply map_ext. intros i. f_equal; [lia|f_equal; lia].
Qed.

Lemma number_from_ids {A} (f : A -> nat) (l : list A) : forall n,
  (forall i k, nth_error l i = Some k -> f k = (n + i)%nat) ->
  number_from n l = map (fun k => (f k, k)) l.
Proof.
  induction l as [|x t IH]; intros n H; simpl; [reflexivity|].
  rewrite (H 0%nat x eq_refl), Nat.add_0_r. f_equal. apply IH.
  intros i k Hk. rewrite (H (S i) k Hk). lia.
Qed.

Lemma number_from_map {A B} (g : A -> B) (l : list A) : forall n,
  number_from n (map g l) = map (fun p => (fst p, g (snd p))) (number_from n l).
Proof. induction l as [|x t IH]; intros n; simpl; [reflexivity|]. rewrite IH. reflexivity. Qed.

(** ** add_node *)

Lemma add_node_non_op g nd : non_op nd ->
  add_node g nd =
  mkgraph (g_inst g) (g_nodes g ++ [(g_next g, nd)])
          (app_at (g_by_type g) (ntype_code (node_type nd)) (g_next g, nd))
          (g_by_machine g) (g_by_job g) (S (g_next g)) (g_removed g ++ [false]) (g_edges g).
Proof. destruct nd; simpl; intros H; try contradiction; reflexivity. Qed.

Lemma type_row_add_node g nd t :
  (ntype_code (node_type nd) < length (g_by_type g))%nat ->
  type_row (add_node g nd) t =
  type_row g t ++ (if is_type t (g_next g, nd) then [(g_next g, nd)] else []).
Proof.
  intros Hlen. unfold type_row, is_type. cbn [snd].
  assert (E : g_by_type (add_node g nd) = app_at (g_by_type g) (ntype_code (node_type nd)) (g_next g, nd))
    by (destruct nd; reflexivity).
  rewrite E. destruct (ntype_code (node_type nd) =? ntype_code t)%nat eqn:Ec.
  - apply Nat.eqb_eq in Ec. rewrite <- Ec. apply nth_app_at_eq. exact Hlen.
  - apply Nat.eqb_neq in Ec. rewrite nth_app_at_neq by exact Ec. rewrite app_nil_r. reflexivity.
Qed.

Lemma length_by_type_add_node g nd : length (g_by_type (add_node g nd)) = length (g_by_type g).
Proof. destruct nd; simpl; apply length_app_at. Qed.

(** ** per-machine contributions *)

Lemma In_const_filter (m n : nat) (ms : list nat) (u : nat) :
  In u (map (fun _ : nat => n) (filter (Nat.eqb m) ms)) <-> u = n /\ In m ms.
Proof.
  rewrite in_map_iff. split.
  - intros (x & <- & Hx). apply filter_In in Hx. destruct Hx as [Hx E]. apply Nat.eqb_eq in E. subst. auto.
  - intros [-> H]. exists m. split; [reflexivity|]. apply filter_In. split; [exact H|apply Nat.eqb_refl].
Qed.

Lemma In_selm I m l : forall n u,
  In u (selm I m n l) <-> exists i k, nth_error l i = Some k /\ u = (n + i)%nat /\ In m (kmachines I k).
Proof.
  induction l as [|k t IH]; intros n u; simpl.
  - split; [tauto|]. intros ([|i] & k & H & _); discriminate.
  - rewrite in_app_iff, In_const_filter, IH. split.
    + intros [[-> H]|(i & k' & Hi & -> & Hm)].
      * exists 0%nat, k. simpl. repeat split; auto; lia.
      * exists (S i), k'. simpl. repeat split; auto; lia.
    + intros ([|i] & k' & Hi & -> & Hm); simpl in Hi.
      * inversion Hi; subst. left. split; [lia|exact Hm].
      * right. exists i, k'. repeat split; auto; lia.
Qed.

Lemma filter_eqb_nodup m (ms : list nat) : NoDup ms -> filter (Nat.eqb m) ms = [] \/ filter (Nat.eqb m) ms = [m].
Proof.
  induction ms as [|x t IH]; intros H; simpl; [auto|]. inversion H as [|? ? Hni Hnd]; subst.
  destruct (m =? x)%nat eqn:E.
  - apply Nat.eqb_eq in E. subst x. right. f_equal.
    destruct (filter (Nat.eqb m) t) as [|y r] eqn:F; [reflexivity|].
    assert (Hy : In y (filter (Nat.eqb m) t)) by (rewrite F; left; reflexivity).
    apply filter_In in Hy. destruct Hy as [Hy Ey]. apply Nat.eqb_eq in Ey. subst. contradiction.
  - apply IH. exact Hnd.
Qed.

Lemma NoDup_selm I m l :
  (forall k, In k l -> NoDup (kmachines I k)) -> forall n, NoDup (selm I m n l).
Proof.
  induction l as [|k t IH]; intros H n; simpl; [constructor|].
  assert (Ht : NoDup (selm I m (S n) t)) by (apply IH; intros k' Hk'; apply H; right; exact Hk').
  destruct (filter_eqb_nodup m (kmachines I k) (H k (or_introl eq_refl))) as [-> | ->]; simpl; [exact Ht|].
  constructor; [|exact Ht]. intros Hin. apply In_selm in Hin. destruct Hin as (i & k' & _ & E & _). lia.
Qed.

(** ** adding the operation nodes *)

Lemma add_nodes_ops l : forall g,
  let g' := add_nodes g (map opn l) in
  g_inst g' = g_inst g /\ g_edges g' = g_edges g /\
  g_nodes g' = g_nodes g ++ number_from (g_next g) (map opn l) /\
  g_next g' = (g_next g + length l)%nat /\
  g_removed g' = g_removed g ++ repeat false (length l) /\
  length (g_by_type g') = length (g_by_type g) /\
  ((0 < length (g_by_type g))%nat -> forall t,
     type_row g' t = type_row g t ++ filter (is_type t) (number_from (g_next g) (map opn l))) /\
  length (g_by_job g') = length (g_by_job g) /\
  length (g_by_machine g') = length (g_by_machine g) /\
  (forall j, (j < length (g_by_job g))%nat ->
     nth j (g_by_job g') [] = nth j (g_by_job g) [] ++ sel j (g_next g) l) /\
  (forall m, (m < length (g_by_machine g))%nat ->
     nth m (g_by_machine g') [] = nth m (g_by_machine g) [] ++ selm (g_inst g) m (g_next g) l).
Proof.
  induction l as [|k t IH]; intros g; cbn zeta.
  - simpl. rewrite !app_nil_r, Nat.add_0_r. repeat split; auto; intros; rewrite app_nil_r; reflexivity.
  - cbn [map add_nodes fold_left]. fold (add_nodes (add_node g (opn k)) (map opn t)).
    specialize (IH (add_node g (opn k))). cbn zeta in IH.
    destruct IH as (I1 & I2 & I3 & I4 & I5 & I6 & I7 & I8 & I9 & I10 & I11).
    set (g' := add_nodes (add_node g (opn k)) (map opn t)) in *.
    assert (Eby_job : g_by_job (add_node g (opn k)) = app_at (g_by_job g) (fst k) (g_next g)) by reflexivity.
    assert (Eby_m : g_by_machine (add_node g (opn k)) =
                    fold_left (fun rows m => app_at rows m (g_next g)) (kmachines (g_inst g) (fst k, snd k))
                              (g_by_machine g)) by reflexivity.
    assert (Enext : g_next (add_node g (opn k)) = S (g_next g)) by reflexivity.
    assert (Einst : g_inst (add_node g (opn k)) = g_inst g) by reflexivity.
    rewrite Enext in *. rewrite Einst in *.
    split; [exact I1|]. split; [rewrite I2; reflexivity|].
    split; [rewrite I3; simpl; rewrite <- app_assoc; reflexivity|].
    split; [rewrite I4; simpl; lia|].
    split; [rewrite I5; simpl; rewrite <- app_assoc; reflexivity|].
    split; [rewrite I6; apply length_by_type_add_node|].
    split.
    { intros Hlen ty. rewrite I7 by (rewrite length_by_type_add_node; exact Hlen).
      rewrite type_row_add_node by (simpl; exact Hlen).
      rewrite <- app_assoc. f_equal. cbn [number_from map filter].
      destruct (is_type ty (g_next g, opn k)); reflexivity. }
    split; [rewrite I8, Eby_job; apply length_app_at|].
    split; [rewrite I9, Eby_m; apply fold_app_at_length|].
    split.
    + intros j Hj. rewrite I10 by (rewrite Eby_job, length_app_at; exact Hj).
      rewrite Eby_job. cbn [sel]. rewrite app_assoc. f_equal.
      destruct (fst k =? j)%nat eqn:E.
      * apply Nat.eqb_eq in E. subst j. apply nth_app_at_eq. exact Hj.
      * apply Nat.eqb_neq in E. rewrite nth_app_at_neq by exact E. rewrite app_nil_r. reflexivity.
    + intros m Hm. rewrite I11 by (rewrite Eby_m, fold_app_at_length; exact Hm).
      rewrite Eby_m. cbn [selm]. rewrite app_assoc. f_equal.
      rewrite fold_app_at_nth by exact Hm. destruct k; reflexivity.
Qed.

(** ** The invariant *)

Record stage (I : instance) (g : graph) (nodes : list (nat * node)) (writes : list edge) : Prop := {
  st_inst : g_inst g = I;
  st_nodes : g_nodes g = nodes;
  st_next : g_next g = length nodes;
  st_removed : g_removed g = repeat false (length nodes);
  st_edges : g_edges g = fold_left set_edge' writes [];
  st_len_type : length (g_by_type g) = 6%nat;
  st_types : forall t, type_row g t = filter (is_type t) nodes;
  st_by_job : forall j, nth j (g_by_job g) [] = map (op_id I j) (seq 0 (length (get_job I j)));
  st_len_job : length (g_by_job g) = num_jobs I;
  st_by_machine : forall m u, In u (nth m (g_by_machine g) []) <->
                  exists j p o, get_op I j p = Some o /\ u = op_id I j p /\ In m (machines o);
  st_machine_nodup : nodup_machines I -> forall m, NoDup (nth m (g_by_machine g) []);
  st_len_machine : length (g_by_machine g) = num_machines I
}.

Lemma op_nodes_number I : number_from 0 (map opn (all_keys I)) = op_nodes I.
Proof.
  rewrite number_from_map.
  rewrite (number_from_ids (fun k => op_id I (fst k) (snd k))).
  - unfold op_nodes. rewrite map_map. reflexivity.
  - intros i [j p] H. apply all_keys_nth in H. simpl. destruct H as [_ ->]. reflexivity.
Qed.

Lemma length_op_nodes I : length (op_nodes I) = num_ops I.
Proof. unfold op_nodes. rewrite map_length. apply length_all_keys. Qed.

Lemma filter_all {A} (f : A -> bool) (l : list A) b :
  (forall x, In x l -> f x = b) -> filter f l = if b then l else [].
Proof.
  induction l as [|x t IH]; intros H; simpl; [destruct b; reflexivity|].
  rewrite (H x (or_introl eq_refl)). rewrite IH by (intros y Hy; apply H; right; exact Hy).
  destruct b; reflexivity.
Qed.

Lemma filter_op_nodes I t :
  filter (is_type t) (op_nodes I) = if (ntype_code t =? 0)%nat then op_nodes I else [].
Proof.
  apply filter_all. intros x Hx. unfold op_nodes in Hx. apply in_map_iff in Hx.
  destruct Hx as (k & <- & _). unfold is_type. simpl. destruct t; reflexivity.
Qed.

Lemma nth_repeat_nil {A} n i : nth i (repeat (@nil A) n) [] = [].
Proof. apply nth_repeat_default. Qed.

Theorem stage_new I : stage I (new_graph I) (op_nodes I) [].
Proof.
  unfold new_graph, add_operation_nodes.
  change (g_inst (init_graph I)) with I.
  change (map (fun k : nat * nat => OpNode (fst k) (snd k)) (all_keys I)) with (map opn (all_keys I)).
  pose proof (add_nodes_ops (all_keys I) (init_graph I)) as H. cbn zeta in H.
  set (g := add_nodes (init_graph I) (map opn (all_keys I))) in *.
  destruct H as (H1 & H2 & H3 & H4 & H5 & H6 & H7 & H8 & H9 & H10 & H11).
  simpl in H1, H2, H3, H4, H5, H6, H8, H9. rewrite op_nodes_number in H3.
  rewrite repeat_length in H8, H9. rewrite length_all_keys in H4, H5.
  constructor.
  - exact H1.
  - exact H3.
  - rewrite H4, length_op_nodes. reflexivity.
  - rewrite H5, length_op_nodes. reflexivity.
  - rewrite H2. reflexivity.
  - exact H6.
  - intros t. rewrite H7 by (simpl; lia). change (g_next (init_graph I)) with 0%nat.
    rewrite op_nodes_number. unfold type_row. simpl.
    destruct t; reflexivity.
  - intros j. destruct (Nat.lt_ge_cases j (num_jobs I)) as [Hj|Hj].
    + rewrite H10 by (simpl; rewrite repeat_length; exact Hj). simpl g_by_job. rewrite nth_repeat_nil.
      simpl. unfold all_keys. rewrite sel_all_keys_from. simpl. rewrite Nat.sub_0_r. reflexivity.
    + rewrite nth_overflow by (rewrite H8; exact Hj).
      unfold get_job. rewrite nth_overflow by exact Hj. reflexivity.
  - rewrite H8. reflexivity.
  - intros m u. destruct (Nat.lt_ge_cases m (num_machines I)) as [Hm|Hm].
    + rewrite H11 by (simpl; rewrite repeat_length; exact Hm). simpl g_by_machine. rewrite nth_repeat_nil.
      simpl. rewrite In_selm. split.
      * intros (i & [j p] & Hi & -> & Hin). apply all_keys_nth in Hi. destruct Hi as ((o & Ho) & ->).
        rewrite (kmachines_of _ _ _ _ Ho) in Hin. exists j, p, o. auto.
      * intros (j & p & o & Ho & -> & Hin). exists (op_id I j p), (j, p).
        split; [apply all_keys_nth; eauto|]. split; [reflexivity|].
        rewrite (kmachines_of _ _ _ _ Ho). exact Hin.
    + rewrite nth_overflow by (rewrite H9; exact Hm). split; [intros []|].
      intros (j & p & o & Ho & _ & Hin). pose proof (machine_lt _ _ _ _ _ Ho Hin). lia.
  - intros Hnd m. destruct (Nat.lt_ge_cases m (num_machines I)) as [Hm|Hm].
    + rewrite H11 by (simpl; rewrite repeat_length; exact Hm). simpl g_by_machine. rewrite nth_repeat_nil.
      simpl. apply NoDup_selm. intros [j p] Hk. apply In_all_keys in Hk. destruct Hk as [o Ho].
      rewrite (kmachines_of _ _ _ _ Ho). eapply Hnd; eauto.
    + rewrite nth_overflow by (rewrite H9; exact Hm). constructor.
  - rewrite H9. reflexivity.
Qed.

Theorem stage_add_node I g nodes w nd :
  non_op nd -> stage I g nodes w -> stage I (add_node g nd) (nodes ++ [(length nodes, nd)]) w.
Proof.
  intros Hn [S1 S2 S3 S4 S5 S6 S7 S8 S9 S10 S11 S12].
  assert (Hrow : forall t, type_row (add_node g nd) t = filter (is_type t) (nodes ++ [(length nodes, nd)])).
  { intros t. rewrite type_row_add_node by (rewrite S6; destruct nd; simpl; lia).
    rewrite filter_app, S7, S3. reflexivity. }
  assert (Hlen : length (g_by_type (add_node g nd)) = 6%nat) by (rewrite length_by_type_add_node; exact S6).
  rewrite (add_node_non_op g nd Hn) in *.
  constructor; cbn [g_inst g_nodes g_next g_removed g_edges g_by_job g_by_machine]; auto.
  - rewrite S2, S3. reflexivity.
  - rewrite app_length, S3. simpl. lia.
  - rewrite app_length, S4. simpl. rewrite repeat_app. reflexivity.
Qed.

Theorem stage_add_nodes I nds : forall g nodes w,
  (forall nd, In nd nds -> non_op nd) -> stage I g nodes w ->
  stage I (add_nodes g nds) (nodes ++ number_from (length nodes) nds) w.
Proof.
  induction nds as [|nd t IH]; intros g nodes w Hn Hs; simpl.
  - rewrite app_nil_r. exact Hs.
  - fold (add_nodes (add_node g nd) t).
    pose proof (IH (add_node g nd) (nodes ++ [(length nodes, nd)]) w
                   (fun x Hx => Hn x (or_intror Hx))
                   (stage_add_node I g nodes w nd (Hn nd (or_introl eq_refl)) Hs)) as H.
    rewrite app_length in H. simpl in H. rewrite Nat.add_1_r, <- app_assoc in H. exact H.
Qed.

Lemma stage_has_node I g nodes w u : stage I g nodes w -> (u < length nodes)%nat -> has_node g u = true.
Proof.
  intros Hs Hu. unfold has_node. rewrite (st_next _ _ _ _ Hs), (st_removed _ _ _ _ Hs).
  apply andb_true_iff. split; [apply Nat.ltb_lt; exact Hu|].
  rewrite nth_repeat by exact Hu. reflexivity.
Qed.

Theorem stage_add_edges I g nodes w l :
  stage I g nodes w ->
  (forall u v t, In (u, v, t) l -> (u < length nodes)%nat /\ (v < length nodes)%nat) ->
  exists g', add_edges g l = Some g' /\ stage I g' nodes (w ++ l) /\
             g_by_type g' = g_by_type g /\ g_by_job g' = g_by_job g /\ g_by_machine g' = g_by_machine g.
Proof.
  intros Hs Hl. exists (with_edges g (fold_left set_edge' l (g_edges g))). split.
  - apply add_edges_ok. intros [[u v] t] He. destruct (Hl u v t He) as [Hu Hv].
    split; eapply stage_has_node; eauto.
  - split; [|auto]. destruct Hs as [S1 S2 S3 S4 S5 S6 S7 S8 S9 S10 S11 S12].
    constructor; cbn [with_edges g_inst g_nodes g_next g_removed g_edges g_by_job g_by_machine g_by_type]; auto.
    rewrite fold_left_app, S5. reflexivity.
Qed.
