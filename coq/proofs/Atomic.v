(** Atomic.v — C09: a rejected request (dispatch or environment step) leaves
    the WHOLE world (dispatcher fields, schedule, cache, every observer,
    subscriber list) as it was, and the continuation behaves as if the
    rejected request had never been made. *)
From JSL Require Import Base Instance Dstate Filters World Feasible ListFacts DispatchFun Run.

Section Atomic.
  Variable O : Type.
  Variable o_update : instance -> list fname -> dstate -> sop -> O -> O.
  Variable I : instance.

  (** requests: a dispatch or an environment step *)
  Inductive areq := RDispatch (r : request) | RStep (j : nat) (m : Z).
  Definition do_req (a : areq) : M O unit :=
    match a with RDispatch r => dispatch o_update I r | RStep j m => env_step o_update I j m end.
  Definition step_a (w : world O) (a : areq) : world O := fst (do_req a w).
  Definition rejected (w : world O) (a : areq) : Prop := exists e, snd (do_req a w) = inr e.
  Definition run_a (w : world O) (l : list areq) : world O := fold_left step_a l w.

  Theorem rejected_changes_nothing w a : rejected w a -> step_a w a = w.
  Proof.
    intros [e He]. unfold step_a. destruct (do_req a w) as [w' res] eqn:E. simpl in *. subst res.
    destruct a as [r|j m]; simpl in E.
    - eapply dispatch_atomic; eauto.
    - eapply env_step_atomic; eauto.
  Qed.

  Theorem as_if_never_made w l1 a l2 :
    rejected (run_a w l1) a -> run_a w (l1 ++ a :: l2) = run_a w (l1 ++ l2).
  Proof.
    intros H. unfold run_a in *. rewrite !fold_left_app. simpl.
    rewrite (rejected_changes_nothing _ _ H). reflexivity.
  Qed.

  (** the kinds of bad request the property names are all rejected *)
  Theorem not_next_rejected w r :
    nthN (jnext (core w)) (r_job r) <> r_pos r -> rejected w (RDispatch r).
  Proof.
    intros H. unfold rejected. simpl. rewrite dispatch_is_pure. unfold dispatch_pure.
    destruct (get_op I (r_job r) (r_pos r)); [|eexists; reflexivity].
    destruct (nthN (jnext (core w)) (r_job r) =? r_pos r)%nat eqn:E; [|eexists; reflexivity].
    apply Nat.eqb_eq in E. contradiction.
  Qed.

  Theorem ineligible_machine_rejected w r m o :
    r_mach r = Some m -> get_op I (r_job r) (r_pos r) = Some o ->
    (forall k, In k (machines o) -> Z.of_nat k <> m) ->       (* out-of-range and negative ids included *)
    rejected w (RDispatch r).
  Proof.
    intros Hm Ho Hne. unfold rejected. simpl. rewrite dispatch_is_pure. unfold dispatch_pure.
    rewrite Ho. destruct (nthN (jnext (core w)) (r_job r) =? r_pos r)%nat; [|eexists; reflexivity].
    unfold resolve_pure. rewrite Hm.
    destruct (py_index (length (mfree (core w))) m); [|eexists; reflexivity].
    destruct (existsb (fun k : nat => Z.of_nat k =? m) (machines o)) eqn:E; [|eexists; reflexivity].
    apply existsb_exists in E. destruct E as (k & Hk & Hkm). apply Z.eqb_eq in Hkm.
    exfalso. apply (Hne k Hk Hkm).
  Qed.

  Theorem finished_job_step_rejected w j m :
    (length (get_job I j) <= nthN (jnext (core w)) j)%nat -> rejected w (RStep j m).
  Proof.
    intros H. unfold rejected. simpl. unfold env_step, bind, get, raise.
    apply Nat.leb_le in H. rewrite H. eexists; reflexivity.
  Qed.
End Atomic.
