(** FeatureComposite.v — C11: the composite observer equals the column-wise
    concatenation of its components after every dispatch, provided none of
    its components is notified after it; constructors never raise; the shape
    of the systems the constructors build at the initial state. *)
From JSL Require Import Base Instance Dstate Filters World Observers Feasible ListFacts DispatchFun Inv Run
     Derived Tracking Replay OpIds Partition FeatureObservers FeatureBase FeatureSimple FeatureSpec FeatureProofs
     FeatureEst.
From Coq Require Import Lia Permutation.

Lemma fo_comps_init_simple I fs d o : fo_comps (init_simple I fs d o) = fo_comps o.
Proof. unfold init_simple, est_features. destruct (fo_kind o); reflexivity. Qed.
Lemma fo_cnames_init_simple I fs d o : fo_cnames (init_simple I fs d o) = fo_cnames o.
Proof. unfold init_simple, est_features. destruct (fo_kind o); reflexivity. Qed.

Lemma fo_comps_upd_obs I fs d x s o : fo_comps (upd_obs I fs d x s o) = fo_comps o.
Proof. unfold upd_obs. destruct (fo_kind o) eqn:E; try reflexivity. apply fo_comps_init_simple. Qed.
Lemma fo_cnames_upd_obs I fs d x s o : fo_cnames (upd_obs I fs d x s o) = fo_cnames o.
Proof. unfold upd_obs. destruct (fo_kind o) eqn:E; try reflexivity. apply fo_cnames_init_simple. Qed.

(** [comp_mats] reads the components only *)
Lemma comp_mats_ext s s' cs : (forall i, In i cs -> fget s i = fget s' i) -> comp_mats s cs = comp_mats s' cs.
Proof.
  intros H. unfold comp_mats. apply map_ext. intros t. f_equal.
  induction cs as [|c r IH]; [reflexivity|]. simpl. rewrite (H c (or_introl eq_refl)).
  rewrite IH by (intros i Hi; apply H; right; exact Hi). reflexivity.
Qed.

Section Composite.
  Variable I : instance.
  Variable fs : list fname.

  Lemma fold_update_other d x l : forall s j, ~ In j l ->
    nth_error (f_objs (fold_left (update_one I fs d x) l s)) j = nth_error (f_objs s) j.
  Proof.
    induction l as [|a t IH]; intros s j Hn; simpl; [reflexivity|].
    rewrite IH by (intro H; apply Hn; right; exact H).
    apply nth_error_update_one_neq. intro; subst. apply Hn. left; reflexivity.
  Qed.

  Lemma fget_fold_other d x l s j : ~ In j l -> fget (fold_left (update_one I fs d x) l s) j = fget s j.
  Proof.
    intros H. unfold fget. pose proof (fold_update_other d x l s j H) as E.
    destruct (nth_error (f_objs s) j) as [o|] eqn:Eo.
    - rewrite (nth_error_nth _ _ _ E), (nth_error_nth _ _ _ Eo). reflexivity.
    - rewrite !nth_overflow; [reflexivity|apply nth_error_None; exact Eo|apply nth_error_None; exact E].
  Qed.

  (** kind / components / names of every object are preserved by notifications *)
  Lemma fold_update_static d x l : forall s j o,
    nth_error (f_objs s) j = Some o ->
    exists o', nth_error (f_objs (fold_left (update_one I fs d x) l s)) j = Some o' /\
               fo_kind o' = fo_kind o /\ fo_comps o' = fo_comps o /\ fo_cnames o' = fo_cnames o.
  Proof.
    induction l as [|a t IH]; intros s j o Ho; simpl; [exists o; auto|].
    destruct (Nat.eq_dec a j) as [->|Hne].
    - destruct (IH (update_one I fs d x s j) j _ (nth_error_update_one_eq I fs d x s j o Ho))
        as (o' & H1 & H2 & H3 & H4).
      exists o'. rewrite H1, H2, H3, H4, fo_kind_upd_obs, fo_comps_upd_obs, fo_cnames_upd_obs. auto.
    - apply IH. rewrite nth_error_update_one_neq by exact Hne. exact Ho.
  Qed.

  (** the composite at [c] is notified after all its components *)
  Definition after_components (s : fsys) (c : nat) (o : fobs) : Prop :=
    nth_error (f_objs s) c = Some o /\ fo_kind o = FComposite /\ ~ In c (fo_comps o) /\
    exists pre post, f_subs s = pre ++ c :: post /\ ~ In c post /\ forall i, In i post -> ~ In i (fo_comps o).

  Theorem composite_after_update d x s c o :
    after_components s c o ->
    exists o', nth_error (f_objs (f_update I fs d x s)) c = Some o' /\
               after_components (f_update I fs d x s) c o' /\
               fo_comps o' = fo_comps o /\ fo_cnames o' = fo_cnames o /\
               fo_cmat o' = comp_mats (f_update I fs d x s) (fo_comps o).
  Proof.
    intros (Ho & K & Hself & pre & post & Hsubs & Hc & Hpost).
    unfold f_update. rewrite Hsubs, fold_left_app. cbn [fold_left].
    set (s1 := fold_left (update_one I fs d x) pre s).
    destruct (fold_update_static d x pre s c o Ho) as (o1 & Ho1 & K1 & C1 & N1). fold s1 in Ho1.
    set (s2 := update_one I fs d x s1 c).
    assert (Ho2 : nth_error (f_objs s2) c = Some (upd_obs I fs d x s1 o1)) by (apply nth_error_update_one_eq; exact Ho1).
    set (s3 := fold_left (update_one I fs d x) post s2).
    assert (Ho3 : nth_error (f_objs s3) c = Some (upd_obs I fs d x s1 o1)).
    { unfold s3. rewrite fold_update_other by exact Hc. exact Ho2. }
    assert (Hform : upd_obs I fs d x s1 o1 = set_comp o1 (fo_comps o) (comp_mats s1 (fo_comps o)) (fo_cnames o1)).
    { unfold upd_obs. rewrite K1, K, C1. reflexivity. }
    exists (upd_obs I fs d x s1 o1). split; [exact Ho3|]. rewrite Hform. cbn [fo_comps fo_cnames fo_cmat set_comp fo_kind].
    split; [|split; [reflexivity|split; [exact N1|]]].
    - split; [rewrite <- Hform; exact Ho3|]. cbn [fo_kind fo_comps set_comp]. split; [rewrite K1; exact K|].
      split; [exact Hself|]. exists pre, post.
      split; [|split; assumption].
      change s3 with (fold_left (update_one I fs d x) post (update_one I fs d x s1 c)).
      rewrite f_subs_fold_update, f_subs_update_one. unfold s1. rewrite f_subs_fold_update. exact Hsubs.
    - transitivity (comp_mats s2 (fo_comps o)).
      + apply comp_mats_ext. intros i Hi. unfold s2, fget.
        assert (Hne : c <> i) by (intro; subst; contradiction).
        pose proof (nth_error_update_one_neq I fs d x s1 c i Hne) as E.
        destruct (nth_error (f_objs s1) i) as [oi|] eqn:Eo.
        * rewrite (nth_error_nth _ _ _ E), (nth_error_nth _ _ _ Eo). reflexivity.
        * rewrite !nth_overflow; [reflexivity|apply nth_error_None; exact E|apply nth_error_None; exact Eo].
      + apply comp_mats_ext. intros i Hi. symmetry. apply fget_fold_other. intro Hin. apply (Hpost i Hin Hi).
  Qed.

  (** along any request list *)
  Theorem composite_after_run s0 c o0 :
    after_components s0 c o0 -> fo_cmat o0 = comp_mats s0 (fo_comps o0) ->
    forall rs d, exists s' o',
      run_from fsys f_update I (fw fs d s0) rs = fw fs (fold_left (apply_req I) rs d) s' /\
      nth_error (f_objs s') c = Some o' /\ fo_comps o' = fo_comps o0 /\ fo_cnames o' = fo_cnames o0 /\
      fo_cmat o' = comp_mats s' (fo_comps o0).
  Proof.
    intros Hac Hm rs. revert s0 o0 Hac Hm. induction rs as [|r t IH]; intros s0 o0 Hac Hm d.
    - exists s0, o0. simpl. destruct Hac as (Ho & _). auto.
    - unfold run_from in *. simpl. rewrite fw_step.
      destruct (sop_of_request I d r) as [x|] eqn:E.
      + assert (Hreq : apply_req I d r = apply_sop I d x (row_of d x)) by (unfold apply_req; rewrite E; reflexivity).
        rewrite Hreq. cbv zeta. set (d' := apply_sop I d x (row_of d x)).
        destruct (composite_after_update d' x s0 c o0 Hac) as (o1 & Ho1 & Hac1 & C1 & N1 & M1).
        rewrite <- C1 in M1.
        destruct (IH _ o1 Hac1 M1 d') as (s' & o' & H1 & H2 & H3 & H4 & H5).
        exists s', o'. rewrite H1, H3, H4, H5, C1, N1. auto.
      + assert (Hreq : apply_req I d r = d) by (unfold apply_req; rewrite E; reflexivity).
        rewrite Hreq. apply IH; assumption.
  Qed.
End Composite.

(** ** Constructors never raise (model of the repaired tree) *)
Theorem constructible I fs d k m cs s :
  k <> FComposite -> k <> FUnsched -> ftm_sub m (supported k) = true ->
  exists s' i, f_new I fs d k m cs s = (s', inl i).
Proof.
  intros H1 H2 Hs. unfold f_new. rewrite Hs. cbn [negb].
  destruct k; try contradiction.
  - destruct (fappend s (init_simple I fs d (zero_obj I FIsReady m))) as [s1 i]. eauto.
  - destruct (fappend s (init_simple I fs d (set_est (zero_obj I FEst m) (est0 I)))) as [s1 i]. eauto.
  - destruct (fappend s (init_simple I fs d (zero_obj I FDuration m))) as [s1 i]. eauto.
  - destruct (fappend s (init_simple I fs d (zero_obj I FIsScheduled m))) as [s1 i]. eauto.
  - destruct (fappend s (init_simple I fs d (zero_obj I FPosInJob m))) as [s1 i]. eauto.
  - destruct (new_remops I d m s) as [s1 i]. eauto.
  - destruct (fappend s (set_rem (zero_obj I FIsCompleted m) (zeros (num_machines I)) (zeros (num_jobs I)))) as [s1 i]. eauto.
Qed.

(** ** The systems the constructors build at the initial state *)
Section Fresh.
  Variable I : instance.
  Variable fs : list fname.

  Lemma all_sops_init : all_sops (sched (init_d I)) = [].
  Proof. unfold all_sops, init_d. cbn [sched]. apply concat_repeat_nil. Qed.

  Lemma unsched_obj_init : unsched_obj I (init_d I) = set_dq (blank FUnsched) (all_deques I).
  Proof. unfold unsched_obj. rewrite all_sops_init. reflexivity. Qed.

  Lemma nodup0 : NoDup [0%nat]. Proof. constructor; [simpl; tauto|constructor]. Qed.
  Lemma nodup01 : NoDup [0%nat; 1%nat].
  Proof. constructor; [simpl; intuition discriminate|]. constructor; [simpl; tauto|constructor]. Qed.
  Lemma nodup012 : NoDup [0%nat; 1%nat; 2%nat].
  Proof. constructor; [simpl; intuition discriminate|]. constructor; [simpl; intuition discriminate|]. constructor; [simpl; tauto|constructor]. Qed.

  Definition new_sys (k : fkind) (m : ftm) : fsys := fst (f_new I fs (init_d I) k m None empty_sys).

  Lemma new_simple k m : k = FIsReady \/ k = FDuration \/ k = FIsScheduled \/ k = FPosInJob ->
    ftm_sub m (supported k) = true -> placed (new_sys k m) 0 (fresh I fs k m).
  Proof.
    intros Hk Hs. unfold new_sys, f_new. rewrite Hs. cbn [negb].
    destruct Hk as [-> | [-> | [-> | ->]]]; cbn; (split; [apply nodup0|split; [left; reflexivity|reflexivity]]).
  Qed.

  Lemma new_est m : placed (new_sys FEst m) 0 (fresh_est I fs m).
  Proof.
    unfold new_sys, f_new. replace (ftm_sub m (supported FEst)) with true
      by (destruct m as [[] [] []]; reflexivity). cbn.
    split; [apply nodup0|split; [left; reflexivity|reflexivity]].
  Qed.

  Lemma new_rem m : t_ops m = false -> placed (new_sys FRemOps m) 0 (fresh_rem I m).
  Proof.
    intros H0. unfold new_sys, f_new.
    replace (ftm_sub m (supported FRemOps)) with true by (destruct m as [[] [] []]; try discriminate; reflexivity).
    cbn [negb]. unfold new_remops, rem_initialize, get_unsched, find_sub_f, subscribed, fappend, empty_sys.
    cbn. rewrite ?unsched_obj_init. cbn. rewrite ?concat_repeat_nil. cbn.
    split; [apply nodup01|split; [left; reflexivity|reflexivity]].
  Qed.

  Lemma new_comp m : placed (new_sys FIsCompleted m) 0 (fresh_comp I m).
  Proof.
    unfold new_sys, f_new.
    replace (ftm_sub m (supported FIsCompleted)) with true by (destruct m as [[] [] []]; reflexivity).
    cbn [negb]. unfold comp_initialize, get_remops, new_remops, rem_initialize, get_unsched, find_sub_f, subscribed,
      fappend, empty_sys.
    destruct m as [mo mm mj]. cbn. rewrite ?unsched_obj_init. cbn. rewrite ?concat_repeat_nil. cbn.
    split; [apply nodup012|split; [left; reflexivity|]].
    unfold fresh_comp, zero_obj, set_rem, set_feats, blank, when. cbn.
    rewrite ?unscheduled_init.
    destruct mo, mm, mj; cbn; rewrite <- ?remj_vec_init; reflexivity.
  Qed.
End Fresh.
