(** FramesProofs.v — lemmas behind the padding clauses of C20
    (model/Frames.v: [_pad_to_common_shape]). *)
From JSL Require Import Base Frames.
From Coq Require Import Lia.

(** A numpy array is rectangular: as many rows as its height, each as long as
    its width. *)
Definition wf_image (i : image) : Prop :=
  length (i_px i) = i_h i /\ Forall (fun r => length r = i_w i) (i_px i).

Definition same_shape (i j : image) : Prop := i_h i = i_h j /\ i_w i = i_w j.

Lemma list_max0_ge l x : In x l -> (x <= list_max0 l)%nat.
Proof.
  induction l as [|a l IH]; simpl; [tauto|]. intros [->|Hin]; [lia|].
  specialize (IH Hin). lia.
Qed.

Lemma list_max0_const l n : (forall x, In x l -> x = n) -> l <> [] -> list_max0 l = n.
Proof.
  induction l as [|a l IH]; intros Hall Hne; [congruence|].
  simpl. assert (Ha : a = n) by (apply Hall; left; reflexivity). subst a.
  destruct l as [|b l]; [simpl; lia|].
  rewrite IH; [lia| |discriminate]. intros x Hx. apply Hall. right. exact Hx.
Qed.

Lemma nth_tab {A : Type} (f : nat -> A) n k d :
  (k < n)%nat -> nth k (map f (seq 0 n)) d = f k.
Proof.
  intros Hk. rewrite (nth_indep _ d (f 0%nat)) by (rewrite map_length, seq_length; exact Hk).
  rewrite map_nth, seq_nth by exact Hk. reflexivity.
Qed.

(** * One padded image *)

Lemma pad_to_shape H W i : i_h (pad_to H W i) = H /\ i_w (pad_to H W i) = W.
Proof. split; reflexivity. Qed.

Lemma pad_to_wf H W i : wf_image (pad_to H W i).
Proof.
  split; cbn [pad_to i_px i_h i_w].
  - rewrite map_length, seq_length. reflexivity.
  - apply Forall_forall. intros r Hr. apply in_map_iff in Hr. destruct Hr as [k [<- _]].
    rewrite map_length, seq_length. reflexivity.
Qed.

Lemma pad_to_px H W i r c :
  (r < H)%nat -> (c < W)%nat ->
  px (pad_to H W i) r c = if (r <? i_h i)%nat && (c <? i_w i)%nat then px i r c else WHITE.
Proof.
  intros Hr Hc. unfold px at 1. cbn [pad_to i_px].
  rewrite (nth_tab _ H r [] Hr). rewrite (nth_tab _ W c 0 Hc). reflexivity.
Qed.

(** * The list *)

Lemma pad_length imgs : length (pad_to_common_shape imgs) = length imgs.
Proof. unfold pad_to_common_shape. apply map_length. Qed.

Lemma pad_nth_error imgs k :
  nth_error (pad_to_common_shape imgs) k =
  option_map (fun i => if (i_h i =? list_max0 (map i_h imgs))%nat &&
                          (i_w i =? list_max0 (map i_w imgs))%nat
                       then i else pad_to (list_max0 (map i_h imgs)) (list_max0 (map i_w imgs)) i)
             (nth_error imgs k).
Proof. unfold pad_to_common_shape. apply nth_error_map. Qed.

Lemma pad_shape imgs j :
  In j (pad_to_common_shape imgs) ->
  i_h j = list_max0 (map i_h imgs) /\ i_w j = list_max0 (map i_w imgs).
Proof.
  unfold pad_to_common_shape. intros Hin. apply in_map_iff in Hin.
  destruct Hin as [i [<- _]].
  destruct (i_h i =? _)%nat eqn:Eh; destruct (i_w i =? _)%nat eqn:Ew; cbn [andb];
    try (split; reflexivity).
  apply Nat.eqb_eq in Eh. apply Nat.eqb_eq in Ew. split; assumption.
Qed.

Lemma pad_one_shape imgs i j :
  In i (pad_to_common_shape imgs) -> In j (pad_to_common_shape imgs) -> same_shape i j.
Proof.
  intros Hi Hj. apply pad_shape in Hi. apply pad_shape in Hj. unfold same_shape.
  destruct Hi as [-> ->]. destruct Hj as [-> ->]. split; reflexivity.
Qed.

Lemma pad_wf imgs : Forall wf_image imgs -> Forall wf_image (pad_to_common_shape imgs).
Proof.
  intros Hwf. unfold pad_to_common_shape. apply Forall_forall. intros j Hin.
  apply in_map_iff in Hin. destruct Hin as [i [<- Hi]].
  destruct ((i_h i =? _)%nat && (i_w i =? _)%nat).
  - rewrite Forall_forall in Hwf. apply Hwf. exact Hi.
  - apply pad_to_wf.
Qed.

(** The k-th image handed on is the k-th image read, every pixel in place,
    and white wherever the image read had no pixel. *)
Lemma pad_pixels imgs k i :
  nth_error imgs k = Some i ->
  exists j, nth_error (pad_to_common_shape imgs) k = Some j /\
    (forall r c, (r < i_h i)%nat -> (c < i_w i)%nat -> px j r c = px i r c) /\
    (forall r c, (r < i_h j)%nat -> (c < i_w j)%nat -> ~ ((r < i_h i)%nat /\ (c < i_w i)%nat) ->
                 px j r c = WHITE).
Proof.
  intros Hk. rewrite pad_nth_error, Hk. cbn [option_map].
  set (H := list_max0 (map i_h imgs)). set (W := list_max0 (map i_w imgs)).
  assert (HiH : (i_h i <= H)%nat).
  { apply list_max0_ge. apply in_map. eapply nth_error_In. exact Hk. }
  assert (HiW : (i_w i <= W)%nat).
  { apply list_max0_ge. apply in_map. eapply nth_error_In. exact Hk. }
  destruct (i_h i =? H)%nat eqn:Eh; destruct (i_w i =? W)%nat eqn:Ew; cbn [andb].
  - exists i. split; [reflexivity|]. split; [reflexivity|]. intros r c Hr Hc Hn. tauto.
  - eexists. split; [reflexivity|]. split.
    + intros r c Hr Hc. rewrite pad_to_px by lia.
      apply Nat.ltb_lt in Hr. apply Nat.ltb_lt in Hc. rewrite Hr, Hc. reflexivity.
    + intros r c Hr Hc Hn. cbn [pad_to i_h i_w] in Hr, Hc. rewrite pad_to_px by assumption.
      destruct (r <? i_h i)%nat eqn:E1; destruct (c <? i_w i)%nat eqn:E2; cbn [andb];
        try reflexivity.
      apply Nat.ltb_lt in E1. apply Nat.ltb_lt in E2. tauto.
  - eexists. split; [reflexivity|]. split.
    + intros r c Hr Hc. rewrite pad_to_px by lia.
      apply Nat.ltb_lt in Hr. apply Nat.ltb_lt in Hc. rewrite Hr, Hc. reflexivity.
    + intros r c Hr Hc Hn. cbn [pad_to i_h i_w] in Hr, Hc. rewrite pad_to_px by assumption.
      destruct (r <? i_h i)%nat eqn:E1; destruct (c <? i_w i)%nat eqn:E2; cbn [andb];
        try reflexivity.
      apply Nat.ltb_lt in E1. apply Nat.ltb_lt in E2. tauto.
  - eexists. split; [reflexivity|]. split.
    + intros r c Hr Hc. rewrite pad_to_px by lia.
      apply Nat.ltb_lt in Hr. apply Nat.ltb_lt in Hc. rewrite Hr, Hc. reflexivity.
    + intros r c Hr Hc Hn. cbn [pad_to i_h i_w] in Hr, Hc. rewrite pad_to_px by assumption.
      destruct (r <? i_h i)%nat eqn:E1; destruct (c <? i_w i)%nat eqn:E2; cbn [andb];
        try reflexivity.
      apply Nat.ltb_lt in E1. apply Nat.ltb_lt in E2. tauto.
Qed.

(** Images that already have one shape are handed on untouched (the very
    same arrays): nothing changes for the animations that worked before. *)
Lemma pad_identity imgs :
  (forall i j, In i imgs -> In j imgs -> same_shape i j) -> pad_to_common_shape imgs = imgs.
Proof.
  intros Hsame. destruct imgs as [|i0 rest] eqn:E; [reflexivity|]. rewrite <- E in *.
  assert (Hi0 : In i0 imgs) by (rewrite E; left; reflexivity).
  assert (HH : list_max0 (map i_h imgs) = i_h i0).
  { apply list_max0_const.
    - intros x Hx. apply in_map_iff in Hx. destruct Hx as [i [<- Hi]].
      apply (Hsame i i0 Hi Hi0).
    - rewrite E. discriminate. }
  assert (HW : list_max0 (map i_w imgs) = i_w i0).
  { apply list_max0_const.
    - intros x Hx. apply in_map_iff in Hx. destruct Hx as [i [<- Hi]].
      apply (Hsame i i0 Hi Hi0).
    - rewrite E. discriminate. }
  unfold pad_to_common_shape. rewrite HH, HW.
  rewrite <- (map_id imgs) at 2. apply map_ext_in. intros i Hi.
  destruct (Hsame i i0 Hi Hi0) as [-> ->]. rewrite !Nat.eqb_refl. reflexivity.
Qed.

Lemma pad_idempotent imgs :
  pad_to_common_shape (pad_to_common_shape imgs) = pad_to_common_shape imgs.
Proof. apply pad_identity. intros i j. apply pad_one_shape. Qed.
