(** GanttProofs.v — lemmas behind C20 (charts, axes, frame names, frame
    order, replay of a history into frames). *)
From JSL Require Import Base Instance Dstate Filters World Feasible ListFacts DispatchFun Inv Run
     Gantt GanttSpec.
From Coq Require Import Lia Permutation Sorting.Sorted.
From Coq Require DecimalNat.

(** * 1. Frame names: print / parse round trip *)

Lemma remove_prefix_app p s : remove_prefix p (p ++ s) = Some s.
Proof. induction p as [|a p IH]; simpl; [reflexivity|]. rewrite Z.eqb_refl. exact IH. Qed.

Lemma str_removeprefix_app p s : str_removeprefix p (p ++ s) = s.
Proof. unfold str_removeprefix. rewrite remove_prefix_app. reflexivity. Qed.

Lemma str_removesuffix_app p s : str_removesuffix p (s ++ p) = s.
Proof.
  unfold str_removesuffix. rewrite rev_app_distr, remove_prefix_app. apply rev_involutive.
Qed.

(** Parsing the digits Coq's decimal printer emits is Coq's decimal reader. *)
Lemma parse_uint_codes u : forall acc,
  parse_digits_acc (uint_codes u) acc = Some (Nat.of_uint_acc u acc).
Proof.
  induction u as [|u IH|u IH|u IH|u IH|u IH|u IH|u IH|u IH|u IH|u IH]; intros acc;
    [reflexivity|..];
    cbn [uint_codes Nat.of_uint_acc]; rewrite Nat.tail_mul_spec;
    unfold parse_digits_acc; fold parse_digits_acc;
    set (m := (10 * acc)%nat); cbn; rewrite IH; do 2 f_equal; lia.
Qed.

Lemma parse_leading_zeros z s : parse_digits_acc (repeat 48 z ++ s) 0 = parse_digits_acc s 0.
Proof. induction z as [|z IH]; [reflexivity|]. cbn. exact IH. Qed.

Lemma py_int_nonempty s : s <> [] -> py_int s = parse_digits_acc s 0.
Proof. destruct s; [congruence|reflexivity]. Qed.

Lemma pad2_nonempty s : pad2 s <> [].
Proof.
  unfold pad2. destruct s as [|c t]; [discriminate|].
  destruct (repeat 48 (2 - length (c :: t))); discriminate.
Qed.

Theorem py_int_pad2_dec k : py_int (pad2 (dec_codes k)) = Some k.
Proof.
  rewrite py_int_nonempty by apply pad2_nonempty.
  unfold pad2, dec_codes. rewrite parse_leading_zeros, parse_uint_codes.
  f_equal. apply DecimalNat.Unsigned.of_to.
Qed.

Theorem frame_number_name k : frame_number (frame_name k) = Some k.
Proof.
  unfold frame_number, frame_name.
  rewrite str_removeprefix_app, str_removesuffix_app. apply py_int_pad2_dec.
Qed.

Lemma frame_key_name k : frame_key (frame_name k) = k.
Proof. unfold frame_key. rewrite frame_number_name. reflexivity. Qed.

(** [{k:02d}] never truncates: different frames get different files. *)
Theorem frame_name_inj k k' : frame_name k = frame_name k' -> k = k'.
Proof. intros H. rewrite <- (frame_key_name k), <- (frame_key_name k'), H. reflexivity. Qed.

Lemma name_eqb_eq a b : name_eqb a b = true <-> a = b.
Proof.
  revert b. induction a as [|x a IH]; intros [|y b]; simpl; split; intros H;
    try reflexivity; try discriminate.
  - apply andb_true_iff in H. destruct H as [H1 H2]. apply Z.eqb_eq in H1. apply IH in H2. congruence.
  - inversion H; subst. rewrite Z.eqb_refl. apply IH. reflexivity.
Qed.

Lemma name_eqb_frame i k : name_eqb (frame_name i) (frame_name k) = (i =? k)%nat.
Proof.
  destruct (Nat.eqb_spec i k) as [->|Hne].
  - apply name_eqb_eq. reflexivity.
  - destruct (name_eqb (frame_name i) (frame_name k)) eqn:E; [|reflexivity].
    apply name_eqb_eq in E. apply frame_name_inj in E. contradiction.
Qed.

(** * 2. A sorted permutation of a strictly sorted list is that list *)

Lemma sorted_perm_unique {A} (R : A -> A -> Prop) :
  (forall x y z, R x y -> R y z -> R x z) ->
  forall l1 l2, Sorted R l1 -> Sorted R l2 -> Permutation l1 l2 ->
  (forall x y, In x l1 -> In y l1 -> R x y -> R y x -> x = y) -> l1 = l2.
Proof.
  intros Htr l1 l2 H1 H2. apply Sorted_StronglySorted in H1; [|exact Htr].
  apply Sorted_StronglySorted in H2; [|exact Htr].
  revert l2 H2. induction H1 as [|a t1 Hs1 IH Hall1]; intros l2 H2 Hp Has.
  - apply Permutation_nil in Hp. subst; reflexivity.
  - destruct l2 as [|b t2]; [apply Permutation_sym, Permutation_nil in Hp; discriminate|].
    inversion H2 as [|? ? Hs2 Hall2]; subst.
    assert (Hab : a = b).
    { assert (Hb : In b (a :: t1)) by (eapply Permutation_in; [apply Permutation_sym; exact Hp|left; reflexivity]).
      assert (Ha : In a (b :: t2)) by (eapply Permutation_in; [exact Hp|left; reflexivity]).
      destruct Hb as [Hb|Hb]; [exact Hb|].
      destruct Ha as [Ha|Ha]; [symmetry; exact Ha|].
      rewrite Forall_forall in Hall1, Hall2.
      apply Has; [left; reflexivity|right; exact Hb|apply Hall1; exact Hb|apply Hall2; exact Ha]. }
    subst b. f_equal. apply IH; [exact Hs2|eapply Permutation_cons_inv; exact Hp|].
    intros x y Hx Hy. apply Has; right; assumption.
Qed.

(** * 3. Read order of the repaired [_load_images] *)

Definition decorate (l : list name) : list (nat * name) := map (fun nm => (frame_key nm, nm)) l.

Lemma decorate_names ks : decorate (map frame_name ks) = map (fun k => (k, frame_name k)) ks.
Proof.
  unfold decorate. rewrite map_map. apply map_ext. intros k. rewrite frame_key_name. reflexivity.
Qed.

Lemma sorted_keys_seq a n :
  Sorted (fun x y : nat * name => is_true (fst x <=? fst y)%nat)
         (map (fun k => (k, frame_name k)) (seq a n)).
Proof.
  revert a. induction n as [|n IH]; intros a; simpl; [constructor|].
  constructor; [apply IH|]. destruct n; simpl; constructor. simpl. apply Nat.leb_le. lia.
Qed.

Theorem load_order_frames n listing :
  Permutation listing (map frame_name (seq 1 n)) ->
  load_order listing = Some (map frame_name (seq 1 n)).
Proof.
  intros Hp. unfold load_order.
  assert (Hall : forallb (fun nm => match frame_number nm with Some _ => true | None => false end)
                         listing = true).
  { apply forallb_forall. intros nm Hin.
    apply (Permutation_in _ Hp) in Hin. apply in_map_iff in Hin. destruct Hin as (k & <- & _).
    rewrite frame_number_name. reflexivity. }
  rewrite Hall. f_equal.
  set (T := map (fun k => (k, frame_name k)) (seq 1 n)).
  assert (E : T = KeySort.sort (decorate listing)).
  { apply sorted_perm_unique with (R := fun x y : nat * name => is_true (fst x <=? fst y)%nat).
    - intros x y z Hxy Hyz. unfold is_true in *. apply Nat.leb_le in Hxy, Hyz. apply Nat.leb_le. lia.
    - apply sorted_keys_seq.
    - apply KeySort.Sorted_sort.
    - eapply perm_trans; [|apply KeySort.Permuted_sort].
      unfold T. rewrite <- decorate_names. apply Permutation_map. apply Permutation_sym; exact Hp.
    - intros x y Hx Hy Hxy Hyx. unfold T in Hx, Hy.
      apply in_map_iff in Hx. apply in_map_iff in Hy.
      destruct Hx as (k & <- & _). destruct Hy as (k' & <- & _). simpl in *.
      unfold is_true in *. apply Nat.leb_le in Hxy, Hyx. assert (k = k') by lia. subst. reflexivity. }
  fold (decorate listing). rewrite <- E. unfold T. rewrite map_map. simpl. reflexivity.
Qed.

(** * 4. Read order of the unrepaired code: string order *)

Lemma lex_leb_trans a : forall b c, lex_leb a b = true -> lex_leb b c = true -> lex_leb a c = true.
Proof.
  induction a as [|x a IH]; intros [|y b] [|z c]; simpl; try reflexivity; try discriminate.
  destruct (Z.ltb_spec x y) as [Hxy|Hxy].
  - intros _. destruct (Z.ltb_spec y z) as [Hyz|Hyz].
    + intros _. destruct (Z.ltb_spec x z); [reflexivity|lia].
    + destruct (Z.eqb_spec y z) as [->|Hne]; [|discriminate].
      intros _. destruct (Z.ltb_spec x z); [reflexivity|lia].
  - destruct (Z.eqb_spec x y) as [->|Hne]; [|discriminate].
    intros Hab. destruct (Z.ltb_spec y z) as [Hyz|Hyz]; [reflexivity|].
    destruct (Z.eqb_spec y z) as [->|Hne2]; [|discriminate].
    intros Hbc. eapply IH; eassumption.
Qed.

Lemma lex_leb_antisym a : forall b, lex_leb a b = true -> lex_leb b a = true -> a = b.
Proof.
  induction a as [|x a IH]; intros [|y b]; simpl; try reflexivity; try discriminate.
  destruct (Z.ltb_spec x y) as [Hxy|Hxy].
  - intros _. destruct (Z.ltb_spec y x); [lia|]. destruct (Z.eqb_spec y x); [lia|discriminate].
  - destruct (Z.eqb_spec x y) as [->|Hne]; [|discriminate].
    intros Hab. rewrite Z.ltb_irrefl, Z.eqb_refl. intros Hba. f_equal. apply IH; assumption.
Qed.

(** Below 100 every name has the same width, and string order is numeric order. *)
Lemma lex_consecutive_below_100 :
  forallb (fun k => lex_leb (frame_name k) (frame_name (S k))) (seq 1 98) = true.
Proof. vm_compute. reflexivity. Qed.

Lemma sorted_lex_seq a n : (1 <= a)%nat -> (a + n <= 100)%nat ->
  Sorted (fun x y : name => is_true (lex_leb x y)) (map frame_name (seq a n)).
Proof.
  revert a. induction n as [|n IH]; intros a Ha Hn; simpl; [constructor|].
  constructor; [apply IH; lia|]. destruct n; simpl; constructor.
  pose proof lex_consecutive_below_100 as H. rewrite forallb_forall in H.
  apply H. apply in_seq. lia.
Qed.

Theorem load_order_str_below_100 n listing :
  (n < 100)%nat -> Permutation listing (map frame_name (seq 1 n)) ->
  load_order_str listing = map frame_name (seq 1 n).
Proof.
  intros Hn Hp. unfold load_order_str. symmetry.
  apply sorted_perm_unique with (R := fun x y : name => is_true (lex_leb x y)).
  - intros x y z. apply lex_leb_trans.
  - apply sorted_lex_seq; lia.
  - apply LexSort.Sorted_sort.
  - eapply perm_trans; [apply Permutation_sym; exact Hp|apply LexSort.Permuted_sort].
  - intros x y _ _. apply lex_leb_antisym.
Qed.

(** * 5. Bars *)

Lemma colour_index_id N j : 0 <= j < N -> colour_index N j = j.
Proof.
  intros H. unfold colour_index. destruct (N - 1 <=? 0) eqn:E.
  - apply Z.leb_le in E. lia.
  - apply Z.leb_gt in E.
    assert (Hc : j = N - 1 \/ j < N - 1) by lia. destruct Hc as [->|Hlt].
    + replace ((N - 1) * N) with (N * (N - 1)) by ring. rewrite Z.div_mul by lia. lia.
    + replace (j * N) with (j * (N - 1) + j) by ring.
      rewrite Z.div_add_l by lia. rewrite Z.div_small by lia. lia.
Qed.

Definition row_bars (I : instance) (N : Z) (y : Z) (row : list sop) : list bar :=
  map (fun x => mkbar y (s_start x) (s_end I x - s_start x) BAR_H
                      (colour_index N (Z.of_nat (s_job x)))) row.
Fixpoint rows_bars (I : instance) (N : Z) (mi : nat) (rows : schedule) : list bar :=
  match rows with
  | [] => []
  | row :: t => row_bars I N (BASE_Y + Y_INC * Z.of_nat mi) row ++ rows_bars I N (S mi) t
  end.

Definition leg_add (N : Z) (L : legend) (x : sop) : legend :=
  if mem_nat (s_job x) (map fst L) then L
  else L ++ [(s_job x, colour_index N (Z.of_nat (s_job x)))].

Lemma fold_plot_op I N y row : forall st,
  fold_left (plot_op I N y) row st =
  (fst st ++ row_bars I N y row, fold_left (leg_add N) row (snd st)).
Proof.
  induction row as [|x row IH]; intros [A L]; simpl.
  - rewrite app_nil_r. reflexivity.
  - rewrite IH. unfold plot_op at 1 2. simpl. rewrite <- app_assoc. reflexivity.
Qed.

Lemma plot_rows_eq I N rows : forall mi st,
  plot_rows I N mi rows st =
  (fst st ++ rows_bars I N mi rows, fold_left (leg_add N) (concat rows) (snd st)).
Proof.
  induction rows as [|row t IH]; intros mi [A L]; simpl.
  - rewrite app_nil_r. reflexivity.
  - rewrite fold_plot_op, IH. simpl. rewrite <- app_assoc, fold_left_app. reflexivity.
Qed.

Lemma bars_eq_rows_bars I S : bars I S = rows_bars I (Z.of_nat (num_jobs I)) 0 S.
Proof. unfold bars, plot_machine_schedules. rewrite plot_rows_eq. reflexivity. Qed.

Lemma legend_raw_eq I S :
  snd (plot_machine_schedules I S) = fold_left (leg_add (Z.of_nat (num_jobs I))) (all_sops S) [].
Proof. unfold plot_machine_schedules. rewrite plot_rows_eq. reflexivity. Qed.

Lemma rows_bars_spec I rows : forall mi,
  (forall m row x, nth_error rows m = Some row -> In x row -> s_mach x = (mi + m)%nat) ->
  (forall x, In x (concat rows) -> (s_job x < num_jobs I)%nat) ->
  rows_bars I (Z.of_nat (num_jobs I)) mi rows = map (bar_of I) (concat rows).
Proof.
  induction rows as [|row t IH]; intros mi Hm Hj; simpl; [reflexivity|].
  rewrite map_app. f_equal.
  - unfold row_bars. apply map_ext_in. intros x Hx. unfold bar_of.
    rewrite (Hm 0%nat row x eq_refl Hx), Nat.add_0_r.
    rewrite colour_index_id.
    + reflexivity.
    + assert (s_job x < num_jobs I)%nat by (apply Hj; simpl; apply in_or_app; left; exact Hx). lia.
  - apply IH.
    + intros m r x Hn Hx. rewrite (Hm (S m) r x Hn Hx). lia.
    + intros x Hx. apply Hj. simpl. apply in_or_app. right; exact Hx.
Qed.

(** One bar per scheduled operation, in row order. *)
Theorem bars_spec I S : drawable I S -> bars I S = map (bar_of I) (all_sops S).
Proof.
  intros (Hm & _ & Hj). rewrite bars_eq_rows_bars. apply rows_bars_spec.
  - intros m row x Hn Hx. simpl. eapply Hm; eassumption.
  - exact Hj.
Qed.

Lemma rows_bars_length I N rows : forall mi, length (rows_bars I N mi rows) = length (concat rows).
Proof.
  induction rows as [|row t IH]; intros mi; simpl; [reflexivity|].
  rewrite !app_length, IH. unfold row_bars. rewrite map_length. reflexivity.
Qed.

Theorem bars_count I S : length (bars I S) = num_scheduled S.
Proof. rewrite bars_eq_rows_bars, rows_bars_length. symmetry. apply num_scheduled_length. Qed.

(** * 6. Legend *)

Definition leg_inv (N : Z) (L : legend) : Prop :=
  NoDup (map fst L) /\ forall e, In e L -> snd e = colour_index N (Z.of_nat (fst e)).

Lemma NoDup_snoc {A} (l : list A) a : NoDup l -> ~ In a l -> NoDup (l ++ [a]).
Proof.
  induction l as [|b t IH]; intros Hnd Hni; simpl; [constructor; [intros []|constructor]|].
  inversion Hnd as [|? ? Hb Ht]; subst. constructor.
  - intro Hin. apply in_app_or in Hin. destruct Hin as [Hin|[->|[]]]; [contradiction|].
    apply Hni. left; reflexivity.
  - apply IH; [exact Ht|]. intro Hin. apply Hni. right; exact Hin.
Qed.

Lemma leg_add_inv N L x : leg_inv N L -> leg_inv N (leg_add N L x).
Proof.
  intros [Hnd Hc]. unfold leg_add. destruct (mem_nat (s_job x) (map fst L)) eqn:E; [split; assumption|].
  split.
  - rewrite map_app. simpl. apply NoDup_snoc; [exact Hnd|].
    intro Hin. apply mem_nat_In in Hin. congruence.
  - intros e He. apply in_app_or in He. destruct He as [He|[<-|[]]]; [apply Hc; exact He|reflexivity].
Qed.

Lemma leg_add_mem N L x j :
  In j (map fst (leg_add N L x)) <-> In j (map fst L) \/ s_job x = j.
Proof.
  unfold leg_add. destruct (mem_nat (s_job x) (map fst L)) eqn:E.
  - apply mem_nat_In in E. split; [auto|]. intros [H|<-]; assumption.
  - rewrite map_app, in_app_iff. simpl. tauto.
Qed.

Lemma fold_leg_add N xs : forall L,
  leg_inv N L ->
  leg_inv N (fold_left (leg_add N) xs L) /\
  (forall j, In j (map fst (fold_left (leg_add N) xs L)) <->
             In j (map fst L) \/ exists x, In x xs /\ s_job x = j).
Proof.
  induction xs as [|x xs IH]; intros L Hinv; simpl.
  - split; [exact Hinv|]. intros j. split; [auto|]. intros [H|(x & [] & _)]; exact H.
  - destruct (IH (leg_add N L x) (leg_add_inv N L x Hinv)) as [H1 H2]. split; [exact H1|].
    intros j. rewrite H2, leg_add_mem. split.
    + intros [[H|H]|(y & Hy & Hj)]; [left; exact H|right; exists x; auto|right; exists y; auto].
    + intros [H|(y & [<-|Hy] & Hj)]; [left; left; exact H|left; right; exact Hj|right; exists y; auto].
Qed.

(** [sort_nat] (insertion sort) of a duplicate-free list is strictly increasing. *)
Lemma insert_nat_In x l y : In y (insert_nat x l) <-> y = x \/ In y l.
Proof.
  induction l as [|z t IH]; simpl; [intuition|].
  destruct (x <=? z)%nat; simpl; [intuition|]. rewrite IH. intuition.
Qed.

Lemma sort_nat_In l y : In y (sort_nat l) <-> In y l.
Proof.
  induction l as [|x t IH]; simpl; [tauto|].
  unfold sort_nat in *. simpl. rewrite insert_nat_In, IH. intuition.
Qed.

Lemma insert_nat_sorted x l : Sorted lt l -> ~ In x l -> Sorted lt (insert_nat x l).
Proof.
  induction l as [|z t IH]; intros Hs Hni; simpl; [repeat constructor|].
  destruct (Nat.leb_spec x z) as [Hle|Hgt].
  - constructor; [exact Hs|]. constructor. simpl in Hni. lia.
  - inversion Hs as [|? ? Hst Hhd]; subst. constructor.
    + apply IH; [exact Hst|]. simpl in Hni. tauto.
    + destruct t as [|w t']; simpl; [constructor; exact Hgt|].
      destruct (x <=? w)%nat; constructor; [exact Hgt|]. inversion Hhd; assumption.
Qed.

Lemma sort_nat_sorted l : NoDup l -> Sorted lt (sort_nat l).
Proof.
  induction 1 as [|x t Hni Hnd IH]; [constructor|].
  unfold sort_nat in *. simpl. apply insert_nat_sorted; [exact IH|].
  intro Hin. apply Hni. apply (sort_nat_In t x). exact Hin.
Qed.

Lemma sorted_lt_increasing l : Sorted lt l -> increasing_nat l.
Proof.
  induction 1 as [|x t Hs IH Hhd]; simpl; [exact Logic.I|].
  destruct t as [|y t']; [exact Logic.I|]. split; [inversion Hhd; assumption|exact IH].
Qed.

Lemma leg_lookup_inv N L j : leg_inv N L -> In j (map fst L) ->
  leg_lookup L j = colour_index N (Z.of_nat j).
Proof.
  intros [_ Hc] Hin. unfold leg_lookup.
  destruct (find (fun e => (fst e =? j)%nat) L) as [e|] eqn:E.
  - apply find_some in E. destruct E as [He Hj]. apply Nat.eqb_eq in Hj. subst j. apply Hc; exact He.
  - apply in_map_iff in Hin. destruct Hin as (e & <- & He).
    pose proof (find_none _ _ E e He) as Hf. simpl in Hf. rewrite Nat.eqb_refl in Hf. discriminate.
Qed.

Theorem legend_spec I S : jobs_in_range I S -> legend_ok S (legend_entries I S).
Proof.
  intros Hj. unfold legend_entries. rewrite legend_raw_eq.
  set (N := Z.of_nat (num_jobs I)).
  destruct (fold_leg_add N (all_sops S) []) as [Hinv Hmem].
  { split; [constructor|intros e []]. }
  set (L := fold_left (leg_add N) (all_sops S) []) in *.
  assert (Hmem' : forall j, In j (map fst L) <-> exists x, In x (all_sops S) /\ s_job x = j).
  { intros j. rewrite Hmem. simpl. tauto. }
  unfold legend_ok, configure_legend. split; [|split].
  - rewrite map_map. simpl. rewrite map_id. apply sorted_lt_increasing. apply sort_nat_sorted.
    exact (proj1 Hinv).
  - intros e He. apply in_map_iff in He. destruct He as (j & <- & Hjin). simpl.
    apply (proj1 (sort_nat_In _ _)) in Hjin. destruct (proj1 (Hmem' j) Hjin) as (x & Hx & Hxj).
    split; [|exists x; auto].
    rewrite (leg_lookup_inv N L j Hinv Hjin). apply colour_index_id.
    subst j. specialize (Hj x Hx). unfold N. lia.
  - intros x Hx. apply in_map_iff. exists (s_job x).
    assert (Hin : In (s_job x) (map fst L)) by (apply Hmem'; exists x; auto).
    split; [|apply sort_nat_In; exact Hin].
    rewrite (leg_lookup_inv N L _ Hinv Hin). f_equal. apply colour_index_id.
    specialize (Hj x Hx). unfold N. lia.
Qed.

(** * 7. Axes *)

Lemma nth_map_seq {A} (f : nat -> A) M m d : (m < M)%nat -> nth m (map f (seq 0 M)) d = f m.
Proof.
  intros H. rewrite nth_indep with (d' := f 0%nat) by (rewrite map_length, seq_length; exact H).
  rewrite map_nth, seq_nth by exact H. reflexivity.
Qed.

Theorem yaxis_spec S : yaxis_ok (length S) (ylim S) (yticks S).
Proof.
  unfold yaxis_ok, ylim, yticks, BASE_Y, Y_INC. cbn [fst snd]. change (10 / 2) with 5.
  split; [reflexivity|]. split; [lia|]. split; [rewrite map_length, seq_length; reflexivity|].
  intros m Hm. rewrite nth_map_seq by exact Hm. lia.
Qed.

Lemma py_range0_pos xlim step : 0 <= xlim -> 0 < step ->
  py_range0 (xlim + 1) step =
  map (fun i => Z.of_nat i * step) (seq 0 (Z.to_nat (xlim / step))) ++ [Z.of_nat (Z.to_nat (xlim / step)) * step].
Proof.
  intros Hx Hs. unfold py_range0.
  replace (xlim + 1 + step - 1) with (xlim + 1 * step) by ring.
  rewrite Z.div_add by lia.
  assert (Hq : 0 <= xlim / step) by (apply Z.div_pos; lia).
  change (xlim / step + 1) with (Z.succ (xlim / step)). rewrite Z2Nat.inj_succ by exact Hq.
  rewrite seq_S, map_app. reflexivity.
Qed.

(** What the tick statements compute, in closed form: the multiples of the
    interval strictly below the last one, then the limit itself. *)
Theorem xticks_closed xlim nt : 0 <= xlim -> 1 <= nt ->
  let ti := Z.max 1 (xlim / nt) in
  xticks xlim nt = Some (map (fun i => Z.of_nat i * ti) (seq 0 (Z.to_nat (xlim / ti))) ++ [xlim]).
Proof.
  intros Hx Hn ti. unfold xticks. destruct (Z.eqb_spec nt 0) as [E|_]; [lia|].
  fold ti. assert (Hti : 0 < ti) by (unfold ti; lia).
  rewrite py_range0_pos by assumption.
  rewrite rev_app_distr. simpl rev at 1. simpl app at 1.
  cbv iota beta.
  destruct (Z.eqb_spec (Z.of_nat (Z.to_nat (xlim / ti)) * ti) xlim) as [E|E].
  - rewrite E. reflexivity.
  - simpl rev. rewrite rev_involutive. reflexivity.
Qed.

Lemma increasing_multiples ti xlim q : forall a,
  0 < ti -> (q = 0%nat \/ Z.of_nat (a + q - 1) * ti < xlim) ->
  increasing_Z (map (fun i => Z.of_nat i * ti) (seq a q) ++ [xlim]).
Proof.
  induction q as [|q IH]; intros a Hti Hq; [exact Logic.I|].
  destruct Hq as [Hq|Hq]; [discriminate|].
  destruct q as [|q'].
  - cbn [seq map app increasing_Z]. split; [|exact Logic.I].
    replace (a + 1 - 1)%nat with a in Hq by lia. exact Hq.
  - specialize (IH (S a) Hti). cbn [seq map app] in IH |- *. cbn [increasing_Z]. split.
    + rewrite Nat2Z.inj_succ, Z.mul_succ_l. lia.
    + apply IH. right. replace (S a + S q' - 1)%nat with (a + S (S q') - 1)%nat by lia. exact Hq.
Qed.

Theorem xaxis_spec xlim nt ticks : 0 <= xlim -> 1 <= nt ->
  xticks xlim nt = Some ticks -> xaxis_ok xlim ticks.
Proof.
  intros Hx Hn. rewrite xticks_closed by assumption. intros H. inversion H; subst ticks. clear H.
  set (ti := Z.max 1 (xlim / nt)). assert (Hti : 0 < ti) by (unfold ti; lia).
  assert (Hq : 0 <= xlim / ti) by (apply Z.div_pos; lia).
  assert (Hmul : ti * (xlim / ti) <= xlim) by (apply Z.mul_div_le; exact Hti).
  unfold xaxis_ok. split; [|split].
  - destruct (Z.to_nat (xlim / ti)) as [|q] eqn:E; simpl; [|reflexivity].
    (* no multiple below the limit: the limit is 0 *)
    assert (Hz : xlim / ti = 0) by lia.
    apply Z.div_small_iff in Hz; [|lia].
    assert (Hle : xlim / nt <= xlim) by (apply Z.div_le_upper_bound; nia).
    f_equal. unfold ti in *. lia.
  - apply last_last.
  - apply increasing_multiples; [exact Hti|].
    destruct (Z.to_nat (xlim / ti)) as [|q] eqn:E; [left; reflexivity|right].
    simpl. rewrite Nat.sub_0_r. nia.
Qed.

Theorem xticks_defined xlim nt : 0 <= xlim -> 1 <= nt -> exists ticks, xticks xlim nt = Some ticks.
Proof. intros Hx Hn. rewrite xticks_closed by assumption. eexists; reflexivity. Qed.

(** ** The makespan the code computes is the makespan *)

Lemma fold_max_nonneg l : 0 <= fold_right Z.max 0 l.
Proof. induction l; simpl; lia. Qed.

Lemma fold_max_app l1 l2 :
  fold_right Z.max 0 (l1 ++ l2) = Z.max (fold_right Z.max 0 l1) (fold_right Z.max 0 l2).
Proof.
  induction l1 as [|a l1 IH]; simpl.
  - pose proof (fold_max_nonneg l2). lia.
  - rewrite IH. lia.
Qed.

Lemma dur_nonneg I x : valid I -> 0 <= dur I x.
Proof.
  intros Hv. unfold dur. destruct (get_op I (s_job x) (s_pos x)) as [o|] eqn:E; [|lia].
  eapply Hv; exact E.
Qed.

Lemma sorted_row_max I row : valid I -> row_sorted I row ->
  fold_right Z.max 0 (map (s_end I) row) = Z.max 0 (last_end I row).
Proof.
  intros Hv. unfold last_end. induction row as [|x t IH]; intros Hs; [reflexivity|].
  rewrite last_opt_cons. simpl map. simpl fold_right.
  destruct t as [|y t'].
  - simpl. lia.
  - destruct Hs as [Hxy Hs]. specialize (IH Hs). rewrite IH.
    destruct (last_opt (y :: t')) as [z|] eqn:E.
    + (* end x <= start y <= end y <= max over the tail *)
      assert (Hy : s_end I y <= fold_right Z.max 0 (map (s_end I) (y :: t'))) by (simpl; lia).
      rewrite IH in Hy. pose proof (dur_nonneg I y Hv) as Hd. unfold s_end in *. lia.
    + rewrite last_opt_cons in E. destruct (last_opt t'); discriminate.
Qed.

Lemma makespan_code_fold I S : valid I -> rows_sorted I S -> forall acc, 0 <= acc ->
  fold_left (fun a row => match last_opt row with Some y => Z.max a (s_end I y) | None => a end) S acc
  = Z.max acc (fold_right Z.max 0 (map (s_end I) (concat S))).
Proof.
  intros Hv. induction S as [|row t IH]; intros Hs acc Hacc; simpl.
  - lia.
  - rewrite map_app, fold_max_app.
    rewrite (sorted_row_max I row Hv) by (apply Hs; left; reflexivity).
    unfold last_end.
    assert (Hs' : rows_sorted I t) by (intros r Hr; apply Hs; right; exact Hr).
    destruct (last_opt row) as [y|].
    + rewrite IH by (try exact Hs'; lia). lia.
    + rewrite IH by (try exact Hs'; lia). lia.
Qed.

Theorem makespan_code_spec I S : valid I -> rows_sorted I S -> makespan_code I S = makespan I S.
Proof.
  intros Hv Hs. unfold makespan_code, makespan, all_sops.
  rewrite makespan_code_fold by (try assumption; lia).
  pose proof (fold_max_nonneg (map (s_end I) (concat S))). lia.
Qed.

Theorem xlim_spec I S req : valid I -> rows_sorted I S -> xlim_ok I S req (xlim_of I S req).
Proof.
  intros Hv Hs. unfold xlim_ok, xlim_of. destruct req; [reflexivity|]. apply makespan_code_spec; assumption.
Qed.

(** * 8. Replaying a recorded history *)

(** Dispatching the recorded (operation, machine) pair again, from the same
    dispatcher state, is accepted and appends the very same scheduled
    operation — start time included (C02). *)
Lemma replay_step (O : Type) (ou : instance -> list fname -> dstate -> sop -> O -> O)
      (I : instance) (w : world O) r x o row :
  accepted I (core w) r x o row ->
  dispatch ou I (hist_request x) w = (after O ou I w x row, inl tt).
Proof.
  intros [Aop Ajob Apos Anext Aelig Amach Arange Astart Arow Alast].
  rewrite dispatch_is_pure. unfold dispatch_pure, hist_request. cbn [r_job r_pos r_mach].
  destruct x as [xj xp xs xm]. cbn [s_job s_pos s_start s_mach] in *. subst xj xp.
  rewrite Aop, Anext, Nat.eqb_refl. cbn [resolve_pure].
  assert (Hpi : py_index (length (mfree (core w))) (Z.of_nat xm) = Some xm).
  { unfold py_index.
    assert (E : (0 <=? Z.of_nat xm) && (Z.of_nat xm <? Z.of_nat (length (mfree (core w)))) = true).
    { apply andb_true_iff. split; [apply Z.leb_le; lia|apply Z.ltb_lt; lia]. }
    rewrite E, Nat2Z.id. reflexivity. }
  rewrite Hpi.
  assert (Hex : existsb (fun k : nat => Z.of_nat k =? Z.of_nat xm) (machines o) = true).
  { apply existsb_exists. exists xm. split; [exact Aelig|apply Z.eqb_refl]. }
  rewrite Hex, Nat2Z.id, Arow. cbv zeta. rewrite <- Astart.
  destruct (last_opt row) as [y|]; [|reflexivity].
  apply Z.leb_le in Alast. rewrite Alast. reflexivity.
Qed.

Inductive replays (I : instance) : dstate -> list sop -> Prop :=
| rp_nil d : replays I d []
| rp_cons d r x o row t :
    accepted I d r x o row -> replays I (apply_sop I d x row) t -> replays I d (x :: t).

Lemma sched_apply_sop I d x row :
  nth_error (sched d) (s_mach x) = Some row -> sched (apply_sop I d x row) = place (sched d) x.
Proof. intros H. unfold apply_sop, place. cbn [sched]. rewrite (nth_error_nth _ _ [] H). reflexivity. Qed.

(** What a [HistoryObserver] records can be replayed. *)
Lemma run_records I rs : forall (w : world (list sop)) h0,
  objs w = [h0] -> subs w = [0%nat] ->
  exists hn, objs (fold_left (fun w r => fst (dispatch h_update I r w)) rs w) = [h0 ++ hn] /\
             replays I (core w) hn.
Proof.
  induction rs as [|r rs IH]; intros w h0 Ho Hs.
  - exists []. rewrite app_nil_r. split; [exact Ho|constructor].
  - cbn [fold_left].
    destruct (dispatch_cases _ h_update I r w) as [[e He]|(x & o & row & Ha & He)]; rewrite He; cbn [fst].
    + apply IH; assumption.
    + destruct (IH (after _ h_update I w x row) (h0 ++ [x])) as (hn & Hobjs & Hrep).
      * unfold after. cbn [objs]. rewrite Hs, Ho. reflexivity.
      * exact Hs.
      * exists (x :: hn). split.
        -- rewrite Hobjs, <- app_assoc. reflexivity.
        -- econstructor; [exact Ha|exact Hrep].
Qed.

Theorem recorded_replays I fs rs : replays I (init_d I) (recorded I fs rs).
Proof.
  unfold recorded.
  destruct (run_records I rs (mkw (init_d I) empty_cache fs [[]] [0%nat]) [] eq_refl eq_refl)
    as (hn & Ho & Hr).
  rewrite Ho. exact Hr.
Qed.

(** ** The directory the frame loop leaves behind *)

Fixpoint frames_dir (S : schedule) (xl : Z) (h : list sop) (i : nat) (d : directory) : directory :=
  match h with
  | [] => d
  | x :: t => frames_dir (place S x) xl t (Datatypes.S i)
                         (dir_write d (frame_name i) (mkframe (place S x) xl))
  end.

Lemma frames_loop_replays I xl h : forall i (w : world (list sop)) d,
  replays I (core w) h ->
  frames_loop I xl h i w d = (frames_dir (sched (core w)) xl h i d, None).
Proof.
  induction h as [|x t IH]; intros i w d Hr; [reflexivity|].
  inversion Hr as [|? r ? o row ? Ha Ht]; subst.
  cbn [frames_loop frames_dir]. rewrite (replay_step _ h_update I w r x o row Ha).
  rewrite IH by exact Ht.
  unfold after at 1 2. cbn [core]. rewrite (sched_apply_sop I (core w) x row (a_row _ _ _ _ _ _ Ha)).
  reflexivity.
Qed.

Lemma find_filter_other (d : directory) nm nm' : name_eqb nm nm' = false ->
  find (fun e => name_eqb (fst e) nm') (filter (fun e => negb (name_eqb (fst e) nm)) d)
  = find (fun e => name_eqb (fst e) nm') d.
Proof.
  intros Hne. induction d as [|e d IH]; [reflexivity|]. cbn [filter find].
  destruct (name_eqb (fst e) nm) eqn:E1; cbn [negb].
  - apply name_eqb_eq in E1. rewrite E1, Hne. exact IH.
  - cbn [find]. rewrite IH. reflexivity.
Qed.

Lemma dir_lookup_write d nm c nm' :
  dir_lookup (dir_write d nm c) nm' = if name_eqb nm nm' then Some c else dir_lookup d nm'.
Proof.
  unfold dir_lookup, dir_write. cbn [find fst].
  destruct (name_eqb nm nm') eqn:E; [reflexivity|]. rewrite find_filter_other by exact E. reflexivity.
Qed.

Lemma dir_write_fresh (d : directory) nm c :
  (forall e, In e d -> name_eqb (fst e) nm = false) -> dir_write d nm c = (nm, c) :: d.
Proof.
  intros H. unfold dir_write. f_equal. induction d as [|e d IH]; [reflexivity|].
  cbn [filter]. rewrite (H e) by (left; reflexivity). cbn [negb]. f_equal.
  apply IH. intros e' He'. apply H. right; exact He'.
Qed.

(** Frame file number [k] holds the schedule after the first [k] entries. *)
Lemma frames_dir_lookup xl h : forall S i d k,
  dir_lookup (frames_dir S xl h i d) (frame_name k) =
  if ((i <=? k) && (k <? i + length h))%nat
  then Some (mkframe (fold_left place (firstn (Datatypes.S (k - i)) h) S) xl)
  else dir_lookup d (frame_name k).
Proof.
  induction h as [|x t IH]; intros S i d k; cbn [frames_dir length].
  - destruct (Nat.leb_spec i k), (Nat.ltb_spec k (i + 0)); cbn [andb]; try reflexivity; lia.
  - rewrite IH, dir_lookup_write, name_eqb_frame.
    destruct (Nat.leb_spec (Datatypes.S i) k) as [H1|H1],
             (Nat.ltb_spec k (Datatypes.S i + length t)) as [H2|H2]; cbn [andb].
    + destruct (Nat.leb_spec i k); [|lia]. destruct (Nat.ltb_spec k (i + Datatypes.S (length t))); [|lia].
      cbn [andb]. replace (k - i)%nat with (Datatypes.S (k - Datatypes.S i)) by lia. reflexivity.
    + destruct (Nat.eqb_spec i k); [lia|].
      destruct (Nat.leb_spec i k), (Nat.ltb_spec k (i + Datatypes.S (length t))); cbn [andb];
        try reflexivity; lia.
    + destruct (Nat.eqb_spec i k) as [->|Hne].
      * rewrite Nat.leb_refl. destruct (Nat.ltb_spec k (k + Datatypes.S (length t))); [|lia].
        cbn [andb]. rewrite Nat.sub_diag. reflexivity.
      * destruct (Nat.leb_spec i k); [lia|]. reflexivity.
    + destruct (Nat.eqb_spec i k); [lia|].
      destruct (Nat.leb_spec i k), (Nat.ltb_spec k (i + Datatypes.S (length t))); cbn [andb];
        try reflexivity; lia.
Qed.

(** One file per frame: no frame overwrites another. *)
Lemma frames_dir_names xl h : forall S i d,
  (forall nm, In nm (dir_names d) -> exists j, (j < i)%nat /\ nm = frame_name j) ->
  dir_names (frames_dir S xl h i d) = rev (map frame_name (seq i (length h))) ++ dir_names d.
Proof.
  induction h as [|x t IH]; intros S i d Hd; [reflexivity|].
  cbn [frames_dir length seq map rev].
  assert (Hfresh : dir_write d (frame_name i) (mkframe (place S x) xl)
                   = (frame_name i, mkframe (place S x) xl) :: d).
  { apply dir_write_fresh. intros e He.
    destruct (Hd (fst e)) as (j & Hj & Hnm); [apply in_map; exact He|].
    rewrite Hnm, name_eqb_frame. apply Nat.eqb_neq. lia. }
  rewrite IH.
  - rewrite Hfresh. unfold dir_names. cbn [map fst]. rewrite <- app_assoc. reflexivity.
  - intros nm Hin. rewrite Hfresh in Hin. unfold dir_names in Hin. cbn [map fst] in Hin.
    destruct Hin as [<-|Hin]; [exists i; split; [lia|reflexivity]|].
    destruct (Hd nm Hin) as (j & Hj & ->). exists j. split; [lia|reflexivity].
Qed.

(** ** The x limit of every frame is the makespan of the whole history *)

Definition step_d (I : instance) (d : dstate) (x : sop) : dstate :=
  apply_sop I d x (nth (s_mach x) (sched d) []).

Lemma replays_final I h : forall d, valid I -> Inv I d -> replays I d h ->
  Inv I (fold_left (step_d I) h d) /\
  sched (fold_left (step_d I) h d) = fold_left place h (sched d) /\
  Permutation (all_sops (fold_left place h (sched d))) (rev h ++ all_sops (sched d)).
Proof.
  induction h as [|x t IH]; intros d Hv Hi Hr.
  - cbn. split; [exact Hi|]. split; [reflexivity|apply Permutation_refl].
  - inversion Hr as [|? r ? o row ? Ha Ht]; subst.
    pose proof (a_row _ _ _ _ _ _ Ha) as Hrow.
    assert (E : step_d I d x = apply_sop I d x row).
    { unfold step_d. rewrite (nth_error_nth _ _ [] Hrow). reflexivity. }
    cbn [fold_left]. rewrite E.
    destruct (IH (apply_sop I d x row) Hv (Inv_apply_sop I d r x o row Hv Hi Ha) Ht) as (H1 & H2 & H3).
    rewrite (sched_apply_sop I d x row Hrow) in H2, H3.
    split; [exact H1|]. split; [exact H2|].
    eapply perm_trans; [exact H3|]. cbn [rev]. rewrite <- app_assoc. apply Permutation_app_head.
    unfold place, all_sops. rewrite (nth_error_nth _ _ [] Hrow). cbn [app].
    apply concat_upd_perm. exact Hrow.
Qed.

Lemma fold_max_perm l1 l2 : Permutation l1 l2 -> fold_right Z.max 0 l1 = fold_right Z.max 0 l2.
Proof. induction 1; simpl; lia. Qed.

Lemma fold_right_max_base t : forall e a,
  fold_right Z.max (Z.max e a) t = Z.max a (fold_right Z.max e t).
Proof. induction t as [|z t IH]; intros e a; simpl; [lia|]. rewrite IH. lia. Qed.

Lemma fold_left_max t : forall e, fold_left Z.max t e = fold_right Z.max e t.
Proof.
  induction t as [|a t IH]; intros e; [reflexivity|].
  cbn [fold_left fold_right]. rewrite IH. apply fold_right_max_base.
Qed.

Lemma fold_right_max_from t e : 0 <= e -> fold_right Z.max e t = Z.max e (fold_right Z.max 0 t).
Proof. intros He. induction t as [|z t IH]; simpl; [lia|]. rewrite IH. lia. Qed.

Theorem history_makespan_spec I h : valid I -> replays I (init_d I) h -> h <> [] ->
  history_makespan I h = Some (makespan I (sched_of_history I h)).
Proof.
  intros Hv Hr Hne.
  destruct (replays_final I h (init_d I) Hv (Inv_init I) Hr) as (Hinv & Hsched & Hperm).
  cbn [init_d sched] in Hsched, Hperm. fold (sched_of_history I h) in Hsched, Hperm.
  assert (Hperm' : Permutation (all_sops (sched_of_history I h)) h).
  { eapply perm_trans; [exact Hperm|].
    unfold all_sops. rewrite concat_repeat_nil, app_nil_r. apply Permutation_sym, Permutation_rev. }
  unfold makespan. rewrite (fold_max_perm _ _ (Permutation_map (s_end I) Hperm')).
  unfold history_makespan. destruct h as [|x t]; [congruence|]. cbn [map]. f_equal.
  rewrite fold_left_max. cbn [fold_right].
  apply fold_right_max_from.
  (* the first entry ends at a non-negative time *)
  assert (Hin : In x (all_sops (sched (fold_left (step_d I) (x :: t) (init_d I))))).
  { rewrite Hsched. eapply Permutation_in; [apply Permutation_sym; exact Hperm'|left; reflexivity]. }
  destruct (i_sop _ _ Hinv x Hin) as (_ & _ & Hst & _).
  pose proof (dur_nonneg I x Hv). unfold s_end. lia.
Qed.

(** ** What is written, and what is read back *)

Theorem frames_written I h : replays I (init_d I) h -> h <> [] ->
  exists xl d,
    history_makespan I h = Some xl /\
    create_gantt_chart_frames I h = (d, None) /\
    dir_names d = rev (map frame_name (seq 1 (length h))) /\
    forall k, (1 <= k <= length h)%nat ->
              dir_lookup d (frame_name k) = Some (mkframe (sched_of_history I (firstn k h)) xl).
Proof.
  intros Hr Hne. unfold create_gantt_chart_frames.
  destruct (history_makespan I h) as [xl|] eqn:E.
  2:{ unfold history_makespan in E. destruct h; [congruence|discriminate]. }
  exists xl. eexists. split; [reflexivity|].
  rewrite frames_loop_replays by exact Hr. split; [reflexivity|]. cbn [init_w core init_d sched]. split.
  - rewrite frames_dir_names; [apply app_nil_r|]. intros nm [].
  - intros k Hk. rewrite frames_dir_lookup.
    destruct (Nat.leb_spec 1 k); [|lia]. destruct (Nat.ltb_spec k (1 + length h)); [|lia].
    cbn [andb]. replace (Datatypes.S (k - 1)) with k by lia. reflexivity.
Qed.

(** The GIF / video: whatever order [os.listdir] answers in, picture number
    [k] handed to imageio is the plot of the first [k] history entries. *)
Theorem animation_frames I h listing : replays I (init_d I) h -> h <> [] ->
  Permutation listing (dir_names (fst (create_gantt_chart_frames I h))) ->
  exists xl,
    history_makespan I h = Some xl /\
    snd (create_gantt_chart_frames I h) = None /\
    load_images (fst (create_gantt_chart_frames I h)) listing =
    Some (map (fun k => Some (mkframe (sched_of_history I (firstn k h)) xl)) (seq 1 (length h))).
Proof.
  intros Hr Hne Hp. destruct (frames_written I h Hr Hne) as (xl & d & Hmk & Hd & Hnames & Hlook).
  exists xl. rewrite Hd in *. cbn [fst snd] in *. split; [exact Hmk|]. split; [reflexivity|].
  unfold load_images. rewrite (load_order_frames (length h) listing).
  - f_equal. rewrite map_map. apply map_ext_in. intros k Hk. apply in_seq in Hk. apply Hlook. lia.
  - eapply perm_trans; [exact Hp|]. rewrite Hnames. apply Permutation_sym, Permutation_rev.
Qed.

(** * 9. Summaries used by the property file *)

Lemma bar_of_geometry I x :
  b_x (bar_of I x) = s_start x /\
  b_x (bar_of I x) + b_w (bar_of I x) = s_end I x /\
  b_y (bar_of I x) = 1 + 10 * Z.of_nat (s_mach x) /\
  b_h (bar_of I x) = 9 /\
  b_col (bar_of I x) = Z.of_nat (s_job x).
Proof. unfold bar_of. cbn. repeat split; lia. Qed.

Theorem bars_bijection I S : drawable I S -> chart_bars I S (bars I S).
Proof. intros H. unfold chart_bars. rewrite (bars_spec I S H). apply Permutation_refl. Qed.

Theorem chart_correct I S req nt :
  valid I -> drawable I S -> 1 <= nt ->
  match req with Some r => 0 <= r | None => True end ->
  chart_shows I S req (plot_gantt_chart I S req nt).
Proof.
  intros Hv Hd Hn Hr. pose proof Hd as (Hm & Hs & Hj).
  unfold chart_shows, plot_gantt_chart. cbn [c_bars c_legend c_ylim c_yticks c_xlim c_xticks].
  split; [apply bars_bijection; exact Hd|].
  split; [apply legend_spec; exact Hj|].
  split; [apply yaxis_spec|].
  split; [apply xlim_spec; assumption|].
  assert (Hx : 0 <= xlim_of I S req).
  { unfold xlim_of. destruct req as [r|]; [exact Hr|].
    rewrite makespan_code_spec by assumption. apply fold_max_nonneg. }
  destruct (xticks_defined _ _ Hx Hn) as (ticks & Ht). exists ticks. split; [exact Ht|].
  eapply xaxis_spec; eassumption.
Qed.

(** Every feasible schedule — in particular every schedule a dispatcher
    builds (C01) — is drawable. *)
Lemma feasible_drawable I S : feasible I S -> drawable I S.
Proof.
  intros [F1 F2 _ _ _ F6 _]. split; [exact F2|]. split; [exact F6|].
  intros x Hx. destruct (F1 x Hx) as (o & Ho & _).
  destruct (get_op_bounds _ _ _ _ Ho) as [Hj _]. exact Hj.
Qed.

Theorem frames_of_recorded I fs rs listing :
  valid I -> recorded I fs rs <> [] ->
  Permutation listing (dir_names (fst (create_gantt_chart_frames I (recorded I fs rs)))) ->
  snd (create_gantt_chart_frames I (recorded I fs rs)) = None /\
  load_images (fst (create_gantt_chart_frames I (recorded I fs rs))) listing =
  Some (map Some (frames_expected I (recorded I fs rs))).
Proof.
  intros Hv Hne Hp. set (h := recorded I fs rs) in *.
  pose proof (recorded_replays I fs rs) as Hr. fold h in Hr.
  destruct (animation_frames I h listing Hr Hne Hp) as (xl & Hmk & Hnone & Hload).
  split; [exact Hnone|]. rewrite Hload. f_equal. unfold frames_expected. rewrite map_map.
  rewrite (history_makespan_spec I h Hv Hr Hne) in Hmk. inversion Hmk; subst xl. reflexivity.
Qed.

Theorem frame_files_of_recorded I fs rs :
  recorded I fs rs <> [] ->
  Permutation (dir_names (fst (create_gantt_chart_frames I (recorded I fs rs))))
              (map frame_name (seq 1 (length (recorded I fs rs)))) /\
  forall k, (1 <= k <= length (recorded I fs rs))%nat ->
    option_map f_sched (dir_lookup (fst (create_gantt_chart_frames I (recorded I fs rs))) (frame_name k))
    = Some (sched_of_history I (firstn k (recorded I fs rs))).
Proof.
  intros Hne. set (h := recorded I fs rs) in *.
  pose proof (recorded_replays I fs rs) as Hr. fold h in Hr.
  destruct (frames_written I h Hr Hne) as (xl & d & _ & Hd & Hnames & Hlook).
  rewrite Hd. cbn [fst]. split.
  - rewrite Hnames. apply Permutation_sym, Permutation_rev.
  - intros k Hk. rewrite (Hlook k Hk). reflexivity.
Qed.

(** The unrepaired read order at 100 frames: the 11th picture is frame 100. *)
Theorem string_order_scrambles_100 :
  exists listing,
    Permutation listing (map frame_name (seq 1 100)) /\
    nth 10 (load_order_str listing) [] = frame_name 100 /\
    load_order_str listing <> map frame_name (seq 1 100).
Proof.
  exists (map frame_name (seq 1 100)). split; [apply Permutation_refl|].
  split; [vm_compute; reflexivity|].
  intro H. apply (f_equal (fun l => nth 10 l [])) in H. vm_compute in H. discriminate.
Qed.

(** The chart of whatever a dispatcher has built so far (complete or not). *)
Theorem chart_of_run (O : Type) (ou : instance -> list fname -> dstate -> sop -> O -> O)
        I fs rs req nt :
  valid I -> 1 <= nt -> match req with Some r => 0 <= r | None => True end ->
  chart_shows I (sched (core (run_reqs O ou I fs rs))) req
              (plot_gantt_chart I (sched (core (run_reqs O ou I fs rs))) req nt).
Proof.
  intros Hv Hn Hr. apply chart_correct; try assumption.
  apply feasible_drawable. apply (dispatch_histories_feasible O ou I fs rs Hv).
Qed.
