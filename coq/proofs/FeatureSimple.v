(** FeatureSimple.v — C11: closed forms (functions of the dispatcher state)
    of the incrementally maintained arrays of IsReady, IsScheduled,
    PositionInJob, RemainingOperations (job level), Duration (job level and
    unscheduled operations), IsCompleted (job level), and their preservation
    by [update]. *)
From JSL Require Import Base Instance Dstate Filters World Observers Feasible ListFacts DispatchFun Inv Run
     Derived Tracking Replay OpIds Partition FeatureObservers FeatureBase.
From Coq Require Import Lia Permutation.

(** ** Facts about one accepted dispatch *)
Section Step.
  Variable I : instance.
  Variable d : dstate.
  Hypothesis Hi : Inv I d.
  Variables (r : request) (x : sop).
  Hypothesis E : sop_of_request I d r = Some x.

  Let d' := apply_sop I d x (row_of d x).

  Lemma st_acc : exists o, accepted I d r x o (row_of d x).
  Proof. apply sop_of_request_accepted. exact E. Qed.

  Lemma st_op : exists o, get_op I (s_job x) (s_pos x) = Some o /\ In (s_mach x) (machines o).
  Proof.
    destruct st_acc as (o & Ha). exists o. split.
    - rewrite (a_job _ _ _ _ _ _ Ha), (a_pos _ _ _ _ _ _ Ha). apply (a_op _ _ _ _ _ _ Ha).
    - apply (a_elig _ _ _ _ _ _ Ha).
  Qed.

  Lemma st_next : nthN (jnext d) (s_job x) = s_pos x.
  Proof. destruct st_acc as (o & Ha). rewrite (a_job _ _ _ _ _ _ Ha), (a_pos _ _ _ _ _ _ Ha). apply (a_next _ _ _ _ _ _ Ha). Qed.

  Lemma st_job_lt : (s_job x < length (jnext d))%nat.
  Proof.
    destruct st_op as (o & Ho & _). rewrite (i_len_jn _ _ Hi). apply (get_op_bounds _ _ _ _ Ho).
  Qed.

  Lemma st_job_ltI : (s_job x < num_jobs I)%nat.
  Proof. unfold num_jobs. rewrite <- (i_len_jn _ _ Hi). apply st_job_lt. Qed.

  Lemma st_pos_lt : (s_pos x < length (get_job I (s_job x)))%nat.
  Proof. destruct st_op as (o & Ho & _). apply (get_op_bounds _ _ _ _ Ho). Qed.

  Lemma st_mach_lt : (s_mach x < num_machines I)%nat.
  Proof. destruct st_op as (o & Ho & Hm). eapply machine_lt; eauto. Qed.

  Lemma st_jnext j : nthN (jnext d') j = if (j =? s_job x)%nat then S (s_pos x) else nthN (jnext d) j.
  Proof.
    unfold d', apply_sop, nthN. cbn [jnext]. destruct (j =? s_job x)%nat eqn:Ej.
    - apply Nat.eqb_eq in Ej. subst j. rewrite nth_upd_eq by apply st_job_lt.
      fold (nthN (jnext d) (s_job x)). rewrite st_next. reflexivity.
    - apply Nat.eqb_neq in Ej. rewrite nth_upd_neq by (intro; subst; apply Ej; reflexivity). reflexivity.
  Qed.

  Lemma st_is_sched k : is_sched d' k = eqb_key k (key x) || is_sched d k.
  Proof.
    unfold is_sched. rewrite st_jnext. destruct k as [j p]. unfold eqb_key, key. cbn [fst snd].
    destruct (j =? s_job x)%nat eqn:Ej; cbn [andb orb]; [|reflexivity].
    apply Nat.eqb_eq in Ej. subst j. rewrite st_next.
    destruct (p =? s_pos x)%nat eqn:Ep.
    - apply Nat.eqb_eq in Ep. subst p. simpl. apply Nat.ltb_lt. lia.
    - apply Nat.eqb_neq in Ep. simpl. destruct (p <? s_pos x)%nat eqn:E1.
      + apply Nat.ltb_lt in E1. apply Nat.ltb_lt. lia.
      + apply Nat.ltb_ge in E1. apply Nat.ltb_ge. lia.
  Qed.

  Lemma st_unsched_before : is_sched d (key x) = false.
  Proof. unfold is_sched, key. cbn [fst snd]. rewrite st_next. apply Nat.ltb_irrefl. Qed.

  Lemma st_key_in : In (key x) (all_keys I).
  Proof. destruct st_op as (o & Ho & _). apply In_all_keys. eauto. Qed.
End Step.

Lemma map_const_repeat {A B} (c : B) (l : list A) : map (fun _ => c) l = repeat c (length l).
Proof. induction l as [|a t IH]; simpl; [reflexivity|]. rewrite IH. reflexivity. Qed.

Lemma is_sched_init I k : is_sched (init_d I) k = false.
Proof. unfold is_sched, init_d, nthN. cbn [jnext]. rewrite nth_repeat_default. reflexivity. Qed.

Lemma ongoing_at_empty I t n : ongoing_at I t (repeat [] n) = [].
Proof. unfold ongoing_at. induction n as [|n IH]; simpl; [reflexivity|exact IH]. Qed.

Lemma ongoing_init I fs : ongoing_of I fs (init_d I) = [].
Proof. unfold ongoing_of. cbn [init_d sched]. apply ongoing_at_empty. Qed.

Lemma map_nth_seq {A B} (f : list A -> B) (L : list (list A)) :
  map f L = map (fun j => f (nth j L [])) (seq 0 (length L)).
Proof.
  induction L as [|a t IH]; [reflexivity|].
  cbn [length seq map nth]. f_equal. rewrite <- seq_shift, map_map. exact IH.
Qed.

Lemma vec_eq_map_seq (g : nat -> Z) n v :
  length v = n -> (forall j, (j < n)%nat -> nthZ v j = g j) -> v = map g (seq 0 n).
Proof.
  intros Hl H. apply nth_ext with (d := 0) (d' := 0).
  - rewrite map_length, seq_length. exact Hl.
  - intros j Hj. rewrite Hl in Hj. fold (nthZ v j). fold (nthZ (map g (seq 0 n)) j).
    rewrite nthZ_map_seq by exact Hj. apply H. exact Hj.
Qed.

Lemma length_addat v j a : length (addat v j a) = length v.
Proof. unfold addat. apply length_upd. Qed.

Lemma nthZ_addat v j a i : (j < length v)%nat ->
  nthZ (addat v j a) i = if (i =? j)%nat then nthZ v j + a else nthZ v i.
Proof.
  intros Hj. unfold addat, nthZ. destruct (i =? j)%nat eqn:E.
  - apply Nat.eqb_eq in E. subst i. apply nth_upd_eq. exact Hj.
  - apply Nat.eqb_neq in E. apply nth_upd_neq. intro; subst; apply E; reflexivity.
Qed.

(** counting by a key: [+= 1] at [f k] for every [k] of a list *)
Lemma fold_addat_count {A} (f : A -> nat) (L : list A) : forall v i,
  (forall k, In k L -> (f k < length v)%nat) -> (i < length v)%nat ->
  nthZ (fold_left (fun v k => addat v (f k) 1) L v) i =
  nthZ v i + Z.of_nat (length (filter (fun k => (f k =? i)%nat) L)).
Proof.
  induction L as [|a t IH]; intros v i Hf Hi; simpl; [lia|].
  rewrite IH.
  - rewrite nthZ_addat by (apply Hf; left; reflexivity).
    rewrite (Nat.eqb_sym (f a) i). destruct (i =? f a)%nat eqn:E; simpl; [apply Nat.eqb_eq in E; subst|]; lia.
  - intros k Hk. rewrite length_addat. apply Hf. right; exact Hk.
  - rewrite length_addat. exact Hi.
Qed.

Lemma length_fold_addat {A} (f : A -> nat) (a : Z) (L : list A) : forall v,
  length (fold_left (fun v k => addat v (f k) a) L v) = length v.
Proof. induction L as [|x t IH]; intros v; simpl; [reflexivity|]. rewrite IH. apply length_addat. Qed.

Lemma filter_map_const_fst (j0 j : nat) (l : list nat) :
  length (filter (fun k : nat * nat => (fst k =? j)%nat) (map (fun p => (j0, p)) l)) =
  if (j0 =? j)%nat then length l else 0%nat.
Proof.
  induction l as [|q l IHl]; simpl; [destruct (j0 =? j)%nat; reflexivity|].
  destruct (j0 =? j)%nat eqn:E; simpl; rewrite IHl; reflexivity.
Qed.

(** summing by a key: [+= w k] at [f k] for every [k] of a list *)
Lemma fold_addat_wsum {A} (f : A -> nat) (w : A -> Z) (L : list A) : forall v i,
  (forall k, In k L -> (f k < length v)%nat) -> (i < length v)%nat ->
  nthZ (fold_left (fun v k => addat v (f k) (w k)) L v) i =
  nthZ v i + sumZ (map w (filter (fun k => (f k =? i)%nat) L)).
Proof.
  induction L as [|a t IH]; intros v i Hf Hi; simpl; [lia|].
  rewrite IH.
  - rewrite nthZ_addat by (apply Hf; left; reflexivity).
    rewrite (Nat.eqb_sym (f a) i). destruct (i =? f a)%nat eqn:E; simpl; [apply Nat.eqb_eq in E; subst|]; lia.
  - intros k Hk. rewrite length_addat. apply Hf. right; exact Hk.
  - rewrite length_addat. exact Hi.
Qed.

Lemma length_fold_addat_w {A} (f : A -> nat) (w : A -> Z) (L : list A) : forall v,
  length (fold_left (fun v k => addat v (f k) (w k)) L v) = length v.
Proof. induction L as [|x t IH]; intros v; simpl; [reflexivity|]. rewrite IH. apply length_addat. Qed.

Lemma filter_map_const_fst_list (j0 j : nat) (l : list nat) :
  filter (fun k : nat * nat => (fst k =? j)%nat) (map (fun p => (j0, p)) l) =
  if (j0 =? j)%nat then map (fun p => (j0, p)) l else [].
Proof.
  induction l as [|q l IHl]; simpl; [destruct (j0 =? j)%nat; reflexivity|].
  destruct (j0 =? j)%nat eqn:E; simpl; rewrite IHl; reflexivity.
Qed.

Lemma filter_job_keys_list (I : instance) : forall j0 j,
  filter (fun k => (fst k =? j)%nat) (all_keys_from j0 I) =
  if (j0 <=? j)%nat then job_keys j (nth (j - j0) I []) else [].
Proof.
  induction I as [|job t IH]; intros j0 j; simpl.
  - destruct (j0 <=? j)%nat; destruct (j - j0)%nat; reflexivity.
  - rewrite filter_app, IH. unfold job_keys at 1. rewrite filter_map_const_fst_list.
    destruct (j0 =? j)%nat eqn:E1.
    + apply Nat.eqb_eq in E1. subst j0. rewrite Nat.leb_refl, Nat.sub_diag.
      replace (S j <=? j)%nat with false by (symmetry; apply Nat.leb_gt; lia).
      rewrite app_nil_r. reflexivity.
    + apply Nat.eqb_neq in E1. destruct (j0 <=? j)%nat eqn:E2.
      * apply Nat.leb_le in E2. replace (S j0 <=? j)%nat with true by (symmetry; apply Nat.leb_le; lia).
        replace (j - j0)%nat with (S (j - S j0)) by lia. reflexivity.
      * apply Nat.leb_gt in E2. replace (S j0 <=? j)%nat with false by (symmetry; apply Nat.leb_gt; lia). reflexivity.
Qed.

Lemma job_keys_of_all (I : instance) j :
  filter (fun k => (fst k =? j)%nat) (all_keys I) = job_keys j (get_job I j).
Proof. unfold all_keys, get_job. rewrite filter_job_keys_list. simpl. rewrite Nat.sub_0_r. reflexivity. Qed.

Lemma list_as_map_seq {A} (d : A) (l : list A) : l = map (fun q => nth q l d) (seq 0 (length l)).
Proof.
  induction l as [|a t IH]; [reflexivity|]. cbn [length seq map nth]. f_equal.
  rewrite <- seq_shift, map_map. exact IH.
Qed.

Lemma job_keys_durations (I : instance) j :
  map (kdur I) (job_keys j (get_job I j)) = map duration (get_job I j).
Proof.
  unfold job_keys. rewrite map_map.
  rewrite (list_as_map_seq (mkop [] 0) (get_job I j)) at 2. rewrite map_map.
  apply map_ext_in. intros q Hq. apply in_seq in Hq.
  destruct (get_op_of_pos_lt I j q ltac:(lia)) as [o Ho]. rewrite (kdur_of I j q o Ho).
  unfold get_op, get_job in *. destruct (nth_error I j) as [jb|] eqn:Ej; [|discriminate].
  rewrite (nth_error_nth _ _ _ Ej). rewrite (nth_error_nth _ _ _ Ho). reflexivity.
Qed.

(** operations of one job among all keys *)
Lemma filter_job_keys_from (I : instance) : forall j0 j,
  length (filter (fun k => (fst k =? j)%nat) (all_keys_from j0 I)) =
  if (j0 <=? j)%nat then length (nth (j - j0) I []) else 0%nat.
Proof.
  induction I as [|job t IH]; intros j0 j; simpl.
  - destruct (j0 <=? j)%nat; destruct (j - j0)%nat; reflexivity.
  - rewrite filter_app, app_length, IH.
    assert (Hjk : length (filter (fun k : nat * nat => (fst k =? j)%nat) (job_keys j0 job)) =
                  if (j0 =? j)%nat then length job else 0%nat).
    { unfold job_keys. rewrite filter_map_const_fst, seq_length. reflexivity. }
    rewrite Hjk. clear Hjk.
    destruct (j0 =? j)%nat eqn:E1.
    + apply Nat.eqb_eq in E1. subst j0. rewrite Nat.leb_refl, Nat.sub_diag.
      replace (S j <=? j)%nat with false by (symmetry; apply Nat.leb_gt; lia).
      simpl. lia.
    + apply Nat.eqb_neq in E1. destruct (j0 <=? j)%nat eqn:E2.
      * apply Nat.leb_le in E2. replace (S j0 <=? j)%nat with true by (symmetry; apply Nat.leb_le; lia).
        replace (j - j0)%nat with (S (j - S j0)) by lia. simpl. reflexivity.
      * apply Nat.leb_gt in E2. replace (S j0 <=? j)%nat with false by (symmetry; apply Nat.leb_gt; lia). reflexivity.
Qed.

Lemma count_job_keys (I : instance) j :
  length (filter (fun k => (fst k =? j)%nat) (all_keys I)) = length (get_job I j).
Proof. unfold all_keys, get_job. rewrite filter_job_keys_from. simpl. rewrite Nat.sub_0_r. reflexivity. Qed.

Lemma all_deques_concat_from (I : instance) : forall j0,
  concat (map (fun jj => job_keys (fst jj) (snd jj)) (combine (seq j0 (length I)) I)) = all_keys_from j0 I.
Proof. induction I as [|job t IH]; intros j0; simpl; [reflexivity|]. rewrite IH. reflexivity. Qed.

Lemma all_deques_concat (I : instance) : concat (all_deques I) = all_keys I.
Proof. apply all_deques_concat_from. Qed.

Lemma unscheduled_init_from (I : instance) : forall j0,
  unscheduled_from I j0 (repeat 0%nat (length I)) = all_keys_from j0 I.
Proof.
  induction I as [|job t IH]; intros j0; simpl; [reflexivity|]. rewrite IH, Nat.sub_0_r. reflexivity.
Qed.

Lemma unscheduled_init (I : instance) : unscheduled_ops I (init_d I) = all_keys I.
Proof. unfold unscheduled_ops, init_d, num_jobs. cbn [jnext]. apply unscheduled_init_from. Qed.

(** writing a value per key of a list of operations *)
Lemma fold_upd_keys (I : instance) (h : nat * nat -> Z) (L : list (nat * nat)) : forall g,
  (forall k, In k L -> In k (all_keys I)) ->
  fold_left (fun v k => upd v (kid I k) (h k)) L (map g (all_keys I)) =
  map (fun k => if mem_key k L then h k else g k) (all_keys I).
Proof.
  induction L as [|k0 t IH]; intros g Hin; simpl; [reflexivity|].
  destruct k0 as [j p]. assert (Hk : In (j, p) (all_keys I)) by (apply Hin; left; reflexivity).
  apply In_all_keys in Hk. destruct Hk as [o Ho].
  unfold kid at 2. cbn [fst snd]. rewrite (upd_map_keys I g j p o _ Ho).
  rewrite IH by (intros k Hk; apply Hin; right; exact Hk).
  apply map_ext. intros k. destruct (eqb_key k (j, p)) eqn:E; simpl.
  - apply eqb_key_eq in E. subst k. destruct (mem_key (j, p) t); reflexivity.
  - reflexivity.
Qed.

Lemma sumZ_app a b : sumZ (a ++ b) = sumZ a + sumZ b.
Proof. induction a as [|x t IH]; simpl; lia. Qed.

Lemma skipn_sum_S (job : list op) p o : nth_error job p = Some o ->
  sumZ (map duration (skipn p job)) = duration o + sumZ (map duration (skipn (S p) job)).
Proof.
  revert p. induction job as [|a t IH]; intros [|p] H; simpl in *; try discriminate.
  - inversion H; subst. reflexivity.
  - apply IH. exact H.
Qed.

Lemma fold_left_ext {A B} (f g : A -> B -> A) (l : list B) :
  (forall a x, f a x = g a x) -> forall a, fold_left f l a = fold_left g l a.
Proof. intros H. induction l as [|x t IH]; intros a; simpl; [reflexivity|]. rewrite H. apply IH. Qed.

Lemma fold_left_map {A B C} (f : A -> B -> A) (g : C -> B) (l : list C) : forall a,
  fold_left f (map g l) a = fold_left (fun a x => f a (g x)) l a.
Proof. induction l as [|x t IH]; intros a; simpl; [reflexivity|]. apply IH. Qed.

(** ** Closed forms *)
Section Closed.
  Variable I : instance.
  Variable fs : list fname.
  Variable m : ftm.

  Let N := num_ops I.
  Let M := num_machines I.
  Let J := num_jobs I.

  (** *** IsReady: stateless *)
  Definition cf_ready (d : dstate) : fobs :=
    set_feats (blank FIsReady) (when (t_ops m) (ready_ops I fs d)) (when (t_mach m) (ready_mach I fs d))
              (when (t_jobs m) (ready_jobs I fs d)).

  Lemma cf_ready_init : init_simple I fs (init_d I) (zero_obj I FIsReady m) = cf_ready (init_d I).
  Proof. unfold cf_ready, init_simple, zero_obj, when. destruct m as [[] [] []]; reflexivity. Qed.

  Lemma cf_ready_step d d' x : obj_step I fs d' x (cf_ready d) = cf_ready d'.
  Proof. unfold obj_step, upd_obs, cf_ready, init_simple, when. destruct m as [[] [] []]; reflexivity. Qed.

  (** *** IsScheduled *)
  Definition sched_vec (d : dstate) : list Z := map (fun k => b2z (is_sched d k)) (all_keys I).
  Definition cf_sched (d : dstate) : fobs :=
    set_feats (blank FIsScheduled) (when (t_ops m) (sched_vec d)) (when (t_mach m) (ongoing_by_mach I fs d))
              (when (t_jobs m) (ongoing_by_job I fs d)).

  Lemma sched_vec_init : sched_vec (init_d I) = zeros N.
  Proof.
    unfold sched_vec, zeros, N. rewrite <- (length_all_keys I). rewrite <- map_const_repeat.
    apply map_ext. intros k. rewrite is_sched_init. reflexivity.
  Qed.

  Lemma cf_sched_init : init_simple I fs (init_d I) (zero_obj I FIsScheduled m) = cf_sched (init_d I).
  Proof.
    unfold cf_sched, init_simple, zero_obj. cbn [fo_kind blank set_feats].
    rewrite sched_vec_init. unfold ongoing_by_mach, ongoing_by_job. rewrite ongoing_init. reflexivity.
  Qed.

  Lemma sched_vec_step d r x : Inv I d -> sop_of_request I d r = Some x ->
    upd (sched_vec d) (kid I (key x)) 1 = sched_vec (apply_sop I d x (row_of d x)).
  Proof.
    intros Hi E. destruct (st_op I d r x E) as (o & Ho & _).
    unfold sched_vec, kid, key. cbn [fst snd]. rewrite (upd_map_keys I _ _ _ o 1 Ho).
    apply map_ext. intros k. rewrite (st_is_sched I d Hi r x E k). fold (key x).
    destruct (eqb_key k (key x)); reflexivity.
  Qed.

  Lemma cf_sched_step d r x : Inv I d -> sop_of_request I d r = Some x ->
    obj_step I fs (apply_sop I d x (row_of d x)) x (cf_sched d) = cf_sched (apply_sop I d x (row_of d x)).
  Proof.
    intros Hi E. unfold obj_step, upd_obs, cf_sched. cbn [fo_kind blank set_feats fo_ops fo_mach fo_jobs].
    unfold when. destruct (t_ops m), (t_mach m), (t_jobs m); cbn [option_map];
      rewrite ?(sched_vec_step d r x Hi E); reflexivity.
  Qed.

  (** *** PositionInJob: number of unscheduled operations in front *)
  Definition pos_vec (d : dstate) : list Z :=
    map (fun k => Z.of_nat (snd k - nthN (jnext d) (fst k))) (all_keys I).
  Definition cf_pos (d : dstate) : fobs :=
    set_feats (blank FPosInJob) (when (t_ops m) (pos_vec d)) None None.

  Lemma zeros_keys : zeros N = map (fun _ => 0) (all_keys I).
  Proof. unfold zeros, N. rewrite <- (length_all_keys I). symmetry. apply map_const_repeat. Qed.

  Lemma pos_vec_init : pos_init I (init_d I) (zeros N) = pos_vec (init_d I).
  Proof.
    unfold pos_init. rewrite zeros_keys, unscheduled_init.
    rewrite fold_upd_keys by (intros k Hk; exact Hk).
    unfold pos_vec. apply map_ext_in. intros k Hk.
    rewrite (proj2 (mem_key_In k (all_keys I)) Hk).
    unfold init_d, nthN. cbn [jnext]. rewrite nth_repeat_default, Nat.sub_0_r. reflexivity.
  Qed.

  Lemma cf_pos_init : t_mach m = false -> t_jobs m = false ->
    init_simple I fs (init_d I) (zero_obj I FPosInJob m) = cf_pos (init_d I).
  Proof.
    intros H1 H2. unfold cf_pos, init_simple, zero_obj. cbn [fo_kind blank set_feats fo_ops fo_mach fo_jobs].
    rewrite H1, H2. unfold when. destruct (t_ops m); cbn [option_map]; [|reflexivity].
    fold N. rewrite pos_vec_init. reflexivity.
  Qed.

  Lemma pos_vec_step d r x : Inv I d -> sop_of_request I d r = Some x ->
    fold_left (fun v i => upd v (op_id I (s_job x) (S (s_pos x) + i)) (Z.of_nat i))
              (seq 0 (length (get_job I (s_job x)) - S (s_pos x))) (pos_vec d)
    = pos_vec (apply_sop I d x (row_of d x)).
  Proof.
    intros Hi E. set (j := s_job x). set (p := s_pos x). set (n := (length (get_job I j) - S p)%nat).
    set (L := map (fun i => (j, (S p + i)%nat)) (seq 0 n)).
    set (h := fun k : nat * nat => Z.of_nat (snd k - S p)).
    transitivity (fold_left (fun v k => upd v (kid I k) (h k)) L (pos_vec d)).
    { unfold L. rewrite fold_left_map. apply fold_left_ext. intros v i. unfold kid, h. cbn [fst snd].
      replace (S p + i - S p)%nat with i by lia. reflexivity. }
    assert (HL : forall j' q, In (j', q) L <-> j' = j /\ (S p <= q < length (get_job I j))%nat).
    { intros j' q. unfold L. rewrite in_map_iff. split.
      - intros (i & Ei & Hin). inversion Ei; subst. apply in_seq in Hin. unfold n in Hin. split; [reflexivity|lia].
      - intros (-> & Hq). exists (q - S p)%nat. split; [f_equal; lia|]. apply in_seq. unfold n. lia. }
    unfold pos_vec at 1. rewrite fold_upd_keys.
    - unfold pos_vec. apply map_ext_in. intros [j' q] Hk. cbn [fst snd].
      rewrite (st_jnext I d Hi r x E j'). fold j p.
      apply In_all_keys in Hk. destruct Hk as [o Ho]. pose proof (get_op_pos_lt _ _ _ _ Ho) as Hq.
      destruct (mem_key (j', q) L) eqn:Em.
      + apply mem_key_In in Em. apply HL in Em. destruct Em as [-> Hr]. rewrite Nat.eqb_refl. unfold h. reflexivity.
      + destruct (j' =? j)%nat eqn:Ej; [|reflexivity]. apply Nat.eqb_eq in Ej. subst j'.
        assert (Hle : (q <= p)%nat).
        { destruct (le_lt_dec q p) as [Hle|Hgt]; [exact Hle|]. exfalso.
          assert (Hin : In (j, q) L) by (apply HL; split; [reflexivity|lia]).
          apply mem_key_In in Hin. congruence. }
        pose proof (st_next I d r x E) as Hn. fold j p in Hn. rewrite Hn. f_equal. lia.
    - intros [j' q] Hk. apply HL in Hk. destruct Hk as [-> Hq]. apply In_all_keys.
      apply get_op_of_pos_lt. lia.
  Qed.

  Lemma cf_pos_step d r x : Inv I d -> sop_of_request I d r = Some x ->
    obj_step I fs (apply_sop I d x (row_of d x)) x (cf_pos d) = cf_pos (apply_sop I d x (row_of d x)).
  Proof.
    intros Hi E. unfold obj_step, upd_obs, cf_pos. cbn [fo_kind blank set_feats fo_ops fo_mach fo_jobs].
    unfold when. destruct (t_ops m); cbn [option_map]; [|reflexivity].
    rewrite (pos_vec_step d r x Hi E). reflexivity.
  Qed.

  (** *** job-level vectors *)
  Definition joblen (j : nat) : nat := length (get_job I j).
  Definition remj_vec (d : dstate) : list Z :=
    map (fun j => Z.of_nat (joblen j - nthN (jnext d) j)) (seq 0 J).
  Definition durj_vec (d : dstate) : list Z :=
    map (fun j => sumZ (map duration (skipn (nthN (jnext d) j) (get_job I j)))) (seq 0 J).
  Definition flagj_vec (d : dstate) : list Z :=
    map (fun j => b2z ((0 <? joblen j)%nat && (nthN (jnext d) j =? joblen j)%nat)) (seq 0 J).
  (** machine-level: what was there initially minus what was dispatched on the machine *)
  Definition remm0 : list Z := count_mach I (all_keys I) (zeros M).
  Definition remm_vec (d : dstate) : list Z :=
    map (fun mm => nthZ remm0 mm - Z.of_nat (length (nth mm (sched d) []))) (seq 0 M).
  Definition durm_vec (d : dstate) : list Z :=
    map (fun mm => nthZ (machine_loads I) mm - sumZ (map (dur I) (nth mm (sched d) []))) (seq 0 M).

  Lemma jnext_init j : nthN (jnext (init_d I)) j = 0%nat.
  Proof. unfold init_d, nthN. cbn [jnext]. apply nth_repeat_default. Qed.

  Lemma row_init mm : nth mm (sched (init_d I)) [] = [].
  Proof. unfold init_d. cbn [sched]. apply nth_repeat_default. Qed.

  Lemma remj_vec_init : count_jobs (all_keys I) (zeros J) = remj_vec (init_d I).
  Proof.
    unfold count_jobs.
    apply vec_eq_map_seq.
    - rewrite length_fold_addat. apply repeat_length.
    - intros j Hj. rewrite fold_addat_count.
      + rewrite count_job_keys, jnext_init, Nat.sub_0_r. unfold nthZ, zeros. rewrite nth_repeat by exact Hj.
        unfold joblen. lia.
      + intros [j' q] Hk. unfold zeros. rewrite repeat_length. apply In_all_keys in Hk. destruct Hk as [o Ho].
        cbn [fst]. apply (get_op_job_lt _ _ _ _ Ho).
      + unfold zeros. rewrite repeat_length. exact Hj.
  Qed.

  Lemma length_fold_fold_addat (L : list (nat * nat)) : forall v,
    length (fold_left (fun v k => fold_left (fun v mm => addat v mm 1) (dedup_nat (kmachines I k)) v) L v) = length v.
  Proof.
    induction L as [|k t IH]; intros v; simpl; [reflexivity|]. rewrite IH. apply length_fold_addat.
  Qed.

  Lemma length_remm0 : length remm0 = M.
  Proof. unfold remm0, count_mach. rewrite length_fold_fold_addat. apply repeat_length. Qed.

  Lemma remm_vec_init : remm0 = remm_vec (init_d I).
  Proof.
    apply vec_eq_map_seq; [apply length_remm0|]. intros mm _. rewrite row_init. simpl. lia.
  Qed.

  Lemma durj_vec_init : dur_jobs I (init_d I) = durj_vec (init_d I).
  Proof.
    unfold dur_jobs. rewrite unscheduled_init. apply vec_eq_map_seq.
    - rewrite length_fold_addat_w. apply repeat_length.
    - intros j Hj. rewrite fold_addat_wsum.
      + rewrite job_keys_of_all, job_keys_durations, jnext_init. unfold nthZ, zeros. rewrite nth_repeat by exact Hj.
        simpl. lia.
      + intros [j' q] Hk. unfold zeros. rewrite repeat_length. apply In_all_keys in Hk. destruct Hk as [o Ho].
        cbn [fst]. apply (get_op_job_lt _ _ _ _ Ho).
      + unfold zeros. rewrite repeat_length. exact Hj.
  Qed.

  Lemma length_machine_loads : length (machine_loads I) = M.
  Proof. unfold machine_loads. rewrite map_length, seq_length. reflexivity. Qed.

  Lemma durm_vec_init : machine_loads I = durm_vec (init_d I).
  Proof.
    apply vec_eq_map_seq; [apply length_machine_loads|]. intros mm _. rewrite row_init. simpl. lia.
  Qed.

  Lemma flagj_vec_init : zeros J = flagj_vec (init_d I).
  Proof.
    rewrite zeros_map_seq. apply map_ext. intros j. rewrite jnext_init.
    destruct (joblen j) as [|n]; reflexivity.
  Qed.

  Section VecStep.
    Variable d : dstate.
    Hypothesis Hi : Inv I d.
    Variables (r : request) (x : sop).
    Hypothesis E : sop_of_request I d r = Some x.
    Let d' := apply_sop I d x (row_of d x).

    Lemma remj_vec_step : addat (remj_vec d) (s_job x) (-1) = remj_vec d'.
    Proof.
      unfold remj_vec. rewrite addat_map_seq by (apply (st_job_ltI I d Hi r x E)).
      apply map_ext. intros j. unfold d'. rewrite (st_jnext I d Hi r x E j).
      destruct (j =? s_job x)%nat eqn:Ej; [|reflexivity]. apply Nat.eqb_eq in Ej. subst j.
      rewrite (st_next I d r x E). pose proof (st_pos_lt I d r x E). unfold joblen. lia.
    Qed.

    Lemma flagj_vec_step :
      upd (flagj_vec d) (s_job x) (b2z (nthZ (addat (remj_vec d) (s_job x) (-1)) (s_job x) =? 0)) = flagj_vec d'.
    Proof.
      pose proof (st_job_ltI I d Hi r x E) as Hj. pose proof (st_pos_lt I d r x E) as Hp.
      fold (joblen (s_job x)) in Hp.
      assert (Hn' : nthN (jnext d') (s_job x) = S (s_pos x)).
      { unfold d'. rewrite (st_jnext I d Hi r x E), Nat.eqb_refl. reflexivity. }
      rewrite remj_vec_step. unfold remj_vec. rewrite nthZ_map_seq by exact Hj. rewrite Hn'.
      unfold flagj_vec. rewrite upd_map_seq by exact Hj.
      apply map_ext. intros j. destruct (j =? s_job x)%nat eqn:Ej.
      - apply Nat.eqb_eq in Ej. subst j. rewrite Hn'. f_equal.
        destruct (S (s_pos x) =? joblen (s_job x))%nat eqn:E1.
        + rewrite andb_true_r. apply Nat.eqb_eq in E1.
          transitivity true; [apply Z.eqb_eq; lia|symmetry; apply Nat.ltb_lt; lia].
        + rewrite andb_false_r. apply Nat.eqb_neq in E1. apply Z.eqb_neq. lia.
      - unfold d'. rewrite (st_jnext I d Hi r x E j), Ej. reflexivity.
    Qed.

    Lemma row_step mm : nth mm (sched d') [] = if (mm =? s_mach x)%nat then row_of d x ++ [x] else nth mm (sched d) [].
    Proof.
      unfold d', apply_sop. cbn [sched]. destruct (mm =? s_mach x)%nat eqn:Em.
      - apply Nat.eqb_eq in Em. subst mm. apply nth_upd_eq. rewrite (i_len_sc _ _ Hi). apply (st_mach_lt I d r x E).
      - apply Nat.eqb_neq in Em. apply nth_upd_neq. intro; subst; apply Em; reflexivity.
    Qed.

    Lemma remm_vec_step : addat (remm_vec d) (s_mach x) (-1) = remm_vec d'.
    Proof.
      unfold remm_vec. rewrite addat_map_seq by (apply (st_mach_lt I d r x E)).
      apply map_ext. intros mm. rewrite row_step. destruct (mm =? s_mach x)%nat eqn:Em; [|reflexivity].
      apply Nat.eqb_eq in Em. subst mm. unfold row_of. rewrite app_length. simpl. lia.
    Qed.

    Lemma durm_vec_step : addat (durm_vec d) (s_mach x) (- dur I x) = durm_vec d'.
    Proof.
      unfold durm_vec. rewrite addat_map_seq by (apply (st_mach_lt I d r x E)).
      apply map_ext. intros mm. rewrite row_step. destruct (mm =? s_mach x)%nat eqn:Em; [|reflexivity].
      apply Nat.eqb_eq in Em. subst mm. unfold row_of. rewrite map_app, sumZ_app. simpl. lia.
    Qed.

    Lemma durj_vec_step : addat (durj_vec d) (s_job x) (- dur I x) = durj_vec d'.
    Proof.
      unfold durj_vec. rewrite addat_map_seq by (apply (st_job_ltI I d Hi r x E)).
      apply map_ext. intros j. unfold d'. rewrite (st_jnext I d Hi r x E j).
      destruct (j =? s_job x)%nat eqn:Ej; [|reflexivity]. apply Nat.eqb_eq in Ej. subst j.
      rewrite (st_next I d r x E). destruct (st_op I d r x E) as (o & Ho & _).
      unfold dur. rewrite Ho. unfold get_op, get_job in *.
      destruct (nth_error I (s_job x)) as [job|] eqn:Ejob; [|discriminate].
      rewrite (nth_error_nth _ _ _ Ejob). rewrite (skipn_sum_S job (s_pos x) o Ho). lia.
    Qed.
  End VecStep.
End Closed.
