(** FeatureEst.v — C11: EarliestStartTimeObserver (after the repair): the
    matrix entries of the unscheduled operations are the job chain behind the
    job's last scheduled operation, held back by machine availability; the
    entry of a scheduled operation is its start time. *)
From JSL Require Import Base Instance Dstate Filters World Observers Feasible ListFacts DispatchFun Inv Run
     Derived Tracking Replay OpIds Partition FeatureObservers FeatureBase FeatureSimple FeatureSpec FeatureProofs.
From Coq Require Import Lia Permutation.

Section Chain.
  Variable d : dstate.

  (** value written by [chain] for the [n]-th operation of [ops] *)
  Fixpoint cv (ops : list op) (t : Z) (n : nat) : Z :=
    match ops with
    | [] => t
    | o :: r => let s := Z.max t (mach_avail d o t) in
                match n with O => s | S n' => cv r (s + duration o) n' end
    end.

  Lemma length_chain ops : forall p t row, length (chain d ops p t row) = length row.
  Proof. induction ops as [|o r IH]; intros p t row; simpl; [reflexivity|]. rewrite IH. apply length_upd. Qed.

  Lemma chain_nth ops : forall p t row q, (p + length ops <= length row)%nat ->
    nth q (chain d ops p t row) None =
    if (p <=? q)%nat && (q <? p + length ops)%nat then Some (cv ops t (q - p)) else nth q row None.
  Proof.
    induction ops as [|o r IH]; intros p t row q Hl.
    - simpl. replace (q <? p + 0)%nat with (q <? p)%nat by (f_equal; lia).
      destruct (p <=? q)%nat eqn:E1, (q <? p)%nat eqn:E2; try reflexivity.
      apply Nat.leb_le in E1. apply Nat.ltb_lt in E2. lia.
    - cbn [chain length]. rewrite IH by (rewrite length_upd; simpl in Hl; lia).
      simpl in Hl. destruct (Nat.eq_dec q p) as [->|Hne].
      + replace (S p <=? p)%nat with false by (symmetry; apply Nat.leb_gt; lia). cbn [andb].
        rewrite nth_upd_eq by lia. rewrite Nat.leb_refl.
        replace (p <? p + S (length r))%nat with true by (symmetry; apply Nat.ltb_lt; lia).
        rewrite Nat.sub_diag. reflexivity.
      + rewrite nth_upd_neq by (intro; subst; apply Hne; reflexivity).
        destruct (le_lt_dec (S p) q) as [Hge|Hlt].
        * replace (S p <=? q)%nat with true by (symmetry; apply Nat.leb_le; lia).
          replace (p <=? q)%nat with true by (symmetry; apply Nat.leb_le; lia).
          replace (q <? p + S (length r))%nat with (q <? S p + length r)%nat by (f_equal; lia).
          destruct (q <? S p + length r)%nat; [|reflexivity]. cbn [andb].
          replace (q - p)%nat with (S (q - S p)) by lia. reflexivity.
        * replace (S p <=? q)%nat with false by (symmetry; apply Nat.leb_gt; lia).
          replace (p <=? q)%nat with false by (symmetry; apply Nat.leb_gt; lia). reflexivity.
  Qed.
End Chain.

Lemma nth_map_combine_seq {A B} (f : nat * A -> B) (l : list A) (da : A) (db : B) j : (j < length l)%nat ->
  nth j (map f (combine (seq 0 (length l)) l)) db = f (j, nth j l da).
Proof.
  intros Hj. rewrite (nth_indep _ db (f (0%nat, da))) by (rewrite map_length, combine_length, seq_length; lia).
  rewrite map_nth. rewrite combine_nth by (apply seq_length). rewrite seq_nth by exact Hj. reflexivity.
Qed.

(** conditional writes along [seq] *)
Lemma fold_cond_upd (c : nat -> bool) (g : nat -> Z) : forall n a v i,
  (a + n <= length v)%nat ->
  nthZ (fold_left (fun v j => if c j then upd v j (g j) else v) (seq a n) v) i =
  if (a <=? i)%nat && (i <? a + n)%nat && c i then g i else nthZ v i.
Proof.
  induction n as [|n IH]; intros a v i Hl.
  - simpl. replace (i <? a + 0)%nat with (i <? a)%nat by (f_equal; lia).
    destruct (a <=? i)%nat eqn:E1, (i <? a)%nat eqn:E2; try reflexivity.
    apply Nat.leb_le in E1. apply Nat.ltb_lt in E2. lia.
  - cbn [seq fold_left]. rewrite IH by (destruct (c a); rewrite ?length_upd; lia).
    destruct (Nat.eq_dec i a) as [->|Hne].
    + replace (S a <=? a)%nat with false by (symmetry; apply Nat.leb_gt; lia). cbn [andb].
      rewrite Nat.leb_refl. replace (a <? a + S n)%nat with true by (symmetry; apply Nat.ltb_lt; lia). cbn [andb].
      destruct (c a); [|reflexivity]. unfold nthZ. apply nth_upd_eq. lia.
    + assert (Hsame : nthZ (if c a then upd v a (g a) else v) i = nthZ v i).
      { destruct (c a); [|reflexivity]. unfold nthZ. apply nth_upd_neq. intro; subst; apply Hne; reflexivity. }
      rewrite Hsame. destruct (le_lt_dec (S a) i) as [Hge|Hlt].
      * replace (S a <=? i)%nat with true by (symmetry; apply Nat.leb_le; lia).
        replace (a <=? i)%nat with true by (symmetry; apply Nat.leb_le; lia).
        replace (i <? a + S n)%nat with (i <? S a + n)%nat by (f_equal; lia). reflexivity.
      * replace (S a <=? i)%nat with false by (symmetry; apply Nat.leb_gt; lia).
        replace (a <=? i)%nat with false by (symmetry; apply Nat.leb_gt; lia). reflexivity.
Qed.

Lemma length_fold_cond_upd (c : nat -> bool) (g : nat -> Z) l : forall v,
  length (fold_left (fun v j => if c j then upd v j (g j) else v) l v) = length v.
Proof. induction l as [|a t IH]; intros v; simpl; [reflexivity|]. rewrite IH. destruct (c a); [apply length_upd|reflexivity]. Qed.

Section Est.
  Variable I : instance.
  Variable fs : list fname.
  Hypothesis Hv : valid I.
  Variable m : ftm.

  Let J := num_jobs I.

  (** shape of the matrix: one row per job, every row as long as the longest job *)
  Definition shape (e : list (list (option Z))) : Prop :=
    length e = J /\ forall j, (j < J)%nat -> length (nth j e []) = max_len I.

  Lemma joblen_le_max j : (length (get_job I j) <= max_len I)%nat.
  Proof.
    unfold max_len, get_job. destruct (nth_error I j) as [job|] eqn:E.
    - rewrite (nth_error_nth _ _ _ E). apply fold_max_ge. apply in_map. eapply nth_error_In; eauto.
    - rewrite nth_overflow by (apply nth_error_None; exact E). simpl. lia.
  Qed.

  Lemma shape_est0 : shape (est0 I).
  Proof.
    unfold shape, est0. split; [rewrite map_length; reflexivity|]. intros j Hj.
    destruct (nth_error I j) as [job|] eqn:Ej; [|apply nth_error_None in Ej; unfold J, num_jobs in Hj; lia].
    erewrite nth_error_nth by (apply map_nth_error; exact Ej).
    rewrite app_length, map_length, repeat_length.
    assert (Hp : forall l acc, length (prefix_sums acc l) = length l).
    { induction l as [|a t IH]; intros acc; simpl; [reflexivity|]. rewrite IH. reflexivity. }
    rewrite Hp, map_length. pose proof (joblen_le_max j) as H. unfold get_job in H.
    rewrite (nth_error_nth _ _ _ Ej) in H. lia.
  Qed.

  Lemma shape_recompute d e : shape e -> shape (recompute I d e).
  Proof.
    intros [H1 H2]. unfold shape, recompute. split.
    - rewrite map_length, combine_length, seq_length. lia.
    - intros j Hj. rewrite (nth_map_combine_seq _ e [] [] j) by lia. cbn [fst snd].
      rewrite length_chain. apply H2. exact Hj.
  Qed.

  Lemma shape_eset e j p z : shape e -> shape (eset e j p z).
  Proof.
    intros [H1 H2]. unfold shape, eset. split; [rewrite length_upd; exact H1|].
    intros j' Hj'. destruct (Nat.eq_dec j j') as [->|Hne].
    - rewrite nth_upd_eq by lia. rewrite length_upd. apply H2. exact Hj'.
    - rewrite nth_upd_neq by exact Hne. apply H2. exact Hj'.
  Qed.

  Lemma eget_eset e j p z j' p' : shape e -> (j < J)%nat -> (p < max_len I)%nat ->
    eget (eset e j p z) j' p' = if (j' =? j)%nat && (p' =? p)%nat then z else eget e j' p'.
  Proof.
    intros [H1 H2] Hj Hp. unfold eget, eset. destruct (j' =? j)%nat eqn:Ej.
    - apply Nat.eqb_eq in Ej. subst j'. rewrite nth_upd_eq by lia. destruct (p' =? p)%nat eqn:Ep; cbn [andb].
      + apply Nat.eqb_eq in Ep. subst p'. rewrite nth_upd_eq by (rewrite H2; lia). reflexivity.
      + apply Nat.eqb_neq in Ep. rewrite nth_upd_neq by (intro; subst; apply Ep; reflexivity). reflexivity.
    - apply Nat.eqb_neq in Ej. cbn [andb]. rewrite nth_upd_neq by (intro; subst; apply Ej; reflexivity). reflexivity.
  Qed.

  (** what [recompute] leaves in the matrix *)
  Lemma eget_recompute d e j p : shape e -> (j < J)%nat -> (nthN (jnext d) j <= length (get_job I j))%nat ->
    eget (recompute I d e) j p =
    let n := nthN (jnext d) j in
    if (n <=? p)%nat && (p <? n + length (skipn n (get_job I j)))%nat
    then cv d (skipn n (get_job I j)) (nthZ (jfree d) j) (p - n)
    else eget e j p.
  Proof.
    intros [H1 H2] Hj Hb. unfold eget at 1. unfold recompute.
    rewrite (nth_map_combine_seq _ e [] [] j) by lia. cbn [fst snd]. cbv zeta.
    set (n := nthN (jnext d) j). rewrite chain_nth.
    - destruct ((n <=? p)%nat && (p <? n + length (skipn n (get_job I j)))%nat); reflexivity.
    - rewrite H2 by exact Hj. rewrite skipn_length. pose proof (joblen_le_max j). fold n in Hb. lia.
  Qed.

  (** the chain on the dispatcher's vectors is the chain of the specification *)
  Lemma cv_est_from d (Hi : Inv I d) (ops : list op) :
    (forall o mm, In o ops -> In mm (machines o) -> (mm < num_machines I)%nat) ->
    forall t n, cv d ops t n = est_from I (sched d) ops t n.
  Proof.
    induction ops as [|o r IH]; intros Hm t n; [reflexivity|].
    cbn [cv est_from].
    assert (Ha : mach_avail d o t = op_mach_free I (sched d) o t).
    { unfold mach_avail, op_mach_free.
      replace (map (mach_free I (sched d)) (machines o)) with (map (fun mm => nthZ (mfree d) mm) (machines o)); [reflexivity|].
      apply map_ext_in. intros mm Hmm.
      symmetry. apply (mach_free_eq I d Hi). apply (Hm o mm); [left; reflexivity|exact Hmm]. }
    rewrite Ha. destruct n as [|n]; [reflexivity|].
    apply IH. intros o' mm Ho'. apply Hm. right; exact Ho'.
  Qed.

  Record est_inv (d : dstate) (o : fobs) : Prop := {
    ei_kind : fo_kind o = FEst;
    ei_shape : shape (fo_est o);
    ei_sched : forall x, In x (all_sops (sched d)) -> eget (fo_est o) (s_job x) (s_pos x) = s_start x;
    ei_unsched : forall j p op, get_op I j p = Some op -> is_sched d (j, p) = false ->
        eget (fo_est o) j p =
        cv d (skipn (nthN (jnext d) j) (get_job I j)) (nthZ (jfree d) j) (p - nthN (jnext d) j);
    ei_ops : fo_ops o = when (t_ops m) (est_ops I fs d (fo_est o));
    ei_mach : fo_mach o = when (t_mach m) (est_mach I fs d (fo_est o));
    ei_jobs : if t_jobs m
              then exists v, fo_jobs o = Some v /\ length v = J /\
                     forall j, (j < J)%nat -> (nthN (jnext d) j < length (get_job I j))%nat ->
                       nthZ v j = eget (fo_est o) j (nthN (jnext d) j) - now_of I fs d
              else fo_jobs o = None
  }.

  (** everything [est_features] establishes, for any matrix whose scheduled
      entries are right *)
  Lemma est_features_inv d o :
    Inv I d -> fo_kind o = FEst -> shape (fo_est o) ->
    (forall x, In x (all_sops (sched d)) -> eget (fo_est o) (s_job x) (s_pos x) = s_start x) ->
    isSome (fo_ops o) = t_ops m -> isSome (fo_mach o) = t_mach m ->
    (if t_jobs m then exists v, fo_jobs o = Some v /\ length v = J else fo_jobs o = None) ->
    est_inv d (est_features I fs d o).
  Proof.
    intros Hi K Hs Hsch Ho Hm Hj. unfold est_features.
    constructor; cbn [fo_kind fo_est fo_ops fo_mach fo_jobs set_est set_feats].
    - exact K.
    - apply shape_recompute. exact Hs.
    - intros x Hx. destruct (i_sop _ _ Hi x Hx) as ((op & Hop & _) & Hlt & _).
      rewrite eget_recompute by (try exact Hs; try apply (i_bound _ _ Hi); apply (get_op_job_lt _ _ _ _ Hop)). cbv zeta.
      replace (nthN (jnext d) (s_job x) <=? s_pos x)%nat with false by (symmetry; apply Nat.leb_gt; exact Hlt).
      cbn [andb]. apply Hsch. exact Hx.
    - intros j p op Hop Hns. unfold is_sched in Hns. cbn [fst snd] in Hns. apply Nat.ltb_ge in Hns.
      rewrite eget_recompute by (try exact Hs; try apply (i_bound _ _ Hi); apply (get_op_job_lt _ _ _ _ Hop)). cbv zeta.
      pose proof (get_op_pos_lt _ _ _ _ Hop) as Hp. rewrite skipn_length.
      replace (nthN (jnext d) j <=? p)%nat with true by (symmetry; apply Nat.leb_le; exact Hns).
      replace (p <? nthN (jnext d) j + (length (get_job I j) - nthN (jnext d) j))%nat with true
        by (symmetry; apply Nat.ltb_lt; lia).
      reflexivity.
    - destruct (fo_ops o), (t_ops m); try discriminate; reflexivity.
    - destruct (fo_mach o), (t_mach m); try discriminate; reflexivity.
    - destruct (t_jobs m).
      + destruct Hj as (v & Hv1 & Hl). rewrite Hv1. cbn [option_map]. eexists. split; [reflexivity|].
        unfold est_jobs. split; [rewrite length_fold_cond_upd; exact Hl|].
        intros j Hjj Hlt. rewrite fold_cond_upd by (fold J; lia).
        replace (0 <=? j)%nat with true by reflexivity.
        replace (j <? 0 + num_jobs I)%nat with true by (symmetry; apply Nat.ltb_lt; fold J; lia).
        replace (nthN (jnext d) j <? length (get_job I j))%nat with true by (symmetry; apply Nat.ltb_lt; exact Hlt).
        reflexivity.
      + rewrite Hj. reflexivity.
  Qed.

  Definition fresh_est : fobs := init_simple I fs (init_d I) (set_est (zero_obj I FEst m) (est0 I)).

  Lemma est_inv_init : est_inv (init_d I) fresh_est.
  Proof.
    unfold fresh_est, init_simple. cbn [fo_kind set_est zero_obj set_feats blank].
    apply est_features_inv; cbn [fo_kind fo_est fo_ops fo_mach fo_jobs set_est zero_obj set_feats blank].
    - apply Inv_init.
    - reflexivity.
    - apply shape_est0.
    - intros x Hx. unfold all_sops, init_d in Hx. cbn [sched] in Hx. rewrite concat_repeat_nil in Hx. contradiction.
    - destruct (t_ops m); reflexivity.
    - destruct (t_mach m); reflexivity.
    - destruct (t_jobs m); cbn [when]; [|reflexivity]. eexists. split; [reflexivity|]. apply repeat_length.
  Qed.

  Lemma est_inv_step d r x o : Inv I d -> est_inv d o -> sop_of_request I d r = Some x ->
    est_inv (apply_sop I d x (row_of d x)) (obj_step I fs (apply_sop I d x (row_of d x)) x o).
  Proof.
    intros Hi [K Hs Hsch Hun Ho Hm Hj] E. unfold obj_step, upd_obs. rewrite K.
    destruct (sop_of_request_accepted I d r x E) as (ox & Ha).
    assert (Hi' : Inv I (apply_sop I d x (row_of d x))) by (eapply Inv_apply_sop; eauto).
    destruct (st_op I d r x E) as (op & Hop & _).
    assert (HjJ : (s_job x < J)%nat) by (apply (get_op_job_lt _ _ _ _ Hop)).
    assert (HpM : (s_pos x < max_len I)%nat).
    { pose proof (get_op_pos_lt _ _ _ _ Hop). pose proof (joblen_le_max (s_job x)). lia. }
    apply est_features_inv; cbn [fo_kind fo_est fo_ops fo_mach fo_jobs set_est].
    - exact Hi'.
    - exact K.
    - apply shape_eset. exact Hs.
    - intros y Hy. rewrite eget_eset by assumption.
      cbn [sched apply_sop] in Hy.
      apply (Permutation_in _ (concat_upd_perm _ _ _ x (a_row _ _ _ _ _ _ Ha))) in Hy.
      destruct Hy as [<-|Hy].
      + rewrite !Nat.eqb_refl. reflexivity.
      + destruct ((s_job y =? s_job x)%nat && (s_pos y =? s_pos x)%nat) eqn:Eq; [|apply Hsch; exact Hy].
        exfalso. apply andb_true_iff in Eq. destruct Eq as [E1 E2]. apply Nat.eqb_eq in E1, E2.
        destruct (i_sop _ _ Hi y Hy) as (_ & Hlt & _). rewrite E1, E2, (st_next I d r x E) in Hlt. lia.
    - rewrite Ho. destruct (t_ops m); reflexivity.
    - rewrite Hm. destruct (t_mach m); reflexivity.
    - destruct (t_jobs m); [|exact Hj]. destruct Hj as (v & Hv1 & Hl & _). exists v. split; assumption.
  Qed.

  Lemma minZ_opt_map_ext {A} (f g : A -> Z) l : (forall a, In a l -> f a = g a) ->
    minZ_opt (map f l) = minZ_opt (map g l).
  Proof. intros H. f_equal. apply map_ext_in. exact H. Qed.

  Theorem earliest_start_after rs s0 i :
    placed s0 i fresh_est ->
    let w := after_run I fs s0 rs in
    (t_ops m = true -> forall j p op, get_op I j p = Some op ->
        cell (fo_ops (feat w i)) (op_id I j p) = Some (sp_est_op I fs (rows w) (j, p))) /\
    (t_mach m = true -> forall mm, (mm < num_machines I)%nat ->
        cell (fo_mach (feat w i)) mm = Some (sp_est_mach I fs (rows w) mm)) /\
    (t_jobs m = true -> forall j, (j < num_jobs I)%nat -> job_has_unscheduled I (rows w) j = true ->
        cell (fo_jobs (feat w i)) j = Some (sp_est_job I fs (rows w) j)).
  Proof.
    intros Hp.
    destruct (inv_run I fs Hv est_inv (fun d o H => ltac:(rewrite (ei_kind d o H); discriminate))
                      est_inv_step rs s0 i _ Hp est_inv_init) as [Hi [K Hs Hsch Hun Ho Hm Hj]].
    cbv zeta. unfold rows. set (d := core (after_run I fs s0 rs)) in *.
    set (o := feat (after_run I fs s0 rs) i) in *.
    (* the matrix entry of every operation is the specified absolute earliest start *)
    assert (Habs : forall j p op, get_op I j p = Some op -> eget (fo_est o) j p = sp_est_abs I (sched d) (j, p)).
    { intros j p op Hop. unfold sp_est_abs. destruct (sp_find (sched d) (j, p)) as [x|] eqn:Ef.
      - apply sp_find_some in Ef. destruct Ef as [Hx Hk]. unfold key in Hk. inversion Hk; subst.
        apply Hsch. exact Hx.
      - assert (Hns : is_sched d (j, p) = false).
        { destruct (is_sched d (j, p)) eqn:Es; [|reflexivity]. exfalso.
          unfold is_sched in Es. cbn [fst snd] in Es. apply Nat.ltb_lt in Es.
          destruct (i_prefix _ _ Hi j p Es) as (x & Hx & Hk). rewrite <- Hk, (sp_find_in I d Hi x Hx) in Ef. discriminate. }
        rewrite (Hun j p op Hop Hns). cbn [fst snd]. rewrite (n_sched_eq I d Hi), (job_free_eq I d Hi).
        apply (cv_est_from d Hi). intros o' mm Ho' Hmm.
        assert (Hin : In o' (get_job I j)).
        { clear -Ho'. revert Ho'. generalize (nthN (jnext d) j). intros n. revert n.
          induction (get_job I j) as [|a t IH]; intros [|n] H; simpl in *; try tauto. right. eapply IH; eauto. }
        apply In_nth_error in Hin. destruct Hin as [q Hq].
        assert (Hgo : get_op I j q = Some o').
        { unfold get_op, get_job in *. destruct (nth_error I j) as [jb|] eqn:Ej.
          - rewrite (nth_error_nth _ _ _ Ej) in Hq. exact Hq.
          - rewrite nth_overflow in Hq by (apply nth_error_None; exact Ej). destruct q; discriminate. }
        eapply machine_lt; eauto. }
    repeat split.
    - intros Ht j p op Hop. rewrite Ho, Ht. cbn [when]. unfold est_ops. rewrite (cell_map_keys I _ j p op Hop).
      cbn [fst snd]. unfold sp_est_op. rewrite (Habs j p op Hop), (sp_now_eq I fs d Hi). reflexivity.
    - intros Ht mm Hmm. rewrite Hm, Ht. cbn [when]. unfold est_mach. rewrite cell_map_seq by exact Hmm.
      unfold sp_est_mach. rewrite (sp_now_eq I fs d Hi).
      rewrite (filter_ext (fun k => on_machine I mm k && negb (sp_scheduled (sched d) k))
                          (fun k => mem_nat mm (kmachines I k) && negb (is_sched d k)))
        by (intros k; rewrite (sp_scheduled_eq I d Hi); reflexivity).
      rewrite (minZ_opt_map_ext (sp_est_abs I (sched d)) (fun k => eget (fo_est o) (fst k) (snd k))).
      + destruct (minZ_opt _); f_equal; lia.
      + intros [j p] Hk. apply filter_In in Hk. destruct Hk as [Hk _]. apply In_all_keys in Hk.
        destruct Hk as [op Hop]. cbn [fst snd]. symmetry. apply (Habs j p op Hop).
    - intros Ht j Hjj Hu. rewrite Ht in Hj. destruct Hj as (v & Hv1 & Hl & Hc). rewrite Hv1. cbn [cell].
      unfold job_has_unscheduled in Hu. rewrite (n_sched_eq I d Hi) in Hu. apply Nat.ltb_lt in Hu.
      rewrite (nth_error_nth' v 0) by (rewrite Hl; exact Hjj). f_equal. fold (nthZ v j).
      rewrite (Hc j Hjj Hu). unfold sp_est_job. rewrite (n_sched_eq I d Hi), (sp_now_eq I fs d Hi).
      destruct (get_op_of_pos_lt I j _ Hu) as [op Hop]. rewrite (Habs _ _ op Hop). reflexivity.
  Qed.
End Est.
