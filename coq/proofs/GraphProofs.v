(** GraphProofs.v — what each building block writes (in terms of the
    instance alone) and, from that, the node list and the exact typed edge
    set of every builder. *)
From JSL Require Import Base Instance Dstate Graph Feasible GraphSpec ListFacts OpIds GraphFacts GraphStages.
From Coq Require Import Lia.

(** ** helpers *)

Lemma In_flat_map_rows {A B} (f : list A -> list B) (rows : list (list A)) x :
  In x (flat_map f rows) <-> exists j, (j < length rows)%nat /\ In x (f (nth j rows [])).
Proof.
  rewrite in_flat_map. split.
  - intros (row & Hr & Hx). destruct (In_nth _ _ [] Hr) as (j & Hj & E). exists j. rewrite E. auto.
  - intros (j & Hj & Hx). exists (nth j rows []). split; [apply nth_In; exact Hj|exact Hx].
Qed.

Lemma nth_error_map_seq {A} (f : nat -> A) n i :
  nth_error (map f (seq 0 n)) i = if (i <? n)%nat then Some (f i) else None.
Proof.
  destruct (i <? n)%nat eqn:E.
  - apply Nat.ltb_lt in E. rewrite nth_error_map.
    rewrite (nth_error_nth' (seq 0 n) 0%nat) by (rewrite seq_length; exact E).
    rewrite seq_nth by exact E. reflexivity.
  - apply Nat.ltb_ge in E. apply nth_error_None. rewrite map_length, seq_length. exact E.
Qed.

Lemma consecutive_map_seq {A} (f : nat -> A) n a b :
  In (a, b) (consecutive (map f (seq 0 n))) <-> exists p, (S p < n)%nat /\ a = f p /\ b = f (S p).
Proof.
  rewrite consecutive_nth. split.
  - intros (i & H1 & H2). rewrite nth_error_map_seq in H1, H2.
    destruct (S i <? n)%nat eqn:E2; [|discriminate]. apply Nat.ltb_lt in E2.
    destruct (i <? n)%nat eqn:E1; [|discriminate].
    inversion H1; inversion H2; subst. exists i. auto.
  - intros (p & Hp & -> & ->). exists p. rewrite !nth_error_map_seq.
    assert (E1 : (p <? n)%nat = true) by (apply Nat.ltb_lt; lia).
    assert (E2 : (S p <? n)%nat = true) by (apply Nat.ltb_lt; lia).
    rewrite E1, E2. auto.
Qed.

Lemma job_row_is_seq I j n : map (op_id I j) (seq 0 n) = seq (op_id I j 0) n.
Proof.
  unfold op_id. rewrite <- map_add_seq. apply map_ext. intros p. lia.
Qed.

Lemma job_row_In I j u :
  In u (map (op_id I j) (seq 0 (length (get_job I j)))) <-> exists p o, get_op I j p = Some o /\ u = op_id I j p.
Proof.
  rewrite in_map_iff. split.
  - intros (p & <- & Hp). apply in_seq in Hp. destruct (get_op_of_pos_lt I j p) as [o Ho]; [lia|]. eauto.
  - intros (p & o & Ho & ->). exists p. split; [reflexivity|]. apply in_seq.
    apply get_op_pos_lt in Ho. lia.
Qed.

Lemma job_row_NoDup I j n : NoDup (map (op_id I j) (seq 0 n)).
Proof. rewrite job_row_is_seq. apply seq_NoDup. Qed.

Lemma op_id_same_job_inj I j p p' : op_id I j p = op_id I j p' -> p = p'.
Proof. unfold op_id. lia. Qed.

Lemma last_map_seq {A} (f : nat -> A) n d : last (map f (seq 0 (S n))) d = f n.
Proof. rewrite seq_S, map_app. simpl. apply last_last. Qed.

Lemma get_job_In I j : (j < num_jobs I)%nat -> In (get_job I j) I.
Proof. intros H. unfold get_job. apply nth_In. exact H. Qed.

(** ** the blocks of the disjunctive graph *)

Section Blocks.
  Variables (I : instance) (g : graph) (nodes : list (nat * node)) (w : list edge).
  Hypothesis Hs : stage I g nodes w.

  Lemma conj_block u v t :
    In (u, v, t) (conjunctive_edge_list g) <-> t = EConj /\ job_chain I u v.
  Proof.
    unfold conjunctive_edge_list. rewrite In_flat_map_rows. split.
    - intros (j & Hj & Hin). rewrite (st_by_job _ _ _ _ Hs) in Hin. apply in_map_iff in Hin.
      destruct Hin as ([a b] & E & Hc). simpl in E. inversion E; subst.
      apply consecutive_map_seq in Hc. destruct Hc as (p & Hp & -> & ->). split; [reflexivity|].
      destruct (get_op_of_pos_lt I j p) as [o Ho]; [lia|].
      destruct (get_op_of_pos_lt I j (S p)) as [o' Ho']; [lia|].
      exists j, p, o, o'. unfold is_op. auto.
    - intros (-> & j & p & o & o' & [Ho ->] & [Ho' ->]). exists j. split.
      + rewrite (st_len_job _ _ _ _ Hs). eapply get_op_job_lt; eauto.
      + rewrite (st_by_job _ _ _ _ Hs). apply in_map_iff. exists (op_id I j p, op_id I j (S p)).
        split; [reflexivity|]. apply consecutive_map_seq. exists p. split; [|auto].
        apply get_op_pos_lt in Ho'. exact Ho'.
  Qed.

  Lemma disj_block : nodup_machines I -> forall u v t,
    In (u, v, t) (disjunctive_edge_list g) <-> t = EDisj /\ share_machine I u v.
  Proof.
    intros Hnd u v t. unfold disjunctive_edge_list. rewrite In_flat_map_rows. split.
    - intros (m & Hm & Hin). apply both_combinations in Hin; [|apply (st_machine_nodup _ _ _ _ Hs Hnd)].
      destruct Hin as (-> & Hu & Hv & Hne). split; [reflexivity|].
      apply (st_by_machine _ _ _ _ Hs) in Hu. apply (st_by_machine _ _ _ _ Hs) in Hv.
      destruct Hu as (j & p & o & Ho & -> & Hmo). destruct Hv as (j' & p' & o' & Ho' & -> & Hmo').
      split; [exact Hne|]. exists j, p, o, j', p', o', m. unfold is_op. auto.
    - intros (-> & Hne & j & p & o & j' & p' & o' & m & [Ho ->] & [Ho' ->] & Hm & Hm').
      exists m. split.
      + rewrite (st_len_machine _ _ _ _ Hs). eapply machine_lt; eauto.
      + apply both_combinations; [apply (st_machine_nodup _ _ _ _ Hs Hnd)|].
        split; [reflexivity|].
        split; [apply (st_by_machine _ _ _ _ Hs); eauto 8|].
        split; [apply (st_by_machine _ _ _ _ Hs); eauto 8|exact Hne].
  Qed.

  Lemma same_job_block u v t :
    In (u, v, t) (same_job_edge_list g) <-> t = ENone /\ same_job I u v.
  Proof.
    unfold same_job_edge_list. rewrite In_flat_map_rows. split.
    - intros (j & Hj & Hin). rewrite (st_by_job _ _ _ _ Hs) in Hin.
      apply both_combinations in Hin; [|apply job_row_NoDup].
      destruct Hin as (-> & Hu & Hv & Hne). split; [reflexivity|].
      apply job_row_In in Hu. apply job_row_In in Hv.
      destruct Hu as (p & o & Ho & ->). destruct Hv as (p' & o' & Ho' & ->).
      exists j, p, o, p', o'. unfold is_op. repeat split; auto; congruence.
    - intros (-> & j & p & o & p' & o' & [Ho ->] & [Ho' ->] & Hne). exists j. split.
      + rewrite (st_len_job _ _ _ _ Hs). eapply get_op_job_lt; eauto.
      + rewrite (st_by_job _ _ _ _ Hs). apply both_combinations; [apply job_row_NoDup|].
        split; [reflexivity|]. split; [apply job_row_In; eauto|]. split; [apply job_row_In; eauto|].
        intros E. apply op_id_same_job_inj in E. contradiction.
  Qed.

  (** source / sink edges, for a source [s] and a sink [t] *)
  Lemma ss_list_some s t : forall jobs : list (list nat),
    (forall job, In job jobs -> job <> []) ->
    exists l, source_sink_edge_list s t jobs = Some l /\
      forall e, In e l <-> exists job a r, In job jobs /\ job = a :: r /\
                                           (e = (s, a, EConj) \/ e = (last job a, t, EConj)).
  Proof.
    induction jobs as [|job r IH]; intros H.
    - exists []. split; [reflexivity|]. intros e. split; [intros []|]. intros (job & a & r & [] & _).
    - destruct IH as (l & El & Hl); [intros job' Hj; apply H; right; exact Hj|].
      destruct job as [|a r'] eqn:Ejob; [exfalso; apply (H []); [left; reflexivity|reflexivity]|].
      simpl. rewrite El. eexists. split; [reflexivity|]. intros e. simpl. rewrite Hl. split.
      + intros [<-|[<-|(job' & a' & r'' & Hin & E & He)]].
        * exists (a :: r'), a, r'. auto.
        * exists (a :: r'), a, r'. auto.
        * exists job', a', r''. auto.
      + intros (job' & a' & r'' & [<-|Hin] & E & He).
        * inversion E; subst. destruct He as [->| ->]; auto.
        * right. right. exists job', a', r''. auto.
  Qed.

  Lemma ss_block s t : nonempty_jobs I ->
    exists l, source_sink_edge_list s t (g_by_job g) = Some l /\
      forall u v ty, In (u, v, ty) l <->
        ty = EConj /\ ((u = s /\ exists j o, is_op I v j 0 o) \/
                       (v = t /\ exists j p o, is_op I u j p o /\ get_op I j (S p) = None)).
  Proof.
    intros Hne.
    assert (Hrows : forall job, In job (g_by_job g) -> job <> []).
    { intros job Hj. destruct (In_nth _ _ [] Hj) as (j & Hlt & <-).
      rewrite (st_by_job _ _ _ _ Hs). rewrite (st_len_job _ _ _ _ Hs) in Hlt.
      pose proof (Hne _ (get_job_In I j Hlt)) as Hn. destruct (get_job I j); [congruence|discriminate]. }
    destruct (ss_list_some s t _ Hrows) as (l & El & Hl). exists l. split; [exact El|].
    intros u v ty. rewrite Hl. split.
    - intros (job & a & r & Hj & Ejob & He). destruct (In_nth _ _ [] Hj) as (j & Hlt & Erow).
      rewrite (st_by_job _ _ _ _ Hs) in Erow. rewrite (st_len_job _ _ _ _ Hs) in Hlt.
      destruct (length (get_job I j)) as [|n] eqn:En.
      { simpl in Erow. congruence. }
      assert (Ha : a = op_id I j 0).
      { rewrite <- Erow in Ejob. simpl in Ejob. inversion Ejob. reflexivity. }
      assert (Hlast : last job a = op_id I j n) by (rewrite <- Erow; apply last_map_seq).
      destruct (get_op_of_pos_lt I j 0) as [o0 Ho0]; [lia|].
      destruct (get_op_of_pos_lt I j n) as [on Hon]; [lia|].
      destruct He as [E|E]; inversion E; subst u v ty; (split; [reflexivity|]).
      + left. split; [reflexivity|]. exists j, o0. unfold is_op. rewrite Ha. auto.
      + right. split; [reflexivity|]. exists j, n, on. unfold is_op. rewrite Hlast.
        split; [auto|]. destruct (get_op I j (S n)) as [o'|] eqn:E'; [|reflexivity].
        apply get_op_pos_lt in E'. lia.
    - intros (-> & [[-> (j & o & [Ho ->])]|[-> (j & p & o & [Ho ->] & Hn)]]).
      + pose proof (get_op_job_lt _ _ _ _ Ho) as Hj. pose proof (get_op_pos_lt _ _ _ _ Ho) as Hp.
        destruct (length (get_job I j)) as [|n] eqn:En; [lia|].
        exists (nth j (g_by_job g) []), (op_id I j 0), (map (op_id I j) (seq 1 n)).
        split; [apply nth_In; rewrite (st_len_job _ _ _ _ Hs); exact Hj|].
        split; [rewrite (st_by_job _ _ _ _ Hs), En; reflexivity|]. left. reflexivity.
      + pose proof (get_op_job_lt _ _ _ _ Ho) as Hj. pose proof (get_op_pos_lt _ _ _ _ Ho) as Hp.
        destruct (length (get_job I j)) as [|n] eqn:En; [lia|].
        assert (p = n).
        { destruct (Nat.eq_dec p n) as [E|E]; [exact E|].
          destruct (get_op_of_pos_lt I j (S p)) as [o' Ho']; [lia|]. congruence. }
        subst p.
        exists (nth j (g_by_job g) []), (op_id I j 0), (map (op_id I j) (seq 1 n)).
        split; [apply nth_In; rewrite (st_len_job _ _ _ _ Hs); exact Hj|].
        split; [rewrite (st_by_job _ _ _ _ Hs), En; reflexivity|]. right.
        rewrite (st_by_job _ _ _ _ Hs), En, last_map_seq. reflexivity.
  Qed.

  (** ** the blocks of the agent-task graphs *)

  Lemma op_machine_block : type_row g NMachine = machine_nodes I -> forall u v t,
    In (u, v, t) (operation_machine_edge_list g) <-> t = ENone /\ sym (op_machine I) u v.
  Proof.
    intros Hrow u v t. unfold operation_machine_edge_list. rewrite Hrow, in_flat_map. split.
    - intros (x & Hx & Hin). unfold machine_nodes in Hx. apply in_map_iff in Hx.
      destruct Hx as (m & <- & Hm). simpl in Hin. apply in_flat_map in Hin.
      destruct Hin as (o' & Ho' & He). apply (st_by_machine _ _ _ _ Hs) in Ho'.
      destruct Ho' as (j & p & o & Ho & -> & Hmo). unfold both in He. simpl in He.
      destruct He as [E|[E|[]]]; inversion E; subst; (split; [reflexivity|]).
      + right. exists j, p, o, m. unfold is_op. auto.
      + left. exists j, p, o, m. unfold is_op. auto.
    - intros (-> & [H|H]); destruct H as (j & p & o & m & [Ho ->] & Hm & ->).
      + exists ((num_ops I + m)%nat, MachineNode m). split.
        * unfold machine_nodes. apply in_map_iff. exists m. split; [reflexivity|]. apply in_seq.
          pose proof (machine_lt _ _ _ _ _ Ho Hm). lia.
        * simpl. apply in_flat_map. exists (op_id I j p). split.
          -- apply (st_by_machine _ _ _ _ Hs). eauto 6.
          -- right. left. reflexivity.
      + exists ((num_ops I + m)%nat, MachineNode m). split.
        * unfold machine_nodes. apply in_map_iff. exists m. split; [reflexivity|]. apply in_seq.
          pose proof (machine_lt _ _ _ _ _ Ho Hm). lia.
        * simpl. apply in_flat_map. exists (op_id I j p). split.
          -- apply (st_by_machine _ _ _ _ Hs). eauto 6.
          -- left. reflexivity.
  Qed.

  Lemma machine_machine_block : type_row g NMachine = machine_nodes I -> forall u v t,
    In (u, v, t) (machine_machine_edge_list g) <-> t = ENone /\ machine_machine I u v.
  Proof.
    intros Hrow u v t. unfold machine_machine_edge_list. rewrite Hrow.
    assert (E : map fst (machine_nodes I) = seq (num_ops I) (num_machines I)).
    { unfold machine_nodes. rewrite map_map. simpl.
      rewrite (map_add_seq (num_machines I) (num_ops I) 0), Nat.add_0_r. reflexivity. }
    rewrite E, both_combinations by apply seq_NoDup. rewrite !in_seq. unfold machine_machine. split.
    - intros (-> & Hu & Hv & Hne). split; [reflexivity|].
      exists (u - num_ops I)%nat, (v - num_ops I)%nat. repeat split; lia.
    - intros (-> & m & m' & Hm & Hm' & Hne & -> & ->). repeat split; lia.
  Qed.

  Lemma op_job_block : type_row g NJob = job_nodes I -> forall u v t,
    In (u, v, t) (operation_job_edge_list g) <-> t = ENone /\ sym (op_job I) u v.
  Proof.
    intros Hrow u v t. unfold operation_job_edge_list. rewrite Hrow, in_flat_map. split.
    - intros (x & Hx & Hin). unfold job_nodes in Hx. apply in_map_iff in Hx.
      destruct Hx as (j & <- & Hj). simpl in Hin. apply in_flat_map in Hin.
      destruct Hin as (o' & Ho' & He). rewrite (st_by_job _ _ _ _ Hs) in Ho'. apply job_row_In in Ho'.
      destruct Ho' as (p & o & Ho & ->). unfold both in He. simpl in He.
      destruct He as [E|[E|[]]]; inversion E; subst; (split; [reflexivity|]).
      + right. exists j, p, o. unfold is_op. auto.
      + left. exists j, p, o. unfold is_op. auto.
    - intros (-> & [H|H]); destruct H as (j & p & o & [Ho ->] & ->).
      + exists ((num_ops I + num_machines I + j)%nat, JobNode j). split.
        * unfold job_nodes. apply in_map_iff. exists j. split; [reflexivity|]. apply in_seq.
          pose proof (get_op_job_lt _ _ _ _ Ho). lia.
        * simpl. apply in_flat_map. exists (op_id I j p). split.
          -- rewrite (st_by_job _ _ _ _ Hs). apply job_row_In. eauto.
          -- right. left. reflexivity.
      + exists ((num_ops I + num_machines I + j)%nat, JobNode j). split.
        * unfold job_nodes. apply in_map_iff. exists j. split; [reflexivity|]. apply in_seq.
          pose proof (get_op_job_lt _ _ _ _ Ho). lia.
        * simpl. apply in_flat_map. exists (op_id I j p). split.
          -- rewrite (st_by_job _ _ _ _ Hs). apply job_row_In. eauto.
          -- left. reflexivity.
  Qed.

  Lemma job_job_block : type_row g NJob = job_nodes I -> forall u v t,
    In (u, v, t) (job_job_edge_list g) <-> t = ENone /\ job_job I u v.
  Proof.
    intros Hrow u v t. unfold job_job_edge_list. rewrite Hrow.
    assert (E : map fst (job_nodes I) = seq (num_ops I + num_machines I) (num_jobs I)).
    { unfold job_nodes. rewrite map_map. simpl.
      rewrite (map_add_seq (num_jobs I) (num_ops I + num_machines I) 0), Nat.add_0_r. reflexivity. }
    rewrite E, both_combinations by apply seq_NoDup. rewrite !in_seq. unfold job_job. split.
    - intros (-> & Hu & Hv & Hne). split; [reflexivity|].
      exists (u - (num_ops I + num_machines I))%nat, (v - (num_ops I + num_machines I))%nat.
      repeat split; lia.
    - intros (-> & j & j' & Hj & Hj' & Hne & -> & ->). repeat split; lia.
  Qed.

  Lemma machine_global_block rest :
    type_row g NGlobal = (global_id I, GlobalNode) :: rest -> type_row g NMachine = machine_nodes I ->
    exists l, global_edge_list g NMachine = Some l /\
      forall u v t, In (u, v, t) l <-> t = ENone /\ sym (machine_global I) u v.
  Proof.
    intros Hg Hrow. unfold global_edge_list. rewrite Hg, Hrow. eexists. split; [reflexivity|].
    intros u v t. rewrite in_flat_map. unfold machine_global, sym, global_id. split.
    - intros (x & Hx & He). unfold machine_nodes in Hx. apply in_map_iff in Hx.
      destruct Hx as (m & <- & Hm). apply in_seq in Hm. unfold both in He. simpl in He.
      destruct He as [E|[E|[]]]; inversion E; subst; (split; [reflexivity|]).
      + right. exists m. repeat split; lia.
      + left. exists m. repeat split; lia.
    - intros (-> & [(m & Hm & -> & ->)|(m & Hm & -> & ->)]);
        exists ((num_ops I + m)%nat, MachineNode m);
        (split; [unfold machine_nodes; apply in_map_iff; exists m; split; [reflexivity|apply in_seq; lia]|]).
      + right. left. reflexivity.
      + left. reflexivity.
  Qed.

  Lemma job_global_block rest :
    type_row g NGlobal = (global_id I, GlobalNode) :: rest -> type_row g NJob = job_nodes I ->
    exists l, global_edge_list g NJob = Some l /\
      forall u v t, In (u, v, t) l <-> t = ENone /\ sym (job_global I) u v.
  Proof.
    intros Hg Hrow. unfold global_edge_list. rewrite Hg, Hrow. eexists. split; [reflexivity|].
    intros u v t. rewrite in_flat_map. unfold job_global, sym, global_id. split.
    - intros (x & Hx & He). unfold job_nodes in Hx. apply in_map_iff in Hx.
      destruct Hx as (j & <- & Hj). apply in_seq in Hj. unfold both in He. simpl in He.
      destruct He as [E|[E|[]]]; inversion E; subst; (split; [reflexivity|]).
      + right. exists j. repeat split; lia.
      + left. exists j. repeat split; lia.
    - intros (-> & [(j & Hj & -> & ->)|(j & Hj & -> & ->)]);
        exists ((num_ops I + num_machines I + j)%nat, JobNode j);
        (split; [unfold job_nodes; apply in_map_iff; exists j; split; [reflexivity|apply in_seq; lia]|]).
      + right. left. reflexivity.
      + left. reflexivity.
  Qed.
End Blocks.

(** ** id ranges of the edge predicates *)

Lemma is_op_lt I u j p o : is_op I u j p o -> (u < num_ops I)%nat.
Proof. intros [Ho ->]. eapply op_id_lt; eauto. Qed.

Lemma job_chain_lt I u v : job_chain I u v -> (u < num_ops I)%nat /\ (v < num_ops I)%nat.
Proof. intros (j & p & o & o' & H1 & H2). split; eapply is_op_lt; eauto. Qed.
Lemma share_machine_lt I u v : share_machine I u v -> (u < num_ops I)%nat /\ (v < num_ops I)%nat.
Proof. intros (_ & j & p & o & j' & p' & o' & m & H1 & H2 & _). split; eapply is_op_lt; eauto. Qed.
Lemma same_job_lt I u v : same_job I u v -> (u < num_ops I)%nat /\ (v < num_ops I)%nat.
Proof. intros (j & p & o & p' & o' & H1 & H2 & _). split; eapply is_op_lt; eauto. Qed.
Lemma op_machine_lt I u v :
  sym (op_machine I) u v -> (u < num_ops I + num_machines I)%nat /\ (v < num_ops I + num_machines I)%nat.
Proof.
  intros [H|H]; destruct H as (j & p & o & m & [Ho ->] & Hm & ->);
    pose proof (op_id_lt _ _ _ _ Ho); pose proof (machine_lt _ _ _ _ _ Ho Hm); lia.
Qed.
Lemma machine_machine_lt I u v :
  machine_machine I u v -> (u < num_ops I + num_machines I)%nat /\ (v < num_ops I + num_machines I)%nat.
Proof. intros (m & m' & Hm & Hm' & _ & -> & ->). lia. Qed.
Lemma op_job_lt I u v :
  sym (op_job I) u v -> (u < num_ops I + num_machines I + num_jobs I)%nat /\
                        (v < num_ops I + num_machines I + num_jobs I)%nat.
Proof.
  intros [H|H]; destruct H as (j & p & o & [Ho ->] & ->);
    pose proof (op_id_lt _ _ _ _ Ho); pose proof (get_op_job_lt _ _ _ _ Ho); lia.
Qed.
Lemma job_job_lt I u v :
  job_job I u v -> (u < num_ops I + num_machines I + num_jobs I)%nat /\
                   (v < num_ops I + num_machines I + num_jobs I)%nat.
Proof. intros (j & j' & Hj & Hj' & _ & -> & ->). lia. Qed.
Lemma machine_global_lt I u v :
  sym (machine_global I) u v -> (u < S (num_ops I + num_machines I + num_jobs I))%nat /\
                                (v < S (num_ops I + num_machines I + num_jobs I))%nat.
Proof. intros [(m & Hm & -> & ->)|(m & Hm & -> & ->)]; lia. Qed.
Lemma job_global_lt I u v :
  sym (job_global I) u v -> (u < S (num_ops I + num_machines I + num_jobs I))%nat /\
                            (v < S (num_ops I + num_machines I + num_jobs I))%nat.
Proof. intros [(j & Hj & -> & ->)|(j & Hj & -> & ->)]; lia. Qed.

(** ** type rows of the node lists *)

Lemma length_machine_nodes I : length (machine_nodes I) = num_machines I.
Proof. unfold machine_nodes. rewrite map_length, seq_length. reflexivity. Qed.
Lemma length_job_nodes I : length (job_nodes I) = num_jobs I.
Proof. unfold job_nodes. rewrite map_length, seq_length. reflexivity. Qed.

Lemma filter_machine_nodes I t :
  filter (is_type t) (machine_nodes I) = if (ntype_code t =? 1)%nat then machine_nodes I else [].
Proof.
  apply filter_all. intros x Hx. unfold machine_nodes in Hx. apply in_map_iff in Hx.
  destruct Hx as (k & <- & _). unfold is_type. simpl. destruct t; reflexivity.
Qed.
Lemma filter_job_nodes I t :
  filter (is_type t) (job_nodes I) = if (ntype_code t =? 2)%nat then job_nodes I else [].
Proof.
  apply filter_all. intros x Hx. unfold job_nodes in Hx. apply in_map_iff in Hx.
  destruct Hx as (k & <- & _). unfold is_type. simpl. destruct t; reflexivity.
Qed.

Lemma machine_nodes_number I :
  number_from (num_ops I) (map MachineNode (seq 0 (num_machines I))) = machine_nodes I.
Proof. rewrite number_from_map_seq. reflexivity. Qed.
Lemma job_nodes_number I :
  number_from (num_ops I + num_machines I) (map JobNode (seq 0 (num_jobs I))) = job_nodes I.
Proof. rewrite number_from_map_seq. reflexivity. Qed.

(** ** the builders *)

Lemma stage_add_node_at I g nodes w nd n :
  non_op nd -> stage I g nodes w -> n = length nodes -> stage I (add_node g nd) (nodes ++ [(n, nd)]) w.
Proof. intros Hn Hs ->. apply stage_add_node; assumption. Qed.

Theorem disjunctive_char I : nonempty_jobs I -> nodup_machines I ->
  exists G w, build_disjunctive_graph I = Some G /\ stage I G (nodes_disjunctive I) w /\
    forall u v t, In (u, v, t) (g_edges G) <-> spec_disjunctive I u v t.
Proof.
  intros Hne Hnd. pose proof (stage_new I) as S0.
  pose proof (disj_block _ _ _ _ S0 Hnd) as HD.
  destruct (stage_add_edges I _ _ _ (disjunctive_edge_list (new_graph I)) S0) as (g1 & E1 & S1 & _).
  { intros u v t H. apply HD in H. rewrite length_op_nodes. apply share_machine_lt. tauto. }
  pose proof (conj_block _ _ _ _ S1) as HC.
  destruct (stage_add_edges I _ _ _ (conjunctive_edge_list g1) S1) as (g2 & E2 & S2 & _).
  { intros u v t H. apply HC in H. rewrite length_op_nodes. apply job_chain_lt. tauto. }
  assert (S4 : stage I (add_source_sink_nodes g2) (nodes_disjunctive I) ([] ++ disjunctive_edge_list (new_graph I) ++ conjunctive_edge_list g1)).
  { unfold add_source_sink_nodes, nodes_disjunctive. rewrite <- app_assoc in S2.
    change [(num_ops I, SourceNode); (S (num_ops I), SinkNode)]
      with ([(num_ops I, SourceNode)] ++ [(S (num_ops I), SinkNode)]).
    rewrite app_assoc.
    apply stage_add_node_at; [exact Logic.I| |rewrite app_length, length_op_nodes; simpl; lia].
    apply stage_add_node_at; [exact Logic.I|exact S2|rewrite length_op_nodes; reflexivity]. }
  destruct (ss_block _ _ _ _ S4 (num_ops I) (S (num_ops I)) Hne) as (l & El & HS).
  destruct (stage_add_edges I _ _ _ l S4) as (g5 & E5 & S5 & _).
  { intros u v t H. apply HS in H. unfold nodes_disjunctive. rewrite app_length, length_op_nodes. simpl.
    destruct H as (_ & [[-> (j & o & Hop)]|[-> (j & p & o & Hop & _)]]); apply is_op_lt in Hop; lia. }
  exists g5. eexists. split; [|split; [exact S5|]].
  - unfold build_disjunctive_graph, add_disjunctive_edges. rewrite E1. simpl.
    unfold add_conjunctive_edges. rewrite E2. simpl.
    unfold add_source_sink_edges.
    rewrite (st_types _ _ _ _ S4 NSource), (st_types _ _ _ _ S4 NSink).
    unfold nodes_disjunctive. rewrite !filter_app, !filter_op_nodes. simpl.
    change (g_by_job (add_source_sink_nodes g2)) with (g_by_job g2) in El. rewrite El. exact E5.
  - intros u v t. rewrite (st_edges _ _ _ _ S5), edges_of_writes. simpl app.
    rewrite !last_write_app.
    destruct (last_write_char _ _ _ HD u v) as [D1 D2].
    destruct (last_write_char _ _ _ HC u v) as [C1 C2].
    destruct (last_write_char _ EConj
               (fun u v => (u = num_ops I /\ exists j o, is_op I v j 0 o) \/
                           (v = S (num_ops I) /\ exists j p o, is_op I u j p o /\ get_op I j (S p) = None))
               HS u v) as [X1 X2].
    unfold spec_disjunctive, conj_edge, src_edge, snk_edge.
    destruct (last_write l u v) as [t1|] eqn:L1.
    + pose proof (proj1 (X1 t1) eq_refl) as [-> HP]. split.
      * intros H. inversion H; subst. left. split; [reflexivity|]. tauto.
      * intros [[-> _]|[-> [Hsh _]]]; [reflexivity|].
        exfalso. apply share_machine_lt in Hsh.
        destruct HP as [[-> (j & o & Hop)]|[-> _]]; lia.
    + pose proof (proj1 X2 eq_refl) as HnP.
      destruct (last_write (conjunctive_edge_list g1) u v) as [t2|] eqn:L2.
      * pose proof (proj1 (C1 t2) eq_refl) as [-> HP]. split.
        -- intros H. inversion H; subst. left. split; [reflexivity|]. tauto.
        -- intros [[-> _]|[-> [_ Hn]]]; [reflexivity|contradiction].
      * pose proof (proj1 C2 eq_refl) as HnC. rewrite D1. split.
        -- intros [-> Hsh]. right. auto.
        -- intros [[-> [H|H]]|[-> [Hsh _]]]; [contradiction|tauto|auto].
Qed.

(** Blocks that all write the same type: the union of their pair sets. *)
Lemma untyped_writes (L : list edge) (P : nat -> nat -> Prop) :
  (forall u v t, In (u, v, t) L <-> t = ENone /\ P u v) ->
  forall u v t, In (u, v, t) (fold_left set_edge' L []) <-> t = ENone /\ P u v.
Proof. intros H u v t. rewrite edges_of_writes. apply (proj1 (last_write_char _ _ _ H u v) t). Qed.

Lemma stage_machine_nodes I g w :
  stage I g (op_nodes I) w -> stage I (add_machine_nodes g) (nodes_agent_task I) w.
Proof.
  intros S0. unfold add_machine_nodes, nodes_agent_task. rewrite (st_inst _ _ _ _ S0).
  rewrite <- machine_nodes_number, <- (length_op_nodes I). apply stage_add_nodes; [|exact S0].
  intros nd H. apply in_map_iff in H. destruct H as (m & <- & _). exact Logic.I.
Qed.

Lemma stage_job_nodes I g w :
  stage I g (nodes_agent_task I) w -> stage I (add_job_nodes g) (nodes_with_jobs I) w.
Proof.
  intros S0. unfold add_job_nodes, nodes_with_jobs. rewrite (st_inst _ _ _ _ S0).
  rewrite <- job_nodes_number, app_assoc.
  replace (num_ops I + num_machines I)%nat with (length (nodes_agent_task I))
    by (unfold nodes_agent_task; rewrite app_length, length_op_nodes, length_machine_nodes; reflexivity).
  apply stage_add_nodes; [|exact S0].
  intros nd H. apply in_map_iff in H. destruct H as (m & <- & _). exact Logic.I.
Qed.

Lemma length_nodes_agent_task I : length (nodes_agent_task I) = (num_ops I + num_machines I)%nat.
Proof. unfold nodes_agent_task. rewrite app_length, length_op_nodes, length_machine_nodes. reflexivity. Qed.
Lemma length_nodes_with_jobs I :
  length (nodes_with_jobs I) = (num_ops I + num_machines I + num_jobs I)%nat.
Proof.
  unfold nodes_with_jobs. rewrite !app_length, length_op_nodes, length_machine_nodes, length_job_nodes. lia.
Qed.
Lemma length_nodes_complete I :
  length (nodes_complete I) = S (num_ops I + num_machines I + num_jobs I).
Proof.
  unfold nodes_complete. rewrite !app_length, length_op_nodes, length_machine_nodes, length_job_nodes.
  simpl. lia.
Qed.

Lemma row_machine_1 I g w : stage I g (nodes_agent_task I) w -> type_row g NMachine = machine_nodes I.
Proof.
  intros Hs. rewrite (st_types _ _ _ _ Hs). unfold nodes_agent_task.
  rewrite filter_app, filter_op_nodes, filter_machine_nodes. reflexivity.
Qed.
Lemma row_machine_2 I g w : stage I g (nodes_with_jobs I) w -> type_row g NMachine = machine_nodes I.
Proof.
  intros Hs. rewrite (st_types _ _ _ _ Hs). unfold nodes_with_jobs.
  rewrite !filter_app, filter_op_nodes, filter_machine_nodes, filter_job_nodes. simpl. apply app_nil_r.
Qed.
Lemma row_job_2 I g w : stage I g (nodes_with_jobs I) w -> type_row g NJob = job_nodes I.
Proof.
  intros Hs. rewrite (st_types _ _ _ _ Hs). unfold nodes_with_jobs.
  rewrite !filter_app, filter_op_nodes, filter_machine_nodes, filter_job_nodes. reflexivity.
Qed.
Lemma row_machine_3 I g w : stage I g (nodes_complete I) w -> type_row g NMachine = machine_nodes I.
Proof.
  intros Hs. rewrite (st_types _ _ _ _ Hs). unfold nodes_complete.
  rewrite !filter_app, filter_op_nodes, filter_machine_nodes, filter_job_nodes. simpl. apply app_nil_r.
Qed.
Lemma row_job_3 I g w : stage I g (nodes_complete I) w -> type_row g NJob = job_nodes I.
Proof.
  intros Hs. rewrite (st_types _ _ _ _ Hs). unfold nodes_complete.
  rewrite !filter_app, filter_op_nodes, filter_machine_nodes, filter_job_nodes. simpl. apply app_nil_r.
Qed.
Lemma row_global_3 I g w :
  stage I g (nodes_complete I) w -> type_row g NGlobal = [(global_id I, GlobalNode)].
Proof.
  intros Hs. rewrite (st_types _ _ _ _ Hs). unfold nodes_complete.
  rewrite !filter_app, filter_op_nodes, filter_machine_nodes, filter_job_nodes. reflexivity.
Qed.

Theorem agent_task_char I :
  exists G w, build_agent_task_graph I = Some G /\ stage I G (nodes_agent_task I) w /\
    forall u v t, In (u, v, t) (g_edges G) <-> spec_agent_task I u v t.
Proof.
  pose proof (stage_machine_nodes I _ _ (stage_new I)) as S1.
  pose proof (op_machine_block _ _ _ _ S1 (row_machine_1 _ _ _ S1)) as H1.
  destruct (stage_add_edges I _ _ _ (operation_machine_edge_list (add_machine_nodes (new_graph I))) S1)
    as (g2 & E2 & S2 & _).
  { intros u v t H. apply H1 in H. rewrite length_nodes_agent_task. apply op_machine_lt. tauto. }
  pose proof (machine_machine_block I g2 (row_machine_1 _ _ _ S2)) as H2.
  destruct (stage_add_edges I _ _ _ (machine_machine_edge_list g2) S2) as (g3 & E3 & S3 & _).
  { intros u v t H. apply H2 in H. rewrite length_nodes_agent_task. apply machine_machine_lt. tauto. }
  pose proof (same_job_block _ _ _ _ S3) as H3.
  destruct (stage_add_edges I _ _ _ (same_job_edge_list g3) S3) as (g4 & E4 & S4 & _).
  { intros u v t H. apply H3 in H. rewrite length_nodes_agent_task.
    destruct (same_job_lt I u v) as [A B]; [tauto|]. lia. }
  exists g4. eexists. split; [|split; [exact S4|]].
  - unfold build_agent_task_graph, add_operation_machine_edges. rewrite E2. simpl.
    unfold add_machine_machine_edges. rewrite E3. simpl. exact E4.
  - rewrite (st_edges _ _ _ _ S4). apply untyped_writes.
    intros u v t. simpl app. rewrite !in_app_iff, H1, H2, H3. tauto.
Qed.

Theorem with_jobs_char I :
  exists G w, build_agent_task_graph_with_jobs I = Some G /\ stage I G (nodes_with_jobs I) w /\
    forall u v t, In (u, v, t) (g_edges G) <-> spec_with_jobs I u v t.
Proof.
  pose proof (stage_machine_nodes I _ _ (stage_new I)) as S1.
  pose proof (op_machine_block _ _ _ _ S1 (row_machine_1 _ _ _ S1)) as H1.
  destruct (stage_add_edges I _ _ _ (operation_machine_edge_list (add_machine_nodes (new_graph I))) S1)
    as (g2 & E2 & S2 & _).
  { intros u v t H. apply H1 in H. rewrite length_nodes_agent_task. apply op_machine_lt. tauto. }
  pose proof (machine_machine_block I g2 (row_machine_1 _ _ _ S2)) as H2.
  destruct (stage_add_edges I _ _ _ (machine_machine_edge_list g2) S2) as (g3 & E3 & S3 & _).
  { intros u v t H. apply H2 in H. rewrite length_nodes_agent_task. apply machine_machine_lt. tauto. }
  pose proof (stage_job_nodes I _ _ S3) as S4.
  pose proof (op_job_block _ _ _ _ S4 (row_job_2 _ _ _ S4)) as H4.
  destruct (stage_add_edges I _ _ _ (operation_job_edge_list (add_job_nodes g3)) S4) as (g5 & E5 & S5 & _).
  { intros u v t H. apply H4 in H. rewrite length_nodes_with_jobs. apply op_job_lt. tauto. }
  pose proof (job_job_block I g5 (row_job_2 _ _ _ S5)) as H5.
  destruct (stage_add_edges I _ _ _ (job_job_edge_list g5) S5) as (g6 & E6 & S6 & _).
  { intros u v t H. apply H5 in H. rewrite length_nodes_with_jobs. apply job_job_lt. tauto. }
  exists g6. eexists. split; [|split; [exact S6|]].
  - unfold build_agent_task_graph_with_jobs, add_operation_machine_edges. rewrite E2. simpl.
    unfold add_machine_machine_edges. rewrite E3. simpl.
    unfold add_operation_job_edges. rewrite E5. simpl. exact E6.
  - rewrite (st_edges _ _ _ _ S6). apply untyped_writes.
    intros u v t. simpl app. rewrite !in_app_iff, H1, H2, H4, H5. tauto.
Qed.

Theorem complete_char I :
  exists G w, build_complete_agent_task_graph I = Some G /\ stage I G (nodes_complete I) w /\
    forall u v t, In (u, v, t) (g_edges G) <-> spec_complete I u v t.
Proof.
  pose proof (stage_machine_nodes I _ _ (stage_new I)) as S1.
  pose proof (op_machine_block _ _ _ _ S1 (row_machine_1 _ _ _ S1)) as H1.
  destruct (stage_add_edges I _ _ _ (operation_machine_edge_list (add_machine_nodes (new_graph I))) S1)
    as (g2 & E2 & S2 & _).
  { intros u v t H. apply H1 in H. rewrite length_nodes_agent_task. apply op_machine_lt. tauto. }
  pose proof (stage_job_nodes I _ _ S2) as S3.
  pose proof (op_job_block _ _ _ _ S3 (row_job_2 _ _ _ S3)) as H3.
  destruct (stage_add_edges I _ _ _ (operation_job_edge_list (add_job_nodes g2)) S3) as (g4 & E4 & S4 & _).
  { intros u v t H. apply H3 in H. rewrite length_nodes_with_jobs. apply op_job_lt. tauto. }
  assert (S5 : stage I (add_global_node g4) (nodes_complete I)
                     (([] ++ operation_machine_edge_list (add_machine_nodes (new_graph I))) ++
                      operation_job_edge_list (add_job_nodes g2))).
  { unfold add_global_node, nodes_complete. rewrite !app_assoc. rewrite <- !app_assoc.
    change (op_nodes I ++ machine_nodes I ++ job_nodes I ++ [(global_id I, GlobalNode)])
      with (op_nodes I ++ machine_nodes I ++ job_nodes I ++ [(global_id I, GlobalNode)]).
    replace (op_nodes I ++ machine_nodes I ++ job_nodes I ++ [(global_id I, GlobalNode)])
      with (nodes_with_jobs I ++ [(global_id I, GlobalNode)])
      by (unfold nodes_with_jobs; rewrite <- !app_assoc; reflexivity).
    apply stage_add_node_at; [exact Logic.I|exact S4|].
    rewrite length_nodes_with_jobs. reflexivity. }
  destruct (machine_global_block I _ [] (row_global_3 _ _ _ S5) (row_machine_3 _ _ _ S5))
    as (l6 & El6 & H6).
  destruct (stage_add_edges I _ _ _ l6 S5) as (g6 & E6 & S6 & T6 & _).
  { intros u v t H. apply H6 in H. rewrite length_nodes_complete. apply machine_global_lt. tauto. }
  destruct (job_global_block I _ [] (row_global_3 _ _ _ S6) (row_job_3 _ _ _ S6))
    as (l7 & El7 & H7).
  destruct (stage_add_edges I _ _ _ l7 S6) as (g7 & E7 & S7 & _).
  { intros u v t H. apply H7 in H. rewrite length_nodes_complete. apply job_global_lt. tauto. }
  exists g7. eexists. split; [|split; [exact S7|]].
  - unfold build_complete_agent_task_graph, add_operation_machine_edges. rewrite E2. simpl.
    unfold add_operation_job_edges. rewrite E4. simpl.
    unfold add_machine_global_edges. rewrite El6, E6. simpl.
    unfold add_job_global_edges. rewrite El7. exact E7.
  - rewrite (st_edges _ _ _ _ S7). apply untyped_writes.
    intros u v t. simpl app. rewrite !in_app_iff, H1, H3, H6, H7. tauto.
Qed.
