(** Rewards.v — C13: the dense rewards telescope to the sparse objective. *)
From JSL Require Import Base Instance Dstate Filters World Observers Feasible ListFacts DispatchFun Inv Run
     Derived Tracking Replay.
From Coq Require Import Lia Permutation.

Lemma maxZ0_perm l l' : Permutation l l' -> maxZ0 l = maxZ0 l'.
Proof. induction 1; simpl; lia. Qed.

Lemma sumZ_app a b : sumZ (a ++ b) = sumZ a + sumZ b.
Proof. induction a as [|x t IH]; simpl; lia. Qed.

Lemma sumZ_map_upd {A} (f : A -> Z) (l : list A) k a b :
  nth_error l k = Some a -> sumZ (map f (upd l k b)) = sumZ (map f l) - f a + f b.
Proof.
  revert k; induction l as [|h t IH]; intros [|k] H; simpl in *; try discriminate.
  - inversion H; subst. lia.
  - rewrite (IH k H). lia.
Qed.

Section Step.
  Variable I : instance.
  Hypothesis Hv : valid I.
  Variable d : dstate.
  Hypothesis Hi : Inv I d.
  Variables (r : request) (x : sop) (o : op) (row : list sop).
  Hypothesis Ha : accepted I d r x o row.

  Let S' := sched (apply_sop I d x row).

  Lemma step_makespan : sp_makespan I S' = Z.max (sp_makespan I (sched d)) (s_end I x).
  Proof.
    unfold sp_makespan, S'. cbn [sched apply_sop].
    rewrite (maxZ0_perm _ (map (s_end I) (x :: all_sops (sched d)))).
    - simpl. lia.
    - apply Permutation_map. apply concat_upd_perm. apply (a_row _ _ _ _ _ _ Ha).
  Qed.

  Lemma dur_nonneg : 0 <= dur I x.
  Proof.
    unfold dur. rewrite (a_job _ _ _ _ _ _ Ha), (a_pos _ _ _ _ _ _ Ha), (a_op _ _ _ _ _ _ Ha).
    eapply Hv. apply (a_op _ _ _ _ _ _ Ha).
  Qed.

  Lemma start_after_row : last_end I row <= s_start x.
  Proof.
    destruct (i_rows _ _ Hi _ _ (a_row _ _ _ _ _ _ Ha)) as (_ & _ & Hl). rewrite Hl.
    rewrite (a_start _ _ _ _ _ _ Ha). lia.
  Qed.

  Lemma row_ends_max : maxZ0 (map (s_end I) row) = last_end I row.
  Proof.
    rewrite (tr_row I d Hi _ _ (a_row _ _ _ _ _ _ Ha)).
    destruct (i_rows _ _ Hi _ _ (a_row _ _ _ _ _ _ Ha)) as (_ & _ & Hl). symmetry; exact Hl.
  Qed.

  (** idle time grows by exactly the gap in front of the new operation *)
  Lemma step_idle : sp_idle I S' = sp_idle I (sched d) + (s_start x - last_end I row).
  Proof.
    unfold sp_idle, S'. cbn [sched apply_sop].
    rewrite (sumZ_map_upd (fun rw => maxZ0 (map (s_end I) rw) - sumZ (map (dur I) rw)) _ _ row _ (a_row _ _ _ _ _ _ Ha)).
    rewrite !map_app, maxZ0_app, sumZ_app. simpl. rewrite row_ends_max.
    pose proof start_after_row. pose proof dur_nonneg.
    pose proof (i_nonneg_mf _ _ Hi (s_mach x)) as Hnn.
    destruct (i_rows _ _ Hi _ _ (a_row _ _ _ _ _ _ Ha)) as (_ & _ & Hl). rewrite <- Hl in Hnn.
    assert (He : s_end I x = s_start x + dur I x) by reflexivity. lia.
  Qed.
End Step.

(** A world with both reward observers subscribed from the initial state. *)
Section Rewards.
  Variable I : instance.
  Hypothesis Hv : valid I.

  Definition rw_world (fs : list fname) (d : dstate) (mr : list Z) (cur : Z) (ir : list Z) : wld :=
    mkw d empty_cache fs [OMakespan mr cur; OIdle ir] [0%nat; 1%nat].

  Definition idle_gap (d : dstate) (x : sop) : Z := s_start x - last_end I (row_of d x).

  Lemma removelast_app_single {A} (l : list A) x : removelast (l ++ [x]) = l.
  Proof. apply removelast_last. Qed.

  Lemma rw_step fs d mr cur ir r :
    step_req obs o_update I (rw_world fs d mr cur ir) r =
    match sop_of_request I d r with
    | Some x => rw_world fs (apply_sop I d x (row_of d x))
                         (mr ++ [cur - Z.max cur (s_end I x)]) (Z.max cur (s_end I x))
                         (ir ++ [- idle_gap d x])
    | None => rw_world fs d mr cur ir
    end.
  Proof.
    rewrite step_req_sop. cbn [core rw_world]. destruct (sop_of_request I d r) as [x|] eqn:E; [|reflexivity].
    destruct (sop_of_request_accepted I d r x E) as (o & Ha).
    pose proof (a_row _ _ _ _ _ _ Ha) as Hrow.
    unfold after, rw_world. cbn. f_equal. f_equal. f_equal. f_equal. f_equal.
    unfold idle_gap, last_end.
    rewrite nth_upd_eq by (apply nth_error_Some; congruence).
    rewrite removelast_app_single. destruct (last_opt (row_of d x)); f_equal; lia.
  Qed.

  (** Invariant of the reward observers along any request list. *)
  Record RInv (d : dstate) (mr : list Z) (cur : Z) (ir : list Z) : Prop := {
    ri_cur : cur = sp_makespan I (sched d);
    ri_msum : sumZ mr = - sp_makespan I (sched d);
    ri_isum : sumZ ir = - sp_idle I (sched d);
    ri_mneg : Forall (fun z => z <= 0) mr;
    ri_ineg : Forall (fun z => z <= 0) ir;
    ri_mlen : length mr = length (all_sops (sched d));
    ri_ilen : length ir = length (all_sops (sched d))
  }.

  Lemma sp_idle_init : sp_idle I (sched (init_d I)) = 0.
  Proof. unfold sp_idle. simpl. induction (num_machines I); simpl; lia. Qed.
  Lemma sp_makespan_init : sp_makespan I (sched (init_d I)) = 0.
  Proof. unfold sp_makespan, all_sops. simpl. rewrite concat_repeat_nil. reflexivity. Qed.

  Lemma RInv_init : RInv (init_d I) [] 0 [].
  Proof.
    assert (Hl : length (all_sops (sched (init_d I))) = 0%nat)
      by (unfold all_sops; simpl; rewrite concat_repeat_nil; reflexivity).
    constructor.
    - rewrite sp_makespan_init. reflexivity.
    - rewrite sp_makespan_init. reflexivity.
    - rewrite sp_idle_init. reflexivity.
    - constructor.
    - constructor.
    - rewrite Hl. reflexivity.
    - rewrite Hl. reflexivity.
  Qed.

  Lemma RInv_step d mr cur ir r x :
    Inv I d -> RInv d mr cur ir -> sop_of_request I d r = Some x ->
    RInv (apply_sop I d x (row_of d x)) (mr ++ [cur - Z.max cur (s_end I x)]) (Z.max cur (s_end I x))
         (ir ++ [- idle_gap d x]).
  Proof.
    intros Hi [R1 R2 R3 R4 R5 R6 R7] E.
    destruct (sop_of_request_accepted I d r x E) as (o & Ha).
    pose proof (step_makespan I d r x o _ Ha) as Hm.
    pose proof (step_idle I Hv d Hi r x o _ Ha) as Hid.
    pose proof (start_after_row I d Hi r x o _ Ha) as Hgap.
    assert (Hlen : length (all_sops (sched (apply_sop I d x (row_of d x)))) = S (length (all_sops (sched d)))).
    { cbn [sched apply_sop]. unfold all_sops.
      rewrite (Permutation_length (concat_upd_perm _ _ _ x (a_row _ _ _ _ _ _ Ha))). reflexivity. }
    constructor.
    - rewrite Hm, R1. reflexivity.
    - rewrite sumZ_app, R2, Hm. simpl. rewrite R1. lia.
    - rewrite sumZ_app, R3, Hid. simpl. unfold idle_gap. lia.
    - apply Forall_app. split; [exact R4|]. constructor; [lia|constructor].
    - apply Forall_app. split; [exact R5|]. constructor; [unfold idle_gap; lia|constructor].
    - rewrite app_length, Hlen, R6. simpl. lia.
    - rewrite app_length, Hlen, R7. simpl. lia.
  Qed.

  Theorem rewards_telescope fs rs : forall d mr cur ir,
    Inv I d -> RInv d mr cur ir ->
    exists d' mr' cur' ir',
      run_from obs o_update I (rw_world fs d mr cur ir) rs = rw_world fs d' mr' cur' ir' /\
      d' = fold_left (apply_req I) rs d /\ Inv I d' /\ RInv d' mr' cur' ir'.
  Proof.
    induction rs as [|r t IH]; intros d mr cur ir Hi Hr.
    - exists d, mr, cur, ir. split; [reflexivity|split; [reflexivity|split; assumption]].
    - unfold run_from in *. simpl. rewrite rw_step.
      destruct (sop_of_request I d r) as [x|] eqn:E.
      + assert (H1 : apply_req I d r = apply_sop I d x (row_of d x)) by (unfold apply_req; rewrite E; reflexivity).
        rewrite H1.
        destruct (sop_of_request_accepted I d r x E) as (o & Ha).
        apply IH; [eapply Inv_apply_sop; eauto|eapply RInv_step; eauto].
      + assert (H1 : apply_req I d r = d) by (unfold apply_req; rewrite E; reflexivity).
        rewrite H1. apply IH; assumption.
  Qed.
End Rewards.
