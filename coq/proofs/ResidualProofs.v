(** ResidualProofs.v — C17: the residual graph along any request list.

    The updater's graph after any number of dispatches is "the builder's
    graph with a list [L] of nodes removed" ([remove_if_present] folded over
    [L]); every element of [L] is JUSTIFIED (a scheduled operation, a machine
    / job node all of whose operations are scheduled), [L] contains every
    completed operation and every flagged machine / job node. With the closed
    form of ResidualGraph.v this gives all clauses; "an unscheduled operation
    node is never swept as isolated" is the PROTECTED-set argument: per
    builder, every protected node (unscheduled operation, the sink while an
    operation is unscheduled, a machine / job node with an unscheduled
    operation) has an edge of the ORIGINAL graph to another protected node,
    and a protected node is never justified. *)
From JSL Require Import Base Instance Dstate Filters World Observers Graph Feasible Derived GraphSpec
  ListFacts OpIds GraphFacts GraphStages GraphProofs GraphSpecFacts DispatchFun Inv Run Tracking Partition
  Replay Residual ResidualSpec ResidualGraph ResidualObs.
From Coq Require Import Lia.

(** ** Scope and what the builders deliver *)

Definition scope17 (I : instance) (b : nat) : Prop :=
  positive I /\ nonempty_jobs I /\ (b = 0%nat -> nodup_machines I).

Definition spec_edgesP (b : nat) (I : instance) : nat -> nat -> etype -> Prop :=
  match b with
  | 0 => spec_disjunctive I
  | 1 => spec_agent_task I
  | 2 => spec_with_jobs I
  | _ => spec_complete I
  end%nat.

Record built (I : instance) (b : nat) (g0 : graph) : Prop := {
  bt_b : (b <= 3)%nat;
  bt_stage : exists w, stage I g0 (spec_nodes b I) w;
  bt_edges : forall u v t, In (u, v, t) (g_edges g0) <-> spec_edgesP b I u v t
}.

Lemma build_built I b g0 : scope17 I b -> build_by_code b I = Some g0 -> built I b g0.
Proof.
  intros (Hpos & Hne & Hnd) E. destruct b as [|[|[|[|b]]]]; simpl in E; try discriminate.
  - destruct (disjunctive_char I Hne (Hnd eq_refl)) as (G & w & E' & Hs & He).
    rewrite E in E'. inversion E'; subst G. constructor; [lia|eauto|exact He].
  - destruct (agent_task_char I) as (G & w & E' & Hs & He).
    rewrite E in E'. inversion E'; subst G. constructor; [lia|eauto|exact He].
  - destruct (with_jobs_char I) as (G & w & E' & Hs & He).
    rewrite E in E'. inversion E'; subst G. constructor; [lia|eauto|exact He].
  - destruct (complete_char I) as (G & w & E' & Hs & He).
    rewrite E in E'. inversion E'; subst G. constructor; [lia|eauto|exact He].
Qed.

Section Built.
  Variable I : instance.
  Variable b : nat.
  Variable g0 : graph.
  Hypothesis Hb : built I b g0.
  Let N := num_ops I.
  Let M := num_machines I.
  Let J := num_jobs I.

  Lemma length_spec_nodes :
    length (spec_nodes b I) =
    match b with 0 => S (S N) | 1 => N + M | 2 => N + M + J | _ => S (N + M + J) end%nat.
  Proof.
    destruct b as [|[|[|?]]]; simpl.
    - unfold nodes_disjunctive. rewrite app_length, length_op_nodes. simpl. unfold N. lia.
    - apply length_nodes_agent_task.
    - apply length_nodes_with_jobs.
    - apply length_nodes_complete.
  Qed.

  Lemma bt_next : g_next g0 = length (spec_nodes b I).
  Proof. destruct (bt_stage _ _ _ Hb) as [w Hs]. apply (st_next _ _ _ _ Hs). Qed.
  Lemma bt_removed : g_removed g0 = repeat false (length (spec_nodes b I)).
  Proof. destruct (bt_stage _ _ _ Hb) as [w Hs]. apply (st_removed _ _ _ _ Hs). Qed.
  Lemma bt_nodes : g_nodes g0 = spec_nodes b I.
  Proof. destruct (bt_stage _ _ _ Hb) as [w Hs]. apply (st_nodes _ _ _ _ Hs). Qed.

  Lemma rmd_g0 n : rmd g0 n = false <-> (n < length (spec_nodes b I))%nat.
  Proof.
    unfold rmd. rewrite bt_removed. split.
    - intros H. destruct (Nat.lt_ge_cases n (length (spec_nodes b I))) as [Hl|Hg]; [exact Hl|].
      rewrite nth_overflow in H by (rewrite repeat_length; exact Hg). discriminate.
    - intros H. apply nth_repeat. exact H.
  Qed.

  Lemma spec_edge_lt u v t : spec_edgesP b I u v t ->
    (u < length (spec_nodes b I))%nat /\ (v < length (spec_nodes b I))%nat.
  Proof.
    pose proof (bt_b _ _ _ Hb) as Hle. rewrite length_spec_nodes. fold N M J.
    destruct b as [|[|[|[|?]]]]; try lia; simpl; intros H.
    - destruct H as [[_ [H|[H|H]]]|[_ [H _]]].
      + apply job_chain_lt in H. fold N in H. lia.
      + destruct H as [-> (j & o & Ho)]. apply is_op_lt in Ho. fold N in Ho. lia.
      + destruct H as [-> (j & p & o & Ho & _)]. apply is_op_lt in Ho. fold N in Ho. lia.
      + apply share_machine_lt in H. fold N in H. lia.
    - destruct H as [_ [H|[H|H]]].
      + apply op_machine_lt in H. exact H.
      + apply machine_machine_lt in H. exact H.
      + apply same_job_lt in H. fold N in H. lia.
    - destruct H as [_ [H|[H|[H|H]]]].
      + apply op_machine_lt in H. fold N M in H. lia.
      + apply machine_machine_lt in H. fold N M in H. lia.
      + apply op_job_lt in H. exact H.
      + apply job_job_lt in H. exact H.
    - destruct H as [_ [H|[H|[H|H]]]].
      + apply op_machine_lt in H. fold N M in H. lia.
      + apply op_job_lt in H. fold N M J in H. lia.
      + apply machine_global_lt in H. exact H.
      + apply job_global_lt in H. exact H.
  Qed.

  Lemma gwf_g0 : gwf g0.
  Proof.
    constructor.
    - rewrite bt_removed, repeat_length. symmetry. apply bt_next.
    - intros [[u v] t] He. apply (bt_edges _ _ _ Hb) in He. apply spec_edge_lt in He.
      simpl. split; apply rmd_g0; tauto.
  Qed.

  (** the type rows the updater looks at *)
  Lemma rowM : type_row g0 NMachine = if (b =? 0)%nat then [] else machine_nodes I.
  Proof.
    destruct (bt_stage _ _ _ Hb) as [w Hs]. rewrite (st_types _ _ _ _ Hs).
    pose proof (bt_b _ _ _ Hb) as Hle. destruct b as [|[|[|[|?]]]]; try lia; simpl.
    - unfold nodes_disjunctive. rewrite filter_app, filter_op_nodes. reflexivity.
    - unfold nodes_agent_task. rewrite filter_app, filter_op_nodes, filter_machine_nodes. reflexivity.
    - unfold nodes_with_jobs. rewrite !filter_app, filter_op_nodes, filter_machine_nodes, filter_job_nodes.
      simpl. apply app_nil_r.
    - unfold nodes_complete. rewrite !filter_app, filter_op_nodes, filter_machine_nodes, filter_job_nodes.
      simpl. apply app_nil_r.
  Qed.
  Lemma rowJ : type_row g0 NJob = if (b <? 2)%nat then [] else job_nodes I.
  Proof.
    destruct (bt_stage _ _ _ Hb) as [w Hs]. rewrite (st_types _ _ _ _ Hs).
    pose proof (bt_b _ _ _ Hb) as Hle. destruct b as [|[|[|[|?]]]]; try lia; simpl.
    - unfold nodes_disjunctive. rewrite filter_app, filter_op_nodes. reflexivity.
    - unfold nodes_agent_task. rewrite filter_app, filter_op_nodes, filter_machine_nodes. reflexivity.
    - unfold nodes_with_jobs. rewrite !filter_app, filter_op_nodes, filter_machine_nodes, filter_job_nodes.
      reflexivity.
    - unfold nodes_complete. rewrite !filter_app, filter_op_nodes, filter_machine_nodes, filter_job_nodes.
      simpl. apply app_nil_r.
  Qed.
End Built.

(** [get_machine_node] / [get_job_node] on the builders' rows *)
Lemma get_machine_node_spec I m : (m < num_machines I)%nat ->
  get_group_node (machine_nodes I) is_machine_node m = Some (num_ops I + m)%nat.
Proof.
  intros Hm. unfold get_group_node, machine_nodes. rewrite nth_error_map_seq.
  assert (E : (m <? num_machines I)%nat = true) by (apply Nat.ltb_lt; exact Hm). rewrite E. simpl.
  rewrite Nat.eqb_refl. reflexivity.
Qed.
Lemma get_job_node_spec I j : (j < num_jobs I)%nat ->
  get_group_node (job_nodes I) is_job_node j = Some (num_ops I + num_machines I + j)%nat.
Proof.
  intros Hm. unfold get_group_node, job_nodes. rewrite nth_error_map_seq.
  assert (E : (j <? num_jobs I)%nat = true) by (apply Nat.ltb_lt; exact Hm). rewrite E. simpl.
  rewrite Nat.eqb_refl. reflexivity.
Qed.

Lemma In_flagged_ids row matches flags n :
  In n (flagged_ids row matches flags) <->
  exists i, (i < length flags)%nat /\ nth i flags false = true /\ get_group_node row matches i = Some n.
Proof.
  unfold flagged_ids. rewrite in_flat_map. split.
  - intros (i & Hi & Hn). apply in_seq in Hi. exists i. split; [lia|].
    destruct (nth i flags false); [|contradiction]. split; [reflexivity|].
    destruct (get_group_node row matches i) as [id|]; [|contradiction]. destruct Hn as [->|[]]. reflexivity.
  - intros (i & Hi & Hf & Hg). exists i. split; [apply in_seq; lia|]. rewrite Hf, Hg. left. reflexivity.
Qed.

(** ** One update = one fold over its targets *)

Definition targets (I : instance) (fs : list fname) (d : dstate) (x : sop) (u : rgu) : list nat :=
  let c := rgu_iscomp (map (dep_update I x) (u_deps u)) (u_ic u) in
  let g := u_graph u in
  map (kid I) (p_completed I fs d) ++
  (if u_rm_m u && nonempty (type_row g NMachine)
   then match c with Some c => flagged_ids (type_row g NMachine) is_machine_node (ic_flag_m c) | None => [] end
   else []) ++
  (if u_rm_j u && nonempty (type_row g NJob)
   then match c with Some c => flagged_ids (type_row g NJob) is_job_node (ic_flag_j c) | None => [] end
   else []).

Lemma type_row_static g g' t : same_static g g' -> type_row g' t = type_row g t.
Proof. intros (_ & _ & E & _). unfold type_row. rewrite E. reflexivity. Qed.

Lemma rgu_update_graph I fs d x u : gwf (u_graph u) ->
  u_graph (rgu_update I fs d x u) = fold_left remove_if_present (targets I fs d x u) (u_graph u).
Proof.
  intros Hw. unfold rgu_update, targets. cbn [u_graph].
  set (c := rgu_iscomp (map (dep_update I x) (u_deps u)) (u_ic u)).
  set (g := u_graph u) in *.
  rewrite remove_completed_as_fold. change (fun k : nat * nat => op_id I (fst k) (snd k)) with (kid I).
  set (L1 := map (kid I) (p_completed I fs d)).
  destruct (fold_char L1 g Hw) as (W1 & S1 & _). set (g1 := fold_left remove_if_present L1 g) in *.
  rewrite !fold_left_app. fold g1. rewrite (type_row_static _ _ NMachine S1).
  set (L2 := if u_rm_m u && nonempty (type_row g NMachine)
             then match c with Some c0 => flagged_ids (type_row g NMachine) is_machine_node (ic_flag_m c0)
                             | None => [] end else []).
  set (g2 := if u_rm_m u && nonempty (type_row g NMachine)
             then match c with Some c0 => remove_flagged g1 NMachine is_machine_node (ic_flag_m c0)
                             | None => g1 end else g1).
  assert (E2 : g2 = fold_left remove_if_present L2 g1).
  { unfold g2, L2. destruct (u_rm_m u && nonempty (type_row g NMachine)); [|reflexivity].
    destruct c as [c0|]; [|reflexivity]. rewrite remove_flagged_as_fold by exact W1.
    rewrite (type_row_static _ _ NMachine S1). reflexivity. }
  destruct (fold_char L2 g1 W1) as (W2 & S2 & _). rewrite <- E2 in W2, S2. rewrite <- E2.
  rewrite (type_row_static _ _ NJob S2), (type_row_static _ _ NJob S1).
  destruct (u_rm_j u && nonempty (type_row g NJob)); [|reflexivity].
  destruct c as [c0|]; [|reflexivity]. rewrite remove_flagged_as_fold by exact W2.
  rewrite (type_row_static _ _ NJob S2), (type_row_static _ _ NJob S1). reflexivity.
Qed.

(** ** The world step *)

Lemma rg_step I fs d u r :
  step_req rgu rgu_update I (rg_world fs d u) r =
  match sop_of_request I d r with
  | Some x => rg_world fs (apply_sop I d x (row_of d x))
                       (rgu_update I fs (apply_sop I d x (row_of d x)) x u)
  | None => rg_world fs d u
  end.
Proof.
  rewrite step_req_sop. cbn [core rg_world]. destruct (sop_of_request I d r) as [x|]; reflexivity.
Qed.

(** ** Justified removals, protected nodes *)

Section Sets.
  Variable I : instance.
  Variable b : nat.
  Let N := num_ops I.
  Let M := num_machines I.
  Let J := num_jobs I.

  Definition unsched_key (d : dstate) (j p : nat) : Prop :=
    (exists o, get_op I j p = Some o) /\ (nthN (jnext d) j <= p)%nat.

  (** what the updater removes EXPLICITLY is one of these *)
  Definition justified (d : dstate) (n : nat) : Prop :=
    (exists j p o, get_op I j p = Some o /\ n = op_id I j p /\ (p < nthN (jnext d) j)%nat) \/
    ((1 <= b)%nat /\ exists m, (m < M)%nat /\ n = (N + m)%nat /\
                     forall j p, unsched_key d j p -> on_machine I m (j, p) = false) \/
    ((2 <= b)%nat /\ exists j, (j < J)%nat /\ n = (N + M + j)%nat /\ forall p, ~ unsched_key d j p).

  (** nodes that must stay *)
  Definition protected (d : dstate) (v : nat) : Prop :=
    (exists j p, unsched_key d j p /\ v = op_id I j p) \/
    (b = 0%nat /\ v = S N /\ exists j p, unsched_key d j p) \/
    ((1 <= b)%nat /\ exists m j p, unsched_key d j p /\ on_machine I m (j, p) = true /\ v = (N + m)%nat) \/
    ((2 <= b)%nat /\ exists j p, unsched_key d j p /\ v = (N + M + j)%nat).

  Lemma on_machine_In m j p o : get_op I j p = Some o -> (on_machine I m (j, p) = true <-> In m (machines o)).
  Proof. intros Ho. unfold on_machine. rewrite (kmachines_of _ _ _ _ Ho). apply mem_nat_In. Qed.

  Lemma justified_mono d d' n :
    (forall j, (nthN (jnext d) j <= nthN (jnext d') j)%nat) -> justified d n -> justified d' n.
  Proof.
    intros Hle [(j & p & o & Ho & -> & Hp)|[(Hb & m & Hm & -> & H)|(Hb & j & Hj & -> & H)]].
    - left. exists j, p, o. split; [exact Ho|]. split; [reflexivity|]. specialize (Hle j). lia.
    - right. left. split; [exact Hb|]. exists m. split; [exact Hm|]. split; [reflexivity|].
      intros j p [Ho Hp]. apply H. split; [exact Ho|]. specialize (Hle j). lia.
    - right. right. split; [exact Hb|]. exists j. split; [exact Hj|]. split; [reflexivity|].
      intros p [Ho Hp]. apply (H p). split; [exact Ho|]. specialize (Hle j). lia.
  Qed.

  Lemma prot_not_just d v : protected d v -> justified d v -> False.
  Proof.
    intros HP HJ.
    destruct HP as [(j & p & [[o Ho] Hp] & ->)|[(Hb & -> & _)|[(Hb & m & j & p & [[o Ho] Hp] & Hon & ->)
                   |(Hb & j & p & [[o Ho] Hp] & ->)]]];
      destruct HJ as [(j' & p' & o' & Ho' & E & Hp')|[(Hb' & m' & Hm' & E & H)|(Hb' & j' & Hj' & E & H)]].
    - destruct (op_id_inj _ _ _ _ _ _ _ Ho Ho' E) as [-> ->]. lia.
    - pose proof (op_id_lt _ _ _ _ Ho). unfold N, M, J in *. lia.
    - pose proof (op_id_lt _ _ _ _ Ho). unfold N, M, J in *. lia.
    - pose proof (op_id_lt _ _ _ _ Ho'). unfold N, M, J in *. lia.
    - lia.
    - lia.
    - pose proof (op_id_lt _ _ _ _ Ho'). unfold N, M, J in *. lia.
    - assert (m' = m) by lia. subst m'. rewrite (H j p) in Hon; [discriminate|]. split; eauto.
    - pose proof (proj1 (on_machine_In m j p o Ho) Hon) as Hin.
      pose proof (machine_lt _ _ _ _ _ Ho Hin). unfold N, M, J in *. lia.
    - pose proof (op_id_lt _ _ _ _ Ho'). unfold N, M, J in *. lia.
    - pose proof (get_op_job_lt _ _ _ _ Ho). unfold N, M, J in *. lia.
    - assert (j' = j) by lia. subst j'. apply (H p). split; eauto.
  Qed.

  Variable g0 : graph.
  Hypothesis Hb : built I b g0.
  Hypothesis Hpos : positive I.

  Lemma edge_op_machine u v : (1 <= b)%nat -> op_machine I u v -> In (u, v, ENone) (g_edges g0).
  Proof.
    intros H1 H. apply (bt_edges _ _ _ Hb). pose proof (bt_b _ _ _ Hb).
    destruct b as [|[|[|[|?]]]]; try lia; simpl; (split; [reflexivity|]); left; left; exact H.
  Qed.
  Lemma edge_op_job u v : (2 <= b)%nat -> op_job I u v -> In (u, v, ENone) (g_edges g0).
  Proof.
    intros H1 H. apply (bt_edges _ _ _ Hb). pose proof (bt_b _ _ _ Hb).
    destruct b as [|[|[|[|?]]]]; try lia; simpl; (split; [reflexivity|]).
    - right. right. left. left. exact H.
    - right. left. left. exact H.
  Qed.

  (** Every protected node has an edge of the builder's graph whose two
      endpoints are protected. *)
  Lemma prot_edge d v : protected d v ->
    exists e, In e (g_edges g0) /\ touches v e = true /\ protected d (e_src e) /\ protected d (e_dst e).
  Proof.
    intros HP. pose proof (bt_b _ _ _ Hb) as Hle.
    destruct (Nat.eq_dec b 0) as [Hb0|Hb1].
    - (* disjunctive graph *)
      assert (Hedge : forall u w, conj_edge I u w -> In (u, w, EConj) (g_edges g0)).
      { intros u w H. apply (bt_edges _ _ _ Hb). rewrite Hb0. simpl. left. split; [reflexivity|exact H]. }
      assert (Hop : forall j p, unsched_key d j p ->
                exists e, In e (g_edges g0) /\ e_src e = op_id I j p /\
                          protected d (e_src e) /\ protected d (e_dst e)).
      { intros j p [[o Ho] Hp]. destruct (get_op I j (S p)) as [o'|] eqn:E.
        - exists (op_id I j p, op_id I j (S p), EConj). split.
          + apply Hedge. left. exists j, p, o, o'. split; split; auto.
          + split; [reflexivity|]. split; left.
            * exists j, p. split; [split; eauto|reflexivity].
            * exists j, (S p). split; [split; [eauto|lia]|reflexivity].
        - exists (op_id I j p, S N, EConj). split.
          + apply Hedge. right. right. split; [reflexivity|]. exists j, p, o. split; [split; auto|exact E].
          + split; [reflexivity|]. split.
            * left. exists j, p. split; [split; eauto|reflexivity].
            * right. left. split; [exact Hb0|]. split; [reflexivity|]. exists j, p. split; eauto. }
      destruct HP as [(j & p & Hu & ->)|[(_ & -> & j & p & [[o Ho] Hp])|[(H1 & _)|(H1 & _)]]]; try lia.
      + destruct (Hop j p Hu) as (e & He & Hs & P1 & P2). exists e. split; [exact He|].
        split; [apply touches_iff; left; exact Hs|]. split; assumption.
      + (* the sink: the last operation of a job that still has an unscheduled operation *)
        pose proof (get_op_pos_lt _ _ _ _ Ho) as Hlt.
        set (q := (length (get_job I j) - 1)%nat).
        destruct (get_op_of_pos_lt I j q ltac:(unfold q; lia)) as [oq Hoq].
        assert (Hnone : get_op I j (S q) = None).
        { destruct (get_op I j (S q)) as [o'|] eqn:E; [|reflexivity].
          apply get_op_pos_lt in E. unfold q in E. lia. }
        exists (op_id I j q, S N, EConj). split.
        * apply Hedge. right. right. split; [reflexivity|]. exists j, q, oq. split; [split; auto|exact Hnone].
        * split; [apply touches_iff; right; reflexivity|]. split.
          -- left. exists j, q. split; [split; [eauto|unfold q; lia]|reflexivity].
          -- right. left. split; [exact Hb0|]. split; [reflexivity|]. exists j, p. split; eauto.
    - (* agent-task family: the edge between an operation and one of its machines / its job *)
      assert (H1 : (1 <= b)%nat) by lia.
      assert (Hom : forall j p o m, get_op I j p = Some o -> (nthN (jnext d) j <= p)%nat -> In m (machines o) ->
                exists e, In e (g_edges g0) /\ e_src e = op_id I j p /\ e_dst e = (N + m)%nat /\
                          protected d (e_src e) /\ protected d (e_dst e)).
      { intros j p o m Ho Hp Hin. exists (op_id I j p, (N + m)%nat, ENone). split.
        - apply edge_op_machine; [exact H1|]. exists j, p, o, m. split; [split; auto|]. split; [exact Hin|reflexivity].
        - split; [reflexivity|]. split; [reflexivity|]. split.
          + left. exists j, p. split; [split; eauto|reflexivity].
          + right. right. left. split; [exact H1|]. exists m, j, p.
            split; [split; eauto|]. split; [apply (on_machine_In m j p o Ho); exact Hin|reflexivity]. }
      destruct HP as [(j & p & [[o Ho] Hp] & ->)|[(H0 & _)|[(_ & m & j & p & [[o Ho] Hp] & Hon & ->)
                     |(H2 & j & p & [[o Ho] Hp] & ->)]]]; try lia.
      + destruct (Hpos _ _ _ Ho) as [_ Hne]. destruct (machines o) as [|m ms] eqn:Em; [contradiction|].
        destruct (Hom j p o m Ho Hp ltac:(rewrite Em; left; reflexivity)) as (e & He & Hs & _ & P1 & P2).
        exists e. split; [exact He|]. split; [apply touches_iff; left; exact Hs|]. split; assumption.
      + apply (on_machine_In m j p o Ho) in Hon.
        destruct (Hom j p o m Ho Hp Hon) as (e & He & _ & Hd & P1 & P2).
        exists e. split; [exact He|]. split; [apply touches_iff; right; exact Hd|]. split; assumption.
      + exists (op_id I j p, (N + M + j)%nat, ENone). split.
        * apply edge_op_job; [exact H2|]. exists j, p, o. split; [split; auto|reflexivity].
        * split; [apply touches_iff; right; reflexivity|]. split.
          -- left. exists j, p. split; [split; eauto|reflexivity].
          -- right. right. right. split; [exact H2|]. exists j, p. split; [split; eauto|reflexivity].
  Qed.

  (** Hence no protected node is ever removed — neither explicitly (it is
      not justified) nor by the isolated-node sweep (its edge survives). *)
  Theorem protected_kept d L v :
    (forall n, In n L -> justified d n) -> protected d v ->
    rmd (fold_left remove_if_present L g0) v = false.
  Proof.
    intros HL HP. destruct (prot_edge d v HP) as (e & He & Ht & P1 & P2).
    pose proof (gwf_g0 _ _ _ Hb) as Hw. destruct (fold_char L g0 Hw) as (_ & _ & E & R).
    destruct (rmd (fold_left remove_if_present L g0) v) eqn:Er; [|reflexivity]. exfalso.
    apply R in Er. destruct Er as [Er|[_ [Hin|Hiso]]].
    - destruct (wf_edges _ Hw e He) as [A B]. apply touches_iff in Ht. destruct Ht as [<-|<-]; congruence.
    - exact (prot_not_just d v HP (HL v Hin)).
    - assert (Hin : In e (g_edges (fold_left remove_if_present L g0))).
      { rewrite E. apply filter_In. split; [exact He|]. unfold avoid.
        destruct (existsb (fun u => touches u e) L) eqn:Ex; [|reflexivity]. exfalso.
        apply existsb_exists in Ex. destruct Ex as (u & Hu & Htu). apply touches_iff in Htu.
        destruct Htu as [<-|<-];
          [exact (prot_not_just d _ P1 (HL _ Hu))|exact (prot_not_just d _ P2 (HL _ Hu))]. }
      rewrite (Hiso e Hin) in Ht. discriminate.
  Qed.
End Sets.
