(** ResidualProofs.v — C17: the residual graph along any request list.

    The updater's graph after any number of dispatches is "the builder's
    graph with a list [L] of nodes removed" ([remove_if_present] folded over
    [L]); every element of [L] is JUSTIFIED (a scheduled operation, a machine
    / job node all of whose operations are scheduled), [L] contains every
    completed operation and every flagged machine / job node. With the closed
    form of ResidualGraph.v this gives all clauses; "an unscheduled operation
    node is never swept as isolated" is the PROTECTED-set argument: per
    builder, every protected node (unscheduled operation, the sink while an
    operation is unscheduled, a machine / job node with an unscheduled
    operation) has an edge of the ORIGINAL graph to another protected node,
    and a protected node is never justified. *)
From JSL Require Import Base Instance Dstate Filters World Observers Graph Feasible Derived GraphSpec
  ListFacts OpIds GraphFacts GraphStages GraphProofs GraphSpecFacts DispatchFun Inv Run Tracking Partition
  Replay Residual ResidualSpec ResidualGraph ResidualObs.
From Coq Require Import Lia.

(** ** Scope and what the builders deliver *)

Definition scope17 (I : instance) (b : nat) : Prop :=
  valid I /\ has_machines I /\ nonempty_jobs I /\ (b = 0%nat -> nodup_machines I).

(** the property's "positive durations" is more than the proofs need *)
Lemma scope17_positive I b :
  positive I -> nonempty_jobs I -> (b = 0%nat -> nodup_machines I) -> scope17 I b.
Proof.
  intros Hp Hn Hd. split; [|split; [|split; assumption]].
  - intros j p o Ho. destruct (Hp _ _ _ Ho). lia.
  - intros j p o Ho. destruct (Hp _ _ _ Ho). assumption.
Qed.

Definition spec_edgesP (b : nat) (I : instance) : nat -> nat -> etype -> Prop :=
  match b with
  | 0 => spec_disjunctive I
  | 1 => spec_agent_task I
  | 2 => spec_with_jobs I
  | _ => spec_complete I
  end%nat.

Record built (I : instance) (b : nat) (g0 : graph) : Prop := {
  bt_b : (b <= 3)%nat;
  bt_stage : exists w, stage I g0 (spec_nodes b I) w;
  bt_edges : forall u v t, In (u, v, t) (g_edges g0) <-> spec_edgesP b I u v t
}.

Lemma build_built I b g0 : scope17 I b -> build_by_code b I = Some g0 -> built I b g0.
Proof.
  intros (_ & _ & Hne & Hnd) E. destruct b as [|[|[|[|b]]]]; simpl in E; try discriminate.
  - destruct (disjunctive_char I Hne (Hnd eq_refl)) as (G & w & E' & Hs & He).
    rewrite E in E'. inversion E'; subst G. constructor; [lia|eauto|exact He].
  - destruct (agent_task_char I) as (G & w & E' & Hs & He).
    rewrite E in E'. inversion E'; subst G. constructor; [lia|eauto|exact He].
  - destruct (with_jobs_char I) as (G & w & E' & Hs & He).
    rewrite E in E'. inversion E'; subst G. constructor; [lia|eauto|exact He].
  - destruct (complete_char I) as (G & w & E' & Hs & He).
    rewrite E in E'. inversion E'; subst G. constructor; [lia|eauto|exact He].
Qed.

Section Built.
  Variable I : instance.
  Variable b : nat.
  Variable g0 : graph.
  Hypothesis Hb : built I b g0.
  Let N := num_ops I.
  Let M := num_machines I.
  Let J := num_jobs I.

  Lemma length_spec_nodes :
    length (spec_nodes b I) =
    match b with 0 => S (S N) | 1 => N + M | 2 => N + M + J | _ => S (N + M + J) end%nat.
  Proof.
    destruct b as [|[|[|?]]]; simpl.
    - unfold nodes_disjunctive. rewrite app_length, length_op_nodes. simpl. unfold N. lia.
    - apply length_nodes_agent_task.
    - apply length_nodes_with_jobs.
    - apply length_nodes_complete.
  Qed.

  Lemma bt_next : g_next g0 = length (spec_nodes b I).
  Proof. destruct (bt_stage _ _ _ Hb) as [w Hs]. apply (st_next _ _ _ _ Hs). Qed.
  Lemma bt_removed : g_removed g0 = repeat false (length (spec_nodes b I)).
  Proof. destruct (bt_stage _ _ _ Hb) as [w Hs]. apply (st_removed _ _ _ _ Hs). Qed.
  Lemma bt_nodes : g_nodes g0 = spec_nodes b I.
  Proof. destruct (bt_stage _ _ _ Hb) as [w Hs]. apply (st_nodes _ _ _ _ Hs). Qed.

  Lemma rmd_g0 n : rmd g0 n = false <-> (n < length (spec_nodes b I))%nat.
  Proof.
    unfold rmd. rewrite bt_removed. split.
    - intros H. destruct (Nat.lt_ge_cases n (length (spec_nodes b I))) as [Hl|Hg]; [exact Hl|].
      rewrite nth_overflow in H by (rewrite repeat_length; exact Hg). discriminate.
    - intros H. apply nth_repeat. exact H.
  Qed.

  Lemma spec_edge_lt u v t : spec_edgesP b I u v t ->
    (u < length (spec_nodes b I))%nat /\ (v < length (spec_nodes b I))%nat.
  Proof.
    pose proof (bt_b _ _ _ Hb) as Hle. rewrite length_spec_nodes. fold N M J.
    destruct b as [|[|[|[|?]]]]; try lia; simpl; intros H.
    - destruct H as [[_ [H|[H|H]]]|[_ [H _]]].
      + apply job_chain_lt in H. fold N in H. lia.
      + destruct H as [-> (j & o & Ho)]. apply is_op_lt in Ho. fold N in Ho. lia.
      + destruct H as [-> (j & p & o & Ho & _)]. apply is_op_lt in Ho. fold N in Ho. lia.
      + apply share_machine_lt in H. fold N in H. lia.
    - destruct H as [_ [H|[H|H]]].
      + apply op_machine_lt in H. exact H.
      + apply machine_machine_lt in H. exact H.
      + apply same_job_lt in H. fold N in H. lia.
    - destruct H as [_ [H|[H|[H|H]]]].
      + apply op_machine_lt in H. fold N M in H. lia.
      + apply machine_machine_lt in H. fold N M in H. lia.
      + apply op_job_lt in H. exact H.
      + apply job_job_lt in H. exact H.
    - destruct H as [_ [H|[H|[H|H]]]].
      + apply op_machine_lt in H. fold N M in H. lia.
      + apply op_job_lt in H. fold N M J in H. lia.
      + apply machine_global_lt in H. exact H.
      + apply job_global_lt in H. exact H.
  Qed.

  Lemma gwf_g0 : gwf g0.
  Proof.
    constructor.
    - rewrite bt_removed, repeat_length. symmetry. apply bt_next.
    - intros [[u v] t] He. apply (bt_edges _ _ _ Hb) in He. apply spec_edge_lt in He.
      simpl. split; apply rmd_g0; tauto.
  Qed.

  (** the type rows the updater looks at *)
  Lemma rowM : type_row g0 NMachine = if (b =? 0)%nat then [] else machine_nodes I.
  Proof.
    destruct (bt_stage _ _ _ Hb) as [w Hs]. rewrite (st_types _ _ _ _ Hs).
    pose proof (bt_b _ _ _ Hb) as Hle. destruct b as [|[|[|[|?]]]]; try lia; simpl.
    - unfold nodes_disjunctive. rewrite filter_app, filter_op_nodes. reflexivity.
    - unfold nodes_agent_task. rewrite filter_app, filter_op_nodes, filter_machine_nodes. reflexivity.
    - unfold nodes_with_jobs. rewrite !filter_app, filter_op_nodes, filter_machine_nodes, filter_job_nodes.
      simpl. apply app_nil_r.
    - unfold nodes_complete. rewrite !filter_app, filter_op_nodes, filter_machine_nodes, filter_job_nodes.
      simpl. apply app_nil_r.
  Qed.
  Lemma rowJ : type_row g0 NJob = if (b <? 2)%nat then [] else job_nodes I.
  Proof.
    destruct (bt_stage _ _ _ Hb) as [w Hs]. rewrite (st_types _ _ _ _ Hs).
    pose proof (bt_b _ _ _ Hb) as Hle. destruct b as [|[|[|[|?]]]]; try lia; simpl.
    - unfold nodes_disjunctive. rewrite filter_app, filter_op_nodes. reflexivity.
    - unfold nodes_agent_task. rewrite filter_app, filter_op_nodes, filter_machine_nodes. reflexivity.
    - unfold nodes_with_jobs. rewrite !filter_app, filter_op_nodes, filter_machine_nodes, filter_job_nodes.
      reflexivity.
    - unfold nodes_complete. rewrite !filter_app, filter_op_nodes, filter_machine_nodes, filter_job_nodes.
      simpl. apply app_nil_r.
  Qed.
End Built.

(** [get_machine_node] / [get_job_node] on the builders' rows *)
Lemma get_machine_node_spec I m : (m < num_machines I)%nat ->
  get_group_node (machine_nodes I) is_machine_node m = Some (num_ops I + m)%nat.
Proof.
  intros Hm. unfold get_group_node, machine_nodes. rewrite nth_error_map_seq.
  assert (E : (m <? num_machines I)%nat = true) by (apply Nat.ltb_lt; exact Hm). rewrite E. simpl.
  rewrite Nat.eqb_refl. reflexivity.
Qed.
Lemma get_job_node_spec I j : (j < num_jobs I)%nat ->
  get_group_node (job_nodes I) is_job_node j = Some (num_ops I + num_machines I + j)%nat.
Proof.
  intros Hm. unfold get_group_node, job_nodes. rewrite nth_error_map_seq.
  assert (E : (j <? num_jobs I)%nat = true) by (apply Nat.ltb_lt; exact Hm). rewrite E. simpl.
  rewrite Nat.eqb_refl. reflexivity.
Qed.

Lemma In_flagged_ids row matches flags n :
  In n (flagged_ids row matches flags) <->
  exists i, (i < length flags)%nat /\ nth i flags false = true /\ get_group_node row matches i = Some n.
Proof.
  unfold flagged_ids. rewrite in_flat_map. split.
  - intros (i & Hi & Hn). apply in_seq in Hi. exists i. split; [lia|].
    destruct (nth i flags false); [|contradiction]. split; [reflexivity|].
    destruct (get_group_node row matches i) as [id|]; [|contradiction]. destruct Hn as [->|[]]. reflexivity.
  - intros (i & Hi & Hf & Hg). exists i. split; [apply in_seq; lia|]. rewrite Hf, Hg. left. reflexivity.
Qed.

(** ** One update = one fold over its targets *)

Definition targets (I : instance) (fs : list fname) (d : dstate) (x : sop) (u : rgu) : list nat :=
  let c := rgu_iscomp (map (dep_update I x) (u_deps u)) (u_ic u) in
  let g := u_graph u in
  map (kid I) (p_completed I fs d) ++
  (if u_rm_m u && nonempty (type_row g NMachine)
   then match c with Some c => flagged_ids (type_row g NMachine) is_machine_node (ic_flag_m c) | None => [] end
   else []) ++
  (if u_rm_j u && nonempty (type_row g NJob)
   then match c with Some c => flagged_ids (type_row g NJob) is_job_node (ic_flag_j c) | None => [] end
   else []).

Lemma type_row_static g g' t : same_static g g' -> type_row g' t = type_row g t.
Proof. intros (_ & _ & E & _). unfold type_row. rewrite E. reflexivity. Qed.

Lemma rgu_update_graph I fs d x u : gwf (u_graph u) ->
  u_graph (rgu_update I fs d x u) = fold_left remove_if_present (targets I fs d x u) (u_graph u).
Proof.
  intros Hw. unfold rgu_update, targets. cbn [u_graph].
  set (c := rgu_iscomp (map (dep_update I x) (u_deps u)) (u_ic u)).
  set (g := u_graph u) in *.
  rewrite remove_completed_as_fold. change (fun k : nat * nat => op_id I (fst k) (snd k)) with (kid I).
  set (L1 := map (kid I) (p_completed I fs d)).
  destruct (fold_char L1 g Hw) as (W1 & S1 & _). set (g1 := fold_left remove_if_present L1 g) in *.
  rewrite !fold_left_app. fold g1. rewrite (type_row_static _ _ NMachine S1).
  set (L2 := if u_rm_m u && nonempty (type_row g NMachine)
             then match c with Some c0 => flagged_ids (type_row g NMachine) is_machine_node (ic_flag_m c0)
                             | None => [] end else []).
  set (g2 := if u_rm_m u && nonempty (type_row g NMachine)
             then match c with Some c0 => remove_flagged g1 NMachine is_machine_node (ic_flag_m c0)
                             | None => g1 end else g1).
  assert (E2 : g2 = fold_left remove_if_present L2 g1).
  { unfold g2, L2. destruct (u_rm_m u && nonempty (type_row g NMachine)); [|reflexivity].
    destruct c as [c0|]; [|reflexivity]. rewrite remove_flagged_as_fold by exact W1.
    rewrite (type_row_static _ _ NMachine S1). reflexivity. }
  destruct (fold_char L2 g1 W1) as (W2 & S2 & _). rewrite <- E2 in W2, S2. rewrite <- E2.
  rewrite (type_row_static _ _ NJob S2), (type_row_static _ _ NJob S1).
  destruct (u_rm_j u && nonempty (type_row g NJob)); [|reflexivity].
  destruct c as [c0|]; [|reflexivity]. rewrite remove_flagged_as_fold by exact W2.
  rewrite (type_row_static _ _ NJob S2), (type_row_static _ _ NJob S1). reflexivity.
Qed.

(** ** The world step *)

Lemma rg_step I fs d u r :
  step_req rgu rgu_update I (rg_world fs d u) r =
  match sop_of_request I d r with
  | Some x => rg_world fs (apply_sop I d x (row_of d x))
                       (rgu_update I fs (apply_sop I d x (row_of d x)) x u)
  | None => rg_world fs d u
  end.
Proof.
  rewrite step_req_sop. cbn [core rg_world]. destruct (sop_of_request I d r) as [x|]; reflexivity.
Qed.

(** ** Justified removals, protected nodes *)

Section Sets.
  Variable I : instance.
  Variable b : nat.
  Let N := num_ops I.
  Let M := num_machines I.
  Let J := num_jobs I.

  Definition unsched_key (d : dstate) (j p : nat) : Prop :=
    (exists o, get_op I j p = Some o) /\ (nthN (jnext d) j <= p)%nat.

  (** what the updater removes EXPLICITLY is one of these *)
  Definition justified (d : dstate) (n : nat) : Prop :=
    (exists j p o, get_op I j p = Some o /\ n = op_id I j p /\ (p < nthN (jnext d) j)%nat) \/
    ((1 <= b)%nat /\ exists m, (m < M)%nat /\ n = (N + m)%nat /\
                     forall j p, unsched_key d j p -> on_machine I m (j, p) = false) \/
    ((2 <= b)%nat /\ exists j, (j < J)%nat /\ n = (N + M + j)%nat /\ forall p, ~ unsched_key d j p).

  (** nodes that must stay *)
  Definition protected (d : dstate) (v : nat) : Prop :=
    (exists j p, unsched_key d j p /\ v = op_id I j p) \/
    (b = 0%nat /\ v = S N /\ exists j p, unsched_key d j p) \/
    ((1 <= b)%nat /\ exists m j p, unsched_key d j p /\ on_machine I m (j, p) = true /\ v = (N + m)%nat) \/
    ((2 <= b)%nat /\ exists j p, unsched_key d j p /\ v = (N + M + j)%nat).

  Lemma on_machine_In m j p o : get_op I j p = Some o -> (on_machine I m (j, p) = true <-> In m (machines o)).
  Proof. intros Ho. unfold on_machine. rewrite (kmachines_of _ _ _ _ Ho). apply mem_nat_In. Qed.

  Lemma justified_mono d d' n :
    (forall j, (nthN (jnext d) j <= nthN (jnext d') j)%nat) -> justified d n -> justified d' n.
  Proof.
    intros Hle [(j & p & o & Ho & -> & Hp)|[(Hb & m & Hm & -> & H)|(Hb & j & Hj & -> & H)]].
    - left. exists j, p, o. split; [exact Ho|]. split; [reflexivity|]. specialize (Hle j). lia.
    - right. left. split; [exact Hb|]. exists m. split; [exact Hm|]. split; [reflexivity|].
      intros j p [Ho Hp]. apply H. split; [exact Ho|]. specialize (Hle j). lia.
    - right. right. split; [exact Hb|]. exists j. split; [exact Hj|]. split; [reflexivity|].
      intros p [Ho Hp]. apply (H p). split; [exact Ho|]. specialize (Hle j). lia.
  Qed.

  Lemma prot_not_just d v : protected d v -> justified d v -> False.
  Proof.
    intros HP HJ.
    destruct HP as [(j & p & [[o Ho] Hp] & ->)|[(Hb & -> & _)|[(Hb & m & j & p & [[o Ho] Hp] & Hon & ->)
                   |(Hb & j & p & [[o Ho] Hp] & ->)]]];
      destruct HJ as [(j' & p' & o' & Ho' & E & Hp')|[(Hb' & m' & Hm' & E & H)|(Hb' & j' & Hj' & E & H)]].
    - destruct (op_id_inj _ _ _ _ _ _ _ Ho Ho' E) as [-> ->]. lia.
    - pose proof (op_id_lt _ _ _ _ Ho). unfold N, M, J in *. lia.
    - pose proof (op_id_lt _ _ _ _ Ho). unfold N, M, J in *. lia.
    - pose proof (op_id_lt _ _ _ _ Ho'). unfold N, M, J in *. lia.
    - lia.
    - lia.
    - pose proof (op_id_lt _ _ _ _ Ho'). unfold N, M, J in *. lia.
    - assert (m' = m) by lia. subst m'. rewrite (H j p) in Hon; [discriminate|]. split; eauto.
    - pose proof (proj1 (on_machine_In m j p o Ho) Hon) as Hin.
      pose proof (machine_lt _ _ _ _ _ Ho Hin). unfold N, M, J in *. lia.
    - pose proof (op_id_lt _ _ _ _ Ho'). unfold N, M, J in *. lia.
    - pose proof (get_op_job_lt _ _ _ _ Ho). unfold N, M, J in *. lia.
    - assert (j' = j) by lia. subst j'. apply (H p). split; eauto.
  Qed.

  Variable g0 : graph.
  Hypothesis Hb : built I b g0.
  Hypothesis Hmach : has_machines I.

  Lemma edge_op_machine u v : (1 <= b)%nat -> op_machine I u v -> In (u, v, ENone) (g_edges g0).
  Proof.
    intros H1 H. apply (bt_edges _ _ _ Hb). pose proof (bt_b _ _ _ Hb).
    destruct b as [|[|[|[|?]]]]; try lia; simpl; (split; [reflexivity|]); left; left; exact H.
  Qed.
  Lemma edge_op_job u v : (2 <= b)%nat -> op_job I u v -> In (u, v, ENone) (g_edges g0).
  Proof.
    intros H1 H. apply (bt_edges _ _ _ Hb). pose proof (bt_b _ _ _ Hb).
    destruct b as [|[|[|[|?]]]]; try lia; simpl; (split; [reflexivity|]).
    - right. right. left. left. exact H.
    - right. left. left. exact H.
  Qed.

  (** Every protected node has an edge of the builder's graph whose two
      endpoints are protected. *)
  Lemma prot_edge d v : protected d v ->
    exists e, In e (g_edges g0) /\ touches v e = true /\ protected d (e_src e) /\ protected d (e_dst e).
  Proof.
    intros HP. pose proof (bt_b _ _ _ Hb) as Hle.
    destruct (Nat.eq_dec b 0) as [Hb0|Hb1].
    - (* disjunctive graph *)
      assert (Hedge : forall u w, conj_edge I u w -> In (u, w, EConj) (g_edges g0)).
      { intros u w H. apply (bt_edges _ _ _ Hb). rewrite Hb0. simpl. left. split; [reflexivity|exact H]. }
      assert (Hop : forall j p, unsched_key d j p ->
                exists e, In e (g_edges g0) /\ e_src e = op_id I j p /\
                          protected d (e_src e) /\ protected d (e_dst e)).
      { intros j p [[o Ho] Hp]. destruct (get_op I j (S p)) as [o'|] eqn:E.
        - exists (op_id I j p, op_id I j (S p), EConj). split.
          + apply Hedge. left. exists j, p, o, o'. split; split; auto.
          + split; [reflexivity|]. split; left.
            * exists j, p. split; [split; eauto|reflexivity].
            * exists j, (S p). split; [split; [eauto|lia]|reflexivity].
        - exists (op_id I j p, S N, EConj). split.
          + apply Hedge. right. right. split; [reflexivity|]. exists j, p, o. split; [split; auto|exact E].
          + split; [reflexivity|]. split.
            * left. exists j, p. split; [split; eauto|reflexivity].
            * right. left. split; [exact Hb0|]. split; [reflexivity|]. exists j, p. split; eauto. }
      destruct HP as [(j & p & Hu & ->)|[(_ & -> & j & p & [[o Ho] Hp])|[(H1 & _)|(H1 & _)]]]; try lia.
      + destruct (Hop j p Hu) as (e & He & Hs & P1 & P2). exists e. split; [exact He|].
        split; [apply touches_iff; left; exact Hs|]. split; assumption.
      + (* the sink: the last operation of a job that still has an unscheduled operation *)
        pose proof (get_op_pos_lt _ _ _ _ Ho) as Hlt.
        set (q := (length (get_job I j) - 1)%nat).
        destruct (get_op_of_pos_lt I j q ltac:(unfold q; lia)) as [oq Hoq].
        assert (Hnone : get_op I j (S q) = None).
        { destruct (get_op I j (S q)) as [o'|] eqn:E; [|reflexivity].
          apply get_op_pos_lt in E. unfold q in E. lia. }
        exists (op_id I j q, S N, EConj). split.
        * apply Hedge. right. right. split; [reflexivity|]. exists j, q, oq. split; [split; auto|exact Hnone].
        * split; [apply touches_iff; right; reflexivity|]. split.
          -- left. exists j, q. split; [split; [eauto|unfold q; lia]|reflexivity].
          -- right. left. split; [exact Hb0|]. split; [reflexivity|]. exists j, p. split; eauto.
    - (* agent-task family: the edge between an operation and one of its machines / its job *)
      assert (H1 : (1 <= b)%nat) by lia.
      assert (Hom : forall j p o m, get_op I j p = Some o -> (nthN (jnext d) j <= p)%nat -> In m (machines o) ->
                exists e, In e (g_edges g0) /\ e_src e = op_id I j p /\ e_dst e = (N + m)%nat /\
                          protected d (e_src e) /\ protected d (e_dst e)).
      { intros j p o m Ho Hp Hin. exists (op_id I j p, (N + m)%nat, ENone). split.
        - apply edge_op_machine; [exact H1|]. exists j, p, o, m. split; [split; auto|]. split; [exact Hin|reflexivity].
        - split; [reflexivity|]. split; [reflexivity|]. split.
          + left. exists j, p. split; [split; eauto|reflexivity].
          + right. right. left. split; [exact H1|]. exists m, j, p.
            split; [split; eauto|]. split; [apply (on_machine_In m j p o Ho); exact Hin|reflexivity]. }
      destruct HP as [(j & p & [[o Ho] Hp] & ->)|[(H0 & _)|[(_ & m & j & p & [[o Ho] Hp] & Hon & ->)
                     |(H2 & j & p & [[o Ho] Hp] & ->)]]]; try lia.
      + pose proof (Hmach _ _ _ Ho) as Hne. destruct (machines o) as [|m ms] eqn:Em; [contradiction|].
        destruct (Hom j p o m Ho Hp ltac:(rewrite Em; left; reflexivity)) as (e & He & Hs & _ & P1 & P2).
        exists e. split; [exact He|]. split; [apply touches_iff; left; exact Hs|]. split; assumption.
      + apply (on_machine_In m j p o Ho) in Hon.
        destruct (Hom j p o m Ho Hp Hon) as (e & He & _ & Hd & P1 & P2).
        exists e. split; [exact He|]. split; [apply touches_iff; right; exact Hd|]. split; assumption.
      + exists (op_id I j p, (N + M + j)%nat, ENone). split.
        * apply edge_op_job; [exact H2|]. exists j, p, o. split; [split; auto|reflexivity].
        * split; [apply touches_iff; right; reflexivity|]. split.
          -- left. exists j, p. split; [split; eauto|reflexivity].
          -- right. right. right. split; [exact H2|]. exists j, p. split; [split; eauto|reflexivity].
  Qed.

  (** Hence no protected node is ever removed — neither explicitly (it is
      not justified) nor by the isolated-node sweep (its edge survives). *)
  Theorem protected_kept d L v :
    (forall n, In n L -> justified d n) -> protected d v ->
    rmd (fold_left remove_if_present L g0) v = false.
  Proof.
    intros HL HP. destruct (prot_edge d v HP) as (e & He & Ht & P1 & P2).
    pose proof (gwf_g0 _ _ _ Hb) as Hw. destruct (fold_char L g0 Hw) as (_ & _ & E & R).
    destruct (rmd (fold_left remove_if_present L g0) v) eqn:Er; [|reflexivity]. exfalso.
    apply R in Er. destruct Er as [Er|[_ [Hin|Hiso]]].
    - destruct (wf_edges _ Hw e He) as [A B]. apply touches_iff in Ht. destruct Ht as [<-|<-]; congruence.
    - exact (prot_not_just d v HP (HL v Hin)).
    - assert (Hin : In e (g_edges (fold_left remove_if_present L g0))).
      { rewrite E. apply filter_In. split; [exact He|]. unfold avoid.
        destruct (existsb (fun u => touches u e) L) eqn:Ex; [|reflexivity]. exfalso.
        apply existsb_exists in Ex. destruct Ex as (u & Hu & Htu). apply touches_iff in Htu.
        destruct Htu as [<-|<-];
          [exact (prot_not_just d _ P1 (HL _ Hu))|exact (prot_not_just d _ P2 (HL _ Hu))]. }
      rewrite (Hiso e Hin) in Ht. discriminate.
  Qed.
End Sets.

(** ** Small facts about the dispatcher state *)

Lemma jnext_mono I d r x o row : Inv I d -> accepted I d r x o row ->
  forall j, (nthN (jnext d) j <= nthN (jnext (apply_sop I d x row)) j)%nat.
Proof.
  intros Hi Ha j. unfold apply_sop, nthN. cbn [jnext].
  destruct (Nat.eq_dec (s_job x) j) as [<-|Hne].
  - destruct (Nat.lt_ge_cases (s_job x) (length (jnext d))) as [Hl|Hg].
    + rewrite nth_upd_eq by exact Hl. lia.
    + rewrite (nth_overflow (upd _ _ _)) by (rewrite length_upd; exact Hg).
      rewrite nth_overflow by exact Hg. lia.
  - rewrite nth_upd_neq by exact Hne. lia.
Qed.

Lemma In_p_sched I d j p : In (j, p) (p_sched I d) ->
  (exists o, get_op I j p = Some o) /\ (p < nthN (jnext d) j)%nat.
Proof.
  unfold p_sched, scheduled_ops. rewrite In_scheduled_from, Nat.sub_0_r.
  intros (_ & H2 & H3 & H4 & H5). split; [apply get_op_of_pos_lt; exact H5|exact H4].
Qed.

Lemma In_p_completed_sched I fs d k : In k (p_completed I fs d) -> In k (p_sched I d).
Proof. unfold p_completed. rewrite filter_In. tauto. Qed.

Lemma completed_init I fs : p_completed I fs (init_d I) = [].
Proof.
  destruct (p_completed I fs (init_d I)) as [|[j p] t] eqn:E; [reflexivity|]. exfalso.
  assert (H : In (j, p) (p_completed I fs (init_d I))) by (rewrite E; left; reflexivity).
  apply In_p_completed_sched, In_p_sched in H. destruct H as [_ H].
  unfold nthN in H. simpl in H. rewrite nth_repeat_default in H. lia.
Qed.

Lemma unsched_key_In I d j p : Inv I d -> (unsched_key I d j p <-> In (j, p) (unscheduled_ops I d)).
Proof. intros Hi. symmetry. apply In_unscheduled. exact Hi. Qed.

(** ** The invariant along a request list *)

Section Run.
  Variable I : instance.
  Variable b : nat.
  Variable g0 : graph.
  Hypothesis Hsc : scope17 I b.
  Hypothesis Hb : built I b g0.
  Variable fs : list fname.
  Variables rm_m rm_j : bool.
  Let N := num_ops I.
  Let M := num_machines I.
  Let J := num_jobs I.

  Definition has_ic (u : rgu) (c : iscomp) : Prop := rgu_iscomp (u_deps u) (u_ic u) = Some c.

  Record RInv (d : dstate) (u : rgu) : Prop := {
    r_rm_m : u_rm_m u = rm_m;
    r_rm_j : u_rm_j u = rm_j;
    r_ic : rm_m || rm_j = true ->
           exists c, has_ic u c /\ (rm_m = true -> ic_m c = true) /\ (rm_j = true -> ic_j c = true) /\
                     ic_inv I d c;
    r_graph : exists L,
        u_graph u = fold_left remove_if_present L g0 /\
        (forall n, In n L -> justified I b d n) /\
        (forall k, In k (p_completed I fs d) -> In (kid I k) L) /\
        (rm_m = true -> (1 <= b)%nat -> forall c m, has_ic u c -> (m < M)%nat ->
           nth m (ic_flag_m c) false = true -> In (N + m)%nat L) /\
        (rm_j = true -> (2 <= b)%nat -> forall c j, has_ic u c -> (j < J)%nat ->
           nth j (ic_flag_j c) false = true -> In (N + M + j)%nat L)
  }.

  Lemma RInv_init ps : RInv (init_d I) (rgu_fresh I ps rm_m rm_j g0).
  Proof.
    destruct (rgu_fresh_spec I ps rm_m rm_j g0) as (E1 & E2 & E3 & _ & Hic).
    set (u := rgu_fresh I ps rm_m rm_j g0) in *.
    constructor; [exact E1|exact E2| |].
    - intros Ho. destruct (Hic Ho) as (c & Hc & Hok & Hm & Hj). exists c.
      split; [exact Hc|]. split; [exact Hm|]. split; [exact Hj|apply ic_inv_init; exact Hok].
    - exists []. split; [exact E3|]. split; [intros n []|]. split; [rewrite completed_init; intros k []|].
      split.
      + intros -> _ c m Hc Hm Hf. exfalso. destruct (Hic eq_refl) as (c' & Hc' & [Hok _] & Hm' & _).
        unfold has_ic in Hc. rewrite Hc' in Hc. inversion Hc; subst c'.
        destruct (Hok (Hm' eq_refl)) as [_ Ef]. rewrite Ef, nth_repeat_default in Hf. discriminate.
      + intros -> _ c j Hc Hj Hf. exfalso.
        destruct (Hic (orb_true_r _)) as (c' & Hc' & [_ Hok] & _ & Hj').
        unfold has_ic in Hc. rewrite Hc' in Hc. inversion Hc; subst c'.
        destruct (Hok (Hj' eq_refl)) as [_ Ef]. rewrite Ef, nth_repeat_default in Hf. discriminate.
  Qed.

  (** The part of the invariant that does not say WHAT has been removed
      already, only that every removal so far is justified: it also holds
      while the updater is not subscribed (its graph lags behind the
      dispatcher; proofs/ResidualLate.v). One notified [update] turns it into
      the full invariant, because [update] looks at ALL completed operations
      and ALL flags, not only at the dispatched operation. *)
  Record WInv (d : dstate) (u : rgu) : Prop := {
    w_rm_m : u_rm_m u = rm_m;
    w_rm_j : u_rm_j u = rm_j;
    w_ic : rm_m || rm_j = true ->
           exists c, has_ic u c /\ (rm_m = true -> ic_m c = true) /\ (rm_j = true -> ic_j c = true) /\
                     ic_inv I d c;
    w_graph : exists L,
        u_graph u = fold_left remove_if_present L g0 /\ (forall n, In n L -> justified I b d n)
  }.

  Lemma RInv_WInv d u : RInv d u -> WInv d u.
  Proof.
    intros [R1 R2 R3 (L & EL & HJ & _)]. constructor; [exact R1|exact R2|exact R3|].
    exists L. split; [exact EL|exact HJ].
  Qed.

  Lemma WInv_step d u r x o row :
    Inv I d -> accepted I d r x o row -> WInv d u ->
    RInv (apply_sop I d x row) (rgu_update I fs (apply_sop I d x row) x u).
  Proof.
    intros Hi Ha [R1 R2 R3 (L & EL & HJ)].
    assert (Hv : valid I) by exact (proj1 Hsc).
    pose proof (Inv_apply_sop I d r x o row Hv Hi Ha) as Hi'.
    set (d' := apply_sop I d x row) in *.
    pose proof (gwf_g0 _ _ _ Hb) as Hw0.
    destruct (fold_char L g0 Hw0) as (Hw & Hst & _). rewrite <- EL in Hw, Hst.
    pose proof (rgu_update_graph I fs d' x u Hw) as EG.
    (* the observer the updater reads, after this round *)
    assert (Hic' : rm_m || rm_j = true ->
              exists c, has_ic u c /\ has_ic (rgu_update I fs d' x u) (ic_update I x c) /\
                        (rm_m = true -> ic_m c = true) /\ (rm_j = true -> ic_j c = true) /\
                        ic_inv I d' (ic_update I x c)).
    { intros Ho. destruct (R3 Ho) as (c & Hc & Hm & Hj & Hinv). exists c. split; [exact Hc|].
      split; [unfold has_ic; cbn [rgu_update u_deps u_ic]; apply rgu_iscomp_map; exact Hc|].
      split; [exact Hm|]. split; [exact Hj|]. eapply ic_inv_step; eauto. }
    constructor; [exact R1|exact R2| |].
    - intros Ho. destruct (Hic' Ho) as (c & _ & Hc' & Hm & Hj & Hinv). exists (ic_update I x c).
      split; [exact Hc'|]. split; [exact Hm|]. split; [exact Hj|exact Hinv].
    - exists (L ++ targets I fs d' x u). split; [rewrite fold_left_app, <- EL; exact EG|].
      (* what the targets are *)
      unfold targets. rewrite (type_row_static _ _ NMachine Hst), (type_row_static _ _ NJob Hst).
      rewrite (rowM _ _ _ Hb), (rowJ _ _ _ Hb), R1, R2.
      set (c' := rgu_iscomp (map (dep_update I x) (u_deps u)) (u_ic u)).
      set (TM := if rm_m && nonempty (if (b =? 0)%nat then [] else machine_nodes I)
                 then match c' with
                      | Some c => flagged_ids (if (b =? 0)%nat then [] else machine_nodes I)
                                              is_machine_node (ic_flag_m c)
                      | None => [] end else []).
      set (TJ := if rm_j && nonempty (if (b <? 2)%nat then [] else job_nodes I)
                 then match c' with
                      | Some c => flagged_ids (if (b <? 2)%nat then [] else job_nodes I)
                                              is_job_node (ic_flag_j c)
                      | None => [] end else []).
      assert (HTM : forall n, In n TM <->
                 rm_m = true /\ (1 <= b)%nat /\ exists c m, c' = Some c /\ (m < length (ic_flag_m c))%nat /\
                   (m < M)%nat /\ nth m (ic_flag_m c) false = true /\ n = (N + m)%nat).
      { intros n. unfold TM. destruct rm_m; [|simpl; split; [intros []|intros [Hf _]; discriminate]].
        destruct (b =? 0)%nat eqn:Eb; [apply Nat.eqb_eq in Eb; simpl; split; [intros []|intros (_ & Hf & _); lia]|].
        apply Nat.eqb_neq in Eb. simpl.
        destruct (machine_nodes I) as [|mn mt] eqn:Emn.
        - simpl. split; [intros []|]. intros (_ & _ & c & m & _ & _ & Hm & _).
          pose proof (length_machine_nodes I) as Hl. rewrite Emn in Hl. simpl in Hl. unfold M in Hm. lia.
        - simpl. rewrite <- Emn. destruct c' as [c|].
          + rewrite In_flagged_ids. split.
            * intros (m & Hm & Hf & Hg). split; [reflexivity|]. split; [lia|]. exists c, m.
              split; [reflexivity|]. split; [exact Hm|].
              destruct (Nat.lt_ge_cases m (num_machines I)) as [Hlt|Hge].
              -- rewrite get_machine_node_spec in Hg by exact Hlt. inversion Hg. auto.
              -- exfalso. unfold get_group_node in Hg.
                 rewrite (proj2 (nth_error_None _ _)) in Hg by (rewrite length_machine_nodes; exact Hge).
                 destruct (find (fun x0 => is_machine_node m (snd x0)) (machine_nodes I)) as [y|] eqn:Ef;
                   [|discriminate].
                 apply find_some in Ef. destruct Ef as [Hy Hmy]. unfold machine_nodes in Hy.
                 apply in_map_iff in Hy. destruct Hy as (m' & <- & Hm'). apply in_seq in Hm'. simpl in Hmy.
                 apply Nat.eqb_eq in Hmy. lia.
            * intros (_ & _ & c0 & m & Ec & Hm & HmM & Hf & ->). inversion Ec; subst c0.
              exists m. split; [exact Hm|]. split; [exact Hf|]. apply get_machine_node_spec. exact HmM.
          + split; [intros []|]. intros (_ & _ & c & m & Ec & _). discriminate. }
      assert (HTJ : forall n, In n TJ <->
                 rm_j = true /\ (2 <= b)%nat /\ exists c j, c' = Some c /\ (j < length (ic_flag_j c))%nat /\
                   (j < J)%nat /\ nth j (ic_flag_j c) false = true /\ n = (N + M + j)%nat).
      { intros n. unfold TJ. destruct rm_j; [|simpl; split; [intros []|intros [Hf _]; discriminate]].
        destruct (b <? 2)%nat eqn:Eb; [apply Nat.ltb_lt in Eb; simpl; split; [intros []|intros (_ & Hf & _); lia]|].
        apply Nat.ltb_ge in Eb. simpl.
        destruct (job_nodes I) as [|mn mt] eqn:Emn.
        - simpl. split; [intros []|]. intros (_ & _ & c & j & _ & _ & Hj & _).
          pose proof (length_job_nodes I) as Hl. rewrite Emn in Hl. simpl in Hl. unfold J in Hj. lia.
        - simpl. rewrite <- Emn. destruct c' as [c|].
          + rewrite In_flagged_ids. split.
            * intros (j & Hj & Hf & Hg). split; [reflexivity|]. split; [lia|]. exists c, j.
              split; [reflexivity|]. split; [exact Hj|].
              destruct (Nat.lt_ge_cases j (num_jobs I)) as [Hlt|Hge].
              -- rewrite get_job_node_spec in Hg by exact Hlt. inversion Hg. auto.
              -- exfalso. unfold get_group_node in Hg.
                 rewrite (proj2 (nth_error_None _ _)) in Hg by (rewrite length_job_nodes; exact Hge).
                 destruct (find (fun x0 => is_job_node j (snd x0)) (job_nodes I)) as [y|] eqn:Ef;
                   [|discriminate].
                 apply find_some in Ef. destruct Ef as [Hy Hmy]. unfold job_nodes in Hy.
                 apply in_map_iff in Hy. destruct Hy as (j' & <- & Hj'). apply in_seq in Hj'. simpl in Hmy.
                 apply Nat.eqb_eq in Hmy. lia.
            * intros (_ & _ & c0 & j & Ec & Hj & HjJ & Hf & ->). inversion Ec; subst c0.
              exists j. split; [exact Hj|]. split; [exact Hf|]. apply get_job_node_spec. exact HjJ.
          + split; [intros []|]. intros (_ & _ & c & j & Ec & _). discriminate. }
      clearbody TM TJ.
      assert (Hc'eq : forall c, rm_m || rm_j = true -> c' = Some c ->
                 exists c0, c = ic_update I x c0 /\ ic_inv I d' c /\
                            (rm_m = true -> ic_m c = true) /\ (rm_j = true -> ic_j c = true)).
      { intros c Ho Ec. destruct (Hic' Ho) as (c0 & _ & Hc0 & Hm & Hj & Hinv).
        unfold has_ic in Hc0. cbn [rgu_update u_deps u_ic] in Hc0. fold c' in Hc0. rewrite Ec in Hc0.
        inversion Hc0; subst c. exists c0. split; [reflexivity|]. split; [exact Hinv|].
        split; [exact Hm|exact Hj]. }
      split; [|split; [|split]].
      + (* every target is justified *)
        intros n Hn. apply in_app_iff in Hn. destruct Hn as [Hn|Hn].
        { eapply justified_mono; [|apply HJ; exact Hn]. eapply jnext_mono; eauto. }
        apply in_app_iff in Hn. destruct Hn as [Hn|Hn]; [|apply in_app_iff in Hn; destruct Hn as [Hn|Hn]].
        * apply in_map_iff in Hn. destruct Hn as ([j p] & <- & Hk).
          apply In_p_completed_sched, In_p_sched in Hk. destruct Hk as [[o' Ho'] Hp].
          left. exists j, p, o'. auto.
        * apply HTM in Hn. destruct Hn as (-> & H1 & c & m & Ec & Hml & HmM & Hf & ->).
          destruct (Hc'eq c eq_refl Ec) as (c0 & _ & Hinv & Hicm & _).
          destruct (ii_m _ _ _ Hinv (Hicm eq_refl)) as (_ & _ & Hall).
          destruct (Hall m HmM) as [_ Hfl]. apply Hfl in Hf. destruct Hf as [H0 _].
          right. left. split; [exact H1|]. exists m. split; [exact HmM|]. split; [reflexivity|].
          intros j p Hu. apply (unsched_key_In I d' j p Hi') in Hu.
          unfold cntM in H0. rewrite count_keys_zero in H0. apply H0. exact Hu.
        * apply HTJ in Hn. destruct Hn as (-> & H2 & c & j & Ec & Hjl & HjJ & Hf & ->).
          destruct (Hc'eq c (orb_true_r _) Ec) as (c0 & _ & Hinv & _ & Hicj).
          destruct (ii_j _ _ _ Hinv (Hicj eq_refl)) as (_ & _ & Hall).
          destruct (Hall j HjJ) as [_ Hfl]. apply Hfl in Hf. destruct Hf as [H0 _].
          right. right. split; [exact H2|]. exists j. split; [exact HjJ|]. split; [reflexivity|].
          intros p Hu. apply (unsched_key_In I d' j p Hi') in Hu.
          unfold cntJ in H0. rewrite count_keys_zero in H0. specialize (H0 _ Hu).
          unfold in_job in H0. simpl in H0. rewrite Nat.eqb_refl in H0. discriminate.
      + intros k Hk. apply in_app_iff. right. apply in_app_iff. left. apply in_map. exact Hk.
      + intros -> H1 c m Hc Hm Hf. apply in_app_iff. right. apply in_app_iff. right. apply in_app_iff. left.
        unfold has_ic in Hc. cbn [rgu_update u_deps u_ic] in Hc. fold c' in Hc.
        apply HTM. split; [reflexivity|]. split; [exact H1|]. exists c, m. split; [exact Hc|].
        destruct (Hc'eq c eq_refl Hc) as (c0 & _ & Hinv & Hicm & _).
        destruct (ii_m _ _ _ Hinv (Hicm eq_refl)) as (_ & Hl & _). unfold M in Hm. rewrite Hl. auto.
      + intros -> H2 c j Hc Hj Hf. apply in_app_iff. right. apply in_app_iff. right. apply in_app_iff. right.
        unfold has_ic in Hc. cbn [rgu_update u_deps u_ic] in Hc. fold c' in Hc.
        apply HTJ. split; [reflexivity|]. split; [exact H2|]. exists c, j. split; [exact Hc|].
        destruct (Hc'eq c (orb_true_r _) Hc) as (c0 & _ & Hinv & _ & Hicj).
        destruct (ii_j _ _ _ Hinv (Hicj eq_refl)) as (_ & Hl & _). unfold J in Hj. rewrite Hl. auto.
  Qed.

  Lemma RInv_step d u r x o row :
    Inv I d -> accepted I d r x o row -> RInv d u ->
    RInv (apply_sop I d x row) (rgu_update I fs (apply_sop I d x row) x u).
  Proof. intros Hi Ha Hr. eapply WInv_step; [exact Hi|exact Ha|apply RInv_WInv; exact Hr]. Qed.

  (** Every world reachable from the fresh one by a request list. *)
  Theorem rgu_run rs : forall d u, Inv I d -> RInv d u ->
    exists d' u', run_from rgu rgu_update I (rg_world fs d u) rs = rg_world fs d' u' /\
                  d' = fold_left (apply_req I) rs d /\ Inv I d' /\ RInv d' u'.
  Proof.
    assert (Hv : valid I) by exact (proj1 Hsc).
    induction rs as [|r t IH]; intros d u Hi Hr.
    - exists d, u. split; [reflexivity|split; [reflexivity|split; assumption]].
    - unfold run_from in *. simpl. rewrite rg_step.
      destruct (sop_of_request I d r) as [x|] eqn:E.
      + assert (H1 : apply_req I d r = apply_sop I d x (row_of d x)) by (unfold apply_req; rewrite E; reflexivity).
        rewrite H1. destruct (sop_of_request_accepted I d r x E) as (o & Ha).
        apply IH; [eapply Inv_apply_sop; eauto|eapply RInv_step; eauto].
      + assert (H1 : apply_req I d r = d) by (unfold apply_req; rewrite E; reflexivity).
        rewrite H1. apply IH; assumption.
  Qed.
End Run.

(** ** The clauses *)

Lemma is_rm_rmd g n : is_rm g n = true -> rmd g n = true.
Proof.
  unfold is_rm, rmd. intros H. destruct (Nat.lt_ge_cases n (length (g_removed g))) as [Hl|Hg].
  - rewrite (nth_indep _ true false Hl). exact H.
  - rewrite nth_overflow in H by exact Hg. discriminate.
Qed.
Lemma rmd_is_rm g n : (n < length (g_removed g))%nat -> rmd g n = true -> is_rm g n = true.
Proof. unfold is_rm, rmd. intros Hl H. rewrite (nth_indep _ false true Hl). exact H. Qed.

Lemma nodes_kinds I b x : (b <= 3)%nat -> In x (spec_nodes b I) ->
  match snd x with
  | OpNode j p => (exists o, get_op I j p = Some o) /\ fst x = op_id I j p
  | MachineNode m => (1 <= b)%nat /\ (m < num_machines I)%nat /\ fst x = (num_ops I + m)%nat
  | JobNode j => (2 <= b)%nat /\ (j < num_jobs I)%nat /\ fst x = (num_ops I + num_machines I + j)%nat
  | GlobalNode => b = 3%nat /\ fst x = (num_ops I + num_machines I + num_jobs I)%nat
  | SourceNode => b = 0%nat /\ fst x = num_ops I
  | SinkNode => b = 0%nat /\ fst x = S (num_ops I)
  end.
Proof.
  intros Hle Hin.
  assert (Hop : In x (op_nodes I) -> match snd x with
            | OpNode j p => (exists o, get_op I j p = Some o) /\ fst x = op_id I j p | _ => False end).
  { intros H. unfold op_nodes in H. apply in_map_iff in H. destruct H as ([j p] & <- & Hk).
    simpl. split; [apply In_all_keys; exact Hk|reflexivity]. }
  assert (Hm : In x (machine_nodes I) -> match snd x with
            | MachineNode m => (m < num_machines I)%nat /\ fst x = (num_ops I + m)%nat | _ => False end).
  { intros H. unfold machine_nodes in H. apply in_map_iff in H. destruct H as (m & <- & Hk).
    apply in_seq in Hk. simpl. split; [lia|reflexivity]. }
  assert (Hj : In x (job_nodes I) -> match snd x with
            | JobNode j => (j < num_jobs I)%nat /\ fst x = (num_ops I + num_machines I + j)%nat | _ => False end).
  { intros H. unfold job_nodes in H. apply in_map_iff in H. destruct H as (m & <- & Hk).
    apply in_seq in Hk. simpl. split; [lia|reflexivity]. }
  destruct b as [|[|[|[|?]]]]; try lia; simpl in Hin.
  - unfold nodes_disjunctive in Hin. apply in_app_iff in Hin. destruct Hin as [H|[<-|[<-|[]]]]; simpl; auto.
    apply Hop in H. destruct (snd x); tauto.
  - unfold nodes_agent_task in Hin. apply in_app_iff in Hin. destruct Hin as [H|H].
    + apply Hop in H. destruct (snd x); tauto.
    + apply Hm in H. destruct (snd x); try tauto. split; [lia|tauto].
  - unfold nodes_with_jobs in Hin. apply in_app_iff in Hin. destruct Hin as [H|H];
      [|apply in_app_iff in H; destruct H as [H|H]].
    + apply Hop in H. destruct (snd x); tauto.
    + apply Hm in H. destruct (snd x); try tauto. split; [lia|tauto].
    + apply Hj in H. destruct (snd x); try tauto. split; [lia|tauto].
  - unfold nodes_complete in Hin. apply in_app_iff in Hin. destruct Hin as [H|H];
      [|apply in_app_iff in H; destruct H as [H|H]; [|apply in_app_iff in H; destruct H as [H|[<-|[]]]]].
    + apply Hop in H. destruct (snd x); tauto.
    + apply Hm in H. destruct (snd x); try tauto. split; [lia|tauto].
    + apply Hj in H. destruct (snd x); try tauto. split; [lia|tauto].
    + simpl. split; reflexivity.
Qed.

(** nothing is running when everything is scheduled *)
Lemma raw_ready_all_scheduled (I : instance) : forall j0 nx,
  (forall i, (i < length I)%nat -> nth i nx 0%nat = length (nth i I [])) ->
  raw_ready_from I j0 nx = [].
Proof.
  induction I as [|job t IH]; intros j0 nx H; [reflexivity|].
  destruct nx as [|p nx']; [reflexivity|]. simpl.
  pose proof (H 0%nat ltac:(simpl; lia)) as H0. simpl in H0. subst p. rewrite Nat.ltb_irrefl.
  apply IH. intros i Hi. apply (H (S i)). simpl. lia.
Qed.

Lemma apply_filters_nil I d fs : apply_filters I d fs [] = [].
Proof.
  unfold apply_filters. induction fs as [|f t IH]; simpl; [reflexivity|].
  replace (apply_filter I d f []) with (@nil (nat * nat)); [exact IH|]. destruct f; reflexivity.
Qed.

Lemma flat_map_nil {A B} (f : A -> list B) l : (forall x, In x l -> f x = []) -> flat_map f l = [].
Proof.
  induction l as [|x t IH]; intros H; simpl; [reflexivity|].
  rewrite (H x (or_introl eq_refl)), IH; [reflexivity|]. intros y Hy. apply H. right. exact Hy.
Qed.

Lemma ongoing_complete I fs d : Inv I d ->
  (forall j, nthN (jnext d) j = length (get_job I j)) -> p_ongoing I fs d = [].
Proof.
  intros Hi Hall. unfold p_ongoing, p_now, p_avail, p_raw, raw_ready.
  rewrite raw_ready_all_scheduled by (intros i _; apply Hall).
  rewrite apply_filters_nil. simpl min_start_time.
  rewrite (makespan_derived I d Hi). unfold ongoing_at. apply flat_map_nil. intros row Hrow.
  destruct (rev row) as [|y r] eqn:Er; [reflexivity|]. simpl.
  assert (Hy : In y row) by (apply in_rev; rewrite Er; left; reflexivity).
  assert (Hle : s_end I y <= sp_makespan I (sched d)).
  { unfold sp_makespan. apply maxZ0_ge. apply in_map. unfold all_sops. apply in_concat. exists row; auto. }
  apply Z.leb_le in Hle. rewrite Hle. reflexivity.
Qed.

Section Clauses.
  Variable I : instance.
  Variable b : nat.
  Variable g0 : graph.
  Hypothesis Hsc : scope17 I b.
  Hypothesis Hb : built I b g0.
  Variable fs : list fname.
  Variables rm_m rm_j : bool.
  Variable d : dstate.
  Variable u : rgu.
  Hypothesis Hi : Inv I d.
  Hypothesis Hr : RInv I b g0 fs rm_m rm_j d u.
  Let N := num_ops I.
  Let M := num_machines I.
  Let J := num_jobs I.

  Lemma N_le_nodes : (num_ops I <= length (spec_nodes b I))%nat.
  Proof. rewrite (length_spec_nodes I b g0 Hb). destruct b as [|[|[|?]]]; lia. Qed.

  Lemma graph_shape L : u_graph u = fold_left remove_if_present L g0 ->
    gwf (u_graph u) /\ g_nodes (u_graph u) = spec_nodes b I /\
    length (g_removed (u_graph u)) = length (spec_nodes b I).
  Proof.
    intros EL. destruct (fold_char L g0 (gwf_g0 _ _ _ Hb)) as (Hw & Hst & _). rewrite <- EL in Hw, Hst.
    split; [exact Hw|]. destruct Hst as (_ & E2 & _ & _ & _ & E6).
    split; [rewrite E2; apply (bt_nodes _ _ _ Hb)|]. rewrite (wf_len _ Hw), E6. apply (bt_next _ _ _ Hb).
  Qed.

  Theorem cl_no_dangling : no_dangling (u_graph u).
  Proof.
    destruct (r_graph _ _ _ _ _ _ _ _ Hr) as (L & EL & _). destruct (graph_shape L EL) as (Hw & _).
    intros e He. apply (wf_edges _ Hw e He).
  Qed.

  Theorem cl_completed_removed : completed_removed I fs (u_graph u) d.
  Proof.
    destruct (r_graph _ _ _ _ _ _ _ _ Hr) as (L & EL & _ & HC & _).
    destruct (graph_shape L EL) as (Hw & _ & Hlen).
    intros k Hk. apply rmd_is_rm.
    - rewrite Hlen. destruct k as [j p]. apply In_p_completed_sched, In_p_sched in Hk.
      destruct Hk as [[o Ho] _]. pose proof (op_id_lt _ _ _ _ Ho). pose proof N_le_nodes. unfold kid. simpl. lia.
    - rewrite EL. apply fold_targets_removed; [apply (gwf_g0 _ _ _ Hb)|apply HC; exact Hk].
  Qed.

  Lemma protected_not_removed v : protected I b d v -> is_rm (u_graph u) v = false.
  Proof.
    intros HP. destruct (r_graph _ _ _ _ _ _ _ _ Hr) as (L & EL & HJ & _).
    destruct (is_rm (u_graph u) v) eqn:E; [|reflexivity]. apply is_rm_rmd in E.
    rewrite EL, (protected_kept I b g0 Hb (proj1 (proj2 Hsc)) d L v HJ HP) in E. discriminate.
  Qed.

  Theorem cl_unscheduled_kept : unscheduled_kept I (u_graph u) d.
  Proof.
    intros [j p] Hk. apply protected_not_removed. left. exists j, p. split; [|reflexivity].
    apply (unsched_key_In I d j p Hi). exact Hk.
  Qed.

  Theorem cl_group_nodes : group_nodes I (u_graph u) d.
  Proof.
    destruct (r_graph _ _ _ _ _ _ _ _ Hr) as (L & EL & _). destruct (graph_shape L EL) as (_ & En & _).
    intros x Hx Hrm. rewrite En in Hx. pose proof (nodes_kinds I b x (bt_b _ _ _ Hb) Hx) as Hk.
    destruct (snd x) as [j p|m|j| | |]; simpl; try exact Logic.I.
    - destruct Hk as (H1 & Hm & Ex). intros [j p] Hin.
      destruct (uses_machine I m (j, p)) eqn:Eu; [|reflexivity]. exfalso.
      rewrite protected_not_removed in Hrm; [discriminate|].
      right. right. left. split; [exact H1|]. exists m, j, p.
      split; [apply (unsched_key_In I d j p Hi); exact Hin|]. split; [exact Eu|exact Ex].
    - destruct Hk as (H2 & Hj & Ex). intros [j' p] Hin Ej. simpl in Ej. subst j'.
      rewrite protected_not_removed in Hrm; [discriminate|].
      right. right. right. split; [exact H2|]. exists j, p.
      split; [apply (unsched_key_In I d j p Hi); exact Hin|exact Ex].
  Qed.

  (** the next dispatch only adds removals *)
  Theorem cl_monotone_step x :
    monotone (g_removed (u_graph u)) (g_removed (u_graph (rgu_update I fs (apply_sop I d x (row_of d x)) x u))).
  Proof.
    destruct (r_graph _ _ _ _ _ _ _ _ Hr) as (L & EL & _). destruct (graph_shape L EL) as (Hw & _ & Hlen).
    rewrite (rgu_update_graph I fs _ x u Hw).
    set (T := targets I fs (apply_sop I d x (row_of d x)) x u).
    destruct (fold_char T (u_graph u) Hw) as (Hw' & Hst & _).
    intros n Hn. change (is_rm (u_graph u) n = true) in Hn.
    change (is_rm (fold_left remove_if_present T (u_graph u)) n = true).
    assert (Hlt : (n < length (g_removed (u_graph u)))%nat).
    { unfold is_rm in Hn. destruct (Nat.lt_ge_cases n (length (g_removed (u_graph u)))) as [Hl|Hg]; [exact Hl|].
      rewrite nth_overflow in Hn by exact Hg. discriminate. }
    apply rmd_is_rm.
    - rewrite (wf_len _ Hw'). destruct Hst as (_ & _ & _ & _ & _ & ->). rewrite <- (wf_len _ Hw). exact Hlt.
    - apply fold_monotone; [exact Hw|apply is_rm_rmd; exact Hn].
  Qed.

  (** *** everything removed at the end *)
  Hypothesis Hm1 : rm_m = true.
  Hypothesis Hj1 : rm_j = true.
  Hypothesis Hused : every_machine_used I.
  Hypothesis Hne : I <> [].
  Hypothesis Hcomplete : complete I (sched d).

  Lemma all_scheduled j : nthN (jnext d) j = length (get_job I j).
  Proof. apply (proj1 (Inv_all_scheduled_iff I d Hi)). apply (Inv_complete_iff I d Hi). exact Hcomplete. Qed.

  Lemma nothing_unscheduled : unscheduled_ops I d = [].
  Proof.
    destruct (unscheduled_ops I d) as [|[j p] t] eqn:E; [reflexivity|]. exfalso.
    assert (H : In (j, p) (unscheduled_ops I d)) by (rewrite E; left; reflexivity).
    apply (In_unscheduled I d j p Hi) in H. destruct H as [[o Ho] Hp].
    pose proof (get_op_pos_lt _ _ _ _ Ho). rewrite all_scheduled in Hp. lia.
  Qed.

  Lemma everything_completed j p o : get_op I j p = Some o -> In (j, p) (p_completed I fs d).
  Proof.
    intros Ho. unfold p_completed. apply filter_In. split.
    - unfold p_sched, scheduled_ops. apply In_scheduled_from. rewrite Nat.sub_0_r, (i_len_jn _ _ Hi).
      pose proof (get_op_job_lt _ _ _ _ Ho). pose proof (get_op_pos_lt _ _ _ _ Ho).
      pose proof (all_scheduled j) as Ha. unfold nthN, num_jobs, get_job in *. lia.
    - rewrite (ongoing_complete I fs d Hi all_scheduled). reflexivity.
  Qed.

  Theorem cl_all_removed : all_removed (u_graph u).
  Proof.
    destruct (r_graph _ _ _ _ _ _ _ _ Hr) as (L & EL & _ & HC & HM & HJ).
    destruct (graph_shape L EL) as (_ & En & Hlen).
    destruct Hsc as (_ & _ & Hnej & _). pose proof (bt_b _ _ _ Hb) as Hle.
    destruct (r_ic _ _ _ _ _ _ _ _ Hr ltac:(rewrite Hm1; reflexivity)) as (c & Hc & Hcm & Hcj & Hinv).
    (* every ordinary node is a target *)
    assert (HopsL : forall j p o, get_op I j p = Some o -> In (op_id I j p) L).
    { intros j p o Ho. apply (HC (j, p)). eapply everything_completed; eauto. }
    assert (HmL : (1 <= b)%nat -> forall m, (m < M)%nat -> In (N + m)%nat L).
    { intros H1 m Hm. apply (HM Hm1 H1 c m Hc Hm).
      destruct (ii_m _ _ _ Hinv (Hcm Hm1)) as (_ & _ & Hall). apply (Hall m Hm). split.
      - unfold cntM. rewrite nothing_unscheduled. reflexivity.
      - exact (Hused m Hm). }
    assert (HjL : (2 <= b)%nat -> forall j, (j < J)%nat -> In (N + M + j)%nat L).
    { intros H2 j Hj. apply (HJ Hj1 H2 c j Hc Hj).
      destruct (ii_j _ _ _ Hinv (Hcj Hj1)) as (_ & _ & Hall). apply (Hall j Hj). split.
      - unfold cntJ. rewrite nothing_unscheduled. reflexivity.
      - pose proof (Hnej _ (get_job_In I j Hj)) as Hnn.
        destruct (get_op_of_pos_lt I j 0) as [o Ho]; [destruct (get_job I j); [contradiction|simpl; lia]|].
        exists (j, 0%nat). split; [apply In_all_keys; eauto|]. unfold in_job. simpl. apply Nat.eqb_refl. }
    (* so every edge of the builder's graph has a removed endpoint *)
    assert (Hedge : forall e, In e (g_edges g0) -> exists w, In w L /\ touches w e = true).
    { intros [[u' v'] t] He. apply (bt_edges _ _ _ Hb) in He.
      assert (Hop : forall w j p o, is_op I w j p o -> In w L) by (intros w j p o [Ho ->]; eauto).
      assert (Tl : forall w, touches w (w, v', t) = true) by (intros w; apply touches_iff; left; reflexivity).
      assert (Tr : forall w, touches w (u', w, t) = true) by (intros w; apply touches_iff; right; reflexivity).
      destruct b as [|[|[|[|?]]]]; try lia; simpl in He.
      - destruct He as [[_ [H|[H|H]]]|[_ [H _]]].
        + destruct H as (j & p & o & o' & H1 & _). exists u'. split; [eapply Hop; eauto|apply Tl].
        + destruct H as [_ (j & o & H1)]. exists v'. split; [eapply Hop; eauto|apply Tr].
        + destruct H as [_ (j & p & o & H1 & _)]. exists u'. split; [eapply Hop; eauto|apply Tl].
        + destruct H as (_ & j & p & o & j' & p' & o' & m & H1 & _). exists u'. split; [eapply Hop; eauto|apply Tl].
      - destruct He as [_ [[H|H]|[H|H]]].
        + destruct H as (j & p & o & m & H1 & _). exists u'. split; [eapply Hop; eauto|apply Tl].
        + destruct H as (j & p & o & m & H1 & _). exists v'. split; [eapply Hop; eauto|apply Tr].
        + destruct H as (m & m' & Hm & _ & _ & -> & _). exists (N + m)%nat. split; [apply HmL; [lia|exact Hm]|apply Tl].
        + destruct H as (j & p & o & p' & o' & H1 & _). exists u'. split; [eapply Hop; eauto|apply Tl].
      - destruct He as [_ [[H|H]|[H|[[H|H]|H]]]].
        + destruct H as (j & p & o & m & H1 & _). exists u'. split; [eapply Hop; eauto|apply Tl].
        + destruct H as (j & p & o & m & H1 & _). exists v'. split; [eapply Hop; eauto|apply Tr].
        + destruct H as (m & m' & Hm & _ & _ & -> & _). exists (N + m)%nat. split; [apply HmL; [lia|exact Hm]|apply Tl].
        + destruct H as (j & p & o & H1 & _). exists u'. split; [eapply Hop; eauto|apply Tl].
        + destruct H as (j & p & o & H1 & _). exists v'. split; [eapply Hop; eauto|apply Tr].
        + destruct H as (j & j' & Hj & _ & _ & -> & _). exists (N + M + j)%nat. split; [apply HjL; [lia|exact Hj]|apply Tl].
      - destruct He as [_ [[H|H]|[[H|H]|[[H|H]|[H|H]]]]].
        + destruct H as (j & p & o & m & H1 & _). exists u'. split; [eapply Hop; eauto|apply Tl].
        + destruct H as (j & p & o & m & H1 & _). exists v'. split; [eapply Hop; eauto|apply Tr].
        + destruct H as (j & p & o & H1 & _). exists u'. split; [eapply Hop; eauto|apply Tl].
        + destruct H as (j & p & o & H1 & _). exists v'. split; [eapply Hop; eauto|apply Tr].
        + destruct H as (m & Hm & -> & _). exists (N + m)%nat. split; [apply HmL; [lia|exact Hm]|apply Tl].
        + destruct H as (m & Hm & -> & _). exists (N + m)%nat. split; [apply HmL; [lia|exact Hm]|apply Tr].
        + destruct H as (j & Hj & -> & _). exists (N + M + j)%nat. split; [apply HjL; [lia|exact Hj]|apply Tl].
        + destruct H as (j & Hj & -> & _). exists (N + M + j)%nat. split; [apply HjL; [lia|exact Hj]|apply Tr]. }
    pose proof (gwf_g0 _ _ _ Hb) as Hw0. destruct (fold_char L g0 Hw0) as (_ & _ & EE & R).
    (* at least one removal happened: the first operation of the first job *)
    assert (Hcalled : exists w, In w L /\ rmd g0 w = false).
    { assert (Hex : exists job t, I = job :: t) by (clear -Hne; destruct I; [contradiction|eauto]).
      destruct Hex as (job & t & EI).
      assert (Hjob : In job I) by (rewrite EI; left; reflexivity).
      pose proof (Hnej _ Hjob) as Hnn. destruct job as [|o job']; [contradiction|].
      assert (Ho : get_op I 0 0 = Some o) by (rewrite EI; reflexivity).
      exists (op_id I 0 0). split; [eapply HopsL; eauto|]. apply (rmd_g0 _ _ _ Hb).
      pose proof (op_id_lt _ _ _ _ Ho). pose proof N_le_nodes. lia. }
    intros x Hx. rewrite En in Hx. apply rmd_is_rm.
    - rewrite Hlen. pose proof (nodes_kinds I b x Hle Hx) as Hk. rewrite (length_spec_nodes I b g0 Hb).
      destruct (snd x) as [j p|m|j| | |].
      + destruct Hk as [[o Ho] ->]. pose proof (op_id_lt _ _ _ _ Ho). destruct b as [|[|[|?]]]; lia.
      + destruct Hk as (H1 & Hm & ->). destruct b as [|[|[|?]]]; lia.
      + destruct Hk as (H2 & Hj & ->). destruct b as [|[|[|?]]]; lia.
      + destruct Hk as [-> ->]. lia.
      + destruct Hk as [-> ->]. lia.
      + destruct Hk as [-> ->]. lia.
    - rewrite EL. apply R. right. split; [exact Hcalled|]. right.
      intros e He. rewrite EE in He. apply filter_In in He. destruct He as [He Hav]. exfalso.
      destruct (Hedge e He) as (w & Hw & Ht). unfold avoid in Hav. apply negb_true_iff in Hav.
      assert (existsb (fun u0 => touches u0 e) L = true) by (apply existsb_exists; exists w; auto). congruence.
  Qed.
End Clauses.

(** ** From the fresh world, any request list *)

Definition c17_run (I : instance) (fs : list fname) (ps : list pre) (rm_m rm_j : bool) (g0 : graph)
           (rs : list request) : world rgu :=
  run_from rgu rgu_update I (rg_world fs (init_d I) (rgu_fresh I ps rm_m rm_j g0)) rs.

Section Final.
  Variable I : instance.
  Variable b : nat.
  Variable g0 : graph.
  Hypothesis Hsc : scope17 I b.
  Hypothesis Hbuild : build_by_code b I = Some g0.
  Variable fs : list fname.
  Variable ps : list pre.
  Variables rm_m rm_j : bool.

  Let Hb : built I b g0 := build_built I b g0 Hsc Hbuild.

  Lemma c17_reach rs :
    exists d u, c17_run I fs ps rm_m rm_j g0 rs = rg_world fs d u /\
                d = fold_left (apply_req I) rs (init_d I) /\ Inv I d /\ RInv I b g0 fs rm_m rm_j d u.
  Proof. apply (rgu_run I b g0 Hsc Hb fs rm_m rm_j rs); [apply Inv_init|apply RInv_init; assumption]. Qed.

  Lemma c17_clause (P : graph -> dstate -> Prop) :
    (forall d u, Inv I d -> RInv I b g0 fs rm_m rm_j d u -> P (u_graph u) d) ->
    forall rs, exists d u, c17_run I fs ps rm_m rm_j g0 rs = rg_world fs d u /\
                           d = fold_left (apply_req I) rs (init_d I) /\ P (u_graph u) d.
  Proof.
    intros H rs. destruct (c17_reach rs) as (d & u & E1 & E2 & Hi & Hr). exists d, u.
    split; [exact E1|]. split; [exact E2|apply H; assumption].
  Qed.

  Theorem f_completed_removed rs :
    exists d u, c17_run I fs ps rm_m rm_j g0 rs = rg_world fs d u /\
                d = fold_left (apply_req I) rs (init_d I) /\ completed_removed I fs (u_graph u) d.
  Proof.
    apply (c17_clause (fun g d => completed_removed I fs g d)). intros d u Hi Hr.
    eapply cl_completed_removed; eauto.
  Qed.

  Theorem f_unscheduled_kept rs :
    exists d u, c17_run I fs ps rm_m rm_j g0 rs = rg_world fs d u /\
                d = fold_left (apply_req I) rs (init_d I) /\ unscheduled_kept I (u_graph u) d.
  Proof.
    apply (c17_clause (fun g d => unscheduled_kept I g d)). intros d u Hi Hr.
    eapply cl_unscheduled_kept; eauto.
  Qed.

  Theorem f_group_nodes rs :
    exists d u, c17_run I fs ps rm_m rm_j g0 rs = rg_world fs d u /\
                d = fold_left (apply_req I) rs (init_d I) /\ group_nodes I (u_graph u) d.
  Proof.
    apply (c17_clause (fun g d => group_nodes I g d)). intros d u Hi Hr. eapply cl_group_nodes; eauto.
  Qed.

  Theorem f_no_dangling rs :
    exists d u, c17_run I fs ps rm_m rm_j g0 rs = rg_world fs d u /\
                d = fold_left (apply_req I) rs (init_d I) /\ no_dangling (u_graph u).
  Proof.
    apply (c17_clause (fun g _ => no_dangling g)). intros d u Hi Hr. eapply cl_no_dangling; eauto.
  Qed.

  Lemma monotone_refl l : monotone l l.
  Proof. intros n H. exact H. Qed.
  Lemma monotone_trans a c e : monotone a c -> monotone c e -> monotone a e.
  Proof. intros H1 H2 n H. apply H2, H1, H. Qed.

  Lemma run_monotone rs' : forall d u, Inv I d -> RInv I b g0 fs rm_m rm_j d u ->
    exists d' u', run_from rgu rgu_update I (rg_world fs d u) rs' = rg_world fs d' u' /\
                  monotone (g_removed (u_graph u)) (g_removed (u_graph u')).
  Proof.
    assert (Hv : valid I) by exact (proj1 Hsc).
    induction rs' as [|r t IH]; intros d u Hi Hr.
    - exists d, u. split; [reflexivity|apply monotone_refl].
    - unfold run_from in *. simpl. rewrite rg_step. destruct (sop_of_request I d r) as [x|] eqn:E.
      + destruct (sop_of_request_accepted I d r x E) as (o & Ha).
        destruct (IH _ _ (Inv_apply_sop I d r x o _ Hv Hi Ha)
                     (RInv_step I b g0 Hsc Hb fs rm_m rm_j d u r x o _ Hi Ha Hr)) as (d' & u' & E' & Hm).
        exists d', u'. split; [exact E'|]. eapply monotone_trans; [|exact Hm].
        eapply cl_monotone_step; eauto.
      + apply IH; assumption.
  Qed.

  Theorem f_monotone rs rs' :
    exists d u d' u', c17_run I fs ps rm_m rm_j g0 rs = rg_world fs d u /\
                      c17_run I fs ps rm_m rm_j g0 (rs ++ rs') = rg_world fs d' u' /\
                      monotone (g_removed (u_graph u)) (g_removed (u_graph u')).
  Proof.
    destruct (c17_reach rs) as (d & u & E1 & _ & Hi & Hr).
    destruct (run_monotone rs' d u Hi Hr) as (d' & u' & E' & Hm).
    exists d, u, d', u'. split; [exact E1|]. split; [|exact Hm].
    unfold c17_run, run_from in *. rewrite fold_left_app, E1. exact E'.
  Qed.

  Theorem f_all_removed rs :
    rm_m = true -> rm_j = true -> every_machine_used I -> I <> [] ->
    exists d u, c17_run I fs ps rm_m rm_j g0 rs = rg_world fs d u /\
                d = fold_left (apply_req I) rs (init_d I) /\
                (complete I (sched d) -> all_removed (u_graph u)).
  Proof.
    intros H1 H2 H3 H4. apply (c17_clause (fun g d => complete I (sched d) -> all_removed g)).
    intros d u Hi Hr Hc. eapply cl_all_removed; eauto.
  Qed.

  (** the set of completed operations may be walked in any order *)
  Theorem f_order_irrelevant rs l l' :
    exists d u, c17_run I fs ps rm_m rm_j g0 rs = rg_world fs d u /\
      (Permutation.Permutation l l' ->
       remove_completed_operations I (u_graph u) l = remove_completed_operations I (u_graph u) l').
  Proof.
    destruct (c17_reach rs) as (d & u & E1 & _ & Hi & Hr). exists d, u. split; [exact E1|].
    destruct (r_graph _ _ _ _ _ _ _ _ Hr) as (L & EL & _).
    destruct (graph_shape I b g0 Hb u L EL) as (Hw & _). apply remove_completed_order_irrelevant. exact Hw.
  Qed.

  (** What the harness's oracle evaluates — the boolean clauses on the graph
      "as observed" (node list, removed flags, edges) and on the dispatcher
      state recomputed from the schedule rows — is true of every reachable
      state of the model. *)
  Theorem f_oracle rs :
    exists d u, c17_run I fs ps rm_m rm_j g0 rs = rg_world fs d u /\
      let g := observed_graph I (g_nodes (u_graph u)) (g_removed (u_graph u)) (g_edges (u_graph u)) in
      let d' := dstate_of I (sched d) in
      completed_removedb I fs g d' = true /\ unscheduled_keptb I g d' = true /\
      group_nodesb I g d' = true /\ no_danglingb g = true.
  Proof.
    destruct (c17_reach rs) as (d & u & E1 & _ & Hi & Hr). exists d, u. split; [exact E1|]. cbv zeta.
    rewrite (tracking_derived I d Hi).
    split; [apply completed_removedb_spec; eapply cl_completed_removed; eauto|].
    split; [apply unscheduled_keptb_spec; eapply cl_unscheduled_kept; eauto|].
    split; [apply group_nodesb_spec; eapply cl_group_nodes; eauto|].
    apply no_danglingb_spec. eapply cl_no_dangling; eauto.
  Qed.
End Final.
